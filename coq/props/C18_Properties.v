(* C18 — Centre-of-mass origin estimation is exact, path-independent and batch-invariant.
   This file contains ONLY the property theorems (closed by `exact`), their assumption
   reports, and non-vacuity examples.  All statements are over exact rationals (Q, ==). *)
From QV.lib Require Import Prelude Chunks C18_QTensor.
From QV.model Require Import C18_Model.
From QV.proof Require Import C18_Proofs C18_Proofs_Plane C18_Proofs_Shift C18_Proofs_Ext.
From Coq Require Import QArith Qround.
Local Close Scope Q_scope.

(* what every code path computes per pattern, sum(I * grid) / sum(I) with the "ij" meshgrids,
   is the intensity-weighted mean detector coordinate: row first, column second *)
Theorem C18_com_is_weighted_mean :
  forall (H W : nat) (I : matrix),
    wf_mat H W I -> peq (com_weighted H W I) (wmean H W (get I)).
Proof. exact com_is_weighted_mean. Qed.
Print Assumptions C18_com_is_weighted_mean.

(* with a detector mask the weights are I[r,c] * mask[r,c] *)
Theorem C18_com_masked_is_weighted_mean :
  forall (H W : nat) (I m : matrix),
    wf_mat H W I -> wf_mat H W m ->
    peq (com_weighted H W (apply_mask (Some m) I)) (wmean H W (fun r c => get I r c * get m r c)%Q).
Proof. exact com_masked_is_weighted_mean. Qed.
Print Assumptions C18_com_masked_is_weighted_mean.

(* for non-negative weights with positive total the origin lies inside the detector *)
Theorem C18_com_in_detector_range :
  forall (H W : nat) (w : nat -> nat -> Q),
    (forall r c, r < H -> c < W -> (0 <= w r c)%Q) -> (0 < dsum H W w)%Q ->
    (0 <= fst (wmean H W w) <= Qn H - 1)%Q /\ (0 <= snd (wmean H W w) <= Qn W - 1)%Q.
Proof. exact wmean_in_range. Qed.
Print Assumptions C18_com_in_detector_range.

(* the batched torch path: for EVERY batch size b >= 1 (1, non-dividing, larger than the number
   of patterns) every entry of com_measured is written, and holds the per-pattern value *)
Theorem C18_com_batch_invariant :
  forall (b H W : nat) (pats : list matrix),
    1 <= b ->
    calculate_origin b H W pats
    = (map (fun I => Some (fst (com_weighted H W I))) pats,
       map (fun I => Some (snd (com_weighted H W I))) pats).
Proof. exact calculate_origin_eq. Qed.
Print Assumptions C18_com_batch_invariant.

Theorem C18_com_batch_sizes_agree :
  forall (b b' H W : nat) (pats : list matrix),
    1 <= b -> 1 <= b' -> calculate_origin b H W pats = calculate_origin b' H W pats.
Proof. exact com_batch_invariant. Qed.
Print Assumptions C18_com_batch_sizes_agree.

Theorem C18_com_batched_is_weighted_mean :
  forall (b H W : nat) (pats : list matrix) (i : nat) (I : matrix),
    1 <= b -> Forall (wf_mat H W) pats -> nth_error pats i = Some I ->
    exists q0 q1,
      nth_error (fst (calculate_origin b H W pats)) i = Some (Some q0) /\
      nth_error (snd (calculate_origin b H W pats)) i = Some (Some q1) /\
      peq (q0, q1) (wmean H W (get I)).
Proof. exact com_batched_is_weighted_mean. Qed.
Print Assumptions C18_com_batched_is_weighted_mean.

(* _set_intensities_com: the looped path (with fixes/C18-looped-com-swap.diff applied) and the
   vectorised path return the same (com_r, com_c) arrays, with or without a detector mask *)
Theorem C18_com_vectorised_eq_looped :
  forall (Rn Cn H W : nat) (mask : option matrix) (I4 : list (list matrix)),
    wf_scan Rn Cn I4 -> com_looped Rn Cn H W mask I4 = com_vectorised H W mask I4.
Proof. exact com_vectorised_eq_looped. Qed.
Print Assumptions C18_com_vectorised_eq_looped.

(* the origin model on the flattened (C-order) pattern list and the dataset model agree *)
Theorem C18_com_models_agree :
  forall (b H W : nat) (I4 : list (list matrix)),
    1 <= b ->
    calculate_origin b H W (concat I4)
    = (map Some (concat (fst (com_vectorised H W None I4))),
       map Some (concat (snd (com_vectorised H W None I4)))).
Proof. exact com_models_agree. Qed.
Print Assumptions C18_com_models_agree.

(* constant fit (origin_measured.mean(0); np.mean * ones_like) of constant origins *)
Theorem C18_const_fit_exact :
  forall (k0 k1 : Q) (o0 o1 : list Q),
    o0 <> [] -> o1 <> [] ->
    (forall x, In x o0 -> (x == k0)%Q) -> (forall x, In x o1 -> (x == k1)%Q) ->
    peq (fit_constant_origin o0 o1) (k0, k1).
Proof. exact const_fit_exact. Qed.
Print Assumptions C18_const_fit_exact.

Theorem C18_fit_origin_constant_exact :
  forall (k : Q) (g : list (list Q)),
    concat g <> [] -> (forall row x, In row g -> In x row -> (x == k)%Q) ->
    forall row x, In row (fit_origin_constant g) -> In x row -> (x == k)%Q.
Proof. exact fit_origin_constant_exact. Qed.
Print Assumptions C18_fit_origin_constant_exact.

(* PCA plane fit: for points on z = A x + B y + D the covariance matrix built by
   fit_linear_plane annihilates (A, B, -1) *)
Theorem C18_plane_normal_in_kernel :
  forall (A B D : Q) (pts : list P3),
    pts <> [] -> on_plane A B D pts ->
    eq3 (matvec (plane_covariance pts) (mk3 A B (-1))) zero3.
Proof. exact plane_normal_in_kernel. Qed.
Print Assumptions C18_plane_normal_in_kernel.

(* ... and if eigh delivers what LAPACK promises (eigh_min_contract: a non-zero eigenvector of
   the smallest eigenvalue; any normalisation, either sign) and the scan positions are not
   collinear, the fitted surface passes through every input point *)
Theorem C18_plane_fit_exact :
  forall (A B D : Q) (pts : list P3) (lam : Q) (n : P3),
    on_plane A B D pts -> noncollinear pts ->
    eigh_min_contract (plane_covariance pts) lam n ->
    forall p, In p pts -> (plane_fitted pts n (px p) (py p) == pz p)%Q.
Proof. exact plane_fit_exact. Qed.
Print Assumptions C18_plane_fit_exact.

(* fit_origin (plane, parabola, ...: any family f containing the surface): a least-squares
   minimiser (curve_fit contract) reproduces data that lie exactly on a member of the family *)
Theorem C18_lsq_fit_exact :
  forall (P : Type) (f : P -> nat -> nat -> Q) (Rn Cn : nat) (data : list (list Q)) (p0 p : P),
    (forall r c, r < Rn -> c < Cn -> (f p0 r c == get data r c)%Q) ->
    (forall q, (sse f Rn Cn data p <= sse f Rn Cn data q)%Q) ->
    forall r c, r < Rn -> c < Cn -> (f p r c == get data r c)%Q.
Proof. exact @lsq_fit_exact. Qed.
Print Assumptions C18_lsq_fit_exact.

(* shift_origin_to: when origin - coordinate is integer valued, (base + shift) % size, the
   [-1,1] normalisation and bilinear grid_sample give exactly np.roll(I, (-sy, -sx), (0, 1)) *)
Theorem C18_integer_shift_is_roll :
  forall (H W : nat) (oy ox cy cx : Q) (sy sx : Z) (I : matrix),
    2 <= H -> 2 <= W -> wf_mat H W I ->
    (oy - cy == inject_Z sy)%Q -> (ox - cx == inject_Z sx)%Q ->
    meq (shift_pattern H W oy ox cy cx I) (roll2 (- sy) (- sx) I).
Proof. exact integer_shift_is_roll. Qed.
Print Assumptions C18_integer_shift_is_roll.

(* the same in index form: out[y, x] = in[(y + sy) mod H, (x + sx) mod W] *)
Theorem C18_integer_shift_index :
  forall (H W : nat) (oy ox cy cx : Q) (sy sx : Z) (I : matrix),
    2 <= H -> 2 <= W ->
    (oy - cy == inject_Z sy)%Q -> (ox - cx == inject_Z sx)%Q ->
    meq (shift_pattern H W oy ox cy cx I) (shift_index H W sy sx I).
Proof. exact shift_pattern_index. Qed.
Print Assumptions C18_integer_shift_index.

(* ---------------------------------------------------------------- the unrepaired loop *)
(* the looped path as currently written in /repo (kcm -> row, krm -> column) disagrees with
   the vectorised path on a 2 x 3 pattern: the finding repaired by the proposed fix *)
Example C18_unrepaired_loop_refuted :
  exists I4, wf_scan 1 1 I4 /\ Forall (Forall (wf_mat 2 3)) I4 /\
    ~ meq (fst (com_looped_unrepaired 1 1 2 3 None I4)) (fst (com_vectorised 2 3 None I4)).
Proof. exact com_looped_unrepaired_differs. Qed.

(* ---------------------------------------------------------------- non-vacuity *)
Definition ex_I : matrix := zmat [[1; 2; 3]; [4; 5; 60]]%Z.
Definition ex_J : matrix := zmat [[1; 1; 1]; [1; 1; 2]]%Z.
Definition ex_mask : matrix := zmat [[1; 1; 0]; [1; 1; 1]]%Z.

Example C18_nonvacuous_weighted_mean :
  wf_mat 2 3 ex_I /\ peq (com_weighted 2 3 ex_I) (23 # 25, 133 # 75)%Q.
Proof. split; [repeat constructor | split; vm_compute; reflexivity]. Qed.

Example C18_nonvacuous_masked :
  wf_mat 2 3 ex_I /\ wf_mat 2 3 ex_mask /\
  peq (wmean 2 3 (fun r c => get ex_I r c * get ex_mask r c)%Q) (23 # 24, 127 # 72)%Q.
Proof. split; [repeat constructor | split; [repeat constructor | split; vm_compute; reflexivity]]. Qed.

Example C18_nonvacuous_range :
  (forall r c, r < 2 -> c < 3 -> (0 <= get ex_I r c)%Q) /\ (0 < dsum 2 3 (get ex_I))%Q.
Proof.
  split; [| vm_compute; reflexivity].
  intros r c Hr Hc.
  destruct r as [|[|r]]; [| | lia]; (destruct c as [|[|[|c]]]; [| | | lia]); vm_compute; discriminate.
Qed.

Example C18_nonvacuous_batch :
  calculate_origin 2 2 3 [ex_I; ex_J; ex_I] = calculate_origin 1 2 3 [ex_I; ex_J; ex_I]
  /\ length (chunks 2 (seq 0 3)) = 2
  /\ map (option_map Qred) (fst (calculate_origin 2 2 3 [ex_I; ex_J; ex_I]))
     = [Some (23 # 25); Some (4 # 7); Some (23 # 25)]%Q
  /\ Forall (wf_mat 2 3) [ex_I; ex_J; ex_I] /\ nth_error [ex_I; ex_J; ex_I] 1 = Some ex_J.
Proof.
  split; [vm_compute; reflexivity|]. split; [reflexivity|]. split; [vm_compute; reflexivity|].
  split; [repeat constructor | reflexivity].
Qed.

Example C18_nonvacuous_paths :
  wf_scan 1 2 [[ex_I; ex_J]] /\
  map (map Qred) (fst (com_looped 1 2 2 3 (Some ex_mask) [[ex_I; ex_J]])) = [[23 # 24; 2 # 3]]%Q /\
  map (map Qred) (snd (com_looped 1 2 2 3 (Some ex_mask) [[ex_I; ex_J]])) = [[127 # 72; 1]]%Q.
Proof. split; [repeat constructor | split; vm_compute; reflexivity]. Qed.

Example C18_nonvacuous_const :
  peq (fit_constant_origin [19 # 8; 19 # 8; 38 # 16]%Q [3 # 2; 6 # 4; 3 # 2]%Q) (19 # 8, 3 # 2)%Q
  /\ [19 # 8; 19 # 8; 38 # 16]%Q <> [] /\ (forall x, In x [19 # 8; 19 # 8; 38 # 16]%Q -> (x == 19 # 8)%Q).
Proof.
  split; [split; vm_compute; reflexivity|]. split; [discriminate|].
  intros x Hx. cbn in Hx. destruct Hx as [<-|[<-|[<-|[]]]]; vm_compute; reflexivity.
Qed.

(* the eigh contract is satisfiable: z = 3/4 x + 1 on a 2 x 2 scan has the rational unit normal
   (3/5, 0, -4/5); all hypotheses of C18_plane_fit_exact hold and so does its conclusion *)
Example C18_nonvacuous_plane :
  on_plane (3 # 4)%Q 0%Q 1%Q ex_pts /\ noncollinear ex_pts /\
  eigh_min_contract (plane_covariance ex_pts) 0%Q ex_normal /\
  (dot3 ex_normal ex_normal == 1)%Q /\
  (plane_fitted ex_pts ex_normal 1%Q 0%Q == 7 # 4)%Q.
Proof.
  split; [exact ex_on_plane|]. split; [exact ex_noncollinear|]. split; [exact ex_contract|].
  split; vm_compute; reflexivity.
Qed.

Example C18_nonvacuous_lsq :
  let data := map (fun r => map (fun c => plane_fn (1 # 2, - (1 # 4), 2)%Q r c) (seq 0 3)) (seq 0 2) in
  forall q, (sse plane_fn 2 3 data ((1 # 2)%Q, (- (1 # 4))%Q, 2%Q) <= sse plane_fn 2 3 data q)%Q.
Proof.
  intros data q.
  assert (Hz : (sse plane_fn 2 3 data ((1 # 2)%Q, (- (1 # 4))%Q, 2%Q) == 0)%Q) by (vm_compute; reflexivity).
  rewrite Hz. unfold sse. apply dsum_nonneg. intros r c _ _. apply Qsq_nonneg.
Qed.

Example C18_nonvacuous_shift :
  meq (shift_pattern 2 3 1%Q (-1)%Q 0%Q 0%Q ex_I) (zmat [[60; 4; 5]; [3; 1; 2]]%Z) /\
  roll2 (-1) 1 ex_I = zmat [[60; 4; 5]; [3; 1; 2]]%Z /\ wf_mat 2 3 ex_I /\
  (1 - 0 == inject_Z 1)%Q /\ (-1 - 0 == inject_Z (-1))%Q.
Proof.
  split.
  - repeat constructor; vm_compute; reflexivity.
  - split; [vm_compute; reflexivity|]. split; [repeat constructor|]. split; vm_compute; reflexivity.
Qed.

(* ================================================================ round-3 extension *)
(* ---------------------------------------------------------------- masks and call histories *)
(* applying a 0/1 detector mask twice is applying it once, entry by entry (any shapes) *)
Theorem C18_mask_idempotent_binary :
  forall (I m : matrix), binary_mask m ->
    meq (apply_mask (Some m) (apply_mask (Some m) I)) (apply_mask (Some m) I).
Proof. exact mask_idempotent_binary. Qed.
Print Assumptions C18_mask_idempotent_binary.

(* so the looped path's `masked_intensity *= dp_mask` (as written before
   fixes/C18-looped-com-mutates-input.diff) does not change the CoM of a pattern it has already
   multiplied, PROVIDED the mask is 0/1 *)
Theorem C18_inplace_loop_binary_stable :
  forall (H W : nat) (I m : matrix), binary_mask m ->
    peq (com_weighted H W (apply_mask (Some m) (apply_mask (Some m) I)))
        (com_weighted H W (apply_mask (Some m) I)).
Proof. exact inplace_loop_binary_stable. Qed.
Print Assumptions C18_inplace_loop_binary_stable.

(* ... and it DOES change it for a fractional mask *)
Theorem C18_inplace_loop_fractional_refuted :
  exists (I m : matrix),
    wf_mat 1 2 I /\ wf_mat 1 2 m /\
    Forall (Forall (fun x => (0 <= x <= 1)%Q)) m /\
    ~ peq (com_weighted 1 2 (apply_mask (Some m) (apply_mask (Some m) I)))
          (com_weighted 1 2 (apply_mask (Some m) I)).
Proof. exact inplace_loop_fractional_differs. Qed.
Print Assumptions C18_inplace_loop_fractional_refuted.

(* repaired code (neither path touches the caller's array): whatever was called before on the
   same array -- either path, any masks, any number of calls -- every call returns the value of
   the vectorised path on the ORIGINAL array with that call's mask *)
Theorem C18_com_history_independent :
  forall (Rn Cn H W : nat) (I4 : list (list matrix)) (calls : list com_call),
    wf_scan Rn Cn I4 ->
    com_history (com_step Rn Cn H W) I4 calls
    = map (fun c => com_vectorised H W (call_mask c) I4) calls.
Proof. exact com_history_pure. Qed.
Print Assumptions C18_com_history_independent.

(* the in-place code: a looped call with a 0/1 mask followed by an unmasked call *)
Theorem C18_com_history_inplace_refuted :
  exists (I4 : list (list matrix)) (m : matrix),
    wf_scan 1 1 I4 /\ Forall (Forall (wf_mat 2 3)) I4 /\ wf_mat 2 3 m /\ binary_mask m /\
    exists r1 r2,
      com_history (com_step_inplace 1 1 2 3) I4 [ComCall false (Some m); ComCall true None] = [r1; r2] /\
      ~ meq (fst r2) (fst (com_vectorised 2 3 None I4)).
Proof. exact com_history_inplace_differs. Qed.
Print Assumptions C18_com_history_inplace_refuted.

(* the in-place code restricted to ONE 0/1 mask used by every call: history independent up
   to == (this is where the in-place multiplication is harmless) *)
Theorem C18_com_history_inplace_binary :
  forall (Rn Cn H W : nat) (m : matrix) (I4 : list (list matrix)) (calls : list com_call),
    wf_scan Rn Cn I4 -> binary_mask m ->
    Forall (fun c => call_mask c = Some m) calls ->
    Forall (fun r => req r (com_vectorised H W (Some m) I4))
           (com_history (com_step_inplace Rn Cn H W) I4 calls).
Proof. exact com_history_inplace_binary. Qed.
Print Assumptions C18_com_history_inplace_binary.

(* ---------------------------------------------------------------- curve_fit families *)
(* constants are planes, planes are parabolas, parabolas are bezier_two surfaces (explicit
   re-parametrisations, Bernstein basis) *)
Theorem C18_family_inclusions :
  (forall k r c, (plane_fn (plane_of_const k) r c == const_fn k r c)%Q) /\
  (forall p r c, (parabola_fn (parabola_of_plane p) r c == plane_fn p r c)%Q) /\
  (forall p r c, (bezier2_fn (bezier2_of_parabola p) r c == parabola_fn p r c)%Q).
Proof. exact (conj const_in_plane (conj plane_in_parabola parabola_in_bezier2)). Qed.
Print Assumptions C18_family_inclusions.

(* fit_origin with fit_function = plane / parabola / bezier_two: a least-squares minimiser
   (curve_fit contract) over ANY of the three families returns a plane the data lie on *)
Theorem C18_lsq_any_family_fits_plane :
  forall (Rn Cn : nat) (data : list (list Q)) (p0 : Q * Q * Q),
    (forall r c, r < Rn -> c < Cn -> (plane_fn p0 r c == get data r c)%Q) ->
    (forall p, (forall q, (sse plane_fn Rn Cn data p <= sse plane_fn Rn Cn data q)%Q) ->
               forall r c, r < Rn -> c < Cn -> (plane_fn p r c == get data r c)%Q) /\
    (forall p, (forall q, (sse parabola_fn Rn Cn data p <= sse parabola_fn Rn Cn data q)%Q) ->
               forall r c, r < Rn -> c < Cn -> (parabola_fn p r c == get data r c)%Q) /\
    (forall p, (forall q, (sse bezier2_fn Rn Cn data p <= sse bezier2_fn Rn Cn data q)%Q) ->
               forall r c, r < Rn -> c < Cn -> (bezier2_fn p r c == get data r c)%Q).
Proof. exact lsq_any_family_fits_plane. Qed.
Print Assumptions C18_lsq_any_family_fits_plane.

Theorem C18_lsq_plane_fits_const :
  forall (Rn Cn : nat) (data : list (list Q)) (k : Q) (p : Q * Q * Q),
    (forall r c, r < Rn -> c < Cn -> (k == get data r c)%Q) ->
    (forall q, (sse plane_fn Rn Cn data p <= sse plane_fn Rn Cn data q)%Q) ->
    forall r c, r < Rn -> c < Cn -> (plane_fn p r c == get data r c)%Q.
Proof. exact lsq_plane_fits_const. Qed.
Print Assumptions C18_lsq_plane_fits_const.

Theorem C18_lsq_bezier2_fits_parabola :
  forall (Rn Cn : nat) (data : list (list Q)) (p0 : Q * Q * Q * Q * Q * Q) p,
    (forall r c, r < Rn -> c < Cn -> (parabola_fn p0 r c == get data r c)%Q) ->
    (forall q, (sse bezier2_fn Rn Cn data p <= sse bezier2_fn Rn Cn data q)%Q) ->
    forall r c, r < Rn -> c < Cn -> (bezier2_fn p r c == get data r c)%Q.
Proof. exact lsq_bezier2_fits_parabola. Qed.
Print Assumptions C18_lsq_bezier2_fits_parabola.

(* ---------------------------------------------------------------- non-integer shifts *)
(* what shift_origin_to computes for ANY (rational) origin - coordinate, both sizes >= 2: the
   bilinear interpolation of the PERIODIC continuation at ((y + s_y) mod H, (x + s_x) mod W),
   except that a neighbour beyond the last row / column is replaced by 0 (zero padding) *)
Theorem C18_shift_general_exact :
  forall (H W : nat) (oy ox cy cx : Q) (I : matrix) (y x : nat),
    2 <= H -> 2 <= W -> y < H -> x < W ->
    (get (shift_pattern H W oy ox cy cx I) y x
     == seam_bilinear H W I (qmod (Qn y + (oy - cy)) (Qn H)) (qmod (Qn x + (ox - cx)) (Qn W)))%Q.
Proof. exact shift_general_exact. Qed.
Print Assumptions C18_shift_general_exact.

(* hence a true circular sub-pixel shift wherever the wrapped coordinate is not in the last
   row / column cell *)
Theorem C18_shift_general_interior :
  forall (H W : nat) (oy ox cy cx : Q) (I : matrix) (y x : nat),
    2 <= H -> 2 <= W -> y < H -> x < W ->
    (Qfloor (qmod (Qn y + (oy - cy)) (Qn H)) + 1 < Z.of_nat H)%Z ->
    (Qfloor (qmod (Qn x + (ox - cx)) (Qn W)) + 1 < Z.of_nat W)%Z ->
    (get (shift_pattern H W oy ox cy cx I) y x == get (pshift_pattern H W oy ox cy cx I) y x)%Q.
Proof. exact shift_general_interior. Qed.
Print Assumptions C18_shift_general_interior.

(* ... and NOT a circular shift at the seam (outside the property: it speaks of integer shifts) *)
Theorem C18_shift_fractional_seam_refuted :
  exists (I : matrix) (oy : Q),
    wf_mat 2 2 I /\ ~ meq (shift_pattern 2 2 oy 0 0 0 I) (pshift_pattern 2 2 oy 0 0 0 I).
Proof. exact shift_fractional_seam_differs. Qed.
Print Assumptions C18_shift_fractional_seam_refuted.

(* ---------------------------------------------------------------- every detector shape *)
(* with fixes/C18-shift-unit-detector-dimension.diff (normalisation by max(size-1, 1)) the
   integer shift is the roll for EVERY detector shape, 1 x W, H x 1 and 1 x 1 included *)
Theorem C18_integer_shift_is_roll_all_shapes :
  forall (H W : nat) (oy ox cy cx : Q) (sy sx : Z) (I : matrix),
    1 <= H -> 1 <= W -> wf_mat H W I ->
    (oy - cy == inject_Z sy)%Q -> (ox - cx == inject_Z sx)%Q ->
    meq (shift_pattern_r H W oy ox cy cx I) (roll2 (- sy) (- sx) I).
Proof. exact integer_shift_is_roll_all_shapes. Qed.
Print Assumptions C18_integer_shift_is_roll_all_shapes.

(* and the repair changes nothing where both sizes are >= 2, for any shift *)
Theorem C18_shift_repair_conservative :
  forall (H W : nat) (oy ox cy cx : Q) (I : matrix),
    2 <= H -> 2 <= W ->
    meq (shift_pattern_r H W oy ox cy cx I) (shift_pattern H W oy ox cy cx I).
Proof. exact shift_pattern_r_same. Qed.
Print Assumptions C18_shift_repair_conservative.

(* ---------------------------------------------------------------- non-vacuity (extension) *)
Example C18_nonvacuous_binary_mask :
  binary_mask ex_mask /\
  apply_mask (Some ex_mask) ex_I <> ex_I /\
  peq (com_weighted 2 3 (apply_mask (Some ex_mask) (apply_mask (Some ex_mask) ex_I))) (23 # 24, 127 # 72)%Q.
Proof.
  split; [repeat constructor; (left; reflexivity) || (right; reflexivity)|].
  split; [vm_compute; discriminate | split; vm_compute; reflexivity].
Qed.

Example C18_nonvacuous_history :
  wf_scan 1 2 [[ex_I; ex_J]] /\
  map (fun r => map (map Qred) (fst r))
      (com_history (com_step 1 2 2 3) [[ex_I; ex_J]]
                   [ComCall false (Some ex_mask); ComCall true None; ComCall false (Some ex_mask)])
  = [[[23 # 24; 2 # 3]]; [[23 # 25; 4 # 7]]; [[23 # 24; 2 # 3]]]%Q /\
  Forall (fun c => call_mask c = Some ex_mask) [ComCall false (Some ex_mask); ComCall true (Some ex_mask)].
Proof. split; [repeat constructor | split; [vm_compute; reflexivity | repeat constructor]]. Qed.

Example C18_nonvacuous_families :
  let pl := ((1 # 2)%Q, (- (1 # 4))%Q, 2%Q) in
  let data := map (fun r => map (fun c => plane_fn pl r c) (seq 0 3)) (seq 0 3) in
  (forall r c, r < 3 -> c < 3 -> (plane_fn pl r c == get data r c)%Q) /\
  (forall q, (sse bezier2_fn 3 3 data (bezier2_of_parabola (parabola_of_plane pl)) <= sse bezier2_fn 3 3 data q)%Q) /\
  (bezier2_fn (bezier2_of_parabola (3, 1 # 2, - (1 # 4), 1, 1 # 8, - (1 # 2))%Q) 2 1
   == parabola_fn (3, 1 # 2, - (1 # 4), 1, 1 # 8, - (1 # 2))%Q 2 1)%Q /\
  ~ (parabola_fn (3, 1 # 2, - (1 # 4), 1, 1 # 8, - (1 # 2))%Q 2 1 == plane_fn pl 2 1)%Q.
Proof.
  intros pl data. split; [| split; [| split]].
  - intros r c Hr Hc.
    destruct r as [|[|[|r]]]; [| | | lia]; (destruct c as [|[|[|c]]]; [| | | lia]); vm_compute; reflexivity.
  - intros q.
    assert (Hz : (sse bezier2_fn 3 3 data (bezier2_of_parabola (parabola_of_plane pl)) == 0)%Q) by (vm_compute; reflexivity).
    rewrite Hz. unfold sse. apply dsum_nonneg. intros r c _ _. apply Qsq_nonneg.
  - vm_compute. reflexivity.
  - vm_compute. discriminate.
Qed.

(* a quarter-pixel shift of a 3 x 3 pattern: entry (0,0) is interior (periodic interpolation),
   entry (2,0) is on the seam (the wrapped neighbour row 0 is replaced by zero) *)
Example C18_nonvacuous_fractional_shift :
  let I := zmat [[16; 32; 48]; [64; 80; 96]; [112; 128; 160]]%Z in
  (get (shift_pattern 3 3 (1 # 4) 0 0 0 I) 0 0 == 28)%Q /\
  (get (pshift_pattern 3 3 (1 # 4) 0 0 0 I) 0 0 == 28)%Q /\
  (get (shift_pattern 3 3 (1 # 4) 0 0 0 I) 2 0 == 84)%Q /\
  (get (pshift_pattern 3 3 (1 # 4) 0 0 0 I) 2 0 == 88)%Q /\
  (Qfloor (qmod (Qn 0 + ((1 # 4) - 0)) (Qn 3)) + 1 < 3)%Z.
Proof. cbv zeta. repeat split; vm_compute; reflexivity. Qed.

Example C18_nonvacuous_unit_detector :
  meq (shift_pattern_r 1 4 0 1 0 0 (zmat [[11; 8; 19; 4]]%Z)) (zmat [[8; 19; 4; 11]]%Z) /\
  roll2 (- 0) (- 1) (zmat [[11; 8; 19; 4]]%Z) = zmat [[8; 19; 4; 11]]%Z /\
  wf_mat 1 4 (zmat [[11; 8; 19; 4]]%Z) /\
  meq (shift_pattern_r 3 1 2 0 0 0 (zmat [[1]; [2]; [3]]%Z)) (zmat [[3]; [1]; [2]]%Z).
Proof.
  split; [repeat constructor; vm_compute; reflexivity|].
  split; [vm_compute; reflexivity|]. split; [repeat constructor|].
  repeat constructor; vm_compute; reflexivity.
Qed.
