(* C04 — Direct ptychography: batch-invariant, linear, and exact on analytic cases.
   ONLY the property theorems (closed by `exact`), their assumption reports and non-vacuity examples.
   The per-pixel kernel operators / multipliers, the per-pixel power, the aperture weights, the envelope
   and the norm function are universally quantified: the physics of gamma_factor etc. is NOT verified,
   the theorems say the result is the stated function of them.  The ring is any commutative ring with
   an involution and root-of-unity families (lib/DFT.v hypotheses, satisfiable: lib/DFT_Inst.v). *)
From Coq Require Import ZArith List Bool Arith Lia Ring Permutation.
From QV.lib Require Import Prelude Chunks FinSum DFT DFT2.
From QV.model Require Import C04_Model.

From QV.proof Require Import C04_Proofs_Main.
Import ListNotations.
Unset Implicit Arguments.
Local Open Scope nat_scope.

(* single-pass kernels (ssb, parallax, icom): for EVERY batch size b >= 1 the whole corrected stack equals the one-batch result (no algebraic hypotheses at all: each entry is written once with a value that depends on its own pixel only) *)
Theorem C04_batch_invariant_single_pass :
  forall (R : Type) (rO : R) (radd rmul : R -> R -> R) (conj : R -> R) (half : R) (rinv : R -> R)
         (N1 : nat) (w1 : Z -> R) (Ninv1 : R) (N2 : nat) (w2 : Z -> R) (Ninv2 : R)
         (n : nat) (contrib : nat -> img R) (wt : nat -> R) (env garbage : img R) (b : nat),
    1 <= b -> reconstruct_single rO radd rmul conj half rinv N1 N2 w1 w2 Ninv1 Ninv2 n contrib wt env garbage (batches_of n b) = reconstruct_single rO radd rmul conj half rinv N1 N2 w1 w2 Ninv1 Ninv2 n contrib wt env garbage [seq 0 n].
Proof. exact C04_batch_invariant_single_pass_main. Qed.
Print Assumptions C04_batch_invariant_single_pass.

(* the same for ANY two schedules whose batches partition the BF pixel list (shuffled, ragged, ...) *)
Theorem C04_batch_invariant_single_pass_any_partition :
  forall (R : Type) (rO : R) (radd rmul : R -> R -> R) (conj : R -> R) (half : R) (rinv : R -> R)
         (N1 : nat) (w1 : Z -> R) (Ninv1 : R) (N2 : nat) (w2 : Z -> R) (Ninv2 : R)
         (n : nat) (contrib : nat -> img R) (wt : nat -> R) (env garbage : img R) (batches batches' : list (list nat)),
    Permutation (concat batches) (seq 0 n) -> Permutation (concat batches') (seq 0 n) ->
    reconstruct_single rO radd rmul conj half rinv N1 N2 w1 w2 Ninv1 Ninv2 n contrib wt env garbage batches = reconstruct_single rO radd rmul conj half rinv N1 N2 w1 w2 Ninv1 Ninv2 n contrib wt env garbage batches'.
Proof. exact C04_batch_invariant_single_pass_any_partition_main. Qed.
Print Assumptions C04_batch_invariant_single_pass_any_partition.

(* two-pass kernels: the power accumulated batch by batch (`power += pow`) is the sum over ALL BF pixels, for any partition into batches *)
Theorem C04_power_accumulation :
  forall (R : Type) (rO rI : R) (radd rmul rsub : R -> R -> R) (ropp : R -> R)
         (Rth : ring_theory rO rI radd rmul rsub ropp (@eq R)) (n : nat) (contrib pw : nat -> img R) (garbage : img R) (batches : list (list nat)) (k1 k2 : nat),
    Permutation (concat batches) (seq 0 n) ->
    accumulated_power rO radd n contrib pw garbage batches k1 k2 = suml rO radd (map (fun j => pw j k1 k2) (seq 0 n)).
Proof. exact C04_power_accumulation_main. Qed.
Print Assumptions C04_power_accumulation.

(* two-pass kernels (obf, mf): every pixel of every corrected image is the same for every batch size b >= 1 as for one batch; the norm function may depend on the whole normalised power image (power.max() of mf) but only through its values on the grid *)
Theorem C04_batch_invariant_two_pass :
  forall (R : Type) (rO rI : R) (radd rmul rsub : R -> R -> R) (ropp : R -> R)
         (Rth : ring_theory rO rI radd rmul rsub ropp (@eq R)) (conj : R -> R) (Cok : conj_ok radd rmul conj) (half : R) (rinv : R -> R) (N1 : nat) (w1 : Z -> R) (Ninv1 : R) (N2 : nat) (w2 : Z -> R) (Ninv2 : R)
         (Rok1 : root_ok rO rI radd rmul conj N1 w1 Ninv1) (Rok2 : root_ok rO rI radd rmul conj N2 w2 Ninv2)
         (n : nat) (contrib pw : nat -> img R) (wt : nat -> R) (env : img R) (normf : img R -> img R) (garbage : img R)
         (b j : nat) (d : img R) (r1 r2 : nat),
    (forall P Q : img R, (forall k1 k2, k1 < N1 -> k2 < N2 -> P k1 k2 = Q k1 k2) ->
                         forall k1 k2, k1 < N1 -> k2 < N2 -> normf P k1 k2 = normf Q k1 k2) ->
    1 <= b -> j < n -> r1 < N1 -> r2 < N2 ->
    length (reconstruct_two rO radd rmul conj half rinv N1 N2 w1 w2 Ninv1 Ninv2 n contrib pw wt env normf garbage (batches_of n b)) = n /\ length (reconstruct_two rO radd rmul conj half rinv N1 N2 w1 w2 Ninv1 Ninv2 n contrib pw wt env normf garbage [seq 0 n]) = n /\
    nth j (reconstruct_two rO radd rmul conj half rinv N1 N2 w1 w2 Ninv1 Ninv2 n contrib pw wt env normf garbage (batches_of n b)) d r1 r2 = nth j (reconstruct_two rO radd rmul conj half rinv N1 N2 w1 w2 Ninv1 Ninv2 n contrib pw wt env normf garbage [seq 0 n]) d r1 r2.
Proof. exact C04_batch_invariant_two_pass_main. Qed.
Print Assumptions C04_batch_invariant_two_pass.

(* the same for any two partitions of the BF pixel list into batches *)
Theorem C04_batch_invariant_two_pass_any_partition :
  forall (R : Type) (rO rI : R) (radd rmul rsub : R -> R -> R) (ropp : R -> R)
         (Rth : ring_theory rO rI radd rmul rsub ropp (@eq R)) (conj : R -> R) (Cok : conj_ok radd rmul conj) (half : R) (rinv : R -> R) (N1 : nat) (w1 : Z -> R) (Ninv1 : R) (N2 : nat) (w2 : Z -> R) (Ninv2 : R)
         (Rok1 : root_ok rO rI radd rmul conj N1 w1 Ninv1) (Rok2 : root_ok rO rI radd rmul conj N2 w2 Ninv2)
         (n : nat) (contrib pw : nat -> img R) (wt : nat -> R) (env : img R) (normf : img R -> img R) (garbage : img R)
         (batches batches' : list (list nat)) (j : nat) (d : img R) (r1 r2 : nat),
    (forall P Q : img R, (forall k1 k2, k1 < N1 -> k2 < N2 -> P k1 k2 = Q k1 k2) ->
                         forall k1 k2, k1 < N1 -> k2 < N2 -> normf P k1 k2 = normf Q k1 k2) ->
    Permutation (concat batches) (seq 0 n) -> Permutation (concat batches') (seq 0 n) ->
    j < n -> r1 < N1 -> r2 < N2 ->
    nth j (reconstruct_two rO radd rmul conj half rinv N1 N2 w1 w2 Ninv1 Ninv2 n contrib pw wt env normf garbage batches) d r1 r2 = nth j (reconstruct_two rO radd rmul conj half rinv N1 N2 w1 w2 Ninv1 Ninv2 n contrib pw wt env normf garbage batches') d r1 r2.
Proof. exact C04_batch_invariant_two_pass_any_partition_main. Qed.
Print Assumptions C04_batch_invariant_two_pass_any_partition.

(* linearity in the stack, single-pass kernels: none of the normalisations (aperture weight, envelope) depends on the data, so for per-pixel LINEAR kernel operators and real scalars a, b the reconstruction of a*s1 + b*s2 is a*rec(s1) + b*rec(s2), for any sub-mask and batch size *)
Theorem C04_linear_in_stack_single_pass :
  forall (R : Type) (rO rI : R) (radd rmul rsub : R -> R -> R) (ropp : R -> R)
         (Rth : ring_theory rO rI radd rmul rsub ropp (@eq R)) (conj : R -> R) (Cok : conj_ok radd rmul conj) (half : R) (rinv : R -> R) (n1 : nat) (ws1 : Z -> R) (ninv1 : R) (n2 : nat) (ws2 : Z -> R) (ninv2 : R)
         (Roks1 : root_ok rO rI radd rmul conj n1 ws1 ninv1) (Roks2 : root_ok rO rI radd rmul conj n2 ws2 ninv2) (N1 : nat) (w1 : Z -> R) (Ninv1 : R) (N2 : nat) (w2 : Z -> R) (Ninv2 : R)
         (Rok1 : root_ok rO rI radd rmul conj N1 w1 Ninv1) (Rok2 : root_ok rO rI radd rmul conj N2 w2 Ninv2)
         (kern : nat * nat -> img R -> img R) (wtd : nat * nat -> R) (env garbage : img R)
         (a b : R) (s1 s2 : nat -> img R) (full sub : mask2) (bs j : nat) (d : img R) (r1 r2 : nat),
    (forall p a b (X Y : img R) k1 k2, k1 < N1 -> k2 < N2 ->
        kern p (fun i j => radd (rmul a (X i j)) (rmul b (Y i j))) k1 k2
        = radd (rmul a (kern p X k1 k2)) (rmul b (kern p Y k1 k2))) ->
    (forall p (X Y : img R), (forall k1 k2, k1 < N1 -> k2 < N2 -> X k1 k2 = Y k1 k2) ->
        forall k1 k2, k1 < N1 -> k2 < N2 -> kern p X k1 k2 = kern p Y k1 k2) ->
    conj a = a -> conj b = b ->
    1 <= bs -> j < ctx_n sub -> r1 < N1 -> r2 < N2 ->
    nth j (recon_mask_single rO radd rmul conj half rinv n1 n2 ws1 ws2 N1 N2 w1 w2 Ninv1 Ninv2 kern wtd (fun m i j => radd (rmul a (s1 m i j)) (rmul b (s2 m i j))) env garbage full sub bs) d r1 r2
    = radd (rmul a (nth j (recon_mask_single rO radd rmul conj half rinv n1 n2 ws1 ws2 N1 N2 w1 w2 Ninv1 Ninv2 kern wtd s1 env garbage full sub bs) d r1 r2)) (rmul b (nth j (recon_mask_single rO radd rmul conj half rinv n1 n2 ws1 ws2 N1 N2 w1 w2 Ninv1 Ninv2 kern wtd s2 env garbage full sub bs) d r1 r2)).
Proof. exact C04_linear_in_stack_single_pass_main. Qed.
Print Assumptions C04_linear_in_stack_single_pass.

(* linearity in the stack, two-pass kernels: the accumulated power is built from |gamma_j|^2 only (it does not depend on the stack), so obf/mf are linear as well *)
Theorem C04_linear_in_stack_two_pass :
  forall (R : Type) (rO rI : R) (radd rmul rsub : R -> R -> R) (ropp : R -> R)
         (Rth : ring_theory rO rI radd rmul rsub ropp (@eq R)) (conj : R -> R) (Cok : conj_ok radd rmul conj) (half : R) (rinv : R -> R) (n1 : nat) (ws1 : Z -> R) (ninv1 : R) (n2 : nat) (ws2 : Z -> R) (ninv2 : R)
         (Roks1 : root_ok rO rI radd rmul conj n1 ws1 ninv1) (Roks2 : root_ok rO rI radd rmul conj n2 ws2 ninv2) (N1 : nat) (w1 : Z -> R) (Ninv1 : R) (N2 : nat) (w2 : Z -> R) (Ninv2 : R)
         (Rok1 : root_ok rO rI radd rmul conj N1 w1 Ninv1) (Rok2 : root_ok rO rI radd rmul conj N2 w2 Ninv2)
         (kern : nat * nat -> img R -> img R) (pwd : nat * nat -> img R) (wtd : nat * nat -> R)
         (env : img R) (normf : img R -> img R) (garbage : img R)
         (a b : R) (s1 s2 : nat -> img R) (full sub : mask2) (bs j : nat) (d : img R) (r1 r2 : nat),
    (forall P Q : img R, (forall k1 k2, k1 < N1 -> k2 < N2 -> P k1 k2 = Q k1 k2) ->
                         forall k1 k2, k1 < N1 -> k2 < N2 -> normf P k1 k2 = normf Q k1 k2) ->
    (forall p a b (X Y : img R) k1 k2, k1 < N1 -> k2 < N2 ->
        kern p (fun i j => radd (rmul a (X i j)) (rmul b (Y i j))) k1 k2
        = radd (rmul a (kern p X k1 k2)) (rmul b (kern p Y k1 k2))) ->
    (forall p (X Y : img R), (forall k1 k2, k1 < N1 -> k2 < N2 -> X k1 k2 = Y k1 k2) ->
        forall k1 k2, k1 < N1 -> k2 < N2 -> kern p X k1 k2 = kern p Y k1 k2) ->
    conj a = a -> conj b = b ->
    1 <= bs -> j < ctx_n sub -> r1 < N1 -> r2 < N2 ->
    nth j (recon_mask_two rO radd rmul conj half rinv n1 n2 ws1 ws2 N1 N2 w1 w2 Ninv1 Ninv2 kern pwd wtd (fun m i j => radd (rmul a (s1 m i j)) (rmul b (s2 m i j))) env normf garbage full sub bs) d r1 r2
    = radd (rmul a (nth j (recon_mask_two rO radd rmul conj half rinv n1 n2 ws1 ws2 N1 N2 w1 w2 Ninv1 Ninv2 kern pwd wtd s1 env normf garbage full sub bs) d r1 r2)) (rmul b (nth j (recon_mask_two rO radd rmul conj half rinv n1 n2 ws1 ws2 N1 N2 w1 w2 Ninv1 Ninv2 kern pwd wtd s2 env normf garbage full sub bs) d r1 r2)).
Proof. exact C04_linear_in_stack_two_pass_main. Qed.
Print Assumptions C04_linear_in_stack_two_pass.

(* _return_bf_context: for a sub-mask of the construction mask (same shape, any shape incl. non-square), entry i of vbf_index_mapping is the position, in the row-major list of BF pixels of the full mask, of the i-th BF pixel of the sub-mask; the map has exactly one entry per sub-mask pixel *)
Theorem C04_index_map_correct :
  forall full sub : mask2, same_shape full sub -> submask full sub ->
    length (index_map full sub) = length (nonzero2 sub) /\
    forall i, i < length (nonzero2 sub) ->
      nth (nth i (index_map full sub) 0) (nonzero2 full) (0, 0) = nth i (nonzero2 sub) (0, 0).
Proof. exact C04_index_map_correct_main. Qed.
Print Assumptions C04_index_map_correct.

(* two complementary sub-masks (at every BF pixel of the full mask exactly one of them is set) split the stack indices 0..num_bf-1 into two disjoint sets covering everything *)
Theorem C04_complementary_masks_partition :
  forall full A B : mask2, same_shape full A -> same_shape full B ->
    (forall p, nth p (flat full) false = false -> nth p (flat A) false = false /\ nth p (flat B) false = false) ->
    (forall p, nth p (flat full) false = true -> nth p (flat A) false = negb (nth p (flat B) false)) ->
    Permutation (concat (map (index_map full) [A; B])) (seq 0 (ctx_n full)).
Proof. exact C04_complementary_masks_partition_main. Qed.
Print Assumptions C04_complementary_masks_partition.

(* single-pass kernels: reconstructions from sub-masks whose stack indices partition 0..num_bf-1, each with its own batch size, recombine -- weighted by their aperture weights -- to the full-mask result *)
Theorem C04_submask_recombine :
  forall (R : Type) (rO rI : R) (radd rmul rsub : R -> R -> R) (ropp : R -> R)
         (Rth : ring_theory rO rI radd rmul rsub ropp (@eq R)) (conj : R -> R) (half : R) (rinv : R -> R)
         (n1 : nat) (ws1 : Z -> R) (n2 : nat) (ws2 : Z -> R)
         (N1 : nat) (w1 : Z -> R) (Ninv1 : R) (N2 : nat) (w2 : Z -> R) (Ninv2 : R)
         (kern : nat * nat -> img R -> img R) (wtd : nat * nat -> R) (env garbage : img R) (stack : nat -> img R)
         (full : mask2) (parts : list mask2) (bsz : mask2 -> nat) (bF r1 r2 : nat),
    (forall part, In part parts ->
        same_shape full part /\ submask full part /\ 1 <= bsz part /\ rmul (bf_weights rO radd (ctx_n part) (ctx_wt wtd part)) (rinv (bf_weights rO radd (ctx_n part) (ctx_wt wtd part))) = rI) ->
    Permutation (concat (map (index_map full) parts)) (seq 0 (ctx_n full)) ->
    1 <= bF -> rmul (bf_weights rO radd (ctx_n full) (ctx_wt wtd full)) (rinv (bf_weights rO radd (ctx_n full) (ctx_wt wtd full))) = rI ->
    suml rO radd (map (fun part => rmul (bf_weights rO radd (ctx_n part) (ctx_wt wtd part)) (corrected_bf rO radd (recon_mask_single rO radd rmul conj half rinv n1 n2 ws1 ws2 N1 N2 w1 w2 Ninv1 Ninv2 kern wtd stack env garbage full part (bsz part)) r1 r2)) parts)
    = rmul (bf_weights rO radd (ctx_n full) (ctx_wt wtd full)) (corrected_bf rO radd (recon_mask_single rO radd rmul conj half rinv n1 n2 ws1 ws2 N1 N2 w1 w2 Ninv1 Ninv2 kern wtd stack env garbage full full bF) r1 r2).
Proof. exact C04_submask_recombine_main. Qed.
Print Assumptions C04_submask_recombine.

(* per BF pixel: W_sub * corrected_stack_sub[j] = W_full * corrected_stack_full[vbf_index_mapping[j]] *)
Theorem C04_submask_stack_entry :
  forall (R : Type) (rO rI : R) (radd rmul rsub : R -> R -> R) (ropp : R -> R)
         (Rth : ring_theory rO rI radd rmul rsub ropp (@eq R)) (conj : R -> R) (half : R) (rinv : R -> R)
         (n1 : nat) (ws1 : Z -> R) (n2 : nat) (ws2 : Z -> R)
         (N1 : nat) (w1 : Z -> R) (Ninv1 : R) (N2 : nat) (w2 : Z -> R) (Ninv2 : R)
         (kern : nat * nat -> img R -> img R) (wtd : nat * nat -> R) (env garbage : img R) (stack : nat -> img R)
         (full sub : mask2) (bs bF j : nat) (d : img R) (r1 r2 : nat),
    same_shape full sub -> submask full sub -> 1 <= bs -> 1 <= bF ->
    j < ctx_n sub -> nth j (index_map full sub) 0 < ctx_n full ->
    rmul (bf_weights rO radd (ctx_n sub) (ctx_wt wtd sub)) (rinv (bf_weights rO radd (ctx_n sub) (ctx_wt wtd sub))) = rI -> rmul (bf_weights rO radd (ctx_n full) (ctx_wt wtd full)) (rinv (bf_weights rO radd (ctx_n full) (ctx_wt wtd full))) = rI ->
    rmul (bf_weights rO radd (ctx_n sub) (ctx_wt wtd sub)) (nth j (recon_mask_single rO radd rmul conj half rinv n1 n2 ws1 ws2 N1 N2 w1 w2 Ninv1 Ninv2 kern wtd stack env garbage full sub bs) d r1 r2)
    = rmul (bf_weights rO radd (ctx_n full) (ctx_wt wtd full)) (nth (nth j (index_map full sub) 0) (recon_mask_single rO radd rmul conj half rinv n1 n2 ws1 ws2 N1 N2 w1 w2 Ninv1 Ninv2 kern wtd stack env garbage full full bF) d r1 r2).
Proof. exact C04_submask_stack_entry_main. Qed.
Print Assumptions C04_submask_stack_entry.

(* parallax, zero aberrations (multiplier 1), no sign flipping, no filters, real images: the image of BF pixel j is its mean-subtracted virtual image (zero-inserted on the upsampled grid; u = 1: the image itself) divided by the total aperture weight -- for every batch size *)
Theorem C04_parallax_zero_aberration :
  forall (R : Type) (rO rI : R) (radd rmul rsub : R -> R -> R) (ropp : R -> R)
         (Rth : ring_theory rO rI radd rmul rsub ropp (@eq R)) (conj : R -> R) (Cok : conj_ok radd rmul conj) (half : R) (rinv : R -> R) (n1 : nat) (ws1 : Z -> R) (ninv1 : R) (n2 : nat) (ws2 : Z -> R) (ninv2 : R)
         (Roks1 : root_ok rO rI radd rmul conj n1 ws1 ninv1) (Roks2 : root_ok rO rI radd rmul conj n2 ws2 ninv2) (N1 : nat) (w1 : Z -> R) (Ninv1 : R) (N2 : nat) (w2 : Z -> R) (Ninv2 : R)
         (Rok1 : root_ok rO rI radd rmul conj N1 w1 Ninv1) (Rok2 : root_ok rO rI radd rmul conj N2 w2 Ninv2)
         (u : nat) (Hu : 1 <= u) (HN1 : N1 = n1 * u) (HN2 : N2 = n2 * u)
         (Hws1 : forall a : Z, ws1 a = w1 (Z.of_nat u * a)%Z) (Hws2 : forall a : Z, ws2 a = w2 (Z.of_nat u * a)%Z)
         (g : nat * nat -> img R) (wtd : nat * nat -> R) (env garbage : img R) (stack : nat -> img R)
         (full sub : mask2) (b j : nat) (d : img R) (r1 r2 : nat),
    rmul half (radd rI rI) = rI ->
    (forall p k1 k2, k1 < N1 -> k2 < N2 -> g p k1 k2 = rI) ->
    (forall k1 k2, k1 < N1 -> k2 < N2 -> env k1 k2 = rI) ->
    (forall i k, conj ((stack (nth j (index_map full sub) 0)) i k) = (stack (nth j (index_map full sub) 0)) i k) ->
    1 <= b -> j < ctx_n sub -> r1 < N1 -> r2 < N2 ->
    nth j (recon_mask_single rO radd rmul conj half rinv n1 n2 ws1 ws2 N1 N2 w1 w2 Ninv1 Ninv2 (kern_mult rmul g) wtd stack env garbage full sub b) d r1 r2
    = rmul (upsample2 rO u (fun x1 x2 => rsub ((stack (nth j (index_map full sub) 0)) x1 x2) (rmul (rmul ninv1 ninv2) (sum2 rO radd n1 n2 ((stack (nth j (index_map full sub) 0)))))) r1 r2) (rinv (bf_weights rO radd (ctx_n sub) (ctx_wt wtd sub))).
Proof. exact C04_parallax_zero_aberration_main. Qed.
Print Assumptions C04_parallax_zero_aberration.

(* ... hence corrected_bf = sum_i (v_i - mean v_i) / W *)
Theorem C04_parallax_zero_aberration_bf :
  forall (R : Type) (rO rI : R) (radd rmul rsub : R -> R -> R) (ropp : R -> R)
         (Rth : ring_theory rO rI radd rmul rsub ropp (@eq R)) (conj : R -> R) (Cok : conj_ok radd rmul conj) (half : R) (rinv : R -> R) (n1 : nat) (ws1 : Z -> R) (ninv1 : R) (n2 : nat) (ws2 : Z -> R) (ninv2 : R)
         (Roks1 : root_ok rO rI radd rmul conj n1 ws1 ninv1) (Roks2 : root_ok rO rI radd rmul conj n2 ws2 ninv2) (N1 : nat) (w1 : Z -> R) (Ninv1 : R) (N2 : nat) (w2 : Z -> R) (Ninv2 : R)
         (Rok1 : root_ok rO rI radd rmul conj N1 w1 Ninv1) (Rok2 : root_ok rO rI radd rmul conj N2 w2 Ninv2)
         (u : nat) (Hu : 1 <= u) (HN1 : N1 = n1 * u) (HN2 : N2 = n2 * u)
         (Hws1 : forall a : Z, ws1 a = w1 (Z.of_nat u * a)%Z) (Hws2 : forall a : Z, ws2 a = w2 (Z.of_nat u * a)%Z)
         (g : nat * nat -> img R) (wtd : nat * nat -> R) (env garbage : img R) (stack : nat -> img R)
         (full sub : mask2) (b r1 r2 : nat),
    rmul half (radd rI rI) = rI ->
    (forall p k1 k2, k1 < N1 -> k2 < N2 -> g p k1 k2 = rI) ->
    (forall k1 k2, k1 < N1 -> k2 < N2 -> env k1 k2 = rI) ->
    (forall m i k, conj (stack m i k) = stack m i k) ->
    1 <= b -> r1 < N1 -> r2 < N2 ->
    corrected_bf rO radd (recon_mask_single rO radd rmul conj half rinv n1 n2 ws1 ws2 N1 N2 w1 w2 Ninv1 Ninv2 (kern_mult rmul g) wtd stack env garbage full sub b) r1 r2
    = rmul (suml rO radd (map (fun j => upsample2 rO u (fun x1 x2 => rsub ((stack (nth j (index_map full sub) 0)) x1 x2) (rmul (rmul ninv1 ninv2) (sum2 rO radd n1 n2 ((stack (nth j (index_map full sub) 0)))))) r1 r2) (seq 0 (ctx_n sub)))) (rinv (bf_weights rO radd (ctx_n sub) (ctx_wt wtd sub))).
Proof. exact C04_parallax_zero_aberration_bf_main. Qed.
Print Assumptions C04_parallax_zero_aberration_bf.

(* parallax with a phase ramp that corresponds to an integer pixel shift (s1 p, s2 p) per detector pixel p: the image of BF pixel j is its mean-subtracted virtual image circularly translated by that shift (np.roll), over W *)
Theorem C04_parallax_shift :
  forall (R : Type) (rO rI : R) (radd rmul rsub : R -> R -> R) (ropp : R -> R)
         (Rth : ring_theory rO rI radd rmul rsub ropp (@eq R)) (conj : R -> R) (Cok : conj_ok radd rmul conj) (half : R) (rinv : R -> R) (n1 : nat) (ws1 : Z -> R) (ninv1 : R) (n2 : nat) (ws2 : Z -> R) (ninv2 : R)
         (Roks1 : root_ok rO rI radd rmul conj n1 ws1 ninv1) (Roks2 : root_ok rO rI radd rmul conj n2 ws2 ninv2) (N1 : nat) (w1 : Z -> R) (Ninv1 : R) (N2 : nat) (w2 : Z -> R) (Ninv2 : R)
         (Rok1 : root_ok rO rI radd rmul conj N1 w1 Ninv1) (Rok2 : root_ok rO rI radd rmul conj N2 w2 Ninv2)
         (u : nat) (Hu : 1 <= u) (HN1 : N1 = n1 * u) (HN2 : N2 = n2 * u)
         (Hws1 : forall a : Z, ws1 a = w1 (Z.of_nat u * a)%Z) (Hws2 : forall a : Z, ws2 a = w2 (Z.of_nat u * a)%Z)
         (g : nat * nat -> img R) (wtd : nat * nat -> R) (env garbage : img R) (stack : nat -> img R)
         (s1 s2 : nat * nat -> Z) (full sub : mask2) (b j : nat) (d : img R) (r1 r2 : nat),
    rmul half (radd rI rI) = rI ->
    (forall p k1 k2, k1 < N1 -> k2 < N2 ->
        g p k1 k2 = rmul (w1 (Z.of_nat k1 * s1 p)%Z) (w2 (Z.of_nat k2 * s2 p)%Z)) ->
    (forall k1 k2, k1 < N1 -> k2 < N2 -> env k1 k2 = rI) ->
    (forall i k, conj ((stack (nth j (index_map full sub) 0)) i k) = (stack (nth j (index_map full sub) 0)) i k) ->
    1 <= b -> j < ctx_n sub -> r1 < N1 -> r2 < N2 ->
    nth j (recon_mask_single rO radd rmul conj half rinv n1 n2 ws1 ws2 N1 N2 w1 w2 Ninv1 Ninv2 (kern_mult rmul g) wtd stack env garbage full sub b) d r1 r2
    = rmul (roll2 N1 N2 (s1 (ctx_pix sub j)) (s2 (ctx_pix sub j)) (upsample2 rO u (fun x1 x2 => rsub ((stack (nth j (index_map full sub) 0)) x1 x2) (rmul (rmul ninv1 ninv2) (sum2 rO radd n1 n2 ((stack (nth j (index_map full sub) 0))))))) r1 r2) (rinv (bf_weights rO radd (ctx_n sub) (ctx_wt wtd sub))).
Proof. exact C04_parallax_shift_main. Qed.
Print Assumptions C04_parallax_shift.

(* ... hence corrected_bf = sum_i translate(shift_i)(v_i - mean v_i) / W *)
Theorem C04_parallax_shift_bf :
  forall (R : Type) (rO rI : R) (radd rmul rsub : R -> R -> R) (ropp : R -> R)
         (Rth : ring_theory rO rI radd rmul rsub ropp (@eq R)) (conj : R -> R) (Cok : conj_ok radd rmul conj) (half : R) (rinv : R -> R) (n1 : nat) (ws1 : Z -> R) (ninv1 : R) (n2 : nat) (ws2 : Z -> R) (ninv2 : R)
         (Roks1 : root_ok rO rI radd rmul conj n1 ws1 ninv1) (Roks2 : root_ok rO rI radd rmul conj n2 ws2 ninv2) (N1 : nat) (w1 : Z -> R) (Ninv1 : R) (N2 : nat) (w2 : Z -> R) (Ninv2 : R)
         (Rok1 : root_ok rO rI radd rmul conj N1 w1 Ninv1) (Rok2 : root_ok rO rI radd rmul conj N2 w2 Ninv2)
         (u : nat) (Hu : 1 <= u) (HN1 : N1 = n1 * u) (HN2 : N2 = n2 * u)
         (Hws1 : forall a : Z, ws1 a = w1 (Z.of_nat u * a)%Z) (Hws2 : forall a : Z, ws2 a = w2 (Z.of_nat u * a)%Z)
         (g : nat * nat -> img R) (wtd : nat * nat -> R) (env garbage : img R) (stack : nat -> img R)
         (s1 s2 : nat * nat -> Z) (full sub : mask2) (b r1 r2 : nat),
    rmul half (radd rI rI) = rI ->
    (forall p k1 k2, k1 < N1 -> k2 < N2 ->
        g p k1 k2 = rmul (w1 (Z.of_nat k1 * s1 p)%Z) (w2 (Z.of_nat k2 * s2 p)%Z)) ->
    (forall k1 k2, k1 < N1 -> k2 < N2 -> env k1 k2 = rI) ->
    (forall m i k, conj (stack m i k) = stack m i k) ->
    1 <= b -> r1 < N1 -> r2 < N2 ->
    corrected_bf rO radd (recon_mask_single rO radd rmul conj half rinv n1 n2 ws1 ws2 N1 N2 w1 w2 Ninv1 Ninv2 (kern_mult rmul g) wtd stack env garbage full sub b) r1 r2
    = rmul (suml rO radd (map (fun j => roll2 N1 N2 (s1 (ctx_pix sub j)) (s2 (ctx_pix sub j)) (upsample2 rO u (fun x1 x2 => rsub ((stack (nth j (index_map full sub) 0)) x1 x2) (rmul (rmul ninv1 ninv2) (sum2 rO radd n1 n2 ((stack (nth j (index_map full sub) 0))))))) r1 r2)
                                (seq 0 (ctx_n sub)))) (rinv (bf_weights rO radd (ctx_n sub) (ctx_wt wtd sub))).
Proof. exact C04_parallax_shift_bf_main. Qed.
Print Assumptions C04_parallax_shift_bf.

(* general (sub-pixel) shifts, sign flipping and filters: the image of BF pixel j is the real part of the Fourier multiplier (ramp_j * envelope) applied to the mean-subtracted (zero-inserted) virtual image, over W; C04_parallax_shift identifies the multiplier with a translation when the ramp is a character of an integer shift *)
Theorem C04_parallax_shift_general :
  forall (R : Type) (rO rI : R) (radd rmul rsub : R -> R -> R) (ropp : R -> R)
         (Rth : ring_theory rO rI radd rmul rsub ropp (@eq R)) (conj : R -> R) (Cok : conj_ok radd rmul conj) (half : R) (rinv : R -> R) (n1 : nat) (ws1 : Z -> R) (ninv1 : R) (n2 : nat) (ws2 : Z -> R) (ninv2 : R)
         (Roks1 : root_ok rO rI radd rmul conj n1 ws1 ninv1) (Roks2 : root_ok rO rI radd rmul conj n2 ws2 ninv2) (N1 : nat) (w1 : Z -> R) (Ninv1 : R) (N2 : nat) (w2 : Z -> R) (Ninv2 : R)
         (Rok1 : root_ok rO rI radd rmul conj N1 w1 Ninv1) (Rok2 : root_ok rO rI radd rmul conj N2 w2 Ninv2)
         (u : nat) (Hu : 1 <= u) (HN1 : N1 = n1 * u) (HN2 : N2 = n2 * u)
         (Hws1 : forall a : Z, ws1 a = w1 (Z.of_nat u * a)%Z) (Hws2 : forall a : Z, ws2 a = w2 (Z.of_nat u * a)%Z)
         (g : nat * nat -> img R) (wtd : nat * nat -> R) (env garbage : img R) (stack : nat -> img R)
         (full sub : mask2) (b j : nat) (d : img R) (r1 r2 : nat),
    1 <= b -> j < ctx_n sub -> r1 < N1 -> r2 < N2 ->
    nth j (recon_mask_single rO radd rmul conj half rinv n1 n2 ws1 ws2 N1 N2 w1 w2 Ninv1 Ninv2 (kern_mult rmul g) wtd stack env garbage full sub b) d r1 r2
    = rmul (re_part radd rmul conj half
              (fmul2 rO radd rmul N1 w1 Ninv1 N2 w2 Ninv2
                 (fun k1 k2 => rmul (g (ctx_pix sub j) k1 k2) (env k1 k2))
                 (upsample2 rO u (fun x1 x2 => rsub ((stack (nth j (index_map full sub) 0)) x1 x2) (rmul (rmul ninv1 ninv2) (sum2 rO radd n1 n2 ((stack (nth j (index_map full sub) 0))))))) r1 r2))
           (rinv (bf_weights rO radd (ctx_n sub) (ctx_wt wtd sub))).
Proof. exact C04_parallax_shift_general_main. Qed.
Print Assumptions C04_parallax_shift_general.

(* ------------------------------------------------------------------------------------------
   Non-vacuity: every theorem above instantiated on a concrete model of ALL its hypotheses --
   Gaussian rationals Q(i) (lib/DFT_Inst.v: ring, conjugation, 4th roots of unity), scan grid
   2 x 2 with ws a = w (2 a), reconstruction grid 4 x 4 (upsampling factor 2), a 2 x 3 detector
   mask with five BF pixels and two complementary sub-masks (proof/C04_Proofs_Inst.v). *)
From Coq Require Import QArith Qcanon.
From QV.lib Require Import DFT_Inst.
From QV.proof Require Import C04_Proofs_Base C04_Proofs_Inst.
Local Close Scope Q_scope.
Local Open Scope nat_scope.

Example C04_nonvacuous_batch_single :=
  C04_batch_invariant_single_pass C c0 cadd cmul cconj chalf cinv 4 w4 quarter 4 w4 quarter
    5 ex_contrib (fun _ => c1) ex_env ex_garbage 2 ltac:(lia).

Example C04_nonvacuous_batch_single_any :=
  C04_batch_invariant_single_pass_any_partition C c0 cadd cmul cconj chalf cinv 4 w4 quarter 4 w4 quarter
    3 ex_contrib (fun _ => c1) ex_env ex_garbage [[2; 0]; [1]] [seq 0 3] ex_perm (single_batch_partition 3).

Example C04_nonvacuous_power :=
  C04_power_accumulation C c0 c1 cadd cmul csub copp C_ring 3 ex_contrib ex_pw ex_garbage [[2; 0]; [1]] 1 2 ex_perm.

Example C04_nonvacuous_batch_two :=
  C04_batch_invariant_two_pass C c0 c1 cadd cmul csub copp C_ring cconj C_conj_ok chalf cinv
    4 w4 quarter 4 w4 quarter C_root_ok C_root_ok
    5 ex_contrib ex_pw (fun _ => c1) ex_env (fun X => X) ex_garbage 2 3 ex_garbage 1 2
    id_norm_respects ltac:(lia) ltac:(lia) ltac:(lia) ltac:(lia).

Example C04_nonvacuous_batch_two_any :=
  C04_batch_invariant_two_pass_any_partition C c0 c1 cadd cmul csub copp C_ring cconj C_conj_ok chalf cinv
    4 w4 quarter 4 w4 quarter C_root_ok C_root_ok
    3 ex_contrib ex_pw (fun _ => c1) ex_env (fun X => X) ex_garbage [[2; 0]; [1]] [seq 0 3] 1 ex_garbage 1 2
    id_norm_respects ex_perm (single_batch_partition 3) ltac:(lia) ltac:(lia) ltac:(lia).

Example C04_nonvacuous_linear_single :=
  C04_linear_in_stack_single_pass C c0 c1 cadd cmul csub copp C_ring cconj C_conj_ok chalf cinv
    2 ws2r chalf 2 ws2r chalf C_root_ok2 C_root_ok2 4 w4 quarter 4 w4 quarter C_root_ok C_root_ok
    (kern_mult cmul ex_g) wone ex_env ex_garbage ex_a ex_b ex_stack ex_stack' mfull mA 1 1 ex_garbage 1 2
    (kern_mult_linear ex_g) (kern_mult_ext ex_g) (creal_conj _) (creal_conj _)
    ltac:(lia) ltac:(cbv; lia) ltac:(lia) ltac:(lia).

Example C04_nonvacuous_linear_two :=
  C04_linear_in_stack_two_pass C c0 c1 cadd cmul csub copp C_ring cconj C_conj_ok chalf cinv
    2 ws2r chalf 2 ws2r chalf C_root_ok2 C_root_ok2 4 w4 quarter 4 w4 quarter C_root_ok C_root_ok
    (kern_mult cmul ex_g) (fun p => ex_pw (fst p)) wone ex_env (fun X => X) ex_garbage
    ex_a ex_b ex_stack ex_stack' mfull mB 2 2 ex_garbage 3 0
    id_norm_respects (kern_mult_linear ex_g) (kern_mult_ext ex_g) (creal_conj _) (creal_conj _)
    ltac:(lia) ltac:(cbv; lia) ltac:(lia) ltac:(lia).

Example C04_nonvacuous_index_map := C04_index_map_correct mfull mB eq_refl mB_sub.
(* the map of the example really is the one expected: B = pixels 1, 2, 4 of the five *)
Example C04_nonvacuous_index_map_value : index_map mfull mB = [1; 2; 4] /\ index_map mfull mA = [0; 3].
Proof. split; reflexivity. Qed.

Example C04_nonvacuous_complementary :=
  C04_complementary_masks_partition mfull mA mB eq_refl eq_refl mAB_off mAB_on.

Example C04_nonvacuous_recombine :=
  C04_submask_recombine C c0 c1 cadd cmul csub copp C_ring cconj chalf cinv 2 ws2r 2 ws2r
    4 w4 quarter 4 w4 quarter (kern_mult cmul ex_g) wone ex_env ex_garbage ex_stack
    mfull [mA; mB] (fun _ => 2) 3 1 2
    ex_parts_ok (C04_complementary_masks_partition mfull mA mB eq_refl eq_refl mAB_off mAB_on)
    ltac:(lia) (weight_inv mfull (or_introl eq_refl)).

Example C04_nonvacuous_recombine_entry :=
  C04_submask_stack_entry C c0 c1 cadd cmul csub copp C_ring cconj chalf cinv 2 ws2r 2 ws2r
    4 w4 quarter 4 w4 quarter (kern_mult cmul ex_g) wone ex_env ex_garbage ex_stack
    mfull mB 2 5 1 ex_garbage 1 2 eq_refl mB_sub ltac:(lia) ltac:(lia) ltac:(cbv; lia) ltac:(cbv; lia)
    (weight_inv mB (or_intror (or_intror eq_refl))) (weight_inv mfull (or_introl eq_refl)).

Example C04_nonvacuous_parallax_zero :=
  C04_parallax_zero_aberration C c0 c1 cadd cmul csub copp C_ring cconj C_conj_ok chalf cinv
    2 ws2r chalf 2 ws2r chalf C_root_ok2 C_root_ok2 4 w4 quarter 4 w4 quarter C_root_ok C_root_ok
    2 ltac:(lia) eq_refl eq_refl ws2r_link ws2r_link
    ex_one wone ex_env ex_garbage ex_stack mfull mB 2 1 ex_garbage 1 2
    chalf_ok (fun _ _ _ _ _ => eq_refl) (fun _ _ _ _ => eq_refl) (ex_stack_real _)
    ltac:(lia) ltac:(cbv; lia) ltac:(lia) ltac:(lia).

Example C04_nonvacuous_parallax_zero_bf :=
  C04_parallax_zero_aberration_bf C c0 c1 cadd cmul csub copp C_ring cconj C_conj_ok chalf cinv
    2 ws2r chalf 2 ws2r chalf C_root_ok2 C_root_ok2 4 w4 quarter 4 w4 quarter C_root_ok C_root_ok
    2 ltac:(lia) eq_refl eq_refl ws2r_link ws2r_link
    ex_one wone ex_env ex_garbage ex_stack mfull mfull 2 1 2
    chalf_ok (fun _ _ _ _ _ => eq_refl) (fun _ _ _ _ => eq_refl) ex_stack_real
    ltac:(lia) ltac:(lia) ltac:(lia).

Example C04_nonvacuous_parallax_shift :=
  C04_parallax_shift C c0 c1 cadd cmul csub copp C_ring cconj C_conj_ok chalf cinv
    2 ws2r chalf 2 ws2r chalf C_root_ok2 C_root_ok2 4 w4 quarter 4 w4 quarter C_root_ok C_root_ok
    2 ltac:(lia) eq_refl eq_refl ws2r_link ws2r_link
    ex_ramp wone ex_env ex_garbage ex_stack ex_s1 ex_s2 mfull mB 2 1 ex_garbage 1 2
    chalf_ok (fun _ _ _ _ _ => eq_refl) (fun _ _ _ _ => eq_refl) (ex_stack_real _)
    ltac:(lia) ltac:(cbv; lia) ltac:(lia) ltac:(lia).

Example C04_nonvacuous_parallax_shift_bf :=
  C04_parallax_shift_bf C c0 c1 cadd cmul csub copp C_ring cconj C_conj_ok chalf cinv
    2 ws2r chalf 2 ws2r chalf C_root_ok2 C_root_ok2 4 w4 quarter 4 w4 quarter C_root_ok C_root_ok
    2 ltac:(lia) eq_refl eq_refl ws2r_link ws2r_link
    ex_ramp wone ex_env ex_garbage ex_stack ex_s1 ex_s2 mfull mfull 3 1 2
    chalf_ok (fun _ _ _ _ _ => eq_refl) (fun _ _ _ _ => eq_refl) ex_stack_real
    ltac:(lia) ltac:(lia) ltac:(lia).

Example C04_nonvacuous_parallax_general :=
  C04_parallax_shift_general C c0 c1 cadd cmul csub copp C_ring cconj C_conj_ok chalf cinv
    2 ws2r chalf 2 ws2r chalf C_root_ok2 C_root_ok2 4 w4 quarter 4 w4 quarter C_root_ok C_root_ok
    2 ltac:(lia) eq_refl eq_refl ws2r_link ws2r_link
    ex_g wone ex_env ex_garbage ex_stack mfull mA 1 1 ex_garbage 3 3
    ltac:(lia) ltac:(cbv; lia) ltac:(lia) ltac:(lia).


(* ==========================================================================================
   Round-3 extension: the kernel factors (gamma_factor, ramps) over an abstract character and aperture,
   Hermitian multipliers / lossless real part, fftfreq index convention, object state. *)
From QV.model Require Import C04_Gamma_Model.
From QV.proof Require Import C04_Proofs_Ext.

(* gamma_factor (complex_probe.py), for any character E (exp(-i .)) and any real aperture A: gamma(k, q) = A(k) [ A(q-k) E(chi(q-k) - chi(k)) - A(q+k) E(chi(k) - chi(q+k)) ] -- the closed form in terms of the aberration surface at k, k+q, k-q and the aperture (recomputed in float64 against every gamma_factor call of real runs by harness/ext_C04.py) *)
Theorem C04_gamma_closed_form :
  forall (R : Type) (rO rI : R) (radd rmul rsub : R -> R -> R) (ropp : R -> R)
         (Rth : ring_theory rO rI radd rmul rsub ropp (@eq R)) (conj : R -> R) (Cok : conj_ok radd rmul conj)
         (K : Type) (kadd : K -> K -> K) (kneg : K -> K) (Ph : Type) (padd : Ph -> Ph -> Ph) (pneg : Ph -> Ph)
         (E : Ph -> R) (A : K -> R) (chi : K -> Ph) (k q : K),
    (forall a b, E (padd a b) = rmul (E a) (E b)) -> (forall a, conj (E a) = E (pneg a)) ->
    (forall v, conj (A v) = A v) ->
    gamma rmul rsub conj kadd kneg E A chi k q = gamma_closed rmul rsub kadd kneg padd pneg E A chi k q.
Proof. exact C04_gamma_closed_form_main. Qed.
Print Assumptions C04_gamma_closed_form.

(* zero aberrations (E(chi v) = 1): gamma(k, q) = A(k) (A(q-k) - A(q+k)), a real number (it vanishes where both shifted discs cover k: no phase contrast in the double-overlap region) *)
Theorem C04_gamma_zero_aberration :
  forall (R : Type) (rO rI : R) (radd rmul rsub : R -> R -> R) (ropp : R -> R)
         (Rth : ring_theory rO rI radd rmul rsub ropp (@eq R)) (conj : R -> R) (Cok : conj_ok radd rmul conj)
         (K : Type) (kadd : K -> K -> K) (kneg : K -> K) (Ph : Type)
         (E : Ph -> R) (A : K -> R) (chi : K -> Ph) (k q : K),
    (forall v, conj (A v) = A v) -> (forall v, E (chi v) = rI) ->
    gamma rmul rsub conj kadd kneg E A chi k q = rmul (A k) (rsub (A (ksub kadd kneg q k)) (A (kadd q k)))
    /\ conj (gamma rmul rsub conj kadd kneg E A chi k q) = gamma rmul rsub conj kadd kneg E A chi k q.
Proof. exact C04_gamma_zero_aberration_main. Qed.
Print Assumptions C04_gamma_zero_aberration.

(* Hermitian symmetry in q for an even probe (even aperture, even surface: C10, C12, C30, ... but not coma): gamma(k, -q) = - conj(gamma(k, q)) *)
Theorem C04_gamma_hermitian :
  forall (R : Type) (rO rI : R) (radd rmul rsub : R -> R -> R) (ropp : R -> R)
         (Rth : ring_theory rO rI radd rmul rsub ropp (@eq R)) (conj : R -> R) (Cok : conj_ok radd rmul conj)
         (K : Type) (kadd : K -> K -> K) (kneg : K -> K) (Ph : Type)
         (E : Ph -> R) (A : K -> R) (chi : K -> Ph) (k q : K),
    (forall a b, kneg (kadd a b) = kadd (kneg a) (kneg b)) -> (forall a, kneg (kneg a) = a) ->
    (forall v, A (kneg v) = A v) -> (forall v, chi (kneg v) = chi v) ->
    gamma rmul rsub conj kadd kneg E A chi k (kneg q) = ropp (conj (gamma rmul rsub conj kadd kneg E A chi k q)).
Proof. exact C04_gamma_hermitian_main. Qed.
Print Assumptions C04_gamma_hermitian.

(* ... hence |gamma|^2 (the power accumulated by obf / mf) is symmetric in q *)
Theorem C04_gamma_power_symmetric :
  forall (R : Type) (rO rI : R) (radd rmul rsub : R -> R -> R) (ropp : R -> R)
         (Rth : ring_theory rO rI radd rmul rsub ropp (@eq R)) (conj : R -> R) (Cok : conj_ok radd rmul conj)
         (K : Type) (kadd : K -> K -> K) (kneg : K -> K) (Ph : Type)
         (E : Ph -> R) (A : K -> R) (chi : K -> Ph) (k q : K),
    (forall a b, kneg (kadd a b) = kadd (kneg a) (kneg b)) -> (forall a, kneg (kneg a) = a) ->
    (forall v, A (kneg v) = A v) -> (forall v, chi (kneg v) = chi v) ->
    gamma_power rmul rsub conj kadd kneg E A chi k (kneg q) = gamma_power rmul rsub conj kadd kneg E A chi k q.
Proof. exact C04_gamma_power_symmetric_main. Qed.
Print Assumptions C04_gamma_power_symmetric.

(* gamma(k, 0) = 0 for an even probe: the DC term of the ssb / obf / mf numerators vanishes whatever _preprocess left there *)
Theorem C04_gamma_dc_zero :
  forall (R : Type) (rO rI : R) (radd rmul rsub : R -> R -> R) (ropp : R -> R)
         (Rth : ring_theory rO rI radd rmul rsub ropp (@eq R)) (conj : R -> R) (Cok : conj_ok radd rmul conj)
         (K : Type) (kadd : K -> K -> K) (kneg : K -> K) (Ph : Type)
         (E : Ph -> R) (A : K -> R) (chi : K -> Ph) (k k0 : K),
    (forall v, A (kneg v) = A v) -> (forall v, chi (kneg v) = chi v) -> (forall a, kadd k0 a = a) ->
    gamma rmul rsub conj kadd kneg E A chi k k0 = rO.
Proof. exact C04_gamma_dc_zero_main. Qed.
Print Assumptions C04_gamma_dc_zero.

(* the ssb / obf / mf Fourier multiplier -i conj(gamma(k, q)) / n(q) (n real, symmetric: clip(|gamma|), the norm) is Hermitian in q for an even probe *)
Theorem C04_sideband_multiplier_hermitian :
  forall (R : Type) (rO rI : R) (radd rmul rsub : R -> R -> R) (ropp : R -> R)
         (Rth : ring_theory rO rI radd rmul rsub ropp (@eq R)) (conj : R -> R) (Cok : conj_ok radd rmul conj)
         (K : Type) (kadd : K -> K -> K) (kneg : K -> K) (Ph : Type)
         (E : Ph -> R) (A : K -> R) (chi : K -> Ph) (mi : R) (ninv : K -> R) (k q : K),
    (forall a b, kneg (kadd a b) = kadd (kneg a) (kneg b)) -> (forall a, kneg (kneg a) = a) ->
    (forall v, A (kneg v) = A v) -> (forall v, chi (kneg v) = chi v) ->
    conj mi = ropp mi -> (forall v, conj (ninv v) = ninv v) -> (forall v, ninv (kneg v) = ninv v) ->
    conj (sb_factor rmul rsub conj kadd kneg E A chi mi ninv k q) = sb_factor rmul rsub conj kadd kneg E A chi mi ninv k (kneg q).
Proof. exact C04_sideband_multiplier_hermitian_main. Qed.
Print Assumptions C04_sideband_multiplier_hermitian.

(* the parallax multiplier exp(-i grad_k . q) sign(q) is Hermitian in q (any shift, sub-pixel included; sign real and symmetric) *)
Theorem C04_parallax_multiplier_hermitian :
  forall (R : Type) (radd rmul : R -> R -> R) (conj : R -> R) (Cok : conj_ok radd rmul conj)
         (K : Type) (kneg : K -> K) (Ph : Type) (padd : Ph -> Ph -> Ph) (pneg : Ph -> Ph)
         (E : Ph -> R) (pair : K -> K -> Ph) (sgn : K -> R) (grad q : K),
    (forall a b, E (padd a b) = rmul (E a) (E b)) -> (forall a, conj (E a) = E (pneg a)) ->
    (forall g v, pair g (kneg v) = pneg (pair g v)) ->
    (forall v, conj (sgn v) = sgn v) -> (forall v, sgn (kneg v) = sgn v) ->
    conj (prlx_factor rmul E pair sgn grad q) = prlx_factor rmul E pair sgn grad (kneg q).
Proof. exact C04_parallax_multiplier_hermitian_main. Qed.
Print Assumptions C04_parallax_multiplier_hermitian.

(* a Hermitian Fourier multiplier maps real images to real images (every grid size): conj DFT / inverse-DFT reflection lemmas *)
Theorem C04_hermitian_multiplier_real :
  forall (R : Type) (rO rI : R) (radd rmul rsub : R -> R -> R) (ropp : R -> R)
         (Rth : ring_theory rO rI radd rmul rsub ropp (@eq R)) (conj : R -> R) (Cok : conj_ok radd rmul conj)
         (N1 : nat) (w1 : Z -> R) (Ninv1 : R) (N2 : nat) (w2 : Z -> R) (Ninv2 : R)
         (Rok1 : root_ok rO rI radd rmul conj N1 w1 Ninv1) (Rok2 : root_ok rO rI radd rmul conj N2 w2 Ninv2)
         (h x : img R) (n1 n2 : nat),
    (forall k1 k2, k1 < N1 -> k2 < N2 -> conj (h k1 k2) = h (negidx N1 k1) (negidx N2 k2)) ->
    (forall i j, i < N1 -> j < N2 -> conj (x i j) = x i j) ->
    conj (fmul2 rO radd rmul N1 w1 Ninv1 N2 w2 Ninv2 h x n1 n2) = fmul2 rO radd rmul N1 w1 Ninv1 N2 w2 Ninv2 h x n1 n2.
Proof. exact C04_hermitian_multiplier_real_main. Qed.
Print Assumptions C04_hermitian_multiplier_real.

(* reconstruct with a multiplier kernel (all five are) whose multiplier x envelope is Hermitian on the index grid, real virtual image: corrected_stack[j] IS the inverse transform over W -- `.real` in `fourier_factor.real / BF_weights` discards nothing (any sub-mask, batch size, upsampling) *)
Theorem C04_hermitian_kernel_real_part_lossless :
  forall (R : Type) (rO rI : R) (radd rmul rsub : R -> R -> R) (ropp : R -> R)
         (Rth : ring_theory rO rI radd rmul rsub ropp (@eq R)) (conj : R -> R) (Cok : conj_ok radd rmul conj) (half : R) (rinv : R -> R)
         (n1 : nat) (ws1 : Z -> R) (ninv1 : R) (n2 : nat) (ws2 : Z -> R) (ninv2 : R)
         (Roks1 : root_ok rO rI radd rmul conj n1 ws1 ninv1) (Roks2 : root_ok rO rI radd rmul conj n2 ws2 ninv2)
         (N1 : nat) (w1 : Z -> R) (Ninv1 : R) (N2 : nat) (w2 : Z -> R) (Ninv2 : R)
         (Rok1 : root_ok rO rI radd rmul conj N1 w1 Ninv1) (Rok2 : root_ok rO rI radd rmul conj N2 w2 Ninv2)
         (u : nat) (Hu : 1 <= u) (HN1 : N1 = n1 * u) (HN2 : N2 = n2 * u)
         (Hws1 : forall a : Z, ws1 a = w1 (Z.of_nat u * a)%Z) (Hws2 : forall a : Z, ws2 a = w2 (Z.of_nat u * a)%Z)
         (g : nat * nat -> img R) (wtd : nat * nat -> R) (env garbage : img R) (stack : nat -> img R)
         (full sub : mask2) (b j : nat) (d : img R) (r1 r2 : nat),
    rmul half (radd rI rI) = rI ->
    (forall k1 k2, k1 < N1 -> k2 < N2 ->
        conj (rmul (g (ctx_pix sub j) k1 k2) (env k1 k2))
        = rmul (g (ctx_pix sub j) (negidx N1 k1) (negidx N2 k2)) (env (negidx N1 k1) (negidx N2 k2))) ->
    (forall i k, conj ((stack (nth j (index_map full sub) 0)) i k) = (stack (nth j (index_map full sub) 0)) i k) ->
    1 <= b -> j < ctx_n sub -> r1 < N1 -> r2 < N2 ->
    nth j (recon_mask_single rO radd rmul conj half rinv n1 n2 ws1 ws2 N1 N2 w1 w2 Ninv1 Ninv2 (kern_mult rmul g) wtd stack env garbage full sub b) d r1 r2
    = rmul (fmul2 rO radd rmul N1 w1 Ninv1 N2 w2 Ninv2
              (fun k1 k2 => rmul (g (ctx_pix sub j) k1 k2) (env k1 k2))
              (upsample2 rO u (fun x1 x2 => rsub ((stack (nth j (index_map full sub) 0)) x1 x2) (rmul (rmul ninv1 ninv2) (sum2 rO radd n1 n2 ((stack (nth j (index_map full sub) 0))))))) r1 r2)
           (rinv (bf_weights rO radd (ctx_n sub) (ctx_wt wtd sub))).
Proof. exact C04_hermitian_kernel_real_part_lossless_main. Qed.
Print Assumptions C04_hermitian_kernel_real_part_lossless.

(* from symmetry in the frequency vector to symmetry on the index grid, when the frequency of the reflected index is the negated frequency (odd axis lengths; on an even axis the Nyquist index is its own reflection and fftfreq gives -N/2 there: the hypothesis fails at that row/column only) *)
Theorem C04_grid_multiplier_hermitian :
  forall (R : Type) (conj : R -> R) (K : Type) (kneg : K -> K) (N1 N2 : nat) (qof : nat -> nat -> K) (F : K -> R),
    (forall q, conj (F q) = F (kneg q)) ->
    (forall k1 k2, k1 < N1 -> k2 < N2 -> qof (negidx N1 k1) (negidx N2 k2) = kneg (qof k1 k2)) ->
    forall k1 k2, k1 < N1 -> k2 < N2 -> conj (F (qof k1 k2)) = F (qof (negidx N1 k1) (negidx N2 k2)).
Proof. exact C04_grid_multiplier_hermitian_main. Qed.
Print Assumptions C04_grid_multiplier_hermitian.

(* torch.fft.fftfreq index convention: an integer-shift ramp evaluated at the SIGNED frequency index (k - N above Nyquist, what the code's qxa holds) equals the ramp at the unsigned index k used by C04_parallax_shift *)
Theorem C04_ramp_fftfreq_index :
  forall (R : Type) (rO rI : R) (radd rmul rsub : R -> R -> R) (ropp : R -> R)
         (Rth : ring_theory rO rI radd rmul rsub ropp (@eq R)) (conj : R -> R) (Cok : conj_ok radd rmul conj)
         (N : nat) (w : Z -> R) (Ninv : R) (Rok : root_ok rO rI radd rmul conj N w Ninv) (k : nat) (s : Z),
    w (signed_idx N k * s)%Z = w (Z.of_nat k * s)%Z.
Proof. exact C04_ramp_fftfreq_index_main. Qed.
Print Assumptions C04_ramp_fftfreq_index.

(* object state: reconstruct reads only what construction fixed and its arguments and writes only corrected_stack, so the k-th call on a used object equals the same call on a fresh object, and the inputs are unchanged (harness/ext_C04.py checks the read / write sets on the real object) *)
Theorem C04_state_history_independent :
  forall (In Args Res : Type) (f : In -> Args -> Res) (i : In) (before : list Args) (a : Args),
    corrected (run_calls f (construct Res i) (before ++ [a])) = Some (f i a)
    /\ corrected (reconstruct_call f (construct Res i) a) = Some (f i a)
    /\ inputs (run_calls f (construct Res i) (before ++ [a])) = i.
Proof. exact C04_state_history_independent_main. Qed.
Print Assumptions C04_state_history_independent.

(* an integer-shift ramp is Hermitian on the index grid for EVERY grid size (so C04_hermitian_kernel_real_part_lossless applies to integer parallax shifts also on even grids) *)
Theorem C04_integer_ramp_hermitian :
  forall (R : Type) (rO rI : R) (radd rmul rsub : R -> R -> R) (ropp : R -> R)
         (Rth : ring_theory rO rI radd rmul rsub ropp (@eq R)) (conj : R -> R) (Cok : conj_ok radd rmul conj)
         (N1 : nat) (w1 : Z -> R) (Ninv1 : R) (N2 : nat) (w2 : Z -> R) (Ninv2 : R)
         (Rok1 : root_ok rO rI radd rmul conj N1 w1 Ninv1) (Rok2 : root_ok rO rI radd rmul conj N2 w2 Ninv2)
         (s1 s2 : Z) (k1 k2 : nat),
    k1 < N1 -> k2 < N2 ->
    conj (rmul (w1 (Z.of_nat k1 * s1)%Z) (w2 (Z.of_nat k2 * s2)%Z))
    = rmul (w1 (Z.of_nat (negidx N1 k1) * s1)%Z) (w2 (Z.of_nat (negidx N2 k2) * s2)%Z).
Proof. exact C04_integer_ramp_hermitian_main. Qed.
Print Assumptions C04_integer_ramp_hermitian.

(* sub-masks that OVERLAP or do not cover the construction mask (outside the recombination claim of the property): the aperture-weighted sum of their reconstructions is the sum of W_full x (image of the full reconstruction) over the stack indices of all parts, an index counted once per part containing it; C04_submask_recombine is the case where the indices form a permutation *)
Theorem C04_submask_any_family :
  forall (R : Type) (rO rI : R) (radd rmul rsub : R -> R -> R) (ropp : R -> R)
         (Rth : ring_theory rO rI radd rmul rsub ropp (@eq R)) (conj : R -> R) (half : R) (rinv : R -> R)
         (n1 : nat) (ws1 : Z -> R) (n2 : nat) (ws2 : Z -> R)
         (N1 : nat) (w1 : Z -> R) (Ninv1 : R) (N2 : nat) (w2 : Z -> R) (Ninv2 : R)
         (kern : nat * nat -> img R -> img R) (wtd : nat * nat -> R) (env garbage : img R) (stack : nat -> img R)
         (full : mask2) (parts : list mask2) (bsz : mask2 -> nat) (bF : nat) (d : img R) (r1 r2 : nat),
    (forall part, In part parts ->
        same_shape full part /\ submask full part /\ 1 <= bsz part /\ rmul (bf_weights rO radd (ctx_n part) (ctx_wt wtd part)) (rinv (bf_weights rO radd (ctx_n part) (ctx_wt wtd part))) = rI) ->
    (forall part m, In part parts -> In m (index_map full part) -> m < ctx_n full) ->
    1 <= bF -> rmul (bf_weights rO radd (ctx_n full) (ctx_wt wtd full)) (rinv (bf_weights rO radd (ctx_n full) (ctx_wt wtd full))) = rI ->
    suml rO radd (map (fun part => rmul (bf_weights rO radd (ctx_n part) (ctx_wt wtd part)) (corrected_bf rO radd (recon_mask_single rO radd rmul conj half rinv n1 n2 ws1 ws2 N1 N2 w1 w2 Ninv1 Ninv2 kern wtd stack env garbage full part (bsz part)) r1 r2)) parts)
    = suml rO radd (map (fun m => rmul (bf_weights rO radd (ctx_n full) (ctx_wt wtd full)) (nth m (recon_mask_single rO radd rmul conj half rinv n1 n2 ws1 ws2 N1 N2 w1 w2 Ninv1 Ninv2 kern wtd stack env garbage full full bF) d r1 r2))
                   (concat (map (index_map full) parts))).
Proof. exact C04_submask_any_family_main. Qed.
Print Assumptions C04_submask_any_family.


(* ------------------------------------------------------------------------------------------
   Non-vacuity of the round-3 theorems: Gaussian rationals, K = Z x Z, phases Z, E = w4, an even real
   aperture exA, an even surface exchi, the 4 x 4 grid (proof/C04_Proofs_ExtInst.v). *)
From QV.proof Require Import C04_Proofs_ExtInst.

Example C04_nonvacuous_gamma_closed :=
  C04_gamma_closed_form C c0 c1 cadd cmul csub copp C_ring cconj C_conj_ok Kz kadd2 kneg2 Z Z.add Z.opp
    w4 exA exchi (1, 0)%Z (1, 1)%Z w4_add w4_conj exA_real.
(* ... and gamma is not trivially zero there *)
Example C04_nonvacuous_gamma_value :
  gamma cmul csub cconj kadd2 kneg2 w4 exA exchi (1, 0)%Z (1, 1)%Z <> c0.
Proof. intro H. apply (f_equal fst) in H. apply (f_equal Qcanon.this) in H. vm_compute in H. discriminate H. Qed.

Example C04_nonvacuous_gamma_zero :=
  C04_gamma_zero_aberration C c0 c1 cadd cmul csub copp C_ring cconj C_conj_ok Kz kadd2 kneg2 Z
    w4 exA exchi0 (1, 0)%Z (1, 1)%Z exA_real w4_chi0.

Example C04_nonvacuous_gamma_hermitian :=
  C04_gamma_hermitian C c0 c1 cadd cmul csub copp C_ring cconj C_conj_ok Kz kadd2 kneg2 Z
    w4 exA exchi (1, 0)%Z (1, 1)%Z kneg2_add kneg2_invol exA_even exchi_even.

Example C04_nonvacuous_gamma_power :=
  C04_gamma_power_symmetric C c0 c1 cadd cmul csub copp C_ring cconj C_conj_ok Kz kadd2 kneg2 Z
    w4 exA exchi (1, 0)%Z (1, 1)%Z kneg2_add kneg2_invol exA_even exchi_even.

Example C04_nonvacuous_gamma_dc :=
  C04_gamma_dc_zero C c0 c1 cadd cmul csub copp C_ring cconj C_conj_ok Kz kadd2 kneg2 Z
    w4 exA exchi (1, 0)%Z kzero2 exA_even exchi_even kzero2_l.

Example C04_nonvacuous_sideband_hermitian :=
  C04_sideband_multiplier_hermitian C c0 c1 cadd cmul csub copp C_ring cconj C_conj_ok Kz kadd2 kneg2 Z
    w4 exA exchi exmi exninv (1, 0)%Z (1, 1)%Z kneg2_add kneg2_invol exA_even exchi_even exmi_conj
    (fun _ => eq_refl) (fun _ => eq_refl).

Example C04_nonvacuous_parallax_hermitian :=
  C04_parallax_multiplier_hermitian C cadd cmul cconj C_conj_ok Kz kneg2 Z Z.add Z.opp
    w4 expair exsgn (2, -1)%Z (1, 1)%Z w4_add w4_conj expair_neg (fun _ => eq_refl) (fun _ => eq_refl).

Example C04_nonvacuous_ramp_hermitian :=
  C04_integer_ramp_hermitian C c0 c1 cadd cmul csub copp C_ring cconj C_conj_ok 4 w4 quarter 4 w4 quarter
    C_root_ok C_root_ok 1%Z (-2)%Z 2 3 ltac:(lia) ltac:(lia).

Example C04_nonvacuous_hermitian_real :=
  C04_hermitian_multiplier_real C c0 c1 cadd cmul csub copp C_ring cconj C_conj_ok 4 w4 quarter 4 w4 quarter
    C_root_ok C_root_ok (fun k1 k2 => cmul (w4 (Z.of_nat k1 * 1)%Z) (w4 (Z.of_nat k2 * (-2))%Z)) (ex_stack 1) 1 2
    (fun k1 k2 H1 H2 => C04_integer_ramp_hermitian C c0 c1 cadd cmul csub copp C_ring cconj C_conj_ok 4 w4 quarter 4 w4 quarter
                          C_root_ok C_root_ok 1%Z (-2)%Z k1 k2 H1 H2)
    (fun i j _ _ => ex_stack_real 1 i j).

Lemma ex_ramp_env_hermitian p : forall k1 k2, k1 < 4 -> k2 < 4 ->
  cconj (cmul (ex_ramp p k1 k2) (ex_env k1 k2)) = cmul (ex_ramp p (negidx 4 k1) (negidx 4 k2)) (ex_env (negidx 4 k1) (negidx 4 k2)).
Proof.
  intros k1 k2 H1 H2. unfold ex_env, ex_ramp.
  rewrite (conj_mul _ _ _ _ C_conj_ok).
  rewrite (C04_integer_ramp_hermitian C c0 c1 cadd cmul csub copp C_ring cconj C_conj_ok 4 w4 quarter 4 w4 quarter
             C_root_ok C_root_ok (ex_s1 p) (ex_s2 p) k1 k2 H1 H2).
  reflexivity.
Qed.

Example C04_nonvacuous_lossless :=
  C04_hermitian_kernel_real_part_lossless C c0 c1 cadd cmul csub copp C_ring cconj C_conj_ok chalf cinv
    2 ws2r chalf 2 ws2r chalf C_root_ok2 C_root_ok2 4 w4 quarter 4 w4 quarter C_root_ok C_root_ok
    2 ltac:(lia) eq_refl eq_refl ws2r_link ws2r_link
    ex_ramp wone ex_env ex_garbage ex_stack mfull mB 2 1 ex_garbage 1 2
    chalf_ok (ex_ramp_env_hermitian _) (ex_stack_real _)
    ltac:(lia) ltac:(cbv; lia) ltac:(lia) ltac:(lia).

Example C04_nonvacuous_grid_hermitian :=
  C04_grid_multiplier_hermitian C cconj Kz kneg2 4 4 exqof
    (sb_factor cmul csub cconj kadd2 kneg2 w4 exA exchi exmi exninv (1, 0)%Z)
    (fun q => C04_sideband_multiplier_hermitian C c0 c1 cadd cmul csub copp C_ring cconj C_conj_ok Kz kadd2 kneg2 Z
                w4 exA exchi exmi exninv (1, 0)%Z q kneg2_add kneg2_invol exA_even exchi_even exmi_conj
                (fun _ => eq_refl) (fun _ => eq_refl))
    exqof_neg.

Example C04_nonvacuous_ramp_index :=
  C04_ramp_fftfreq_index C c0 c1 cadd cmul csub copp C_ring cconj C_conj_ok 4 w4 quarter C_root_ok 3 1%Z.
Example C04_nonvacuous_signed_idx : map (signed_idx 4) [0; 1; 2; 3] = [0; 1; -2; -1]%Z /\ map (signed_idx 5) [0; 1; 2; 3; 4] = [0; 1; 2; -2; -1]%Z.
Proof. split; reflexivity. Qed.

Example C04_nonvacuous_state :=
  C04_state_history_independent nat nat nat Nat.add 5 [1; 2; 3] 7.

(* an overlapping family: the whole mask together with mB (stack indices 0..4 and 1, 2, 4 again) *)
Example C04_nonvacuous_any_family :=
  C04_submask_any_family C c0 c1 cadd cmul csub copp C_ring cconj chalf cinv 2 ws2r 2 ws2r
    4 w4 quarter 4 w4 quarter (kern_mult cmul ex_g) wone ex_env ex_garbage ex_stack
    mfull [mfull; mB] (fun _ => 2) 3 ex_garbage 1 2
    ex_over_ok ex_over_lt ltac:(lia) (weight_inv mfull (or_introl eq_refl)).

(* ================================================================== round 4: hyper-parameter layers and kernel-name dispatch
   (model/C04_Hyper_Model.v; tied to the current source by coq/gen_proofs/C04_GenProperties.v on every run) *)
From Coq Require Import String.
From QV.model Require Import C04_Hyper_Model.
From QV.proof Require Import C04_Proofs_Hyper.

(* the effective aberrations: override, else optimised, else construction value -- key by key, for ANY value type (the merge
   cannot look at a value: an exact zero in a later layer replaces a non-zero earlier value like any other) *)
Theorem C04_layer_priority :
  forall (K V : Type) (init opt : dict K V) (ovr : option (dict K V)) (k : K),
    merge_layers init opt ovr k = layer_lookup init opt ovr k.
Proof. exact merge_layers_priority. Qed.
Print Assumptions C04_layer_priority.

Theorem C04_override_value_in_force :
  forall (K V : Type) (init opt o : dict K V) (k : K) (v : V),
    o k = Some v -> merge_layers init opt (Some o) k = Some v.
Proof. exact merge_override_wins. Qed.
Print Assumptions C04_override_value_in_force.

Theorem C04_untouched_key_keeps_construction_value :
  forall (K V : Type) (init opt : dict K V) (ovr : option (dict K V)) (k : K),
    (match ovr with Some o => o k | None => None end) = None -> opt k = None ->
    merge_layers init opt ovr k = init k.
Proof. exact merge_untouched_key. Qed.
Print Assumptions C04_untouched_key_keeps_construction_value.

(* the merge commutes with any relabelling of the values (it is natural in V): no value-dependent behaviour *)
Theorem C04_layer_merge_value_blind :
  forall (K V W : Type) (f : V -> W) (init opt : dict K V) (ovr : option (dict K V)) (k : K),
    option_map f (merge_layers init opt ovr k) =
    merge_layers (fun x => option_map f (init x)) (fun x => option_map f (opt x))
                 (option_map (fun o x => option_map f (o x)) ovr) k.
Proof. exact (fun K V W f => merge_layers_natural K V W f). Qed.
Print Assumptions C04_layer_merge_value_blind.

(* a reconstruction that reads its aberrations through lookups only is the function of the EFFECTIVE hyper-parameters:
   layered object = fresh object constructed with the effective values; equal effective values, equal results *)
Theorem C04_effective_hyperparameters :
  forall (K V Res : Type) (rec : dict K V -> V -> Res) (zero : V),
    (forall d d' r, dict_eq d d' -> rec d r = rec d' r) ->
    forall (init : dict K V) (irot : option V) (opt : dict K V) (orot : option V) (ovr : option (dict K V)) (ovrrot : option V),
      layered_call rec zero init irot opt orot ovr ovrrot =
      fresh_call rec zero (merge_layers init opt ovr) (eff_rotation ovrrot orot irot zero).
Proof. exact layered_is_fresh_effective. Qed.
Print Assumptions C04_effective_hyperparameters.

Theorem C04_same_effective_same_result :
  forall (K V Res : Type) (rec : dict K V -> V -> Res) (zero : V),
    (forall d d' r, dict_eq d d' -> rec d r = rec d' r) ->
    forall init irot opt orot ovr ovrrot init' irot' opt' orot' ovr' ovrrot',
      dict_eq (merge_layers init opt ovr) (merge_layers init' opt' ovr') ->
      eff_rotation ovrrot orot irot zero = eff_rotation ovrrot' orot' irot' zero ->
      layered_call rec zero init irot opt orot ovr ovrrot = layered_call rec zero init' irot' opt' orot' ovr' ovrrot'.
Proof. exact same_effective_same_result. Qed.
Print Assumptions C04_same_effective_same_result.

(* dropping the vanishing entries of every layer BEFORE the merge is a different function (refuted by a witness);
   dropping them AFTER the merge is invisible to a reader for which an absent key means zero *)
Definition C04_pruned_layers_statement : Prop :=
  forall (init opt : dict nat Z) (ovr : option (dict nat Z)) (k : nat),
    merge_layers_pruned (Z.eqb 0) init opt ovr k = d_prune (Z.eqb 0) (merge_layers init opt ovr) k.
Theorem C04_pruned_layers_refuted : ~ C04_pruned_layers_statement.
Proof.
  intro H. destruct pruned_merge_differs as (init & opt & ovr & k & H1 & H2).
  specialize (H init opt ovr k). rewrite H2 in H. unfold d_prune in H. rewrite H1 in H. discriminate H.
Qed.
Print Assumptions C04_pruned_layers_refuted.

Theorem C04_prune_after_merge_harmless :
  forall (K V : Type) (is_zero : V -> bool) (zero : V), (forall v, is_zero v = true -> v = zero) ->
    forall (d : dict K V) (k : K),
      match d_prune is_zero d k with Some v => v | None => zero end = match d k with Some v => v | None => zero end.
Proof. exact prune_after_merge_harmless. Qed.
Print Assumptions C04_prune_after_merge_harmless.

(* kernel names: the normalisation ends in one of the five kernels and is idempotent; the dispatch is consistent *)
Theorem C04_kernel_name_canonical :
  forall (lower : string -> string) (k c : string),
    normalize_kernel lower k = Some c -> In c canonical_kernels /\ slookup c kernel_aliases = Some c.
Proof. exact (fun lower k c H => conj (normalize_kernel_canonical lower k c H) (normalize_kernel_idempotent lower k c H)). Qed.
Print Assumptions C04_kernel_name_canonical.

Theorem C04_kernel_dispatch_consistent :
  forall c, In c canonical_kernels ->
    returns_power c = two_pass c /\
    (two_pass c = true -> kernel_branch c = BrGamma) /\
    (ssb_divides c = true -> kernel_branch c = BrGamma /\ two_pass c = false) /\
    (kernel_branch c = BrPrlx <-> c = "prlx"%string) /\ (kernel_branch c = BrIcom <-> c = "icom"%string).
Proof. exact dispatch_consistent. Qed.
Print Assumptions C04_kernel_dispatch_consistent.

Example C04_nonvacuous_layers :
  merge_layers (of_alist [(0%nat, 150%Z)]) d_empty (Some (of_alist [(0%nat, 0%Z)])) 0%nat = Some 0%Z /\
  merge_layers (of_alist [(0%nat, 150%Z)]) (of_alist [(0%nat, 0%Z); (2%nat, 4%Z)]) None 0%nat = Some 0%Z /\
  merge_layers (of_alist [(0%nat, 150%Z)]) (of_alist [(2%nat, 4%Z)]) (Some (of_alist [(2%nat, 0%Z)])) 0%nat = Some 150%Z /\
  eff_rotation (Some 0%Z) (Some 3%Z) (Some 1%Z) 0%Z = 0%Z.
Proof. repeat split; reflexivity. Qed.
Example C04_nonvacuous_effective :=
  C04_effective_hyperparameters nat Z (option Z * Z) (fun d r => (d 0%nat, r)) 0%Z
    (fun d d' r H => f_equal (fun x => (x, r)) (H 0%nat))
    (of_alist [(0%nat, 150%Z)]) (Some 2%Z) d_empty None (Some (of_alist [(0%nat, 0%Z)])) (Some 0%Z).
Example C04_nonvacuous_kernel_names :
  normalize_kernel (fun s => s) "tilt-corrected-bright-field" = Some "prlx"%string /\
  normalize_kernel (fun s => s) "SSB" = None /\ two_pass "mf" = true /\ two_pass "ssb" = false.
Proof. repeat split; reflexivity. Qed.
