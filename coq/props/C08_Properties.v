(* C08 — Failed saves leave no loadable partial object; write-once never overwrites.
   This file contains ONLY the property theorems (closed by `exact`), their assumption
   reports, and non-vacuity examples.

   Reading guide (model/C08_Model.v):
     fs : path -> entry            file system;  entry = Absent | Dir items | Zip closed members | Other
     save_prog st m p ts tz ws zs  the effects save() performs for store st, mode m, target p,
                                   staging paths ts/tz, for an object whose serialisation performs the
                                   item writes ws (and adds the archive members zs) — ARBITRARY lists,
                                   i.e. every object graph
     run k prog fs                 (state left behind, how save() ended) when an exception is raised at
                                   effect number k (k >= length prog: no exception), with the clean-up
                                   handlers the code has (TemporaryDirectory, ZipFile.__exit__)
     load_model markers fs p       what load(p) returns: LErr (absent/unreadable) or LObj items
   save_prog is the protocol after fixes/C08-atomic-save.diff; save_prog_unfixed is the protocol of
   the pinned commit, for which the property is refuted below. *)
From QV.lib Require Import Prelude.
From QV.model Require Import C08_Model.
From QV.proof Require Import C08_Proofs.

(* No partial object becomes loadable: for EVERY fault index k, both stores, both modes, every
   prior content of the target (absent, an earlier directory or archive, any other file) and of
   all other paths: afterwards load(target) fails (absent / unreadable), or returns exactly what
   it returned before the save (the complete object of an earlier save), or returns the
   complete new object (all items). *)
Theorem C08_no_partial_loadable :
  forall (markers : list item) (st : store) (m : mode) (p ts tz : path) (ws zs : list item)
         (fs : fsys) (k : nat),
    p <> ts /\ p <> tz /\ ts <> tz /\ fs ts = Absent /\ fs tz = Absent ->
    match load_model markers (fst (run k (save_prog st m p ts tz ws zs) fs)) p with
    | LErr => True
    | LObj c => load_model markers fs p = LObj c \/ c = final_content st ws zs
    end.
Proof. exact no_partial_loadable. Qed.
Print Assumptions C08_no_partial_loadable.

(* the same at the level of the target's content: untouched, absent, or the complete new store *)
Theorem C08_target_untouched_absent_or_complete :
  forall (st : store) (m : mode) (p ts tz : path) (ws zs : list item) (fs : fsys) (k : nat),
    p <> ts /\ p <> tz /\ ts <> tz /\ fs ts = Absent /\ fs tz = Absent ->
    let fs' := fst (run k (save_prog st m p ts tz ws zs) fs) in
    fs' p = fs p \/ fs' p = Absent \/ fs' p = final_entry st ws zs.
Proof. exact no_partial_entry. Qed.
Print Assumptions C08_target_untouched_absent_or_complete.

(* a save (failing at any k) onto the result of an earlier SUCCESSFUL save, of any object, store
   and mode: load returns the complete earlier object or the complete new one, or fails *)
Theorem C08_after_earlier_save :
  forall (markers : list item)
         (st0 : store) (m0 : mode) (ws0 zs0 : list item) (ts0 tz0 : path) (k0 : nat)
         (st : store) (m : mode) (ws zs : list item) (ts tz : path) (k : nat)
         (p : path) (fs0 : fsys),
    p <> ts0 /\ p <> tz0 /\ ts0 <> tz0 /\ fs0 ts0 = Absent /\ fs0 tz0 = Absent ->
    p <> ts /\ p <> tz /\ ts <> tz /\ fs0 ts = Absent /\ fs0 tz = Absent ->
    snd (run k0 (save_prog st0 m0 p ts0 tz0 ws0 zs0) fs0) = Done ->
    let fs1 := fst (run k0 (save_prog st0 m0 p ts0 tz0 ws0 zs0) fs0) in
    let fs2 := fst (run k (save_prog st m p ts tz ws zs) fs1) in
    match load_model markers fs2 p with
    | LErr => True
    | LObj c => c = final_content st0 ws0 zs0 \/ c = final_content st ws zs
    end.
Proof. exact after_earlier_save. Qed.
Print Assumptions C08_after_earlier_save.

(* write-once: with mode 'w' and an existing target (of any kind) nothing at all is modified, for
   every fault index, and save ends with FileExistsError *)
Theorem C08_write_once :
  forall (st : store) (m : mode) (p ts tz : path) (ws zs : list item) (fs : fsys) (k : nat),
    p <> ts /\ p <> tz /\ ts <> tz /\ fs ts = Absent /\ fs tz = Absent ->
    m = MW -> fs p <> Absent ->
    (forall q, fst (run k (save_prog st m p ts tz ws zs) fs) q = fs q) /\
    (1 <= k -> snd (run k (save_prog st m p ts tz ws zs) fs) = ErrExists).
Proof. exact write_once. Qed.
Print Assumptions C08_write_once.

(* frame: no save, successful or not (any k), alters any path other than its target; in
   particular the staging paths are gone again (they were absent before) *)
Theorem C08_frame :
  forall (st : store) (m : mode) (p ts tz : path) (ws zs : list item) (fs : fsys) (k : nat) (q : path),
    p <> ts /\ p <> tz /\ ts <> tz /\ fs ts = Absent /\ fs tz = Absent ->
    q <> p ->
    fst (run k (save_prog st m p ts tz ws zs) fs) q = fs q.
Proof. exact frame_all. Qed.
Print Assumptions C08_frame.

(* a save that is not interrupted installs the complete store (so "complete new" is reachable and
   the first two theorems are not satisfied by never writing anything) *)
Theorem C08_success_complete :
  forall (st : store) (m : mode) (p ts tz : path) (ws zs : list item) (fs : fsys) (k : nat),
    p <> ts /\ p <> tz /\ ts <> tz /\ fs ts = Absent /\ fs tz = Absent ->
    (m = MO \/ fs p = Absent) ->
    length (save_prog st m p ts tz ws zs) <= k ->
    fst (run k (save_prog st m p ts tz ws zs) fs) p = final_entry st ws zs /\
    snd (run k (save_prog st m p ts tz ws zs) fs) = Done.
Proof. exact success_complete. Qed.
Print Assumptions C08_success_complete.

(* ---------------------------------------------------------------- the pinned commit (unrepaired protocol) *)
(* the full statement, for an arbitrary protocol *)
Definition C08_no_partial_loadable_statement
  (prog : store -> mode -> path -> path -> path -> list item -> list item -> list effect) : Prop :=
  forall (markers : list item) (st : store) (m : mode) (p ts tz : path) (ws zs : list item)
         (fs : fsys) (k : nat),
    p <> ts /\ p <> tz /\ ts <> tz /\ fs ts = Absent /\ fs tz = Absent ->
    match load_model markers (fst (run k (prog st m p ts tz ws zs) fs)) p with
    | LErr => True
    | LObj c => load_model markers fs p = LObj c \/ c = final_content st ws zs
    end.

(* (a) directory store written in place: a fault after the root marker leaves a directory that
   load accepts and that lacks items *)
Theorem C08_no_partial_loadable_refuted_dir :
  ~ C08_no_partial_loadable_statement save_prog_unfixed.
Proof. exact no_partial_loadable_refuted_dir. Qed.
Print Assumptions C08_no_partial_loadable_refuted_dir.

(* (b) zip assembly: a fault at the second member leaves a CLOSED archive (ZipFile.__exit__) that
   load accepts and that lacks members: an explicit witness for the zip store, and the refutation *)
Theorem C08_no_partial_loadable_refuted_zip_assembly :
  (exists markers m p ts tz ws zs fs k c,
      (p <> ts /\ p <> tz /\ ts <> tz /\ fs ts = Absent /\ fs tz = Absent) /\
      load_model markers (fst (run k (save_prog_unfixed SZip m p ts tz ws zs) fs)) p = LObj c /\
      load_model markers fs p <> LObj c /\ c <> final_content SZip ws zs)
  /\ ~ C08_no_partial_loadable_statement save_prog_unfixed.
Proof. exact no_partial_loadable_refuted_zip_assembly. Qed.
Print Assumptions C08_no_partial_loadable_refuted_zip_assembly.

(* what the pinned commit does guarantee: write-once ... *)
Theorem C08_write_once_unfixed :
  forall (st : store) (m : mode) (p ts tz : path) (ws zs : list item) (fs : fsys) (k : nat),
    m = MW -> fs p <> Absent ->
    (forall q, fst (run k (save_prog_unfixed st m p ts tz ws zs) fs) q = fs q) /\
    (1 <= k -> snd (run k (save_prog_unfixed st m p ts tz ws zs) fs) = ErrExists).
Proof. exact write_once_unfixed. Qed.
Print Assumptions C08_write_once_unfixed.

(* ... paths other than the target and the temporary directory are never touched ... *)
Theorem C08_frame_unfixed :
  forall (st : store) (m : mode) (p ts tz : path) (ws zs : list item) (fs : fsys) (k : nat) (q : path),
    q <> p -> q <> ts -> q <> tz ->
    fst (run k (save_prog_unfixed st m p ts tz ws zs) fs) q = fs q.
Proof. exact frame_unfixed. Qed.
Print Assumptions C08_frame_unfixed.

(* ... and, for the zip store, every failure during serialisation (before the archive is
   opened) leaves the target untouched or absent *)
Theorem C08_unfixed_zip_serialisation_safe :
  forall (m : mode) (p ts tz : path) (ws zs : list item) (fs : fsys) (k : nat),
    p <> ts -> p <> tz ->
    k <= 2 + match m with MO => 1 | MW => 0 end + length ws ->
    let fs' := fst (run k (save_prog_unfixed SZip m p ts tz ws zs) fs) in
    fs' p = fs p \/ fs' p = Absent.
Proof. exact unfixed_zip_serialisation_safe. Qed.
Print Assumptions C08_unfixed_zip_serialisation_safe.

(* ---------------------------------------------------------------- non-vacuity *)
(* hypotheses are satisfiable and each outcome occurs: target 0, staging 1/2, an earlier complete
   directory store [1000;1001], new object with 3 item writes and 2 archive members
   (ex_fs, defined in proof/C08_Proofs.v: target holds Dir [1000;1001], path 3 another file) *)

Example C08_nonvacuous_no_partial_old :
  (0 <> 1 /\ 0 <> 2 /\ 1 <> 2 /\ ex_fs 1 = Absent /\ ex_fs 2 = Absent) /\
  load_model [1; 500; 1001]%Z ex_fs 0 = LObj [1000; 1001]%Z /\
  (* fault at the last ZipFile.write of an overwriting zip save: still the old object *)
  load_model [1; 500; 1001]%Z (fst (run 7 (save_prog SZip MO 0 1 2 [0; 1; 2]%Z [500; 501]%Z) ex_fs)) 0
    = LObj [1000; 1001]%Z.
Proof. repeat split; try discriminate; vm_compute; reflexivity. Qed.

Example C08_nonvacuous_no_partial_absent_then_new :
  (* fault between dropping the old target and the rename: absent; no fault: the complete new object *)
  load_model [1; 500; 1001]%Z (fst (run 10 (save_prog SZip MO 0 1 2 [0; 1; 2]%Z [500; 501]%Z) ex_fs)) 0 = LErr /\
  fst (run 10 (save_prog SZip MO 0 1 2 [0; 1; 2]%Z [500; 501]%Z) ex_fs) 0 = Absent /\
  fst (run 10 (save_prog SZip MO 0 1 2 [0; 1; 2]%Z [500; 501]%Z) ex_fs) 3 = ex_fs 3 /\
  load_model [1; 500; 1001]%Z (fst (run 11 (save_prog SZip MO 0 1 2 [0; 1; 2]%Z [500; 501]%Z) ex_fs)) 0
    = LObj [500; 501]%Z /\
  length (save_prog SZip MO 0 1 2 [0; 1; 2]%Z [500; 501]%Z) = 11.
Proof. repeat split; vm_compute; reflexivity. Qed.

Example C08_nonvacuous_write_once :
  MW = MW /\ ex_fs 0 <> Absent /\
  snd (run 4 (save_prog SDir MW 0 1 2 [0; 1; 2]%Z []) ex_fs) = ErrExists /\
  fst (run 4 (save_prog SDir MW 0 1 2 [0; 1; 2]%Z []) ex_fs) 0 = Dir [1000; 1001]%Z.
Proof. repeat split; try discriminate; vm_compute; reflexivity. Qed.

Example C08_nonvacuous_after_earlier_save :
  snd (run 99 (save_prog SDir MW 0 1 2 [1000; 1001]%Z []) (fun _ => Absent)) = Done /\
  load_model [1; 1001]%Z
    (fst (run 4 (save_prog SDir MO 0 1 2 [0; 1; 2]%Z [])
              (fst (run 99 (save_prog SDir MW 0 1 2 [1000; 1001]%Z []) (fun _ => Absent))))) 0
  = LObj [1000; 1001]%Z.
Proof. split; vm_compute; reflexivity. Qed.

(* the witnesses of the refutations, spelled out: what load returns after the fault *)
Example C08_nonvacuous_unfixed_dir_witness :
  load_model [1]%Z (fst (run 5 (save_prog_unfixed SDir MW 0 1 2 [0; 1; 2; 3; 4]%Z []) (fun _ => Absent))) 0
  = LObj [0; 1; 2]%Z.
Proof. vm_compute. reflexivity. Qed.

Example C08_nonvacuous_unfixed_zip_witness :
  load_model [500]%Z
    (fst (run 7 (save_prog_unfixed SZip MW 0 1 2 [0; 1; 2]%Z [500; 501; 502]%Z) (fun _ => Absent))) 0
  = LObj [500]%Z.
Proof. vm_compute. reflexivity. Qed.
