(* C08 — Failed saves leave no loadable partial object; write-once never overwrites.
   This file contains ONLY the property theorems (closed by `exact`), their assumption
   reports, and non-vacuity examples.

   Reading guide (model/C08_Model.v):
     fs : path -> entry            file system;  entry = Absent | Dir items | Zip closed members | Other
     save_prog st m p ts tz ws zs  the effects save() performs for store st, mode m, target p,
                                   staging paths ts/tz, for an object whose serialisation performs the
                                   item writes ws (and adds the archive members zs) — ARBITRARY lists,
                                   i.e. every object graph
     run k prog fs                 (state left behind, how save() ended) when an exception is raised at
                                   effect number k (k >= length prog: no exception), with the clean-up
                                   handlers the code has (TemporaryDirectory, ZipFile.__exit__)
     load_model markers fs p       what load(p) returns: LErr (absent/unreadable) or LObj items
   save_prog is the protocol after fixes/C08-atomic-save.diff; save_prog_unfixed is the protocol of
   the pinned commit, for which the property is refuted below. *)
From QV.lib Require Import Prelude.
From QV.model Require Import C08_Model.
From QV.proof Require Import C08_Proofs.

(* No partial object becomes loadable: for EVERY fault index k, both stores, both modes, every
   prior content of the target (absent, an earlier directory or archive, any other file) and of
   all other paths: afterwards load(target) fails (absent / unreadable), or returns exactly what
   it returned before the save (the complete object of an earlier save), or returns the
   complete new object (all items). *)
Theorem C08_no_partial_loadable :
  forall (markers : list item) (st : store) (m : mode) (p ts tz : path) (ws zs : list item)
         (fs : fsys) (k : nat),
    p <> ts /\ p <> tz /\ ts <> tz /\ fs ts = Absent /\ fs tz = Absent ->
    match load_model markers (fst (run k (save_prog st m p ts tz ws zs) fs)) p with
    | LErr => True
    | LObj c => load_model markers fs p = LObj c \/ c = final_content st ws zs
    end.
Proof. exact no_partial_loadable. Qed.
Print Assumptions C08_no_partial_loadable.

(* the same at the level of the target's content: untouched, absent, or the complete new store *)
Theorem C08_target_untouched_absent_or_complete :
  forall (st : store) (m : mode) (p ts tz : path) (ws zs : list item) (fs : fsys) (k : nat),
    p <> ts /\ p <> tz /\ ts <> tz /\ fs ts = Absent /\ fs tz = Absent ->
    let fs' := fst (run k (save_prog st m p ts tz ws zs) fs) in
    fs' p = fs p \/ fs' p = Absent \/ fs' p = final_entry st ws zs.
Proof. exact no_partial_entry. Qed.
Print Assumptions C08_target_untouched_absent_or_complete.

(* a save (failing at any k) onto the result of an earlier SUCCESSFUL save, of any object, store
   and mode: load returns the complete earlier object or the complete new one, or fails *)
Theorem C08_after_earlier_save :
  forall (markers : list item)
         (st0 : store) (m0 : mode) (ws0 zs0 : list item) (ts0 tz0 : path) (k0 : nat)
         (st : store) (m : mode) (ws zs : list item) (ts tz : path) (k : nat)
         (p : path) (fs0 : fsys),
    p <> ts0 /\ p <> tz0 /\ ts0 <> tz0 /\ fs0 ts0 = Absent /\ fs0 tz0 = Absent ->
    p <> ts /\ p <> tz /\ ts <> tz /\ fs0 ts = Absent /\ fs0 tz = Absent ->
    snd (run k0 (save_prog st0 m0 p ts0 tz0 ws0 zs0) fs0) = Done ->
    let fs1 := fst (run k0 (save_prog st0 m0 p ts0 tz0 ws0 zs0) fs0) in
    let fs2 := fst (run k (save_prog st m p ts tz ws zs) fs1) in
    match load_model markers fs2 p with
    | LErr => True
    | LObj c => c = final_content st0 ws0 zs0 \/ c = final_content st ws zs
    end.
Proof. exact after_earlier_save. Qed.
Print Assumptions C08_after_earlier_save.

(* write-once: with mode 'w' and an existing target (of any kind) nothing at all is modified, for
   every fault index, and save ends with FileExistsError *)
Theorem C08_write_once :
  forall (st : store) (m : mode) (p ts tz : path) (ws zs : list item) (fs : fsys) (k : nat),
    p <> ts /\ p <> tz /\ ts <> tz /\ fs ts = Absent /\ fs tz = Absent ->
    m = MW -> fs p <> Absent ->
    (forall q, fst (run k (save_prog st m p ts tz ws zs) fs) q = fs q) /\
    (1 <= k -> snd (run k (save_prog st m p ts tz ws zs) fs) = ErrExists).
Proof. exact write_once. Qed.
Print Assumptions C08_write_once.

(* frame: no save, successful or not (any k), alters any path other than its target; in
   particular the staging paths are gone again (they were absent before) *)
Theorem C08_frame :
  forall (st : store) (m : mode) (p ts tz : path) (ws zs : list item) (fs : fsys) (k : nat) (q : path),
    p <> ts /\ p <> tz /\ ts <> tz /\ fs ts = Absent /\ fs tz = Absent ->
    q <> p ->
    fst (run k (save_prog st m p ts tz ws zs) fs) q = fs q.
Proof. exact frame_all. Qed.
Print Assumptions C08_frame.

(* a save that is not interrupted installs the complete store (so "complete new" is reachable and
   the first two theorems are not satisfied by never writing anything) *)
Theorem C08_success_complete :
  forall (st : store) (m : mode) (p ts tz : path) (ws zs : list item) (fs : fsys) (k : nat),
    p <> ts /\ p <> tz /\ ts <> tz /\ fs ts = Absent /\ fs tz = Absent ->
    (m = MO \/ fs p = Absent) ->
    length (save_prog st m p ts tz ws zs) <= k ->
    fst (run k (save_prog st m p ts tz ws zs) fs) p = final_entry st ws zs /\
    snd (run k (save_prog st m p ts tz ws zs) fs) = Done.
Proof. exact success_complete. Qed.
Print Assumptions C08_success_complete.

(* ---------------------------------------------------------------- the pinned commit (unrepaired protocol) *)
(* the full statement, for an arbitrary protocol *)
Definition C08_no_partial_loadable_statement
  (prog : store -> mode -> path -> path -> path -> list item -> list item -> list effect) : Prop :=
  forall (markers : list item) (st : store) (m : mode) (p ts tz : path) (ws zs : list item)
         (fs : fsys) (k : nat),
    p <> ts /\ p <> tz /\ ts <> tz /\ fs ts = Absent /\ fs tz = Absent ->
    match load_model markers (fst (run k (prog st m p ts tz ws zs) fs)) p with
    | LErr => True
    | LObj c => load_model markers fs p = LObj c \/ c = final_content st ws zs
    end.

(* (a) directory store written in place: a fault after the root marker leaves a directory that
   load accepts and that lacks items *)
Theorem C08_no_partial_loadable_refuted_dir :
  ~ C08_no_partial_loadable_statement save_prog_unfixed.
Proof. exact no_partial_loadable_refuted_dir. Qed.
Print Assumptions C08_no_partial_loadable_refuted_dir.

(* (b) zip assembly: a fault at the second member leaves a CLOSED archive (ZipFile.__exit__) that
   load accepts and that lacks members: an explicit witness for the zip store, and the refutation *)
Theorem C08_no_partial_loadable_refuted_zip_assembly :
  (exists markers m p ts tz ws zs fs k c,
      (p <> ts /\ p <> tz /\ ts <> tz /\ fs ts = Absent /\ fs tz = Absent) /\
      load_model markers (fst (run k (save_prog_unfixed SZip m p ts tz ws zs) fs)) p = LObj c /\
      load_model markers fs p <> LObj c /\ c <> final_content SZip ws zs)
  /\ ~ C08_no_partial_loadable_statement save_prog_unfixed.
Proof. exact no_partial_loadable_refuted_zip_assembly. Qed.
Print Assumptions C08_no_partial_loadable_refuted_zip_assembly.

(* what the pinned commit does guarantee: write-once ... *)
Theorem C08_write_once_unfixed :
  forall (st : store) (m : mode) (p ts tz : path) (ws zs : list item) (fs : fsys) (k : nat),
    m = MW -> fs p <> Absent ->
    (forall q, fst (run k (save_prog_unfixed st m p ts tz ws zs) fs) q = fs q) /\
    (1 <= k -> snd (run k (save_prog_unfixed st m p ts tz ws zs) fs) = ErrExists).
Proof. exact write_once_unfixed. Qed.
Print Assumptions C08_write_once_unfixed.

(* ... paths other than the target and the temporary directory are never touched ... *)
Theorem C08_frame_unfixed :
  forall (st : store) (m : mode) (p ts tz : path) (ws zs : list item) (fs : fsys) (k : nat) (q : path),
    q <> p -> q <> ts -> q <> tz ->
    fst (run k (save_prog_unfixed st m p ts tz ws zs) fs) q = fs q.
Proof. exact frame_unfixed. Qed.
Print Assumptions C08_frame_unfixed.

(* ... and, for the zip store, every failure during serialisation (before the archive is
   opened) leaves the target untouched or absent *)
Theorem C08_unfixed_zip_serialisation_safe :
  forall (m : mode) (p ts tz : path) (ws zs : list item) (fs : fsys) (k : nat),
    p <> ts -> p <> tz ->
    k <= 2 + match m with MO => 1 | MW => 0 end + length ws ->
    let fs' := fst (run k (save_prog_unfixed SZip m p ts tz ws zs) fs) in
    fs' p = fs p \/ fs' p = Absent.
Proof. exact unfixed_zip_serialisation_safe. Qed.
Print Assumptions C08_unfixed_zip_serialisation_safe.

(* ---------------------------------------------------------------- non-vacuity *)
(* hypotheses are satisfiable and each outcome occurs: target 0, staging 1/2, an earlier complete
   directory store [1000;1001], new object with 3 item writes and 2 archive members
   (ex_fs, defined in proof/C08_Proofs.v: target holds Dir [1000;1001], path 3 another file) *)

Example C08_nonvacuous_no_partial_old :
  (0 <> 1 /\ 0 <> 2 /\ 1 <> 2 /\ ex_fs 1 = Absent /\ ex_fs 2 = Absent) /\
  load_model [1; 500; 1001]%Z ex_fs 0 = LObj [1000; 1001]%Z /\
  (* fault at the last ZipFile.write of an overwriting zip save: still the old object *)
  load_model [1; 500; 1001]%Z (fst (run 7 (save_prog SZip MO 0 1 2 [0; 1; 2]%Z [500; 501]%Z) ex_fs)) 0
    = LObj [1000; 1001]%Z.
Proof. repeat split; try discriminate; vm_compute; reflexivity. Qed.

Example C08_nonvacuous_no_partial_absent_then_new :
  (* fault between dropping the old target and the rename: absent; no fault: the complete new object *)
  load_model [1; 500; 1001]%Z (fst (run 10 (save_prog SZip MO 0 1 2 [0; 1; 2]%Z [500; 501]%Z) ex_fs)) 0 = LErr /\
  fst (run 10 (save_prog SZip MO 0 1 2 [0; 1; 2]%Z [500; 501]%Z) ex_fs) 0 = Absent /\
  fst (run 10 (save_prog SZip MO 0 1 2 [0; 1; 2]%Z [500; 501]%Z) ex_fs) 3 = ex_fs 3 /\
  load_model [1; 500; 1001]%Z (fst (run 11 (save_prog SZip MO 0 1 2 [0; 1; 2]%Z [500; 501]%Z) ex_fs)) 0
    = LObj [500; 501]%Z /\
  length (save_prog SZip MO 0 1 2 [0; 1; 2]%Z [500; 501]%Z) = 11.
Proof. repeat split; vm_compute; reflexivity. Qed.

Example C08_nonvacuous_write_once :
  MW = MW /\ ex_fs 0 <> Absent /\
  snd (run 4 (save_prog SDir MW 0 1 2 [0; 1; 2]%Z []) ex_fs) = ErrExists /\
  fst (run 4 (save_prog SDir MW 0 1 2 [0; 1; 2]%Z []) ex_fs) 0 = Dir [1000; 1001]%Z.
Proof. repeat split; try discriminate; vm_compute; reflexivity. Qed.

Example C08_nonvacuous_after_earlier_save :
  snd (run 99 (save_prog SDir MW 0 1 2 [1000; 1001]%Z []) (fun _ => Absent)) = Done /\
  load_model [1; 1001]%Z
    (fst (run 4 (save_prog SDir MO 0 1 2 [0; 1; 2]%Z [])
              (fst (run 99 (save_prog SDir MW 0 1 2 [1000; 1001]%Z []) (fun _ => Absent))))) 0
  = LObj [1000; 1001]%Z.
Proof. split; vm_compute; reflexivity. Qed.

(* the witnesses of the refutations, spelled out: what load returns after the fault *)
Example C08_nonvacuous_unfixed_dir_witness :
  load_model [1]%Z (fst (run 5 (save_prog_unfixed SDir MW 0 1 2 [0; 1; 2; 3; 4]%Z []) (fun _ => Absent))) 0
  = LObj [0; 1; 2]%Z.
Proof. vm_compute. reflexivity. Qed.

Example C08_nonvacuous_unfixed_zip_witness :
  load_model [500]%Z
    (fst (run 7 (save_prog_unfixed SZip MW 0 1 2 [0; 1; 2]%Z [500; 501; 502]%Z) (fun _ => Absent))) 0
  = LObj [500]%Z.
Proof. vm_compute. reflexivity. Qed.

(* ================================================================================================
   ROUND 3 EXTENSION (model/C08_Model_Ext.v, proof/C08_Proofs_Ext.v)
     resolve a s                   (store, name) save() really uses for the arguments (store = a, path = s):
                                   store "auto" inferred from the suffix, ".zip" appended for the zip store
     call_prog loc tmp a s m ...   effects of the CALL save(s, mode = m, store = a): existence check of the
                                   resolved location first, then refusal (ValueError) or save_prog at it
     run_call loc tmp k a s m ...  its run with a fault at k; outcome CValue = refused with ValueError
     run_x E k prog fs             `run` in an environment E: hrun E = behaviour of (possibly failing)
                                   clean-up handlers, inside E = what an effect interrupted part-way leaves
     run_exc g x k prog fs         `run` with the class x of the propagating exception explicit; handler h
                                   runs iff its guard g h catches x
   Concurrency (two saves / a save and a load racing on one target) is OUT OF SCOPE of the model and
   of the property's quantifier; all statements are about one save at a time. *)
From Coq Require Import String Ascii.
From QV.model Require Import C08_Model_Ext.
From QV.proof Require Import C08_Proofs_Ext.

(* ---------------------------------------------------------------- path resolution *)
(* a zip store is always written under a name that ends in ".zip" *)
Theorem C08_resolve_zip_suffix :
  forall (a : store_arg) (s : string),
    fst (resolve a s) = AZip -> ends_with zipsuf (snd (resolve a s)) = true.
Proof. exact resolve_zip_suffix. Qed.
Print Assumptions C08_resolve_zip_suffix.

(* the name is the one given or the one given + ".zip", and only the zip store appends *)
Theorem C08_resolve_name_cases :
  forall (a : store_arg) (s : string),
    (snd (resolve a s) = s \/ snd (resolve a s) = (s ++ zipsuf)%string) /\
    (fst (resolve a s) <> AZip -> snd (resolve a s) = s).
Proof. intros a s. split; [apply resolve_name_cases | apply resolve_other_name]. Qed.
Print Assumptions C08_resolve_name_cases.

(* resolving is idempotent (the resolved name with the resolved store is the same call), and
   store = "auto" is the explicit store it infers from the suffix *)
Theorem C08_resolve_idempotent :
  forall (a : store_arg) (s : string),
    resolve (fst (resolve a s)) (snd (resolve a s)) = resolve a s /\
    resolve AAuto s = resolve (infer AAuto s) s /\
    (ends_with zipsuf s = true -> resolve AAuto s = (AZip, s)) /\
    (ends_with zipsuf s = false -> resolve AAuto s = (ADir, s)).
Proof.
  intros a s. split; [apply resolve_idem|]. split; [apply resolve_auto|].
  split; [apply resolve_auto_zip | apply resolve_auto_dir].
Qed.
Print Assumptions C08_resolve_idempotent.

(* every site of a call that names the target (existence check, removal, rename) is fed with the
   location of the RESOLVED name, the staging area is the one derived from that location, and the
   existence check comes first *)
Theorem C08_call_sites_resolved :
  forall (loc : string -> path) (tmp : path -> path * path)
         (a : store_arg) (s : string) (m : mode) (ws zs : list item),
    (forall e, In e (call_prog loc tmp a s m ws zs) ->
       (forall q, In q (target_sites e) -> q = loc (snd (resolve a s))) /\
       (forall q, In q (staging_sites e) ->
          q = fst (tmp (loc (snd (resolve a s)))) \/ q = snd (tmp (loc (snd (resolve a s)))))) /\
    exists rest, call_prog loc tmp a s m ws zs = CheckTarget m (loc (snd (resolve a s))) :: rest.
Proof.
  intros loc tmp a s m ws zs. split.
  - intros e. apply call_sites_resolved.
  - apply call_check_first.
Qed.
Print Assumptions C08_call_sites_resolved.

(* write-once for the call: an existing RESOLVED target is never modified (nor anything else),
   whatever name / store argument was used, valid or not; save ends with FileExistsError *)
Theorem C08_call_write_once :
  forall (loc : string -> path) (tmp : path -> path * path)
         (a : store_arg) (s : string) (ws zs : list item) (fs : fsys) (k : nat),
    let p := loc (snd (resolve a s)) in
    (p <> fst (tmp p) /\ p <> snd (tmp p) /\ fst (tmp p) <> snd (tmp p) /\
     fs (fst (tmp p)) = Absent /\ fs (snd (tmp p)) = Absent) ->
    fs p <> Absent ->
    (forall q, fst (run_call loc tmp k a s MW ws zs fs) q = fs q) /\
    (1 <= k -> snd (run_call loc tmp k a s MW ws zs fs) = CExists).
Proof. intros loc tmp a s ws zs fs k p. exact (call_write_once loc tmp a s ws zs fs k). Qed.
Print Assumptions C08_call_write_once.

(* no call, successful or not, valid or refused, alters any path other than the resolved target
   (in particular not the location of the name as given when ".zip" was appended) *)
Theorem C08_call_frame :
  forall (loc : string -> path) (tmp : path -> path * path)
         (a : store_arg) (s : string) (m : mode) (ws zs : list item) (fs : fsys) (k : nat) (q : path),
    let p := loc (snd (resolve a s)) in
    (p <> fst (tmp p) /\ p <> snd (tmp p) /\ fst (tmp p) <> snd (tmp p) /\
     fs (fst (tmp p)) = Absent /\ fs (snd (tmp p)) = Absent) ->
    q <> p ->
    fst (run_call loc tmp k a s m ws zs fs) q = fs q.
Proof. intros loc tmp a s m ws zs fs k q p. exact (call_frame loc tmp a s m ws zs fs k q). Qed.
Print Assumptions C08_call_frame.

(* no partial object becomes loadable at the resolved target, for every fault index of the call *)
Theorem C08_call_no_partial_loadable :
  forall (loc : string -> path) (tmp : path -> path * path) (markers : list item)
         (a : store_arg) (s : string) (m : mode) (ws zs : list item) (fs : fsys) (k : nat),
    let p := loc (snd (resolve a s)) in
    (p <> fst (tmp p) /\ p <> snd (tmp p) /\ fst (tmp p) <> snd (tmp p) /\
     fs (fst (tmp p)) = Absent /\ fs (snd (tmp p)) = Absent) ->
    match load_model markers (fst (run_call loc tmp k a s m ws zs fs)) p with
    | LErr => True
    | LObj c => load_model markers fs p = LObj c \/
                exists st, validate (fst (resolve a s)) (snd (resolve a s)) = VStore st /\
                           c = final_content st ws zs
    end.
Proof. intros loc tmp markers a s m ws zs fs k p. exact (call_no_partial loc tmp markers a s m ws zs fs k). Qed.
Print Assumptions C08_call_no_partial_loadable.

(* a refused call (unknown store; directory store with a file-like name) changes nothing and
   does not return normally; a valid uninterrupted call installs the complete store *)
Theorem C08_call_refused_or_complete :
  forall (loc : string -> path) (tmp : path -> path * path)
         (a : store_arg) (s : string) (m : mode) (ws zs : list item) (fs : fsys) (k : nat),
    let p := loc (snd (resolve a s)) in
    ((forall st, validate (fst (resolve a s)) (snd (resolve a s)) <> VStore st) ->
     (forall q, fst (run_call loc tmp k a s m ws zs fs) q = fs q) /\
     snd (run_call loc tmp k a s m ws zs fs) <> CDone) /\
    (forall st,
       (p <> fst (tmp p) /\ p <> snd (tmp p) /\ fst (tmp p) <> snd (tmp p) /\
        fs (fst (tmp p)) = Absent /\ fs (snd (tmp p)) = Absent) ->
       (m = MO \/ fs p = Absent) ->
       validate (fst (resolve a s)) (snd (resolve a s)) = VStore st ->
       List.length (call_prog loc tmp a s m ws zs) <= k ->
       fst (run_call loc tmp k a s m ws zs fs) p = final_entry st ws zs /\
       snd (run_call loc tmp k a s m ws zs fs) = CDone).
Proof.
  intros loc tmp a s m ws zs fs k p. split.
  - apply call_refused_untouched.
  - intros st. exact (call_success loc tmp a s m ws zs fs k st).
Qed.
Print Assumptions C08_call_refused_or_complete.

(* NECESSITY of checking the resolved location: a protocol whose existence check looks at any
   other location pc than the one it writes to overwrites an existing target in write-once mode
   (an uninterrupted save ends normally and the target holds the new store) ... *)
Theorem C08_check_site_matters :
  forall (st : store) (pc p ts tz : path) (ws zs : list item),
    pc <> p -> pc <> ts -> pc <> tz -> p <> ts -> p <> tz -> ts <> tz ->
    exists fs,
      (p <> ts /\ p <> tz /\ ts <> tz /\ fs ts = Absent /\ fs tz = Absent) /\ fs p <> Absent /\
      let prog := save_prog_sites st MW pc p p ts tz ws zs in
      fst (run (List.length prog) prog fs) p <> fs p /\ snd (run (List.length prog) prog fs) = Done /\
      fst (run (List.length prog) prog fs) p = final_entry st ws zs.
Proof. exact check_site_matters. Qed.
Print Assumptions C08_check_site_matters.

(* ... in particular the refactoring that checks the name AS GIVEN while writing to name + ".zip" *)
Theorem C08_raw_name_check_refuted :
  forall (loc : string -> path) (tmp : path -> path * path) (s : string) (st : store) (ws zs : list item),
    ends_with zipsuf s = false ->
    let p := loc (snd (resolve AZip s)) in
    let ts := fst (tmp p) in let tz := snd (tmp p) in
    loc s <> p -> loc s <> ts -> loc s <> tz -> p <> ts -> p <> tz -> ts <> tz ->
    p = loc (s ++ zipsuf)%string /\
    exists fs,
      (p <> ts /\ p <> tz /\ ts <> tz /\ fs ts = Absent /\ fs tz = Absent) /\ fs p <> Absent /\
      let pr := save_prog_sites st MW (loc s) p p ts tz ws zs in
      fst (run (List.length pr) pr fs) p <> fs p /\ snd (run (List.length pr) pr fs) = Done.
Proof. intros loc tmp s st ws zs. exact (raw_name_check_refuted loc tmp s st ws zs). Qed.
Print Assumptions C08_raw_name_check_refuted.

(* ---------------------------------------------------------------- faults inside clean-up handlers / effects *)
(* the standard environment is `run` *)
Theorem C08_run_x_std :
  forall (k : nat) (prog : list effect) (fs : fsys), run_x std_env k prog fs = run k prog fs.
Proof. exact run_x_std. Qed.
Print Assumptions C08_run_x_std.

(* clean-up handlers that fail in ANY way confined to the paths they were registered for
   (TemporaryDirectory.__exit__ raising, leaving the staging area; ZipFile.__exit__ raising), and
   effects interrupted part-way in ANY way confined to the staging area: the target and every
   path outside the staging area end exactly as in the model without such failures, and save()
   ends the same way — so all theorems above carry over ... *)
Theorem C08_cleanup_faults_agree :
  forall (E : env) (st : store) (m : mode) (p ts tz : path) (ws zs : list item) (fs : fsys) (k : nat) (q : path),
    p <> ts /\ p <> tz /\ ts <> tz /\ fs ts = Absent /\ fs tz = Absent ->
    ((forall h f r, ~ In r (htouches h) -> hrun E h f r = f r) /\
     (forall e f r, r <> ts -> r <> tz -> inside E e f r = f r)) ->
    q <> ts -> q <> tz ->
    fst (run_x E k (save_prog st m p ts tz ws zs) fs) q = fst (run k (save_prog st m p ts tz ws zs) fs) q /\
    snd (run_x E k (save_prog st m p ts tz ws zs) fs) = snd (run k (save_prog st m p ts tz ws zs) fs).
Proof. intros E st m p ts tz ws zs fs k q H HE. exact (run_x_target_safe E st m p ts tz ws zs fs k q H HE). Qed.
Print Assumptions C08_cleanup_faults_agree.

(* ... in particular: no partial object becomes loadable, and write-once holds *)
Theorem C08_no_partial_loadable_any_cleanup :
  forall (E : env),
    (forall ts tz : path,
       (forall h f r, ~ In r (htouches h) -> hrun E h f r = f r) /\
       (forall e f r, r <> ts -> r <> tz -> inside E e f r = f r)) ->
    forall (markers : list item) (st : store) (m : mode) (p ts tz : path) (ws zs : list item)
           (fs : fsys) (k : nat),
      p <> ts /\ p <> tz /\ ts <> tz /\ fs ts = Absent /\ fs tz = Absent ->
      match load_model markers (fst (run_x E k (save_prog st m p ts tz ws zs) fs)) p with
      | LErr => True
      | LObj c => load_model markers fs p = LObj c \/ c = final_content st ws zs
      end.
Proof. intros E HE. apply (no_partial_any_cleanup E). intros p ts tz. exact (HE ts tz). Qed.
Print Assumptions C08_no_partial_loadable_any_cleanup.

Theorem C08_write_once_any_cleanup :
  forall (E : env) (st : store) (p ts tz : path) (ws zs : list item) (fs : fsys) (k : nat) (q : path),
    ((forall h f r, ~ In r (htouches h) -> hrun E h f r = f r) /\
     (forall e f r, r <> ts -> r <> tz -> inside E e f r = f r)) ->
    p <> ts /\ p <> tz /\ ts <> tz /\ fs ts = Absent /\ fs tz = Absent ->
    fs p <> Absent -> q <> ts -> q <> tz ->
    fst (run_x E k (save_prog st MW p ts tz ws zs) fs) q = fs q /\
    (1 <= k -> snd (run_x E k (save_prog st MW p ts tz ws zs) fs) = ErrExists).
Proof. intros E st p ts tz ws zs fs k q HE. exact (write_once_any_cleanup E st p ts tz ws zs fs k q HE). Qed.
Print Assumptions C08_write_once_any_cleanup.

(* what does NOT survive a failing TemporaryDirectory clean-up: the staging area stays behind
   (the frame clause cannot hold for the temporary sibling itself) *)
Theorem C08_stuck_cleanup_leaves_staging :
  exists st m p ts tz ws zs fs k,
    (p <> ts /\ p <> tz /\ ts <> tz /\ fs ts = Absent /\ fs tz = Absent) /\
    fst (run_x stuck_env k (save_prog st m p ts tz ws zs) fs) ts <> fs ts.
Proof. exact stuck_leaves_staging. Qed.
Print Assumptions C08_stuck_cleanup_leaves_staging.

(* shutil.rmtree of an old DIRECTORY target (mode 'o') is not atomic.  Interrupted part-way,
   keeping the items `keep c` of the old store c: nothing but the target changes, save ends as in
   the atomic model, and the target is as in the atomic model or the old store cut down to
   `keep c` ... *)
Theorem C08_interrupted_removal :
  forall (keep : list item -> list item) (st : store) (m : mode) (p ts tz : path) (ws zs : list item)
         (fs : fsys) (k : nat),
    p <> ts /\ p <> tz /\ ts <> tz /\ fs ts = Absent /\ fs tz = Absent ->
    let r := run_x (rm_env keep p) k (save_prog st m p ts tz ws zs) fs in
    (forall q, q <> p -> fst r q = fs q) /\
    snd r = snd (run k (save_prog st m p ts tz ws zs) fs) /\
    (fst r p = fst (run k (save_prog st m p ts tz ws zs) fs) p \/
     exists c, fs p = Dir c /\ fst r p = Dir (keep c) /\ snd r = Faulted).
Proof. exact interrupted_removal. Qed.
Print Assumptions C08_interrupted_removal.

(* ... so load() afterwards fails, returns what it returned before, the complete new object, or a
   SUB-OBJECT OF THE OLD directory store; the last case is impossible when the old target is a
   file (os.remove is atomic) or absent *)
Theorem C08_interrupted_removal_load :
  forall (markers : list item) (keep : list item -> list item) (st : store) (m : mode) (p ts tz : path)
         (ws zs : list item) (fs : fsys) (k : nat),
    p <> ts /\ p <> tz /\ ts <> tz /\ fs ts = Absent /\ fs tz = Absent ->
    match load_model markers (fst (run_x (rm_env keep p) k (save_prog st m p ts tz ws zs) fs)) p with
    | LErr => True
    | LObj c' => load_model markers fs p = LObj c' \/ c' = final_content st ws zs \/
                 exists c, fs p = Dir c /\ c' = keep c
    end.
Proof. exact interrupted_removal_load. Qed.
Print Assumptions C08_interrupted_removal_load.

Theorem C08_interrupted_removal_file_safe :
  forall (markers : list item) (keep : list item -> list item) (st : store) (m : mode) (p ts tz : path)
         (ws zs : list item) (fs : fsys) (k : nat),
    p <> ts /\ p <> tz /\ ts <> tz /\ fs ts = Absent /\ fs tz = Absent ->
    (forall c, fs p <> Dir c) ->
    match load_model markers (fst (run_x (rm_env keep p) k (save_prog st m p ts tz ws zs) fs)) p with
    | LErr => True
    | LObj c' => load_model markers fs p = LObj c' \/ c' = final_content st ws zs
    end.
Proof. exact interrupted_removal_file_safe. Qed.
Print Assumptions C08_interrupted_removal_file_safe.

(* the full statement under an environment; with an interruptible removal of an old directory
   store it is REFUTED for the current protocol (remove in place, then rename): the position is
   outside the property's quantifier (value/array/byte writes and zip assembly), the harness
   reports it as an observation, not as a violation *)
Definition C08_no_partial_loadable_under (E : env) : Prop :=
  forall (markers : list item) (st : store) (m : mode) (p ts tz : path) (ws zs : list item)
         (fs : fsys) (k : nat),
    p <> ts /\ p <> tz /\ ts <> tz /\ fs ts = Absent /\ fs tz = Absent ->
    match load_model markers (fst (run_x E k (save_prog st m p ts tz ws zs) fs)) p with
    | LErr => True
    | LObj c => load_model markers fs p = LObj c \/ c = final_content st ws zs
    end.

Theorem C08_interrupted_removal_refuted :
  ~ C08_no_partial_loadable_under (rm_env (firstn 2) 0).
Proof. exact interrupted_removal_refuted. Qed.
Print Assumptions C08_interrupted_removal_refuted.

(* ---------------------------------------------------------------- exception classes *)
(* save()'s clean-up sites are `with` statements: they run for EVERY class of exception
   (Exception, KeyboardInterrupt, SystemExit, GeneratorExit, any other BaseException), so a fault
   of any class at k leaves exactly what `run k` says — every theorem above holds for every class;
   for subclasses of Exception the kind of guard does not matter ... *)
Theorem C08_every_exception_class :
  forall (x : exc_class) (k : nat) (prog : list effect) (fs : fsys),
    run_exc with_guards x k prog fs = run k prog fs /\
    forall g, run_exc g XException k prog fs = run k prog fs.
Proof. intros x k prog fs. split; [apply run_exc_with | intros g; apply run_exc_exception]. Qed.
Print Assumptions C08_every_exception_class.

(* ... whereas clean-up guarded by `except Exception:` would leave the staging area on Ctrl-C *)
Theorem C08_except_exception_guard_refuted :
  exists st m p ts tz ws zs fs k,
    (p <> ts /\ p <> tz /\ ts <> tz /\ fs ts = Absent /\ fs tz = Absent) /\
    fst (run_exc (fun _ => GExceptException) XKeyboardInterrupt k (save_prog st m p ts tz ws zs) fs) ts <> fs ts /\
    fst (run_exc (fun _ => GExceptException) XException k (save_prog st m p ts tz ws zs) fs) ts = fs ts.
Proof. exact except_exception_refuted. Qed.
Print Assumptions C08_except_exception_guard_refuted.

(* ---------------------------------------------------------------- non-vacuity (extension) *)
Definition ex_loc (s : string) : path := 10 + String.length s.
Definition ex_tmp (p : path) : path * path := (1, 2).

Example C08_nonvacuous_resolve :
  resolve AZip "obj" = (AZip, "obj.zip"%string) /\ resolve AAuto "obj.zip" = (AZip, "obj.zip"%string) /\
  resolve AAuto "obj.ZIP" = (ADir, "obj.ZIP"%string) /\ resolve AZip "obj.zip.bak" = (AZip, "obj.zip.bak.zip"%string) /\
  validate ADir "obj.ZIP" = VBadDirName /\ validate ADir "run.1/obj" = VStore SDir /\
  validate ADir "obj/" = VStore SDir /\ validate AOther "obj" = VBadStore.
Proof. repeat split; vm_compute; reflexivity. Qed.

Example C08_nonvacuous_call :
  (* hypotheses of the call theorems are satisfiable; write-once through the appended suffix *)
  let fs : fsys := fun q => if Nat.eqb q 17 then Other 5 else if Nat.eqb q 13 then Other 6 else Absent in
  ex_loc (snd (resolve AZip "obj")) = 17 /\ ex_loc "obj" = 13 /\
  snd (run_call ex_loc ex_tmp 99 AZip "obj" MW [0; 1]%Z [500]%Z fs) = CExists /\
  fst (run_call ex_loc ex_tmp 99 AZip "obj" MW [0; 1]%Z [500]%Z fs) 17 = Other 5 /\
  (* overwrite: the resolved location gets the archive, the location of the name as given is untouched *)
  snd (run_call ex_loc ex_tmp 99 AZip "obj" MO [0; 1]%Z [500]%Z fs) = CDone /\
  fst (run_call ex_loc ex_tmp 99 AZip "obj" MO [0; 1]%Z [500]%Z fs) 17 = Zip true [500]%Z /\
  fst (run_call ex_loc ex_tmp 99 AZip "obj" MO [0; 1]%Z [500]%Z fs) 13 = Other 6 /\
  (* refused: directory store with a file-like name *)
  snd (run_call ex_loc ex_tmp 99 AAuto "obj.ZIP" MO [0; 1]%Z [500]%Z fs) = CValue.
Proof. repeat split; vm_compute; reflexivity. Qed.

Example C08_nonvacuous_cleanup_env :
  (* the two environments used by the harness satisfy the hypotheses of C08_cleanup_faults_agree /
     C08_interrupted_removal; the witness of the refutation spelled out *)
  ((forall h f r, ~ In r (htouches h) -> hrun stuck_env h f r = f r) /\
   (forall e f r, r <> 1 -> r <> 2 -> inside stuck_env e f r = f r)) /\
  load_model [1000%Z] (fst (run_x (rm_env (firstn 2) 0) 4 (save_prog SDir MO 0 1 2 [0; 1]%Z []) ex_fs3)) 0
    = LObj [1000; 1001]%Z /\
  load_model [1000%Z] ex_fs3 0 = LObj [1000; 1001; 1002]%Z.
Proof. split; [exact (stuck_env_safe 0 1 2) | split; vm_compute; reflexivity]. Qed.

(* ================================================================================================
   ROUND 4 EXTENSION: TARGETS BELOW A CHAIN OF DIRECTORIES (model/C08_Model_Tree.v, proof/C08_Proofs_Tree.v)
     anc                            the directories above the target, outermost first; each may or may not exist
     tree_prog st m p anc ...       effects of the save: existence check, os.makedirs of the chain (directory
                                    store only: one MkDir per directory, NO clean-up handler for them), then the
                                    rest of save_prog
     tree_run k st m p anc ... fs   its run with a fault at k (the zip store refuses when a directory of the
                                    chain is missing: TemporaryDirectory(dir = parent) raises)
     created_only anc fs fs1        fs1 = fs except that missing directories of anc were created, empty *)
From QV.model Require Import C08_Model_Tree.
From QV.proof Require Import C08_Proofs_Tree.

(* reduction to the flat protocol: all theorems above carry over to targets with ancestors *)
Theorem C08_tree_run_reduces :
  forall (st : store) (m : mode) (p : path) (anc : list path) (ts tz : path) (ws zs : list item)
         (fs : fsys) (k : nat),
    ~ In p anc ->
    exists fs1, created_only anc fs fs1 /\
      ((exists o, tree_run k st m p anc ts tz ws zs fs = (fs1, o) /\ o <> Done)
       \/ (exists k1, tree_run k st m p anc ts tz ws zs fs = run k1 (save_prog st m p ts tz ws zs) fs1)).
Proof. exact tree_run_reduces. Qed.
Print Assumptions C08_tree_run_reduces.

(* "no save, successful or not, alters any path other than its target": for every fault index, both stores,
   both modes, every chain of existing / missing directories above the target and every content of all paths,
   a path other than the target ends as it was — except that a MISSING directory of the chain may have been
   created (empty) *)
Theorem C08_tree_frame :
  forall (st : store) (m : mode) (p : path) (anc : list path) (ts tz : path) (ws zs : list item)
         (fs : fsys) (k : nat) (q : path),
    (p <> ts /\ p <> tz /\ ts <> tz /\ fs ts = Absent /\ fs tz = Absent) /\
    ~ In p anc /\ ~ In ts anc /\ ~ In tz anc ->
    q <> p ->
    let fs' := fst (tree_run k st m p anc ts tz ws zs fs) in
    fs' q = fs q \/ (In q anc /\ fs q = Absent /\ fs' q = Dir []).
Proof. exact tree_frame. Qed.
Print Assumptions C08_tree_frame.

(* every PRE-EXISTING path other than the target (ancestor directories, empty or not, included) is still
   there, unchanged, after a failed save as after a successful one *)
Theorem C08_tree_preexisting_kept :
  forall (st : store) (m : mode) (p : path) (anc : list path) (ts tz : path) (ws zs : list item)
         (fs : fsys) (k : nat) (q : path),
    (p <> ts /\ p <> tz /\ ts <> tz /\ fs ts = Absent /\ fs tz = Absent) /\
    ~ In p anc /\ ~ In ts anc /\ ~ In tz anc ->
    q <> p -> fs q <> Absent ->
    fst (tree_run k st m p anc ts tz ws zs fs) q = fs q.
Proof. exact tree_preexisting_kept. Qed.
Print Assumptions C08_tree_preexisting_kept.

Theorem C08_tree_no_partial_loadable :
  forall (markers : list item) (st : store) (m : mode) (p : path) (anc : list path) (ts tz : path)
         (ws zs : list item) (fs : fsys) (k : nat),
    (p <> ts /\ p <> tz /\ ts <> tz /\ fs ts = Absent /\ fs tz = Absent) /\
    ~ In p anc /\ ~ In ts anc /\ ~ In tz anc ->
    match load_model markers (fst (tree_run k st m p anc ts tz ws zs fs)) p with
    | LErr => True
    | LObj c => load_model markers fs p = LObj c \/ c = final_content st ws zs
    end.
Proof. exact tree_no_partial_loadable. Qed.
Print Assumptions C08_tree_no_partial_loadable.

(* write-once below any chain: nothing is modified, no directory is created *)
Theorem C08_tree_write_once :
  forall (st : store) (p : path) (anc : list path) (ts tz : path) (ws zs : list item) (fs : fsys) (k : nat),
    fs p <> Absent ->
    (forall q, fst (tree_run k st MW p anc ts tz ws zs fs) q = fs q) /\
    (1 <= k -> snd (tree_run k st MW p anc ts tz ws zs fs) = ErrExists).
Proof. exact tree_write_once. Qed.
Print Assumptions C08_tree_write_once.

Theorem C08_tree_success_complete :
  forall (st : store) (m : mode) (p : path) (anc : list path) (ts tz : path) (ws zs : list item)
         (fs : fsys) (k : nat),
    (p <> ts /\ p <> tz /\ ts <> tz /\ fs ts = Absent /\ fs tz = Absent) /\
    ~ In p anc /\ ~ In ts anc /\ ~ In tz anc ->
    snd (tree_run k st m p anc ts tz ws zs fs) = Done ->
    fst (tree_run k st m p anc ts tz ws zs fs) p = final_entry st ws zs.
Proof. exact tree_success_complete. Qed.
Print Assumptions C08_tree_success_complete.

(* NECESSITY of "no clean-up handler for the created directories": the statement for an arbitrary clean-up
   environment E (run_x), which holds for the handlers the code has and is REFUTED for a clean-up that
   "undoes" os.makedirs by pruning empty directories upwards (os.removedirs): a directory that existed
   before the save, and was empty, is gone after a failed save *)
Definition C08_tree_kept_under (E : list path -> env) : Prop :=
  forall (m : mode) (p : path) (anc : list path) (ts tz : path) (ws zs : list item) (fs : fsys) (k : nat) (q : path),
    (p <> ts /\ p <> tz /\ ts <> tz /\ fs ts = Absent /\ fs tz = Absent) /\
    ~ In p anc /\ ~ In ts anc /\ ~ In tz anc ->
    q <> p -> fs q <> Absent ->
    fst (run_x (E anc) k (tree_prog SDir m p anc ts tz ws zs) fs) q = fs q.

Theorem C08_tree_kept_with_the_handlers_of_the_code : C08_tree_kept_under (fun _ => std_env).
Proof. exact tree_kept_std. Qed.
Print Assumptions C08_tree_kept_with_the_handlers_of_the_code.

Theorem C08_tree_pruning_cleanup_refuted : ~ C08_tree_kept_under prune_env.
Proof. exact tree_prune_refuted. Qed.
Print Assumptions C08_tree_pruning_cleanup_refuted.

Example C08_nonvacuous_tree :
  (* hypotheses satisfiable; the directory store creates the two missing directories below an empty and a
     non-empty existing one, the zip store refuses and creates nothing *)
  let codes := [2; 1; 0; 0]%Z in
  let fs0 := tree_fs Absent codes in
  ((0 <> 1 /\ 0 <> 2 /\ 1 <> 2 /\ fs0 1 = Absent /\ fs0 2 = Absent) /\
   ~ In 0 (anc_paths codes) /\ ~ In 1 (anc_paths codes) /\ ~ In 2 (anc_paths codes)) /\
  (let r := tree_run 100 SDir MW 0 (anc_paths codes) 1 2 [1; 2]%Z [] fs0 in
   snd r = Done /\ fst r 8 = Dir [] /\ fst r 9 = Dir [] /\ fst r 7 = Dir [] /\ fst r 6 = Dir [78%Z]
   /\ fst r 0 = Dir [1; 2]%Z) /\
  (let r := tree_run 100 SZip MW 0 (anc_paths codes) 1 2 [1; 2]%Z [501; 502]%Z fs0 in
   snd r = ErrOther /\ fst r 8 = Absent /\ fst r 0 = Absent) /\
  (* a fault at the first write: the created directories stay, the existing ones are as they were *)
  (let r := tree_run 6 SDir MW 0 (anc_paths codes) 1 2 [1; 2]%Z [] fs0 in
   snd r = Faulted /\ fst r 8 = Dir [] /\ fst r 7 = Dir [] /\ fst r 0 = Absent /\ fst r 1 = Absent).
Proof.
  split; [|split; [exact tree_nonvacuous_dir_creates|split; [exact tree_nonvacuous_zip_refuses|vm_compute; repeat split]]].
  split; [repeat split; try discriminate|]; repeat split; cbn; intuition discriminate.
Qed.

(* ================================================================ round 5: PERSISTENT faults, retry helpers
   A fault plan pl j a says whether attempt a at effect j fails (one_shot k / persistent k / anything else).
   retry_run r pl = the protocol with a helper that repeats a failing effect up to r times and then lets the
   exception propagate; swallow_run = the helper whose give-up test never fires (model/C08_Model_Retry.v). *)
From QV.model Require Import C08_Model_Retry.
From QV.proof Require Import C08_Proofs_Retry.

(* whatever the plan and the number of repetitions: the run with ONE fault at the first effect whose attempts
   are all used up (none: the uninterrupted save) -- so every theorem above speaks about it *)
Theorem C08_retry_run_reduces :
  forall (r : nat) (pl : plan) (prog : list effect) (fs : fsys),
    retry_run r pl prog fs = run (first_exhausted r pl 0 (List.length prog)) prog fs.
Proof. exact retry_run_reduces. Qed.
Print Assumptions C08_retry_run_reduces.

(* an effect that fails at EVERY attempt still fails however often it is repeated: the save ends as with the
   fault at k (exception out, target absent / unreadable / as before) *)
Theorem C08_retry_persistent_still_fails :
  forall (r : nat) (pl : plan) (k : nat) (prog : list effect) (fs : fsys),
    (forall a, pl k a = true) -> (forall j, j < k -> pl j 0 = false) -> k < List.length prog ->
    retry_run r pl prog fs = run k prog fs.
Proof. exact retry_persistent_still_fails. Qed.
Print Assumptions C08_retry_persistent_still_fails.

(* faults that leave one of the r + 1 attempts working at every effect are absorbed: the uninterrupted save
   (the check does not report a one-shot fault that a retry overcomes) *)
Theorem C08_retry_absorbs :
  forall (r : nat) (pl : plan) (prog : list effect) (fs : fsys),
    (forall j, exists a, a <= r /\ pl j a = false) ->
    retry_run r pl prog fs = run (List.length prog) prog fs.
Proof. exact retry_absorbs. Qed.
Print Assumptions C08_retry_absorbs.

Theorem C08_retry_one_shot_absorbed :
  forall (r k : nat) (prog : list effect) (fs : fsys),
    1 <= r -> retry_run r (one_shot k) prog fs = run (List.length prog) prog fs.
Proof. exact retry_one_shot_absorbed. Qed.
Print Assumptions C08_retry_one_shot_absorbed.

(* the code as it is (no helper): a one-shot and a persistent fault at k are the same run *)
Theorem C08_no_helper_one_shot_is_persistent :
  forall (k : nat) (prog : list effect) (fs : fsys),
    k < List.length prog ->
    retry_run 0 (one_shot k) prog fs = run k prog fs /\ retry_run 0 (persistent k) prog fs = run k prog fs.
Proof. intros k prog fs H. split; [exact (retry_zero_is_run k prog fs H)|exact (retry_persistent_one k 0 prog fs H)]. Qed.
Print Assumptions C08_no_helper_one_shot_is_persistent.

(* no partial object becomes loadable under EVERY fault plan and every number of repetitions *)
Theorem C08_retry_no_partial_loadable :
  forall (markers : list item) (st : store) (m : mode) (p ts tz : path) (ws zs : list item)
         (fs : fsys) (r : nat) (pl : plan),
    p <> ts /\ p <> tz /\ ts <> tz /\ fs ts = Absent /\ fs tz = Absent ->
    match load_model markers (fst (retry_run r pl (save_prog st m p ts tz ws zs) fs)) p with
    | LErr => True
    | LObj c => load_model markers fs p = LObj c \/ c = final_content st ws zs
    end.
Proof. exact retry_no_partial_loadable. Qed.
Print Assumptions C08_retry_no_partial_loadable.

(* NECESSITY: the helper that drops the exception after its last attempt (a give-up test that never fires)
   breaks the property: a persistent fault at one item write leaves a loadable object without that item, in
   place of the earlier complete object, and the save reports success *)
Theorem C08_swallowing_retry_refuted : ~ swallow_statement.
Proof. exact swallow_refuted. Qed.
Print Assumptions C08_swallowing_retry_refuted.

Example C08_nonvacuous_retry :
  (* persistent fault at the third item write, two repetitions: the save fails, the earlier object stays *)
  (let r := retry_run 2 (persistent 4) (save_prog SDir MO 0 1 2 [1; 2; 3]%Z [])
                      (fun q => match q with 0 => Dir [1; 7]%Z | _ => Absent end) in
   snd r = Faulted /\ fst r 0 = Dir [1; 7]%Z /\ fst r 1 = Absent) /\
  (* one-shot fault at the same write: absorbed, the complete new object *)
  (let r := retry_run 2 (one_shot 4) (save_prog SDir MO 0 1 2 [1; 2; 3]%Z [])
                      (fun q => match q with 0 => Dir [1; 7]%Z | _ => Absent end) in
   snd r = Done /\ fst r 0 = Dir [1; 2; 3]%Z) /\
  (* the swallowing helper: success reported, the item is missing, the earlier object is gone *)
  (let r := swallow_run 2 (persistent 3) (save_prog SDir MO 0 1 2 [1; 2; 3]%Z [])
                        (fun q => match q with 0 => Dir [1; 7]%Z | _ => Absent end) in
   snd r = Done /\ fst r 0 = Dir [1; 3]%Z).
Proof. vm_compute. repeat split. Qed.
