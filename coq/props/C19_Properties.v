(* C19 — configuration store (preliminary) *)
From QV.lib Require Import Prelude.
From QV.model Require Import C19_Model.
From QV.proof Require Import C19_Proofs_Keys C19_Proofs_Set.
From Coq Require Import String Ascii.

Theorem C19_get_set :
  forall validate key key' v v' d d' r,
    good (Node d) -> key_ok key -> key_ok key' -> same_path (path_of key) (path_of key') ->
    check_key_val validate key v = inr v' ->
    set_item validate key v d = inr (d', r) ->
    C19_Model.get key' d' = inr v'.
Proof. exact get_set. Qed.
Print Assumptions C19_get_set.
