(* C19 — Configuration store is a last-writer-wins nested map; refresh restores defaults.
   ONLY the property theorems (closed by `exact`), their assumption reports and non-vacuity
   examples.  Model: model/C19_Model.v = quantem.core.config with the repairs
   fixes/C19-context-manager.diff, C19-defaults-spelling.diff (both committed in /repo),
   C19-exit-canonical-names.diff and C19-cpu-substring.diff (proposed).

   Vocabulary (model/C19_Model.v): a store is (conf, dflts); `good c` = every dict of the tree c
   spells each key once and purely (no dict holds both the '-' and the '_' spelling of a
   name); `pure k` = k does not mix '-' and '_'; `norm k` = the spelling-insensitive name;
   `same_path p q` = equal up to spelling; `diverge p q` = neither path is a prefix of the
   other (up to spelling).  `validate` is validate_device, an arbitrary function in every
   theorem (the harness instantiates it with the answer of this host, validate_nogpu).
   Keys are quantified over pure spellings (key_ok / op_ok); mixed spellings such as "a_b-c"
   are distinct keys in the code and in the model and are outside the claim. *)
From QV.lib Require Import Prelude.
From QV.model Require Import C19_Model.
From QV.proof Require Import C19_Proofs_Keys C19_Proofs_Set C19_Proofs_Update C19_Proofs_Ctx
  C19_Proofs_Hist C19_Proofs_Last.
From Coq Require Import String Ascii.

(* ------------------------------------------------------------------ get after set *)
(* get k' (set k v s) = v for every spelling k' of k (dotted keys, nested creation); for the
   key "device" v' is the normalised device, otherwise v' = v *)
Theorem C19_get_set :
  forall validate key key' v v' d d' r,
    good (Node d) -> key_ok key -> key_ok key' -> same_path (path_of key) (path_of key') ->
    check_key_val validate key v = inr v' ->
    set_item validate key v d = inr (d', r) ->
    C19_Model.get key' d' = inr v'.
Proof. exact get_set. Qed.
Print Assumptions C19_get_set.

(* ------------------------------------------------------------------ one spelling per dict *)
(* reachable-state invariant over ALL histories of set (mapping / keyword / dotted forms),
   update_defaults, refresh and with-blocks (bodies included, calls that raise half-way
   included): the configuration and every stored default are `good` *)
Theorem C19_one_spelling_inv :
  forall validate ops,
    Forall op_ok ops ->
    good (Node (conf (run validate ops empty_store))) /\
    Forall (fun d => good (Node d)) (dflts (run validate ops empty_store)).
Proof. exact one_spelling_inv. Qed.
Print Assumptions C19_one_spelling_inv.

(* what `good` says about a dict: two stored keys with the same name are the same key, and
   the same holds below every entry *)
Theorem C19_good_means_one_spelling :
  forall d, good (Node d) ->
    (forall k1 k2, In k1 (map fst d) -> In k2 (map fst d) -> norm k1 = norm k2 -> k1 = k2) /\
    (forall k c, lookup k d = Some c -> good c).
Proof.
  exact (fun d G => conj (fun k1 k2 => good_norm_inj d k1 k2 (good_keys_of d G))
                         (fun k c => good_lookup d k c G)).
Qed.
Print Assumptions C19_good_means_one_spelling.

(* ------------------------------------------------------------------ siblings *)
(* a dotted set leaves every key that is neither above nor below the written one untouched *)
Theorem C19_set_preserves_siblings :
  forall validate key key' v d d' r,
    good (Node d) -> key_ok key -> key_ok key' -> diverge (path_of key) (path_of key') ->
    set_item validate key v d = inr (d', r) ->
    C19_Model.get key' d' = C19_Model.get key' d.
Proof. exact set_preserves_siblings. Qed.
Print Assumptions C19_set_preserves_siblings.

(* nested updates (update with any priority: the engine of merge, update_defaults and
   refresh) merge without dropping siblings: an entry that is not on, above or below a path
   written by `new` keeps its value — also when the call raises half-way *)
Theorem C19_update_preserves_siblings :
  forall validate new, good new -> forall prio old dv old' e q x,
    good (Node old) -> pure_path q -> nodev q ->
    (forall w, In w (wpaths new) -> diverge w q) ->
    update_cfg validate prio new old dv = (old', e) ->
    get_path q (Node old) = inr x -> get_path q (Node old') = inr x.
Proof. exact update_siblings. Qed.
Print Assumptions C19_update_preserves_siblings.

(* ------------------------------------------------------------------ last writer wins *)
(* inside one call (mapping items then keyword items, in order): the last item that writes a
   key wins *)
Theorem C19_get_last_writer_in_call :
  forall validate pre key v post key' v' d d' recs,
    good (Node d) -> items_ok (pre ++ (key, v) :: post) -> key_ok key' ->
    same_path (path_of key) (path_of key') ->
    check_key_val validate key v = inr v' ->
    (forall key2 v2, In (key2, v2) post -> diverge (path_of key2) (path_of key')) ->
    set_items validate (pre ++ (key, v) :: post) d [] = (d', recs, None) ->
    C19_Model.get key' d' = inr v'.
Proof. exact get_last_writer. Qed.
Print Assumptions C19_get_last_writer_in_call.

(* over histories: after ANY history `pre`, a set of key k followed by any statements that do
   not write k (sets of other keys, update_defaults of other keys; successful or raising)
   still reads the value set, under either spelling.  The writers of k are therefore exactly:
   a later set of k (C19_get_set), an update_defaults carrying k (which wins only under
   C19_update_defaults_semantics) and refresh (C19_refresh_is_merge_defaults). *)
Theorem C19_get_last_writer :
  forall validate pre key v v' d2 r key' post,
    Forall op_ok pre ->
    let s1 := run validate pre empty_store in
    key_ok key -> good v -> key_ok key' -> nodev (path_of key') ->
    same_path (path_of key) (path_of key') ->
    check_key_val validate key v = inr v' ->
    set_item validate key v (conf s1) = inr (d2, r) ->
    Forall (no_write key') post ->
    C19_Model.get key' (conf (run_s validate post {| conf := d2; dflts := dflts s1 |})) = inr v'.
Proof. exact get_last_writer_hist. Qed.
Print Assumptions C19_get_last_writer.

(* ------------------------------------------------------------------ refresh / merge *)
(* refresh ignores (clears) the previous configuration, keeps the defaults, and without yaml
   files yields exactly the merge of the defaults *)
Theorem C19_refresh_is_merge_defaults :
  forall validate yaml s,
    (forall c, refresh validate yaml {| conf := c; dflts := dflts s |} = refresh validate yaml s) /\
    dflts (fst (refresh validate yaml s)) = dflts s /\
    refresh validate [] s =
      ({| conf := fst (merge validate (dflts s)); dflts := dflts s |}, snd (merge validate (dflts s))).
Proof. exact refresh_is_merge_defaults. Qed.
Print Assumptions C19_refresh_is_merge_defaults.

(* ... and that merge is last-writer-wins: a leaf of some default reads back (either
   spelling) unless a LATER default writes on, above or below it *)
Theorem C19_merge_last_writer :
  forall validate ds1 d ds2 m q q' x,
    Forall (fun d => good (Node d)) (ds1 ++ d :: ds2) ->
    pure_path q -> pure_path q' -> nodev q -> same_path q q' -> q <> [] ->
    get_path q (Node d) = inr (Leaf x) ->
    (forall d2, In d2 ds2 -> forall w, In w (wp_items d2) -> diverge w q') ->
    merge validate (ds1 ++ d :: ds2) = (m, None) ->
    get_path q' (Node m) = inr (Leaf x).
Proof. exact merge_last_writer. Qed.
Print Assumptions C19_merge_last_writer.

(* ... and nothing else: a name carried by no default is absent *)
Theorem C19_merge_absent :
  forall validate ds m e qk,
    (forall d, In d ds -> forall k v, In (k, v) d -> norm k <> norm qk) ->
    merge validate ds = (m, e) -> lookup (canon qk m) m = None.
Proof. exact (fun validate ds m e qk H M => merge_absent validate ds [] m e qk H M). Qed.
Print Assumptions C19_merge_absent.

(* ------------------------------------------------------------------ update_defaults *)
(* update_defaults(new) appends (the validated) new to the defaults; a top-level scalar key
   of it takes the new value iff it was absent or still equal to what the accumulated
   defaults gave it; a value the user changed is kept.  `find k d` = lookup (canon k d) d is
   the entry `get` sees for the component k. *)
Theorem C19_update_defaults_semantics :
  forall validate new s s',
    (good (Node (conf s)) /\ Forall (fun d => good (Node d)) (dflts s)) ->
    good (Node new) -> update_defaults validate new s = (s', None) ->
    exists new' cur,
      check_items validate new = inr new' /\ merge validate (dflts s) = (cur, None) /\
      dflts s' = dflts s ++ [new'] /\
      forall k x k2, In (k, Leaf x) new -> k <> "device"%string -> pure k2 = true -> norm k2 = norm k ->
        find k2 (conf s') =
        match find k2 (conf s) with
        | None => Some (Leaf x)
        | Some ov => match find k2 cur with
                     | Some dvv => if cfg_eqb dvv ov then Some (Leaf x) else Some ov
                     | None => Some ov
                     end
        end.
Proof. exact update_defaults_rule. Qed.
Print Assumptions C19_update_defaults_semantics.

(* priority "new" of update: every leaf of `new` reads back afterwards (either spelling) *)
Theorem C19_update_new_get :
  forall validate new, good new -> forall old dv old' q q' x,
    good (Node old) -> pure_path q -> pure_path q' -> nodev q -> same_path q q' -> q <> [] ->
    get_path q new = inr (Leaf x) ->
    update_cfg validate PNew new old dv = (old', None) ->
    get_path q' (Node old') = inr (Leaf x).
Proof. exact update_new_get. Qed.
Print Assumptions C19_update_new_get.

(* ------------------------------------------------------------------ devices *)
(* a request that is not a cpu request and that validate_device rejects: set({"device": v}),
   set(device=v) [= set_device(v)] raise and change nothing; inside a larger call the items
   before it are applied and nothing after; update_defaults raises before touching the store
   or the defaults *)
Theorem C19_device_rejected_unchanged :
  forall validate v e,
    cpu_request v = false -> validate v = inl e ->
    (forall s, step_s validate (SSet (Some (Node [("device"%string, v)])) []) s = (s, Some e)) /\
    (forall s, step_s validate (SSet None [("device"%string, v)]) s = (s, Some e)) /\
    (forall l1 l2 d recs,
        set_items validate (l1 ++ ("device"%string, v) :: l2) d recs =
        match set_items validate l1 d recs with (d1, r1, None) => (d1, r1, Some e) | x => x end) /\
    (forall new s, In ("device"%string, v) new -> exists e', update_defaults validate new s = (s, Some e')).
Proof. exact device_rejected_unchanged. Qed.
Print Assumptions C19_device_rejected_unchanged.

(* reachable-state invariant, for every history whatsoever: a device stored as a scalar is
   "cpu" or a string validate_device returned *)
Theorem C19_stored_device_valid :
  forall validate ops x,
    lookup "device" (conf (run validate ops empty_store)) = Some (Leaf x) ->
    exists s, x = JStr s /\ (s = "cpu"%string \/ exists v, validate v = inr s).
Proof. exact stored_device_valid. Qed.
Print Assumptions C19_stored_device_valid.

(* on this host (no CUDA, no MPS) exactly the cpu requests are accepted: None, "cpu" in any
   case, "cpu:<digits>" *)
Theorem C19_nogpu_accepts_only_cpu :
  forall v s, check_dev validate_nogpu "device" v = inr (Some s) -> s = "cpu"%string.
Proof.
  intros v s. unfold check_dev. cbn [String.eqb Ascii.eqb Bool.eqb]. destruct (cpu_request v); [congruence|].
  destruct v as [[| |z|t]|l]; cbn [validate_nogpu]; try congruence.
  - destruct (z <? 0)%Z; congruence.
  - destruct (contains "cuda" (lower t)); [congruence|]. destruct (contains "gpu" (lower t)); [congruence|].
    destruct (String.eqb (lower t) "mps"); [congruence|]. destruct (String.eqb (lower t) "cpu"); congruence.
Qed.
Print Assumptions C19_nogpu_accepts_only_cpu.

(* ------------------------------------------------------------------ context manager *)
(* exit (enter s kvs) = s, exactly (same entries, same order): any number of items in mapping
   and keyword form, dotted keys, nested inserts, keys that existed or not, the same key
   several times — no hypothesis on the store or on the arguments *)
Theorem C19_ctx_restores :
  forall validate arg kw d d1 recs,
    set_call validate arg kw d = (d1, recs, None) -> exit_call recs d1 = (d, None).
Proof. exact ctx_restores. Qed.
Print Assumptions C19_ctx_restores.

(* `with set(...): pass` and `with set(...): raise` leave the store as it was *)
Theorem C19_with_restores :
  forall validate arg kw s d1 recs,
    set_call validate arg kw (conf s) = (d1, recs, None) ->
    step validate (With arg kw []) s = (s, None) /\
    step validate (WithX arg kw []) s = (s, None) /\
    step validate (WithX arg kw [SSet (Some (Leaf JNone)) []]) s = (s, Some TypeErr).
Proof. exact with_pass_restores. Qed.
Print Assumptions C19_with_restores.

(* ------------------------------------------------------------------ non-vacuity *)
Ltac nodup_tac := repeat (constructor; [cbn; intuition discriminate|]); constructor.
Ltac good_tac :=
  first [ apply good_leaf
        | constructor;
          [ repeat (constructor; [reflexivity|]); constructor
          | cbn; nodup_tac
          | repeat (constructor; [cbn [snd]; good_tac|]); constructor ] ].
Ltac pp_tac := vm_compute; repeat constructor.

Local Open Scope string_scope.

Definition ex_d : items :=
  [("dtype_real", Leaf (JStr "float32")); ("viz", Node [("real-space-units", Leaf (JStr "A")); ("cmap", Leaf (JStr "gray"))])]%string.

Example C19_nonvacuous_good : good (Node ex_d).
Proof. unfold ex_d. good_tac. Qed.

(* set under one spelling, get under the other, nested *)
Example C19_nonvacuous_get_set :
  exists d' r, set_item validate_nogpu "viz.real_space_units" (Leaf (JStr "nm")) ex_d = inr (d', r) /\
               C19_Model.get "viz.real-space-units" d' = inr (Leaf (JStr "nm")) /\
               C19_Model.get "viz.cmap" d' = inr (Leaf (JStr "gray")).
Proof.
  eexists. eexists. split; [vm_compute; reflexivity|]. split.
  - eapply (C19_get_set validate_nogpu "viz.real_space_units" "viz.real-space-units");
      [exact C19_nonvacuous_good | pp_tac | pp_tac | reflexivity | reflexivity | vm_compute; reflexivity].
  - etransitivity;
      [eapply (C19_set_preserves_siblings validate_nogpu "viz.real_space_units" "viz.cmap");
         [exact C19_nonvacuous_good | pp_tac | pp_tac | | vm_compute; reflexivity] | reflexivity].
    vm_compute. right. split; [reflexivity|]. left. discriminate.
Qed.

Definition ex_ops : list op :=
  [Do (SUpd [("viz", Node [("real-space-units", Leaf (JStr "A"))]); ("dtype_real", Leaf (JStr "float32"))]);
   Do (SSet (Some (Node [("viz.real_space_units", Leaf (JStr "nm"))])) [("dtype-real", Leaf (JStr "float64"))]);
   WithX (Some (Node [("new_sec.k-1", Leaf (JInt 1))])) []
         [SRefresh []; SUpd [("new-sec", Node [("k_1", Leaf (JInt 5))])]; SSet (Some (Leaf JNone)) []];
   Do (SSet None [("device", Leaf (JStr "cuda:0"))])]%string.

Example C19_nonvacuous_ops_ok : Forall op_ok ex_ops.
Proof.
  unfold ex_ops. repeat (apply Forall_cons); try apply Forall_nil; cbn [op_ok sop_ok arg_ok].
  - good_tac.
  - split; (constructor; [split; [pp_tac | good_tac]|constructor]).
  - split; [constructor; [split; [pp_tac | good_tac]|constructor]|]. split; [constructor|].
    repeat (apply Forall_cons); try apply Forall_nil; cbn [sop_ok arg_ok goods kw_items map].
    + good_tac.
    + split; [exact I | constructor].
  - split; [exact I|]. constructor; [split; [pp_tac | good_tac]|constructor].
Qed.

(* the history runs, the with-block's body rebuilt "new_sec" under the other spelling and
   __exit__ still found (and removed) it; the rejected device left "device" absent *)
Example C19_nonvacuous_history :
  conf (run validate_nogpu ex_ops empty_store) =
    [("viz", Node [("real-space-units", Leaf (JStr "A"))]); ("dtype_real", Leaf (JStr "float32"))]%string /\
  good (Node (conf (run validate_nogpu ex_ops empty_store))).
Proof.
  split; [vm_compute; reflexivity|]. exact (proj1 (C19_one_spelling_inv validate_nogpu ex_ops C19_nonvacuous_ops_ok)).
Qed.

(* the unrepaired __exit__ (recorded spelling used as is) would have left both spellings of
   "new_sec" in that history: restoring ("new_sec") := absent pops nothing, ("new_sec","k-1") is
   a no-op, and for a `replace` record d["new_sec"] = old is added next to "new-sec" *)
Example C19_exit_needs_canonical_names :
  let d := [("new-sec", Leaf (JInt 5))]%string in
  assign "new_sec" (Leaf (JInt 1)) d = [("new-sec", Leaf (JInt 5)); ("new_sec", Leaf (JInt 1))]%string /\
  restore_replace ["new_sec"%string] (Leaf (JInt 1)) d = inr [("new-sec", Leaf (JInt 1))]%string.
Proof. split; vm_compute; reflexivity. Qed.

(* last writer over a history *)
Example C19_nonvacuous_last_writer :
  C19_Model.get "viz.real-space-units"
    (conf (run_s validate_nogpu
             [SUpd [("viz", Node [("cmap", Leaf (JStr "magma"))])]; SSet None [("device", Leaf (JStr "tpu"))];
              SSet (Some (Node [("viz.cmap", Leaf (JInt 3)); ("alpha", Leaf JNone)])) []]%string
             {| conf := fst (match set_item validate_nogpu "viz.real_space_units" (Leaf (JStr "nm"))
                                    (conf (run validate_nogpu ex_ops empty_store)) with
                             | inr x => x | inl _ => ([], ([], None)) end);
                dflts := dflts (run validate_nogpu ex_ops empty_store) |}))
  = inr (Leaf (JStr "nm")).
Proof.
  eapply (C19_get_last_writer validate_nogpu ex_ops "viz.real_space_units" (Leaf (JStr "nm")));
    [exact C19_nonvacuous_ops_ok | pp_tac | good_tac | pp_tac | vm_compute; repeat constructor; discriminate
    | reflexivity | reflexivity | vm_compute; reflexivity |].
  repeat (apply Forall_cons); try apply Forall_nil; cbn [no_write arg_ok set_args kw_items map app].
  - split; [good_tac|]. intros w [<-|[]]. vm_compute. right. split; [reflexivity|]. left. discriminate.
  - split; [exact I|]. split; [constructor; [split; [pp_tac | good_tac]|constructor]|].
    intros key v [E|[]]. inversion E; subst. vm_compute. left. discriminate.
  - split; [repeat (constructor; [split; [pp_tac | good_tac]|]); constructor|]. split; [constructor|].
    intros key v [E|[E|[]]]; inversion E; subst; vm_compute.
    + right. split; [reflexivity|]. left. discriminate.
    + left. discriminate.
Qed.

(* refresh = merge of the defaults, later defaults win, other spelling merges into the entry *)
Example C19_nonvacuous_merge :
  merge validate_nogpu [[("a-b", Leaf (JInt 1)); ("s", Node [("x", Leaf (JInt 1))])];
                        [("a_b", Leaf (JInt 2)); ("s", Node [("y", Leaf (JInt 3))])]]%string
  = ([("a-b", Leaf (JInt 2)); ("s", Node [("x", Leaf (JInt 1)); ("y", Leaf (JInt 3))])]%string, None).
Proof. vm_compute. reflexivity. Qed.

(* the three cases of the update_defaults rule: still the default -> follows; changed by the
   user -> kept; absent -> added *)
Example C19_nonvacuous_update_defaults :
  let s := {| conf := [("a", Leaf (JInt 1)); ("b", Leaf (JInt 7))]; dflts := [[("a", Leaf (JInt 1)); ("b", Leaf (JInt 2))]] |}%string in
  fst (update_defaults validate_nogpu [("a", Leaf (JInt 10)); ("b", Leaf (JInt 20)); ("c", Leaf (JInt 30))]%string s) =
  {| conf := [("a", Leaf (JInt 10)); ("b", Leaf (JInt 7)); ("c", Leaf (JInt 30))];
     dflts := [[("a", Leaf (JInt 1)); ("b", Leaf (JInt 2))]; [("a", Leaf (JInt 10)); ("b", Leaf (JInt 20)); ("c", Leaf (JInt 30))]] |}%string.
Proof. vm_compute. reflexivity. Qed.

(* devices on this host: "cuda:0", "tpu", "xcpu", an index are rejected; "cpu", "CPU", "cpu:0",
   None are served as "cpu" *)
Example C19_nonvacuous_device :
  map (fun v => check_key_val validate_nogpu "device" v)
      [Leaf (JStr "cuda:0"); Leaf (JStr "tpu"); Leaf (JStr "xcpu"); Leaf (JInt 0); Leaf (JStr "cpu:");
       Leaf (JStr "cpu"); Leaf (JStr "CPU"); Leaf (JStr "cpu:0"); Leaf JNone]%string =
  [inl RuntimeErr; inl ValueErr; inl ValueErr; inl RuntimeErr; inl ValueErr;
   inr (Leaf (JStr "cpu")); inr (Leaf (JStr "cpu")); inr (Leaf (JStr "cpu")); inr (Leaf (JStr "cpu"))]%string.
Proof. vm_compute. reflexivity. Qed.

Example C19_nonvacuous_device_rejected :
  forall s, step_s validate_nogpu (SSet None [("device"%string, Leaf (JStr "xcpu"))]) s = (s, Some ValueErr).
Proof. exact (proj1 (proj2 (C19_device_rejected_unchanged validate_nogpu (Leaf (JStr "xcpu")) ValueErr eq_refl eq_refl))). Qed.

(* context manager: mapping + keyword form, the same key twice (second time under the other
   spelling), a nested insert below a fresh parent, an existing key *)
Definition ex_arg : option cfg :=
  Some (Node [("viz.cmap", Leaf (JInt 1)); ("fresh.sub.k", Leaf (JInt 2)); ("dtype-real", Leaf JNone)]).
Definition ex_kw : items := [("viz__cmap", Leaf (JInt 3)); ("fresh__other", Leaf (JInt 4))].

Example C19_nonvacuous_ctx :
  exists d1 recs,
    set_call validate_nogpu ex_arg ex_kw ex_d = (d1, recs, None) /\
    List.length recs = 5 /\ d1 <> ex_d /\ exit_call recs d1 = (ex_d, None).
Proof.
  eexists. eexists. split; [vm_compute; reflexivity|]. split; [reflexivity|]. split; [discriminate|].
  apply (C19_ctx_restores validate_nogpu ex_arg ex_kw ex_d). vm_compute. reflexivity.
Qed.
