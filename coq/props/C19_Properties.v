(* C19 — Configuration store is a last-writer-wins nested map; refresh restores defaults.
   ONLY the property theorems (closed by `exact`), their assumption reports and non-vacuity
   examples.  Model: model/C19_Model.v = quantem.core.config with the repairs
   fixes/C19-context-manager.diff, C19-defaults-spelling.diff (both committed in /repo),
   C19-exit-canonical-names.diff and C19-cpu-substring.diff (proposed).

   Vocabulary (model/C19_Model.v): a store is (conf, dflts); `good c` = every dict of the tree c
   spells each key once and purely (no dict holds both the '-' and the '_' spelling of a
   name); `pure k` = k does not mix '-' and '_'; `norm k` = the spelling-insensitive name;
   `same_path p q` = equal up to spelling; `diverge p q` = neither path is a prefix of the
   other (up to spelling).  `validate` is validate_device, an arbitrary function in every
   theorem (the harness instantiates it with the answer of this host, validate_nogpu).
   Keys are quantified over pure spellings (key_ok / op_ok); mixed spellings such as "a_b-c"
   are distinct keys in the code and in the model and are outside the claim. *)
From QV.lib Require Import Prelude.
From QV.model Require Import C19_Model.
From QV.model Require Import C19_Model2.
From QV.proof Require Import C19_Proofs_Keys C19_Proofs_Set C19_Proofs_Update C19_Proofs_Ctx
  C19_Proofs_Hist C19_Proofs_Last C19_Proofs_Nested C19_Proofs_With C19_Proofs_With2 C19_Proofs_Ext.
From Coq Require Import String Ascii.

(* ------------------------------------------------------------------ get after set *)
(* get k' (set k v s) = v for every spelling k' of k (dotted keys, nested creation); for the
   key "device" v' is the normalised device, otherwise v' = v *)
Theorem C19_get_set :
  forall validate key key' v v' d d' r,
    good (Node d) -> key_ok key -> key_ok key' -> same_path (path_of key) (path_of key') ->
    check_key_val validate key v = inr v' ->
    set_item validate key v d = inr (d', r) ->
    C19_Model.get key' d' = inr v'.
Proof. exact get_set. Qed.
Print Assumptions C19_get_set.

(* ------------------------------------------------------------------ one spelling per dict *)
(* reachable-state invariant over ALL histories of set (mapping / keyword / dotted forms),
   update_defaults, refresh and with-blocks (bodies included, calls that raise half-way
   included): the configuration and every stored default are `good` *)
Theorem C19_one_spelling_inv :
  forall validate ops,
    Forall op_ok ops ->
    good (Node (conf (run validate ops empty_store))) /\
    Forall (fun d => good (Node d)) (dflts (run validate ops empty_store)).
Proof. exact one_spelling_inv. Qed.
Print Assumptions C19_one_spelling_inv.

(* what `good` says about a dict: two stored keys with the same name are the same key, and
   the same holds below every entry *)
Theorem C19_good_means_one_spelling :
  forall d, good (Node d) ->
    (forall k1 k2, In k1 (map fst d) -> In k2 (map fst d) -> norm k1 = norm k2 -> k1 = k2) /\
    (forall k c, lookup k d = Some c -> good c).
Proof.
  exact (fun d G => conj (fun k1 k2 => good_norm_inj d k1 k2 (good_keys_of d G))
                         (fun k c => good_lookup d k c G)).
Qed.
Print Assumptions C19_good_means_one_spelling.

(* ------------------------------------------------------------------ siblings *)
(* a dotted set leaves every key that is neither above nor below the written one untouched *)
Theorem C19_set_preserves_siblings :
  forall validate key key' v d d' r,
    good (Node d) -> key_ok key -> key_ok key' -> diverge (path_of key) (path_of key') ->
    set_item validate key v d = inr (d', r) ->
    C19_Model.get key' d' = C19_Model.get key' d.
Proof. exact set_preserves_siblings. Qed.
Print Assumptions C19_set_preserves_siblings.

(* nested updates (update with any priority: the engine of merge, update_defaults and
   refresh) merge without dropping siblings: an entry that is not on, above or below a path
   written by `new` keeps its value — also when the call raises half-way *)
Theorem C19_update_preserves_siblings :
  forall validate new, good new -> forall prio old dv old' e q x,
    good (Node old) -> pure_path q -> nodev q ->
    (forall w, In w (wpaths new) -> diverge w q) ->
    update_cfg validate prio new old dv = (old', e) ->
    get_path q (Node old) = inr x -> get_path q (Node old') = inr x.
Proof. exact update_siblings. Qed.
Print Assumptions C19_update_preserves_siblings.

(* ------------------------------------------------------------------ last writer wins *)
(* inside one call (mapping items then keyword items, in order): the last item that writes a
   key wins *)
Theorem C19_get_last_writer_in_call :
  forall validate pre key v post key' v' d d' recs,
    good (Node d) -> items_ok (pre ++ (key, v) :: post) -> key_ok key' ->
    same_path (path_of key) (path_of key') ->
    check_key_val validate key v = inr v' ->
    (forall key2 v2, In (key2, v2) post -> diverge (path_of key2) (path_of key')) ->
    set_items validate (pre ++ (key, v) :: post) d [] = (d', recs, None) ->
    C19_Model.get key' d' = inr v'.
Proof. exact get_last_writer. Qed.
Print Assumptions C19_get_last_writer_in_call.

(* over histories: after ANY history `pre`, a set of key k followed by any statements that do
   not write k (sets of other keys, update_defaults of other keys; successful or raising)
   still reads the value set, under either spelling.  The writers of k are therefore exactly:
   a later set of k (C19_get_set), an update_defaults carrying k (which wins only under
   C19_update_defaults_semantics) and refresh (C19_refresh_is_merge_defaults). *)
Theorem C19_get_last_writer :
  forall validate pre key v v' d2 r key' post,
    Forall op_ok pre ->
    let s1 := run validate pre empty_store in
    key_ok key -> good v -> key_ok key' -> nodev (path_of key') ->
    same_path (path_of key) (path_of key') ->
    check_key_val validate key v = inr v' ->
    set_item validate key v (conf s1) = inr (d2, r) ->
    Forall (no_write key') post ->
    C19_Model.get key' (conf (run_s validate post {| conf := d2; dflts := dflts s1 |})) = inr v'.
Proof. exact get_last_writer_hist. Qed.
Print Assumptions C19_get_last_writer.

(* ------------------------------------------------------------------ refresh / merge *)
(* refresh ignores (clears) the previous configuration, keeps the defaults, and without yaml
   files yields exactly the merge of the defaults *)
Theorem C19_refresh_is_merge_defaults :
  forall validate yaml s,
    (forall c, refresh validate yaml {| conf := c; dflts := dflts s |} = refresh validate yaml s) /\
    dflts (fst (refresh validate yaml s)) = dflts s /\
    refresh validate [] s =
      ({| conf := fst (merge validate (dflts s)); dflts := dflts s |}, snd (merge validate (dflts s))).
Proof. exact refresh_is_merge_defaults. Qed.
Print Assumptions C19_refresh_is_merge_defaults.

(* ... and that merge is last-writer-wins: a leaf of some default reads back (either
   spelling) unless a LATER default writes on, above or below it *)
Theorem C19_merge_last_writer :
  forall validate ds1 d ds2 m q q' x,
    Forall (fun d => good (Node d)) (ds1 ++ d :: ds2) ->
    pure_path q -> pure_path q' -> nodev q -> same_path q q' -> q <> [] ->
    get_path q (Node d) = inr (Leaf x) ->
    (forall d2, In d2 ds2 -> forall w, In w (wp_items d2) -> diverge w q') ->
    merge validate (ds1 ++ d :: ds2) = (m, None) ->
    get_path q' (Node m) = inr (Leaf x).
Proof. exact merge_last_writer. Qed.
Print Assumptions C19_merge_last_writer.

(* ... and nothing else: a name carried by no default is absent *)
Theorem C19_merge_absent :
  forall validate ds m e qk,
    (forall d, In d ds -> forall k v, In (k, v) d -> norm k <> norm qk) ->
    merge validate ds = (m, e) -> lookup (canon qk m) m = None.
Proof. exact (fun validate ds m e qk H M => merge_absent validate ds [] m e qk H M). Qed.
Print Assumptions C19_merge_absent.

(* ------------------------------------------------------------------ update_defaults *)
(* update_defaults(new) appends (the validated) new to the defaults; a top-level scalar key
   of it takes the new value iff it was absent or still equal to what the accumulated
   defaults gave it; a value the user changed is kept.  `find k d` = lookup (canon k d) d is
   the entry `get` sees for the component k. *)
Theorem C19_update_defaults_semantics :
  forall validate new s s',
    (good (Node (conf s)) /\ Forall (fun d => good (Node d)) (dflts s)) ->
    good (Node new) -> update_defaults validate new s = (s', None) ->
    exists new' cur,
      check_items validate new = inr new' /\ merge validate (dflts s) = (cur, None) /\
      dflts s' = dflts s ++ [new'] /\
      forall k x k2, In (k, Leaf x) new -> k <> "device"%string -> pure k2 = true -> norm k2 = norm k ->
        find k2 (conf s') =
        match find k2 (conf s) with
        | None => Some (Leaf x)
        | Some ov => match find k2 cur with
                     | Some dvv => if cfg_eqb dvv ov then Some (Leaf x) else Some ov
                     | None => Some ov
                     end
        end.
Proof. exact update_defaults_rule. Qed.
Print Assumptions C19_update_defaults_semantics.

(* priority "new" of update: every leaf of `new` reads back afterwards (either spelling) *)
Theorem C19_update_new_get :
  forall validate new, good new -> forall old dv old' q q' x,
    good (Node old) -> pure_path q -> pure_path q' -> nodev q -> same_path q q' -> q <> [] ->
    get_path q new = inr (Leaf x) ->
    update_cfg validate PNew new old dv = (old', None) ->
    get_path q' (Node old') = inr (Leaf x).
Proof. exact update_new_get. Qed.
Print Assumptions C19_update_new_get.

(* ------------------------------------------------------------------ devices *)
(* a request that is not a cpu request and that validate_device rejects: set({"device": v}),
   set(device=v) [= set_device(v)] raise and change nothing; inside a larger call the items
   before it are applied and nothing after; update_defaults raises before touching the store
   or the defaults *)
Theorem C19_device_rejected_unchanged :
  forall validate v e,
    cpu_request v = false -> validate v = inl e ->
    (forall s, step_s validate (SSet (Some (Node [("device"%string, v)])) []) s = (s, Some e)) /\
    (forall s, step_s validate (SSet None [("device"%string, v)]) s = (s, Some e)) /\
    (forall l1 l2 d recs,
        set_items validate (l1 ++ ("device"%string, v) :: l2) d recs =
        match set_items validate l1 d recs with (d1, r1, None) => (d1, r1, Some e) | x => x end) /\
    (forall new s, In ("device"%string, v) new -> exists e', update_defaults validate new s = (s, Some e')).
Proof. exact device_rejected_unchanged. Qed.
Print Assumptions C19_device_rejected_unchanged.

(* reachable-state invariant, for every history whatsoever: a device stored as a scalar is
   "cpu" or a string validate_device returned *)
Theorem C19_stored_device_valid :
  forall validate ops x,
    lookup "device" (conf (run validate ops empty_store)) = Some (Leaf x) ->
    exists s, x = JStr s /\ (s = "cpu"%string \/ exists v, validate v = inr s).
Proof. exact stored_device_valid. Qed.
Print Assumptions C19_stored_device_valid.

(* on this host (no CUDA, no MPS) exactly the cpu requests are accepted: None, "cpu" in any
   case, "cpu:<digits>" *)
Theorem C19_nogpu_accepts_only_cpu :
  forall v s, check_dev validate_nogpu "device" v = inr (Some s) -> s = "cpu"%string.
Proof.
  intros v s. unfold check_dev. cbn [String.eqb Ascii.eqb Bool.eqb]. destruct (cpu_request v); [congruence|].
  destruct v as [[| |z|t]|l]; cbn [validate_nogpu]; try congruence.
  - destruct (z <? 0)%Z; congruence.
  - destruct (contains "cuda" (lower t)); [congruence|]. destruct (contains "gpu" (lower t)); [congruence|].
    destruct (String.eqb (lower t) "mps"); [congruence|]. destruct (String.eqb (lower t) "cpu"); congruence.
Qed.
Print Assumptions C19_nogpu_accepts_only_cpu.

(* ------------------------------------------------------------------ context manager *)
(* exit (enter s kvs) = s, exactly (same entries, same order): any number of items in mapping
   and keyword form, dotted keys, nested inserts, keys that existed or not, the same key
   several times — no hypothesis on the store or on the arguments *)
Theorem C19_ctx_restores :
  forall validate arg kw d d1 recs,
    set_call validate arg kw d = (d1, recs, None) -> exit_call recs d1 = (d, None).
Proof. exact ctx_restores. Qed.
Print Assumptions C19_ctx_restores.

(* `with set(...): pass` and `with set(...): raise` leave the store as it was *)
Theorem C19_with_restores :
  forall validate arg kw s d1 recs,
    set_call validate arg kw (conf s) = (d1, recs, None) ->
    step validate (With arg kw []) s = (s, None) /\
    step validate (WithX arg kw []) s = (s, None) /\
    step validate (WithX arg kw [SSet (Some (Leaf JNone)) []]) s = (s, Some TypeErr).
Proof. exact with_pass_restores. Qed.
Print Assumptions C19_with_restores.

(* ------------------------------------------------------------------ non-vacuity *)
Ltac nodup_tac := repeat (constructor; [cbn; intuition discriminate|]); constructor.
Ltac good_tac :=
  first [ apply good_leaf
        | constructor;
          [ repeat (constructor; [reflexivity|]); constructor
          | cbn; nodup_tac
          | repeat (constructor; [cbn [snd]; good_tac|]); constructor ] ].
Ltac pp_tac := vm_compute; repeat constructor.

Local Open Scope string_scope.

Definition ex_d : items :=
  [("dtype_real", Leaf (JStr "float32")); ("viz", Node [("real-space-units", Leaf (JStr "A")); ("cmap", Leaf (JStr "gray"))])]%string.

Example C19_nonvacuous_good : good (Node ex_d).
Proof. unfold ex_d. good_tac. Qed.

(* set under one spelling, get under the other, nested *)
Example C19_nonvacuous_get_set :
  exists d' r, set_item validate_nogpu "viz.real_space_units" (Leaf (JStr "nm")) ex_d = inr (d', r) /\
               C19_Model.get "viz.real-space-units" d' = inr (Leaf (JStr "nm")) /\
               C19_Model.get "viz.cmap" d' = inr (Leaf (JStr "gray")).
Proof.
  eexists. eexists. split; [vm_compute; reflexivity|]. split.
  - eapply (C19_get_set validate_nogpu "viz.real_space_units" "viz.real-space-units");
      [exact C19_nonvacuous_good | pp_tac | pp_tac | reflexivity | reflexivity | vm_compute; reflexivity].
  - etransitivity;
      [eapply (C19_set_preserves_siblings validate_nogpu "viz.real_space_units" "viz.cmap");
         [exact C19_nonvacuous_good | pp_tac | pp_tac | | vm_compute; reflexivity] | reflexivity].
    vm_compute. right. split; [reflexivity|]. left. discriminate.
Qed.

Definition ex_ops : list op :=
  [Do (SUpd [("viz", Node [("real-space-units", Leaf (JStr "A"))]); ("dtype_real", Leaf (JStr "float32"))]);
   Do (SSet (Some (Node [("viz.real_space_units", Leaf (JStr "nm"))])) [("dtype-real", Leaf (JStr "float64"))]);
   WithX (Some (Node [("new_sec.k-1", Leaf (JInt 1))])) []
         [SRefresh []; SUpd [("new-sec", Node [("k_1", Leaf (JInt 5))])]; SSet (Some (Leaf JNone)) []];
   Do (SSet None [("device", Leaf (JStr "cuda:0"))])]%string.

Example C19_nonvacuous_ops_ok : Forall op_ok ex_ops.
Proof.
  unfold ex_ops. repeat (apply Forall_cons); try apply Forall_nil; cbn [op_ok sop_ok arg_ok].
  - good_tac.
  - split; (constructor; [split; [pp_tac | good_tac]|constructor]).
  - split; [constructor; [split; [pp_tac | good_tac]|constructor]|]. split; [constructor|].
    repeat (apply Forall_cons); try apply Forall_nil; cbn [sop_ok arg_ok goods kw_items map].
    + good_tac.
    + split; [exact I | constructor].
  - split; [exact I|]. constructor; [split; [pp_tac | good_tac]|constructor].
Qed.

(* the history runs, the with-block's body rebuilt "new_sec" under the other spelling and
   __exit__ still found (and removed) it; the rejected device left "device" absent *)
Example C19_nonvacuous_history :
  conf (run validate_nogpu ex_ops empty_store) =
    [("viz", Node [("real-space-units", Leaf (JStr "A"))]); ("dtype_real", Leaf (JStr "float32"))]%string /\
  good (Node (conf (run validate_nogpu ex_ops empty_store))).
Proof.
  split; [vm_compute; reflexivity|]. exact (proj1 (C19_one_spelling_inv validate_nogpu ex_ops C19_nonvacuous_ops_ok)).
Qed.

(* the unrepaired __exit__ (recorded spelling used as is) would have left both spellings of
   "new_sec" in that history: restoring ("new_sec") := absent pops nothing, ("new_sec","k-1") is
   a no-op, and for a `replace` record d["new_sec"] = old is added next to "new-sec" *)
Example C19_exit_needs_canonical_names :
  let d := [("new-sec", Leaf (JInt 5))]%string in
  assign "new_sec" (Leaf (JInt 1)) d = [("new-sec", Leaf (JInt 5)); ("new_sec", Leaf (JInt 1))]%string /\
  restore_replace ["new_sec"%string] (Leaf (JInt 1)) d = inr [("new-sec", Leaf (JInt 1))]%string.
Proof. split; vm_compute; reflexivity. Qed.

(* last writer over a history *)
Example C19_nonvacuous_last_writer :
  C19_Model.get "viz.real-space-units"
    (conf (run_s validate_nogpu
             [SUpd [("viz", Node [("cmap", Leaf (JStr "magma"))])]; SSet None [("device", Leaf (JStr "tpu"))];
              SSet (Some (Node [("viz.cmap", Leaf (JInt 3)); ("alpha", Leaf JNone)])) []]%string
             {| conf := fst (match set_item validate_nogpu "viz.real_space_units" (Leaf (JStr "nm"))
                                    (conf (run validate_nogpu ex_ops empty_store)) with
                             | inr x => x | inl _ => ([], ([], None)) end);
                dflts := dflts (run validate_nogpu ex_ops empty_store) |}))
  = inr (Leaf (JStr "nm")).
Proof.
  eapply (C19_get_last_writer validate_nogpu ex_ops "viz.real_space_units" (Leaf (JStr "nm")));
    [exact C19_nonvacuous_ops_ok | pp_tac | good_tac | pp_tac | vm_compute; repeat constructor; discriminate
    | reflexivity | reflexivity | vm_compute; reflexivity |].
  repeat (apply Forall_cons); try apply Forall_nil; cbn [no_write arg_ok set_args kw_items map app].
  - split; [good_tac|]. intros w [<-|[]]. vm_compute. right. split; [reflexivity|]. left. discriminate.
  - split; [exact I|]. split; [constructor; [split; [pp_tac | good_tac]|constructor]|].
    intros key v [E|[]]. inversion E; subst. vm_compute. left. discriminate.
  - split; [repeat (constructor; [split; [pp_tac | good_tac]|]); constructor|]. split; [constructor|].
    intros key v [E|[E|[]]]; inversion E; subst; vm_compute.
    + right. split; [reflexivity|]. left. discriminate.
    + left. discriminate.
Qed.

(* refresh = merge of the defaults, later defaults win, other spelling merges into the entry *)
Example C19_nonvacuous_merge :
  merge validate_nogpu [[("a-b", Leaf (JInt 1)); ("s", Node [("x", Leaf (JInt 1))])];
                        [("a_b", Leaf (JInt 2)); ("s", Node [("y", Leaf (JInt 3))])]]%string
  = ([("a-b", Leaf (JInt 2)); ("s", Node [("x", Leaf (JInt 1)); ("y", Leaf (JInt 3))])]%string, None).
Proof. vm_compute. reflexivity. Qed.

(* the three cases of the update_defaults rule: still the default -> follows; changed by the
   user -> kept; absent -> added *)
Example C19_nonvacuous_update_defaults :
  let s := {| conf := [("a", Leaf (JInt 1)); ("b", Leaf (JInt 7))]; dflts := [[("a", Leaf (JInt 1)); ("b", Leaf (JInt 2))]] |}%string in
  fst (update_defaults validate_nogpu [("a", Leaf (JInt 10)); ("b", Leaf (JInt 20)); ("c", Leaf (JInt 30))]%string s) =
  {| conf := [("a", Leaf (JInt 10)); ("b", Leaf (JInt 7)); ("c", Leaf (JInt 30))];
     dflts := [[("a", Leaf (JInt 1)); ("b", Leaf (JInt 2))]; [("a", Leaf (JInt 10)); ("b", Leaf (JInt 20)); ("c", Leaf (JInt 30))]] |}%string.
Proof. vm_compute. reflexivity. Qed.

(* devices on this host: "cuda:0", "tpu", "xcpu", an index are rejected; "cpu", "CPU", "cpu:0",
   None are served as "cpu" *)
Example C19_nonvacuous_device :
  map (fun v => check_key_val validate_nogpu "device" v)
      [Leaf (JStr "cuda:0"); Leaf (JStr "tpu"); Leaf (JStr "xcpu"); Leaf (JInt 0); Leaf (JStr "cpu:");
       Leaf (JStr "cpu"); Leaf (JStr "CPU"); Leaf (JStr "cpu:0"); Leaf JNone]%string =
  [inl RuntimeErr; inl ValueErr; inl ValueErr; inl RuntimeErr; inl ValueErr;
   inr (Leaf (JStr "cpu")); inr (Leaf (JStr "cpu")); inr (Leaf (JStr "cpu")); inr (Leaf (JStr "cpu"))]%string.
Proof. vm_compute. reflexivity. Qed.

Example C19_nonvacuous_device_rejected :
  forall s, step_s validate_nogpu (SSet None [("device"%string, Leaf (JStr "xcpu"))]) s = (s, Some ValueErr).
Proof. exact (proj1 (proj2 (C19_device_rejected_unchanged validate_nogpu (Leaf (JStr "xcpu")) ValueErr eq_refl eq_refl))). Qed.

(* context manager: mapping + keyword form, the same key twice (second time under the other
   spelling), a nested insert below a fresh parent, an existing key *)
Definition ex_arg : option cfg :=
  Some (Node [("viz.cmap", Leaf (JInt 1)); ("fresh.sub.k", Leaf (JInt 2)); ("dtype-real", Leaf JNone)]).
Definition ex_kw : items := [("viz__cmap", Leaf (JInt 3)); ("fresh__other", Leaf (JInt 4))].

Example C19_nonvacuous_ctx :
  exists d1 recs,
    set_call validate_nogpu ex_arg ex_kw ex_d = (d1, recs, None) /\
    List.length recs = 5 /\ d1 <> ex_d /\ exit_call recs d1 = (ex_d, None).
Proof.
  eexists. eexists. split; [vm_compute; reflexivity|]. split; [reflexivity|]. split; [discriminate|].
  apply (C19_ctx_restores validate_nogpu ex_arg ex_kw ex_d). vm_compute. reflexivity.
Qed.

(* ================================================================== round 3 *)
Local Close Scope string_scope.

(* ------------------------------------------------------------------ update_defaults, keys at any depth *)
(* the rule of C19_update_defaults_semantics for a leaf at ANY depth of the new defaults (induction
   on the tree): after a successful update_defaults(new), a leaf x at path q reads back (either
   spelling q') as x iff the entry was absent — also: hidden below a scalar, which update replaces
   by a mapping — or still equal to what the accumulated defaults `cur` hold at q'; otherwise the
   stored value stays.  nd_res g dg x spells this out (g, dg: the entry / the default, None = none). *)
Theorem C19_update_defaults_semantics_nested :
  forall validate new s s',
    (good (Node (conf s)) /\ Forall (fun d => good (Node d)) (dflts s)) ->
    good (Node new) -> update_defaults validate new s = (s', None) ->
    exists new' cur,
      check_items validate new = inr new' /\ merge validate (dflts s) = (cur, None) /\
      dflts s' = dflts s ++ [new'] /\
      forall q q' x, pure_path q -> pure_path q' -> nodev q -> same_path q q' -> q <> [] ->
        get_path q (Node new) = inr (Leaf x) ->
        get_path q' (Node (conf s')) =
          inr (nd_res (ok_of (get_path q' (Node (conf s)))) (ok_of (get_path q' (Node cur))) x).
Proof. exact update_defaults_rule_nested. Qed.
Print Assumptions C19_update_defaults_semantics_nested.

(* the same rule for update(old, new, priority="new-defaults", defaults=dv) itself *)
Theorem C19_update_new_defaults_get :
  forall validate new, good new -> forall old dv old' q q' x,
    good (Node old) -> dv_good dv -> pure_path q -> pure_path q' -> nodev q -> same_path q q' -> q <> [] ->
    get_path q new = inr (Leaf x) ->
    update_cfg validate PNewDefaults new old dv = (old', None) ->
    get_path q' (Node old') = inr (nd_res (ok_of (get_path q' (Node old))) (dv_at q' dv) x).
Proof. exact update_nd_get. Qed.
Print Assumptions C19_update_new_defaults_get.

(* ------------------------------------------------------------------ last writer: with-blocks after the set *)
(* C19_get_last_writer with arbitrary ops after the set: plain statements AND with-blocks (both
   exception disciplines) whose arguments and body statements write other keys; whatever happens
   inside — statements that raise, a body left by an exception, an __exit__ that raises half-way —
   the value set is what get returns afterwards, under either spelling.  The store before the set
   is any store satisfying the one-spelling invariant (in particular every reachable one, and the
   store after import, C19_import_store_inv). *)
Theorem C19_get_last_writer_ops :
  forall validate s1 key v v' d2 r key' post,
    (good (Node (conf s1)) /\ Forall (fun d => good (Node d)) (dflts s1)) ->
    key_ok key -> good v -> key_ok key' -> nodev (path_of key') ->
    same_path (path_of key) (path_of key') ->
    check_key_val validate key v = inr v' ->
    set_item validate key v (conf s1) = inr (d2, r) ->
    Forall (no_write_op key') post ->
    C19_Model.get key' (conf (run validate post {| conf := d2; dflts := dflts s1 |})) = inr v'.
Proof. exact get_last_writer_from. Qed.
Print Assumptions C19_get_last_writer_ops.

(* one undo step of __exit__ on a path that misses the key leaves the key alone *)
Theorem C19_exit_keeps_other_keys :
  forall rrecs d d' e q x,
    Forall rec_ok rrecs -> Forall (rec_div q) rrecs -> good (Node d) -> pure_path q ->
    restore_all rrecs d = (d', e) ->
    get_path q (Node d) = inr x -> get_path q (Node d') = inr x.
Proof. exact restore_all_keeps. Qed.
Print Assumptions C19_exit_keeps_other_keys.

(* ... and with-blocks whose ARGUMENTS write the key itself (any number of times, either spelling;
   other items and the body write other keys): the key comes back when the block is left, provided
   __exit__ does not raise (if it raises, the remaining undo steps are skipped by the code and the
   block's value can stay).  `quiet key' post s`: every op of post either writes other keys only
   (C19_get_last_writer_ops) or is such a shadowing block that enters and exits cleanly in the
   state it is run in. *)
Theorem C19_get_last_writer_shadow :
  forall validate s1 key v v' d2 r key' post,
    (good (Node (conf s1)) /\ Forall (fun d => good (Node d)) (dflts s1)) ->
    key_ok key -> good v -> key_ok key' -> nodev (path_of key') ->
    same_path (path_of key) (path_of key') ->
    check_key_val validate key v = inr v' ->
    set_item validate key v (conf s1) = inr (d2, r) ->
    quiet validate key' post {| conf := d2; dflts := dflts s1 |} ->
    C19_Model.get key' (conf (run validate post {| conf := d2; dflts := dflts s1 |})) = inr v'.
Proof. exact get_last_writer_shadow. Qed.
Print Assumptions C19_get_last_writer_shadow.

(* one such block: "using set as a context manager restores the previous values on exit" for a
   body that is not empty *)
Theorem C19_with_block_restores_key :
  forall validate o s key' x,
    (good (Node (conf s)) /\ Forall (fun d => good (Node d)) (dflts s)) ->
    shadows_ok validate key' o s -> key_ok key' -> nodev (path_of key') ->
    C19_Model.get key' (conf s) = inr x ->
    C19_Model.get key' (conf (fst (step validate o s))) = inr x.
Proof. exact shadow_preserves_get. Qed.
Print Assumptions C19_with_block_restores_key.

(* ------------------------------------------------------------------ siblings without the nodev side condition *)
(* C19_update_preserves_siblings for paths that may contain "device", given that validate_device
   rejects mappings (it raises TypeError for a dict; true of validate_nogpu) *)
Theorem C19_update_preserves_siblings_anydev :
  forall validate, (forall l, exists e, validate (Node l) = inl e) ->
  forall new, good new -> forall prio old dv old' e q x,
    good (Node old) -> pure_path q ->
    (forall w, In w (wpaths new) -> diverge w q) ->
    update_cfg validate prio new old dv = (old', e) ->
    get_path q (Node old) = inr x -> get_path q (Node old') = inr x.
Proof. exact update_siblings_anydev. Qed.
Print Assumptions C19_update_preserves_siblings_anydev.

(* ------------------------------------------------------------------ get with default / override_with *)
Theorem C19_get_full_spec :
  forall key dflt d,
    (forall o, is_none o = false -> get_full key dflt (Some o) d = inr o) /\
    get_full key dflt (Some (Leaf JNone)) d = get_full key dflt None d /\
    get_full key None None d = C19_Model.get key d /\
    (forall x, get_full key (Some x) None d = inr (get_or key x d)) /\
    (forall e, get_full key None None d = inl e -> e = KeyErr \/ e = TypeErr) /\
    (forall c, C19_Model.get key d = inr c -> get_full key dflt None d = inr c).
Proof. exact get_full_spec. Qed.
Print Assumptions C19_get_full_spec.

(* a dotted key that continues below a scalar raises TypeError (not KeyError) *)
Theorem C19_get_into_scalar :
  forall p k r c x, get_path p c = inr (Leaf x) -> get_path (p ++ k :: r) c = inl TypeErr.
Proof. exact get_path_into_scalar. Qed.
Print Assumptions C19_get_into_scalar.

(* ------------------------------------------------------------------ deprecations / aliases tables *)
(* both tables are empty in the code today: the table-aware check_key_val / set / update are the
   functions all other theorems speak about *)
Theorem C19_tables_empty :
  forall validate,
    (forall key v, check_key_val_t validate [] [] key v = check_key_val validate key v) /\
    (forall l d recs, set_items_t validate [] [] l d recs = set_items validate l d recs) /\
    (forall arg kw d, set_call_t validate [] [] arg kw d = set_call validate arg kw d) /\
    (forall prio new old dv, update_items_t validate [] [] prio new old dv = update_items validate prio new old dv).
Proof. exact tables_empty. Qed.
Print Assumptions C19_tables_empty.

(* with any tables: a removed key raises ValueError; a renamed key only warns (it is NOT replaced
   by its new name — unlike the docstring of check_key_val suggests); an alias replaces the value
   before the device check, so a stored device is still a validated one *)
Theorem C19_tables_semantics :
  forall validate depr alias key v,
    (alookup key depr = Some None -> check_key_val_t validate depr alias key v = inl ValueErr) /\
    (forall s, alookup key depr = Some (Some s) -> s <> EmptyString ->
       check_key_val_t validate depr alias key v = check_key_val_t validate [] alias key v) /\
    (alookup key depr = None -> forall v1, alias_val alias key v = inr v1 ->
       check_key_val_t validate depr alias key v = check_key_val validate key v1) /\
    (forall v', check_key_val_t validate depr alias "device" v = inr v' ->
       exists s, v' = Leaf (JStr s) /\ (s = "cpu"%string \/ exists w, validate w = inr s)).
Proof. exact tables_semantics. Qed.
Print Assumptions C19_tables_semantics.

Theorem C19_set_removed_key :
  forall validate depr alias l1 k v l2 d recs,
    alookup k depr = Some None ->
    set_items_t validate depr alias (l1 ++ (k, v) :: l2) d recs =
    match set_items_t validate depr alias l1 d recs with
    | (d1, r1, None) => (d1, r1, Some ValueErr)
    | x => x
    end.
Proof. exact set_removed_key. Qed.
Print Assumptions C19_set_removed_key.

(* ------------------------------------------------------------------ environment variables *)
(* collect() takes the environment mapping and does not read it (the collect_env entry is
   commented out in the code): refresh is independent of the environment *)
Theorem C19_refresh_ignores_env :
  forall validate yaml env s,
    refresh_e validate yaml env s = refresh validate yaml s /\
    collect validate yaml env = merge validate yaml.
Proof. exact refresh_ignores_env. Qed.
Print Assumptions C19_refresh_ignores_env.

(* ------------------------------------------------------------------ "device" off the top level *)
Theorem C19_device_off_top_level :
  forall validate,
    (forall d x v, lookup "device" d = Some (Leaf x) -> set_item validate "device.x" v d = inl TypeErr) /\
    (forall d v, lookup "device" d = None ->
       set_item validate "device.x" v d =
       inr (assign "device" (Node [("x"%string, v)]) d, (["device"%string], None))) /\
    (forall d v sub, lookup "viz" d = Some (Node sub) -> lookup "device" sub = None ->
       set_item validate "viz.device" v d =
       inr (assign "viz" (Node (assign "device" v sub)) d, (["viz"; "device"]%string, None))) /\
    (forall prio k v e old dv dv', k <> "device"%string -> cpu_request v = false -> validate v = inl e ->
       dsub dv (canon k old) = inr dv' ->
       update_cfg validate prio (Node [(k, Node [("device"%string, v)])]) old dv =
       (assign (canon k old) (Node (subdict (canon k old) old)) old, Some e)).
Proof. exact device_off_top_level. Qed.
Print Assumptions C19_device_off_top_level.

(* ------------------------------------------------------------------ histories from the store after import *)
(* both reachable-state invariants hold from ANY store that satisfies them, not only the empty one *)
Theorem C19_invariants_from :
  forall validate s0 ops,
    (good (Node (conf s0)) /\ Forall (fun d => good (Node d)) (dflts s0)) ->
    dev_ok validate (conf s0) -> Forall op_ok ops ->
    (good (Node (conf (run validate ops s0))) /\ Forall (fun d => good (Node d)) (dflts (run validate ops s0))) /\
    dev_ok validate (conf (run validate ops s0)).
Proof. exact invariants_from. Qed.
Print Assumptions C19_invariants_from.

(* the store after `import quantem.core.config` (refresh of the probe defaults, then
   update_defaults of the parsed quantem.yaml) satisfies both, when the two mappings are good *)
Theorem C19_import_store_inv :
  forall validate probe yaml,
    good (Node probe) -> good (Node yaml) ->
    (good (Node (conf (fst (import_store validate probe yaml)))) /\
     Forall (fun d => good (Node d)) (dflts (fst (import_store validate probe yaml)))) /\
    dev_ok validate (conf (fst (import_store validate probe yaml))).
Proof. exact import_store_inv. Qed.
Print Assumptions C19_import_store_inv.

(* refresh restores exactly the accumulated defaults whatever was set in between: after any
   statements and with-blocks that do not call update_defaults, refresh gives what it gave before *)
Theorem C19_refresh_after_sets :
  forall validate ops yaml s,
    Forall no_upd ops ->
    conf (fst (refresh validate yaml (run validate ops s))) = conf (fst (refresh validate yaml s)) /\
    dflts (fst (refresh validate yaml (run validate ops s))) = dflts s.
Proof. exact refresh_after_sets. Qed.
Print Assumptions C19_refresh_after_sets.

Theorem C19_goodb_sound : forall c, goodb c = true -> good c.
Proof. exact goodb_sound. Qed.
Print Assumptions C19_goodb_sound.

(* ------------------------------------------------------------------ nested with-blocks *)
(* a tree of with-blocks nested to any depth (either exception discipline at every level) whose
   plain statements only raise and whose every __init__ succeeds leaves the store exactly as it
   was *)
Theorem C19_nest_restores :
  forall validate t s, clean validate t s -> fst (fst (exec validate t s)) = s.
Proof. exact nest_restores. Qed.
Print Assumptions C19_nest_restores.

(* ------------------------------------------------------------------ non-vacuity, round 3 *)
Local Open Scope string_scope.

Definition ex3_s : store :=
  {| conf := [("viz", Node [("cmap", Leaf (JStr "gray")); ("real-space-units", Leaf (JStr "A"))]);
              ("mkl", Leaf (JInt 2))];
     dflts := [[("viz", Node [("cmap", Leaf (JStr "gray")); ("real_space_units", Leaf (JStr "nm"))])]] |}.
Definition ex3_new : items :=
  [("viz", Node [("cmap", Leaf (JStr "magma")); ("real_space_units", Leaf (JStr "um")); ("extra", Leaf (JInt 1))]);
   ("mkl", Node [("threads", Leaf (JInt 4))])].

(* still the default -> follows; changed by the user -> kept; absent -> added; hidden below a
   scalar -> the scalar is replaced by a mapping *)
Example C19_nonvacuous_nested_rule :
  (good (Node (conf ex3_s)) /\ Forall (fun d => good (Node d)) (dflts ex3_s)) /\ good (Node ex3_new) /\
  update_defaults validate_nogpu ex3_new ex3_s =
    ({| conf := [("viz", Node [("cmap", Leaf (JStr "magma")); ("real-space-units", Leaf (JStr "A")); ("extra", Leaf (JInt 1))]);
                 ("mkl", Node [("threads", Leaf (JInt 4))])];
        dflts := dflts ex3_s ++ [ex3_new] |}, None) /\
  nd_res (ok_of (get_path ["viz"; "cmap"] (Node (conf ex3_s)))) (Some (Leaf (JStr "gray"))) (JStr "magma") = Leaf (JStr "magma") /\
  nd_res (ok_of (get_path ["mkl"; "threads"] (Node (conf ex3_s)))) None (JInt 4) = Leaf (JInt 4).
Proof.
  split; [split; [unfold ex3_s; cbn [conf]; good_tac | constructor; [good_tac|constructor]]|].
  split; [unfold ex3_new; good_tac|]. split; [vm_compute; reflexivity|]. split; vm_compute; reflexivity.
Qed.

(* a with-block after the set: its argument writes a sibling, its body rebuilds part of the store
   and raises; the value set before survives under the other spelling *)
Example C19_nonvacuous_last_writer_with :
  exists d2 r,
    set_item validate_nogpu "viz.real_space_units" (Leaf (JStr "nm")) (conf ex3_s) = inr (d2, r) /\
    Forall (no_write_op "viz.real-space-units")
      [WithX (Some (Node [("viz.cmap", Leaf (JInt 3)); ("fresh.k", Leaf (JInt 1))])) []
             [SUpd [("mkl", Node [("threads", Leaf (JInt 8))])]; SSet (Some (Leaf JNone)) []];
       Do (SSet None [("alpha", Leaf JNone)])] /\
    C19_Model.get "viz.real-space-units"
      (conf (run validate_nogpu
               [WithX (Some (Node [("viz.cmap", Leaf (JInt 3)); ("fresh.k", Leaf (JInt 1))])) []
                      [SUpd [("mkl", Node [("threads", Leaf (JInt 8))])]; SSet (Some (Leaf JNone)) []];
                Do (SSet None [("alpha", Leaf JNone)])]
               {| conf := d2; dflts := dflts ex3_s |})) = inr (Leaf (JStr "nm")).
Proof.
  eexists. eexists. split; [vm_compute; reflexivity|]. split; [|vm_compute; reflexivity].
  repeat (apply Forall_cons); try apply Forall_nil; cbn [no_write_op no_write arg_ok set_args kw_items map app].
  - split; [repeat (constructor; [split; [pp_tac | good_tac]|]); constructor|]. split; [constructor|]. split.
    + intros key v [E|[E|[]]]; inversion E; subst; vm_compute.
      * right. split; [reflexivity|]. left. discriminate.
      * left. discriminate.
    + repeat (apply Forall_cons); try apply Forall_nil; cbn [no_write arg_ok set_args kw_items map app].
      * split; [good_tac|]. intros w [<-|[]]. vm_compute. left. discriminate.
      * split; [exact I|]. split; [constructor|]. intros key v [].
  - split; [exact I|]. split; [constructor; [split; [pp_tac | good_tac]|constructor]|].
    intros key v [E|[]]. inversion E; subst. vm_compute. left. discriminate.
Qed.

Example C19_nonvacuous_get_full :
  get_full "viz.cmap.x" None None (conf ex3_s) = inl TypeErr /\
  get_full "viz.cmap.x" (Some (Leaf (JInt 7))) None (conf ex3_s) = inr (Leaf (JInt 7)) /\
  get_full "viz.nope" None None (conf ex3_s) = inl KeyErr /\
  get_full "viz.cmap" (Some (Leaf (JInt 7))) (Some (Leaf JNone)) (conf ex3_s) = inr (Leaf (JStr "gray")) /\
  get_full "viz.cmap" None (Some (Leaf (JInt 5))) (conf ex3_s) = inr (Leaf (JInt 5)).
Proof. repeat split; vm_compute; reflexivity. Qed.

(* the alias table the code carries as a comment, and a removed / a renamed key *)
Example C19_nonvacuous_tables :
  let depr := [("old_key", Some "new_key"); ("gone", None)] in
  let alias := [("device", [(JStr "gpu", JStr "cpu:0")])] in
  check_key_val_t validate_nogpu depr alias "gone" (Leaf (JInt 1)) = inl ValueErr /\
  check_key_val_t validate_nogpu depr alias "old_key" (Leaf (JInt 1)) = inr (Leaf (JInt 1)) /\
  check_key_val_t validate_nogpu depr alias "device" (Leaf (JStr "gpu")) = inr (Leaf (JStr "cpu")) /\
  check_key_val_t validate_nogpu depr [] "device" (Leaf (JStr "gpu")) = inl RuntimeErr /\
  set_items_t validate_nogpu depr alias [("a", Leaf (JInt 1)); ("gone", Leaf (JInt 2)); ("b", Leaf (JInt 3))] [] [] =
    ([("a", Leaf (JInt 1))], [(["a"], None)], Some ValueErr) /\
  update_items_t validate_nogpu depr alias PNew [("s", Node [("a", Leaf (JInt 1)); ("gone", Leaf (JInt 2))]); ("b", Leaf (JInt 3))] [] None =
    ([("s", Node [("a", Leaf (JInt 1))])], Some ValueErr).
Proof. repeat split; vm_compute; reflexivity. Qed.

(* QUANTEM_FOO__BAR lands under "em_foo" (five characters dropped, not eight); refresh never sees it *)
Example C19_nonvacuous_env :
  collect_env validate_nogpu [("QUANTEM_FOO__BAR-BAZ", Leaf (JInt 1)); ("HOME", Leaf (JStr "/root"))] =
    ([("em_foo", Node [("bar-baz", Leaf (JInt 1))])], None) /\
  refresh_e validate_nogpu [] [("QUANTEM_DTYPE_REAL", Leaf (JStr "float64"))] ex3_s = refresh validate_nogpu [] ex3_s.
Proof. split; vm_compute; reflexivity. Qed.

Example C19_nonvacuous_anydev : forall l, exists e, validate_nogpu (Node l) = inl e.
Proof. exact validate_nogpu_mapping. Qed.

(* with A: (with B: raise) ; (with C: pass)  — restored at every level *)
Definition ex3_nest : stmt :=
  Block false (Some (Node [("viz.cmap", Leaf (JInt 1)); ("fresh.k", Leaf (JInt 2))])) []
    [Block true None [("viz__cmap", Leaf (JInt 5)); ("mkl", Leaf JNone)] [Plain (SSet (Some (Leaf JNone)) [])];
     Block false (Some (Node [("fresh.k", Leaf (JInt 9))])) [] []].

Example C19_nonvacuous_nest :
  clean validate_nogpu ex3_nest ex3_s /\
  List.length (snd (exec validate_nogpu ex3_nest ex3_s)) = 7 /\
  fst (exec validate_nogpu ex3_nest ex3_s) = (ex3_s, None).
Proof.
  split; [|split; vm_compute; reflexivity].
  apply clean_block. eexists. eexists. split; [vm_compute; reflexivity|]. cbn [all_clean]. split; [|split; [|exact I]].
  - apply clean_block. eexists. eexists. split; [vm_compute; reflexivity|]. cbn [all_clean]. split; [|exact I].
    cbn [clean]. eexists. reflexivity.
  - apply clean_block. eexists. eexists. split; [vm_compute; reflexivity|]. exact I.
Qed.

Example C19_nonvacuous_import :
  let probe := [("has_torch", Leaf (JBool true)); ("has_cupy", Leaf (JBool false))] in
  let yaml := [("device", Leaf (JStr "cpu")); ("viz", Node [("real_space_units", Leaf (JStr "A"))])] in
  goodb (Node probe) = true /\ goodb (Node yaml) = true /\
  import_store validate_nogpu probe yaml =
    ({| conf := [("has_torch", Leaf (JBool true)); ("has_cupy", Leaf (JBool false)); ("device", Leaf (JStr "cpu"));
                 ("viz", Node [("real_space_units", Leaf (JStr "A"))])];
        dflts := [probe; yaml] |}, None).
Proof. repeat split; vm_compute; reflexivity. Qed.

Example C19_nonvacuous_refresh_after_sets :
  Forall no_upd [Do (SSet None [("mkl", Leaf (JInt 9))]); With (Some (Node [("viz.cmap", Leaf JNone)])) [] [SRefresh []]] /\
  conf (run validate_nogpu [Do (SSet None [("mkl", Leaf (JInt 9))])] ex3_s) <> conf ex3_s.
Proof.
  split; [|vm_compute; discriminate].
  repeat (apply Forall_cons); try apply Forall_nil; cbn [no_upd no_upd_s]; try exact I.
  all: repeat (apply Forall_cons); try apply Forall_nil; try exact I.
Qed.

(* a block that shadows the key twice (mapping form under one spelling, keyword form under the
   other) next to a fresh nested key; the body changes a sibling and registers a default; on exit
   the key reads the old value again *)
Example C19_nonvacuous_shadow :
  let o := With (Some (Node [("viz.real_space_units", Leaf (JStr "um")); ("fresh.k", Leaf (JInt 1))]))
                [("viz__real-space-units", Leaf (JStr "pm"))]
                [SSet (Some (Node [("viz.cmap", Leaf (JStr "hot"))])) []; SUpd [("mkl", Node [("threads", Leaf (JInt 8))])]] in
  shadows_ok validate_nogpu "viz.real-space-units" o ex3_s /\
  C19_Model.get "viz.real-space-units" (conf ex3_s) = inr (Leaf (JStr "A")) /\
  C19_Model.get "viz.real-space-units" (conf (fst (step validate_nogpu o ex3_s))) = inr (Leaf (JStr "A")) /\
  C19_Model.get "viz.cmap" (conf (fst (step validate_nogpu o ex3_s))) = inr (Leaf (JStr "hot")).
Proof.
  split; [|repeat split; vm_compute; reflexivity].
  cbn [shadows_ok arg_ok set_args kw_items map app]. split; [repeat (constructor; [split; [pp_tac | good_tac]|]); constructor|].
  split; [repeat (constructor; [split; [pp_tac | good_tac]|]); constructor|]. split.
  - intros key v [E|[E|[E|[]]]]; inversion E; subst; vm_compute.
    + right. reflexivity.
    + left. left. discriminate.
    + right. reflexivity.
  - split.
    + repeat (apply Forall_cons); try apply Forall_nil; cbn [no_write arg_ok set_args kw_items map app].
      * split; [repeat (constructor; [split; [pp_tac | good_tac]|]); constructor|]. split; [constructor|].
        intros key v [E|[]]. inversion E; subst. vm_compute. right. split; [reflexivity|]. left. discriminate.
      * split; [good_tac|]. intros w [<-|[]]. vm_compute. left. discriminate.
    + eexists. eexists. split; vm_compute; reflexivity.
Qed.
