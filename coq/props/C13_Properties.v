(* C13 — Image registration returns the applied shift with a consistent sign convention.
   ONLY the property theorems (closed by `exact`), their assumption reports and non-vacuity
   examples.

   Two layers.
   (1) DFT layer: an arbitrary commutative ring R with a conjugation (conj_ok) and, per axis, a
       family w : Z -> R of N-th roots of unity with the orthogonality relation (root_ok,
       lib/DFT.v) — every grid N1 x N2 (odd, even, non-square).  `re : R -> Q` is the real-part
       read-out (only re (conj z) == re z is assumed); `E : Q -> R` is the character
       E q = exp(2 pi i q) of the matrix-multiply upsampling kernels (E (z/N) = w (-z)).
       All these hypotheses are satisfiable together: Example C13_nonvacuous_setting.
   (2) Estimator layer: the executable model (model/C13_Model.v: np_shift / torch_shift on exact
       rationals, parameterised by the correlation array cc and the upsampled window ups).
   Vocabulary (proof/C13_Proofs*.v):
     uniq_max M N c p q      c has its strict unique maximum over the M x N grid at (p, q)
     same_on_grid x y        two images agree on the N1 x N2 grid
     cc_fourier ref im       ifft2 (fft2 ref * conj (fft2 im))            (both estimators)
     xcorr2 x y j1 j2        sum_n x[n + j] conj y[n], indices modulo the grid;  acorr x = xcorr2 x x
     ccQ ref im = re o cc_fourier ref im ;  acorrQ x = re o acorr x
     shifted_of M N s1 s2 R cc     cc[k,l] == R[(k+s1) mod M, (l+s2) mod N]
     psym M N R              R[k,l] == R[-k mod M, -l mod N]
     admits M N ms cc p q    max_shift = ms does not mask the peak (p,q) (masked entries are -inf: nothing else is needed)
     win_centred W c loc     the W x W upsampled window has its strict unique maximum at the centre
                             sample (c,c) and equal neighbours on either side of it along each axis
     fz n k                  the signed offset np.fft.fftfreq(n, 1/n)[k] of index k
     ramp t1 t2              the phase ramp exp(-2 pi i (kx t1 + ky t2)) of return_shifted_image, for integers t
     neg_mod n a a'          a' == -a, except at a == -n/2 (the one asymmetric point of [-n/2, n/2)) where a' == a
     negc n t t'             t' is congruent to -t modulo n;  windows_swap: the window of the swapped pair
                             centred at (x', y') = -(x, y) mod (M, N) is the reversed window of the pair *)
From Coq Require Import ZArith List Lia Ring Arith QArith.
From QV.lib Require Import Prelude FinSum DFT DFT2 DFT_Inst.
From QV.model Require Import C13_Model.
From QV.proof Require Import C13_Proofs C13_Proofs_Est C13_Proofs_Swap C13_Proofs_DFT C13_Proofs_Inst.
From QV.proof Require Import C13_Proofs_CS C13_Proofs_CSInst C13_Proofs_TSwap C13_Proofs_DC C13_Proofs_DCInst.
Local Close Scope Q_scope.

(* ============================================================================ correlation *)
(* circular cross-correlation theorem, one axis, every N (instance of lib/DFT.v) *)
Theorem C13_xcorr_theorem_1d :
  forall (R : Type) (rO rI : R) (radd rmul rsub : R -> R -> R) (ropp : R -> R),
    ring_theory rO rI radd rmul rsub ropp eq ->
    forall conj : R -> R, conj_ok radd rmul conj ->
    forall (N : nat) (w : Z -> R) (Ninv : R), root_ok rO rI radd rmul conj N w Ninv ->
    forall (x y : nat -> R) (j : nat),
    idft rO radd rmul N w Ninv (fun k => rmul (dft rO radd rmul N w x k) (conj (dft rO radd rmul N w y k))) j
    = sumn rO radd N (fun n => rmul (x (zidx N (Z.of_nat n + Z.of_nat j))) (conj (y n))).
Proof. exact (fun R rO rI radd rmul rsub ropp Rth conj Cok N w Ninv Rok => xcorr_theorem Rth Cok Rok). Qed.
Print Assumptions C13_xcorr_theorem_1d.

(* ... and on every N1 x N2 grid: ifft2(F_ref conj F_im)[j] = sum_n ref[n + j] conj im[n] *)
Theorem C13_xcorr_theorem :
  forall (R : Type) (rO rI : R) (radd rmul rsub : R -> R -> R) (ropp : R -> R),
    ring_theory rO rI radd rmul rsub ropp eq ->
    forall conj : R -> R, conj_ok radd rmul conj ->
    forall (N1 : nat) (w1 : Z -> R) (Ninv1 : R) (N2 : nat) (w2 : Z -> R) (Ninv2 : R),
    root_ok rO rI radd rmul conj N1 w1 Ninv1 -> root_ok rO rI radd rmul conj N2 w2 Ninv2 ->
    forall (ref im : nat -> nat -> R) (j1 j2 : nat),
    cc_fourier R rO radd rmul conj N1 w1 Ninv1 N2 w2 Ninv2 ref im j1 j2
    = xcorr2 R rO radd rmul conj N1 N2 ref im j1 j2.
Proof. exact xcorr_thm. Qed.
Print Assumptions C13_xcorr_theorem.

(* the second image is the first one circularly translated by (s1, s2) (np.roll; any integers,
   also beyond the cell): the correlation array is the autocorrelation read at k + s *)
Theorem C13_xcorr_of_shift :
  forall (R : Type) (rO rI : R) (radd rmul rsub : R -> R -> R) (ropp : R -> R),
    ring_theory rO rI radd rmul rsub ropp eq ->
    forall conj : R -> R, conj_ok radd rmul conj ->
    forall (N1 : nat) (w1 : Z -> R) (Ninv1 : R) (N2 : nat) (w2 : Z -> R) (Ninv2 : R),
    root_ok rO rI radd rmul conj N1 w1 Ninv1 -> root_ok rO rI radd rmul conj N2 w2 Ninv2 ->
    forall (ref im : nat -> nat -> R) (s1 s2 : Z) (j1 j2 : nat),
    same_on_grid R N1 N2 im (roll2 N1 N2 s1 s2 ref) ->
    cc_fourier R rO radd rmul conj N1 w1 Ninv1 N2 w2 Ninv2 ref im j1 j2
    = acorr R rO radd rmul conj N1 N2 ref (zidx N1 (Z.of_nat j1 + s1)) (zidx N2 (Z.of_nat j2 + s2)).
Proof. exact xcorr_of_shift. Qed.
Print Assumptions C13_xcorr_of_shift.

(* swapping the two images conjugates and point-reflects the correlation; the autocorrelation
   is Hermitian *)
Theorem C13_xcorr_swap :
  forall (R : Type) (rO rI : R) (radd rmul rsub : R -> R -> R) (ropp : R -> R),
    ring_theory rO rI radd rmul rsub ropp eq ->
    forall conj : R -> R, conj_ok radd rmul conj ->
    forall (N1 : nat) (w1 : Z -> R) (Ninv1 : R) (N2 : nat) (w2 : Z -> R) (Ninv2 : R),
    root_ok rO rI radd rmul conj N1 w1 Ninv1 -> root_ok rO rI radd rmul conj N2 w2 Ninv2 ->
    forall (x y : nat -> nat -> R) (j1 j2 : nat),
    xcorr2 R rO radd rmul conj N1 N2 y x j1 j2
    = conj (xcorr2 R rO radd rmul conj N1 N2 x y (zidx N1 (- Z.of_nat j1)) (zidx N2 (- Z.of_nat j2))).
Proof. exact xcorr_swap. Qed.
Print Assumptions C13_xcorr_swap.

(* ============================================================================ index arithmetic *)
(* the code's centring (t + 0.5 n) % n - 0.5 n on exact rationals, every n >= 1 (odd and even):
   the result lies in [-n/2, n/2) and is congruent to t; it is the only such number *)
Theorem C13_centre_wrap :
  forall (n : nat) (t : Q), 0 < n ->
    (- (qN n / 2) <= centre n t)%Q /\ (centre n t < qN n / 2)%Q /\
    (exists k : Z, (centre n t == t + qN n * inject_Z k)%Q) /\
    (forall (c : Q) (k : Z), (- (qN n / 2) <= c)%Q -> (c < qN n / 2)%Q ->
                             (c == t + qN n * inject_Z k)%Q -> (c == centre n t)%Q).
Proof.
  exact (fun n t Hn => conj (proj1 (centre_range t Hn)) (conj (proj2 (centre_range t Hn))
           (conj (centre_cong n t) (fun c k H0 H1 Hk => @centre_unique n t c k Hn H0 H1 Hk)))).
Qed.
Print Assumptions C13_centre_wrap.

(* an integer peak index p is returned as its signed fftfreq offset: p for p < n/2, p - n otherwise *)
Theorem C13_centre_of_index :
  forall n p : nat, p < n ->
    (centre n (qN p) == inject_Z (fz n p))%Q /\
    (- Z.of_nat n <= 2 * fz n p < Z.of_nat n)%Z /\ (fz n p mod Z.of_nat n = Z.of_nat p mod Z.of_nat n)%Z.
Proof.
  exact (fun n p Hp => conj (centre_of_index Hp)
           (conj (fz_range Hp) (fz_cong p (Nat.le_lt_trans 0 p n (Nat.le_0_l p) Hp)))).
Qed.
Print Assumptions C13_centre_of_index.

(* first-maximum argmax of the correlation of a translated pair: if the autocorrelation R has its
   strict unique maximum at the origin, the coarse peak is at (-s1 mod M, -s2 mod N) *)
Theorem C13_coarse_peak :
  forall (M N : nat) (s1 s2 : Z) (R cc : nat -> nat -> Q),
    uniq_max M N R 0 0 -> shifted_of M N s1 s2 R cc ->
    argmax2 M N cc = (wrapi M (- s1), wrapi N (- s2)).
Proof. exact coarse_peak. Qed.
Print Assumptions C13_coarse_peak.

(* three-point parabola (v2 - v0) / (4 v1 - 2 v2 - 2 v0): zero for equal neighbours; at a weak
   maximum the vertex is within half a sample, on the side of the larger neighbour *)
Theorem C13_parabola :
  forall v0 v1 v2 d : Q, parab v0 v1 v2 = Some d ->
    ((v0 == v2)%Q -> (d == 0)%Q) /\
    ((v0 <= v1)%Q -> (v2 <= v1)%Q ->
       (- (1 # 2) <= d)%Q /\ (d <= 1 # 2)%Q /\ ((v0 < v2)%Q -> (0 < d)%Q) /\ ((v2 < v0)%Q -> (d < 0)%Q)).
Proof.
  exact (fun v0 v1 v2 d H =>
           conj (fun E => @parab_symmetric v0 v1 v2 d E H)
                (fun H0 H2 => conj (proj1 (@parab_within_half v0 v1 v2 d H0 H2 H))
                              (conj (proj2 (@parab_within_half v0 v1 v2 d H0 H2 H))
                                    (@parab_sign v0 v1 v2 d H0 H2 H)))).
Qed.
Print Assumptions C13_parabola.

(* the upsampling window: du = ceil(1.5 up); 2 du + 1 samples per axis; sample a sits at
   x0 + (a - du)/up, the centre sample du at x0, consecutive samples 1/up apart *)
Theorem C13_upsample_window :
  forall (up : nat) (x0 : Q), 0 < up ->
    3 * up <= 2 * du up < 3 * up + 2 /\ np_win up = 2 * du up + 1 /\
    (np_coord up x0 (du up) == x0)%Q /\
    (forall a, (np_coord up x0 (S a) - np_coord up x0 a == 1 / qN up)%Q).
Proof.
  intros up x0 Hup. split.
  - unfold du. pose proof (Nat.div_mod (3 * up + 1) 2). pose proof (Nat.mod_upper_bound (3 * up + 1) 2). lia.
  - split; [reflexivity|]. split; [exact (np_coord_centre up x0 Hup)|].
    exact (fun a => np_coord_step up x0 a Hup).
Qed.
Print Assumptions C13_upsample_window.

(* torch: numRow = ceil(1.5 up), globalShift = floor(numRow/2), upsampleCenter = globalShift - up xs:
   window sample a sits at xs + (a - globalShift)/up *)
Theorem C13_upsample_window_torch :
  forall (up : nat) (xs : Q) (a : nat), 0 < up ->
    (t_coord up (t_center up xs) a == xs + inject_Z (Z.of_nat a - Z.of_nat (t_gs up)) / qN up)%Q.
Proof. exact t_coord_center. Qed.
Print Assumptions C13_upsample_window_torch.

(* ============================================================================ upsampling kernels *)
(* NumPy dft_upsample (repaired kernels): the matrix product kern_row @ F @ kern_col, entry [a,b],
   is N1 N2 times the band-limited interpolant of ifft2 F at (x0 + (a-du)/up, y0 + (b-du)/up) *)
Theorem C13_upsample_samples_interpolant_numpy :
  forall (R : Type) (rO rI : R) (radd rmul rsub : R -> R -> R) (ropp : R -> R),
    ring_theory rO rI radd rmul rsub ropp eq ->
    forall conj : R -> R, conj_ok radd rmul conj ->
    forall (N1 : nat) (w1 : Z -> R) (Ninv1 : R) (N2 : nat) (w2 : Z -> R) (Ninv2 : R),
    root_ok rO rI radd rmul conj N1 w1 Ninv1 -> root_ok rO rI radd rmul conj N2 w2 Ninv2 ->
    forall E : Q -> R, (forall p q : Q, (p == q)%Q -> E p = E q) ->
    forall (F : nat -> nat -> R) (up : nat) (x0 y0 : Q) (a b : nat), 0 < up ->
    kernel_product R rO radd rmul N1 N2 E F (np_kern_phase N1 up x0) (np_kern_phase N2 up y0) a b
    = rmul (rmul (of_nat rO rI radd N1) (of_nat rO rI radd N2))
           (interp R rO radd rmul N1 Ninv1 N2 Ninv2 E F (np_coord up x0 a) (np_coord up y0 b)).
Proof. exact np_upsample_samples_interpolant. Qed.
Print Assumptions C13_upsample_samples_interpolant_numpy.

(* torch dftUpsample_torch applied to conj(cc), result conjugated: the same interpolant at the
   torch window coordinates *)
Theorem C13_upsample_samples_interpolant_torch :
  forall (R : Type) (rO rI : R) (radd rmul rsub : R -> R -> R) (ropp : R -> R),
    ring_theory rO rI radd rmul rsub ropp eq ->
    forall conj : R -> R, conj_ok radd rmul conj ->
    forall (N1 : nat) (w1 : Z -> R) (Ninv1 : R) (N2 : nat) (w2 : Z -> R) (Ninv2 : R),
    root_ok rO rI radd rmul conj N1 w1 Ninv1 -> root_ok rO rI radd rmul conj N2 w2 Ninv2 ->
    forall E : Q -> R, (forall p q : Q, (p == q)%Q -> E p = E q) ->
    (forall q : Q, conj (E q) = E (- q)%Q) ->
    forall (F : nat -> nat -> R) (up : nat) (c1 c2 : Q) (a b : nat), 0 < up ->
    conj (kernel_product R rO radd rmul N1 N2 E (fun k l : nat => conj (F k l))
            (t_kern_phase N1 up c1) (t_kern_phase N2 up c2) a b)
    = rmul (rmul (of_nat rO rI radd N1) (of_nat rO rI radd N2))
           (interp R rO radd rmul N1 Ninv1 N2 Ninv2 E F (t_coord up c1 a) (t_coord up c2 b)).
Proof. exact torch_upsample_samples_interpolant. Qed.
Print Assumptions C13_upsample_samples_interpolant_torch.

(* the interpolant passes through the correlation array at whole-pixel positions (any integers,
   taken modulo the grid) *)
Theorem C13_interpolant_at_grid :
  forall (R : Type) (rO rI : R) (radd rmul rsub : R -> R -> R) (ropp : R -> R),
    ring_theory rO rI radd rmul rsub ropp eq ->
    forall conj : R -> R, conj_ok radd rmul conj ->
    forall (N1 : nat) (w1 : Z -> R) (Ninv1 : R) (N2 : nat) (w2 : Z -> R) (Ninv2 : R),
    root_ok rO rI radd rmul conj N1 w1 Ninv1 -> root_ok rO rI radd rmul conj N2 w2 Ninv2 ->
    forall E : Q -> R, (forall p q : Q, (p == q)%Q -> E p = E q) ->
    (forall z : Z, E (inject_Z z / qN N1)%Q = w1 (- z)%Z) ->
    (forall z : Z, E (inject_Z z / qN N2)%Q = w2 (- z)%Z) ->
    forall (F : nat -> nat -> R) (X Y : Q) (n1 n2 : Z),
    (X == inject_Z n1)%Q -> (Y == inject_Z n2)%Q ->
    interp R rO radd rmul N1 Ninv1 N2 Ninv2 E F X Y
    = idft2 rO radd rmul N1 w1 Ninv1 N2 w2 Ninv2 F (zidx N1 n1) (zidx N2 n2).
Proof. exact interp_at_grid. Qed.
Print Assumptions C13_interpolant_at_grid.

(* ============================================================================ integer shifts *)
(* the convention: multiplying the spectrum of the second image by the phase ramp of any integer
   pair t with t + s = 0 (mod size) reproduces the first image *)
Theorem C13_shift_reproduces_first :
  forall (R : Type) (rO rI : R) (radd rmul rsub : R -> R -> R) (ropp : R -> R),
    ring_theory rO rI radd rmul rsub ropp eq ->
    forall conj : R -> R, conj_ok radd rmul conj ->
    forall (N1 : nat) (w1 : Z -> R) (Ninv1 : R) (N2 : nat) (w2 : Z -> R) (Ninv2 : R),
    root_ok rO rI radd rmul conj N1 w1 Ninv1 -> root_ok rO rI radd rmul conj N2 w2 Ninv2 ->
    forall (ref im : nat -> nat -> R) (s1 s2 t1 t2 : Z) (n1 n2 : nat),
    same_on_grid R N1 N2 im (roll2 N1 N2 s1 s2 ref) ->
    ((t1 + s1) mod Z.of_nat N1)%Z = 0%Z -> ((t2 + s2) mod Z.of_nat N2)%Z = 0%Z ->
    n1 < N1 -> n2 < N2 ->
    fmul2 rO radd rmul N1 w1 Ninv1 N2 w2 Ninv2 (ramp R rmul N1 w1 N2 w2 t1 t2) im n1 n2 = ref n1 n2.
Proof. exact shift_reproduces_first. Qed.
Print Assumptions C13_shift_reproduces_first.

(* NumPy estimator, EVERY upsampling factor and max_shift setting that admits the peak: for a
   circularly translated copy whose autocorrelation peak is unique, the returned shift is the
   integer pair (t1, t2) in the centred cell with t + s = 0 (mod size) — exactly — and translating
   the second image by it (the phase ramp of return_shifted_image) reproduces the first.
   For up >= 2 the hypothesis on the upsampled window is explicit (win_centred). *)
Theorem C13_integer_shift_exact_numpy :
  forall (R : Type) (rO rI : R) (radd rmul rsub : R -> R -> R) (ropp : R -> R),
    ring_theory rO rI radd rmul rsub ropp eq ->
    forall conj : R -> R, conj_ok radd rmul conj ->
    forall (N1 : nat) (w1 : Z -> R) (Ninv1 : R) (N2 : nat) (w2 : Z -> R) (Ninv2 : R),
    root_ok rO rI radd rmul conj N1 w1 Ninv1 -> root_ok rO rI radd rmul conj N2 w2 Ninv2 ->
    forall re : R -> Q, (forall z : R, (re (conj z) == re z)%Q) ->
    forall (ref im : nat -> nat -> R) (s1 s2 : Z) (ms : option Q) (up : nat) (ups : Q -> Q -> nat -> nat -> Q),
    2 <= N1 -> 2 <= N2 ->
    same_on_grid R N1 N2 im (roll2 N1 N2 s1 s2 ref) ->
    uniq_max N1 N2 (acorrQ R rO radd rmul conj N1 N2 re ref) 0 0 ->
    admits N1 N2 ms (ccQ R rO radd rmul conj N1 w1 Ninv1 N2 w2 Ninv2 re ref im) (wrapi N1 (- s1)) (wrapi N2 (- s2)) ->
    (2 <= up -> forall x y : Q, (x == qN (wrapi N1 (- s1)))%Q -> (y == qN (wrapi N2 (- s2)))%Q ->
                win_centred (np_win up) (du up) (ups x y)) ->
    exists a b : Q,
      np_shift N1 N2 ms up (ccQ R rO radd rmul conj N1 w1 Ninv1 N2 w2 Ninv2 re ref im) ups = Some (a, b) /\
      exists t1 t2 : Z,
        (a == inject_Z t1)%Q /\ (b == inject_Z t2)%Q /\
        (- Z.of_nat N1 <= 2 * t1 < Z.of_nat N1)%Z /\ (- Z.of_nat N2 <= 2 * t2 < Z.of_nat N2)%Z /\
        ((t1 + s1) mod Z.of_nat N1)%Z = 0%Z /\ ((t2 + s2) mod Z.of_nat N2)%Z = 0%Z /\
        (forall n1 n2 : nat, n1 < N1 -> n2 < N2 ->
           fmul2 rO radd rmul N1 w1 Ninv1 N2 w2 Ninv2 (ramp R rmul N1 w1 N2 w2 t1 t2) im n1 n2 = ref n1 n2).
Proof. exact registration_integer_numpy. Qed.
Print Assumptions C13_integer_shift_exact_numpy.

(* torch estimator (cross_correlation_shift_torch), every upsampling factor *)
Theorem C13_integer_shift_exact_torch :
  forall (R : Type) (rO rI : R) (radd rmul rsub : R -> R -> R) (ropp : R -> R),
    ring_theory rO rI radd rmul rsub ropp eq ->
    forall conj : R -> R, conj_ok radd rmul conj ->
    forall (N1 : nat) (w1 : Z -> R) (Ninv1 : R) (N2 : nat) (w2 : Z -> R) (Ninv2 : R),
    root_ok rO rI radd rmul conj N1 w1 Ninv1 -> root_ok rO rI radd rmul conj N2 w2 Ninv2 ->
    forall re : R -> Q, (forall z : R, (re (conj z) == re z)%Q) ->
    forall (ref im : nat -> nat -> R) (s1 s2 : Z) (up : nat) (ups : Q -> Q -> nat -> nat -> Q),
    2 <= N1 -> 2 <= N2 ->
    same_on_grid R N1 N2 im (roll2 N1 N2 s1 s2 ref) ->
    uniq_max N1 N2 (acorrQ R rO radd rmul conj N1 N2 re ref) 0 0 ->
    (3 <= up -> forall cx cy : Q,
        (cx == qN (t_gs up) - qN up * qN (wrapi N1 (- s1)))%Q ->
        (cy == qN (t_gs up) - qN up * qN (wrapi N2 (- s2)))%Q ->
        win_centred (t_win up) (t_gs up) (ups cx cy)) ->
    exists a b : Q,
      torch_shift N1 N2 up (ccQ R rO radd rmul conj N1 w1 Ninv1 N2 w2 Ninv2 re ref im) ups = Some (a, b) /\
      exists t1 t2 : Z,
        (a == inject_Z t1)%Q /\ (b == inject_Z t2)%Q /\
        (- Z.of_nat N1 <= 2 * t1 < Z.of_nat N1)%Z /\ (- Z.of_nat N2 <= 2 * t2 < Z.of_nat N2)%Z /\
        ((t1 + s1) mod Z.of_nat N1)%Z = 0%Z /\ ((t2 + s2) mod Z.of_nat N2)%Z = 0%Z /\
        (forall n1 n2 : nat, n1 < N1 -> n2 < N2 ->
           fmul2 rO radd rmul N1 w1 Ninv1 N2 w2 Ninv2 (ramp R rmul N1 w1 N2 w2 t1 t2) im n1 n2 = ref n1 n2).
Proof. exact registration_integer_torch. Qed.
Print Assumptions C13_integer_shift_exact_torch.

(* the same two statements on ANY correlation array with a unique, locally symmetric peak (the
   form the correspondence check exercises): the estimators return the signed offset of the peak *)
Theorem C13_peak_exact :
  forall (M N : nat) (ms : option Q) (up : nat) (cc : nat -> nat -> Q) (ups : Q -> Q -> nat -> nat -> Q) (p q : nat),
    2 <= M -> 2 <= N -> uniq_max M N cc p q -> sym_nbrs M N cc p q ->
    (admits M N ms cc p q ->
     (2 <= up -> forall x y, (x == qN p)%Q -> (y == qN q)%Q -> win_centred (np_win up) (du up) (ups x y)) ->
     exists a b, np_shift M N ms up cc ups = Some (a, b) /\
                 (a == inject_Z (fz M p))%Q /\ (b == inject_Z (fz N q))%Q) /\
    ((3 <= up -> forall cx cy, (cx == qN (t_gs up) - qN up * qN p)%Q -> (cy == qN (t_gs up) - qN up * qN q)%Q ->
                 win_centred (t_win up) (t_gs up) (ups cx cy)) ->
     exists a b, torch_shift M N up cc ups = Some (a, b) /\
                 (a == inject_Z (fz M p))%Q /\ (b == inject_Z (fz N q))%Q).
Proof.
  exact (fun M N ms up cc ups p q HM HN Hu Hs =>
           conj (fun Ha Hw => @np_peak_exact M N ms up cc ups p q HM HN Hu Ha Hs Hw)
                (fun Hw => @torch_peak_exact M N up cc ups p q HM HN Hu Hs Hw)).
Qed.
Print Assumptions C13_peak_exact.

(* ============================================================================ identical images *)
(* identical images give a zero shift for EVERY upsampling factor (and every max_shift > 0),
   given that the upsampled window of the autocorrelation has its maximum at the centre sample *)
Theorem C13_identical_zero_numpy :
  forall (R : Type) (rO rI : R) (radd rmul rsub : R -> R -> R) (ropp : R -> R),
    ring_theory rO rI radd rmul rsub ropp eq ->
    forall conj : R -> R, conj_ok radd rmul conj ->
    forall (N1 : nat) (w1 : Z -> R) (Ninv1 : R) (N2 : nat) (w2 : Z -> R) (Ninv2 : R),
    root_ok rO rI radd rmul conj N1 w1 Ninv1 -> root_ok rO rI radd rmul conj N2 w2 Ninv2 ->
    forall re : R -> Q, (forall z : R, (re (conj z) == re z)%Q) ->
    forall (ref im : nat -> nat -> R) (ms : option Q) (up : nat) (ups : Q -> Q -> nat -> nat -> Q),
    2 <= N1 -> 2 <= N2 ->
    same_on_grid R N1 N2 im ref ->
    uniq_max N1 N2 (acorrQ R rO radd rmul conj N1 N2 re ref) 0 0 ->
    match ms with
    | Some m => (0 < m * m)%Q
    | None => True
    end ->
    (2 <= up -> forall x y : Q, (x == 0)%Q -> (y == 0)%Q -> win_centred (np_win up) (du up) (ups x y)) ->
    exists a b : Q,
      np_shift N1 N2 ms up (ccQ R rO radd rmul conj N1 w1 Ninv1 N2 w2 Ninv2 re ref im) ups = Some (a, b) /\
      (a == 0)%Q /\ (b == 0)%Q.
Proof. exact registration_identical_numpy. Qed.
Print Assumptions C13_identical_zero_numpy.

Theorem C13_identical_zero_torch :
  forall (R : Type) (rO rI : R) (radd rmul rsub : R -> R -> R) (ropp : R -> R),
    ring_theory rO rI radd rmul rsub ropp eq ->
    forall conj : R -> R, conj_ok radd rmul conj ->
    forall (N1 : nat) (w1 : Z -> R) (Ninv1 : R) (N2 : nat) (w2 : Z -> R) (Ninv2 : R),
    root_ok rO rI radd rmul conj N1 w1 Ninv1 -> root_ok rO rI radd rmul conj N2 w2 Ninv2 ->
    forall re : R -> Q, (forall z : R, (re (conj z) == re z)%Q) ->
    forall (ref im : nat -> nat -> R) (up : nat) (ups : Q -> Q -> nat -> nat -> Q),
    2 <= N1 -> 2 <= N2 ->
    same_on_grid R N1 N2 im ref ->
    uniq_max N1 N2 (acorrQ R rO radd rmul conj N1 N2 re ref) 0 0 ->
    (3 <= up -> forall cx cy : Q, (cx == qN (t_gs up))%Q -> (cy == qN (t_gs up))%Q ->
                win_centred (t_win up) (t_gs up) (ups cx cy)) ->
    exists a b : Q,
      torch_shift N1 N2 up (ccQ R rO radd rmul conj N1 w1 Ninv1 N2 w2 Ninv2 re ref im) ups = Some (a, b) /\
      (a == 0)%Q /\ (b == 0)%Q.
Proof. exact registration_identical_torch. Qed.
Print Assumptions C13_identical_zero_torch.

(* ============================================================================ swapped images *)
(* NumPy estimator, every upsampling factor, ANY pair of images whose correlation has a unique
   peak (sub-pixel shifts included): swapping the images negates the result; at the boundary
   value -n/2 of the half-open cell (even n, shift of exactly half the size) both calls return
   -n/2, which is its own negative modulo n.  For up >= 2: the windows of the swapped pair are
   the reversed windows (windows_swap) and each window has a unique maximum. *)
Theorem C13_swap_negates_numpy :
  forall (R : Type) (rO rI : R) (radd rmul rsub : R -> R -> R) (ropp : R -> R),
    ring_theory rO rI radd rmul rsub ropp eq ->
    forall conj : R -> R, conj_ok radd rmul conj ->
    forall (N1 : nat) (w1 : Z -> R) (Ninv1 : R) (N2 : nat) (w2 : Z -> R) (Ninv2 : R),
    root_ok rO rI radd rmul conj N1 w1 Ninv1 -> root_ok rO rI radd rmul conj N2 w2 Ninv2 ->
    forall re : R -> Q, (forall z : R, (re (conj z) == re z)%Q) ->
    forall (ref im : nat -> nat -> R) (up : nat) (ups ups' : Q -> Q -> nat -> nat -> Q) (p q : nat),
    2 <= N1 -> 2 <= N2 ->
    uniq_max N1 N2 (ccQ R rO radd rmul conj N1 w1 Ninv1 N2 w2 Ninv2 re ref im) p q ->
    (2 <= up ->
     windows_swap N1 N2 up ups ups' /\
     (forall x y : Q, exists lx ly : nat, uniq_max (np_win up) (np_win up) (ups x y) lx ly)) ->
    exists a b a' b' : Q,
      np_shift N1 N2 None up (ccQ R rO radd rmul conj N1 w1 Ninv1 N2 w2 Ninv2 re ref im) ups = Some (a, b) /\
      np_shift N1 N2 None up (ccQ R rO radd rmul conj N1 w1 Ninv1 N2 w2 Ninv2 re im ref) ups' = Some (a', b') /\
      neg_mod N1 a a' /\ neg_mod N2 b b'.
Proof. exact registration_swap_numpy. Qed.
Print Assumptions C13_swap_negates_numpy.

(* torch estimator, upsample_factor <= 2 (half-pixel rounding, round-half-even is odd): same statement.
   For factors > 2 the torch window (ceil(1.5 up) samples, centre floor(./2)) is not symmetric for even
   sizes; that case is exercised by the check only. *)
Theorem C13_swap_negates_torch :
  forall (R : Type) (rO rI : R) (radd rmul rsub : R -> R -> R) (ropp : R -> R),
    ring_theory rO rI radd rmul rsub ropp eq ->
    forall conj : R -> R, conj_ok radd rmul conj ->
    forall (N1 : nat) (w1 : Z -> R) (Ninv1 : R) (N2 : nat) (w2 : Z -> R) (Ninv2 : R),
    root_ok rO rI radd rmul conj N1 w1 Ninv1 -> root_ok rO rI radd rmul conj N2 w2 Ninv2 ->
    forall re : R -> Q, (forall z : R, (re (conj z) == re z)%Q) ->
    forall (ref im : nat -> nat -> R) (up : nat) (ups ups' : Q -> Q -> nat -> nat -> Q) (p q : nat),
    2 <= N1 -> 2 <= N2 -> up <= 2 ->
    uniq_max N1 N2 (ccQ R rO radd rmul conj N1 w1 Ninv1 N2 w2 Ninv2 re ref im) p q ->
    exists a b a' b' : Q,
      torch_shift N1 N2 up (ccQ R rO radd rmul conj N1 w1 Ninv1 N2 w2 Ninv2 re ref im) ups = Some (a, b) /\
      torch_shift N1 N2 up (ccQ R rO radd rmul conj N1 w1 Ninv1 N2 w2 Ninv2 re im ref) ups' = Some (a', b') /\
      neg_mod N1 a a' /\ neg_mod N2 b b'.
Proof. exact registration_swap_torch. Qed.
Print Assumptions C13_swap_negates_torch.

(* ============================================================================ sub-pixel (partial) *)
(* PARTIAL.  With upsampling the NumPy estimator returns, centred, the position of the largest
   window sample plus a correction of at most half an upsampled pixel.  NOT proved (validated on
   the implementation by the check): that the largest sample of the interpolant is the one
   nearest to the true sub-pixel shift, which would give the 1/upsample_factor bound. *)
Theorem C13_subpixel_accuracy_partial :
  forall (M N up : nat) (cc : nat -> nat -> Q) (ups : Q -> Q -> nat -> nat -> Q) (p q : nat),
    2 <= M -> 2 <= N -> 2 <= up -> uniq_max M N cc p q ->
    (forall x y, exists lx ly, uniq_max (np_win up) (np_win up) (ups x y) lx ly) ->
    exists (x0 y0 : Q) (lx ly : nat) (dx dy : Q),
      np_stage1 M N None cc = Some ((p, q), (x0, y0)) /\
      uniq_max (np_win up) (np_win up) (ups x0 y0) lx ly /\
      np_shift M N None up cc ups
      = Some (centre M (np_coord up x0 lx + dx / qN up), centre N (np_coord up y0 ly + dy / qN up))%Q /\
      (- (1 # 2) <= dx /\ dx <= 1 # 2)%Q /\ (- (1 # 2) <= dy /\ dy <= 1 # 2)%Q.
Proof. exact np_subpixel_partial. Qed.
Print Assumptions C13_subpixel_accuracy_partial.

(* ============================================================================ non-vacuity *)
(* every hypothesis of the DFT layer holds for the Gaussian rationals, N1 = N2 = 4, w k = (-i)^k,
   re = real part, E = exp(2 pi i .) on the quarter-integers *)
Example C13_nonvacuous_setting :
  setting_ok C c0 c1 cadd cmul csub copp cconj 4 w4 quarter 4 w4 quarter reC E4.
Proof. exact setting_instance. Qed.

(* the integer-shift theorems applied to a concrete 4 x 4 pair (second image = first rolled by
   (1, 2)); all hypotheses discharged; the model evaluates to (-1, -2) *)
Example C13_nonvacuous_integer_shift_numpy :
  exists a b : Q,
    np_shift 4 4 None 2 (ccQ C c0 cadd cmul cconj 4 w4 quarter 4 w4 quarter reC ref4 im4) (peak_win (du 2)) = Some (a, b) /\
    exists t1 t2 : Z,
      (a == inject_Z t1)%Q /\ (b == inject_Z t2)%Q /\
      (- Z.of_nat 4 <= 2 * t1 < Z.of_nat 4)%Z /\ (- Z.of_nat 4 <= 2 * t2 < Z.of_nat 4)%Z /\
      ((t1 + 1) mod Z.of_nat 4 = 0)%Z /\ ((t2 + 2) mod Z.of_nat 4 = 0)%Z /\
      forall n1 n2, n1 < 4 -> n2 < 4 ->
        fmul2 c0 cadd cmul 4 w4 quarter 4 w4 quarter (ramp C cmul 4 w4 4 w4 t1 t2) im4 n1 n2 = ref4 n1 n2.
Proof. exact inst_integer_numpy. Qed.

Example C13_nonvacuous_integer_shift_value :
  match np_shift 4 4 None 2 (ccQ C c0 cadd cmul cconj 4 w4 quarter 4 w4 quarter reC ref4 im4) (peak_win (du 2)) with
  | Some (a, b) => Qeq_bool a (-1) && Qeq_bool b (-2)
  | None => false
  end = true.
Proof. exact inst_integer_numpy_value. Qed.

Example C13_nonvacuous_integer_shift_torch :
  exists a b : Q,
    torch_shift 4 4 4 (ccQ C c0 cadd cmul cconj 4 w4 quarter 4 w4 quarter reC ref4 im4) (peak_win (t_gs 4)) = Some (a, b) /\
    exists t1 t2 : Z,
      (a == inject_Z t1)%Q /\ (b == inject_Z t2)%Q /\
      (- Z.of_nat 4 <= 2 * t1 < Z.of_nat 4)%Z /\ (- Z.of_nat 4 <= 2 * t2 < Z.of_nat 4)%Z /\
      ((t1 + 1) mod Z.of_nat 4 = 0)%Z /\ ((t2 + 2) mod Z.of_nat 4 = 0)%Z /\
      forall n1 n2, n1 < 4 -> n2 < 4 ->
        fmul2 c0 cadd cmul 4 w4 quarter 4 w4 quarter (ramp C cmul 4 w4 4 w4 t1 t2) im4 n1 n2 = ref4 n1 n2.
Proof. exact inst_integer_torch. Qed.

Example C13_nonvacuous_identical_zero_numpy :
  exists a b : Q,
    np_shift 4 4 (Some 1%Q) 3 (ccQ C c0 cadd cmul cconj 4 w4 quarter 4 w4 quarter reC ref4 ref4) (peak_win (du 3)) = Some (a, b) /\
    (a == 0)%Q /\ (b == 0)%Q.
Proof. exact inst_identical_numpy. Qed.

Example C13_nonvacuous_identical_zero_torch :
  exists a b : Q,
    torch_shift 4 4 3 (ccQ C c0 cadd cmul cconj 4 w4 quarter 4 w4 quarter reC ref4 ref4) (peak_win (t_gs 3)) = Some (a, b) /\
    (a == 0)%Q /\ (b == 0)%Q.
Proof. exact inst_identical_torch. Qed.

(* swap: the row component is negated (-1 -> +1), the column component -2 = -n/2 is reproduced *)
Example C13_nonvacuous_swap_numpy :
  exists a b a' b' : Q,
    np_shift 4 4 None 2 (ccQ C c0 cadd cmul cconj 4 w4 quarter 4 w4 quarter reC ref4 im4) (peak_win (du 2)) = Some (a, b) /\
    np_shift 4 4 None 2 (ccQ C c0 cadd cmul cconj 4 w4 quarter 4 w4 quarter reC im4 ref4) (peak_win (du 2)) = Some (a', b') /\
    neg_mod 4 a a' /\ neg_mod 4 b b'.
Proof. exact inst_swap_numpy. Qed.

Example C13_nonvacuous_swap_torch :
  exists a b a' b' : Q,
    torch_shift 4 4 2 (ccQ C c0 cadd cmul cconj 4 w4 quarter 4 w4 quarter reC ref4 im4) (peak_win 0) = Some (a, b) /\
    torch_shift 4 4 2 (ccQ C c0 cadd cmul cconj 4 w4 quarter 4 w4 quarter reC im4 ref4) (peak_win 0) = Some (a', b') /\
    neg_mod 4 a a' /\ neg_mod 4 b b'.
Proof. exact inst_swap_torch. Qed.

Example C13_nonvacuous_swap_value :
  match np_shift 4 4 None 2 (ccQ C c0 cadd cmul cconj 4 w4 quarter 4 w4 quarter reC im4 ref4) (peak_win (du 2)) with
  | Some (a, b) => Qeq_bool a 1 && Qeq_bool b (-2)
  | None => false
  end = true.
Proof. exact inst_swap_numpy_value. Qed.

(* a unique peak on an odd x even grid (coarse_peak / peak_exact / subpixel hypotheses) *)
Example C13_nonvacuous_unique_peak : uniq_max 5 4 cc54 4 1 /\ sym_nbrs 5 4 cc54 4 1.
Proof. split; [exact cc54_peak | split; vm_compute; reflexivity]. Qed.

(* the repaired max_shift behaviour vs the shipped one, on the model: max_shift = 3/2 admits the
   peak of cc54 at offset (-1, 1) but masks its row neighbour at (-2, 1) *)
Example C13_shipped_mask_biased :
  match np_stage1_shipped 5 4 (Some (3 # 2)%Q) cc54, np_stage1 5 4 (Some (3 # 2)%Q) cc54 with
  | Some (_, (x, _)), Some (_, (x', _)) => negb (Qeq_bool x 4) && Qeq_bool x' 4
  | _, _ => false
  end = true.
Proof. exact shipped_mask_biased. Qed.


(* ============================================================================================
   ROUND 3.  Vocabulary (proof/C13_Proofs_CS.v, proof/C13_Proofs_TSwap.v):
     re is now also assumed additive and positive on norms: 0 <= re (z conj z); "definite" is
       re (z conj z) == 0 -> z = 0 (used for strictness only).  All satisfiable together with the
       earlier hypotheses: Example C13_nonvacuous_cs_setting.
     shifted_img x j1 j2 n1 n2      x[(n1 + j1) mod N1, (n2 + j2) mod N2]
     no_self_overlap x              no translate of the periodic cell other than the identity reproduces x
     cc_spec ref im                 F_ref * conj(F_im): the spectrum handed to dft_upsample / upsampled_correlation_torch
     np_window F up x y a b         real(kern_row @ F @ kern_col)[a, b]           (dft_upsample)
     t_window F up c1 c2 a b        dftUpsample_torch(conj F, up, (c1, c2)).conj().real[a, b]
     np_off up a = (a - du)/up, t_off up a = (a - gs)/up   offset of window sample a from the centre sample
     frac_shift_differs X d1 d2     translating the image with spectrum X by (d1, d2) pixels changes it:
                                    some X[k,l] * E(f_k d1 / N1) * E(f_l d2 / N2) <> X[k,l]
     np_offsets_distinct X up / t_offsets_distinct X up    ... for the offset of every non-centre window sample
     E is additionally assumed unit-modulus: E q * conj (E q) = 1
     negc_e n up e t t'             t' is congruent to -t + e/up modulo n
   ============================================================================================ *)

(* Cauchy-Schwarz: the (real part of the) circular autocorrelation of ANY image, real or complex,
   on every grid, is bounded by its value at the origin *)
Theorem C13_autocorr_cauchy_schwarz :
  forall (R : Type) (rO rI : R) (radd rmul rsub : R -> R -> R) (ropp : R -> R),
    ring_theory rO rI radd rmul rsub ropp eq ->
    forall conj : R -> R, conj_ok radd rmul conj ->
    forall (N1 : nat) (w1 : Z -> R) (Ninv1 : R) (N2 : nat) (w2 : Z -> R) (Ninv2 : R),
    root_ok rO rI radd rmul conj N1 w1 Ninv1 -> root_ok rO rI radd rmul conj N2 w2 Ninv2 ->
    forall re : R -> Q, (forall z : R, (re (conj z) == re z)%Q) ->
    (forall a b : R, (re (radd a b) == re a + re b)%Q) ->
    (forall z : R, (0 <= re (rmul z (conj z)))%Q) ->
    forall (x : nat -> nat -> R) (j1 j2 : nat),
    (acorrQ R rO radd rmul conj N1 N2 re x j1 j2 <= acorrQ R rO radd rmul conj N1 N2 re x 0 0)%Q.
Proof. exact autocorr_le_origin. Qed.
Print Assumptions C13_autocorr_cauchy_schwarz.

(* ... with equality exactly when the translate by that offset reproduces the image *)
Theorem C13_autocorr_strict :
  forall (R : Type) (rO rI : R) (radd rmul rsub : R -> R -> R) (ropp : R -> R),
    ring_theory rO rI radd rmul rsub ropp eq ->
    forall conj : R -> R, conj_ok radd rmul conj ->
    forall (N1 : nat) (w1 : Z -> R) (Ninv1 : R) (N2 : nat) (w2 : Z -> R) (Ninv2 : R),
    root_ok rO rI radd rmul conj N1 w1 Ninv1 -> root_ok rO rI radd rmul conj N2 w2 Ninv2 ->
    forall re : R -> Q, (forall z : R, (re (conj z) == re z)%Q) ->
    (forall a b : R, (re (radd a b) == re a + re b)%Q) ->
    (forall z : R, (0 <= re (rmul z (conj z)))%Q) ->
    (forall z : R, (re (rmul z (conj z)) == 0)%Q -> z = rO) ->
    forall (x : nat -> nat -> R) (j1 j2 : nat),
    ((exists n1 n2, n1 < N1 /\ n2 < N2 /\ shifted_img R N1 N2 x j1 j2 n1 n2 <> x n1 n2) ->
     (acorrQ R rO radd rmul conj N1 N2 re x j1 j2 < acorrQ R rO radd rmul conj N1 N2 re x 0 0)%Q) /\
    ((forall n1 n2, n1 < N1 -> n2 < N2 -> shifted_img R N1 N2 x j1 j2 n1 n2 = x n1 n2) ->
     (acorrQ R rO radd rmul conj N1 N2 re x j1 j2 == acorrQ R rO radd rmul conj N1 N2 re x 0 0)%Q).
Proof.
  exact (fun R rO rI radd rmul rsub ropp Rth conj Cok N1 w1 Ninv1 N2 w2 Ninv2 Rok1 Rok2 re rc ra rn rd x j1 j2 =>
           Logic.conj (autocorr_lt_origin R rO rI radd rmul rsub ropp Rth conj Cok N1 w1 Ninv1 N2 w2 Ninv2 Rok1 Rok2
                         re rc ra rn rd x j1 j2)
                      (autocorr_eq_origin R rO rI radd rmul rsub ropp Rth conj Cok N1 w1 Ninv1 N2 w2 Ninv2 Rok1 Rok2
                         re x j1 j2)).
Qed.
Print Assumptions C13_autocorr_strict.

(* hence the hypothesis "unique autocorrelation peak" of the registration theorems is exactly
   "no other shift of the periodic cell reproduces the image": sufficient, and necessary *)
Theorem C13_unique_peak_iff_no_self_overlap :
  forall (R : Type) (rO rI : R) (radd rmul rsub : R -> R -> R) (ropp : R -> R),
    ring_theory rO rI radd rmul rsub ropp eq ->
    forall conj : R -> R, conj_ok radd rmul conj ->
    forall (N1 : nat) (w1 : Z -> R) (Ninv1 : R) (N2 : nat) (w2 : Z -> R) (Ninv2 : R),
    root_ok rO rI radd rmul conj N1 w1 Ninv1 -> root_ok rO rI radd rmul conj N2 w2 Ninv2 ->
    forall re : R -> Q, (forall z : R, (re (conj z) == re z)%Q) ->
    (forall a b : R, (re (radd a b) == re a + re b)%Q) ->
    (forall z : R, (0 <= re (rmul z (conj z)))%Q) ->
    (forall z : R, (re (rmul z (conj z)) == 0)%Q -> z = rO) ->
    forall x : nat -> nat -> R,
    (no_self_overlap R N1 N2 x -> uniq_max N1 N2 (acorrQ R rO radd rmul conj N1 N2 re x) 0 0) /\
    (forall j1 j2, j1 < N1 -> j2 < N2 -> (j1, j2) <> (0, 0) ->
       (forall n1 n2, n1 < N1 -> n2 < N2 -> shifted_img R N1 N2 x j1 j2 n1 n2 = x n1 n2) ->
       ~ uniq_max N1 N2 (acorrQ R rO radd rmul conj N1 N2 re x) 0 0).
Proof.
  exact (fun R rO rI radd rmul rsub ropp Rth conj Cok N1 w1 Ninv1 N2 w2 Ninv2 Rok1 Rok2 re rc ra rn rd x =>
           Logic.conj (unique_peak_of_no_self_overlap R rO rI radd rmul rsub ropp Rth conj Cok N1 w1 Ninv1 N2 w2 Ninv2
                         Rok1 Rok2 re rc ra rn rd x)
                      (self_overlap_ties_peak R rO rI radd rmul rsub ropp Rth conj Cok N1 w1 Ninv1 N2 w2 Ninv2
                         Rok1 Rok2 re x)).
Qed.
Print Assumptions C13_unique_peak_iff_no_self_overlap.

(* the integer-shift theorems with the peak hypothesis reduced to no_self_overlap *)
Theorem C13_integer_shift_exact_numpy_cs :
  forall (R : Type) (rO rI : R) (radd rmul rsub : R -> R -> R) (ropp : R -> R),
    ring_theory rO rI radd rmul rsub ropp eq ->
    forall conj : R -> R, conj_ok radd rmul conj ->
    forall (N1 : nat) (w1 : Z -> R) (Ninv1 : R) (N2 : nat) (w2 : Z -> R) (Ninv2 : R),
    root_ok rO rI radd rmul conj N1 w1 Ninv1 -> root_ok rO rI radd rmul conj N2 w2 Ninv2 ->
    forall re : R -> Q, (forall z : R, (re (conj z) == re z)%Q) ->
    (forall a b : R, (re (radd a b) == re a + re b)%Q) ->
    (forall z : R, (0 <= re (rmul z (conj z)))%Q) ->
    (forall z : R, (re (rmul z (conj z)) == 0)%Q -> z = rO) ->
    forall (ref im : nat -> nat -> R) (s1 s2 : Z) (ms : option Q) (up : nat) (ups : Q -> Q -> nat -> nat -> Q),
    2 <= N1 -> 2 <= N2 ->
    same_on_grid R N1 N2 im (roll2 N1 N2 s1 s2 ref) ->
    no_self_overlap R N1 N2 ref ->
    admits N1 N2 ms (ccQ R rO radd rmul conj N1 w1 Ninv1 N2 w2 Ninv2 re ref im) (wrapi N1 (- s1)) (wrapi N2 (- s2)) ->
    (2 <= up -> forall x y : Q, (x == qN (wrapi N1 (- s1)))%Q -> (y == qN (wrapi N2 (- s2)))%Q ->
                win_centred (np_win up) (du up) (ups x y)) ->
    exists a b : Q,
      np_shift N1 N2 ms up (ccQ R rO radd rmul conj N1 w1 Ninv1 N2 w2 Ninv2 re ref im) ups = Some (a, b) /\
      exists t1 t2 : Z,
        (a == inject_Z t1)%Q /\ (b == inject_Z t2)%Q /\
        (- Z.of_nat N1 <= 2 * t1 < Z.of_nat N1)%Z /\ (- Z.of_nat N2 <= 2 * t2 < Z.of_nat N2)%Z /\
        ((t1 + s1) mod Z.of_nat N1)%Z = 0%Z /\ ((t2 + s2) mod Z.of_nat N2)%Z = 0%Z /\
        (forall n1 n2 : nat, n1 < N1 -> n2 < N2 ->
           fmul2 rO radd rmul N1 w1 Ninv1 N2 w2 Ninv2 (ramp R rmul N1 w1 N2 w2 t1 t2) im n1 n2 = ref n1 n2).
Proof. exact registration_integer_numpy_cs. Qed.
Print Assumptions C13_integer_shift_exact_numpy_cs.

Theorem C13_integer_shift_exact_torch_cs :
  forall (R : Type) (rO rI : R) (radd rmul rsub : R -> R -> R) (ropp : R -> R),
    ring_theory rO rI radd rmul rsub ropp eq ->
    forall conj : R -> R, conj_ok radd rmul conj ->
    forall (N1 : nat) (w1 : Z -> R) (Ninv1 : R) (N2 : nat) (w2 : Z -> R) (Ninv2 : R),
    root_ok rO rI radd rmul conj N1 w1 Ninv1 -> root_ok rO rI radd rmul conj N2 w2 Ninv2 ->
    forall re : R -> Q, (forall z : R, (re (conj z) == re z)%Q) ->
    (forall a b : R, (re (radd a b) == re a + re b)%Q) ->
    (forall z : R, (0 <= re (rmul z (conj z)))%Q) ->
    (forall z : R, (re (rmul z (conj z)) == 0)%Q -> z = rO) ->
    forall (ref im : nat -> nat -> R) (s1 s2 : Z) (up : nat) (ups : Q -> Q -> nat -> nat -> Q),
    2 <= N1 -> 2 <= N2 ->
    same_on_grid R N1 N2 im (roll2 N1 N2 s1 s2 ref) ->
    no_self_overlap R N1 N2 ref ->
    (3 <= up -> forall cx cy : Q,
        (cx == qN (t_gs up) - qN up * qN (wrapi N1 (- s1)))%Q ->
        (cy == qN (t_gs up) - qN up * qN (wrapi N2 (- s2)))%Q ->
        win_centred (t_win up) (t_gs up) (ups cx cy)) ->
    exists a b : Q,
      torch_shift N1 N2 up (ccQ R rO radd rmul conj N1 w1 Ninv1 N2 w2 Ninv2 re ref im) ups = Some (a, b) /\
      exists t1 t2 : Z,
        (a == inject_Z t1)%Q /\ (b == inject_Z t2)%Q /\
        (- Z.of_nat N1 <= 2 * t1 < Z.of_nat N1)%Z /\ (- Z.of_nat N2 <= 2 * t2 < Z.of_nat N2)%Z /\
        ((t1 + s1) mod Z.of_nat N1)%Z = 0%Z /\ ((t2 + s2) mod Z.of_nat N2)%Z = 0%Z /\
        (forall n1 n2 : nat, n1 < N1 -> n2 < N2 ->
           fmul2 rO radd rmul N1 w1 Ninv1 N2 w2 Ninv2 (ramp R rmul N1 w1 N2 w2 t1 t2) im n1 n2 = ref n1 n2).
Proof. exact registration_integer_torch_cs. Qed.
Print Assumptions C13_integer_shift_exact_torch_cs.

(* the upsampled window of two identical images, as the kernels of dft_upsample compute it from
   cc = F_ref conj(F_im), placed on the refined peak (0, 0): EVERY sample is bounded by the centre
   sample du (Cauchy-Schwarz in the Fourier domain; E only needs unit modulus) — every factor *)
Theorem C13_identical_window_le_centre_numpy :
  forall (R : Type) (rO rI : R) (radd rmul rsub : R -> R -> R) (ropp : R -> R),
    ring_theory rO rI radd rmul rsub ropp eq ->
    forall conj : R -> R, conj_ok radd rmul conj ->
    forall (N1 : nat) (w1 : Z -> R) (Ninv1 : R) (N2 : nat) (w2 : Z -> R) (Ninv2 : R),
    root_ok rO rI radd rmul conj N1 w1 Ninv1 -> root_ok rO rI radd rmul conj N2 w2 Ninv2 ->
    forall re : R -> Q, (forall z : R, (re (conj z) == re z)%Q) ->
    (forall a b : R, (re (radd a b) == re a + re b)%Q) ->
    (forall z : R, (0 <= re (rmul z (conj z)))%Q) ->
    forall E : Q -> R, (forall p q : Q, (p == q)%Q -> E p = E q) ->
    (forall z : Z, E (inject_Z z / qN N1)%Q = w1 (- z)%Z) ->
    (forall q : Q, rmul (E q) (conj (E q)) = rI) ->
    forall (ref im : nat -> nat -> R) (up : nat) (x y : Q) (a b : nat),
    0 < up -> same_on_grid R N1 N2 im ref -> (x == 0)%Q -> (y == 0)%Q ->
    (np_window R rO radd rmul N1 N2 re E (cc_spec R rO radd rmul conj N1 w1 N2 w2 ref im) up x y a b
     <= np_window R rO radd rmul N1 N2 re E (cc_spec R rO radd rmul conj N1 w1 N2 w2 ref im) up x y (du up) (du up))%Q.
Proof. exact np_window_identical_le. Qed.
Print Assumptions C13_identical_window_le_centre_numpy.

(* the same for the conj-in / conj-out window of dftUpsample_torch with upsampleCenter = globalShift *)
Theorem C13_identical_window_le_centre_torch :
  forall (R : Type) (rO rI : R) (radd rmul rsub : R -> R -> R) (ropp : R -> R),
    ring_theory rO rI radd rmul rsub ropp eq ->
    forall conj : R -> R, conj_ok radd rmul conj ->
    forall (N1 : nat) (w1 : Z -> R) (Ninv1 : R) (N2 : nat) (w2 : Z -> R) (Ninv2 : R),
    root_ok rO rI radd rmul conj N1 w1 Ninv1 -> root_ok rO rI radd rmul conj N2 w2 Ninv2 ->
    forall re : R -> Q, (forall z : R, (re (conj z) == re z)%Q) ->
    (forall a b : R, (re (radd a b) == re a + re b)%Q) ->
    (forall z : R, (0 <= re (rmul z (conj z)))%Q) ->
    forall E : Q -> R, (forall p q : Q, (p == q)%Q -> E p = E q) ->
    (forall q : Q, conj (E q) = E (- q)%Q) ->
    (forall z : Z, E (inject_Z z / qN N1)%Q = w1 (- z)%Z) ->
    (forall q : Q, rmul (E q) (conj (E q)) = rI) ->
    forall (ref im : nat -> nat -> R) (up : nat) (c1 c2 : Q) (a b : nat),
    0 < up -> same_on_grid R N1 N2 im ref -> (c1 == qN (t_gs up))%Q -> (c2 == qN (t_gs up))%Q ->
    (t_window R rO radd rmul conj N1 N2 re E (cc_spec R rO radd rmul conj N1 w1 N2 w2 ref im) up c1 c2 a b
     <= t_window R rO radd rmul conj N1 N2 re E (cc_spec R rO radd rmul conj N1 w1 N2 w2 ref im) up c1 c2 (t_gs up) (t_gs up))%Q.
Proof. exact t_window_identical_le. Qed.
Print Assumptions C13_identical_window_le_centre_torch.

(* identical images give (0, 0) for EVERY upsampling factor and every max_shift > 0, with the
   window COMPUTED by the kernels (no hypothesis on window values).  Hypotheses on the image only:
   no integer translate reproduces it, and (for up >= 2) no translate by the sub-pixel offset of a
   non-centre window sample reproduces it. *)
Theorem C13_identical_zero_numpy_derived :
  forall (R : Type) (rO rI : R) (radd rmul rsub : R -> R -> R) (ropp : R -> R),
    ring_theory rO rI radd rmul rsub ropp eq ->
    forall conj : R -> R, conj_ok radd rmul conj ->
    forall (N1 : nat) (w1 : Z -> R) (Ninv1 : R) (N2 : nat) (w2 : Z -> R) (Ninv2 : R),
    root_ok rO rI radd rmul conj N1 w1 Ninv1 -> root_ok rO rI radd rmul conj N2 w2 Ninv2 ->
    forall re : R -> Q, (forall z : R, (re (conj z) == re z)%Q) ->
    (forall a b : R, (re (radd a b) == re a + re b)%Q) ->
    (forall z : R, (0 <= re (rmul z (conj z)))%Q) ->
    (forall z : R, (re (rmul z (conj z)) == 0)%Q -> z = rO) ->
    forall E : Q -> R, (forall p q : Q, (p == q)%Q -> E p = E q) ->
    (forall q : Q, conj (E q) = E (- q)%Q) ->
    (forall z : Z, E (inject_Z z / qN N1)%Q = w1 (- z)%Z) ->
    (forall q : Q, rmul (E q) (conj (E q)) = rI) ->
    forall (ref im : nat -> nat -> R) (ms : option Q) (up : nat),
    2 <= N1 -> 2 <= N2 ->
    same_on_grid R N1 N2 im ref ->
    no_self_overlap R N1 N2 ref ->
    match ms with Some m => (0 < m * m)%Q | None => True end ->
    (2 <= up -> np_offsets_distinct R rmul N1 N2 E (dft2 rO radd rmul N1 w1 N2 w2 ref) up) ->
    exists a b : Q,
      np_shift N1 N2 ms up (ccQ R rO radd rmul conj N1 w1 Ninv1 N2 w2 Ninv2 re ref im)
               (np_window R rO radd rmul N1 N2 re E (cc_spec R rO radd rmul conj N1 w1 N2 w2 ref im) up) = Some (a, b) /\
      (a == 0)%Q /\ (b == 0)%Q.
Proof. exact registration_identical_numpy_cs. Qed.
Print Assumptions C13_identical_zero_numpy_derived.

Theorem C13_identical_zero_torch_derived :
  forall (R : Type) (rO rI : R) (radd rmul rsub : R -> R -> R) (ropp : R -> R),
    ring_theory rO rI radd rmul rsub ropp eq ->
    forall conj : R -> R, conj_ok radd rmul conj ->
    forall (N1 : nat) (w1 : Z -> R) (Ninv1 : R) (N2 : nat) (w2 : Z -> R) (Ninv2 : R),
    root_ok rO rI radd rmul conj N1 w1 Ninv1 -> root_ok rO rI radd rmul conj N2 w2 Ninv2 ->
    forall re : R -> Q, (forall z : R, (re (conj z) == re z)%Q) ->
    (forall a b : R, (re (radd a b) == re a + re b)%Q) ->
    (forall z : R, (0 <= re (rmul z (conj z)))%Q) ->
    (forall z : R, (re (rmul z (conj z)) == 0)%Q -> z = rO) ->
    forall E : Q -> R, (forall p q : Q, (p == q)%Q -> E p = E q) ->
    (forall q : Q, conj (E q) = E (- q)%Q) ->
    (forall z : Z, E (inject_Z z / qN N1)%Q = w1 (- z)%Z) ->
    (forall q : Q, rmul (E q) (conj (E q)) = rI) ->
    forall (ref im : nat -> nat -> R) (up : nat),
    2 <= N1 -> 2 <= N2 ->
    same_on_grid R N1 N2 im ref ->
    no_self_overlap R N1 N2 ref ->
    (3 <= up -> t_offsets_distinct R rmul N1 N2 E (dft2 rO radd rmul N1 w1 N2 w2 ref) up) ->
    exists a b : Q,
      torch_shift N1 N2 up (ccQ R rO radd rmul conj N1 w1 Ninv1 N2 w2 Ninv2 re ref im)
                  (t_window R rO radd rmul conj N1 N2 re E (cc_spec R rO radd rmul conj N1 w1 N2 w2 ref im) up) = Some (a, b) /\
      (a == 0)%Q /\ (b == 0)%Q.
Proof. exact registration_identical_torch_cs. Qed.
Print Assumptions C13_identical_zero_torch_derived.

(* ============================================================================ torch swap, factors > 2 *)
(* the torch window has W = ceil(1.5 up) samples around index gs = floor(W/2); W is odd (symmetric
   window) exactly for up = 2, 3 (mod 4) *)
Theorem C13_torch_window_parity :
  forall up : nat, Nat.odd (t_win up) = true <-> (up mod 4 = 2 \/ up mod 4 = 3).
Proof. exact t_win_odd_iff. Qed.
Print Assumptions C13_torch_window_parity.

(* what holds for EVERY factor > 2: the two calls round their half-pixel estimates to xs and
   xs' = -xs + e/up (mod size) with e = 0 whenever size * factor is even; if both window maxima
   are interior, sit at mirrored indices r + r' = 2 gs - e, and the two 3-point crosses around
   them are mirror images, the results are negated (mod size) *)
Theorem C13_swap_torch_upsampled :
  forall (M N up : nat) (cc cc' : nat -> nat -> Q) (ups ups' : Q -> Q -> nat -> nat -> Q) (p q : nat),
  2 <= M -> 2 <= N -> 3 <= up -> uniq_max M N cc p q -> reflected_of M N cc cc' ->
  exists (xs ys xs' ys' : Q) (e1 e2 : Z),
    negc_e M up e1 xs xs' /\ negc_e N up e2 ys ys' /\
    (Z.even (Z.of_nat M * Z.of_nat up) = true -> e1 = 0%Z) /\
    (Z.even (Z.of_nat N * Z.of_nat up) = true -> e2 = 0%Z) /\
    forall r c r' c' : nat,
      let W := t_win up in
      let loc := ups (t_center up xs) (t_center up ys) in
      let loc' := ups' (t_center up xs') (t_center up ys') in
      uniq_max W W loc r c -> uniq_max W W loc' r' c' ->
      (Z.of_nat r + Z.of_nat r' = 2 * Z.of_nat (t_gs up) - e1)%Z ->
      (Z.of_nat c + Z.of_nat c' = 2 * Z.of_nat (t_gs up) - e2)%Z ->
      1 <= r -> r + 1 < W -> 1 <= c -> c + 1 < W ->
      1 <= r' -> r' + 1 < W -> 1 <= c' -> c' + 1 < W ->
      (loc' (r' - 1)%nat c' == loc (r + 1)%nat c)%Q -> (loc' r' c' == loc r c)%Q ->
      (loc' (r' + 1)%nat c' == loc (r - 1)%nat c)%Q ->
      (loc' r' (c' - 1)%nat == loc r (c + 1)%nat)%Q -> (loc' r' (c' + 1)%nat == loc r (c - 1)%nat)%Q ->
      exists a b a' b' : Q,
        torch_shift M N up cc ups = Some (a, b) /\ torch_shift M N up cc' ups' = Some (a', b') /\
        neg_mod M a a' /\ neg_mod N b b'.
Proof. exact torch_swap_upsampled. Qed.
Print Assumptions C13_swap_torch_upsampled.

(* symmetric window (odd ceil(1.5 up)) and even size * factor: the NumPy statement carries over —
   negated for every unique window maximum, the border fallback included *)
Theorem C13_swap_negates_torch_symmetric :
  forall (M N up : nat) (cc cc' : nat -> nat -> Q) (ups ups' : Q -> Q -> nat -> nat -> Q) (p q : nat),
  2 <= M -> 2 <= N -> 3 <= up -> Nat.odd (t_win up) = true ->
  Z.even (Z.of_nat M * Z.of_nat up) = true -> Z.even (Z.of_nat N * Z.of_nat up) = true ->
  uniq_max M N cc p q -> reflected_of M N cc cc' ->
  (forall xs ys xs' ys' : Q, negc M xs xs' -> negc N ys ys' ->
     win_reflected (t_win up) (ups (t_center up xs) (t_center up ys)) (ups' (t_center up xs') (t_center up ys'))) ->
  (forall cx cy : Q, exists lx ly : nat, uniq_max (t_win up) (t_win up) (ups cx cy) lx ly) ->
  exists a b a' b' : Q,
    torch_shift M N up cc ups = Some (a, b) /\ torch_shift M N up cc' ups' = Some (a', b') /\
    neg_mod M a a' /\ neg_mod N b b'.
Proof. exact torch_swap_negates_symmetric. Qed.
Print Assumptions C13_swap_negates_torch_symmetric.

(* even window (up = 4: 6 samples at offsets -3..2): a window maximum on the border is NOT negated,
   although the two windows are exact mirror images wherever they overlap: the swapped call cannot
   see the offset +3/4.  (On the implementation the maximum is interior: the half-pixel estimate
   is within 1/4 pixel of the peak; this states what the asymmetric window does at its border.) *)
Theorem C13_swap_torch_even_window_border_refuted :
  reflected_of 4 4 ex_cc ex_cc /\ uniq_max 4 4 ex_cc 0 0 /\
  (forall (x y x' y' : Q) (a b a' b' : nat), a < 6 -> b < 6 -> a' < 6 -> b' < 6 -> a + a' = 6 -> b + b' = 6 ->
     (ex_ups' x' y' a' b' == ex_ups x y a b)%Q) /\
  match torch_shift 4 4 4 ex_cc ex_ups with
  | Some (a, b) => Qeq_bool a (-(3 # 4)) && Qeq_bool b 0 | None => false end = true /\
  match torch_shift 4 4 4 ex_cc ex_ups' with
  | Some (a, b) => Qeq_bool a (1 # 2) && Qeq_bool b 0 | None => false end = true /\
  ~ neg_mod 4 (-(3 # 4)) (1 # 2).
Proof. exact torch_swap_even_window_edge. Qed.
Print Assumptions C13_swap_torch_even_window_border_refuted.

(* ============================================================================ non-vacuity, round 3 *)
(* every hypothesis of the Cauchy-Schwarz layer holds for the Gaussian rationals, N1 = N2 = 4, with a
   character that is unit-modulus everywhere and differs from 1 off the pixel grid *)
Example C13_nonvacuous_cs_setting :
  cs_setting_ok C c0 c1 cadd cmul csub copp cconj 4 w4 quarter 4 w4 quarter reC E4u.
Proof. exact cs_setting_instance. Qed.

(* ref4 has no self-overlap (so C13_unique_peak_iff_no_self_overlap yields its unique peak), the
   row-periodic per4 has one and its peak is tied *)
Example C13_nonvacuous_no_self_overlap :
  no_self_overlap C 4 4 ref4 /\ uniq_max 4 4 (acorrQ C c0 cadd cmul cconj 4 4 reC ref4) 0 0.
Proof. exact (Logic.conj ref4_no_self_overlap inst_unique_peak_cs). Qed.

Example C13_nonvacuous_self_overlap_tied : ~ uniq_max 4 4 (acorrQ C c0 cadd cmul cconj 4 4 reC per4) 0 0.
Proof. exact per4_tied. Qed.

(* the derived identical-image theorems applied to ref4 with the window computed by the kernels:
   all hypotheses (no self-overlap, distinct sub-pixel offsets for up = 2 resp. 3) discharged *)
Example C13_nonvacuous_identical_zero_numpy_derived :
  exists a b : Q,
    np_shift 4 4 (Some 1%Q) 2 (ccQ C c0 cadd cmul cconj 4 w4 quarter 4 w4 quarter reC ref4 ref4)
             (np_window C c0 cadd cmul 4 4 reC E4u (cc_spec C c0 cadd cmul cconj 4 w4 4 w4 ref4 ref4) 2) = Some (a, b) /\
    (a == 0)%Q /\ (b == 0)%Q.
Proof. exact inst_identical_numpy_cs. Qed.

Example C13_nonvacuous_identical_zero_torch_derived :
  exists a b : Q,
    torch_shift 4 4 3 (ccQ C c0 cadd cmul cconj 4 w4 quarter 4 w4 quarter reC ref4 ref4)
                (t_window C c0 cadd cmul cconj 4 4 reC E4u (cc_spec C c0 cadd cmul cconj 4 w4 4 w4 ref4 ref4) 3) = Some (a, b) /\
    (a == 0)%Q /\ (b == 0)%Q.
Proof. exact inst_identical_torch_cs. Qed.

(* torch swap with factors > 2: an even window (up = 4) with interior maxima, and a symmetric
   window (up = 3) with a border maximum; values -13/56 <-> 13/56 and -2/3 <-> 2/3 *)
Example C13_nonvacuous_swap_torch_upsampled :
  exists a b a' b' : Q,
    torch_shift 4 4 4 ex_cc ex_ups2 = Some (a, b) /\ torch_shift 4 4 4 ex_cc ex_ups2' = Some (a', b') /\
    neg_mod 4 a a' /\ neg_mod 4 b b'.
Proof. exact inst_torch_swap_upsampled. Qed.

Example C13_nonvacuous_swap_torch_upsampled_value :
  match torch_shift 4 4 4 ex_cc ex_ups2, torch_shift 4 4 4 ex_cc ex_ups2' with
  | Some (a, b), Some (a', b') => Qeq_bool a (-(13 # 56)) && Qeq_bool a' (13 # 56) && Qeq_bool b 0 && Qeq_bool b' 0
  | _, _ => false
  end = true.
Proof. exact inst_torch_swap_upsampled_value. Qed.

Example C13_nonvacuous_swap_torch_symmetric :
  exists a b a' b' : Q,
    torch_shift 4 4 3 ex_cc ex_edge5 = Some (a, b) /\ torch_shift 4 4 3 ex_cc ex_edge5' = Some (a', b') /\
    neg_mod 4 a a' /\ neg_mod 4 b b'.
Proof. exact inst_torch_swap_symmetric. Qed.

Example C13_nonvacuous_swap_torch_symmetric_value :
  match torch_shift 4 4 3 ex_cc ex_edge5, torch_shift 4 4 3 ex_cc ex_edge5' with
  | Some (a, b), Some (a', b') => Qeq_bool a (-(2 # 3)) && Qeq_bool a' (2 # 3) && Qeq_bool b 0 && Qeq_bool b' 0
  | _, _ => false
  end = true.
Proof. exact inst_torch_swap_symmetric_value. Qed.


(* ============================================================================================
   ROUND 4 (fixes/C13-zero-frequency-term.diff, /repo 48bfab4).  Both estimators set the (0,0) bin of
   the cross spectrum to 0 before the inverse transform (the zero-frequency term N^2 mean_ref mean_im
   swamped the peak in the working precision for images with a large mean), the max_shift mask holds
   -inf and the NumPy parabola returns 0 on a zero denominator.  Vocabulary (proof/C13_Proofs_DC.v):
     zero00 F                F with F[0,0] := 0
     off M N c0 c c'         c'[k,l] == c[k,l] - c0 on the M x N grid
     ups_off W c1 ups ups'   the window function ups' is ups minus c1 (at Qeq-equal positions)
     res_eq r r'             both results are nan (None) or both are pairs with Qeq components
     cc_fourier0 / ccQ0      the correlation array the repaired code forms (bin zeroed)
   ============================================================================================ *)

(* zeroing the (0,0) bin of ANY spectrum subtracts the constant Ninv1 Ninv2 F[0,0] from its inverse
   transform, at every output index, on every grid *)
Theorem C13_zero_frequency_bin_is_a_constant :
  forall (R : Type) (rO rI : R) (radd rmul rsub : R -> R -> R) (ropp : R -> R),
    ring_theory rO rI radd rmul rsub ropp eq ->
    forall conj : R -> R, conj_ok radd rmul conj ->
    forall (N1 : nat) (w1 : Z -> R) (Ninv1 : R) (N2 : nat) (w2 : Z -> R) (Ninv2 : R),
    root_ok rO rI radd rmul conj N1 w1 Ninv1 -> root_ok rO rI radd rmul conj N2 w2 Ninv2 ->
    forall (F : nat -> nat -> R) (j1 j2 : nat),
    idft2 rO radd rmul N1 w1 Ninv1 N2 w2 Ninv2 (zero00 R rO F) j1 j2
    = rsub (idft2 rO radd rmul N1 w1 Ninv1 N2 w2 Ninv2 F j1 j2) (rmul (rmul Ninv1 Ninv2) (F 0 0)).
Proof. exact idft2_zero00. Qed.
Print Assumptions C13_zero_frequency_bin_is_a_constant.

(* ... and the constant F[0,0] from every sample of a matrix-multiply upsampled window whose
   kernels have phase 0 in their zero-frequency column / row (both codes: np_freq n 0 = 0) *)
Theorem C13_window_zero_frequency_bin_is_a_constant :
  forall (R : Type) (rO rI : R) (radd rmul rsub : R -> R -> R) (ropp : R -> R),
    ring_theory rO rI radd rmul rsub ropp eq ->
    forall conj : R -> R,
    forall (N1 : nat) (w1 : Z -> R) (Ninv1 : R) (N2 : nat) (w2 : Z -> R) (Ninv2 : R),
    root_ok rO rI radd rmul conj N1 w1 Ninv1 -> root_ok rO rI radd rmul conj N2 w2 Ninv2 ->
    forall E : Q -> R, (forall p q : Q, (p == q)%Q -> E p = E q) ->
    (forall z : Z, E (inject_Z z / qN N1)%Q = w1 (- z)%Z) ->
    forall (F : nat -> nat -> R) (ph1 ph2 : nat -> nat -> Q) (a b : nat),
    (ph1 a 0%nat == 0)%Q -> (ph2 b 0%nat == 0)%Q ->
    kernel_product R rO radd rmul N1 N2 E (zero00 R rO F) ph1 ph2 a b
    = rsub (kernel_product R rO radd rmul N1 N2 E F ph1 ph2 a b) (F 0 0).
Proof. exact kernel_product_zero00. Qed.
Print Assumptions C13_window_zero_frequency_bin_is_a_constant.

(* the estimators do not see a constant: for EVERY correlation array, window function, mask and
   factor (no peak hypothesis), subtracting a constant from the array and another from the window
   leaves the coarse argmax (with and without the -inf mask), both parabolas, the half-pixel
   rounding, the window argmax and so the returned pair unchanged *)
Theorem C13_estimators_ignore_a_constant :
  forall (M N : nat) (ms : option Q) (up : nat) (c0 c1 : Q) (cc cc' : nat -> nat -> Q)
         (ups ups' : Q -> Q -> nat -> nat -> Q),
    0 < M -> 0 < N -> off M N c0 cc cc' ->
    (ups_off (np_win up) c1 ups ups' -> res_eq (np_shift M N ms up cc ups) (np_shift M N ms up cc' ups')) /\
    (ups_off (t_win up) c1 ups ups' -> res_eq (torch_shift M N up cc ups) (torch_shift M N up cc' ups')).
Proof.
  exact (fun M N ms up c0 c1 cc cc' ups ups' HM HN H =>
           conj (@np_shift_off M N ms up c0 c1 cc cc' ups ups' HM HN H)
                (@torch_shift_off M N up c0 c1 cc cc' ups ups' HM HN H)).
Qed.
Print Assumptions C13_estimators_ignore_a_constant.

(* end to end: on the arrays the REPAIRED code forms (bin zeroed in the correlation and in the
   window) both estimators return what the model returns on the full correlation and window — every
   pair of images, mask and factor.  Every theorem above about ccQ / np_window / t_window is therefore
   a theorem about the repaired code. *)
Theorem C13_zero_frequency_term_irrelevant_numpy :
  forall (R : Type) (rO rI : R) (radd rmul rsub : R -> R -> R) (ropp : R -> R),
    ring_theory rO rI radd rmul rsub ropp eq ->
    forall conj : R -> R, conj_ok radd rmul conj ->
    forall (N1 : nat) (w1 : Z -> R) (Ninv1 : R) (N2 : nat) (w2 : Z -> R) (Ninv2 : R),
    root_ok rO rI radd rmul conj N1 w1 Ninv1 -> root_ok rO rI radd rmul conj N2 w2 Ninv2 ->
    forall re : R -> Q, (forall a b : R, (re (radd a b) == re a + re b)%Q) ->
    forall E : Q -> R, (forall p q : Q, (p == q)%Q -> E p = E q) ->
    (forall z : Z, E (inject_Z z / qN N1)%Q = w1 (- z)%Z) ->
    forall (ref im : nat -> nat -> R) (ms : option Q) (up : nat),
    res_eq (np_shift N1 N2 ms up (ccQ R rO radd rmul conj N1 w1 Ninv1 N2 w2 Ninv2 re ref im)
              (np_window R rO radd rmul N1 N2 re E (cc_spec R rO radd rmul conj N1 w1 N2 w2 ref im) up))
           (np_shift N1 N2 ms up (ccQ0 R rO radd rmul conj N1 w1 Ninv1 N2 w2 Ninv2 re ref im)
              (np_window R rO radd rmul N1 N2 re E (zero00 R rO (cc_spec R rO radd rmul conj N1 w1 N2 w2 ref im)) up)).
Proof. exact numpy_zero_frequency_irrelevant. Qed.
Print Assumptions C13_zero_frequency_term_irrelevant_numpy.

Theorem C13_zero_frequency_term_irrelevant_torch :
  forall (R : Type) (rO rI : R) (radd rmul rsub : R -> R -> R) (ropp : R -> R),
    ring_theory rO rI radd rmul rsub ropp eq ->
    forall conj : R -> R, conj_ok radd rmul conj ->
    forall (N1 : nat) (w1 : Z -> R) (Ninv1 : R) (N2 : nat) (w2 : Z -> R) (Ninv2 : R),
    root_ok rO rI radd rmul conj N1 w1 Ninv1 -> root_ok rO rI radd rmul conj N2 w2 Ninv2 ->
    forall re : R -> Q, (forall a b : R, (re (radd a b) == re a + re b)%Q) ->
    forall E : Q -> R, (forall p q : Q, (p == q)%Q -> E p = E q) ->
    (forall z : Z, E (inject_Z z / qN N1)%Q = w1 (- z)%Z) ->
    (forall z : R, (re (conj z) == re z)%Q) ->
    forall (ref im : nat -> nat -> R) (up : nat),
    res_eq (torch_shift N1 N2 up (ccQ R rO radd rmul conj N1 w1 Ninv1 N2 w2 Ninv2 re ref im)
              (t_window R rO radd rmul conj N1 N2 re E (cc_spec R rO radd rmul conj N1 w1 N2 w2 ref im) up))
           (torch_shift N1 N2 up (ccQ0 R rO radd rmul conj N1 w1 Ninv1 N2 w2 Ninv2 re ref im)
              (t_window R rO radd rmul conj N1 N2 re E (zero00 R rO (cc_spec R rO radd rmul conj N1 w1 N2 w2 ref im)) up)).
Proof. exact torch_zero_frequency_irrelevant. Qed.
Print Assumptions C13_zero_frequency_term_irrelevant_torch.

(* the repaired NumPy estimator never returns nan: every parabola is guarded (exact arithmetic; any
   array, mask, factor, window) *)
Theorem C13_numpy_always_finite :
  forall (M N : nat) (ms : option Q) (up : nat) (cc : nat -> nat -> Q) (ups : Q -> Q -> nat -> nat -> Q),
    exists a b : Q, np_shift M N ms up cc ups = Some (a, b).
Proof. exact np_shift_total. Qed.
Print Assumptions C13_numpy_always_finite.

(* non-vacuity / concrete values.  A flat correlation array (what a float32 image with mean 1000 x
   its contrast gave before the repair): the shipped stage 1 is 0/0, the repaired estimator returns a pair *)
Example C13_shipped_flat_peak_is_nan :
  np_stage1_shipped 4 4 None (fun _ _ => 1%Q) = None /\
  np_shift 4 4 None 1 (fun _ _ => 1%Q) (fun _ _ _ _ => 0%Q)
  = Some (centre 4 (qmod (qN 0 + 0) 4), centre 4 (qmod (qN 0 + 0) 4)).
Proof. exact flat_peak_shipped_nan_repaired_zero. Qed.

(* the derived identical-image theorems carried to the arrays the repaired code forms (Gaussian
   rationals, 4 x 4, window computed by the kernels from the zeroed spectrum) *)
Example C13_nonvacuous_identical_zero_numpy_dc0 :
  exists a b : Q,
    np_shift 4 4 (Some 1%Q) 2 (ccQ04 ref4 ref4) (np_window04 (spec4 ref4 ref4) 2) = Some (a, b) /\
    (a == 0)%Q /\ (b == 0)%Q.
Proof. exact inst_identical_numpy_dc0. Qed.

Example C13_nonvacuous_identical_zero_torch_dc0 :
  exists a b : Q,
    torch_shift 4 4 3 (ccQ04 ref4 ref4) (t_window04 (spec4 ref4 ref4) 3) = Some (a, b) /\
    (a == 0)%Q /\ (b == 0)%Q.
Proof. exact inst_identical_torch_dc0. Qed.

(* the rolled pair on the zeroed-bin correlation evaluates to (-1, -2); the zeroed bin was not 0 *)
Example C13_nonvacuous_integer_shift_dc0_value :
  match np_shift 4 4 None 1 (ccQ04 ref4 im4) (fun _ _ _ _ => 0%Q) with
  | Some (a, b) => Qeq_bool a (-1) && Qeq_bool b (-2)
  | None => false
  end = true /\ Qeq_bool (reC (spec4 ref4 im4 0 0)) 0 = false.
Proof. exact inst_integer_numpy_dc0_value. Qed.
