(* placeholder while the harness is being developed *)
From QV.lib Require Import Prelude.
From QV.model Require Import C13_Model.
Theorem C13_placeholder : du 2 = 3.
Proof. reflexivity. Qed.
Print Assumptions C13_placeholder.
