(* C09 — Mini-batch scheduling: exact partition, batch invariance, seeded determinism.
   This file contains ONLY the property theorems (closed by `exact`), their assumption
   reports, and non-vacuity examples. *)
From QV.lib Require Import Prelude Chunks FloatBits.
From QV.model Require Import C09_Model.
From QV.proof Require Import C09_Proofs.
From Coq Require Import QArith PrimFloat.
Local Close Scope Q_scope.

(* training and validation sets are disjoint and together cover all n patterns — for every
   n, every binary64 ratio (whatever n_val and stride the float rounding yields), both split
   modes and every permutation the generator may return *)
Theorem C09_split_partition :
  forall (n : nat) (ratio : float) (random : bool) (perm : list nat) (s : tvsplit),
    Permutation perm (seq 0 n) ->
    split_of_ratio n ratio random perm = Some s ->
    Permutation (train s ++ val s) (seq 0 n) /\ NoDup (train s ++ val s).
Proof. exact split_partition. Qed.
Print Assumptions C09_split_partition.

(* the grid split is a partition for arbitrary n_val and stride k (independent of the glue) *)
Theorem C09_split_grid_partition :
  forall n n_val k invert,
    Permutation (train (split_grid n n_val k invert) ++ val (split_grid n n_val k invert)) (seq 0 n)
    /\ NoDup (train (split_grid n n_val k invert) ++ val (split_grid n n_val k invert)).
Proof. exact split_grid_partition. Qed.
Print Assumptions C09_split_grid_partition.

(* each training pattern is visited exactly once per epoch, for every batch size b >= 1
   (1, non-dividing, larger than the set) and every shuffle order; and the reported number
   of batches (__len__) equals the number yielded *)
Theorem C09_epoch_visits_once :
  forall (b : nat) (order : list nat) (s : tvsplit),
    1 <= b -> Permutation order (train s) ->
    Permutation (concat (epoch b order)) (train s) /\
    length (epoch b order) = batcher_len b s.
Proof. exact epoch_visits_once. Qed.
Print Assumptions C09_epoch_visits_once.

Theorem C09_epoch_batch_sizes :
  forall (b : nat) (order c : list nat), 1 <= b -> In c (epoch b order) -> 1 <= length c <= b.
Proof. exact epoch_batches_nonempty_bounded. Qed.
Print Assumptions C09_epoch_batch_sizes.

Theorem C09_val_visits_once :
  forall (b : nat) (s : tvsplit),
    1 <= b -> concat (val_batches b s) = val s /\ length (val_batches b s) = val_len b s.
Proof. exact val_visits_once. Qed.
Print Assumptions C09_val_visits_once.

Theorem C09_train_val_disjoint :
  forall n s x,
    (Permutation (train s ++ val s) (seq 0 n) /\ NoDup (train s ++ val s)) ->
    In x (train s) -> ~ In x (val s).
Proof. exact train_val_disjoint. Qed.
Print Assumptions C09_train_val_disjoint.

(* contiguous batch ranges: start at `start`, abut, end at start + n, each of width 1..max_batch *)
Theorem C09_generate_batches_cover :
  forall n mb start rs,
    (1 <= n)%Z -> (1 <= mb)%Z ->
    generate_batches n None (Some mb) start = inr rs ->
    contiguous start rs /\ last_end start rs = (start + n)%Z /\
    (forall a b, In (a, b) rs -> 1 <= b - a <= mb)%Z.
Proof. exact generate_batches_cover. Qed.
Print Assumptions C09_generate_batches_cover.

Theorem C09_subdivide_num_batches :
  forall n nb sizes,
    (1 <= nb <= n)%Z ->
    subdivide_batches n (Some nb) None = inr sizes ->
    sum_Z sizes = n /\ Z.of_nat (length sizes) = nb /\
    (forall s, In s sizes -> n / nb <= s <= n / nb + 1)%Z.
Proof. exact subdivide_num_batches. Qed.
Print Assumptions C09_subdivide_num_batches.

(* when the batch size divides the number of patterns, the mean of the per-batch losses
   (each scaled by the batch fraction as error_estimate does) equals the full-batch loss;
   the per-pattern terms are arbitrary rationals, so the same holds for any additive
   functional such as a gradient component *)
Theorem C09_batch_mean_eq_full :
  forall (N : nat) (I : Q) (b m : nat) (ls : list Q),
    1 <= b -> 1 <= m -> 1 <= N -> length ls = m * b ->
    (mean_of_batch_losses N I b ls == batch_loss N I ls)%Q.
Proof. exact batch_mean_eq_full. Qed.
Print Assumptions C09_batch_mean_eq_full.

(* a run after reset equals a fresh run from the same seed: same state, same loss history *)
Theorem C09_reset_run_eq :
  forall (St Loss : Type) (init_of_seed : Z -> St) (iter_step : St -> St * Loss) (j k : nat) (sd : Z),
    run iter_step k (reset init_of_seed (run iter_step j (start Loss init_of_seed sd)))
    = run iter_step k (start Loss init_of_seed sd).
Proof. exact reset_run_eq. Qed.
Print Assumptions C09_reset_run_eq.

(* ---------------------------------------------------------------- non-vacuity *)
Example C09_nonvacuous_split :
  exists s, split_of_ratio 10 0x1.999999999999ap-3%float false [] = Some s /\ val s = [0; 5].
Proof. eexists. split; vm_compute; reflexivity. Qed.

Example C09_nonvacuous_random :
  exists s, split_of_ratio 5 0x1.999999999999ap-2%float true [3; 1; 4; 0; 2] = Some s
            /\ val s = [3; 1] /\ train s = [0; 2; 4] /\ Permutation [3; 1; 4; 0; 2] (seq 0 5).
Proof.
  eexists. repeat split; try (vm_compute; reflexivity).
  apply NoDup_Permutation; [repeat constructor; simpl; intuition lia | apply seq_NoDup |].
  intros x. simpl. intuition lia.
Qed.

Example C09_nonvacuous_generate :
  generate_batches 10 None (Some 3%Z) 2 = inr [(2, 5); (5, 8); (8, 10); (10, 12)]%Z.
Proof. vm_compute. reflexivity. Qed.

Example C09_nonvacuous_loss :
  (mean_of_batch_losses 6 (3#1) 2 [1#1; 2#1; 3#1; 4#1; 5#1; 7#2] == batch_loss 6 (3#1) [1#1; 2#1; 3#1; 4#1; 5#1; 7#2])%Q
  /\ length [1#1; 2#1; 3#1; 4#1; 5#1; 7#2]%Q = 3 * 2.
Proof. split; vm_compute; reflexivity. Qed.
