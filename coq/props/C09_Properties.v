(* C09 — Mini-batch scheduling: exact partition, batch invariance, seeded determinism.
   This file contains ONLY the property theorems (closed by `exact`), their assumption
   reports, and non-vacuity examples. *)
From QV.lib Require Import Prelude Chunks FloatBits.
From QV.model Require Import C09_Model.
From QV.proof Require Import C09_Proofs.
From Coq Require Import QArith PrimFloat.
Local Close Scope Q_scope.

(* training and validation sets are disjoint and together cover all n patterns — for every
   n, every binary64 ratio (whatever n_val and stride the float rounding yields), both split
   modes and every permutation the generator may return *)
Theorem C09_split_partition :
  forall (n : nat) (ratio : float) (random : bool) (perm : list nat) (s : tvsplit),
    Permutation perm (seq 0 n) ->
    split_of_ratio n ratio random perm = Some s ->
    Permutation (train s ++ val s) (seq 0 n) /\ NoDup (train s ++ val s).
Proof. exact split_partition. Qed.
Print Assumptions C09_split_partition.

(* the grid split is a partition for arbitrary n_val and stride k (independent of the glue) *)
Theorem C09_split_grid_partition :
  forall n n_val k invert,
    Permutation (train (split_grid n n_val k invert) ++ val (split_grid n n_val k invert)) (seq 0 n)
    /\ NoDup (train (split_grid n n_val k invert) ++ val (split_grid n n_val k invert)).
Proof. exact split_grid_partition. Qed.
Print Assumptions C09_split_grid_partition.

(* each training pattern is visited exactly once per epoch, for every batch size b >= 1
   (1, non-dividing, larger than the set) and every shuffle order; and the reported number
   of batches (__len__) equals the number yielded *)
Theorem C09_epoch_visits_once :
  forall (b : nat) (order : list nat) (s : tvsplit),
    1 <= b -> Permutation order (train s) ->
    Permutation (concat (epoch b order)) (train s) /\
    length (epoch b order) = batcher_len b s.
Proof. exact epoch_visits_once. Qed.
Print Assumptions C09_epoch_visits_once.

Theorem C09_epoch_batch_sizes :
  forall (b : nat) (order c : list nat), 1 <= b -> In c (epoch b order) -> 1 <= length c <= b.
Proof. exact epoch_batches_nonempty_bounded. Qed.
Print Assumptions C09_epoch_batch_sizes.

Theorem C09_val_visits_once :
  forall (b : nat) (s : tvsplit),
    1 <= b -> concat (val_batches b s) = val s /\ length (val_batches b s) = val_len b s.
Proof. exact val_visits_once. Qed.
Print Assumptions C09_val_visits_once.

Theorem C09_train_val_disjoint :
  forall n s x,
    (Permutation (train s ++ val s) (seq 0 n) /\ NoDup (train s ++ val s)) ->
    In x (train s) -> ~ In x (val s).
Proof. exact train_val_disjoint. Qed.
Print Assumptions C09_train_val_disjoint.

(* contiguous batch ranges: start at `start`, abut, end at start + n, each of width 1..max_batch *)
Theorem C09_generate_batches_cover :
  forall n mb start rs,
    (1 <= n)%Z -> (1 <= mb)%Z ->
    generate_batches n None (Some mb) start = inr rs ->
    contiguous start rs /\ last_end start rs = (start + n)%Z /\
    (forall a b, In (a, b) rs -> 1 <= b - a <= mb)%Z.
Proof. exact generate_batches_cover. Qed.
Print Assumptions C09_generate_batches_cover.

Theorem C09_subdivide_num_batches :
  forall n nb sizes,
    (1 <= nb <= n)%Z ->
    subdivide_batches n (Some nb) None = inr sizes ->
    sum_Z sizes = n /\ Z.of_nat (length sizes) = nb /\
    (forall s, In s sizes -> n / nb <= s <= n / nb + 1)%Z.
Proof. exact subdivide_num_batches. Qed.
Print Assumptions C09_subdivide_num_batches.

(* when the batch size divides the number of patterns, the mean of the per-batch losses
   (each scaled by the batch fraction as error_estimate does) equals the full-batch loss;
   the per-pattern terms are arbitrary rationals, so the same holds for any additive
   functional such as a gradient component *)
Theorem C09_batch_mean_eq_full :
  forall (N : nat) (I : Q) (b m : nat) (ls : list Q),
    1 <= b -> 1 <= m -> 1 <= N -> length ls = m * b ->
    (mean_of_batch_losses N I b ls == batch_loss N I ls)%Q.
Proof. exact batch_mean_eq_full. Qed.
Print Assumptions C09_batch_mean_eq_full.

(* a run after reset equals a fresh run from the same seed: same state, same loss history *)
Theorem C09_reset_run_eq :
  forall (St Loss : Type) (init_of_seed : Z -> St) (iter_step : St -> St * Loss) (j k : nat) (sd : Z),
    run iter_step k (reset init_of_seed (run iter_step j (start Loss init_of_seed sd)))
    = run iter_step k (start Loss init_of_seed sd).
Proof. exact reset_run_eq. Qed.
Print Assumptions C09_reset_run_eq.

(* ---------------------------------------------------------------- non-vacuity *)
Example C09_nonvacuous_split :
  exists s, split_of_ratio 10 0x1.999999999999ap-3%float false [] = Some s /\ val s = [0; 5].
Proof. eexists. split; vm_compute; reflexivity. Qed.

Example C09_nonvacuous_random :
  exists s, split_of_ratio 5 0x1.999999999999ap-2%float true [3; 1; 4; 0; 2] = Some s
            /\ val s = [3; 1] /\ train s = [0; 2; 4] /\ Permutation [3; 1; 4; 0; 2] (seq 0 5).
Proof.
  eexists. repeat split; try (vm_compute; reflexivity).
  apply NoDup_Permutation; [repeat constructor; simpl; intuition lia | apply seq_NoDup |].
  intros x. simpl. intuition lia.
Qed.

Example C09_nonvacuous_generate :
  generate_batches 10 None (Some 3%Z) 2 = inr [(2, 5); (5, 8); (8, 10); (10, 12)]%Z.
Proof. vm_compute. reflexivity. Qed.

Example C09_nonvacuous_loss :
  (mean_of_batch_losses 6 (3#1) 2 [1#1; 2#1; 3#1; 4#1; 5#1; 7#2] == batch_loss 6 (3#1) [1#1; 2#1; 3#1; 4#1; 5#1; 7#2])%Q
  /\ length [1#1; 2#1; 3#1; 4#1; 5#1; 7#2]%Q = 3 * 2.
Proof. split; vm_compute; reflexivity. Qed.

(* ================================================================================================
   Round 3 extension: RNGMixin state machine, schedule of a whole reconstruct call with its rng
   draws, count form of the partition clause, loss algebra for every batch size / arbitrary equal
   batches / gradient components, reset_recon field by field, the float -> int glue as separate
   functions (tied to the source by coq/gen_proofs/C09_Glue_GenProofs.v on every run).
   ================================================================================================ *)
From QV.model Require Import C09_Model_Ext.
From QV.proof Require Import C09_Proofs_Ext.

(* ---- rng bookkeeping (core/utils/rng.py) *)
(* _reset_rng after ANY sequence of draws (numpy / torch), resets and device moves restores seed,
   numpy generator and torch generator of a freshly seeded object; the seed may have been given
   as an int, a Generator or a torch.Generator *)
Theorem C09_rng_reset_restores :
  forall (dev tok0 tok tok' : nat) (ops : list rop) (a : rng_arg) (s : Z),
    seed_of_arg a = Some s -> no_set ops ->
    rng_core (reset_rng tok' (run_rng tok ops (init_rng dev tok0 a))) = rng_core (init_rng dev tok0 (ArgInt s)).
Proof. exact rng_reset_restores. Qed.
Print Assumptions C09_rng_reset_restores.

(* two runs from one seed consume the same draws: same generator, same stream, same position *)
Theorem C09_rng_same_seed_same_draws :
  forall (dev1 dev2 tok1 tok2 t1 t2 : nat) (a1 a2 : rng_arg) (s : Z) (ops : list rop),
    seed_of_arg a1 = Some s -> seed_of_arg a2 = Some s ->
    gen_of_arg t1 a1 = gen_of_arg t2 a2 -> no_set ops ->
    draws_rng tok1 ops (init_rng dev1 t1 a1) = draws_rng tok2 ops (init_rng dev2 t2 a2).
Proof. exact rng_same_seed_same_draws. Qed.
Print Assumptions C09_rng_same_seed_same_draws.

(* the same run after a reset consumes the draws of a fresh run *)
Theorem C09_rng_reset_same_draws :
  forall (dev tok0 tok tok' tok1 tok2 : nat) (pre ops : list rop) (s : Z),
    no_set pre -> no_set ops ->
    draws_rng tok1 ops (reset_rng tok' (run_rng tok pre (init_rng dev tok0 (ArgInt s))))
    = draws_rng tok2 ops (init_rng dev tok0 (ArgInt s)).
Proof. exact rng_reset_same_draws. Qed.
Print Assumptions C09_rng_reset_same_draws.

(* domain remark, as a theorem: with a Generator OBJECT as `rng`, reset gives back the initial
   state exactly when nothing had been drawn from that generator before it was handed over *)
Theorem C09_rng_reset_generator_iff_fresh :
  forall (dev tok0 tok : nat) (e : Z) (h : list nat),
    rng_core (reset_rng tok (init_rng dev tok0 (ArgGen e h))) = rng_core (init_rng dev tok0 (ArgGen e h)) <-> h = [].
Proof. exact rng_reset_generator_iff_fresh. Qed.
Print Assumptions C09_rng_reset_generator_iff_fresh.

Theorem C09_rng_reset_none_id : forall tok st, r_seed st = None -> reset_rng tok st = st.
Proof. exact rng_reset_none_id. Qed.
Print Assumptions C09_rng_reset_none_id.

Theorem C09_rng_to_device_spec :
  forall dev st,
    r_np (rng_to_device dev st) = r_np st /\ r_seed (rng_to_device dev st) = r_seed st /\
    r_torch (rng_to_device dev st) = torch_of_seed (r_seed st) /\ r_dev (rng_to_device dev st) = dev.
Proof. exact rng_to_device_spec. Qed.
Print Assumptions C09_rng_to_device_spec.

(* ---- one reconstruct call: split + every epoch + validation batches, all sizes, all modes *)
Theorem C09_recon_schedule_correct :
  forall (n : nat) (b : option nat) (ratio : float) (random shuffle : bool)
         (perm0 : list nat) (pps : list (list nat)) (sc : sched),
    1 <= bsz n b -> Permutation perm0 (seq 0 n) ->
    recon_schedule n b ratio random shuffle perm0 pps = Some sc ->
    index_perms (s_split sc) pps ->
    (Permutation (train (s_split sc) ++ val (s_split sc)) (seq 0 n) /\ NoDup (train (s_split sc) ++ val (s_split sc))) /\
    (forall ep, In ep (s_epochs sc) ->
       Permutation (concat ep) (train (s_split sc)) /\ length ep = s_len sc /\
       (forall i, i < n -> count_occ Nat.eq_dec (concat ep) i + count_occ Nat.eq_dec (concat (s_val sc)) i = 1)) /\
    length (s_epochs sc) = length pps /\
    length (s_val sc) = s_val_len sc.
Proof. exact recon_schedule_correct. Qed.
Print Assumptions C09_recon_schedule_correct.

Theorem C09_every_pattern_once :
  forall n b order s i,
    1 <= b -> (Permutation (train s ++ val s) (seq 0 n) /\ NoDup (train s ++ val s)) ->
    Permutation order (train s) -> i < n ->
    count_occ Nat.eq_dec (concat (epoch b order)) i + count_occ Nat.eq_dec (val s) i = 1.
Proof. exact every_pattern_once. Qed.
Print Assumptions C09_every_pattern_once.

Theorem C09_no_foreign_pattern :
  forall n b order s i,
    1 <= b -> (Permutation (train s ++ val s) (seq 0 n) /\ NoDup (train s ++ val s)) ->
    Permutation order (train s) -> n <= i ->
    count_occ Nat.eq_dec (concat (epoch b order)) i = 0 /\ count_occ Nat.eq_dec (val s) i = 0.
Proof. exact no_foreign_pattern. Qed.
Print Assumptions C09_no_foreign_pattern.

(* split and rng consumption of a reconstruct call do not depend on the batch size, so
   reconstruct(reset=True, batch_size=other) starts from and leaves the same generator state *)
Theorem C09_schedule_draws_indep_batch :
  forall n b1 b2 ratio random shuffle perm0 pps,
    option_map s_draws (recon_schedule n b1 ratio random shuffle perm0 pps)
    = option_map s_draws (recon_schedule n b2 ratio random shuffle perm0 pps) /\
    option_map s_split (recon_schedule n b1 ratio random shuffle perm0 pps)
    = option_map s_split (recon_schedule n b2 ratio random shuffle perm0 pps).
Proof. exact schedule_draws_indep_batch. Qed.
Print Assumptions C09_schedule_draws_indep_batch.

Theorem C09_schedule_val :
  forall b shuffle s pre pps,
    1 <= b ->
    concat (s_val (schedule_of_split b shuffle s pre pps)) = val s /\
    length (s_val (schedule_of_split b shuffle s pre pps)) = s_val_len (schedule_of_split b shuffle s pre pps) /\
    (s_val (schedule_of_split b shuffle s pre pps) = [] <-> has_validation s = false).
Proof. exact schedule_val. Qed.
Print Assumptions C09_schedule_val.

Theorem C09_explicit_split_epochs :
  forall tr va b order s,
    split_explicit (Some tr) (Some va) = inr (Some s) -> 1 <= b -> Permutation order tr ->
    train s = tr /\ val s = va /\ Permutation (concat (epoch b order)) tr /\ length (epoch b order) = batcher_len b s.
Proof. exact explicit_split_epochs. Qed.
Print Assumptions C09_explicit_split_epochs.

(* the split written over the separate glue functions is the split of the base model *)
Theorem C09_split_of_glue_eq :
  forall n ratio random perm, split_of_glue n ratio random perm = split_of_ratio n ratio random perm.
Proof. exact split_of_glue_eq. Qed.
Print Assumptions C09_split_of_glue_eq.

(* ---- loss algebra *)
(* EVERY batch size (non-dividing, larger than the set): the size-weighted mean of the per-batch
   losses is the full-batch loss *)
Theorem C09_weighted_mean_eq_full :
  forall (N : nat) (I : Q) (b : nat) (ls : list Q),
    1 <= b -> 1 <= N -> (weighted_mean_of_batch_losses N I b ls == batch_loss N I ls)%Q.
Proof. exact weighted_mean_eq_full. Qed.
Print Assumptions C09_weighted_mean_eq_full.

(* any family of batches of one common size (any order, e.g. the shuffled batches of an epoch) *)
Theorem C09_mean_over_equal_batches :
  forall (N : nat) (I : Q) (b : nat) (bs : list (list Q)),
    1 <= b -> 1 <= N -> 1 <= length bs -> (forall c, In c bs -> length c = b) ->
    (mean_over_batches N I bs == batch_loss N I (concat bs))%Q.
Proof. exact mean_over_equal_batches. Qed.
Print Assumptions C09_mean_over_equal_batches.

(* every gradient component *)
Theorem C09_batch_grad_mean_eq_full :
  forall (N : nat) (I : Q) (b m : nat) (gs : list (list Q)) (j : nat),
    1 <= b -> 1 <= m -> 1 <= N -> length gs = m * b ->
    (mean_of_batch_grads N I b gs j == batch_grad N I gs j)%Q.
Proof. exact batch_grad_mean_eq_full. Qed.
Print Assumptions C09_batch_grad_mean_eq_full.

(* a loss branch that is not divided by the batch fraction (error_estimate's "poisson" branch
   before fixes/C09-poisson-loss-batch-fraction.diff) gives 1/m of the full value, so the
   invariance statement fails for it *)
Theorem C09_unscaled_mean_factor :
  forall (I : Q) (b m : nat) (ls : list Q),
    1 <= b -> 1 <= m -> length ls = m * b ->
    (mean_of_unscaled_losses I b ls * qn m == unscaled_loss I ls)%Q.
Proof. exact unscaled_mean_factor. Qed.
Print Assumptions C09_unscaled_mean_factor.

Theorem C09_unscaled_batch_mean_refuted : ~ unscaled_batch_mean_statement.
Proof. exact unscaled_batch_mean_refuted. Qed.
Print Assumptions C09_unscaled_batch_mean_refuted.

Theorem C09_plain_mean_needs_divisor :
  exists N I b ls, 1 <= b /\ 1 <= N /\ ~ (mean_of_batch_losses N I b ls == batch_loss N I ls)%Q.
Proof. exact plain_mean_needs_divisor. Qed.
Print Assumptions C09_plain_mean_needs_divisor.

(* ---- reset_recon, field by field *)
Theorem C09_reset_recon_restores :
  forall (P O L S : Type) (c : cfg P O) (dev : nat) (sd : Z) (tok : nat)
         (steps : list (fields P O L S -> fields P O L S)),
    Forall keeps_seed steps ->
    reset_recon c tok (fold_left (fun f s => s f) steps (fresh c dev sd)) = fresh c dev sd.
Proof. exact reset_recon_restores. Qed.
Print Assumptions C09_reset_recon_restores.

Theorem C09_reset_recon_idempotent :
  forall (P O L S : Type) (c : cfg P O) (tok tok' : nat) (f : fields P O L S),
    r_seed (f_rng f) <> None -> reset_recon c tok' (reset_recon c tok f) = reset_recon c tok f.
Proof. exact reset_recon_idempotent. Qed.
Print Assumptions C09_reset_recon_idempotent.

(* ---------------------------------------------------------------- non-vacuity (extension) *)
Example C09_nonvacuous_rng :
  let ops := [ONp 12; OTorch 3; OToDev 1; ONp 9; OReset; ONp 9] in
  no_set ops /\
  show_rng (run_rng 1 ops (init_rng 0 0 (ArgInt 4294967303)))
  = (Some 4294967303, (0, 4294967303), [9], Some 7, [], 1)%Z /\
  draws_rng 1 [ONp 9; ONp 9] (init_rng 0 0 (ArgInt 7)) = [DNp (SSeed 7) [] 9; DNp (SSeed 7) [9] 9].
Proof. split; [repeat constructor | split; vm_compute; reflexivity]. Qed.

Example C09_nonvacuous_schedule :
  exists sc, recon_schedule 8 (Some 3) 0x1p-2%float true true [5; 2; 7; 0; 1; 3; 4; 6] [[5; 4; 3; 2; 1; 0]; [0; 2; 4; 1; 3; 5]] = Some sc
    /\ val (s_split sc) = [5; 2] /\ train (s_split sc) = [0; 1; 3; 4; 6; 7]
    /\ s_epochs sc = [[[7; 6; 4]; [3; 1; 0]]; [[0; 3; 6]; [1; 4; 7]]]
    /\ s_val sc = [[5; 2]] /\ s_draws sc = [8; 6; 6] /\ s_len sc = 2 /\ s_val_len sc = 1.
Proof. eexists. repeat split; vm_compute; reflexivity. Qed.

Example C09_nonvacuous_weighted :
  (weighted_mean_of_batch_losses 5 (2#1) 2 [1#1; 2#1; 3#1; 4#1; 11#2] == batch_loss 5 (2#1) [1#1; 2#1; 3#1; 4#1; 11#2])%Q
  /\ ~ (mean_of_batch_losses 5 (2#1) 2 [1#1; 2#1; 3#1; 4#1; 11#2] == batch_loss 5 (2#1) [1#1; 2#1; 3#1; 4#1; 11#2])%Q.
Proof. split; [vm_compute; reflexivity | intros H; vm_compute in H; discriminate H]. Qed.

Example C09_nonvacuous_grad :
  (mean_of_batch_grads 4 (1#1) 2 [[1#1; 5#1]; [2#1; 6#1]; [3#1; 7#1]; [4#1; 9#1]] 1
   == batch_grad 4 (1#1) [[1#1; 5#1]; [2#1; 6#1]; [3#1; 7#1]; [4#1; 9#1]] 1)%Q
  /\ (batch_grad 4 (1#1) [[1#1; 5#1]; [2#1; 6#1]; [3#1; 7#1]; [4#1; 9#1]] 1 == 27#1)%Q.
Proof. split; vm_compute; reflexivity. Qed.

(* an iteration that changes every field (but keeps the seed) is undone by reset_recon *)
Example C09_nonvacuous_reset_fields :
  let c := {| c_obj0 := 1%Z; c_probe0 := 2%Z; c_dset0 := 3%Z; c_prop := Z.add; c_opt0 := 0%Z; c_constraints0 := 0 |} in
  let step (f : fields Z Z Z Z) :=
      {| f_rng := draw_torch 4 (draw_np 12 (f_rng f)); f_obj := (f_obj f + 1)%Z; f_probe := (f_probe f * 2)%Z; f_dset := 0%Z;
         f_propagators := 9%Z; f_obj_constraints := 5; f_opt := (f_opt f + 1)%Z;
         f_iter_losses := f_iter_losses f ++ [7%Z]; f_iter_val_losses := f_iter_val_losses f ++ [8%Z];
         f_iter_recon_types := 1 :: f_iter_recon_types f; f_iter_lrs := [(0, [])]; f_snapshots := [1%Z] |} in
  keeps_seed step /\
  fold_left (fun f s => s f) [step; step] (fresh c 0 42) <> fresh c 0 42 /\
  reset_recon c 5 (fold_left (fun f s => s f) [step; step] (fresh c 0 42)) = fresh c 0 42.
Proof.
  cbv zeta. split; [intros f; split; reflexivity|]. split; [|vm_compute; reflexivity].
  intros H. apply (f_equal (@f_obj _ _ _ _)) in H. vm_compute in H. discriminate H.
Qed.

(* ---------------------------------------------------------------- round 7: additive regulariser *)
(* the loss of one mini-batch is error_estimate(batch) + soft constraints (object TV / surface-zero,
   probe TV, descan TV — a term that depends on the parameters only): the batch-invariance clause
   for the TOTAL loss and gradient, for every regulariser value *)
From QV.model Require Import C09_Model_Reg.
From QV.proof Require Import C09_Proofs_Reg.

Theorem C09_reg_batch_mean_eq_full :
  forall (N : nat) (I r : Q) (b : nat) (bs : list (list Q)),
    1 <= b -> 1 <= N -> 1 <= length bs -> (forall c, In c bs -> length c = b) ->
    (mean_over_reg_batches N I r bs == reg_batch_loss N I r (concat bs))%Q.
Proof. exact mean_over_reg_batches_eq_full. Qed.
Print Assumptions C09_reg_batch_mean_eq_full.

Theorem C09_reg_batch_grad_mean_eq_full :
  forall (N : nat) (I : Q) (rg : list Q) (b : nat) (bss : list (list (list Q))) (j : nat),
    1 <= b -> 1 <= N -> 1 <= length bss -> (forall gs, In gs bss -> length gs = b) ->
    (mean_over_reg_batch_grads N I rg bss j == reg_batch_grad N I rg (concat bss) j)%Q.
Proof. exact mean_over_reg_batch_grads_eq_full. Qed.
Print Assumptions C09_reg_batch_grad_mean_eq_full.

(* a regulariser weighted by the batch share len(batch)/N is counted 1/m times in the epoch mean,
   so the invariance statement fails for it *)
Theorem C09_frac_reg_mean_factor :
  forall (I r : Q) (b m : nat) (bs : list (list Q)),
    1 <= b -> 1 <= m -> length bs = m -> (forall c, In c bs -> length c = b) ->
    (mean_over_frac_reg_batches (m * b) I r bs == batch_loss (m * b) I (concat bs) + r / qn m)%Q.
Proof. exact frac_reg_mean_factor. Qed.
Print Assumptions C09_frac_reg_mean_factor.

Theorem C09_frac_reg_batch_mean_refuted : ~ frac_reg_batch_mean_statement.
Proof. exact frac_reg_batch_mean_refuted. Qed.
Print Assumptions C09_frac_reg_batch_mean_refuted.

Example C09_nonvacuous_reg :
  (mean_over_reg_batches 4 (2#1) (7#3) [[1#1; 2#1]; [4#1; 3#1]] == reg_batch_loss 4 (2#1) (7#3) [1#1; 2#1; 4#1; 3#1])%Q
  /\ (reg_batch_loss 4 (2#1) (7#3) [1#1; 2#1; 4#1; 3#1] == 22#3)%Q
  /\ (mean_over_frac_reg_batches 4 (2#1) (7#3) [[1#1; 2#1]; [4#1; 3#1]] == 37#6)%Q
  /\ (mean_over_reg_batch_grads 4 (1#1) [1#2; 1#3] [[[1#1; 5#1]; [2#1; 6#1]]; [[3#1; 7#1]; [4#1; 9#1]]] 1
      == reg_batch_grad 4 (1#1) [1#2; 1#3] [[1#1; 5#1]; [2#1; 6#1]; [3#1; 7#1]; [4#1; 9#1]] 1)%Q.
Proof. repeat split; vm_compute; reflexivity. Qed.
