(* C15 — Drift correction starts from an exact, shape-independent resampling geometry.
   This file contains ONLY the property theorems (closed by `exact`), their assumption
   reports, and non-vacuity examples.  Model: model/C15_Model.v (exact Q arithmetic; the scan
   direction is the abstract pair (s, c) = (sin(-theta), cos(-theta)); the one-knot branch of
   transform_rows is modelled as repaired by fixes/C15-one-knot-rows.diff). *)
From QV.lib Require Import Prelude.
From QV.model Require Import C15_Model.
From QV.proof Require Import C15_Proofs.
From Coq Require Import QArith Qround.
Local Open Scope Q_scope.

(* pixel (r, col) of an H x W image lands at the canvas centre plus (col - (W-1)/2) * fast +
   (r - (H-1)/2) * slow — for every image shape, every canvas (padding fraction), every scan
   direction (s, c) and 1, 2, 3 or 4 knots per scan line *)
Theorem C15_coords_exact :
  forall (rows cols : Z) (H W K : nat) (s c : Q) (r col : nat),
    (1 <= K <= 4)%nat -> (r < H)%nat -> (col < W)%nat ->
    fst (transform_coordinates W K s c (init_knot rows cols H W K s c) r col)
      == (inject_Z rows - 1) / 2 + (qn col - (qn W - 1) / 2) * s + (qn r - (qn H - 1) / 2) * c
    /\
    snd (transform_coordinates W K s c (init_knot rows cols H W K s c) r col)
      == (inject_Z cols - 1) / 2 + (qn col - (qn W - 1) / 2) * c + (qn r - (qn H - 1) / 2) * - s.
Proof. exact coords_exact. Qed.
Print Assumptions C15_coords_exact.

(* straight scan lines described by K or K' knots give identical coordinates *)
Theorem C15_knots_agree :
  forall (rows cols : Z) (H W K K' : nat) (s c : Q) (r col : nat),
    (1 <= K <= 4)%nat -> (1 <= K' <= 4)%nat -> (r < H)%nat -> (col < W)%nat ->
    fst (transform_coordinates W K s c (init_knot rows cols H W K s c) r col)
      == fst (transform_coordinates W K' s c (init_knot rows cols H W K' s c) r col) /\
    snd (transform_coordinates W K s c (init_knot rows cols H W K s c) r col)
      == snd (transform_coordinates W K' s c (init_knot rows cols H W K' s c) r col).
Proof. exact knots_agree. Qed.
Print Assumptions C15_knots_agree.

(* every pixel, wherever it lands (inside the canvas, wrapped, on or off the grid), spreads
   four non-negative weights that add up to one, at indices inside the canvas *)
Theorem C15_splat_unit_weight :
  forall (rows cols : Z) (p : vec),
    qsum (map snd (splat rows cols p)) == 1 /\
    (forall iw, In iw (splat rows cols p) -> 0 <= snd iw) /\
    ((0 < rows)%Z -> (0 < cols)%Z ->
     forall iw, In iw (splat rows cols p) -> (0 <= fst iw < rows * cols)%Z).
Proof.
  exact (fun rows cols p =>
           conj (splat_weights_sum rows cols p)
                (conj (splat_weights_nonneg rows cols p)
                      (fun Hr Hc iw => splat_index_range rows cols p iw Hr Hc))).
Qed.
Print Assumptions C15_splat_unit_weight.

(* hence the weight map (pix_count before the sum-preserving Gaussian filter) of ANY point
   list sums to the number of points, has rows*cols entries and no negative entry *)
Theorem C15_weight_map_total :
  forall (rows cols : Z) (pts : list vec),
    (0 < rows)%Z -> (0 < cols)%Z ->
    qsum (weight_map rows cols pts) == qn (length pts) /\
    length (weight_map rows cols pts) = Z.to_nat (rows * cols) /\
    (forall w, In w (weight_map rows cols pts) -> 0 <= w).
Proof.
  exact (fun rows cols pts Hr Hc =>
           conj (weight_map_total rows cols pts Hr Hc)
                (conj (weight_map_length rows cols pts) (weight_map_nonneg rows cols pts))).
Qed.
Print Assumptions C15_weight_map_total.

(* the weight map warp_image produces for an H x W image sums to H*W: for every knot count,
   every knot array (straight or curved lines), every canvas and scan direction *)
Theorem C15_warp_weights_total :
  forall (rows cols : Z) (H W K : nat) (s c : Q) (kn : knots_t),
    (0 < rows)%Z -> (0 < cols)%Z ->
    qsum (warp_weights rows cols H W K s c kn) == qn (H * W).
Proof. exact warp_weights_total. Qed.
Print Assumptions C15_warp_weights_total.

(* zero measured shifts (what the estimator of C13 must return for identical warped images)
   are a fixed point of align_translation: no knot of any image moves — for every stack size,
   with or without a minimum-shift threshold *)
Theorem C15_translation_fixed_point :
  forall (n : nat) (min_image_shift : option Q) (shifts : nat -> vec) (kn : nat -> knots_t)
         (i r j : nat),
    (i < n)%nat ->
    (forall k, (1 <= k < n)%nat -> fst (shifts k) == 0 /\ snd (shifts k) == 0) ->
    fst (align_translation_knots n min_image_shift shifts kn i r j) == fst (kn i r j) /\
    snd (align_translation_knots n min_image_shift shifts kn i r j) == snd (kn i r j).
Proof. exact translation_fixed_point. Qed.
Print Assumptions C15_translation_fixed_point.

(* moving all knots of an image by d moves every pixel coordinate by exactly d (arbitrary,
   also curved, knot arrays): translation alignment acts on the geometry as a pure shift *)
Theorem C15_translation_equivariant :
  forall (W K : nat) (s c : Q) (kn : knots_t) (d : vec) (r col : nat),
    (1 <= K <= 4)%nat ->
    fst (transform_coordinates W K s c (fun r j => vadd (kn r j) d) r col)
      == fst (transform_coordinates W K s c kn r col) + fst d /\
    snd (transform_coordinates W K s c (fun r j => vadd (kn r j) d) r col)
      == snd (transform_coordinates W K s c kn r col) + snd d.
Proof. exact translation_equivariant. Qed.
Print Assumptions C15_translation_equivariant.

(* the applied (mean-removed) shifts of a stack add up to zero *)
Theorem C15_applied_shifts_sum_zero :
  forall (n : nat) (shifts : nat -> vec),
    (1 <= n)%nat ->
    qsum (map (fun i => fst (applied_shift n None shifts i)) (seq 0 n)) == 0 /\
    qsum (map (fun i => snd (applied_shift n None shifts i)) (seq 0 n)) == 0.
Proof. exact applied_shifts_sum_zero. Qed.
Print Assumptions C15_applied_shifts_sum_zero.

(* the one-knot line AS WRITTEN in the pinned commit (row coordinate scaled by
   input_shape[0]-1): its row error is u * s * (H - W) — zero only for square images or a fast
   axis without row component — and a concrete 10 x 16 image at 90 degrees is 6 rows off *)
Theorem C15_one_knot_asis_error :
  forall (rows cols : Z) (H W : nat) (s c : Q) (r col : nat),
    (r < H)%nat -> (col < W)%nat ->
    fst (transform_coordinates_1knot_asis H W s c (init_knot rows cols H W 1 s c) r col)
    - fst (expected_coordinate rows cols H W s c r col)
    == u_param W col * s * (qn H - qn W).
Proof. exact one_knot_asis_error. Qed.
Print Assumptions C15_one_knot_asis_error.

Theorem C15_one_knot_asis_refuted :
  exists (rows cols : Z) (H W : nat) (s c : Q) (r col : nat),
    (r < H)%nat /\ (col < W)%nat /\
    fst (transform_coordinates_1knot_asis H W s c (init_knot rows cols H W 1 s c) r col)
    - fst (expected_coordinate rows cols H W s c r col) == 6.
Proof. exact one_knot_asis_refuted. Qed.
Print Assumptions C15_one_knot_asis_refuted.

(* ------------------------------------------------------------------ non-vacuity *)
(* 10 x 16 image, 90 degrees, 12 x 20 canvas, 3 knots: the last pixel of the first scan line *)
Example C15_nonvacuous_coords :
  (1 <= 3 <= 4)%nat /\ (0 < 10)%nat /\ (15 < 16)%nat /\
  fst (transform_coordinates 16 3 (-1) 0 (init_knot 12 20 10 16 3 (-1) 0) 0 15) == -2 /\
  snd (transform_coordinates 16 3 (-1) 0 (init_knot 12 20 10 16 3 (-1) 0) 0 15) == 5.
Proof. split; [lia|]. split; [lia|]. split; [lia|]. split; vm_compute; reflexivity. Qed.

(* a 3-4-5 direction (s, c) = (-3/5, 4/5), non-square odd x even image, 1 and 4 knots agree
   on an off-grid position *)
Example C15_nonvacuous_knots_agree :
  fst (transform_coordinates 4 1 (-3#5) (4#5) (init_knot 4 6 3 4 1 (-3#5) (4#5)) 2 3) == 7 # 5 /\
  fst (transform_coordinates 4 4 (-3#5) (4#5) (init_knot 4 6 3 4 4 (-3#5) (4#5)) 2 3) == 7 # 5 /\
  snd (transform_coordinates 4 4 (-3#5) (4#5) (init_knot 4 6 3 4 4 (-3#5) (4#5)) 2 3) == 43 # 10.
Proof. split; [|split]; vm_compute; reflexivity. Qed.

(* a point off the grid and one that wraps around the canvas edge: non-trivial weights *)
Example C15_nonvacuous_weight_map :
  (0 < 3)%Z /\ (0 < 3)%Z /\
  map Qred (weight_map 3 3 [(1 # 2, 1 # 4); (5 # 2, -1 # 4)])
  = [3 # 4; 1 # 8; 1 # 8;  3 # 8; 1 # 8; 0;  3 # 8; 0; 1 # 8]%Q /\
  qsum (weight_map 3 3 [(1 # 2, 1 # 4); (5 # 2, -1 # 4)]) == 2.
Proof. split; [lia|]. split; [lia|]. split; vm_compute; reflexivity. Qed.

(* the hypothesis of the fixed-point theorem is satisfiable, and it is needed: the (0.5, 0.5)
   shift that the defective estimator reports for two identical images moves the knots of
   image 0 by a quarter pixel *)
Example C15_nonvacuous_fixed_point :
  (forall k, (1 <= k < 3)%nat -> fst ((fun _ : nat => (0, 0)) k) == 0 /\ snd ((fun _ : nat => (0, 0)) k) == 0) /\
  fst (align_translation_knots 2 None (fun _ => (1 # 2, 1 # 2)) (fun _ _ _ => (5, 7)) 0%nat 0%nat 0%nat) == 19 # 4 /\
  fst (align_translation_knots 2 None (fun _ => (1 # 2, 1 # 2)) (fun _ _ _ => (5, 7)) 1%nat 0%nat 0%nat) == 21 # 4.
Proof.
  split; [intros k _; split; reflexivity|]. split; vm_compute; reflexivity.
Qed.

(* canvas shape of preprocess: 10 x 16 image, pad_fraction 1/4 -> 12 x 20 (round half to even) *)
Example C15_canvas_dim_example :
  canvas_dim 10 (1 # 4) = 12%Z /\ canvas_dim 16 (1 # 4) = 20%Z /\ canvas_dim 1 (1 # 4) = 2%Z /\
  canvas_dim 4 (1 # 4) = 4%Z /\ canvas_dim 12 (1 # 4) = 16%Z.
Proof. vm_compute. repeat split. Qed.
