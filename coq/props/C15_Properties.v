(* C15 — Drift correction starts from an exact, shape-independent resampling geometry.
   This file contains ONLY the property theorems (closed by `exact`), their assumption
   reports, and non-vacuity examples.  Model: model/C15_Model.v (exact Q arithmetic; the scan
   direction is the abstract pair (s, c) = (sin(-theta), cos(-theta)); the one-knot branch of
   transform_rows is modelled as repaired by fixes/C15-one-knot-rows.diff). *)
From QV.lib Require Import Prelude.
From QV.model Require Import C15_Model.
From QV.proof Require Import C15_Proofs C15_Proofs_Ext C15_Proofs_KDE.
From QV.lib Require Import Chunks.
From Coq Require Import QArith Qround.
Local Open Scope Q_scope.

(* pixel (r, col) of an H x W image lands at the canvas centre plus (col - (W-1)/2) * fast +
   (r - (H-1)/2) * slow — for every image shape, every canvas (padding fraction), every scan
   direction (s, c) and 1, 2, 3 or 4 knots per scan line *)
Theorem C15_coords_exact :
  forall (rows cols : Z) (H W K : nat) (s c : Q) (r col : nat),
    (1 <= K <= 4)%nat -> (r < H)%nat -> (col < W)%nat ->
    fst (transform_coordinates W K s c (init_knot rows cols H W K s c) r col)
      == (inject_Z rows - 1) / 2 + (qn col - (qn W - 1) / 2) * s + (qn r - (qn H - 1) / 2) * c
    /\
    snd (transform_coordinates W K s c (init_knot rows cols H W K s c) r col)
      == (inject_Z cols - 1) / 2 + (qn col - (qn W - 1) / 2) * c + (qn r - (qn H - 1) / 2) * - s.
Proof. exact coords_exact. Qed.
Print Assumptions C15_coords_exact.

(* straight scan lines described by K or K' knots give identical coordinates *)
Theorem C15_knots_agree :
  forall (rows cols : Z) (H W K K' : nat) (s c : Q) (r col : nat),
    (1 <= K <= 4)%nat -> (1 <= K' <= 4)%nat -> (r < H)%nat -> (col < W)%nat ->
    fst (transform_coordinates W K s c (init_knot rows cols H W K s c) r col)
      == fst (transform_coordinates W K' s c (init_knot rows cols H W K' s c) r col) /\
    snd (transform_coordinates W K s c (init_knot rows cols H W K s c) r col)
      == snd (transform_coordinates W K' s c (init_knot rows cols H W K' s c) r col).
Proof. exact knots_agree. Qed.
Print Assumptions C15_knots_agree.

(* every pixel, wherever it lands (inside the canvas, wrapped, on or off the grid), spreads
   four non-negative weights that add up to one, at indices inside the canvas *)
Theorem C15_splat_unit_weight :
  forall (rows cols : Z) (p : vec),
    qsum (map snd (splat rows cols p)) == 1 /\
    (forall iw, In iw (splat rows cols p) -> 0 <= snd iw) /\
    ((0 < rows)%Z -> (0 < cols)%Z ->
     forall iw, In iw (splat rows cols p) -> (0 <= fst iw < rows * cols)%Z).
Proof.
  exact (fun rows cols p =>
           conj (splat_weights_sum rows cols p)
                (conj (splat_weights_nonneg rows cols p)
                      (fun Hr Hc iw => splat_index_range rows cols p iw Hr Hc))).
Qed.
Print Assumptions C15_splat_unit_weight.

(* hence the weight map (pix_count before the sum-preserving Gaussian filter) of ANY point
   list sums to the number of points, has rows*cols entries and no negative entry *)
Theorem C15_weight_map_total :
  forall (rows cols : Z) (pts : list vec),
    (0 < rows)%Z -> (0 < cols)%Z ->
    qsum (weight_map rows cols pts) == qn (length pts) /\
    length (weight_map rows cols pts) = Z.to_nat (rows * cols) /\
    (forall w, In w (weight_map rows cols pts) -> 0 <= w).
Proof.
  exact (fun rows cols pts Hr Hc =>
           conj (weight_map_total rows cols pts Hr Hc)
                (conj (weight_map_length rows cols pts) (weight_map_nonneg rows cols pts))).
Qed.
Print Assumptions C15_weight_map_total.

(* the weight map warp_image produces for an H x W image sums to H*W: for every knot count,
   every knot array (straight or curved lines), every canvas and scan direction *)
Theorem C15_warp_weights_total :
  forall (rows cols : Z) (H W K : nat) (s c : Q) (kn : knots_t),
    (0 < rows)%Z -> (0 < cols)%Z ->
    qsum (warp_weights rows cols H W K s c kn) == qn (H * W).
Proof. exact warp_weights_total. Qed.
Print Assumptions C15_warp_weights_total.

(* zero measured shifts (what the estimator of C13 must return for identical warped images)
   are a fixed point of align_translation: no knot of any image moves — for every stack size,
   with or without a minimum-shift threshold *)
Theorem C15_translation_fixed_point :
  forall (n : nat) (min_image_shift : option Q) (shifts : nat -> vec) (kn : nat -> knots_t)
         (i r j : nat),
    (i < n)%nat ->
    (forall k, (1 <= k < n)%nat -> fst (shifts k) == 0 /\ snd (shifts k) == 0) ->
    fst (align_translation_knots n min_image_shift shifts kn i r j) == fst (kn i r j) /\
    snd (align_translation_knots n min_image_shift shifts kn i r j) == snd (kn i r j).
Proof. exact translation_fixed_point. Qed.
Print Assumptions C15_translation_fixed_point.

(* moving all knots of an image by d moves every pixel coordinate by exactly d (arbitrary,
   also curved, knot arrays): translation alignment acts on the geometry as a pure shift *)
Theorem C15_translation_equivariant :
  forall (W K : nat) (s c : Q) (kn : knots_t) (d : vec) (r col : nat),
    (1 <= K <= 4)%nat ->
    fst (transform_coordinates W K s c (fun r j => vadd (kn r j) d) r col)
      == fst (transform_coordinates W K s c kn r col) + fst d /\
    snd (transform_coordinates W K s c (fun r j => vadd (kn r j) d) r col)
      == snd (transform_coordinates W K s c kn r col) + snd d.
Proof. exact translation_equivariant. Qed.
Print Assumptions C15_translation_equivariant.

(* the applied (mean-removed) shifts of a stack add up to zero *)
Theorem C15_applied_shifts_sum_zero :
  forall (n : nat) (shifts : nat -> vec),
    (1 <= n)%nat ->
    qsum (map (fun i => fst (applied_shift n None shifts i)) (seq 0 n)) == 0 /\
    qsum (map (fun i => snd (applied_shift n None shifts i)) (seq 0 n)) == 0.
Proof. exact applied_shifts_sum_zero. Qed.
Print Assumptions C15_applied_shifts_sum_zero.

(* the one-knot line AS WRITTEN in the pinned commit (row coordinate scaled by
   input_shape[0]-1): its row error is u * s * (H - W) — zero only for square images or a fast
   axis without row component — and a concrete 10 x 16 image at 90 degrees is 6 rows off *)
Theorem C15_one_knot_asis_error :
  forall (rows cols : Z) (H W : nat) (s c : Q) (r col : nat),
    (r < H)%nat -> (col < W)%nat ->
    fst (transform_coordinates_1knot_asis H W s c (init_knot rows cols H W 1 s c) r col)
    - fst (expected_coordinate rows cols H W s c r col)
    == u_param W col * s * (qn H - qn W).
Proof. exact one_knot_asis_error. Qed.
Print Assumptions C15_one_knot_asis_error.

Theorem C15_one_knot_asis_refuted :
  exists (rows cols : Z) (H W : nat) (s c : Q) (r col : nat),
    (r < H)%nat /\ (col < W)%nat /\
    fst (transform_coordinates_1knot_asis H W s c (init_knot rows cols H W 1 s c) r col)
    - fst (expected_coordinate rows cols H W s c r col) == 6.
Proof. exact one_knot_asis_refuted. Qed.
Print Assumptions C15_one_knot_asis_refuted.

(* ------------------------------------------------------------------ non-vacuity *)
(* 10 x 16 image, 90 degrees, 12 x 20 canvas, 3 knots: the last pixel of the first scan line *)
Example C15_nonvacuous_coords :
  (1 <= 3 <= 4)%nat /\ (0 < 10)%nat /\ (15 < 16)%nat /\
  fst (transform_coordinates 16 3 (-1) 0 (init_knot 12 20 10 16 3 (-1) 0) 0 15) == -2 /\
  snd (transform_coordinates 16 3 (-1) 0 (init_knot 12 20 10 16 3 (-1) 0) 0 15) == 5.
Proof. split; [lia|]. split; [lia|]. split; [lia|]. split; vm_compute; reflexivity. Qed.

(* a 3-4-5 direction (s, c) = (-3/5, 4/5), non-square odd x even image, 1 and 4 knots agree
   on an off-grid position *)
Example C15_nonvacuous_knots_agree :
  fst (transform_coordinates 4 1 (-3#5) (4#5) (init_knot 4 6 3 4 1 (-3#5) (4#5)) 2 3) == 7 # 5 /\
  fst (transform_coordinates 4 4 (-3#5) (4#5) (init_knot 4 6 3 4 4 (-3#5) (4#5)) 2 3) == 7 # 5 /\
  snd (transform_coordinates 4 4 (-3#5) (4#5) (init_knot 4 6 3 4 4 (-3#5) (4#5)) 2 3) == 43 # 10.
Proof. split; [|split]; vm_compute; reflexivity. Qed.

(* a point off the grid and one that wraps around the canvas edge: non-trivial weights *)
Example C15_nonvacuous_weight_map :
  (0 < 3)%Z /\ (0 < 3)%Z /\
  map Qred (weight_map 3 3 [(1 # 2, 1 # 4); (5 # 2, -1 # 4)])
  = [3 # 4; 1 # 8; 1 # 8;  3 # 8; 1 # 8; 0;  3 # 8; 0; 1 # 8]%Q /\
  qsum (weight_map 3 3 [(1 # 2, 1 # 4); (5 # 2, -1 # 4)]) == 2.
Proof. split; [lia|]. split; [lia|]. split; vm_compute; reflexivity. Qed.

(* the hypothesis of the fixed-point theorem is satisfiable, and it is needed: the (0.5, 0.5)
   shift that the defective estimator reports for two identical images moves the knots of
   image 0 by a quarter pixel *)
Example C15_nonvacuous_fixed_point :
  (forall k, (1 <= k < 3)%nat -> fst ((fun _ : nat => (0, 0)) k) == 0 /\ snd ((fun _ : nat => (0, 0)) k) == 0) /\
  fst (align_translation_knots 2 None (fun _ => (1 # 2, 1 # 2)) (fun _ _ _ => (5, 7)) 0%nat 0%nat 0%nat) == 19 # 4 /\
  fst (align_translation_knots 2 None (fun _ => (1 # 2, 1 # 2)) (fun _ _ _ => (5, 7)) 1%nat 0%nat 0%nat) == 21 # 4.
Proof.
  split; [intros k _; split; reflexivity|]. split; vm_compute; reflexivity.
Qed.

(* canvas shape of preprocess: 10 x 16 image, pad_fraction 1/4 -> 12 x 20 (round half to even) *)
Example C15_canvas_dim_example :
  canvas_dim 10 (1 # 4) = 12%Z /\ canvas_dim 16 (1 # 4) = 20%Z /\ canvas_dim 1 (1 # 4) = 2%Z /\
  canvas_dim 4 (1 # 4) = 4%Z /\ canvas_dim 12 (1 # 4) = 16%Z.
Proof. vm_compute. repeat split. Qed.

(* ====================================================================================== *)
(* Round-3 extension                                                                      *)
(* ====================================================================================== *)

(* NON-initial knot arrays: whenever the K >= 2 knots of scan line r lie on a straight line with
   uniform spacing (knot j at a + j/(K-1) * b, given pointwise up to ==), every pixel of the line is
   at a + u * b — 2 knots through the linear interpolant, 3 and 4 knots through the interpolating
   polynomial; a, b arbitrary (shifted, sheared, re-oriented lines) *)
Theorem C15_coords_straight_knots :
  forall (W K : nat) (s c : Q) (kn : knots_t) (a b : vec) (r col : nat),
    (2 <= K <= 4)%nat ->
    (forall j, (j < K)%nat ->
       fst (kn r j) == fst a + basis K j * fst b /\ snd (kn r j) == snd a + basis K j * snd b) ->
    fst (transform_coordinates W K s c kn r col) == fst a + u_param W col * fst b /\
    snd (transform_coordinates W K s c kn r col) == snd a + u_param W col * snd b.
Proof. exact coords_straight_knots_pointwise. Qed.
Print Assumptions C15_coords_straight_knots.

(* straight knot arrays with end-to-end vector (W-1) * scan_fast, starting anywhere (A r arbitrary
   per scan line): 1, 2, 3 and 4 knots give identical coordinates *)
Theorem C15_knots_agree_straight :
  forall (W K K' : nat) (s c : Q) (A : nat -> vec) (r col : nat),
    (1 <= K <= 4)%nat -> (1 <= K' <= 4)%nat ->
    fst (transform_coordinates W K s c
           (straight_knots K A (fun _ => vscale (qn W - 1) (scan_fast s c))) r col)
    == fst (transform_coordinates W K' s c
           (straight_knots K' A (fun _ => vscale (qn W - 1) (scan_fast s c))) r col) /\
    snd (transform_coordinates W K s c
           (straight_knots K A (fun _ => vscale (qn W - 1) (scan_fast s c))) r col)
    == snd (transform_coordinates W K' s c
           (straight_knots K' A (fun _ => vscale (qn W - 1) (scan_fast s c))) r col).
Proof. exact knots_agree_straight. Qed.
Print Assumptions C15_knots_agree_straight.

(* the knots preprocess places ARE such an array *)
Theorem C15_init_knot_straight :
  forall (rows cols : Z) (H W K : nat) (s c : Q) (r j : nat),
    (1 <= K <= 4)%nat -> (j < K)%nat ->
    fst (init_knot rows cols H W K s c r j)
    == fst (straight_knots K
         (fun r => ( fst (canvas_centre rows cols) - half_extent W * s
                       + linspace (- half_extent H) (half_extent H) H r * c,
                     snd (canvas_centre rows cols) - half_extent W * c
                       + linspace (- half_extent H) (half_extent H) H r * - s ))
         (fun _ => vscale (qn W - 1) (scan_fast s c)) r j) /\
    snd (init_knot rows cols H W K s c r j)
    == snd (straight_knots K
         (fun r => ( fst (canvas_centre rows cols) - half_extent W * s
                       + linspace (- half_extent H) (half_extent H) H r * c,
                     snd (canvas_centre rows cols) - half_extent W * c
                       + linspace (- half_extent H) (half_extent H) H r * - s ))
         (fun _ => vscale (qn W - 1) (scan_fast s c)) r j).
Proof. exact init_knot_straight. Qed.
Print Assumptions C15_init_knot_straight.

(* the geometry after align_translation displaced a fresh stack by d is the exact geometry plus d *)
Theorem C15_coords_after_translation :
  forall (rows cols : Z) (H W K : nat) (s c : Q) (d : vec) (r col : nat),
    (1 <= K <= 4)%nat -> (r < H)%nat -> (col < W)%nat ->
    fst (transform_coordinates W K s c (fun r j => vadd (init_knot rows cols H W K s c r j) d) r col)
    == fst (expected_coordinate rows cols H W s c r col) + fst d /\
    snd (transform_coordinates W K s c (fun r j => vadd (init_knot rows cols H W K s c r j) d) r col)
    == snd (expected_coordinate rows cols H W s c r col) + snd d.
Proof. exact coords_after_translation. Qed.
Print Assumptions C15_coords_after_translation.

(* (outside the property text, which names translation alignment only) the knot update of
   align_affine shears the exact geometry by (r - (H-1)/2) * dxy for every knot count *)
Theorem C15_coords_after_affine :
  forall (rows cols : Z) (H W K : nat) (s c : Q) (dxy : vec) (r col : nat),
    (1 <= K <= 4)%nat -> (r < H)%nat -> (col < W)%nat ->
    fst (transform_coordinates W K s c (affine_update_knots H dxy (init_knot rows cols H W K s c)) r col)
    == fst (expected_coordinate rows cols H W s c r col) + (qn r - half_extent H) * fst dxy /\
    snd (transform_coordinates W K s c (affine_update_knots H dxy (init_knot rows cols H W K s c)) r col)
    == snd (expected_coordinate rows cols H W s c r col) + (qn r - half_extent H) * snd dxy.
Proof. exact coords_after_affine. Qed.
Print Assumptions C15_coords_after_affine.

(* a displacement that depends on the scan line (arbitrary knots): every pixel of line r moves by d r *)
Theorem C15_displacement_equivariant :
  forall (W K : nat) (s c : Q) (kn : knots_t) (d : nat -> vec) (r col : nat),
    (1 <= K <= 4)%nat ->
    fst (transform_coordinates W K s c (fun r j => vadd (kn r j) (d r)) r col)
    == fst (transform_coordinates W K s c kn r col) + fst (d r) /\
    snd (transform_coordinates W K s c (fun r j => vadd (kn r j) (d r)) r col)
    == snd (transform_coordinates W K s c kn r col) + snd (d r).
Proof. exact displacement_equivariant. Qed.
Print Assumptions C15_displacement_equivariant.

(* "scan-direction ROTATION": the placement scales squared distances by s^2 + c^2, so it is an
   isometry exactly under the trigonometric oracle contract s^2 + c^2 = 1, and it sends the image
   centre to the canvas centre *)
Theorem C15_placement_isometry :
  forall (rows cols : Z) (H W : nat) (s c : Q) (r col r' col' : nat),
    s * s + c * c == 1 ->
    let p := expected_coordinate rows cols H W s c r col in
    let q := expected_coordinate rows cols H W s c r' col' in
    (fst p - fst q) * (fst p - fst q) + (snd p - snd q) * (snd p - snd q)
    == (qn r - qn r') * (qn r - qn r') + (qn col - qn col') * (qn col - qn col').
Proof. exact placement_isometry. Qed.
Print Assumptions C15_placement_isometry.

Theorem C15_placement_centre :
  forall (rows cols : Z) (H W : nat) (s c : Q),
    (1 <= H)%nat -> (1 <= W)%nat ->
    let e := expected_coordinate rows cols H W s c in
    fst (e 0 0)%nat + fst (e (H - 1) (W - 1))%nat == 2 * fst (canvas_centre rows cols) /\
    snd (e 0 0)%nat + snd (e (H - 1) (W - 1))%nat == 2 * snd (canvas_centre rows cols).
Proof. exact placement_centre. Qed.
Print Assumptions C15_placement_centre.

(* the canvas of preprocess is never empty inside the domain, so the weight-sum clause holds end to
   end (canvas from the pad fraction, initial knots, splat) without side conditions *)
Theorem C15_canvas_dim_pos :
  forall (n : nat) (pad : Q),
    ((2 <= n)%nat /\ 0 <= pad) \/ ((1 <= n)%nat /\ 0 < pad) -> (0 < canvas_dim n pad)%Z.
Proof. exact canvas_dim_pos. Qed.
Print Assumptions C15_canvas_dim_pos.

Theorem C15_preprocess_weights_total :
  forall (H W K : nat) (pad s c : Q),
    ((2 <= H)%nat /\ (2 <= W)%nat /\ 0 <= pad) \/ ((1 <= H)%nat /\ (1 <= W)%nat /\ 0 < pad) ->
    qsum (preprocess_weights H W K pad s c) == qn (H * W).
Proof. exact preprocess_weights_total. Qed.
Print Assumptions C15_preprocess_weights_total.

(* the wrapped flat index is the row-major index of (i mod rows, j mod cols) *)
Theorem C15_flat_index_unravel :
  forall (rows cols i j : Z),
    (0 < rows)%Z -> (0 < cols)%Z ->
    unravel cols (flat_index rows cols i j) = ((i mod rows)%Z, (j mod cols)%Z).
Proof. exact flat_index_unravel. Qed.
Print Assumptions C15_flat_index_unravel.

(* a pixel landing exactly on a grid point puts all its weight on that cell *)
Theorem C15_splat_on_grid :
  forall (rows cols x y : Z),
    Forall2 Qeq (map snd (splat rows cols (inject_Z x, inject_Z y))) [1; 0; 0; 0] /\
    fst (hd (0%Z, 0) (splat rows cols (inject_Z x, inject_Z y))) = flat_index rows cols x y.
Proof. exact splat_on_grid. Qed.
Print Assumptions C15_splat_on_grid.

(* warp_image(upsample_factor): coordinates scaled by `up`, canvas round(shape * up): still H*W *)
Theorem C15_warp_weights_up_total :
  forall (urows ucols : Z) (up : Q) (H W K : nat) (s c : Q) (kn : knots_t),
    (0 < urows)%Z -> (0 < ucols)%Z ->
    qsum (warp_weights_up urows ucols up H W K s c kn) == qn (H * W).
Proof. exact warp_weights_up_total. Qed.
Print Assumptions C15_warp_weights_up_total.

(* bilinear_kde(max_batch_size): accumulating batch by batch equals one pass, for every cutting of
   the point list into consecutive batches — in particular batches of at most b points *)
Theorem C15_cell_weight_batched_any :
  forall (rows cols : Z) (batches : list (list vec)) (k : Z),
    cell_weight_batched rows cols batches k == cell_weight (contributions rows cols (concat batches)) k.
Proof. exact cell_weight_batched_any. Qed.
Print Assumptions C15_cell_weight_batched_any.

Theorem C15_cell_weight_batched_chunks :
  forall (rows cols : Z) (b : nat) (pts : list vec) (k : Z),
    (1 <= b)%nat ->
    cell_weight_batched rows cols (chunks b pts) k == cell_weight (contributions rows cols pts) k.
Proof. exact cell_weight_batched_chunks. Qed.
Print Assumptions C15_cell_weight_batched_chunks.

(* the reference of the measuring loop is the arithmetic mean of the images merged so far, and does
   not change while identical images are merged *)
Theorem C15_ref_running_mean :
  forall (x0 : Q) (xs : list Q), ref_after x0 xs == qsum (x0 :: xs) / qn (S (length xs)).
Proof. exact ref_running_mean. Qed.
Print Assumptions C15_ref_running_mean.

Theorem C15_ref_identical_fixed :
  forall (x0 : Q) (xs : list Q), (forall x, In x xs -> x == x0) -> ref_after x0 xs == x0.
Proof. exact ref_identical_fixed. Qed.
Print Assumptions C15_ref_identical_fixed.

(* any number of align_translation passes that each measure zero shifts leave every knot in place *)
Theorem C15_translation_fixed_point_passes :
  forall (n : nat) (mis : option Q) (passes : list (nat -> vec)) (kn : nat -> knots_t) (i r j : nat),
    (i < n)%nat ->
    (forall sh, In sh passes -> forall k, (1 <= k < n)%nat -> fst (sh k) == 0 /\ snd (sh k) == 0) ->
    fst (align_passes n mis passes kn i r j) == fst (kn i r j) /\
    snd (align_passes n mis passes kn i r j) == snd (kn i r j).
Proof. exact translation_fixed_point_passes. Qed.
Print Assumptions C15_translation_fixed_point_passes.

(* stacks in which only the first m images are identical (zero measured shifts among them): these
   images move rigidly together — the same displacement for every knot of every one of them — with
   any threshold as long as the last image of the stack is not one of them; without a threshold the
   displacement is minus the mean measured shift, and applied shifts differ exactly by measured ones *)
Theorem C15_partial_identical_rigid :
  forall (n : nat) (mis : option Q) (shifts : nat -> vec) (kn : nat -> knots_t)
         (m i i' r j r' j' : nat),
    (forall k, (1 <= k < m)%nat -> fst (shifts k) == 0 /\ snd (shifts k) == 0) ->
    (i < m)%nat -> (i' < m)%nat ->
    mis = None \/ (m <= n - 1)%nat ->
    fst (align_translation_knots n mis shifts kn i r j) - fst (kn i r j)
    == fst (align_translation_knots n mis shifts kn i' r' j') - fst (kn i' r' j') /\
    snd (align_translation_knots n mis shifts kn i r j) - snd (kn i r j)
    == snd (align_translation_knots n mis shifts kn i' r' j') - snd (kn i' r' j').
Proof. exact partial_identical_rigid. Qed.
Print Assumptions C15_partial_identical_rigid.

Theorem C15_partial_identical_displacement :
  forall (n : nat) (shifts : nat -> vec) (kn : nat -> knots_t) (m i r j : nat),
    (forall k, (1 <= k < m)%nat -> fst (shifts k) == 0 /\ snd (shifts k) == 0) ->
    (i < m)%nat ->
    fst (align_translation_knots n None shifts kn i r j) - fst (kn i r j)
    == - fst (mean_shift n (measured shifts)) /\
    snd (align_translation_knots n None shifts kn i r j) - snd (kn i r j)
    == - snd (mean_shift n (measured shifts)).
Proof. exact partial_identical_displacement. Qed.
Print Assumptions C15_partial_identical_displacement.

Theorem C15_applied_shift_difference :
  forall (n : nat) (shifts : nat -> vec) (i j : nat),
    fst (applied_shift n None shifts i) - fst (applied_shift n None shifts j)
    == fst (measured shifts i) - fst (measured shifts j) /\
    snd (applied_shift n None shifts i) - snd (applied_shift n None shifts j)
    == snd (measured shifts i) - snd (measured shifts j).
Proof. exact applied_shift_difference. Qed.
Print Assumptions C15_applied_shift_difference.

(* ------------------------------------------------------------------ non-vacuity (round 3) *)
(* a sheared, shifted, NON-initial straight knot array with 4 knots on a 5-pixel line: knot j at
   (2, 1) + j/3 * (3, -6); pixel 3 (u = 3/4) sits at (2 + 9/4, 1 - 9/2) *)
Example C15_nonvacuous_straight_knots :
  (2 <= 4 <= 4)%nat /\
  (forall j, (j < 4)%nat ->
     fst ((fun (_ j : nat) => (2 + basis 4 j * 3, 1 + basis 4 j * -6)) 0%nat j) == 2 + basis 4 j * 3 /\
     snd ((fun (_ j : nat) => (2 + basis 4 j * 3, 1 + basis 4 j * -6)) 0%nat j) == 1 + basis 4 j * -6) /\
  fst (transform_coordinates 5 4 0 1 (fun _ j => (2 + basis 4 j * 3, 1 + basis 4 j * -6)) 0 3) == 17 # 4 /\
  snd (transform_coordinates 5 4 0 1 (fun _ j => (2 + basis 4 j * 3, 1 + basis 4 j * -6)) 0 3) == -7 # 2.
Proof.
  split; [lia|]. split; [intros j _; split; reflexivity|]. split; vm_compute; reflexivity.
Qed.

(* a CURVED 3-knot line is not affine: the hypothesis of C15_coords_straight_knots matters *)
Example C15_nonvacuous_curved_knots :
  fst (transform_coordinates 5 3 0 1 (fun _ j => (match j with 1%nat => 1 | _ => 0 end, 0)) 0 1) == 3 # 4.
Proof. vm_compute. reflexivity. Qed.

(* (3/5, 4/5) is a rational unit vector: the isometry hypothesis is satisfiable *)
Example C15_nonvacuous_isometry : (3 # 5) * (3 # 5) + (4 # 5) * (4 # 5) == 1.
Proof. vm_compute. reflexivity. Qed.

(* canvas positivity: the excluded input really is degenerate, and 5 rows with no padding give a
   4-row canvas (round half to even) — smaller than the image, the splat wraps and still sums *)
Example C15_nonvacuous_canvas :
  canvas_dim 1 0 = 0%Z /\ canvas_dim 5 0 = 4%Z /\ canvas_dim 2 0 = 2%Z /\ canvas_dim 1 (1 # 100) = 2%Z /\
  qsum (preprocess_weights 5 2 3 0 (3 # 5) (4 # 5)) == 10.
Proof. repeat split; vm_compute; reflexivity. Qed.

(* batching: 3 points in batches of 2 *)
Example C15_nonvacuous_batched :
  chunks 2 [(1 # 2, 1 # 4); (5 # 2, -1 # 4); (1 # 2, 1 # 4)] = [[(1 # 2, 1 # 4); (5 # 2, -1 # 4)]; [(1 # 2, 1 # 4)]] /\
  cell_weight_batched 3 3 (chunks 2 [(1 # 2, 1 # 4); (5 # 2, -1 # 4); (1 # 2, 1 # 4)]) 0 == 9 # 8.
Proof. split; vm_compute; reflexivity. Qed.

(* running reference: merging 4, 10 into 1 gives the mean 5; three equal values stay *)
Example C15_nonvacuous_ref :
  ref_after 1 [4; 10] == 5 /\ ref_after 7 [7; 7; 7] == 7.
Proof. split; vm_compute; reflexivity. Qed.

(* partly identical stack of 3 (images 0, 1 identical, image 2 shifted by (3, -6)): images 0 and 1
   both move by (-1, 2), image 2 by (2, -4) *)
Example C15_nonvacuous_partial :
  let sh := fun k : nat => match k with 2%nat => (3, -6) | _ => (0, 0) end in
  (forall k, (1 <= k < 2)%nat -> fst (sh k) == 0 /\ snd (sh k) == 0) /\
  fst (align_translation_knots 3 None sh (fun _ _ _ => (5, 7)) 0%nat 0%nat 0%nat) == 4 /\
  snd (align_translation_knots 3 None sh (fun _ _ _ => (5, 7)) 1%nat 0%nat 0%nat) == 9 /\
  fst (align_translation_knots 3 None sh (fun _ _ _ => (5, 7)) 2%nat 0%nat 0%nat) == 7.
Proof.
  cbv zeta. split.
  - intros k Hk. assert (k = 1%nat) by lia. subst k. split; reflexivity.
  - repeat split; vm_compute; reflexivity.
Qed.

(* ====================================================================================== *)
(* The Gaussian KDE after the splat (what warp_image RETURNS)                             *)
(* ====================================================================================== *)

(* correlation with ANY symmetric kernel (centre k0, weights ks at distance 1..R, every radius R — also
   larger than the signal) under half-sample reflection multiplies the sum of the signal by the kernel
   mass k0 + 2 (k1 + ... + kR); a normalised kernel therefore preserves it *)
Theorem C15_sym_filter_total :
  forall (n : nat) (x : nat -> Q) (k0 : Q) (ks : list Q),
    (1 <= n)%nat ->
    fsum n (sym_filter k0 ks n x) == kernel_mass k0 ks * fsum n x.
Proof. exact (fun n x k0 ks Hn => sym_filter_total n x Hn k0 ks). Qed.
Print Assumptions C15_sym_filter_total.

(* two dimensions: axis 0 then axis 1 *)
Theorem C15_kde2_total :
  forall (k0 : Q) (ks : list Q) (k0' : Q) (ks' : list Q) (R C : nat) (a : nat -> nat -> Q),
    (1 <= R)%nat -> (1 <= C)%nat ->
    total2 R C (kde2 k0 ks k0' ks' R C a) == kernel_mass k0' ks' * (kernel_mass k0 ks * total2 R C a).
Proof. exact kde2_total. Qed.
Print Assumptions C15_kde2_total.

(* the weight map AFTER the KDE sums to the number of points, for every normalised symmetric kernel
   (i.e. every kde_sigma and truncation radius), every canvas and every point list — under the oracle
   contract that scipy.ndimage.gaussian_filter(mode="reflect") is this filter *)
Theorem C15_kde_weights_total :
  forall (k0 : Q) (ks : list Q) (rows cols : Z) (pts : list vec),
    (0 < rows)%Z -> (0 < cols)%Z -> kernel_mass k0 ks == 1 ->
    total2 (Z.to_nat rows) (Z.to_nat cols) (kde_weights k0 ks rows cols pts) == qn (length pts).
Proof. exact kde_weights_total. Qed.
Print Assumptions C15_kde_weights_total.

(* a kernel wider than the 3-sample signal (radius 4), asymmetric data: the sum 1+2+4 is preserved
   while the samples themselves change *)
Example C15_nonvacuous_kde :
  let x := fun i : nat => match i with 0%nat => 1 | 1%nat => 2 | _ => 4 end in
  kernel_mass (1 # 3) [1 # 6; 1 # 12; 1 # 24; 1 # 24] == 1 /\
  map (fun i => Qred (sym_filter (1 # 3) [1 # 6; 1 # 12; 1 # 24; 1 # 24] 3 x i)) [0; 1; 2]%nat
  = [23 # 12; 55 # 24; 67 # 24] /\
  fsum 3 (sym_filter (1 # 3) [1 # 6; 1 # 12; 1 # 24; 1 # 24] 3 x) == 7.
Proof. cbv zeta. split; [|split]; vm_compute; reflexivity. Qed.
