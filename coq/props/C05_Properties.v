(* C05 — Checkpoint / resume equivalence for iterative ptychography (save, reload, clone).
   PARTIAL claim: the reconstruction STATE MACHINE is proved here (parameter cells on a heap,
   optimisers holding references to cells + per-parameter state, schedulers referring to their
   optimiser, histories; one iteration reads/writes exactly the fields of `view`); the
   numerical kernels (forward/loss/backward, the optimiser update rule, the scheduler rule)
   are the universally quantified functions `forward`, `opt_update`, `sched_init`, `sched_step`.
   The numerical resume equivalence of the real library is validated by differential runs in
   harness/props/C05.py, not proved.
   This file contains ONLY the property theorems (closed by `exact`), their assumption
   reports, and non-vacuity examples. *)
From QV.lib Require Import Prelude.
From QV.model Require Import C05_Model.
From QV.proof Require Import C05_Proofs C05_Proofs_Written C05_Proofs_Meta C05_Proofs_Hist.

(* T1 binding invariant.  In EVERY state reachable from a freshly built reconstruction by any
   history of set_optimizer(+scheduler) / remove_optimizer / set constraints / iteration /
   .to(device) / save / save+from_file(with or without device) / clone / clone through the
   serialise fallback / reloading one model that was saved on its own (optimiser pickled apart
   from the module) — with either re-keying of reconnect_optimizer_to_parameters — every
   optimiser's parameter references ARE its model's parameter cells, every scheduler refers to
   its model's optimiser, and distinct models own distinct cells, optimisers and schedulers. *)
Theorem C05_binding_inv :
  forall (V G M L R C SS : Type) (Rzero : R)
         (forward : list (list (option V) * C) -> L * list (list (option G)))
         (opt_update : opt_kind -> R -> V -> G -> option (pstate M) -> V * option (pstate M))
         (sched_init : SS -> R -> SS * R) (sched_step : SS -> nat -> L -> R -> SS * R)
         (written : bool) (ops : list (op R C SS)) (spec : list (list V * C)),
    binding_inv (run_ops Rzero forward opt_update sched_init sched_step written ops
                         (init_st spec : st V M L R C SS)).
Proof. exact binding_inv_reachable. Qed.
Print Assumptions C05_binding_inv.

(* ... and it is an invariant of every single operation from ANY bound state *)
Theorem C05_binding_inv_step :
  forall (V G M L R C SS : Type) (Rzero : R)
         (forward : list (list (option V) * C) -> L * list (list (option G)))
         (opt_update : opt_kind -> R -> V -> G -> option (pstate M) -> V * option (pstate M))
         (sched_init : SS -> R -> SS * R) (sched_step : SS -> nat -> L -> R -> SS * R)
         (written : bool) (ops : list (op R C SS)) (s : st V M L R C SS),
    binding_inv s -> binding_inv (run_ops Rzero forward opt_update sched_init sched_step written ops s).
Proof. exact binding_inv_ops. Qed.
Print Assumptions C05_binding_inv_step.

(* unpickling alone (optimiser and scheduler in blobs of their own) does NOT give the binding
   invariant, only `loaded_inv`; .to(device) + reconnect establishes it from there *)
Theorem C05_reconnect_establishes_binding :
  forall (V M L R C SS : Type) (written : bool) (s : st V M L R C SS),
    loaded_inv s -> binding_inv (to_dev written s).
Proof. exact C05_Proofs_Reconnect.to_dev_binding. Qed.
Print Assumptions C05_reconnect_establishes_binding.

(* T2 frame condition.  save-then-load (any granularity, with or without device move) with the
   state re-keyed BY PARAMETER is the identity on the explicit list of fields an iteration
   reads: `view` = per model the parameter values through the model's references, the
   constraints, optimiser kind / lr / per-parameter state through the optimiser's references,
   scheduler last_epoch / internal state; and the two histories. *)
Theorem C05_frame_condition :
  forall (V M L R C SS : Type) (g : gran) (dev : bool) (s : st V M L R C SS),
    binding_inv s -> view_of (reload false g dev s) = view_of s.
Proof. exact view_reload. Qed.
Print Assumptions C05_frame_condition.

(* one heap-level iteration is a function of exactly those fields *)
Theorem C05_iteration_reads_view :
  forall (V G M L R C SS : Type) (Rzero : R)
         (forward : list (list (option V) * C) -> L * list (list (option G)))
         (opt_update : opt_kind -> R -> V -> G -> option (pstate M) -> V * option (pstate M))
         (sched_step : SS -> nat -> L -> R -> SS * R) (s : st V M L R C SS),
    binding_inv s ->
    view_of (iterate Rzero forward opt_update sched_step s)
    = step_view Rzero forward opt_update sched_step (view_of s).
Proof. exact C05_Proofs_Iter.view_iterate. Qed.
Print Assumptions C05_iteration_reads_view.

(* T2 resume equivalence, for every split point k of every run length n, every numerical
   kernel, every bound state: interrupting after k iterations by save + from_file and running
   the remaining n-k iterations is observationally the uninterrupted run (iteration count,
   loss history, lr history, constraints, parameter values). *)
Theorem C05_resume_equiv : resume_equiv_statement false.
Proof. exact resume_equiv_repaired. Qed.
Print Assumptions C05_resume_equiv.

(* the SAME statement for the positional re-keying of the pinned commit is false: when a
   leading parameter receives no gradient the optimiser state moves to the wrong parameter *)
Theorem C05_resume_equiv_as_written_refuted : ~ resume_equiv_statement true.
Proof. exact resume_equiv_as_written_refuted. Qed.
Print Assumptions C05_resume_equiv_as_written_refuted.

(* ... but the code AS WRITTEN does resume correctly (reloaded copy and saved original) on the
   domain where, at the interruption, the key order of every optimizer.state is the parameter
   order (`aligned`: true whenever every parameter has received a gradient) *)
Theorem C05_resume_equiv_as_written_aligned :
  forall (V G M L R C SS : Type) (Rzero : R)
         (forward : list (list (option V) * C) -> L * list (list (option G)))
         (opt_update : opt_kind -> R -> V -> G -> option (pstate M) -> V * option (pstate M))
         (sched_step : SS -> nat -> L -> R -> SS * R)
         (g : gran) (dev : bool) (k n : nat) (s : st V M L R C SS),
    binding_inv s -> aligned (run Rzero forward opt_update sched_step k s) -> rebinds g dev -> k <= n ->
    obs (run Rzero forward opt_update sched_step (n - k)
             (reload true g dev (run Rzero forward opt_update sched_step k s)))
    = obs (run Rzero forward opt_update sched_step n s) /\
    obs (run Rzero forward opt_update sched_step (n - k)
             (snd (save true g (run Rzero forward opt_update sched_step k s))))
    = obs (run Rzero forward opt_update sched_step n s).
Proof. exact resume_equiv_as_written. Qed.
Print Assumptions C05_resume_equiv_as_written_aligned.

(* the object that was saved continues as if save() had not been called (save moves it to the
   CPU and back: two reconnects) *)
Theorem C05_save_continue_equiv :
  forall (V G M L R C SS : Type) (Rzero : R)
         (forward : list (list (option V) * C) -> L * list (list (option G)))
         (opt_update : opt_kind -> R -> V -> G -> option (pstate M) -> V * option (pstate M))
         (sched_step : SS -> nat -> L -> R -> SS * R)
         (g : gran) (k n : nat) (s : st V M L R C SS),
    binding_inv s -> k <= n ->
    obs (run Rzero forward opt_update sched_step (n - k)
             (snd (save false g (run Rzero forward opt_update sched_step k s))))
    = obs (run Rzero forward opt_update sched_step n s).
Proof. exact save_continue_equiv. Qed.
Print Assumptions C05_save_continue_equiv.

(* T3 reported state: UNCONDITIONAL (no invariant, either re-keying, any granularity, with or
   without .to()): the reloaded reconstruction reports the same iteration count, losses,
   learning-rate history and constraints as the one that was saved *)
Theorem C05_reported_state_eq :
  forall (V M L R C SS : Type) (written : bool) (g : gran) (dev : bool) (s : st V M L R C SS),
    o_iters (obs (reload written g dev s)) = o_iters (obs s) /\
    o_losses (obs (reload written g dev s)) = o_losses (obs s) /\
    o_lrs (obs (reload written g dev s)) = o_lrs (obs s) /\
    o_cons (obs (reload written g dev s)) = o_cons (obs s).
Proof. exact reported_state_eq. Qed.
Print Assumptions C05_reported_state_eq.

(* ... and, from a bound state, the same parameter values (object, probe) and the same
   optimiser and scheduler state *)
Theorem C05_reported_state_full :
  forall (V M L R C SS : Type) (g : gran) (dev : bool) (s : st V M L R C SS),
    binding_inv s -> obs (reload false g dev s) = obs s /\ view_of (reload false g dev s) = view_of s.
Proof. exact reported_state_full. Qed.
Print Assumptions C05_reported_state_full.

(* T4 clone (deepcopy: sharing preserved) and clone through the serialise/reload fallback *)
Theorem C05_clone_equiv :
  forall (V G M L R C SS : Type) (Rzero : R)
         (forward : list (list (option V) * C) -> L * list (list (option G)))
         (opt_update : opt_kind -> R -> V -> G -> option (pstate M) -> V * option (pstate M))
         (sched_step : SS -> nat -> L -> R -> SS * R) (n : nat) (s : st V M L R C SS),
    binding_inv s ->
    obs (run Rzero forward opt_update sched_step n (clone false s)) = obs (run Rzero forward opt_update sched_step n s) /\
    obs (run Rzero forward opt_update sched_step n (clone_fallback false s)) = obs (run Rzero forward opt_update sched_step n s).
Proof. exact clone_equiv. Qed.
Print Assumptions C05_clone_equiv.

(* the clone shares no cell, optimiser or scheduler with the original *)
Theorem C05_clone_fresh :
  forall (V M L R C SS : Type) (written : bool) (s : st V M L R C SS),
    binding_inv s -> forall m, In m (models (rc (clone written s))) ->
    (forall p, In p (mparams m) -> hnext (hh s) <= p) /\
    (forall o, mopt m = Some o -> hnext (hh s) <= o) /\
    (forall x, msched m = Some x -> hnext (hh s) <= x).
Proof. exact clone_fresh. Qed.
Print Assumptions C05_clone_fresh.

(* ------------------------------------------------------------------ non-vacuity *)
(* the hypotheses are satisfiable by a non-trivial state: two models, three parameter cells,
   an Adam optimiser with a scheduler and an SGD optimiser, with a numerical kernel whose
   update depends on the optimiser state *)
Example C05_nonvacuous_binding_inv :
  binding_inv Witness.s0 /\ length (models (rc Witness.s0)) = 2 /\
  map (fun m => length (mparams m)) (models (rc Witness.s0)) = [2; 1] /\
  map (@mopt _) (models (rc Witness.s0)) = [Some 3; Some 5] /\
  map (@msched _) (models (rc Witness.s0)) = [Some 4; None].
Proof. split; [exact Witness.s0_binding_inv|]. vm_compute. repeat split. Qed.

(* the concrete run: 3 iterations, split after 1, reload through separate blobs + .to();
   the observation is non-trivial (3 losses, values moved, lr changed by the scheduler) *)
Example C05_nonvacuous_resume_equiv :
  obs (Witness.run Witness.mask_all 2 (reload false Split true (Witness.run Witness.mask_all 1 Witness.s0)))
  = obs (Witness.run Witness.mask_all 3 Witness.s0) /\
  o_iters (obs (Witness.run Witness.mask_all 3 Witness.s0)) = 3 /\
  o_vals (obs (Witness.run Witness.mask_all 3 Witness.s0)) <> o_vals (obs Witness.s0) /\
  o_lrs (obs (Witness.run Witness.mask_all 3 Witness.s0)) = [(0, [1; 3; 6]%Z); (1, [3; 3; 3]%Z)].
Proof. vm_compute. repeat split. discriminate. Qed.

(* without the reconnect the split granularity really is different (so `rebinds` is needed):
   the optimiser updates its own copies and the model's parameters stop moving *)
Example C05_nonvacuous_rebinds :
  obs (Witness.run Witness.mask_all 2 (reload false Split false (Witness.run Witness.mask_all 1 Witness.s0)))
  <> obs (Witness.run Witness.mask_all 3 Witness.s0).
Proof. vm_compute. discriminate. Qed.

(* the unused-parameter case: re-keying by parameter resumes correctly, positional does not *)
Example C05_nonvacuous_unused_parameter :
  obs (Witness.run Witness.mask_unused 1 (reload false Joint false (Witness.run Witness.mask_unused 1 Witness.s0)))
  = obs (Witness.run Witness.mask_unused 2 Witness.s0) /\
  obs (Witness.run Witness.mask_unused 1 (reload true Joint false (Witness.run Witness.mask_unused 1 Witness.s0)))
  <> obs (Witness.run Witness.mask_unused 2 Witness.s0).
Proof. vm_compute. split; [reflexivity|discriminate]. Qed.

Example C05_nonvacuous_clone_equiv :
  obs (Witness.run Witness.mask_all 2 (clone false (Witness.run Witness.mask_all 1 Witness.s0)))
  = obs (Witness.run Witness.mask_all 3 Witness.s0) /\
  forallb (fun m => forallb (fun p => Nat.leb (hnext (hh Witness.s0)) p) (mparams m))
          (models (rc (clone false Witness.s0))) = true.
Proof. vm_compute. split; reflexivity. Qed.

(* the `aligned` hypothesis is satisfiable after real iterations (every parameter receives a
   gradient), and the positional re-keying then resumes correctly *)
Example C05_nonvacuous_as_written_aligned :
  obs (Witness.run Witness.mask_all 2 (reload true Joint false (Witness.run Witness.mask_all 1 Witness.s0)))
  = obs (Witness.run Witness.mask_all 3 Witness.s0) /\
  map (fun m => match mopt m with
                | Some o => match ho (hh (Witness.run Witness.mask_all 1 Witness.s0)) o with
                            | Some ob => (map fst (ostate ob), oparams ob)
                            | None => ([], [])
                            end
                | None => ([], [])
                end) (models (rc (Witness.run Witness.mask_all 1 Witness.s0)))
  = [([0; 1], [0; 1]); ([], [2])].
Proof. vm_compute. split; reflexivity. Qed.

(* ================================================================== round 3 ================== *)
(* T5 SIMULATION of whole histories.  For ANY history of operations — set_optimizer(+scheduler),
   remove_optimizer, set constraints, iteration, .to(device), save, save+from_file, clone, clone
   through the fallback, reloading one model, save WITHOUT the raw data + from_file(path, dset=d) —
   from any bound state, the id-free view of the result is computed by a machine on views in which
   EVERY interruption (.to / save / save+from_file / clone / clone fallback / model reload) is the
   identity (vapply), configuration calls act on the named model only, an iteration is step_view
   and the data-less checkpoint is vattach. *)
Theorem C05_history_simulation :
  forall (V G M L R C SS : Type) (Rzero : R)
         (forward : list (list (option V) * C) -> L * list (list (option G)))
         (opt_update : opt_kind -> R -> V -> G -> option (pstate M) -> V * option (pstate M))
         (sched_init : SS -> R -> SS * R) (sched_step : SS -> nat -> L -> R -> SS * R)
         (ops : list (op R C SS)) (s : st V M L R C SS),
    binding_inv s ->
    view_of (run_ops Rzero forward opt_update sched_init sched_step false ops s)
    = vrun_ops Rzero forward opt_update sched_init sched_step ops (view_of s).
Proof. exact C05_Proofs_Hist.view_run_ops. Qed.
Print Assumptions C05_history_simulation.

(* hence: erase every interruption from any history — wherever it stands, however many stand in a
   row (save>load>save>load, clone of a clone, .to() between iterations) — and every field a later
   iteration reads, and everything a user observes, is unchanged *)
Theorem C05_interruptions_erasable :
  forall (V G M L R C SS : Type) (Rzero : R)
         (forward : list (list (option V) * C) -> L * list (list (option G)))
         (opt_update : opt_kind -> R -> V -> G -> option (pstate M) -> V * option (pstate M))
         (sched_init : SS -> R -> SS * R) (sched_step : SS -> nat -> L -> R -> SS * R)
         (ops : list (op R C SS)) (s : st V M L R C SS),
    binding_inv s ->
    view_of (run_ops Rzero forward opt_update sched_init sched_step false ops s)
    = view_of (run_ops Rzero forward opt_update sched_init sched_step false (erase ops) s) /\
    obs (run_ops Rzero forward opt_update sched_init sched_step false ops s)
    = obs (run_ops Rzero forward opt_update sched_init sched_step false (erase ops) s).
Proof. exact C05_Proofs_Hist.interruptions_erasable. Qed.
Print Assumptions C05_interruptions_erasable.

(* [run k; ANY list of interruptions; run m] is the uninterrupted run of k+m iterations, and the
   same with interruptions at two different points of the run *)
Theorem C05_multi_interrupt_equiv :
  forall (V G M L R C SS : Type) (Rzero : R)
         (forward : list (list (option V) * C) -> L * list (list (option G)))
         (opt_update : opt_kind -> R -> V -> G -> option (pstate M) -> V * option (pstate M))
         (sched_init : SS -> R -> SS * R) (sched_step : SS -> nat -> L -> R -> SS * R)
         (ints : list (op R C SS)) (k m : nat) (s : st V M L R C SS),
    binding_inv s -> forallb (@is_interrupt R C SS) ints = true ->
    obs (run Rzero forward opt_update sched_step m
             (run_ops Rzero forward opt_update sched_init sched_step false ints
                      (run Rzero forward opt_update sched_step k s)))
    = obs (run Rzero forward opt_update sched_step (k + m) s).
Proof. exact C05_Proofs_Hist.multi_interrupt_equiv. Qed.
Print Assumptions C05_multi_interrupt_equiv.

Theorem C05_two_point_interrupt_equiv :
  forall (V G M L R C SS : Type) (Rzero : R)
         (forward : list (list (option V) * C) -> L * list (list (option G)))
         (opt_update : opt_kind -> R -> V -> G -> option (pstate M) -> V * option (pstate M))
         (sched_init : SS -> R -> SS * R) (sched_step : SS -> nat -> L -> R -> SS * R)
         (ints1 ints2 : list (op R C SS)) (k1 k2 m : nat) (s : st V M L R C SS),
    binding_inv s -> forallb (@is_interrupt R C SS) ints1 = true -> forallb (@is_interrupt R C SS) ints2 = true ->
    obs (run Rzero forward opt_update sched_step m
          (run_ops Rzero forward opt_update sched_init sched_step false ints2
            (run Rzero forward opt_update sched_step k2
              (run_ops Rzero forward opt_update sched_init sched_step false ints1
                (run Rzero forward opt_update sched_step k1 s)))))
    = obs (run Rzero forward opt_update sched_step (k1 + k2 + m) s).
Proof. exact C05_Proofs_Hist.two_point_interrupt_equiv. Qed.
Print Assumptions C05_two_point_interrupt_equiv.

(* T6 NO HYPOTHESIS LEFT for the routes of Ptychography itself.  For every state reachable from a
   freshly built reconstruction by any history, every split k | m, with or without a device move:
   save+from_file, the object that was saved, clone() and clone() through the fallback all continue
   exactly like the uninterrupted run (the round-2 statements assumed `binding_inv s`, `rebinds g dev`
   and k <= n; here the invariant is discharged by T1, Ptychography.save pickles each model in ONE
   blob (Joint) so `rebinds` holds, and the run length is k + m) *)
Theorem C05_resume_equiv_reachable :
  forall (V G M L R C SS : Type) (Rzero : R)
         (forward : list (list (option V) * C) -> L * list (list (option G)))
         (opt_update : opt_kind -> R -> V -> G -> option (pstate M) -> V * option (pstate M))
         (sched_init : SS -> R -> SS * R) (sched_step : SS -> nat -> L -> R -> SS * R)
         (ops : list (op R C SS)) (spec : list (list V * C)) (dev : bool) (k m : nat),
    let s := run_ops Rzero forward opt_update sched_init sched_step false ops (init_st spec : st V M L R C SS) in
    obs (run Rzero forward opt_update sched_step m (reload false Joint dev (run Rzero forward opt_update sched_step k s)))
    = obs (run Rzero forward opt_update sched_step (k + m) s) /\
    obs (run Rzero forward opt_update sched_step m (snd (save false Joint (run Rzero forward opt_update sched_step k s))))
    = obs (run Rzero forward opt_update sched_step (k + m) s) /\
    obs (run Rzero forward opt_update sched_step m (clone false (run Rzero forward opt_update sched_step k s)))
    = obs (run Rzero forward opt_update sched_step (k + m) s) /\
    obs (run Rzero forward opt_update sched_step m (clone_fallback false (run Rzero forward opt_update sched_step k s)))
    = obs (run Rzero forward opt_update sched_step (k + m) s).
Proof. exact C05_Proofs_Hist.resume_equiv_reachable. Qed.
Print Assumptions C05_resume_equiv_reachable.

(* ... and what is REPORTED (iteration count, losses, lr history, constraints AND parameter values)
   by the reloaded object (any granularity, with or without device), the clone, the fallback clone
   and the object after .to() is what the original reports — no hypothesis *)
Theorem C05_reported_state_reachable :
  forall (V G M L R C SS : Type) (Rzero : R)
         (forward : list (list (option V) * C) -> L * list (list (option G)))
         (opt_update : opt_kind -> R -> V -> G -> option (pstate M) -> V * option (pstate M))
         (sched_init : SS -> R -> SS * R) (sched_step : SS -> nat -> L -> R -> SS * R)
         (ops : list (op R C SS)) (spec : list (list V * C)) (g : gran) (dev : bool),
    let s := run_ops Rzero forward opt_update sched_init sched_step false ops (init_st spec : st V M L R C SS) in
    obs (reload false g dev s) = obs s /\ obs (clone false s) = obs s /\ obs (clone_fallback false s) = obs s /\
    obs (to_dev false s) = obs s.
Proof. exact C05_Proofs_Hist.reported_state_reachable. Qed.
Print Assumptions C05_reported_state_reachable.

(* T7 the checkpoint WITHOUT the raw data: save(save_raw_data=False) + from_file(path, dset=d).
   The dataset model (index i) is not in the file; `_dataset_metadata` carries the values of its
   parameters; d brings fresh cells, no optimiser, no scheduler, its own constraints c.
   (a) the binding invariant survives (it is one of the operations of T1);
   (b) on the id-free view the route is exactly `vattach i c`: model i keeps its VALUES, takes the
       constraints c and loses optimiser and scheduler; nothing else changes. *)
Theorem C05_meta_route_view :
  forall (V M L R C SS : Type) (i : nat) (c : C) (dev : bool) (s : st V M L R C SS),
    binding_inv s ->
    binding_inv (reload_meta false i c dev s) /\
    view_of (reload_meta false i c dev s) = vattach i c (view_of s).
Proof. exact C05_Proofs_Meta.reload_meta_inv_and_view. Qed.
Print Assumptions C05_meta_route_view.

(* (c) REPORTED STATE: iteration count, losses, lr history and the parameter values of EVERY model —
   object, probe, and the learned scan positions / descan shifts — are those that were saved; the
   constraints are those that were saved except the dataset's, which are the supplied dataset's *)
Theorem C05_meta_route_reported :
  forall (V M L R C SS : Type) (i : nat) (c : C) (dev : bool) (s : st V M L R C SS),
    binding_inv s ->
    o_iters (obs (reload_meta false i c dev s)) = o_iters (obs s) /\
    o_losses (obs (reload_meta false i c dev s)) = o_losses (obs s) /\
    o_lrs (obs (reload_meta false i c dev s)) = o_lrs (obs s) /\
    o_vals (obs (reload_meta false i c dev s)) = o_vals (obs s) /\
    o_cons (obs (reload_meta false i c dev s)) = upd_nth (o_cons (obs s)) i (fun _ => c).
Proof. exact C05_Proofs_Hist.reload_meta_reported. Qed.
Print Assumptions C05_meta_route_reported.

(* (d) RESUME EQUIVALENCE through that route on its domain: at the interruption the dataset model
   carries no optimiser and the supplied dataset has the constraints of the saved one *)
Theorem C05_meta_route_resume_equiv :
  forall (V G M L R C SS : Type) (Rzero : R)
         (forward : list (list (option V) * C) -> L * list (list (option G)))
         (opt_update : opt_kind -> R -> V -> G -> option (pstate M) -> V * option (pstate M))
         (sched_step : SS -> nat -> L -> R -> SS * R)
         (i : nat) (c : C) (dev : bool) (k m : nat) (s : st V M L R C SS) (md : mdl C),
    binding_inv s -> nth_error (models (rc (run Rzero forward opt_update sched_step k s))) i = Some md ->
    mopt md = None -> mcons md = c ->
    obs (run Rzero forward opt_update sched_step m (reload_meta false i c dev (run Rzero forward opt_update sched_step k s)))
    = obs (run Rzero forward opt_update sched_step (k + m) s).
Proof. exact C05_Proofs_Hist.reload_meta_resume_equiv. Qed.
Print Assumptions C05_meta_route_resume_equiv.

(* (e) without `mopt md = None` the statement is FALSE: the dataset optimiser is not part of a
   checkpoint without the data (this is why the property says "saving it together with its data") *)
Theorem C05_meta_route_refuted_when_dataset_optimised : ~ meta_route_statement.
Proof. exact C05_Proofs_Hist.meta_route_refuted. Qed.
Print Assumptions C05_meta_route_refuted_when_dataset_optimised.

(* ------------------------------------------------------------------ non-vacuity (round 3) *)
(* a history with configuration calls, iterations and seven interruptions (two, three in a row):
   erasing them leaves 2 configuration calls + 3 iterations and the same non-trivial observation *)
Definition C05_hist_example : list (op Witness.R Witness.C Witness.SS) :=
  [OpIter; OpReload true; OpClone; OpSetOpt 1 Adam 2%Z (Some 1%Z); OpTo; OpIter; OpSaveContinue; OpCloneFallback;
   OpModelReload 0; OpSetCons 0 9%Z; OpIter; OpClone; OpClone].
Example C05_nonvacuous_interruptions_erasable :
  erase C05_hist_example = [OpIter; OpSetOpt 1 Adam 2%Z (Some 1%Z); OpIter; OpSetCons 0 9%Z; OpIter] /\
  obs (Witness.run_ops Witness.mask_all false C05_hist_example Witness.s0)
  = obs (Witness.run_ops Witness.mask_all false (erase C05_hist_example) Witness.s0) /\
  o_iters (obs (Witness.run_ops Witness.mask_all false C05_hist_example Witness.s0)) = 3 /\
  o_cons (obs (Witness.run_ops Witness.mask_all false C05_hist_example Witness.s0)) = [9%Z; 7%Z] /\
  o_vals (obs (Witness.run_ops Witness.mask_all false C05_hist_example Witness.s0)) <> o_vals (obs Witness.s0).
Proof. vm_compute. repeat split. discriminate. Qed.

Example C05_nonvacuous_multi_interrupt :
  forallb (@is_interrupt Witness.R Witness.C Witness.SS) [OpReload false; OpReload true; OpClone; OpClone; OpTo] = true /\
  obs (Witness.run Witness.mask_unused 2
         (Witness.run_ops Witness.mask_unused false [OpReload false; OpReload true; OpClone; OpClone; OpTo]
            (Witness.run Witness.mask_unused 1 Witness.s0)))
  = obs (Witness.run Witness.mask_unused 3 Witness.s0).
Proof. vm_compute. split; reflexivity. Qed.

(* the data-less checkpoint: a state whose model 1 (the "dataset") has no optimiser but non-trivial
   values; the hypotheses of (d) hold, the resumed run equals the uninterrupted one, and the
   reloaded object reports the values that were saved; with an optimiser on model 1 it does not *)
Definition C05_meta_s0 : Witness.st :=
  Witness.run_ops [] false [OpSetOpt 0 Adam 1%Z (Some 2%Z); OpSetCons 1 7%Z]
                  (init_st [([10%Z; 20%Z], 5%Z); ([30%Z; 31%Z], 6%Z)]).
Example C05_nonvacuous_meta_route :
  binding_inv C05_meta_s0 /\
  (exists md, nth_error (models (rc (Witness.run Witness.mask_all 1 C05_meta_s0))) 1 = Some md /\
              mopt md = None /\ mcons md = 7%Z) /\
  obs (Witness.run Witness.mask_all 2 (reload_meta false 1 7%Z true (Witness.run Witness.mask_all 1 C05_meta_s0)))
  = obs (Witness.run Witness.mask_all 3 C05_meta_s0) /\
  o_vals (obs (reload_meta false 1 7%Z false (Witness.run Witness.mask_all 1 C05_meta_s0)))
  = [[Some 11%Z; Some 21%Z]; [Some 30%Z; Some 31%Z]] /\
  obs (Witness.run Witness.mask_all 1 (reload_meta false 1 7%Z false (Witness.run Witness.mask_all 1 Witness.s0)))
  <> obs (Witness.run Witness.mask_all 2 Witness.s0).
Proof.
  split; [apply binding_inv_reachable|]. split; [eexists; vm_compute; repeat split|].
  vm_compute. repeat split. discriminate.
Qed.
