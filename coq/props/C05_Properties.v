(* C05 — Checkpoint / resume equivalence for iterative ptychography (save, reload, clone).
   PARTIAL claim: the reconstruction STATE MACHINE is proved here (parameter cells on a heap,
   optimisers holding references to cells + per-parameter state, schedulers referring to their
   optimiser, histories; one iteration reads/writes exactly the fields of `view`); the
   numerical kernels (forward/loss/backward, the optimiser update rule, the scheduler rule)
   are the universally quantified functions `forward`, `opt_update`, `sched_init`, `sched_step`.
   The numerical resume equivalence of the real library is validated by differential runs in
   harness/props/C05.py, not proved.
   This file contains ONLY the property theorems (closed by `exact`), their assumption
   reports, and non-vacuity examples. *)
From QV.lib Require Import Prelude.
From QV.model Require Import C05_Model.
From QV.proof Require Import C05_Proofs C05_Proofs_Written.

(* T1 binding invariant.  In EVERY state reachable from a freshly built reconstruction by any
   history of set_optimizer(+scheduler) / remove_optimizer / set constraints / iteration /
   .to(device) / save / save+from_file(with or without device) / clone / clone through the
   serialise fallback / reloading one model that was saved on its own (optimiser pickled apart
   from the module) — with either re-keying of reconnect_optimizer_to_parameters — every
   optimiser's parameter references ARE its model's parameter cells, every scheduler refers to
   its model's optimiser, and distinct models own distinct cells, optimisers and schedulers. *)
Theorem C05_binding_inv :
  forall (V G M L R C SS : Type) (Rzero : R)
         (forward : list (list (option V) * C) -> L * list (list (option G)))
         (opt_update : opt_kind -> R -> V -> G -> option (pstate M) -> V * option (pstate M))
         (sched_init : SS -> R -> SS * R) (sched_step : SS -> nat -> L -> R -> SS * R)
         (written : bool) (ops : list (op R C SS)) (spec : list (list V * C)),
    binding_inv (run_ops Rzero forward opt_update sched_init sched_step written ops
                         (init_st spec : st V M L R C SS)).
Proof. exact binding_inv_reachable. Qed.
Print Assumptions C05_binding_inv.

(* ... and it is an invariant of every single operation from ANY bound state *)
Theorem C05_binding_inv_step :
  forall (V G M L R C SS : Type) (Rzero : R)
         (forward : list (list (option V) * C) -> L * list (list (option G)))
         (opt_update : opt_kind -> R -> V -> G -> option (pstate M) -> V * option (pstate M))
         (sched_init : SS -> R -> SS * R) (sched_step : SS -> nat -> L -> R -> SS * R)
         (written : bool) (ops : list (op R C SS)) (s : st V M L R C SS),
    binding_inv s -> binding_inv (run_ops Rzero forward opt_update sched_init sched_step written ops s).
Proof. exact binding_inv_ops. Qed.
Print Assumptions C05_binding_inv_step.

(* unpickling alone (optimiser and scheduler in blobs of their own) does NOT give the binding
   invariant, only `loaded_inv`; .to(device) + reconnect establishes it from there *)
Theorem C05_reconnect_establishes_binding :
  forall (V M L R C SS : Type) (written : bool) (s : st V M L R C SS),
    loaded_inv s -> binding_inv (to_dev written s).
Proof. exact C05_Proofs_Reconnect.to_dev_binding. Qed.
Print Assumptions C05_reconnect_establishes_binding.

(* T2 frame condition.  save-then-load (any granularity, with or without device move) with the
   state re-keyed BY PARAMETER is the identity on the explicit list of fields an iteration
   reads: `view` = per model the parameter values through the model's references, the
   constraints, optimiser kind / lr / per-parameter state through the optimiser's references,
   scheduler last_epoch / internal state; and the two histories. *)
Theorem C05_frame_condition :
  forall (V M L R C SS : Type) (g : gran) (dev : bool) (s : st V M L R C SS),
    binding_inv s -> view_of (reload false g dev s) = view_of s.
Proof. exact view_reload. Qed.
Print Assumptions C05_frame_condition.

(* one heap-level iteration is a function of exactly those fields *)
Theorem C05_iteration_reads_view :
  forall (V G M L R C SS : Type) (Rzero : R)
         (forward : list (list (option V) * C) -> L * list (list (option G)))
         (opt_update : opt_kind -> R -> V -> G -> option (pstate M) -> V * option (pstate M))
         (sched_step : SS -> nat -> L -> R -> SS * R) (s : st V M L R C SS),
    binding_inv s ->
    view_of (iterate Rzero forward opt_update sched_step s)
    = step_view Rzero forward opt_update sched_step (view_of s).
Proof. exact C05_Proofs_Iter.view_iterate. Qed.
Print Assumptions C05_iteration_reads_view.

(* T2 resume equivalence, for every split point k of every run length n, every numerical
   kernel, every bound state: interrupting after k iterations by save + from_file and running
   the remaining n-k iterations is observationally the uninterrupted run (iteration count,
   loss history, lr history, constraints, parameter values). *)
Theorem C05_resume_equiv : resume_equiv_statement false.
Proof. exact resume_equiv_repaired. Qed.
Print Assumptions C05_resume_equiv.

(* the SAME statement for the positional re-keying of the pinned commit is false: when a
   leading parameter receives no gradient the optimiser state moves to the wrong parameter *)
Theorem C05_resume_equiv_as_written_refuted : ~ resume_equiv_statement true.
Proof. exact resume_equiv_as_written_refuted. Qed.
Print Assumptions C05_resume_equiv_as_written_refuted.

(* ... but the code AS WRITTEN does resume correctly (reloaded copy and saved original) on the
   domain where, at the interruption, the key order of every optimizer.state is the parameter
   order (`aligned`: true whenever every parameter has received a gradient) *)
Theorem C05_resume_equiv_as_written_aligned :
  forall (V G M L R C SS : Type) (Rzero : R)
         (forward : list (list (option V) * C) -> L * list (list (option G)))
         (opt_update : opt_kind -> R -> V -> G -> option (pstate M) -> V * option (pstate M))
         (sched_step : SS -> nat -> L -> R -> SS * R)
         (g : gran) (dev : bool) (k n : nat) (s : st V M L R C SS),
    binding_inv s -> aligned (run Rzero forward opt_update sched_step k s) -> rebinds g dev -> k <= n ->
    obs (run Rzero forward opt_update sched_step (n - k)
             (reload true g dev (run Rzero forward opt_update sched_step k s)))
    = obs (run Rzero forward opt_update sched_step n s) /\
    obs (run Rzero forward opt_update sched_step (n - k)
             (snd (save true g (run Rzero forward opt_update sched_step k s))))
    = obs (run Rzero forward opt_update sched_step n s).
Proof. exact resume_equiv_as_written. Qed.
Print Assumptions C05_resume_equiv_as_written_aligned.

(* the object that was saved continues as if save() had not been called (save moves it to the
   CPU and back: two reconnects) *)
Theorem C05_save_continue_equiv :
  forall (V G M L R C SS : Type) (Rzero : R)
         (forward : list (list (option V) * C) -> L * list (list (option G)))
         (opt_update : opt_kind -> R -> V -> G -> option (pstate M) -> V * option (pstate M))
         (sched_step : SS -> nat -> L -> R -> SS * R)
         (g : gran) (k n : nat) (s : st V M L R C SS),
    binding_inv s -> k <= n ->
    obs (run Rzero forward opt_update sched_step (n - k)
             (snd (save false g (run Rzero forward opt_update sched_step k s))))
    = obs (run Rzero forward opt_update sched_step n s).
Proof. exact save_continue_equiv. Qed.
Print Assumptions C05_save_continue_equiv.

(* T3 reported state: UNCONDITIONAL (no invariant, either re-keying, any granularity, with or
   without .to()): the reloaded reconstruction reports the same iteration count, losses,
   learning-rate history and constraints as the one that was saved *)
Theorem C05_reported_state_eq :
  forall (V M L R C SS : Type) (written : bool) (g : gran) (dev : bool) (s : st V M L R C SS),
    o_iters (obs (reload written g dev s)) = o_iters (obs s) /\
    o_losses (obs (reload written g dev s)) = o_losses (obs s) /\
    o_lrs (obs (reload written g dev s)) = o_lrs (obs s) /\
    o_cons (obs (reload written g dev s)) = o_cons (obs s).
Proof. exact reported_state_eq. Qed.
Print Assumptions C05_reported_state_eq.

(* ... and, from a bound state, the same parameter values (object, probe) and the same
   optimiser and scheduler state *)
Theorem C05_reported_state_full :
  forall (V M L R C SS : Type) (g : gran) (dev : bool) (s : st V M L R C SS),
    binding_inv s -> obs (reload false g dev s) = obs s /\ view_of (reload false g dev s) = view_of s.
Proof. exact reported_state_full. Qed.
Print Assumptions C05_reported_state_full.

(* T4 clone (deepcopy: sharing preserved) and clone through the serialise/reload fallback *)
Theorem C05_clone_equiv :
  forall (V G M L R C SS : Type) (Rzero : R)
         (forward : list (list (option V) * C) -> L * list (list (option G)))
         (opt_update : opt_kind -> R -> V -> G -> option (pstate M) -> V * option (pstate M))
         (sched_step : SS -> nat -> L -> R -> SS * R) (n : nat) (s : st V M L R C SS),
    binding_inv s ->
    obs (run Rzero forward opt_update sched_step n (clone false s)) = obs (run Rzero forward opt_update sched_step n s) /\
    obs (run Rzero forward opt_update sched_step n (clone_fallback false s)) = obs (run Rzero forward opt_update sched_step n s).
Proof. exact clone_equiv. Qed.
Print Assumptions C05_clone_equiv.

(* the clone shares no cell, optimiser or scheduler with the original *)
Theorem C05_clone_fresh :
  forall (V M L R C SS : Type) (written : bool) (s : st V M L R C SS),
    binding_inv s -> forall m, In m (models (rc (clone written s))) ->
    (forall p, In p (mparams m) -> hnext (hh s) <= p) /\
    (forall o, mopt m = Some o -> hnext (hh s) <= o) /\
    (forall x, msched m = Some x -> hnext (hh s) <= x).
Proof. exact clone_fresh. Qed.
Print Assumptions C05_clone_fresh.

(* ------------------------------------------------------------------ non-vacuity *)
(* the hypotheses are satisfiable by a non-trivial state: two models, three parameter cells,
   an Adam optimiser with a scheduler and an SGD optimiser, with a numerical kernel whose
   update depends on the optimiser state *)
Example C05_nonvacuous_binding_inv :
  binding_inv Witness.s0 /\ length (models (rc Witness.s0)) = 2 /\
  map (fun m => length (mparams m)) (models (rc Witness.s0)) = [2; 1] /\
  map (@mopt _) (models (rc Witness.s0)) = [Some 3; Some 5] /\
  map (@msched _) (models (rc Witness.s0)) = [Some 4; None].
Proof. split; [exact Witness.s0_binding_inv|]. vm_compute. repeat split. Qed.

(* the concrete run: 3 iterations, split after 1, reload through separate blobs + .to();
   the observation is non-trivial (3 losses, values moved, lr changed by the scheduler) *)
Example C05_nonvacuous_resume_equiv :
  obs (Witness.run Witness.mask_all 2 (reload false Split true (Witness.run Witness.mask_all 1 Witness.s0)))
  = obs (Witness.run Witness.mask_all 3 Witness.s0) /\
  o_iters (obs (Witness.run Witness.mask_all 3 Witness.s0)) = 3 /\
  o_vals (obs (Witness.run Witness.mask_all 3 Witness.s0)) <> o_vals (obs Witness.s0) /\
  o_lrs (obs (Witness.run Witness.mask_all 3 Witness.s0)) = [(0, [1; 3; 6]%Z); (1, [3; 3; 3]%Z)].
Proof. vm_compute. repeat split. discriminate. Qed.

(* without the reconnect the split granularity really is different (so `rebinds` is needed):
   the optimiser updates its own copies and the model's parameters stop moving *)
Example C05_nonvacuous_rebinds :
  obs (Witness.run Witness.mask_all 2 (reload false Split false (Witness.run Witness.mask_all 1 Witness.s0)))
  <> obs (Witness.run Witness.mask_all 3 Witness.s0).
Proof. vm_compute. discriminate. Qed.

(* the unused-parameter case: re-keying by parameter resumes correctly, positional does not *)
Example C05_nonvacuous_unused_parameter :
  obs (Witness.run Witness.mask_unused 1 (reload false Joint false (Witness.run Witness.mask_unused 1 Witness.s0)))
  = obs (Witness.run Witness.mask_unused 2 Witness.s0) /\
  obs (Witness.run Witness.mask_unused 1 (reload true Joint false (Witness.run Witness.mask_unused 1 Witness.s0)))
  <> obs (Witness.run Witness.mask_unused 2 Witness.s0).
Proof. vm_compute. split; [reflexivity|discriminate]. Qed.

Example C05_nonvacuous_clone_equiv :
  obs (Witness.run Witness.mask_all 2 (clone false (Witness.run Witness.mask_all 1 Witness.s0)))
  = obs (Witness.run Witness.mask_all 3 Witness.s0) /\
  forallb (fun m => forallb (fun p => Nat.leb (hnext (hh Witness.s0)) p) (mparams m))
          (models (rc (clone false Witness.s0))) = true.
Proof. vm_compute. split; reflexivity. Qed.

(* the `aligned` hypothesis is satisfiable after real iterations (every parameter receives a
   gradient), and the positional re-keying then resumes correctly *)
Example C05_nonvacuous_as_written_aligned :
  obs (Witness.run Witness.mask_all 2 (reload true Joint false (Witness.run Witness.mask_all 1 Witness.s0)))
  = obs (Witness.run Witness.mask_all 3 Witness.s0) /\
  map (fun m => match mopt m with
                | Some o => match ho (hh (Witness.run Witness.mask_all 1 Witness.s0)) o with
                            | Some ob => (map fst (ostate ob), oparams ob)
                            | None => ([], [])
                            end
                | None => ([], [])
                end) (models (rc (Witness.run Witness.mask_all 1 Witness.s0)))
  = [([0; 1], [0; 1]); ([], [2])].
Proof. vm_compute. split; reflexivity. Qed.
