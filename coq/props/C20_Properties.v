(* C20 — Display normalisation, part 1: the theorems about the EXECUTABLE model
   (model/C20_Model.v, tied to the implementation by exact / bit correspondence).
   Part 2 — range, monotonicity, endpoints, inverse pairs of the stretch formulas TRANSLATED
   from the current source — is coq/gen_proofs/C20_GenProperties.v, compiled at check time
   against build/C20/Gen_Norm.v.
   This file contains ONLY the property theorems (closed by `exact`), their assumption
   reports, and non-vacuity examples. *)
From QV.lib Require Import Prelude FloatBits.
From QV.model Require Import C20_Model.
From QV.proof Require Import C20_Proofs.
From Coq Require Import QArith.
Local Close Scope Q_scope.

(* A NaN is never turned into a number and no number is lost: for every carrier of finite
   values, every stretch f and every pair of limits, the normalised value is NaN — and the
   entry is masked by np.ma.masked_invalid — exactly when the input is NaN. *)
Theorem C20_nan_preserved :
  forall (A : Type) (K : carrier A) (f : A -> A) (vmin vmax : A) (v : xval A),
    (x_norm K f vmin vmax v = XNaN <-> v = XNaN) /\
    (x_masked (x_norm K f vmin vmax v) = true <-> v = XNaN).
Proof. exact nan_preserved_all. Qed.
Print Assumptions C20_nan_preserved.

(* Infinite data are clipped to the ends of the range (the stretch then maps 1 to 1 and 0 to 0,
   C20_norm_endpoints): whenever vmax - vmin is not negative — the degenerate case
   vmax = vmin included — +inf goes to f 1 and -inf to f 0; the interval map never returns an
   infinity. *)
Theorem C20_inf_clipped :
  forall (A : Type) (K : carrier A) (f : A -> A) (vmin vmax : A),
    (k_ltb K (k_sub K vmax vmin) (k_zero K) = false ->
     x_norm K f vmin vmax PInf = Fin (f (k_one K)) /\
     x_norm K f vmin vmax NInf = Fin (f (k_zero K))) /\
    (forall v, x_interval_map K vmin vmax v <> PInf /\ x_interval_map K vmin vmax v <> NInf).
Proof. exact inf_clipped_all. Qed.
Print Assumptions C20_inf_clipped.

(* Limits computed from data with NaN / inf entries (which are ignored):
   quantile interval — for 0 <= lq <= uq <= 1 the limits are ordered and lie between every
   lower and every upper bound of the finite data, and they exist iff there is a finite datum;
   min/max interval — the limits are attained data values bounding all finite data, strictly
   ordered as soon as two finite values differ;
   centred interval — symmetric about vcenter, ordered, covering all finite data. *)
Theorem C20_limits_ordered :
  (forall lq uq data vmin vmax,
      (0 <= lq)%Q -> (lq <= uq)%Q -> (uq <= 1)%Q ->
      limits_quantile lq uq data = Some (vmin, vmax) ->
      (vmin <= vmax)%Q /\
      (forall m, (forall x, In x (finite_of data) -> (m <= x)%Q) -> (m <= vmin)%Q) /\
      (forall M, (forall x, In x (finite_of data) -> (x <= M)%Q) -> (vmax <= M)%Q)) /\
  (forall lq uq data, limits_quantile lq uq data = None <-> finite_of data = []) /\
  (forall data dmin dmax,
      limits_manual None None data = Some (dmin, dmax) ->
      In dmin (finite_of data) /\ In dmax (finite_of data) /\
      (forall x, In x (finite_of data) -> (dmin <= x)%Q /\ (x <= dmax)%Q) /\
      (forall x y, In x (finite_of data) -> In y (finite_of data) -> ~ (x == y)%Q -> (dmin < dmax)%Q)) /\
  (forall c data vmin vmax,
      limits_centered c None data = Some (vmin, vmax) ->
      (vmin + vmax == 2 * c)%Q /\ (vmin <= vmax)%Q /\
      (forall x, In x (finite_of data) -> (vmin <= x)%Q /\ (x <= vmax)%Q)).
Proof. exact limits_ordered_all. Qed.
Print Assumptions C20_limits_ordered.

(* ---------------------------------------------------------------- non-vacuity *)
Example C20_nonvacuous_nan_inf :
  map (fun v => qshow (x_norm Qcarrier (fun q => q) 1%Q 5%Q v)) [Fin 2%Q; XNaN; PInf; NInf; Fin 7%Q; Fin 0%Q]
  = [(0, 1, 4); (1, 0, 1); (0, 1, 1); (0, 0, 1); (0, 1, 1); (0, 0, 1)]%Z
  /\ k_ltb Qcarrier (k_sub Qcarrier 5%Q 1%Q) (k_zero Qcarrier) = false.
Proof. vm_compute. split; reflexivity. Qed.

Example C20_nonvacuous_limits :
  qshow_pair (limits_quantile (2 # 100)%Q (98 # 100)%Q [Fin 1%Q; Fin 2%Q; XNaN; PInf; NInf; Fin 5%Q])
  = Some ((26, 25), (122, 25))%Z
  /\ qshow_pair (limits_manual None None [Fin 3%Q; XNaN; Fin 1%Q; PInf; Fin 2%Q]) = Some ((1, 1), (3, 1))%Z
  /\ qshow_pair (limits_centered 1%Q None [Fin 3%Q; XNaN; Fin (-2)%Q; NInf]) = Some ((-2, 1), (4, 1))%Z.
Proof. vm_compute. repeat split; reflexivity. Qed.
