From QV.lib Require Import Prelude C11_Heap.
From QV.model Require Import C11_Model.
From QV.proof Require Import C11_Proofs.
Theorem C11_vec_inv_reachable : forall ops, SInv (run ops init).
Proof. exact vec_inv_reachable. Qed.
Print Assumptions C11_vec_inv_reachable.
