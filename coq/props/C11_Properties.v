From QV.lib Require Import Prelude C11_Heap.
From QV.model Require Import C11_Model.
From QV.proof Require Import C11_Proofs.
Theorem C11_stub : run [] init = init.
Proof. exact stub. Qed.
Print Assumptions C11_stub.
