(* C11 — Ragged Vector keeps its structural invariants under any operation history.
   This file contains ONLY the property theorems (closed by `exact`), their assumption reports
   and non-vacuity examples.  Model: model/C11_Model.v (vector.py / validators.py WITH
   fixes/C11-*.diff applied), nested lists: lib/C11_Heap.v, proofs: proof/C11_Proofs*.v.

   Vocabulary (all defined in the model / heap library, nothing hidden in the proofs):
     run ops init          the state after the operation history `ops` (ANY list of `op`:
                           from_shape, from_data, get_data, set_data, __getitem__, __setitem__,
                           field arithmetic, field flatten, set_flattened, flatten, add_fields,
                           remove_fields, copy, the attribute setters fields / units / shape / data /
                           name (+ metadata item assignment), _FieldView.__getitem__, save + load —
                           valid or not, errors are values)
     heap s                the numpy arrays alive (id = position); cell = {ncols; rows}
     vecs s                the live Vector objects {vshape; vfields; vunits; vdata; vmeta}
     shaped sh t           the nested lists `t` have exactly the nesting given by `sh`
     leaves t              the cells in traversal (row-major) order; None = unset cell
     tget t p              the cell at address p;   ndindex sh = all addresses in np.ndindex order
     reach v               the array ids reachable from v;   vmeta v = identity of its metadata dict
     cell_col k h x / cell_rows h x   column k / all rows of the array behind the cell x ([] if unset) *)
From QV.lib Require Import Prelude C11_Heap.
From QV.model Require Import C11_Model.
From QV.proof Require Import C11_Proofs C11_Proofs_Hist C11_Proofs_Ext.
From Coq Require Import QArith.
Local Close Scope Q_scope.

(* ------------------------------------------------------------------------------------------
   1. After ANY operation history: every array is rectangular; every live vector has a positive
      shape, nesting of _data equal to the shape, unique field names, one unit per field, every
      populated cell is a live 2-D array with exactly one column per field; metadata dicts of
      distinct vectors are distinct objects. *)
Theorem C11_vec_inv_reachable :
  forall ops : list op,
    let s := run ops init in
    Forall (fun c : cell => Forall (fun r => length r = ncols c) (rows c)) (heap s) /\
    Forall (fun v : vec =>
              Forall (fun n => 0 < n) (vshape v) /\
              shaped (vshape v) (vdata v) /\
              NoDup (vfields v) /\
              length (vunits v) = length (vfields v) /\
              Forall (fun lf : leaf =>
                        match lf with
                        | None => True
                        | Some id => exists c, nth_error (heap s) id = Some c /\ ncols c = length (vfields v)
                        end) (leaves (vdata v)) /\
              vmeta v < nmeta s) (vecs s) /\
    NoDup (map vmeta (vecs s)).
Proof. exact vec_inv_reachable. Qed.
Print Assumptions C11_vec_inv_reachable.

(* ------------------------------------------------------------------------------------------
   2. After any history, for every live vector and every field: _FieldView.flatten() is the
      concatenation, over all addresses in row-major (np.ndindex) order, of that column of the
      cell at the address; Vector.flatten() is the same concatenation of whole rows and every
      row has one entry per field.  Neither changes the state. *)
Theorem C11_flatten_is_rowmajor_concat :
  forall ops vi v name k,
    let s := run ops init in
    nth_error (vecs s) vi = Some v -> index_of name (vfields v) = Some k ->
    step s (OFieldFlatten vi name) =
      (s, RCol (flat_map (cell_col k (heap s)) (map (tget (vdata v)) (ndindex (vshape v))))) /\
    step s (OFlatten vi) =
      (s, RFlat (length (vfields v)) (flat_map (cell_rows (heap s)) (map (tget (vdata v)) (ndindex (vshape v))))) /\
    Forall (fun r => length r = length (vfields v))
           (flat_map (cell_rows (heap s)) (map (tget (vdata v)) (ndindex (vshape v)))).
Proof. exact flatten_is_rowmajor_concat_hist. Qed.
Print Assumptions C11_flatten_is_rowmajor_concat.

(* ------------------------------------------------------------------------------------------
   3. Writing a field's flattened view back restores the same data: in EVERY state (reachable
      or not), set_flattened(flatten()) succeeds and leaves the whole state unchanged. *)
Theorem C11_set_flattened_flatten_id :
  forall s vi v name k,
    nth_error (vecs s) vi = Some v -> index_of name (vfields v) = Some k ->
    exists xs, step s (OFieldFlatten vi name) = (s, RCol xs) /\
               step s (OSetFlattened vi name (Some xs)) = (s, RNone).
Proof. exact set_flattened_flatten_id. Qed.
Print Assumptions C11_set_flattened_flatten_id.

(* ------------------------------------------------------------------------------------------
   4. Set then get.  (a) a successful single-cell assignment v[idx] = <new array c> is read back by
      v[idx] as that very array object, holding c;  (b) a successful multi-cell set_data with one
      new array per addressed cell (distinct addresses) is read back by get_data with the same
      index expression as exactly those array objects, in order — for any number of dimensions. *)
Theorem C11_set_then_get :
  forall s vi idx c s',
    step s (OSetItem vi idx (SArr (ANew c))) = (s', RNone) ->
    step s' (OGetItem vi idx) = (s', RCell (Some (length (heap s)))) /\
    nth_error (heap s') (length (heap s)) = Some c.
Proof. exact set_then_get. Qed.
Print Assumptions C11_set_then_get.

Theorem C11_set_data_then_get_data :
  forall s vi v idx idxs cs s',
    nth_error (vecs s) vi = Some v ->
    resolve_checked (vshape v) idx = inr idxs ->
    forallb (fun l => length l =? 1) idxs = false ->
    NoDup (cart idxs) ->
    forallb wf_cellb cs = true ->
    step s (OSetData vi (SList (map ANew cs)) idx) = (s', RNone) ->
    step s' (OGetData vi idx) = (s', RCells (map Some (seq (length (heap s)) (length cs)))) /\
    length cs = length (cart idxs) /\ heap s' = heap s ++ cs.
Proof. exact set_data_then_get_data. Qed.
Print Assumptions C11_set_data_then_get_data.

(* ------------------------------------------------------------------------------------------
   5. Copies share no mutable state.  After any history, a successful copy() appends a vector w
      with the same shape / fields / units and equal cell contents, whose arrays are all new
      (reach w is disjoint from the reach of every vector that existed) and whose metadata dict
      is a new object; and nothing done in place through the copy (field arithmetic,
      set_flattened) changes any array of a vector that existed before. *)
Theorem C11_copy_disjoint :
  forall ops vi s',
    let s := run ops init in
    step s (OCopy vi) = (s', RNew) ->
    exists v w l,
      nth_error (vecs s) vi = Some v /\ vecs s' = vecs s ++ [w] /\ heap s' = heap s ++ l /\
      vshape w = vshape v /\ vfields w = vfields v /\ vunits w = vunits v /\
      map (leaf_val (heap s')) (leaves (vdata w)) = map (leaf_val (heap s)) (leaves (vdata v)) /\
      (forall u id, In u (vecs s) -> In id (reach u) -> ~ In id (reach w)) /\
      (forall u, In u (vecs s) -> vmeta w <> vmeta u).
Proof. exact copy_disjoint_hist. Qed.
Print Assumptions C11_copy_disjoint.

Theorem C11_copy_independent :
  forall ops vi s',
    let s := run ops init in
    step s (OCopy vi) = (s', RNew) ->
    forall u id, In u (vecs s) -> In id (reach u) ->
      (forall name a,
          nth_error (heap (fst (step s' (OFieldOp (length (vecs s)) name a)))) id = nth_error (heap s) id) /\
      (forall name vals,
          nth_error (heap (fst (step s' (OSetFlattened (length (vecs s)) name vals)))) id = nth_error (heap s) id).
Proof. exact copy_independent_hist. Qed.
Print Assumptions C11_copy_independent.

(* ------------------------------------------------------------------------------------------
   6. Independently created vectors share no mutable state (after any history): from_shape
      yields a vector with no arrays and a new metadata dict, the heap is untouched; from_data
      given arrays of its own yields a vector that reaches none of the arrays of the vectors that
      existed, with a new metadata dict. *)
Theorem C11_fresh_disjoint_from_shape :
  forall ops shape nf fields units s',
    let s := run ops init in
    step s (OFromShape shape nf fields units) = (s', RNew) ->
    exists w, vecs s' = vecs s ++ [w] /\ heap s' = heap s /\ reach w = [] /\
              (forall u, In u (vecs s) -> vmeta w <> vmeta u).
Proof. exact fresh_disjoint_from_shape_hist. Qed.
Print Assumptions C11_fresh_disjoint_from_shape.

Theorem C11_fresh_disjoint_from_data :
  forall ops items nf fields units s',
    let s := run ops init in
    Forall (fun a => exists c, a = ANew c) items ->
    step s (OFromData (Some items) nf fields units) = (s', RNew) ->
    exists w l, vecs s' = vecs s ++ [w] /\ heap s' = heap s ++ l /\
      (forall u id, In u (vecs s) -> In id (reach u) -> ~ In id (reach w)) /\
      (forall u, In u (vecs s) -> vmeta w <> vmeta u).
Proof. exact fresh_disjoint_from_data_hist. Qed.
Print Assumptions C11_fresh_disjoint_from_data.

(* ------------------------------------------------------------------------------------------
   7. Slicing returns the addressed cells for EVERY number of fixed dimensions (the theorem does
      not restrict `length (vshape v)`; 1, 2 and 3 are the instances exercised below).
      (a) whenever v[idx] yields a Vector w, then with idxs = the per-axis index lists that idx
          denotes (missing trailing axes = full slices, Python wrap-around of negative indices),
          w has shape (len idxs[0], ...), the fields and units of v, no new arrays, and cell o of w
          IS (same array object / same unset state) cell (idxs[0][o0], idxs[1][o1], ...) of v;
      (b) v[idx] does yield a Vector whenever idx (not a full tuple of integers, at most one entry
          per dimension) denotes in-range, non-empty index lists;
      (c) get_data with a slice / list on some axis returns exactly the addressed cells in
          np.ndindex order. *)
Theorem C11_slice_addresses_cells :
  forall ops vi v idx s',
    let s := run ops init in
    nth_error (vecs s) vi = Some v -> step s (OGetItem vi idx) = (s', RNew) ->
    exists raw idxs w,
      resolve_raw (vshape v) (idx ++ repeat (ISlice None None None) (length (vshape v) - length idx)) = Some raw /\
      resolve_take (vshape v) raw = inr idxs /\
      vecs s' = vecs s ++ [w] /\ heap s' = heap s /\
      vshape w = map (@length nat) idxs /\ vfields w = vfields v /\ vunits w = vunits v /\
      forall o, Forall2 (fun k js => k < length js) o idxs ->
        exists lf, tget (vdata w) o = Some lf /\ tget (vdata v) (src_of idxs o) = Some lf.
Proof. exact slice_addresses_cells_hist. Qed.
Print Assumptions C11_slice_addresses_cells.

Theorem C11_slice_succeeds :
  forall ops vi v idx raw idxs,
    let s := run ops init in
    nth_error (vecs s) vi = Some v ->
    length idx <= length (vshape v) ->
    (length idx =? length (vshape v)) && forallb is_int idx = false ->
    resolve_raw (vshape v) (idx ++ repeat (ISlice None None None) (length (vshape v) - length idx)) = Some raw ->
    resolve_take (vshape v) raw = inr idxs ->
    exists s', step s (OGetItem vi idx) = (s', RNew).
Proof. exact slice_succeeds_hist. Qed.
Print Assumptions C11_slice_succeeds.

Theorem C11_get_data_addresses_cells :
  forall ops vi v idx idxs,
    let s := run ops init in
    nth_error (vecs s) vi = Some v -> length idx = length (vshape v) ->
    resolve_checked (vshape v) idx = inr idxs ->
    forallb (fun l => length l =? 1) idxs = false ->
    exists ls, step s (OGetData vi idx) = (s, RCells ls) /\ map Some ls = map (tget (vdata v)) (cart idxs).
Proof. exact get_data_addresses_cells_hist. Qed.
Print Assumptions C11_get_data_addresses_cells.

(* ------------------------------------------------------------------------------------------
   Non-vacuity: concrete histories on which the hypotheses of the theorems above hold (and on
   which the defects of the unrepaired code showed). *)
Definition C11_q1 (n : Z) : Q := Qmake n 1.
Definition C11_c1 (x : Z) : cell := mkCell 1 [[C11_q1 x]].
Definition C11_c2 (x y : Z) : cell := mkCell 2 [[C11_q1 x; C11_q1 y]].

(* a 1-D vector (3,) with two fields, fully populated; a 3-D vector (2,2,2) with one field,
   populated except cell (0,0,0); a 2-D one (2,2) *)
Definition C11_ex_ops : list op :=
  [ OFromShape [3]%Z (Some 2%Z) None None;
    OSetItem 0 [IInt 0] (SArr (ANew (C11_c2 0 1)));
    OSetItem 0 [IInt 1] (SArr (ANew (mkCell 2 [[C11_q1 2; C11_q1 3]; [C11_q1 4; C11_q1 5]])));
    OSetItem 0 [IInt 2] (SArr (ANew (mkCell 2 [])));
    OFromShape [2; 2; 2]%Z None (Some [7; 8]%Z) (Some [1; 2]%Z);
    ORemoveFields 1 [8%Z];
    OSetItem 1 [IInt 0; IInt 0; IInt 1] (SArr (ANew (C11_c1 1)));
    OSetItem 1 [IInt 0; IInt 1; IInt 0] (SArr (ANew (C11_c1 10)));
    OSetItem 1 [IInt 0; IInt 1; IInt 1] (SArr (ANew (C11_c1 11)));
    OSetItem 1 [IInt 1; IInt 0; IInt 0] (SArr (ANew (C11_c1 100)));
    OSetItem 1 [IInt 1; IInt 0; IInt 1] (SArr (ANew (C11_c1 101)));
    OSetItem 1 [IInt 1; IInt 1; IInt 0] (SArr (ANew (C11_c1 110)));
    OSetItem 1 [IInt 1; IInt 1; IInt 1] (SArr (ANew (C11_c1 111)));
    OFromShape [2; 2]%Z (Some 1%Z) None None ].

Example C11_nonvacuous_state :
  map vshape (vecs (run C11_ex_ops init)) = [[3]; [2; 2; 2]; [2; 2]] /\ length (heap (run C11_ex_ops init)) = 10.
Proof. vm_compute. split; reflexivity. Qed.

(* flatten on the 1-D vector: field_1 is the row-major concatenation 1, 3, 5 *)
Example C11_nonvacuous_flatten :
  exists v, nth_error (vecs (run C11_ex_ops init)) 0 = Some v /\ index_of 1%Z (vfields v) = Some 1 /\
            step (run C11_ex_ops init) (OFieldFlatten 0 1%Z) = (run C11_ex_ops init, RCol [C11_q1 1; C11_q1 3; C11_q1 5]).
Proof. eexists. vm_compute. repeat split; reflexivity. Qed.

(* set then get on the 3-D vector's unset cell *)
Example C11_nonvacuous_set_then_get :
  exists s', step (run C11_ex_ops init) (OSetItem 1 [IInt 0; IInt 0; IInt (-2)] (SArr (ANew (C11_c1 5)))) = (s', RNone).
Proof. eexists. vm_compute. reflexivity. Qed.

(* multi-cell set_data on the 2-D vector with the slice on the SECOND axis (the case the unrepaired
   set_data got wrong), distinct addresses *)
Example C11_nonvacuous_set_data_then_get_data :
  exists v idxs s',
    nth_error (vecs (run C11_ex_ops init)) 2 = Some v /\
    resolve_checked (vshape v) [IInt 1; ISlice (Some 0%Z) (Some 2%Z) None] = inr idxs /\
    forallb (fun l => length l =? 1) idxs = false /\ NoDup (cart idxs) /\
    step (run C11_ex_ops init) (OSetData 2 (SList (map ANew [C11_c1 1; C11_c1 2])) [IInt 1; ISlice (Some 0%Z) (Some 2%Z) None])
      = (s', RNone).
Proof.
  eexists. exists [[1]; [0; 1]]. eexists. vm_compute. repeat split; try reflexivity.
  repeat constructor; simpl; intuition discriminate.
Qed.

(* copy of the 3-D vector succeeds; from_shape / from_data succeed *)
Example C11_nonvacuous_copy : exists s', step (run C11_ex_ops init) (OCopy 1) = (s', RNew).
Proof. eexists. vm_compute. reflexivity. Qed.

Example C11_nonvacuous_fresh :
  (exists s', step (run C11_ex_ops init) (OFromShape [2; 1; 3]%Z (Some 2%Z) None None) = (s', RNew)) /\
  (exists s', step (run C11_ex_ops init) (OFromData (Some [ANew (C11_c2 1 2); ANew (mkCell 2 [])]) None None None) = (s', RNew)).
Proof. split; eexists; vm_compute; reflexivity. Qed.

(* slicing with 1, 2 and 3 fixed dimensions: v[0:2] (1-D), v[1, 0:2, 1] and v[::-1, [1], :] (3-D),
   v[:, 1] (2-D); each yields a Vector, so hypotheses of 7(a) hold and 7(b) applies *)
Example C11_nonvacuous_slice_1d :
  exists s', step (run C11_ex_ops init) (OGetItem 0 [ISlice (Some 0%Z) (Some 2%Z) None]) = (s', RNew) /\
             option_map vdata (nth_error (vecs s') 3) = Some (Node [Leaf (Some 0); Leaf (Some 1)]).
Proof. eexists. vm_compute. split; reflexivity. Qed.

Example C11_nonvacuous_slice_2d :
  exists s', step (run C11_ex_ops init) (OGetItem 2 [ISlice None None None; IInt 1]) = (s', RNew) /\
             option_map vshape (nth_error (vecs s') 3) = Some [2; 1].
Proof. eexists. vm_compute. split; reflexivity. Qed.

Example C11_nonvacuous_slice_3d :
  exists s', step (run C11_ex_ops init) (OGetItem 1 [IInt 1; ISlice (Some 0%Z) (Some 2%Z) None; IInt 1]) = (s', RNew) /\
             option_map vshape (nth_error (vecs s') 3) = Some [1; 2; 1] /\
             option_map (fun w => map (leaf_val (heap s')) (leaves (vdata w))) (nth_error (vecs s') 3)
               = Some [Some (C11_c1 101); Some (C11_c1 111)].
Proof. eexists. vm_compute. repeat split; reflexivity. Qed.

Example C11_nonvacuous_slice_3d_partial :
  exists s', step (run C11_ex_ops init) (OGetItem 1 [ISlice None None (Some (-1)%Z); IList [1%Z]]) = (s', RNew) /\
             option_map vshape (nth_error (vecs s') 3) = Some [2; 1; 2].
Proof. eexists. vm_compute. split; reflexivity. Qed.

Example C11_nonvacuous_get_data_3d :
  exists ls, step (run C11_ex_ops init) (OGetData 1 [IInt 0; ISlice None None None; IList [1; 0]%Z])
             = (run C11_ex_ops init, RCells ls) /\ length ls = 4.
Proof. eexists. vm_compute. split; reflexivity. Qed.

(* ==========================================================================================
   Coverage extension (round 3): the public attribute setters, _FieldView.__getitem__, index tuples
   longer than the number of fixed dimensions, save + load.  These operations are constructors of
   `op`, so theorem 1 (C11_vec_inv_reachable) and every `forall ops` above range over them too.
   ========================================================================================== *)

(* ------------------------------------------------------------------------------------------
   8. The attribute setters cannot break the schema.
      (a) v.fields = value is either rejected with the state untouched, or a pure renaming: as many
          pairwise distinct names as before, in the given order; units, shape, cells, metadata dict of
          v, the heap and every other vector are unchanged (names stay one-to-one with units/columns);
      (b) v.units = value: rejected, or exactly one unit per field (None = the default units);
      (c) v.shape = value never changes the state and succeeds only for the shape v already has;
      (d) v.data = value, when accepted, leaves nested lists with exactly the nesting of the shape
          (ANY number of fixed dimensions) whose cell at address p IS the array given at address p of
          the argument; when rejected the state is untouched. *)
Theorem C11_set_fields_spec :
  forall s vi a s' r,
    step s (OSetFields vi a) = (s', r) ->
    (r = RNone /\
     exists v l, nth_error (vecs s) vi = Some v /\ a = NList l /\ NoDup l /\ length l = length (vfields v) /\
       heap s' = heap s /\ nmeta s' = nmeta s /\
       vecs s' = upd_nth vi (mkVec (vshape v) l (vunits v) (vdata v) (vmeta v)) (vecs s))
    \/ (r <> RNone /\ s' = s).
Proof. exact set_fields_spec. Qed.
Print Assumptions C11_set_fields_spec.

Theorem C11_set_units_spec :
  forall s vi a s' r,
    step s (OSetUnits vi a) = (s', r) ->
    (r = RNone /\
     exists v us, nth_error (vecs s) vi = Some v /\ length us = length (vfields v) /\
       (a = NNone /\ us = repeat 0%Z (length (vfields v)) \/ a = NList us) /\
       heap s' = heap s /\ nmeta s' = nmeta s /\
       vecs s' = upd_nth vi (mkVec (vshape v) (vfields v) us (vdata v) (vmeta v)) (vecs s))
    \/ (r <> RNone /\ s' = s).
Proof. exact set_units_spec. Qed.
Print Assumptions C11_set_units_spec.

Theorem C11_set_shape_inert :
  forall s vi sh,
    fst (step s (OSetShape vi sh)) = s /\
    (snd (step s (OSetShape vi sh)) = RNone ->
     exists v l, nth_error (vecs s) vi = Some v /\ sh = Some l /\ map Z.to_nat l = vshape v /\
                 Forall (fun d => 0 < d)%Z l).
Proof. exact set_shape_inert. Qed.
Print Assumptions C11_set_shape_inert.

Theorem C11_set_data_attr_spec :
  forall s vi skel items s',
    step s (OSetDataAttr vi skel items) = (s', RNone) ->
    exists v w rv,
      nth_error (vecs s) vi = Some v /\ eval_avals (vecs s) (heap s) items = (heap s', rv) /\
      vecs s' = upd_nth vi w (vecs s) /\
      vshape w = vshape v /\ vfields w = vfields v /\ vunits w = vunits v /\ vmeta w = vmeta v /\
      shaped (vshape v) (vdata w) /\
      forall p lf, tget (vdata w) p = Some lf ->
        exists i id, tget skel p = Some (Some i) /\ nth_error rv i = Some (VId id) /\ lf = Some id.
Proof. exact set_data_attr_spec. Qed.
Print Assumptions C11_set_data_attr_spec.

Theorem C11_set_data_attr_rejected :
  forall s vi skel items s' e, step s (OSetDataAttr vi skel items) = (s', RErr e) -> s' = s.
Proof. exact set_data_attr_rejected. Qed.
Print Assumptions C11_set_data_attr_rejected.

(* ------------------------------------------------------------------------------------------
   9. _FieldView.__getitem__: v[name][idx] is the column of the addressed cell (None for an unset
      cell); for a slice / list index it is the field view of the slice, whose flatten() is — after any
      history, for any number of fixed dimensions — the concatenation of that column over the ADDRESSED
      cells of v in np.ndindex order of the slice. *)
Theorem C11_field_get_cell :
  forall s vi v name k idx,
    nth_error (vecs s) vi = Some v -> index_of name (vfields v) = Some k ->
    (forall id c, step s (OGetItem vi idx) = (s, RCell (Some id)) -> nth_error (heap s) id = Some c ->
                  step s (OFieldGet vi name idx) = (s, RCol (col k c))) /\
    (step s (OGetItem vi idx) = (s, RCell None) -> step s (OFieldGet vi name idx) = (s, RNone)).
Proof. exact field_get_cell. Qed.
Print Assumptions C11_field_get_cell.

Theorem C11_field_get_slice :
  forall ops vi v name k idx s',
    let s := run ops init in
    nth_error (vecs s) vi = Some v -> index_of name (vfields v) = Some k ->
    step s (OGetItem vi idx) = (s', RNew) ->
    step s (OFieldGet vi name idx) = (s', RNew) /\
    exists raw idxs,
      resolve_raw (vshape v) (idx ++ repeat (ISlice None None None) (length (vshape v) - length idx)) = Some raw /\
      resolve_take (vshape v) raw = inr idxs /\
      step s' (OFieldFlatten (length (vecs s)) name) =
        (s', RCol (flat_map (cell_col k (heap s))
                            (map (fun o => tget (vdata v) (src_of idxs o)) (ndindex (map (@length nat) idxs))))).
Proof. exact field_get_slice_hist. Qed.
Print Assumptions C11_field_get_slice.

(* ------------------------------------------------------------------------------------------
   10. Index tuples longer than the number of fixed dimensions: when some index on a fixed dimension is
       a slice or a list, the surplus indices are dropped — v[idx] is v[idx truncated to the fixed
       dimensions], to which theorem 7 applies. *)
Theorem C11_getitem_extra_indices_dropped :
  forall s vi v idx,
    nth_error (vecs s) vi = Some v -> length (vshape v) < length idx ->
    forallb is_int (firstn (length (vshape v)) idx) = false ->
    step s (OGetItem vi idx) = step s (OGetItem vi (firstn (length (vshape v)) idx)).
Proof. exact getitem_extra_indices_dropped. Qed.
Print Assumptions C11_getitem_extra_indices_dropped.

(* ------------------------------------------------------------------------------------------
   11. A vector read back from a saved one (AutoSerialize round trip), after any history: same shape /
       fields / units, equal cell contents, every array new, a new metadata dict — it satisfies the
       invariant (theorem 1) and shares no mutable state with any vector that existed. *)
Theorem C11_reload_disjoint :
  forall ops vi s',
    let s := run ops init in
    step s (OReload vi) = (s', RNew) ->
    exists v w l,
      nth_error (vecs s) vi = Some v /\ vecs s' = vecs s ++ [w] /\ heap s' = heap s ++ l /\
      vshape w = vshape v /\ vfields w = vfields v /\ vunits w = vunits v /\
      map (leaf_val (heap s')) (leaves (vdata w)) = map (leaf_val (heap s)) (leaves (vdata v)) /\
      (forall u id, In u (vecs s) -> In id (reach u) -> ~ In id (reach w)) /\
      (forall u, In u (vecs s) -> vmeta w <> vmeta u).
Proof. exact reload_disjoint_hist. Qed.
Print Assumptions C11_reload_disjoint.

Theorem C11_reload_independent :
  forall ops vi s',
    let s := run ops init in
    step s (OReload vi) = (s', RNew) ->
    forall u id, In u (vecs s) -> In id (reach u) ->
      (forall name a,
          nth_error (heap (fst (step s' (OFieldOp (length (vecs s)) name a)))) id = nth_error (heap s) id) /\
      (forall name vals,
          nth_error (heap (fst (step s' (OSetFlattened (length (vecs s)) name vals)))) id = nth_error (heap s) id).
Proof. exact reload_independent_hist. Qed.
Print Assumptions C11_reload_independent.

(* ------------------------------------------------------------------------------------------
   Non-vacuity of 8-11 on the example state (vector 0: shape (3,), fields 0,1; vector 1: (2,2,2),
   field 7; vector 2: (2,2), field 0, no cell set). *)
Example C11_nonvacuous_set_fields :
  (exists s', step (run C11_ex_ops init) (OSetFields 0 (NList [5; 6]%Z)) = (s', RNone) /\
              option_map vfields (nth_error (vecs s') 0) = Some [5; 6]%Z) /\
  step (run C11_ex_ops init) (OSetFields 0 (NList [5; 6; 7]%Z)) = (run C11_ex_ops init, RErr EValue) /\
  step (run C11_ex_ops init) (OSetFields 0 (NList [5; 5]%Z)) = (run C11_ex_ops init, RErr EValue).
Proof. split; [eexists; vm_compute; split; reflexivity|]. split; vm_compute; reflexivity. Qed.

Example C11_nonvacuous_set_units :
  (exists s', step (run C11_ex_ops init) (OSetUnits 1 NNone) = (s', RNone) /\
              option_map vunits (nth_error (vecs s') 1) = Some [0%Z]) /\
  step (run C11_ex_ops init) (OSetUnits 1 (NList [1; 2]%Z)) = (run C11_ex_ops init, RErr EValue).
Proof. split; [eexists; vm_compute; split; reflexivity|]. vm_compute; reflexivity. Qed.

Example C11_nonvacuous_set_shape :
  snd (step (run C11_ex_ops init) (OSetShape 0 (Some [3]%Z))) = RNone /\
  snd (step (run C11_ex_ops init) (OSetShape 0 (Some [4]%Z))) = RErr EValue /\
  snd (step (run C11_ex_ops init) (OSetShape 0 (Some [3; 1]%Z))) = RErr EValue.
Proof. vm_compute. repeat split; reflexivity. Qed.

(* v.data = [[a, b], [c, d]] on the 2-D vector is accepted and addressed cell by cell; the flat list
   [a, b] (which the unrepaired setter accepted) is a TypeError *)
Example C11_nonvacuous_set_data_attr :
  (exists s', step (run C11_ex_ops init)
                (OSetDataAttr 2 (Node [Node [Leaf (Some 0); Leaf (Some 1)]; Node [Leaf (Some 2); Leaf (Some 3)]])
                              [ANew (C11_c1 1); ANew (C11_c1 2); ANew (C11_c1 3); ANew (C11_c1 4)]) = (s', RNone) /\
              option_map (fun w => tget (vdata w) [1; 0]) (nth_error (vecs s') 2) = Some (Some (Some 12))) /\
  step (run C11_ex_ops init) (OSetDataAttr 2 (Node [Leaf (Some 0); Leaf (Some 1)]) [ANew (C11_c1 1); ANew (C11_c1 2)])
    = (run C11_ex_ops init, RErr EType).
Proof. split; [eexists; vm_compute; split; reflexivity|]. vm_compute; reflexivity. Qed.

Example C11_nonvacuous_field_get :
  step (run C11_ex_ops init) (OFieldGet 0 1%Z [IInt 1]) = (run C11_ex_ops init, RCol [C11_q1 3; C11_q1 5]) /\
  step (run C11_ex_ops init) (OFieldGet 1 7%Z [IInt 0; IInt 0; IInt 0]) = (run C11_ex_ops init, RNone) /\
  exists s', step (run C11_ex_ops init) (OFieldGet 1 7%Z [IInt 1; ISlice (Some 0%Z) (Some 2%Z) None; IInt 1]) = (s', RNew) /\
             step s' (OFieldFlatten 3 7%Z) = (s', RCol [C11_q1 101; C11_q1 111]).
Proof. split; [vm_compute; reflexivity|]. split; [vm_compute; reflexivity|]. eexists. vm_compute. split; reflexivity. Qed.

Example C11_nonvacuous_extra_indices :
  exists s', step (run C11_ex_ops init) (OGetItem 0 [ISlice (Some 0%Z) (Some 2%Z) None; IInt 5]) = (s', RNew) /\
             option_map vshape (nth_error (vecs s') 3) = Some [2].
Proof. eexists. vm_compute. split; reflexivity. Qed.

Example C11_nonvacuous_reload :
  exists s', step (run C11_ex_ops init) (OReload 1) = (s', RNew) /\ length (heap s') = 17.
Proof. eexists. vm_compute. split; reflexivity. Qed.
