(* C17 — Phase unwrapping recovers any smooth phase up to a constant.
   This file contains ONLY the property theorems (closed by `exact`), their assumption
   reports, and non-vacuity examples.
   Vocabulary (proof/C17_Proofs.v): `path st x r s k` = following parent pointers from x reaches
   the root r in k steps, the offsets met add up to s; `conn E x y` = x and y are connected
   through the undirected graph E; `erel es` / `prel ps` = the edge relation of a list of
   (i1,i2,inc) triples / (i1,i2) pairs; `walk M x y s` = a walk from x to y through edges of M in
   either direction whose signed increments add up to s; `inrange n es`/`prange n ps` = all
   endpoints are < n. *)
From QV.lib Require Import Prelude.
From QV.model Require Import C17_Model.
From QV.proof Require Import C17_Proofs C17_Proofs_Unwrap.
From Coq Require Import QArith Qround Qabs.
Local Close Scope Q_scope.

(* after any prefix of ANY edge list (any order, any increments, cycles, repeated and
   self edges): the union-find terminates, two vertices share a root exactly when they are
   connected by the processed edges, equivalently by the edges that actually merged trees, and
   the path sums are a potential for the merged increments: pot x - pot y is the signed sum of
   the increments along any walk through merged edges *)
Theorem C17_uf_inv :
  forall (n : nat) (es : list edge) (k : nat),
    inrange n es ->
    let fuel := fuel_of es in
    let pre := firstn k es in
    let M := merged fuel (uf_init n) pre in
    exists (st : uf) (rt : nat -> nat) (pot : nat -> Z),
      run fuel (uf_init n) pre = Some st /\
      (forall x, find fuel st x 0%Z = Some (rt x, pot x)) /\
      (forall x y, rt x = rt y <-> conn (erel pre) x y) /\
      (forall x y, rt x = rt y <-> exists s, walk M x y s) /\
      (forall x y s, walk M x y s -> (pot x - pot y)%Z = s) /\
      (forall x y i, In (x, y, i) M -> In (x, y, i) pre).
Proof. exact uf_inv. Qed.
Print Assumptions C17_uf_inv.

(* every tree has height <= number of processed edges: `find` never runs out of fuel, so the
   while-loops of find_root_and_offset / _final_offsets terminate and the model's `None` is
   unreachable *)
Theorem C17_fuel_suffices :
  forall (n : nat) (es : list edge) (fuel : nat),
    inrange n es -> length es < fuel ->
    exists (st : uf) (offs : list Z),
      run fuel (uf_init n) es = Some st /\ final_offsets fuel st n = Some offs /\ length offs = n /\
      (forall x, exists r s k, k <= length es /\ path st x r s k).
Proof. exact fuel_suffices. Qed.
Print Assumptions C17_fuel_suffices.

(* Itoh: if the true phases of two neighbours differ by less than P and the wrapped values
   are phi - 2P*K (in any window of width 2P), the increment _find_wrap computes for the edge is
   exactly K i - K j *)
Theorem C17_itoh_edge :
  forall (P fa fb wa wb : Q) (ka kb : Z),
    (0 < P)%Q ->
    (Qabs (fa - fb) < P)%Q ->
    (wa == fa - 2 * P * inject_Z ka)%Q ->
    (wb == fb - 2 * P * inject_Z kb)%Q ->
    (Qabs (wa - wb) < 2 * P)%Q ->
    find_wrap P wa wb = (ka - kb)%Z.
Proof. exact itoh_edge. Qed.
Print Assumptions C17_itoh_edge.

(* MAIN: any finite graph `ps` on n vertices (hence every grid shape, mask with holes, several
   components, with or without wrap-around edges), ANY processing order (ps is an arbitrary
   list), any phi whose edge differences are < P in absolute value, any wrapped version
   phiw = phi - 2P*K with edge differences < 2P (true for every window of width 2P, e.g.
   [-P,P) or (-P,P]): the output equals phi plus a constant on each connected component *)
Theorem C17_unwrap_correct :
  forall (P : Q) (n : nat) (ps : list (nat * nat)),
    (0 < P)%Q -> prange n ps ->
    forall (phi phiw : nat -> Q) (K : nat -> Z),
      (forall x y, In (x, y) ps -> (Qabs (phi x - phi y) < P)%Q) ->
      (forall x, (phiw x == phi x - 2 * P * inject_Z (K x))%Q) ->
      (forall x y, In (x, y) ps -> (Qabs (phiw x - phiw y) < 2 * P)%Q) ->
      exists (out : list Q) (c : nat -> Q),
        unwrap P n phiw ps = Some out /\ length out = n /\
        (forall x y, conn (prel ps) x y -> (c x == c y)%Q) /\
        (forall x, x < n -> (nth x out 0%Q == phi x + c x)%Q).
Proof. exact unwrap_correct. Qed.
Print Assumptions C17_unwrap_correct.

(* the same with the wrapped version computed by _wrap_to_pi *)
Theorem C17_unwrap_correct_wrapped :
  forall (P : Q) (n : nat) (ps : list (nat * nat)) (phi : nat -> Q),
    (0 < P)%Q -> prange n ps ->
    (forall x y, In (x, y) ps -> (Qabs (phi x - phi y) < P)%Q) ->
    exists (out : list Q) (c : nat -> Q),
      unwrap P n (fun x => wrapP P (phi x)) ps = Some out /\ length out = n /\
      (forall x y, conn (prel ps) x y -> (c x == c y)%Q) /\
      (forall x, x < n -> (nth x out 0%Q == phi x + c x)%Q).
Proof. exact unwrap_correct_wrapped. Qed.
Print Assumptions C17_unwrap_correct_wrapped.

(* instance: the edge set _build_edges constructs for an H x W grid, bounded or periodic, with
   any mask, processed in any order (any permutation, so whatever the reliability sort does) *)
Theorem C17_unwrap_correct_grid :
  forall (P : Q) (H W : nat) (wrap : bool) (mask : nat -> bool) (order : list (nat * nat))
         (phi phiw : nat -> Q) (K : nat -> Z),
    (0 < P)%Q ->
    Permutation order (grid_pairs H W wrap mask) ->
    (forall x y, In (x, y) (grid_pairs H W wrap mask) -> (Qabs (phi x - phi y) < P)%Q) ->
    (forall x, (phiw x == phi x - 2 * P * inject_Z (K x))%Q) ->
    (forall x y, In (x, y) (grid_pairs H W wrap mask) -> (Qabs (phiw x - phiw y) < 2 * P)%Q) ->
    exists (out : list Q) (c : nat -> Q),
      unwrap P (H * W) phiw order = Some out /\ length out = H * W /\
      (forall x y, conn (prel (grid_pairs H W wrap mask)) x y -> (c x == c y)%Q) /\
      (forall x, x < H * W -> (nth x out 0%Q == phi x + c x)%Q).
Proof. exact unwrap_correct_grid. Qed.
Print Assumptions C17_unwrap_correct_grid.

(* for ANY input (smooth or not) the output differs from the wrapped input by integer
   multiples of 2P plus one constant *)
Theorem C17_unwrap_congruent :
  forall (P : Q) (n : nat) (ps : list (nat * nat)),
    prange n ps ->
    forall phiw : nat -> Q,
      exists (out : list Q) (c0 : Q),
        unwrap P n phiw ps = Some out /\ length out = n /\
        (forall x, x < n -> exists k : Z, (nth x out 0%Q - phiw x == 2 * P * inject_Z k + c0)%Q).
Proof. exact unwrap_congruent. Qed.
Print Assumptions C17_unwrap_congruent.

(* already-unwrapped smooth input: returned unchanged before the mean subtraction, hence
   unchanged up to one constant *)
Theorem C17_smooth_unchanged :
  forall (P : Q) (n : nat) (ps : list (nat * nat)),
    prange n ps ->
    forall phi : nat -> Q,
      (forall x y, In (x, y) ps -> (Qabs (phi x - phi y) <= P)%Q) ->
      (exists out, unwrap_raw P n phi ps = Some out /\ length out = n /\
                   forall x, x < n -> (nth x out 0%Q == phi x)%Q) /\
      (exists out c0, unwrap P n phi ps = Some out /\ length out = n /\
                      forall x, x < n -> (nth x out 0%Q == phi x + c0)%Q).
Proof. exact smooth_unchanged. Qed.
Print Assumptions C17_smooth_unchanged.

(* ---------------------------------------------------------------- non-vacuity *)
(* a cycle whose closing edge is inconsistent: three edges merge, the fourth is skipped *)
Example C17_nonvacuous_uf :
  let es := el [(0, 1, 1); (2, 3, -1); (1, 2, 0); (3, 0, 5)]%Z in
  inrange 4 es /\
  uf_offsets 4 es = Some [0; -1; -1; 0]%Z /\
  ztriples (merged (fuel_of es) (uf_init 4) es) = [(0, 1, 1); (2, 3, -1); (1, 2, 0)]%Z.
Proof.
  cbv zeta. split; [|split; vm_compute; reflexivity].
  intros x y i Hi. vm_compute in Hi.
  repeat (destruct Hi as [Hi|Hi]; [inversion Hi; subst; lia|]). contradiction.
Qed.

Example C17_nonvacuous_itoh :
  (0 < 3)%Q /\ (Qabs (4 - 2) < 3)%Q /\ (-2 == 4 - 2 * 3 * inject_Z 1)%Q /\
  (2 == 2 - 2 * 3 * inject_Z 0)%Q /\ (Qabs (-2 - 2) < 2 * 3)%Q /\ find_wrap 3 (-2) 2 = (1 - 0)%Z.
Proof. repeat split; vm_compute; reflexivity. Qed.

(* 3 x 5 bounded grid; mask = a ring (a hole inside, one cycle) in columns 0-2 and a separate
   strip in column 4; phi = 2*col + row (wraps up to K = 2 with P = 3).  The hypotheses of
   C17_unwrap_correct_wrapped hold, and the output is phi on the ring and phi - 6 on the strip
   (masked-out pixels keep their wrapped value) *)
Definition C17_ex_mask : nat -> bool :=
  mask_of [true; true; true; false; true;  true; false; true; false; true;
           true; true; true; false; true].
Definition C17_ex_phi (i : nat) : Q := inject_Z (2 * Z.of_nat (i mod 5) + Z.of_nat (i / 5)).

Example C17_nonvacuous_unwrap :
  let ps := grid_pairs 3 5 false C17_ex_mask in
  length ps = 10 /\
  forallb (fun e => Qltb (Qabs (C17_ex_phi (fst e) - C17_ex_phi (snd e))) 3) ps = true /\
  map (fun i => wrapK 3 (C17_ex_phi i)) (seq 0 15) = [0; 0; 1; 1; 1; 0; 1; 1; 1; 2; 0; 1; 1; 1; 2]%Z /\
  option_map (map Qred) (unwrap_raw 3 15 (fun x => wrapP 3 (C17_ex_phi x)) ps)
  = Some [0; 2; 4; 0; 2;  1; -3; 5; 1; 3;  2; 4; 6; 2; 4]%Q.
Proof. cbv zeta. repeat split; vm_compute; reflexivity. Qed.

(* periodic 1 x 4 grid (wrap-around edge 3 -> 0), not smooth across the seam: still congruent *)
Example C17_nonvacuous_congruent :
  option_map (map Qred)
    (unwrap_raw 3 4 (phase_of 1 [0; 2; -2; 0]%Z) (grid_pairs 1 4 true (fun _ => true)))
  = Some [0; 2; 4; 6]%Q.
Proof. vm_compute. reflexivity. Qed.

Example C17_nonvacuous_smooth :
  let ps := grid_pairs 2 3 false (fun _ => true) in
  forallb (fun e => Qle_bool (Qabs (phase_of 1 [0; 2; 4; 1; 3; 5]%Z (fst e) - phase_of 1 [0; 2; 4; 1; 3; 5]%Z (snd e))) 3) ps = true /\
  option_map (map Qred) (unwrap_raw 3 6 (phase_of 1 [0; 2; 4; 1; 3; 5]%Z) ps) = Some [0; 2; 4; 1; 3; 5]%Q.
Proof. cbv zeta. split; vm_compute; reflexivity. Qed.
