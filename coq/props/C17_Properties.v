(* C17 — Phase unwrapping recovers any smooth phase up to a constant.
   This file contains ONLY the property theorems (closed by `exact`), their assumption
   reports, and non-vacuity examples.
   Vocabulary (proof/C17_Proofs.v): `path st x r s k` = following parent pointers from x reaches
   the root r in k steps, the offsets met add up to s; `conn E x y` = x and y are connected
   through the undirected graph E; `erel es` / `prel ps` = the edge relation of a list of
   (i1,i2,inc) triples / (i1,i2) pairs; `walk M x y s` = a walk from x to y through edges of M in
   either direction whose signed increments add up to s; `inrange n es`/`prange n ps` = all
   endpoints are < n. *)
From QV.lib Require Import Prelude.
From QV.model Require Import C17_Model.
From QV.proof Require Import C17_Proofs C17_Proofs_Unwrap.
From Coq Require Import QArith Qround Qabs.
Local Close Scope Q_scope.

(* after any prefix of ANY edge list (any order, any increments, cycles, repeated and
   self edges): the union-find terminates, two vertices share a root exactly when they are
   connected by the processed edges, equivalently by the edges that actually merged trees, and
   the path sums are a potential for the merged increments: pot x - pot y is the signed sum of
   the increments along any walk through merged edges *)
Theorem C17_uf_inv :
  forall (n : nat) (es : list edge) (k : nat),
    inrange n es ->
    let fuel := fuel_of es in
    let pre := firstn k es in
    let M := merged fuel (uf_init n) pre in
    exists (st : uf) (rt : nat -> nat) (pot : nat -> Z),
      run fuel (uf_init n) pre = Some st /\
      (forall x, find fuel st x 0%Z = Some (rt x, pot x)) /\
      (forall x y, rt x = rt y <-> conn (erel pre) x y) /\
      (forall x y, rt x = rt y <-> exists s, walk M x y s) /\
      (forall x y s, walk M x y s -> (pot x - pot y)%Z = s) /\
      (forall x y i, In (x, y, i) M -> In (x, y, i) pre).
Proof. exact uf_inv. Qed.
Print Assumptions C17_uf_inv.

(* every tree has height <= number of processed edges: `find` never runs out of fuel, so the
   while-loops of find_root_and_offset / _final_offsets terminate and the model's `None` is
   unreachable *)
Theorem C17_fuel_suffices :
  forall (n : nat) (es : list edge) (fuel : nat),
    inrange n es -> length es < fuel ->
    exists (st : uf) (offs : list Z),
      run fuel (uf_init n) es = Some st /\ final_offsets fuel st n = Some offs /\ length offs = n /\
      (forall x, exists r s k, k <= length es /\ path st x r s k).
Proof. exact fuel_suffices. Qed.
Print Assumptions C17_fuel_suffices.

(* Itoh: if the true phases of two neighbours differ by less than P and the wrapped values
   are phi - 2P*K (in any window of width 2P), the increment _find_wrap computes for the edge is
   exactly K i - K j *)
Theorem C17_itoh_edge :
  forall (P fa fb wa wb : Q) (ka kb : Z),
    (0 < P)%Q ->
    (Qabs (fa - fb) < P)%Q ->
    (wa == fa - 2 * P * inject_Z ka)%Q ->
    (wb == fb - 2 * P * inject_Z kb)%Q ->
    (Qabs (wa - wb) < 2 * P)%Q ->
    find_wrap P wa wb = (ka - kb)%Z.
Proof. exact itoh_edge. Qed.
Print Assumptions C17_itoh_edge.

(* MAIN: any finite graph `ps` on n vertices (hence every grid shape, mask with holes, several
   components, with or without wrap-around edges), ANY processing order (ps is an arbitrary
   list), any phi whose edge differences are < P in absolute value, any wrapped version
   phiw = phi - 2P*K with edge differences < 2P (true for every window of width 2P, e.g.
   [-P,P) or (-P,P]): the output equals phi plus a constant on each connected component *)
Theorem C17_unwrap_correct :
  forall (P : Q) (n : nat) (ps : list (nat * nat)),
    (0 < P)%Q -> prange n ps ->
    forall (phi phiw : nat -> Q) (K : nat -> Z),
      (forall x y, In (x, y) ps -> (Qabs (phi x - phi y) < P)%Q) ->
      (forall x, (phiw x == phi x - 2 * P * inject_Z (K x))%Q) ->
      (forall x y, In (x, y) ps -> (Qabs (phiw x - phiw y) < 2 * P)%Q) ->
      exists (out : list Q) (c : nat -> Q),
        unwrap P n phiw ps = Some out /\ length out = n /\
        (forall x y, conn (prel ps) x y -> (c x == c y)%Q) /\
        (forall x, x < n -> (nth x out 0%Q == phi x + c x)%Q).
Proof. exact unwrap_correct. Qed.
Print Assumptions C17_unwrap_correct.

(* the same with the wrapped version computed by _wrap_to_pi *)
Theorem C17_unwrap_correct_wrapped :
  forall (P : Q) (n : nat) (ps : list (nat * nat)) (phi : nat -> Q),
    (0 < P)%Q -> prange n ps ->
    (forall x y, In (x, y) ps -> (Qabs (phi x - phi y) < P)%Q) ->
    exists (out : list Q) (c : nat -> Q),
      unwrap P n (fun x => wrapP P (phi x)) ps = Some out /\ length out = n /\
      (forall x y, conn (prel ps) x y -> (c x == c y)%Q) /\
      (forall x, x < n -> (nth x out 0%Q == phi x + c x)%Q).
Proof. exact unwrap_correct_wrapped. Qed.
Print Assumptions C17_unwrap_correct_wrapped.

(* instance: the edge set _build_edges constructs for an H x W grid, bounded or periodic, with
   any mask, processed in any order (any permutation, so whatever the reliability sort does) *)
Theorem C17_unwrap_correct_grid :
  forall (P : Q) (H W : nat) (wrap : bool) (mask : nat -> bool) (order : list (nat * nat))
         (phi phiw : nat -> Q) (K : nat -> Z),
    (0 < P)%Q ->
    Permutation order (grid_pairs H W wrap mask) ->
    (forall x y, In (x, y) (grid_pairs H W wrap mask) -> (Qabs (phi x - phi y) < P)%Q) ->
    (forall x, (phiw x == phi x - 2 * P * inject_Z (K x))%Q) ->
    (forall x y, In (x, y) (grid_pairs H W wrap mask) -> (Qabs (phiw x - phiw y) < 2 * P)%Q) ->
    exists (out : list Q) (c : nat -> Q),
      unwrap P (H * W) phiw order = Some out /\ length out = H * W /\
      (forall x y, conn (prel (grid_pairs H W wrap mask)) x y -> (c x == c y)%Q) /\
      (forall x, x < H * W -> (nth x out 0%Q == phi x + c x)%Q).
Proof. exact unwrap_correct_grid. Qed.
Print Assumptions C17_unwrap_correct_grid.

(* for ANY input (smooth or not) the output differs from the wrapped input by integer
   multiples of 2P plus one constant *)
Theorem C17_unwrap_congruent :
  forall (P : Q) (n : nat) (ps : list (nat * nat)),
    prange n ps ->
    forall phiw : nat -> Q,
      exists (out : list Q) (c0 : Q),
        unwrap P n phiw ps = Some out /\ length out = n /\
        (forall x, x < n -> exists k : Z, (nth x out 0%Q - phiw x == 2 * P * inject_Z k + c0)%Q).
Proof. exact unwrap_congruent. Qed.
Print Assumptions C17_unwrap_congruent.

(* already-unwrapped smooth input: returned unchanged before the mean subtraction, hence
   unchanged up to one constant *)
Theorem C17_smooth_unchanged :
  forall (P : Q) (n : nat) (ps : list (nat * nat)),
    prange n ps ->
    forall phi : nat -> Q,
      (forall x y, In (x, y) ps -> (Qabs (phi x - phi y) <= P)%Q) ->
      (exists out, unwrap_raw P n phi ps = Some out /\ length out = n /\
                   forall x, x < n -> (nth x out 0%Q == phi x)%Q) /\
      (exists out c0, unwrap P n phi ps = Some out /\ length out = n /\
                      forall x, x < n -> (nth x out 0%Q == phi x + c0)%Q).
Proof. exact smooth_unchanged. Qed.
Print Assumptions C17_smooth_unchanged.

(* ---------------------------------------------------------------- non-vacuity *)
(* a cycle whose closing edge is inconsistent: three edges merge, the fourth is skipped *)
Example C17_nonvacuous_uf :
  let es := el [(0, 1, 1); (2, 3, -1); (1, 2, 0); (3, 0, 5)]%Z in
  inrange 4 es /\
  uf_offsets 4 es = Some [0; -1; -1; 0]%Z /\
  ztriples (merged (fuel_of es) (uf_init 4) es) = [(0, 1, 1); (2, 3, -1); (1, 2, 0)]%Z.
Proof.
  cbv zeta. split; [|split; vm_compute; reflexivity].
  intros x y i Hi. vm_compute in Hi.
  repeat (destruct Hi as [Hi|Hi]; [inversion Hi; subst; lia|]). contradiction.
Qed.

Example C17_nonvacuous_itoh :
  (0 < 3)%Q /\ (Qabs (4 - 2) < 3)%Q /\ (-2 == 4 - 2 * 3 * inject_Z 1)%Q /\
  (2 == 2 - 2 * 3 * inject_Z 0)%Q /\ (Qabs (-2 - 2) < 2 * 3)%Q /\ find_wrap 3 (-2) 2 = (1 - 0)%Z.
Proof. repeat split; vm_compute; reflexivity. Qed.

(* 3 x 5 bounded grid; mask = a ring (a hole inside, one cycle) in columns 0-2 and a separate
   strip in column 4; phi = 2*col + row (wraps up to K = 2 with P = 3).  The hypotheses of
   C17_unwrap_correct_wrapped hold, and the output is phi on the ring and phi - 6 on the strip
   (masked-out pixels keep their wrapped value) *)
Definition C17_ex_mask : nat -> bool :=
  mask_of [true; true; true; false; true;  true; false; true; false; true;
           true; true; true; false; true].
Definition C17_ex_phi (i : nat) : Q := inject_Z (2 * Z.of_nat (i mod 5) + Z.of_nat (i / 5)).

Example C17_nonvacuous_unwrap :
  let ps := grid_pairs 3 5 false C17_ex_mask in
  length ps = 10 /\
  forallb (fun e => Qltb (Qabs (C17_ex_phi (fst e) - C17_ex_phi (snd e))) 3) ps = true /\
  map (fun i => wrapK 3 (C17_ex_phi i)) (seq 0 15) = [0; 0; 1; 1; 1; 0; 1; 1; 1; 2; 0; 1; 1; 1; 2]%Z /\
  option_map (map Qred) (unwrap_raw 3 15 (fun x => wrapP 3 (C17_ex_phi x)) ps)
  = Some [0; 2; 4; 0; 2;  1; -3; 5; 1; 3;  2; 4; 6; 2; 4]%Q.
Proof. cbv zeta. repeat split; vm_compute; reflexivity. Qed.

(* periodic 1 x 4 grid (wrap-around edge 3 -> 0), not smooth across the seam: still congruent *)
Example C17_nonvacuous_congruent :
  option_map (map Qred)
    (unwrap_raw 3 4 (phase_of 1 [0; 2; -2; 0]%Z) (grid_pairs 1 4 true (fun _ => true)))
  = Some [0; 2; 4; 6]%Q.
Proof. vm_compute. reflexivity. Qed.

Example C17_nonvacuous_smooth :
  let ps := grid_pairs 2 3 false (fun _ => true) in
  forallb (fun e => Qle_bool (Qabs (phase_of 1 [0; 2; 4; 1; 3; 5]%Z (fst e) - phase_of 1 [0; 2; 4; 1; 3; 5]%Z (snd e))) 3) ps = true /\
  option_map (map Qred) (unwrap_raw 3 6 (phase_of 1 [0; 2; 4; 1; 3; 5]%Z) ps) = Some [0; 2; 4; 1; 3; 5]%Q.
Proof. cbv zeta. split; vm_compute; reflexivity. Qed.

(* ======================================================================================
   Round 3: the reliability computation and the edge sort as an explicit permutation, the
   driver in the code's own order, congruence per component, the grid edges spelled out, and
   the masked embedding of unwrap_bf_overlap_phase_torch (model/C17_Model_Ext.v,
   proof/C17_Proofs_Ext.v, proof/C17_Proofs_BF.v)
   ====================================================================================== *)
From QV.model Require Import C17_Model_Ext.
From QV.proof Require Import C17_Proofs_Ext C17_Proofs_BF.
From Coq Require Import Sorted.

(* `order = rel.argsort()` then `i1[order], i2[order], inc[order]`: whatever the keys are, the
   sorted list is a permutation of its input and its keys ascend *)
Theorem C17_sort_permutation :
  forall (A : Type) (key : A -> Q) (l : list A),
    Permutation (sort_by key l) l /\
    Sorted Qle (map fst (isort_kv (map (fun a => (key a, a)) l))) /\
    map fst (isort_kv (map (fun a => (key a, a)) l)) = map key (sort_by key l).
Proof. exact sort_permutation_full. Qed.
Print Assumptions C17_sort_permutation.

(* the order in which the driver feeds the union-find (edges sorted by rel[i1] + rel[i2], rel =
   _pixel_reliability) is a permutation of the grid edges, with ascending keys *)
Theorem C17_code_order :
  forall (P : Q) (H W : nat) (wrap : bool) (mask : nat -> bool) (phi : nat -> Q),
    Permutation (code_order P H W wrap mask phi) (grid_pairs H W wrap mask) /\
    Sorted Qle (code_keys P H W wrap mask phi) /\
    code_keys P H W wrap mask phi
    = map (edge_key (rel_list P H W phi)) (code_order P H W wrap mask phi).
Proof. exact code_order_full. Qed.
Print Assumptions C17_code_order.

(* MAIN, for the code's own order: reliability -> sort -> union-find -> output recovers every
   smooth field up to one constant per connected component of the mask *)
Theorem C17_unwrap_code_correct :
  forall (P : Q) (H W : nat) (wrap : bool) (mask : nat -> bool) (phi phiw : nat -> Q) (K : nat -> Z),
    (0 < P)%Q ->
    (forall x y, In (x, y) (grid_pairs H W wrap mask) -> (Qabs (phi x - phi y) < P)%Q) ->
    (forall x, (phiw x == phi x - 2 * P * inject_Z (K x))%Q) ->
    (forall x y, In (x, y) (grid_pairs H W wrap mask) -> (Qabs (phiw x - phiw y) < 2 * P)%Q) ->
    exists (out : list Q) (c : nat -> Q),
      unwrap_code P H W wrap mask phiw = Some out /\ length out = H * W /\
      (forall x y, conn (prel (grid_pairs H W wrap mask)) x y -> (c x == c y)%Q) /\
      (forall x, x < H * W -> (nth x out 0%Q == phi x + c x)%Q).
Proof. exact unwrap_code_correct. Qed.
Print Assumptions C17_unwrap_code_correct.

Theorem C17_unwrap_code_congruent :
  forall (P : Q) (H W : nat) (wrap : bool) (mask : nat -> bool) (phiw : nat -> Q),
    exists (out : list Q) (c0 : Q),
      unwrap_code P H W wrap mask phiw = Some out /\ length out = H * W /\
      forall x, x < H * W -> exists k : Z, (nth x out 0%Q - phiw x == 2 * P * inject_Z k + c0)%Q.
Proof. exact unwrap_code_congruent. Qed.
Print Assumptions C17_unwrap_code_congruent.

Theorem C17_unwrap_code_smooth_unchanged :
  forall (P : Q) (H W : nat) (wrap : bool) (mask : nat -> bool) (phi : nat -> Q),
    (forall x y, In (x, y) (grid_pairs H W wrap mask) -> (Qabs (phi x - phi y) <= P)%Q) ->
    exists (out : list Q) (c0 : Q),
      unwrap_code P H W wrap mask phi = Some out /\ length out = H * W /\
      forall x, x < H * W -> (nth x out 0%Q == phi x + c0)%Q.
Proof. exact unwrap_code_smooth_unchanged. Qed.
Print Assumptions C17_unwrap_code_smooth_unchanged.

(* ANY input, several components: out = phiw + 2P * pot + ONE constant; each component has a
   pixel with multiple 0; inside a component the multiples differ by the signed sum of the
   _find_wrap increments along a walk through the graph *)
Theorem C17_unwrap_congruent_components :
  forall (P : Q) (n : nat) (ps : list (nat * nat)) (phiw : nat -> Q),
    prange n ps ->
    exists (out : list Q) (pot : nat -> Z) (c0 : Q),
      unwrap P n phiw ps = Some out /\ length out = n /\
      (forall x, x < n -> (nth x out 0%Q == phiw x + 2 * P * inject_Z (pot x) + c0)%Q) /\
      (forall x, exists r, conn (prel ps) x r /\ pot r = 0%Z) /\
      (forall x y, conn (prel ps) x y ->
         exists s, walk (incs_of P phiw ps) x y s /\ (pot x - pot y)%Z = s).
Proof. exact unwrap_congruent_components_full. Qed.
Print Assumptions C17_unwrap_congruent_components.

(* pixels no edge touches (outside the mask, single-pixel components) keep their input value
   up to the global constant *)
Theorem C17_unwrap_isolated_pixel :
  forall (P : Q) (n : nat) (ps : list (nat * nat)) (phiw : nat -> Q),
    prange n ps ->
    exists (out : list Q) (c0 : Q),
      unwrap P n phiw ps = Some out /\
      forall x, x < n -> (forall y, ~ In (x, y) ps /\ ~ In (y, x) ps) ->
                (nth x out 0%Q == phiw x + c0)%Q.
Proof. exact unwrap_isolated_pixel_full. Qed.
Print Assumptions C17_unwrap_isolated_pixel.

(* what "connected region of the mask" means: the edges are exactly the right / lower
   4-neighbour pairs with both ends in the mask (modulo the grid size when wrap_around) *)
Theorem C17_grid_edges :
  forall (H W : nat) (mask : nat -> bool) (x y : nat),
    (In (x, y) (grid_pairs H W false mask) <->
     x < H * W /\ mask x = true /\ mask y = true /\
     ((y = x + 1 /\ x mod W + 1 < W) \/ (y = x + W /\ x / W + 1 < H))) /\
    (In (x, y) (grid_pairs H W true mask) <->
     x < H * W /\ mask x = true /\ mask y = true /\
     (y = (x / W) * W + (x mod W + 1) mod W \/ y = ((x / W + 1) mod H) * W + x mod W)).
Proof. exact grid_edges_full. Qed.
Print Assumptions C17_grid_edges.

(* masked embedding (unwrap_bf_overlap_phase_torch): the bright-field samples `ang` (angles in
   (-P, P] of a field that is smooth across the edges of the embedded mask) are embedded into the
   H x W grid, unwrapped (guard `max - min > P`, first pass on phase * mask, optional second
   pass), and read back.  The result is the field plus one constant per connected component of
   the embedded mask; any per-pass processing order that is a permutation of the grid edges *)
Theorem C17_bf_correct :
  forall (P : Q) (H W : nat) (wrap : bool)
         (ord : nat -> (nat -> bool) -> (nat -> Q) -> list (nat * nat))
         (bf : list bool) (ang : list Q) (mask_bf : list bool) (two_pass : bool)
         (phi : nat -> Q) (K : nat -> Z),
    let pg := embed bf ang 0%Q in
    let mask := mask_of (embed bf mask_bf false) in
    let gp := grid_pairs H W wrap mask in
    (0 < P)%Q -> length bf = H * W ->
    (forall pass m f, Permutation (ord pass m f) (grid_pairs H W wrap m)) ->
    (forall x y, In (x, y) gp -> (Qabs (phi x - phi y) < P)%Q) ->
    (forall x, mask x = true -> (lfun pg x == phi x - 2 * P * inject_Z (K x))%Q) ->
    (forall x, mask x = true -> (- P < lfun pg x /\ lfun pg x <= P)%Q) ->
    exists (G : list Q) (c : nat -> Q),
      bf_grid P H W wrap ord bf ang mask_bf two_pass = Some G /\
      bf_unwrap P H W wrap ord bf ang mask_bf two_pass = Some (extract bf G) /\
      length G = H * W /\
      (forall x y, conn (prel gp) x y -> (c x == c y)%Q) /\
      (forall x, mask x = true -> (nth x G 0%Q == phi x + c x)%Q).
Proof. exact bf_correct_full. Qed.
Print Assumptions C17_bf_correct.

(* ... and for ANY samples the result differs from them by multiples of 2P plus one constant
   on the embedded mask *)
Theorem C17_bf_congruent :
  forall (P : Q) (H W : nat) (wrap : bool)
         (ord : nat -> (nat -> bool) -> (nat -> Q) -> list (nat * nat))
         (bf : list bool) (ang : list Q) (mask_bf : list bool) (two_pass : bool),
    let pg := embed bf ang 0%Q in
    let mask := mask_of (embed bf mask_bf false) in
    length bf = H * W ->
    (forall pass m f, Permutation (ord pass m f) (grid_pairs H W wrap m)) ->
    exists (G : list Q) (c0 : Q),
      bf_grid P H W wrap ord bf ang mask_bf two_pass = Some G /\ length G = H * W /\
      forall x, mask x = true ->
                exists k : Z, (nth x G 0%Q - lfun pg x == 2 * P * inject_Z k + c0)%Q.
Proof. exact bf_congruent_full. Qed.
Print Assumptions C17_bf_congruent.

(* the code's own order (reliability sort in each pass) is such an order; embedding then reading
   back is the identity on the samples; grids related on the bright-field pixels give related
   sample lists *)
Theorem C17_bf_embedding :
  (forall P H W wrap pass m f,
     Permutation (bf_code_ord P H W wrap pass m f) (grid_pairs H W wrap m)) /\
  (forall (A : Type) (bf : list bool) (vals : list A) (d : A),
     length vals = count_true bf -> extract bf (embed bf vals d) = vals) /\
  (forall (A B : Type) (R : A -> B -> Prop) (bf : list bool) (g1 : list A) (g2 : list B) d1 d2,
     length g1 = length bf -> length g2 = length bf ->
     (forall x, nth x bf false = true -> R (nth x g1 d1) (nth x g2 d2)) ->
     Forall2 R (extract bf g1) (extract bf g2)).
Proof. exact bf_embedding_full. Qed.
Print Assumptions C17_bf_embedding.

(* the observables the harness compares with the implementation are the model's: the combined
   run gives uf_offsets and the final state, and the k-th entry of the per-step trace is the
   state of the run on the first k+1 edges (the prefixes C17_uf_inv speaks about) *)
Theorem C17_harness_observables :
  forall (n : nat) (es : list edge),
    option_map fst (uf_run_obs n es) = uf_offsets n es /\
    (forall o s, uf_run_obs n es = Some (o, s) -> uf_state n es = Some s) /\
    (forall k s, nth_error (uf_trace n es) k = Some (Some s) ->
       exists st', run (fuel_of es) (uf_init n) (firstn (S k) es) = Some st' /\ s = st_z st').
Proof. exact harness_observables_full. Qed.
Print Assumptions C17_harness_observables.

(* ---------------------------------------------------------------- non-vacuity (round 3) *)
(* the sort is stable and really reorders *)
Example C17_nonvacuous_sort :
  sort_by (fun p : Z * Z => inject_Z (fst p)) [(3, 0); (1, 1); (2, 2); (1, 3); (0, 4); (3, 5)]%Z
  = [(0, 4); (1, 1); (1, 3); (2, 2); (3, 0); (3, 5)]%Z.
Proof. vm_compute. reflexivity. Qed.

(* 3 x 3 bounded grid, P = 3, wrapped ramp 2*col + row: the reliabilities are 0 in the middle
   row and 27 elsewhere (the rolls wrap around the border), the sorted order starts with the
   middle row and differs from the construction order; the driver in that order returns the ramp *)
Definition C17_ex3 : nat -> Q := phase_of 1 [0; 2; -2;  1; 3; -1;  2; -2; 0]%Z.
Example C17_nonvacuous_code_order :
  map Qred (rel_list 3 3 3 C17_ex3) = [27; 27; 27; 0; 0; 0; 27; 27; 27]%Q /\
  zpairs (grid_pairs 3 3 false (fun _ => true))
  = [(0, 1); (1, 2); (3, 4); (4, 5); (6, 7); (7, 8); (0, 3); (1, 4); (2, 5); (3, 6); (4, 7); (5, 8)]%Z /\
  zpairs (code_order 3 3 3 false (fun _ => true) C17_ex3)
  = [(3, 4); (4, 5); (0, 3); (1, 4); (2, 5); (3, 6); (4, 7); (5, 8); (0, 1); (1, 2); (6, 7); (7, 8)]%Z /\
  map Qred (code_keys 3 3 3 false (fun _ => true) C17_ex3) = [0; 0; 27; 27; 27; 27; 27; 27; 54; 54; 54; 54]%Q /\
  option_map (map Qred) (unwrap_raw 3 9 C17_ex3 (code_order 3 3 3 false (fun _ => true) C17_ex3))
  = Some [0; 2; 4; 1; 3; 5; 2; 4; 6]%Q /\
  option_map (map Qred) (unwrap_code 3 3 3 false (fun _ => true) C17_ex3)
  = Some [-3; -1; 1; -2; 0; 2; -1; 1; 3]%Q.
Proof. repeat split; vm_compute; reflexivity. Qed.

(* two components and a masked-out pixel (the example of C17_nonvacuous_unwrap): the ring gets
   multiples relative to its root, the strip relative to its own root, pixel 3 (outside the
   mask) keeps multiple 0 *)
Example C17_nonvacuous_components :
  let ps := grid_pairs 3 5 false C17_ex_mask in
  uf_offsets 15 (incs_of 3 (fun x => wrapP 3 (C17_ex_phi x)) ps)
  = Some [0; 0; 1; 0; 0;  0; 0; 1; 0; 1;  0; 1; 1; 0; 1]%Z /\
  (forall y, y < 15 -> ~ In (3, y) ps /\ ~ In (y, 3) ps).
Proof.
  cbv zeta. split; [vm_compute; reflexivity|].
  intros y Hy. split; intros Hin; vm_compute in Hin;
    repeat (destruct Hin as [Hin|Hin]; [inversion Hin; subst; lia|]); contradiction.
Qed.

(* masked embedding on a 3 x 4 grid: bright field = all pixels but two corners, one more sample
   excluded by mask_bf; field 2*col + row + 1/2, P = 3.  The hypotheses of C17_bf_correct
   hold and the unwrapping branch is taken; result = field - 431/96 on the mask *)
Definition C17_bf_bf := [false; true; true; true;  true; true; true; true;  true; true; true; false].
Definition C17_bf_phi : list Q := [5 # 2; 9 # 2; 13 # 2;  3 # 2; 7 # 2; 11 # 2; 15 # 2;  5 # 2; 9 # 2; 13 # 2]%Q.
Definition C17_bf_ang : list Q := map (wrapP 3) C17_bf_phi.
Definition C17_bf_mask := [true; true; true;  true; true; false; true;  true; true; true].
Example C17_nonvacuous_bf :
  let mask := mask_of (embed C17_bf_bf C17_bf_mask false) in
  let phi := lfun (embed C17_bf_bf C17_bf_phi 0%Q) in
  let pg := embed C17_bf_bf C17_bf_ang 0%Q in
  length C17_bf_bf = 3 * 4 /\
  forallb (fun e => Qltb (Qabs (phi (fst e) - phi (snd e))) 3) (grid_pairs 3 4 false mask) = true /\
  forallb (fun x => negb (mask x) || (Qltb (-3) (lfun pg x) && Qle_bool (lfun pg x) 3)) (seq 0 12) = true /\
  forallb (fun x => negb (mask x) ||
                    Qeq_bool (lfun pg x) (phi x - 2 * 3 * inject_Z (wrapK 3 (phi x)))) (seq 0 12) = true /\
  bf_branch 3 C17_bf_bf C17_bf_ang C17_bf_mask = 2%Z /\
  option_map (map Qred)
    (bf_unwrap 3 3 4 false (bf_code_ord 3 3 4 false) C17_bf_bf C17_bf_ang C17_bf_mask true)
  = Some [-191 # 96; 1 # 96; 193 # 96;  -287 # 96; -95 # 96; 0; 289 # 96;  -191 # 96; 1 # 96; 193 # 96]%Q /\
  ((5 # 2) - (431 # 96) == -191 # 96)%Q /\ ((15 # 2) - (431 # 96) == 289 # 96)%Q.
Proof. cbv zeta. repeat split; vm_compute; reflexivity. Qed.

(* the union-find state after every union of C17_nonvacuous_uf (per-step observable) *)
Example C17_nonvacuous_trace :
  uf_trace 4 (el [(0, 1, 1); (2, 3, -1); (1, 2, 0); (3, 0, 5)]%Z)
  = [Some ([0; 0; 2; 3], [1; 0; 0; 0], [0; -1; 0; 0]);
     Some ([0; 0; 2; 2], [1; 0; 1; 0], [0; -1; 0; 1]);
     Some ([0; 0; 0; 2], [2; 0; 1; 0], [0; -1; -1; 1]);
     Some ([0; 0; 0; 2], [2; 0; 1; 0], [0; -1; -1; 1])]%Z.
Proof. vm_compute. reflexivity. Qed.

(* ======================================================================================
   Round 4 (model/C17_Model_Tie.v, proof/C17_Proofs_Tie.v): statements the translator tie
   (gen_proofs/C17_GenProperties.v, compiled by the check against the functions translated
   from the current source) rests on
   ====================================================================================== *)
From QV.model Require Import C17_Model_Tie.
From QV.proof Require Import C17_Proofs_Tie.

(* the explicit fuel is only a device: for EVERY fuel above the number of edges the fuelled
   union-find run followed by _final_offsets returns the same offsets (those of uf_offsets,
   which uses fuel_of es), and it never returns None.  The while-loops of
   find_root_and_offset / _final_offsets have no bound in the code: this is what lets a
   function translated with an arbitrary sufficient fuel be compared with the model *)
Theorem C17_any_fuel :
  forall (n : nat) (es : list edge) (fuel : nat),
    inrange n es -> length es < fuel ->
    match run fuel (uf_init n) es with Some st => final_offsets fuel st n | None => None end
    = uf_offsets n es /\
    exists offs, uf_offsets n es = Some offs /\ length offs = n.
Proof. exact uf_offsets_any_fuel. Qed.
Print Assumptions C17_any_fuel.

(* `order = rel.argsort()` followed by `col[order]` on parallel columns of a list of records is
   the stable sort of the records by the key, and the sort sees the keys only up to equality of
   rationals (the model reduces its keys with Qred, the code does not) *)
Theorem C17_argsort_gather :
  forall (A B : Type) (f : A -> B) (key key' : A -> Q) (d : B) (L : list A),
    gather (lget d (map f L)) (argsort (map key L)) = map f (sort_by key L) /\
    ((forall a, (key a == key' a)%Q) -> sort_by key L = sort_by key' L).
Proof. intros A B f key key' d L. exact (conj (gather_argsort f key d L) (sort_by_qeq key key' L)). Qed.
Print Assumptions C17_argsort_gather.

(* the index tensors of _build_edges (arange(N).reshape(H, W), rolled by -1 along each axis when
   wrap_around, sliced [:, :-1] / [:, 1:] / [:-1, :] / [1:, :] otherwise, flattened, filtered by the
   mask on both pixels) enumerate exactly the model's grid_pairs, in the same order, for EVERY H, W *)
Theorem C17_index_tensors :
  forall (H W : nat) (wrap : bool) (m : nat -> bool),
    let idx := t_reshape H W (t_arange (H * W)) in
    grid_pairs H W wrap m
    = if wrap
      then filter (pmask m) (combine (t_flatten idx) (t_flatten (t_roll (-1) 1 idx)))
           ++ filter (pmask m) (combine (t_flatten idx) (t_flatten (t_roll (-1) 0 idx)))
      else filter (pmask m) (combine (t_flatten (t_slice None None None (Some (-1)%Z) idx))
                                     (t_flatten (t_slice None None (Some 1%Z) None idx)))
           ++ filter (pmask m) (combine (t_flatten (t_slice None (Some (-1)%Z) None None idx))
                                        (t_flatten (t_slice (Some 1%Z) None None None idx))).
Proof. exact grid_pairs_from_tensors. Qed.
Print Assumptions C17_index_tensors.

Example C17_nonvacuous_any_fuel :
  let es := el [(0, 1, 1); (2, 3, -1); (1, 2, 0); (3, 0, 5)]%Z in
  inrange 4 es /\ length es < 5 /\ length es < 50 /\
  match run 5 (uf_init 4) es with Some st => final_offsets 5 st 4 | None => None end = Some [0; -1; -1; 0]%Z /\
  match run 50 (uf_init 4) es with Some st => final_offsets 50 st 4 | None => None end = Some [0; -1; -1; 0]%Z /\
  match run 1 (uf_init 4) es with Some st => final_offsets 1 st 4 | None => None end = None.
Proof.
  cbv zeta. split; [|repeat split; vm_compute; try reflexivity; lia].
  intros x y i Hi. vm_compute in Hi.
  repeat (destruct Hi as [Hi|Hi]; [inversion Hi; subst; lia|]). contradiction.
Qed.

Example C17_nonvacuous_argsort :
  argsort [3; 1; 2; 1]%Q = [1; 3; 2; 0] /\
  gather (lget 0%Z [30; 10; 20; 11]%Z) (argsort [3; 1; 2; 1]%Q) = [10; 11; 20; 30]%Z /\
  zpairs (combine (t_flatten (t_reshape 2 3 (t_arange 6))) (t_flatten (t_roll (-1) 1 (t_reshape 2 3 (t_arange 6)))))
  = [(0, 1); (1, 2); (2, 0); (3, 4); (4, 5); (5, 3)]%Z /\
  zl (t_flatten (t_slice None (Some (-1)%Z) None None (t_reshape 3 2 (t_arange 6)))) = [0; 1; 2; 3]%Z.
Proof. repeat split; vm_compute; reflexivity. Qed.
