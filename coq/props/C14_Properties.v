(* C14 — serializer skip lists.  Model shared with C01 (model/C01_Model.v); proofs in
   proof/C14_Proofs.v on top of proof/C01_Proofs_*.v. *)
From QV.lib Require Import Prelude.
From QV.model Require Import C01_Model.
From QV.proof Require Import C01_Proofs_RT C14_Proofs.
From Coq Require Import String.
Local Open Scope string_scope.
Local Open Scope list_scope.

(* every graph (also objects inside containers), names and types, at save time and at load time:
   the loaded object is the normal form of the save-pruned graph, pruned again by the merged
   (user + recorded) lists at load time *)
Theorem C14_skip_general :
  forall usn ust sn st v, wf_obj v = true ->
    load_file usn ust (save_file sn st v) =
    RVal (prune_load (usn ++ sn) (ust ++ filter (fun t => negb (mem t ust)) st) (norm (prune_save sn st v))).
Proof. exact load_save_skip. Qed.
Print Assumptions C14_skip_general.

(* names listed at save time, at load time or both are absent at every attribute-nested level
   and everything else is what a plain save/load gives (prune_load of norm v) *)
Theorem C14_skip_exact :
  forall sn_s sn_l v, wf_obj v = true -> attr_nested v = true ->
    load_file sn_l [] (save_file sn_s [] v) = RVal (prune_load (sn_l ++ sn_s) [] (norm v)).
Proof. exact skip_exact_names. Qed.
Print Assumptions C14_skip_exact.

(* skipping names at load time gives the same object as skipping the same names at save time *)
Theorem C14_skip_save_eq_load :
  forall S v, wf_obj v = true -> attr_nested v = true ->
    load_file S [] (save_file [] [] v) = load_file [] [] (save_file S [] v).
Proof. exact skip_save_eq_load. Qed.
Print Assumptions C14_skip_save_eq_load.

(* skip lists recorded in the file are honoured by a later load without being repeated: a store
   that still contains every attribute but carries recorded lists loads like an explicit skip *)
Theorem C14_skip_recorded :
  forall sn st v, wf_obj v = true ->
    load_file [] [] (set_attr "_autoserialize_skip_types" (JList (map JStr st))
                       (set_attr "_autoserialize_skip_names" (JList (map JStr sn)) (encode_root [] [] v)))
    = load_file sn st (save_file [] [] v) /\
    load_file sn st (save_file [] [] v) = RVal (prune_load sn st (norm v)).
Proof. exact skip_recorded. Qed.
Print Assumptions C14_skip_recorded.

Theorem C14_skip_recorded_save :
  forall sn v, wf_obj v = true -> load_file [] [] (save_file sn [] v) = load_file sn [] (save_file sn [] v).
Proof. exact skip_recorded_save. Qed.
Print Assumptions C14_skip_recorded_save.

(* skipping by type at save time removes every attribute that is an instance of a listed type
   (prune_save [] st: isinstance against the MRO, at every serialised object) and all remaining
   attributes load exactly as they would without skipping; the type list recorded in the file
   removes nothing further *)
Theorem C14_skip_types_save :
  forall st v, wf_obj v = true -> load_file [] [] (save_file [] st v) = RVal (norm (prune_save [] st v)).
Proof. exact skip_types_at_save. Qed.
Print Assumptions C14_skip_types_save.

(* names that occur nowhere in the graph change nothing, at save time, load time or both *)
Theorem C14_skip_absent_names_harmless :
  forall sn_s sn_l v, wf_obj v = true -> (forall k, In k (all_names v) -> mem k (sn_l ++ sn_s) = false) ->
    load_file sn_l [] (save_file sn_s [] v) = RVal (norm v).
Proof. exact skip_absent_names. Qed.
Print Assumptions C14_skip_absent_names_harmless.

(* non-vacuity: a depth-3 attribute-nested graph using every constructor satisfies the hypotheses;
   a skip list with names at two depths (and one absent name) really removes attributes *)
Example C14_nonvacuous_wf : wf_obj ex_graph_attr = true /\ attr_nested ex_graph_attr = true /\ wf_obj ex_graph = true.
Proof. vm_compute. repeat split. Qed.
Example C14_nonvacuous_skip :
  res_eqb (load_file ["a"] [] (save_file ["x"; "zz"] ["builtins.int"] ex_graph_attr))
          (RVal (prune_load ["a"; "x"; "zz"] ["builtins.int"] (norm (prune_save ["x"; "zz"] ["builtins.int"] ex_graph_attr)))) = true
  /\ value_eqb (prune_load ["a"; "x"] [] (norm ex_graph_attr)) (norm ex_graph_attr) = false.
Proof. vm_compute. split; reflexivity. Qed.
Example C14_nonvacuous_absent : forall k, In k (all_names ex_graph_attr) -> mem k (["zz"] ++ ["nope"]) = false.
Proof. intros k H. vm_compute in H. repeat (destruct H as [<-|H]; [reflexivity|]). destruct H. Qed.
