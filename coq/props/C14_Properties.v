(* C14 — serializer skip lists.  Model shared with C01 (model/C01_Model.v); proofs in
   proof/C14_Proofs.v on top of proof/C01_Proofs_*.v. *)
From QV.lib Require Import Prelude.
From QV.model Require Import C01_Model C14_Hybrid_Model.
From QV.proof Require Import C01_Proofs_RT C01_Proofs_Store C14_Proofs C14_Proofs_Store C14_Proofs_Hybrid.
From Coq Require Import String.
Local Open Scope string_scope.
Local Open Scope list_scope.

(* every graph (also objects inside containers), names and types, at save time and at load time:
   the loaded object is the normal form of the save-pruned graph, pruned again by the merged
   (user + recorded) lists at load time *)
Theorem C14_skip_general :
  forall usn ust sn st v, wf_obj v = true ->
    load_file usn ust (save_file sn st v) =
    RVal (prune_load (usn ++ sn) (ust ++ filter (fun t => negb (mem t ust)) st) (norm (prune_save sn st v))).
Proof. exact load_save_skip. Qed.
Print Assumptions C14_skip_general.

(* names listed at save time, at load time or both are absent at every attribute-nested level
   and everything else is what a plain save/load gives (prune_load of norm v) *)
Theorem C14_skip_exact :
  forall sn_s sn_l v, wf_obj v = true -> attr_nested v = true ->
    load_file sn_l [] (save_file sn_s [] v) = RVal (prune_load (sn_l ++ sn_s) [] (norm v)).
Proof. exact skip_exact_names. Qed.
Print Assumptions C14_skip_exact.

(* skipping names at load time gives the same object as skipping the same names at save time *)
Theorem C14_skip_save_eq_load :
  forall S v, wf_obj v = true -> attr_nested v = true ->
    load_file S [] (save_file [] [] v) = load_file [] [] (save_file S [] v).
Proof. exact skip_save_eq_load. Qed.
Print Assumptions C14_skip_save_eq_load.

(* skip lists recorded in the file are honoured by a later load without being repeated: a store
   that still contains every attribute but carries recorded lists loads like an explicit skip *)
Theorem C14_skip_recorded :
  forall sn st v, wf_obj v = true ->
    load_file [] [] (set_attr "_autoserialize_skip_types" (JList (map JStr st))
                       (set_attr "_autoserialize_skip_names" (JList (map JStr sn)) (encode_root [] [] v)))
    = load_file sn st (save_file [] [] v) /\
    load_file sn st (save_file [] [] v) = RVal (prune_load sn st (norm v)).
Proof. exact skip_recorded. Qed.
Print Assumptions C14_skip_recorded.

Theorem C14_skip_recorded_save :
  forall sn v, wf_obj v = true -> load_file [] [] (save_file sn [] v) = load_file sn [] (save_file sn [] v).
Proof. exact skip_recorded_save. Qed.
Print Assumptions C14_skip_recorded_save.

(* skipping by type at save time removes every attribute that is an instance of a listed type
   (prune_save [] st: isinstance against the MRO, at every serialised object) and all remaining
   attributes load exactly as they would without skipping; the type list recorded in the file
   removes nothing further *)
Theorem C14_skip_types_save :
  forall st v, wf_obj v = true -> load_file [] [] (save_file [] st v) = RVal (norm (prune_save [] st v)).
Proof. exact skip_types_at_save. Qed.
Print Assumptions C14_skip_types_save.

(* names that occur nowhere in the graph change nothing, at save time, load time or both *)
Theorem C14_skip_absent_names_harmless :
  forall sn_s sn_l v, wf_obj v = true -> (forall k, In k (all_names v) -> mem k (sn_l ++ sn_s) = false) ->
    load_file sn_l [] (save_file sn_s [] v) = RVal (norm v).
Proof. exact skip_absent_names. Qed.
Print Assumptions C14_skip_absent_names_harmless.

(* the same through isinstance, attribute by attribute: the loaded object has exactly the names of
   the attributes that are NOT an instance of a listed type, where `inst_any x st` holds iff some
   listed type is in the MRO of type(x) or is an abstract base class (numbers.*,
   collections.abc.{Sequence,Mapping,Set,Mutable*}) of which type(x) is a virtual subclass *)
Theorem C14_skip_types_names :
  forall st m c l, wf_obj (VObj m c l) = true ->
    exists l', load_file [] [] (save_file [] st (VObj m c l)) = RVal (VObj m c l') /\
               forall k, In k (map fst l') <-> exists x, In (k, x) l /\ inst_any x st = false.
Proof. exact skip_types_names. Qed.
Print Assumptions C14_skip_types_names.

Theorem C14_isinstance_table :
  forall v st, (inst_any v st = true <-> exists t, In t st /\ (In t (types_of v) \/ In t (abcs_of v))) /\
               (forall t, In t (abcs_of v) -> In t abc_domain).
Proof. intros v st. split; [apply inst_any_iff | apply abcs_in_domain]. Qed.
Print Assumptions C14_isinstance_table.

(* skipping by type at LOAD time (not in the property text; the code does it by exact type, and
   never for JSON-attribute values or random generators): prune_load [] ust of the normal form *)
Theorem C14_skip_types_load :
  forall ust v, wf_obj v = true -> load_file [] ust (save_file [] [] v) = RVal (prune_load [] ust (norm v)).
Proof. intros ust v H. exact (load_skip_plain_file [] ust v H). Qed.
Print Assumptions C14_skip_types_load.

(* stores written with skip lists have unique member names too, so everything above holds for the
   directory store and the zip archive alike *)
Theorem C14_skip_both_stores :
  forall usn ust sn st v, wf_obj v = true ->
    let t := save_file sn st v in
    wf_node t = true /\
    unflatten (depth t) (unzip_store (zip_store (flatten t))) = Some t /\
    unflatten (depth t) (flatten t) = Some t /\
    load_file usn ust t =
    RVal (prune_load (usn ++ sn) (ust ++ filter (fun t => negb (mem t ust)) st) (norm (prune_save sn st v))).
Proof.
  intros usn ust sn st v H t. split; [exact (wf_node_save_skip sn st v H) | exact (skip_both_stores usn ust sn st v H)].
Qed.
Print Assumptions C14_skip_both_stores.

(* non-vacuity: a depth-3 attribute-nested graph using every constructor satisfies the hypotheses;
   a skip list with names at two depths (and one absent name) really removes attributes *)
Example C14_nonvacuous_wf : wf_obj ex_graph_attr = true /\ attr_nested ex_graph_attr = true /\ wf_obj ex_graph = true.
Proof. vm_compute. repeat split. Qed.
Example C14_nonvacuous_skip :
  res_eqb (load_file ["a"] [] (save_file ["x"; "zz"] ["builtins.int"] ex_graph_attr))
          (RVal (prune_load ["a"; "x"; "zz"] ["builtins.int"] (norm (prune_save ["x"; "zz"] ["builtins.int"] ex_graph_attr)))) = true
  /\ value_eqb (prune_load ["a"; "x"] [] (norm ex_graph_attr)) (norm ex_graph_attr) = false.
Proof. vm_compute. split; reflexivity. Qed.
Example C14_nonvacuous_absent : forall k, In k (all_names ex_graph_attr) -> mem k (["zz"] ++ ["nope"]) = false.
Proof. intros k H. vm_compute in H. repeat (destruct H as [<-|H]; [reflexivity|]). destruct H. Qed.
(* abstract base classes: numbers.Number removes the int, bool, float and real NumPy-scalar
   attributes and the complex one (virtual subclasses), nothing else; at load time the same list
   removes nothing (exact type only) *)
Example C14_nonvacuous_abc :
  match load_file [] [] (save_file [] ["numbers.Number"] ex_graph_attr) with
  | RVal (VObj _ _ l) => forallb (fun k => negb (mem k (map fst l))) ["b"; "i"; "f"; "np"; "z"]
                         && forallb (fun k => mem k (map fst l)) ["n"; "s"; "p"; "a"; "t"; "l"; "nl"; "sub"; "rc"]
  | _ => false end = true
  /\ res_eqb (load_file [] ["numbers.Number"] (save_file [] [] ex_graph_attr)) (RVal (norm ex_graph_attr)) = true.
Proof. vm_compute. split; reflexivity. Qed.
(* load-time type skipping is by exact type: the base class removes the nested object at save time only *)
Example C14_load_types_exact :
  res_eqb (load_file [] ["quantem.core.io.serialize.AutoSerialize"] (save_file [] [] ex_graph_attr)) (RVal (norm ex_graph_attr)) = true
  /\ match load_file [] [] (save_file [] ["quantem.core.io.serialize.AutoSerialize"] ex_graph_attr) with
      | RVal (VObj _ _ l) => negb (mem "sub" (map fst l)) | _ => false end = true
  /\ match load_file [] ["harness.c01_classes.NodeB"; "numpy.ndarray"] (save_file [] [] ex_graph_attr) with
      | RVal (VObj _ _ l) => negb (mem "sub" (map fst l)) && negb (mem "a" (map fst l)) && mem "i" (map fst l) | _ => false end = true.
Proof. vm_compute. repeat split. Qed.
(* the attr_nested hypothesis of C14_skip_exact / C14_skip_save_eq_load cannot be dropped: an object
   inside a list is pruned by save(skip=names) but not by load(skip=names) (the container decoder
   calls _recursive_load without skip lists) - outside the property's quantifier, recorded by the
   check as observed_asymmetry *)
Example C14_save_eq_load_needs_attr_nested :
  let v := VObj "m" "C" [("l", VList [VObj "m" "D" [("a", VInt 1); ("b", VStr "s")]; VStr "t"])] in
  wf_obj v = true /\ attr_nested v = false /\
  res_eqb (load_file ["a"] [] (save_file [] [] v)) (load_file [] [] (save_file ["a"] [] v)) = false.
Proof. vm_compute. repeat split. Qed.

(* ------------------------------------------------------------------ nn.Module + AutoSerialize hybrid roots *)
(* (model/C14_Hybrid_Model.v: parameters / buffers / sub-modules are entries of the registry dicts; the final
   hasattr / delattr loop of _recursive_load removes them through torch's Module.__delattr__)

   every well-formed hybrid graph, names and types at save time and at load time: the loaded hybrid is the pruned
   normal form with the merged names also removed from the three registries *)
Theorem C14_hybrid_skip_general :
  forall usn ust sn st v, wf_obj v = true ->
    load_file_hyb usn ust (save_file sn st v) =
    RVal (hyb_delattr (usn ++ sn)
            (prune_load (usn ++ sn) (ust ++ filter (fun t => negb (mem t ust)) st) (norm (prune_save sn st v)))).
Proof. exact load_save_skip_hyb. Qed.
Print Assumptions C14_hybrid_skip_general.

(* a listed name is a key of none of the registries of the result (parameter, buffer or sub-module: absent) *)
Theorem C14_hybrid_registry_names_absent :
  forall sn v m c l, hyb_delattr sn v = VObj m c l ->
    forall reg d, In (reg, VDict d) l -> mem reg hyb_regs = true -> forall n, In n (map fst d) -> mem n sn = false.
Proof. exact hyb_registry_names_absent. Qed.
Print Assumptions C14_hybrid_registry_names_absent.

(* ... and of no attribute name hasattr can see, when the plain fields have been pruned (as load_file does) *)
Theorem C14_hybrid_attr_names_absent :
  forall sn m c l,
    (forall k x, In (k, x) l -> (match x with VDict _ => mem k hyb_regs | _ => false end) = false -> mem k sn = false) ->
    forall n, In n (hyb_attr_names (hyb_delattr sn (VObj m c l))) -> mem n sn = false.
Proof. exact hyb_attr_names_absent. Qed.
Print Assumptions C14_hybrid_attr_names_absent.

(* every other registry entry survives, every other field is untouched, no names = no change, twice = union *)
Theorem C14_hybrid_survivors :
  (forall sn k d e, mem k hyb_regs = true -> In e d -> mem (fst e) sn = false ->
     exists d', hyb_field sn (k, VDict d) = (k, VDict d') /\ In e d') /\
  (forall sn k x, mem k hyb_regs = false -> hyb_field sn (k, x) = (k, x)) /\
  (forall v, hyb_delattr [] v = v) /\
  (forall A B v, hyb_delattr A (hyb_delattr B v) = hyb_delattr (B ++ A) v).
Proof. exact (conj hyb_survivors_kept (conj hyb_field_other (conj hyb_delattr_nil hyb_delattr_app))). Qed.
Print Assumptions C14_hybrid_survivors.

(* skipping names at load time = at save time, and recorded names suffice, for hybrid roots *)
Theorem C14_hybrid_save_eq_load :
  forall S v, wf_obj v = true -> attr_nested v = true ->
    load_file_hyb S [] (save_file [] [] v) = load_file_hyb [] [] (save_file S [] v).
Proof. exact skip_save_eq_load_hyb. Qed.
Print Assumptions C14_hybrid_save_eq_load.

Theorem C14_hybrid_recorded :
  forall sn v, wf_obj v = true ->
    load_file_hyb [] [] (save_file sn [] v) = on_res (hyb_delattr sn) (load_file sn [] (save_file sn [] v)).
Proof. exact skip_recorded_save_hyb. Qed.
Print Assumptions C14_hybrid_recorded.

Definition ex_hybrid : value :=
  VObj "harness.c01_classes" "HybridNet"
       [("training", VBool true);
        ("_parameters", VDict [("scale", VBlob BTensor ["torch.Tensor"] [] 1); ("w0", VBlob BTensor ["torch.Tensor"] [] 2)]);
        ("_buffers", VDict [("running", VBlob BTensor ["torch.Tensor"] [] 3)]);
        ("_modules", VDict [("linear", VBlob BModule ["torch.nn.modules.linear.Linear"; "torch.nn.modules.module.Module"] [] 4)]);
        ("gain", VFloat 4612811918334230528); ("child", VObj "harness.c01_classes" "NodeA" [("gain", VInt 2); ("a", VInt 1)])].
Example C14_nonvacuous_hybrid :
  wf_obj ex_hybrid = true /\ attr_nested ex_hybrid = true /\
  (match load_file_hyb ["scale"] [] (save_file ["linear"; "gain"] [] ex_hybrid) with
   | RVal v => hyb_attr_names v | _ => [] end) = ["training"; "w0"; "running"; "child"] /\
  (match load_file ["scale"] [] (save_file ["linear"; "gain"] [] ex_hybrid) with
   | RVal v => hyb_attr_names v | _ => [] end) = ["training"; "scale"; "w0"; "running"; "linear"; "child"].
Proof. repeat split; vm_compute; reflexivity. Qed.
