(* C18 helper library: exact rational (Q) sums over lists and nested lists ("tensors"),
   index-based double sums, scatter (in-place indexed assignment), np.roll on lists.
   Stdlib only.  Equality on Q is Qeq (==). *)
From QV.lib Require Import Prelude.
From Coq Require Import QArith Qround Lqa.
Local Close Scope Q_scope.

(* ------------------------------------------------------------------ definitions *)
Definition Qn (n : nat) : Q := inject_Z (Z.of_nat n).

Fixpoint sumQ (l : list Q) : Q :=
  match l with [] => 0%Q | x :: r => (x + sumQ r)%Q end.

Definition matrix := list (list Q).

Definition sum2 (m : matrix) : Q := sumQ (map sumQ m).

Fixpoint map2 {A B C : Type} (f : A -> B -> C) (a : list A) (b : list B) : list C :=
  match a, b with
  | x :: a', y :: b' => f x y :: map2 f a' b'
  | _, _ => []
  end.

Definition mul1 : list Q -> list Q -> list Q := map2 Qmult.
Definition mul2 : matrix -> matrix -> matrix := map2 mul1.

Definition get (m : matrix) (r c : nat) : Q := nth c (nth r m []) 0%Q.

Definition wf_mat (H W : nat) (m : matrix) : Prop :=
  length m = H /\ Forall (fun row => length row = W) m.

(* double sum over the index rectangle [0,H) x [0,W) *)
Definition dsum (H W : nat) (f : nat -> nat -> Q) : Q :=
  sumQ (map (fun r => sumQ (map (fun c => f r c) (seq 0 W))) (seq 0 H)).

Definition mean (l : list Q) : Q := (sumQ l / Qn (length l))%Q.

(* equality of (row, column) pairs and of lists of them up to Qeq *)
Definition peq (a b : Q * Q) : Prop := (fst a == fst b)%Q /\ (snd a == snd b)%Q.
Definition meq (a b : matrix) : Prop := Forall2 (Forall2 Qeq) a b.

(* in-place indexed assignment  arr[i] = v  and  arr[idx] = vals *)
Fixpoint upd {A : Type} (i : nat) (v : A) (l : list A) : list A :=
  match l, i with
  | [], _ => []
  | _ :: r, 0 => v :: r
  | x :: r, S i' => x :: upd i' v r
  end.

Fixpoint scatter {A : Type} (idx : list nat) (vals : list A) (arr : list A) : list A :=
  match idx, vals with
  | i :: ir, v :: vr => scatter ir vr (upd i v arr)
  | _, _ => arr
  end.

Definition gather {A : Type} (d : A) (l : list A) (idx : list nat) : list A :=
  map (fun i => nth i l d) idx.

(* np.roll(l, k): out[(i + k) mod n] = l[i], i.e. l[-k mod n:] ++ l[:-k mod n] *)
Definition roll {A : Type} (k : Z) (l : list A) : list A :=
  let s := Z.to_nat ((- k) mod Z.of_nat (length l)) in skipn s l ++ firstn s l.

(* np.roll(m, (ky, kx), axis=(0, 1)) *)
Definition roll2 {A : Type} (ky kx : Z) (m : list (list A)) : list (list A) :=
  map (roll kx) (roll ky m).

(* ------------------------------------------------------------------ sums *)
Lemma sumQ_app a b : (sumQ (a ++ b) == sumQ a + sumQ b)%Q.
Proof. induction a as [|x a IH]; cbn [sumQ app]; [ring | rewrite IH; ring]. Qed.

Lemma sumQ_Forall2 a b : Forall2 Qeq a b -> (sumQ a == sumQ b)%Q.
Proof. induction 1 as [|x y a b Hxy _ IH]; cbn [sumQ]; [reflexivity | rewrite Hxy, IH; reflexivity]. Qed.

Lemma sumQ_map_ext_in {A : Type} (f g : A -> Q) (l : list A) :
  (forall x, In x l -> (f x == g x)%Q) -> (sumQ (map f l) == sumQ (map g l))%Q.
Proof.
  induction l as [|x l IH]; intros Hfg; cbn [map sumQ]; [reflexivity|].
  rewrite (Hfg x (or_introl eq_refl)), IH; [reflexivity|].
  intros y Hy. apply Hfg. right. exact Hy.
Qed.

Lemma sumQ_map_zero {A : Type} (f : A -> Q) (l : list A) :
  (forall x, In x l -> (f x == 0)%Q) -> (sumQ (map f l) == 0)%Q.
Proof.
  induction l as [|x l IH]; intros Hf; cbn [map sumQ]; [reflexivity|].
  rewrite (Hf x (or_introl eq_refl)), IH; [ring|]. intros y Hy. apply Hf. right. exact Hy.
Qed.

Lemma sumQ_map_plus {A : Type} (f g : A -> Q) (l : list A) :
  (sumQ (map (fun x => f x + g x) l) == sumQ (map f l) + sumQ (map g l))%Q.
Proof. induction l as [|x l IH]; cbn [map sumQ]; [ring | rewrite IH; ring]. Qed.

Lemma sumQ_map_scale {A : Type} (k : Q) (f : A -> Q) (l : list A) :
  (sumQ (map (fun x => k * f x) l) == k * sumQ (map f l))%Q.
Proof. induction l as [|x l IH]; cbn [map sumQ]; [ring | rewrite IH; ring]. Qed.

Lemma sumQ_map_const {A : Type} (k : Q) (l : list A) :
  (sumQ (map (fun _ => k) l) == Qn (length l) * k)%Q.
Proof.
  induction l as [|x l IH]; cbn [map sumQ length]; [unfold Qn; simpl; ring|].
  rewrite IH. unfold Qn. rewrite Nat2Z.inj_succ, <- Z.add_1_r, inject_Z_plus. ring.
Qed.

Lemma sumQ_nonneg {A : Type} (f : A -> Q) (l : list A) :
  (forall x, In x l -> (0 <= f x)%Q) -> (0 <= sumQ (map f l))%Q.
Proof.
  induction l as [|x l IH]; intros Hf; cbn [map sumQ]; [apply Qle_refl|].
  assert (H1 := Hf x (or_introl eq_refl)).
  assert (H2 : (0 <= sumQ (map f l))%Q) by (apply IH; intros y Hy; apply Hf; right; exact Hy).
  lra.
Qed.

(* a sum of non-negative terms is zero only if every term is zero *)
Lemma sumQ_nonneg_zero {A : Type} (f : A -> Q) (l : list A) :
  (forall x, In x l -> (0 <= f x)%Q) -> (sumQ (map f l) <= 0)%Q ->
  forall x, In x l -> (f x == 0)%Q.
Proof.
  induction l as [|y l IH]; intros Hf Hs x Hx; [contradiction|].
  cbn [map sumQ] in Hs.
  assert (H1 := Hf y (or_introl eq_refl)).
  assert (H2 : (0 <= sumQ (map f l))%Q)
    by (apply sumQ_nonneg; intros z Hz; apply Hf; right; exact Hz).
  destruct Hx as [<-|Hx]; [lra|].
  apply IH; [intros z Hz; apply Hf; right; exact Hz | lra | exact Hx].
Qed.

Lemma Qn_pos n : (1 <= n)%nat -> (0 < Qn n)%Q.
Proof. intros Hn. unfold Qn. change 0%Q with (inject_Z 0). rewrite <- Zlt_Qlt. lia. Qed.

Lemma Qn_nonneg n : (0 <= Qn n)%Q.
Proof. unfold Qn. change 0%Q with (inject_Z 0). rewrite <- Zle_Qle. lia. Qed.

(* ------------------------------------------------------------------ nth / seq / map2 *)
Lemma map_nth_seq {A : Type} (d : A) (l : list A) :
  map (fun i => nth i l d) (seq 0 (length l)) = l.
Proof.
  induction l as [|x l IH]; [reflexivity|].
  cbn [length seq map nth]. f_equal. rewrite <- seq_shift, map_map. exact IH.
Qed.

Lemma map_f_nth_seq {A B : Type} (f : A -> B) (d : A) (l : list A) :
  map (fun i => f (nth i l d)) (seq 0 (length l)) = map f l.
Proof. rewrite <- (map_map (fun i => nth i l d) f), map_nth_seq. reflexivity. Qed.

Lemma map2_length {A B C : Type} (f : A -> B -> C) a b :
  length a = length b -> length (map2 f a b) = length a.
Proof.
  revert b. induction a as [|x a IH]; intros [|y b] Hl; cbn in *; try reflexivity; try discriminate.
  f_equal. apply IH. lia.
Qed.

Lemma nth_map2 {A B C : Type} (f : A -> B -> C) (da : A) (db : B) (dc : C) a b i :
  length a = length b -> (i < length a)%nat ->
  nth i (map2 f a b) dc = f (nth i a da) (nth i b db).
Proof.
  revert b i. induction a as [|x a IH]; intros [|y b] i Hl Hi; cbn in *; try lia.
  destruct i as [|i]; [reflexivity|]. apply IH; lia.
Qed.

Lemma map2_map_same {A B C D : Type} (h : B -> C -> D) (f : A -> B) (g : A -> C) (l : list A) :
  map2 h (map f l) (map g l) = map (fun x => h (f x) (g x)) l.
Proof. induction l as [|x l IH]; cbn [map map2]; [reflexivity | rewrite IH; reflexivity]. Qed.

Lemma map2_seq {A B C : Type} (f : A -> B -> C) (da : A) (db : B) a b n :
  length a = n -> length b = n ->
  map2 f a b = map (fun i => f (nth i a da) (nth i b db)) (seq 0 n).
Proof.
  revert b n. induction a as [|x a IH]; intros [|y b] n Ha Hb; cbn in *; subst n; try reflexivity; try discriminate.
  cbn [seq map nth]. f_equal. rewrite <- seq_shift, map_map. apply IH; [reflexivity | lia].
Qed.

(* ------------------------------------------------------------------ matrices *)
Lemma wf_mat_row H W m r : wf_mat H W m -> (r < H)%nat -> length (nth r m []) = W.
Proof.
  intros [Hl Hr] Hlt. rewrite Forall_forall in Hr. apply Hr. apply nth_In. lia.
Qed.

Lemma sum2_dsum H W m : wf_mat H W m -> (sum2 m == dsum H W (get m))%Q.
Proof.
  intros Hwf. unfold sum2, dsum.
  destruct Hwf as [Hl Hr]. subst H.
  rewrite <- (map_f_nth_seq sumQ [] m).
  apply sumQ_map_ext_in. intros r Hin. apply in_seq in Hin.
  assert (HW : length (nth r m []) = W).
  { rewrite Forall_forall in Hr. apply Hr. apply nth_In. lia. }
  unfold get. rewrite <- HW. rewrite map_nth_seq. reflexivity.
Qed.

Lemma dsum_ext H W f g :
  (forall r c, (r < H)%nat -> (c < W)%nat -> (f r c == g r c)%Q) -> (dsum H W f == dsum H W g)%Q.
Proof.
  intros Hfg. unfold dsum. apply sumQ_map_ext_in. intros r Hr. apply in_seq in Hr.
  apply sumQ_map_ext_in. intros c Hc. apply in_seq in Hc. apply Hfg; lia.
Qed.

Lemma wf_mul2 H W a b : wf_mat H W a -> wf_mat H W b -> wf_mat H W (mul2 a b).
Proof.
  intros [Ha Hra] [Hb Hrb]. split.
  - unfold mul2. rewrite map2_length; lia.
  - unfold mul2. clear Ha Hb. revert b Hrb.
    induction Hra as [|x a Hx _ IH]; intros b Hrb; [constructor|].
    destruct b as [|y b]; [constructor|]. inversion Hrb; subst. cbn [map2]. constructor.
    + unfold mul1. rewrite map2_length; lia.
    + apply IH. assumption.
Qed.

Lemma get_mul2 H W a b r c :
  wf_mat H W a -> wf_mat H W b -> (r < H)%nat -> (c < W)%nat ->
  get (mul2 a b) r c = (get a r c * get b r c)%Q.
Proof.
  intros Ha Hb Hr Hc. unfold get, mul2.
  rewrite (nth_map2 mul1 [] [] []); [| destruct Ha, Hb; lia | destruct Ha; lia].
  unfold mul1. apply nth_map2.
  - rewrite (wf_mat_row _ _ _ _ Ha Hr), (wf_mat_row _ _ _ _ Hb Hr). reflexivity.
  - rewrite (wf_mat_row _ _ _ _ Ha Hr). exact Hc.
Qed.

Lemma sum2_mul2 H W a b :
  wf_mat H W a -> wf_mat H W b ->
  (sum2 (mul2 a b) == dsum H W (fun r c => get a r c * get b r c))%Q.
Proof.
  intros Ha Hb. rewrite (sum2_dsum _ _ _ (wf_mul2 _ _ _ _ Ha Hb)).
  apply dsum_ext. intros r c Hr Hc. rewrite (get_mul2 _ _ _ _ _ _ Ha Hb Hr Hc). reflexivity.
Qed.

(* ------------------------------------------------------------------ upd / scatter *)
Lemma upd_app {A : Type} (v a : A) (pre arr : list A) :
  upd (length pre) v (pre ++ a :: arr) = pre ++ v :: arr.
Proof. induction pre as [|x pre IH]; cbn [length app upd]; [reflexivity | rewrite IH; reflexivity]. Qed.

Lemma scatter_app {A : Type} (i1 i2 : list nat) (v1 v2 arr : list A) :
  length i1 = length v1 ->
  scatter (i1 ++ i2) (v1 ++ v2) arr = scatter i2 v2 (scatter i1 v1 arr).
Proof.
  revert v1 arr. induction i1 as [|i i1 IH]; intros [|v v1] arr Hl; cbn in *; try discriminate; [reflexivity|].
  apply IH. lia.
Qed.

Lemma fold_scatter {A : Type} (F : nat -> A) (bs : list (list nat)) (arr : list A) :
  fold_left (fun a idx => scatter idx (map F idx) a) bs arr
  = scatter (concat bs) (map F (concat bs)) arr.
Proof.
  revert arr. induction bs as [|b bs IH]; intros arr; cbn [fold_left concat]; [reflexivity|].
  rewrite IH, map_app, scatter_app; [reflexivity | rewrite map_length; reflexivity].
Qed.

Lemma scatter_seq_gen {A : Type} (F : nat -> A) (m : nat) :
  forall k pre arr, length pre = k -> length arr = m ->
    scatter (seq k m) (map F (seq k m)) (pre ++ arr) = pre ++ map F (seq k m).
Proof.
  induction m as [|m IH]; intros k pre arr Hk Hm.
  - destruct arr; [|discriminate]. reflexivity.
  - destruct arr as [|a arr]; [discriminate|]. cbn [seq map scatter].
    subst k. rewrite upd_app.
    change (pre ++ F (length pre) :: arr) with (pre ++ [F (length pre)] ++ arr).
    rewrite app_assoc. rewrite IH.
    + rewrite <- app_assoc. reflexivity.
    + rewrite app_length. cbn. lia.
    + cbn in Hm. lia.
Qed.

(* writing f(i) at every index i of 0..n-1 (in that order) overwrites the whole array *)
Lemma scatter_seq {A : Type} (F : nat -> A) (arr : list A) :
  scatter (seq 0 (length arr)) (map F (seq 0 (length arr))) arr = map F (seq 0 (length arr)).
Proof. apply (scatter_seq_gen F (length arr) 0 [] arr); reflexivity. Qed.

Lemma fold_left_pair {A B X : Type} (f : A -> X -> A) (g : B -> X -> B) (l : list X) (a : A) (b : B) :
  fold_left (fun st x => (f (fst st) x, g (snd st) x)) l (a, b) = (fold_left f l a, fold_left g l b).
Proof. revert a b. induction l as [|x l IH]; intros a b; cbn [fold_left fst snd]; [reflexivity | apply IH]. Qed.

(* ------------------------------------------------------------------ roll *)
Lemma roll_length {A : Type} (k : Z) (l : list A) : length (roll k l) = length l.
Proof.
  unfold roll. rewrite app_length, skipn_length, firstn_length. lia.
Qed.

Lemma nth_skipn' {A : Type} (d : A) (t : nat) : forall (l : list A) (i : nat),
  nth i (skipn t l) d = nth (t + i) l d.
Proof.
  induction t as [|t IH]; intros l i; [reflexivity|].
  destruct l as [|x l]; [destruct i; reflexivity|]. cbn [skipn Nat.add nth]. apply IH.
Qed.

Lemma nth_firstn' {A : Type} (d : A) (t : nat) : forall (l : list A) (i : nat),
  (i < t)%nat -> nth i (firstn t l) d = nth i l d.
Proof.
  induction t as [|t IH]; intros l i Hi; [lia|].
  destruct l as [|x l]; [reflexivity|]. destruct i as [|i]; [reflexivity|].
  cbn [firstn nth]. apply IH. lia.
Qed.

(* index form of np.roll: out[i] = l[(i - k) mod n] *)
Lemma roll_index {A : Type} (d : A) (s : Z) (l : list A) :
  map (fun i => nth (Z.to_nat ((Z.of_nat i + s) mod Z.of_nat (length l))) l d) (seq 0 (length l))
  = roll (- s) l.
Proof.
  destruct l as [|x0 l0]; [unfold roll; cbn [length seq map]; rewrite skipn_nil, firstn_nil; reflexivity|].
  set (l := x0 :: l0). set (n := length l).
  assert (Hn : (0 < n)%nat) by (unfold n, l; cbn; lia).
  apply nth_ext with (d := d) (d' := d).
  - rewrite map_length, seq_length, roll_length. reflexivity.
  - intros i Hi. rewrite map_length, seq_length in Hi. fold n in Hi.
    rewrite (nth_indep _ d (nth (Z.to_nat ((Z.of_nat 0 + s) mod Z.of_nat n)) l d))
      by (rewrite map_length, seq_length; exact Hi).
    rewrite (map_nth (fun i => nth (Z.to_nat ((Z.of_nat i + s) mod Z.of_nat n)) l d)).
    rewrite seq_nth by exact Hi. cbn [Nat.add].
    unfold roll. fold n. rewrite Z.opp_involutive.
    set (t := Z.to_nat (s mod Z.of_nat n)).
    assert (Hr : (0 <= s mod Z.of_nat n < Z.of_nat n)%Z) by (apply Z.mod_pos_bound; lia).
    assert (Ht : (t < n)%nat) by (unfold t; lia).
    assert (Hmod : ((Z.of_nat i + s) mod Z.of_nat n
                    = (Z.of_nat i + Z.of_nat t) mod Z.of_nat n)%Z).
    { unfold t. rewrite Z2Nat.id by lia. rewrite Zplus_mod_idemp_r. reflexivity. }
    rewrite Hmod.
    destruct (Nat.lt_ge_cases i (n - t)) as [Hlt|Hge].
    + rewrite app_nth1 by (rewrite skipn_length; fold n; lia).
      rewrite nth_skipn'. f_equal.
      rewrite Z.mod_small by lia. lia.
    + rewrite app_nth2 by (rewrite skipn_length; fold n; lia).
      rewrite skipn_length. fold n.
      rewrite nth_firstn' by lia. f_equal.
      rewrite <- (Z.mod_unique (Z.of_nat i + Z.of_nat t) (Z.of_nat n) 1
                    (Z.of_nat i + Z.of_nat t - Z.of_nat n)); lia.
Qed.
