(* C16 — fixed meanings used by the AST translator harness/c16_tie.py (definitions only; the lemmas about
   them are in proof/C16_Proofs_Tie.v).  The generated file build/C16/Gen_C16.v is written in terms of
   these and of lib/DFT2.v / model/C16_Model.v (dft2_m, idft2_m, dft2_ortho, idft2_ortho, fftshift2,
   ifftshift2, abs2, est2).

   eprod  "a product of exponentials as the code builds it": the array the code returns is
          exp(c_1 * e_1) [* exp(c_2 * e_2)] ... with purely imaginary constants c_i = 2 pi i q_i; the
          translator records, per factor, the guard under which the factor is multiplied in
          (`if theta_r != 0:`; true when unconditional) and its phase q_i e_i in turns; E is the abstract
          character t |-> exp(2 pi i t).  Left-to-right product starting from the first factor.
   py_zeros / py_index_add   torch.zeros(n) and Tensor.index_add_(0, idx, vals) on flat arrays:
          out[idx[k]] += vals[k] for k in order (accumulating over repeated indices)
   zipw   element-wise combination of two equally shaped flat arrays (torch.complex(re, im), re + 1j * im) *)
From Coq Require Import List Arith.
Import ListNotations.

Section TieLib.
  Variables (R P : Type).
  Variables (rO rI : R) (radd rmul : R -> R -> R).
  Variables (pO : P) (padd : P -> P -> P).
  Variable E : P -> R.

  Fixpoint eprod_from (acc : R) (l : list (bool * P)) : R :=
    match l with
    | [] => acc
    | (b, p) :: l' => eprod_from (if b then rmul acc (E p) else acc) l'
    end.
  Definition eprod (l : list (bool * P)) : R :=
    match l with
    | [] => rI
    | (b, p) :: l' => eprod_from (if b then E p else rI) l'
    end.
  (* the total phase of the factors that are multiplied in *)
  Fixpoint esum (l : list (bool * P)) : P :=
    match l with
    | [] => pO
    | (b, p) :: l' => padd (if b then p else pO) (esum l')
    end.

  Definition py_zeros : nat -> R := fun _ => rO.
  Definition py_index_add (init : nat -> R) (idx : list nat) (vals : list R) : nat -> R :=
    fun n => fold_left (fun acc iv => if Nat.eqb (fst iv) n then radd acc (snd iv) else acc) (combine idx vals) (init n).

  Fixpoint zipw (f : R -> R -> R) (a b : list R) : list R :=
    match a, b with
    | x :: a', y :: b' => f x y :: zipw f a' b'
    | _, _ => []
    end.
End TieLib.

Arguments eprod_from {R P} rmul E acc l.
Arguments eprod {R P} rI rmul E l.
Arguments esum {P} pO padd l.
Arguments py_zeros {R} rO _.
Arguments py_index_add {R} radd init idx vals _.
Arguments zipw {R} f a b.
