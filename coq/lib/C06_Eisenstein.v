(* C06 — a second exact field with roots of unity, for ODD transform sizes: the Eisenstein
   rationals Q(omega), omega^2 + omega + 1 = 0, as pairs (a, b) = a + b*omega over the canonical
   rationals Qc (Leibniz equality).  Q(omega) contains the 1st, 2nd, 3rd and 6th roots of unity, so
   the hypotheses ring_theory / conj_ok / root_ok of lib/DFT.v are satisfiable TOGETHER for the
   sizes 1, 2, 3, 6: the odd <-> even theorems about Fourier resampling are exercised
   non-vacuously (3 -> 6, 2 -> 3, 3 -> 2, 1 -> 3, ...). *)
From Coq Require Import ZArith Lia Ring QArith Qcanon.
From QV.lib Require Import Prelude FinSum DFT.
Local Close Scope Q_scope.
Local Open Scope Qc_scope.

Definition E := (Qc * Qc)%type.
Definition e0 : E := (0, 0).
Definition e1 : E := (1, 0).
Definition eadd (x y : E) : E := (fst x + fst y, snd x + snd y).
(* (a + b w)(c + d w) = ac + (ad + bc) w + bd w^2,  w^2 = -1 - w *)
Definition emul (x y : E) : E :=
  (fst x * fst y - snd x * snd y, fst x * snd y + snd x * fst y - snd x * snd y).
Definition eopp (x : E) : E := (- fst x, - snd x).
Definition esub (x y : E) : E := eadd x (eopp y).
(* complex conjugation: conj w = w^2 = -1 - w *)
Definition econj (x : E) : E := (fst x - snd x, - snd x).

Lemma E_ring : ring_theory e0 e1 eadd emul esub eopp (@eq E).
Proof.
  constructor; intros; unfold e0, e1, eadd, emul, esub, eopp;
    repeat match goal with x : E |- _ => destruct x end; cbn [fst snd]; try (f_equal; ring); try reflexivity.
Qed.

Lemma E_conj_ok : conj_ok eadd emul econj.
Proof.
  constructor; intros; unfold eadd, emul, econj;
    repeat match goal with x : E |- _ => destruct x end; cbn [fst snd]; f_equal; ring.
Qed.

(* zeta = 1 + omega is a primitive 6th root of unity; v6 k = zeta^k by the residue of k mod 6 *)
Definition v6 (k : Z) : E :=
  match (k mod 6)%Z with
  | 0%Z => (1, 0)
  | 1%Z => (1, 1)
  | 2%Z => (0, 1)
  | 3%Z => (- (1), 0)
  | 4%Z => (- (1), - (1))
  | _ => (0, - (1))
  end.
Definition v3 (k : Z) : E := match (k mod 3)%Z with 0%Z => (1, 0) | 1%Z => (0, 1) | _ => (- (1), - (1)) end.
Definition v2 (k : Z) : E := match (k mod 2)%Z with 0%Z => (1, 0) | _ => (- (1), 0) end.
Definition v1 (k : Z) : E := e1.

Definition ehalf : E := (Q2Qc (1 # 2), 0).
Definition ethird : E := (Q2Qc (1 # 3), 0).
Definition esixth : E := (Q2Qc (1 # 6), 0).

Lemma mod6_cases (k : Z) : (k mod 6 = 0 \/ k mod 6 = 1 \/ k mod 6 = 2 \/ k mod 6 = 3 \/ k mod 6 = 4 \/ k mod 6 = 5)%Z.
Proof. pose proof (Z.mod_pos_bound k 6). lia. Qed.
Lemma mod3_cases (k : Z) : (k mod 3 = 0 \/ k mod 3 = 1 \/ k mod 3 = 2)%Z.
Proof. pose proof (Z.mod_pos_bound k 3). lia. Qed.
Lemma mod2_cases' (k : Z) : (k mod 2 = 0 \/ k mod 2 = 1)%Z.
Proof. pose proof (Z.mod_pos_bound k 2). lia. Qed.

Ltac e_close := cbn; unfold emul, eadd, econj, e0, e1; cbn [fst snd]; f_equal; ring.

(* ------------------------------------------------------------------ size 6 *)
Lemma v6_add a b : v6 (a + b) = emul (v6 a) (v6 b).
Proof.
  unfold v6. rewrite (Zplus_mod a b 6).
  destruct (mod6_cases a) as [Ha|[Ha|[Ha|[Ha|[Ha|Ha]]]]], (mod6_cases b) as [Hb|[Hb|[Hb|[Hb|[Hb|Hb]]]]];
    rewrite Ha, Hb; e_close.
Qed.

Lemma v6_conj a : econj (v6 a) = v6 (- a).
Proof.
  unfold v6. assert (H : ((- a) mod 6 = (6 - a mod 6) mod 6)%Z) by lia. rewrite H.
  destruct (mod6_cases a) as [Ha|[Ha|[Ha|[Ha|[Ha|Ha]]]]]; rewrite Ha; e_close.
Qed.

Lemma v6_orth d :
  sumn e0 eadd 6 (fun k => v6 (d * Z.of_nat k)) = if (d mod Z.of_nat 6 =? 0)%Z then FinSum.of_nat e0 e1 eadd 6 else e0.
Proof.
  cbn [sumn Z.of_nat Pos.of_succ_nat Pos.succ]. unfold v6.
  rewrite !(Zmult_mod d _ 6). change (Z.of_nat 6) with 6%Z.
  destruct (mod6_cases d) as [Hd|[Hd|[Hd|[Hd|[Hd|Hd]]]]]; rewrite Hd; cbn; unfold eadd, e0; cbn;
    unfold eadd, e0, e1; cbn [fst snd]; f_equal; ring.
Qed.

Theorem E_root_ok_6 : root_ok e0 e1 eadd emul econj 6 v6 esixth.
Proof.
  constructor.
  - lia.
  - reflexivity.
  - apply v6_add.
  - reflexivity.
  - apply v6_conj.
  - apply v6_orth.
  - unfold esixth, emul; cbn; unfold eadd, e0, e1; cbn [fst snd]. f_equal; apply Qc_is_canon; reflexivity.
Qed.

(* ------------------------------------------------------------------ size 3 *)
Lemma v3_add a b : v3 (a + b) = emul (v3 a) (v3 b).
Proof.
  unfold v3. rewrite (Zplus_mod a b 3).
  destruct (mod3_cases a) as [Ha|[Ha|Ha]], (mod3_cases b) as [Hb|[Hb|Hb]]; rewrite Ha, Hb; e_close.
Qed.

Lemma v3_conj a : econj (v3 a) = v3 (- a).
Proof.
  unfold v3. assert (H : ((- a) mod 3 = (3 - a mod 3) mod 3)%Z) by lia. rewrite H.
  destruct (mod3_cases a) as [Ha|[Ha|Ha]]; rewrite Ha; e_close.
Qed.

Lemma v3_orth d :
  sumn e0 eadd 3 (fun k => v3 (d * Z.of_nat k)) = if (d mod Z.of_nat 3 =? 0)%Z then FinSum.of_nat e0 e1 eadd 3 else e0.
Proof.
  cbn [sumn Z.of_nat Pos.of_succ_nat Pos.succ]. unfold v3.
  rewrite !(Zmult_mod d _ 3). change (Z.of_nat 3) with 3%Z.
  destruct (mod3_cases d) as [Hd|[Hd|Hd]]; rewrite Hd; cbn; unfold eadd, e0; cbn;
    unfold eadd, e0, e1; cbn [fst snd]; f_equal; ring.
Qed.

Theorem E_root_ok_3 : root_ok e0 e1 eadd emul econj 3 v3 ethird.
Proof.
  constructor.
  - lia.
  - reflexivity.
  - apply v3_add.
  - reflexivity.
  - apply v3_conj.
  - apply v3_orth.
  - unfold ethird, emul; cbn; unfold eadd, e0, e1; cbn [fst snd]. f_equal; apply Qc_is_canon; reflexivity.
Qed.

(* ------------------------------------------------------------------ sizes 2 and 1 *)
Theorem E_root_ok_2 : root_ok e0 e1 eadd emul econj 2 v2 ehalf.
Proof.
  constructor.
  - lia.
  - reflexivity.
  - intros a b. unfold v2. rewrite (Zplus_mod a b 2).
    destruct (mod2_cases' a) as [Ha|Ha], (mod2_cases' b) as [Hb|Hb]; rewrite Ha, Hb; e_close.
  - reflexivity.
  - intros a. unfold v2. assert (H : ((- a) mod 2 = a mod 2)%Z) by lia. rewrite H.
    destruct (mod2_cases' a) as [Ha|Ha]; rewrite Ha; e_close.
  - intros d. cbn [sumn Z.of_nat Pos.of_succ_nat Pos.succ]. unfold v2.
    rewrite !(Zmult_mod d _ 2). change (Z.of_nat 2) with 2%Z.
    destruct (mod2_cases' d) as [Hd|Hd]; rewrite Hd; cbn; unfold eadd, e0; cbn;
      unfold eadd, e0, e1; cbn [fst snd]; f_equal; ring.
  - unfold ehalf, emul; cbn; unfold eadd, e0, e1; cbn [fst snd]. f_equal; apply Qc_is_canon; reflexivity.
Qed.

Theorem E_root_ok_1 : root_ok e0 e1 eadd emul econj 1 v1 e1.
Proof.
  constructor.
  - lia.
  - reflexivity.
  - intros a b. unfold v1, emul, e1. cbn [fst snd]. f_equal; ring.
  - reflexivity.
  - intros a. unfold v1, econj, e1. cbn [fst snd]. f_equal; ring.
  - intros d. cbn [sumn Z.of_nat]. rewrite Z.mod_1_r. cbn. unfold v1, eadd, e0, e1. cbn [fst snd]. f_equal; ring.
  - cbn. unfold emul, eadd, e0, e1. cbn [fst snd]. f_equal; ring.
Qed.

Lemma ehalf_ok : emul ehalf (eadd e1 e1) = e1.
Proof. unfold ehalf, emul, eadd, e1. cbn [fst snd]. f_equal; apply Qc_is_canon; reflexivity. Qed.

(* real elements are the pairs (a, 0) *)
Lemma econj_real a : econj (a, 0) = (a, 0).
Proof. unfold econj. cbn [fst snd]. f_equal; ring. Qed.
