(* C01 / C14 - vocabulary of the SOURCE TIE (harness/c01_tie.py).

   The translator reads quantem/core/io/serialize.py on every run and writes build/C01/Gen_C01Tie.v:
   the chain of tests of `_serialize_value` as a list of `gexp`, the marker chains of the sub-group
   decoders as lists of `(tkind, marker, type-checked?)`, the metadata filters as `sexp`, the skip
   condition of `_recursive_save` as `skexp`, and the constants (marker names, payload names,
   fast-path condition, threading of the skip lists).  This file gives those little languages their
   FIXED meaning over the model's values (C01_Model.value) and stores (C01_Model.node); the fixed
   proof script coq/gen_proofs/C01_Tie_GenProofs.v proves the generated terms equal to what
   C01_Model.v assumes.  Definitions only + a few computational lemmas. *)
From QV.lib Require Import Prelude.
From QV.model Require Import C01_Model.
From Coq Require Import String Ascii Bool.
Local Open Scope string_scope.
Local Open Scope list_scope.

(* ------------------------------------------------------------------ strings *)
Fixpoint prefix_b (p s : string) : bool :=
  match p, s with
  | EmptyString, _ => true
  | String a p', String b s' => Ascii.eqb a b && prefix_b p' s'
  | String _ _, EmptyString => false
  end.
(* `p in s` for Python strings *)
Fixpoint contains (p s : string) : bool :=
  prefix_b p s || match s with EmptyString => false | String _ r => contains p r end.

(* ------------------------------------------------------------------ tests on a value *)
Inductive gexp :=
| GIsInst (tys : list string)        (* isinstance(value, (T1, ..., Tn)), full type names *)
| GHasAttr (a : string)              (* hasattr(value, a) *)
| GModuleHas (s : string)            (* s in str(value.__module__) *)
| GTypeStrPrefix (s : string)        (* str(type(value)).startswith(s) *)
| GIsAuto                            (* self._is_autoserialize_instance(value) *)
| GAnd (a b : gexp) | GOr (a b : gexp) | GNot (a : gexp).

(* isinstance against a concrete class = membership in the MRO the model gives the value *)
Definition is_inst (T : string) (v : value) : bool := mem T (types_of v).

(* type(value).__module__ : the model keeps it for objects; for torch / dill payloads it is the head of
   the recorded MRO ("module.QualName": the test below is then made on the full name) *)
Definition module_str (v : value) : string :=
  match v with VObj m _ _ => m | _ => exact_ty v end.

(* hasattr, for the thirteen attribute names the chain asks about (Python facts about the value kinds
   of the model; tied to the interpreter on every run: the tests compiled from the source are evaluated
   on real objects and compared with `geval`) *)
Definition has_attr (a : string) (v : value) : bool :=
  match v with
  | VBlob BTensor _ _ _ => mem a ["log"; "__module__"; "dtype"; "item"]
  | VBlob BOptimizer _ _ _ => mem a ["step"; "__module__"]
  | VBlob BScheduler _ _ _ => mem a ["step"; "get_last_lr"; "__module__"]
  | VBlob BModule tys _ _ => String.eqb a "__module__" || (mem a ["get_state"; "set_state"] && mem "torch._C.Generator" tys)
  | VTbWriter _ _ _ _ => mem a ["add_scalar"; "add_image"; "__module__"]
  | VLogger _ _ _ => mem a ["log"; "info"; "__module__"]
  | VArr _ => mem a ["dtype"; "item"; "__module__"]
  | VNpScalar _ _ => mem a ["dtype"; "item"; "__module__"]
  | VPath _ => mem a ["__fspath__"; "__module__"]
  | VRng _ _ => mem a ["bit_generator"; "__module__"]
  | VObj _ _ _ => String.eqb a "__module__"
  | VOther tys _ => String.eqb a "__module__" || (mem a ["dtype"; "item"] && mem "numpy.generic" tys)
  | VNone | VBool _ | VInt _ | VFloat _ | VStr _ | VList _ | VTuple _ | VSet _ | VDict _ => false
  end.

Fixpoint geval (e : gexp) (v : value) : bool :=
  match e with
  | GIsInst tys => existsb (fun T => is_inst T v) tys
  | GHasAttr a => has_attr a v
  | GModuleHas s => contains s (module_str v)
  | GTypeStrPrefix s => match v with VPath _ => String.eqb s "<class 'pathlib." | _ => false end
  | GIsAuto => is_inst "quantem.core.io.serialize.AutoSerialize" v
  | GAnd a b => geval a v && geval b v
  | GOr a b => geval a v || geval b v
  | GNot a => negb (geval a v)
  end.

Fixpoint first_true_e (l : list gexp) (v : value) (i : nat) : nat :=
  match l with [] => i | e :: r => if geval e v then i else first_true_e r v (S i) end.

(* the class names the chain tests with isinstance *)
Definition T_tensor := "torch.Tensor".
Definition T_optimizer := "torch.optim.optimizer.Optimizer".
Definition T_module := "torch.nn.modules.module.Module".
Definition T_auto := "quantem.core.io.serialize.AutoSerialize".
Definition guard_types : list string :=
  [T_auto; T_tensor; T_optimizer; T_module; "numpy.ndarray"; "builtins.int"; "builtins.float"; "builtins.str";
   "builtins.bool"; "builtins.NoneType"; "numpy.complexfloating"; "builtins.list"; "builtins.tuple";
   "builtins.dict"; "builtins.set"; "numpy.integer"; "numpy.floating"; "numpy.bool"].

Definition other_base : list string :=
  [T_auto; T_tensor; T_optimizer; T_module; "numpy.ndarray"; "builtins.int"; "builtins.float"; "builtins.str";
   "builtins.bool"; "builtins.NoneType"; "builtins.list"; "builtins.tuple"; "builtins.dict"; "builtins.set";
   "numpy.integer"; "numpy.floating"; "numpy.bool"].

(* the recorded MRO of a payload agrees with the kind the harness gave it (how impl_C01.alpha chooses
   the constructor), and user classes do not collide with the classes the chain tests:
     VBlob BTensor     : a torch.Tensor
     VBlob BOptimizer  : an Optimizer, not a Tensor
     VBlob BScheduler  : neither (recognised by step / get_last_lr)
     VBlob BModule     : neither; an nn.Module or a class from a torch module (torch.Generator)
     VObj m c          : a class of its own whose module name does not contain "torch"
                         (such a class would be saved whole by the nn.Module test - outside the model)
     VOther tys        : none of the tested classes; a NumPy scalar only if complex *)
Definition none_of (names tys : list string) : bool := forallb (fun T => negb (mem T tys)) names.
Definition tys_ok (v : value) : bool :=
  match v with
  | VBlob BTensor tys _ _ => mem T_tensor tys
  | VBlob BOptimizer tys _ _ => negb (mem T_tensor tys) && mem T_optimizer tys
  | VBlob BScheduler tys _ _ => negb (mem T_tensor tys) && negb (mem T_optimizer tys)
  | VBlob BModule tys _ _ =>
    negb (mem T_tensor tys) && negb (mem T_optimizer tys) && (mem T_module tys || contains "torch" (hd "" tys))
  | VObj m c _ => negb (contains "torch" m) && forallb (fun T => negb (String.eqb T (cls_name m c))) guard_types
  | VOther tys _ =>
    none_of other_base tys && negb (contains "torch" (hd "" tys))
    && implb (mem "numpy.generic" tys) (mem "numpy.complexfloating" tys)
  | VNpScalar dt _ => mem dt np_dtypes
  | VLogger c _ _ => String.eqb c "Logger" || String.eqb c "RootLogger"
  | _ => true
  end.

(* ------------------------------------------------------------------ tests on a key (metadata filters) *)
Inductive sexp :=
| SEq (s : string) | SIn (l : list string) | SEnds (suf : string) | SOr (a b : sexp).
Fixpoint seval (e : sexp) (k : string) : bool :=
  match e with
  | SEq s => String.eqb k s
  | SIn l => mem k l
  | SEnds suf => ends_with k suf
  | SOr a b => seval a k || seval b k
  end.

(* ------------------------------------------------------------------ the skip condition of _recursive_save *)
Inductive skexp := SkNameIn | SkIsInstance | SkOr (a b : skexp).
Fixpoint sk_eval (e : skexp) (sn st : list string) (name : string) (v : value) : bool :=
  match e with
  | SkNameIn => mem name sn
  | SkIsInstance => inst_any v st
  | SkOr a b => sk_eval a sn st name v || sk_eval b sn st name v
  end.

(* ------------------------------------------------------------------ marker chains of the sub-group decoders *)
Inductive tkind := TTruthy | THas | TNotNone.     (* attrs.get(k) | k in attrs | attrs.get(k, None) is not None *)
Definition test_of (t : tkind) (k : string) (a : smap jval) : bool :=
  match t with
  | TTruthy => truthy (lookup k a)
  | THas => has_key k a
  | TNotNone => match lookup k a with Some JNull | None => false | Some _ => true end
  end.

(* what the branch guarded by marker k restores (fixed: one decoder per marker) *)
Definition raw_action (k : string) (dobj dcont : node -> res) (sub : node) : res :=
  if String.eqb k "_torch_tensor" then decode_blob BTensor sub
  else if String.eqb k "_torch_optimizer" then decode_blob BOptimizer sub
  else if String.eqb k "_torch_scheduler" then decode_blob BScheduler sub
  else if String.eqb k "_torch_logger" then decode_tb sub
  else if String.eqb k "_python_logger" then decode_logger sub
  else if String.eqb k "_torch_whole_module" then decode_blob BModule sub
  else if String.eqb k "_autoserialize" then dobj sub
  else if String.eqb k "_container_type" then dcont sub
  else if String.eqb k "_numpy_rng" then decode_rng sub
  else if String.eqb k "_torch_rng_skipped" then RVal (VOther ["torch._C.Generator"] 0)
  else RErr.

(* _recursive_load: `type(x) in skip_types: continue` after the restore (tc); the nested-object branch also
   tests the recorded class before descending *)
Definition obj_action (st : list string) (k : string) (tc : bool) (dobj dcont : node -> res) (sub : node) : res :=
  if String.eqb k "_autoserialize" then
    match class_of (n_attrs sub) with
    | Some (m, c) => if mem (cls_name m c) st then RSkip else (if tc then type_checked st else fun r => r) (dobj sub)
    | None => RErr
    end
  else (if tc then type_checked st else fun r => r) (raw_action k dobj dcont sub).

Fixpoint interp_obj (chain : list (tkind * string * bool)) (st : list string) (dobj dcont : node -> res) (sub : node) : res :=
  match chain with
  | [] => RErr                                                    (* raise ValueError("Unknown subgroup structure") *)
  | (t, k, tc) :: r =>
    if test_of t k (n_attrs sub) then obj_action st k tc dobj dcont sub else interp_obj r st dobj dcont sub
  end.

Fixpoint interp_cont (chain : list (tkind * string * bool)) (dobj dcont : node -> res) (sub : node) : res :=
  match chain with
  | [] => RErr
  | (t, k, _) :: r =>
    if test_of t k (n_attrs sub) then raw_action k dobj dcont sub else interp_cont r dobj dcont sub
  end.

(* ------------------------------------------------------------------ small facts used by the fixed script *)
Lemma mem_np_dtypes_cases : forall dt, mem dt np_dtypes = true ->
  In dt ["bool"; "int8"; "int16"; "int32"; "int64"; "uint8"; "uint16"; "uint32"; "uint64"; "float16"; "float32"; "float64"].
Proof.
  intros dt H. unfold mem, np_dtypes in H. apply existsb_exists in H. destruct H as [x [Hin Heq]].
  apply String.eqb_eq in Heq. subst x. exact Hin.
Qed.
