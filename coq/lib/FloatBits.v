(* Bit-faithful float -> integer glue (Python's round(), int(), comparisons on binary64).
   Imports PrimFloat / Uint63 / FloatOps only (not Floats). *)
From Coq Require Import ZArith Bool.
From Coq Require Import Uint63 PrimFloat FloatOps SpecFloat.
Open Scope Z_scope.

(* value of a finite float as (m, e) meaning m * 2^e ; None for nan / infinities *)
Definition float_ZZ (f : float) : option (Z * Z) :=
  match Prim2SF f with
  | S754_zero _ => Some (0, 0)
  | S754_finite s m e => Some ((if s then Z.neg m else Z.pos m), e)
  | _ => None
  end.

(* round half to even of m * 2^e  (Python 3 round(x) for a float x, no ndigits) *)
Definition round_half_even_ZZ (m e : Z) : Z :=
  if 0 <=? e then m * 2 ^ e
  else
    let d := 2 ^ (- e) in
    let q := m / d in
    let r := m mod d in
    if 2 * r <? d then q
    else if d <? 2 * r then q + 1
    else if Z.even q then q else q + 1.

Definition py_round (f : float) : option Z :=
  match float_ZZ f with
  | Some (m, e) => Some (round_half_even_ZZ m e)
  | None => None
  end.

(* int(x): truncation toward zero *)
Definition py_int (f : float) : option Z :=
  match float_ZZ f with
  | Some (m, e) => Some (if 0 <=? e then m * 2 ^ e else Z.quot m (2 ^ (- e)))
  | None => None
  end.

(* floor / ceil *)
Definition py_floor (f : float) : option Z :=
  match float_ZZ f with
  | Some (m, e) => Some (if 0 <=? e then m * 2 ^ e else m / 2 ^ (- e))
  | None => None
  end.

Definition py_ceil (f : float) : option Z :=
  match float_ZZ f with
  | Some (m, e) => Some (if 0 <=? e then m * 2 ^ e else - ((- m) / 2 ^ (- e)))
  | None => None
  end.

(* Python int -> float conversion for |n| < 2^53 (exact); harness keeps n small *)
Definition float_of_Z (n : Z) : float :=
  if 0 <=? n then of_uint63 (Uint63.of_Z n)
  else PrimFloat.opp (of_uint63 (Uint63.of_Z (- n))).
