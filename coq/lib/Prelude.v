(* Common imports and small list/Z helpers shared by every model.  Stdlib only. *)
From Coq Require Export ZArith List Bool Lia Arith PeanoNat Permutation.
From Coq Require Export ZifyBool ZifyNat.
Export ListNotations.
Ltac Zify.zify_post_hook ::= Z.to_euclidean_division_equations.

Set Implicit Arguments.

(* python floor division / modulo on Z are Z.div / Z.modulo (sign of the divisor) *)
Definition ceil_div (a b : nat) : nat := (a + b - 1) / b.

Fixpoint sum_nat (l : list nat) : nat :=
  match l with [] => 0 | x :: r => x + sum_nat r end.

Fixpoint sum_Z (l : list Z) : Z :=
  match l with [] => 0%Z | x :: r => (x + sum_Z r)%Z end.

Definition memb (x : nat) (l : list nat) : bool := existsb (Nat.eqb x) l.

Lemma memb_In x l : memb x l = true <-> In x l.
Proof.
  unfold memb. rewrite existsb_exists. split.
  - intros [y [Hy He]]. apply Nat.eqb_eq in He. subst. exact Hy.
  - intros H. exists x. split; [exact H | apply Nat.eqb_refl].
Qed.

Lemma memb_false_In x l : memb x l = false <-> ~ In x l.
Proof.
  rewrite <- memb_In. destruct (memb x l); split; intros; congruence.
Qed.

Lemma sum_nat_app a b : sum_nat (a ++ b) = sum_nat a + sum_nat b.
Proof. induction a as [|x a IH]; simpl; lia. Qed.

Lemma sum_nat_repeat x n : sum_nat (repeat x n) = n * x.
Proof. induction n as [|n IH]; simpl; lia. Qed.

(* filter p l ++ filter (not p) l is a permutation of l *)
Lemma filter_partition_perm (A : Type) (p : A -> bool) (l : list A) :
  Permutation (filter p l ++ filter (fun x => negb (p x)) l) l.
Proof.
  induction l as [|x l IH]; simpl; [constructor|].
  destruct (p x); simpl.
  - constructor. exact IH.
  - apply Permutation_sym. apply Permutation_cons_app. apply Permutation_sym. exact IH.
Qed.

Lemma In_firstn (A : Type) (n : nat) (l : list A) (x : A) : In x (firstn n l) -> In x l.
Proof.
  revert n. induction l as [|y l IH]; intros n H; destruct n; simpl in *; try contradiction.
  destruct H as [H|H]; [left; exact H | right; eapply IH; exact H].
Qed.

Lemma In_skipn (A : Type) (n : nat) (l : list A) (x : A) : In x (skipn n l) -> In x l.
Proof.
  revert n. induction l as [|y l IH]; intros n H; destruct n; simpl in *; try contradiction; auto.
  right. eapply IH; exact H.
Qed.

Lemma NoDup_firstn (A : Type) (n : nat) (l : list A) : NoDup l -> NoDup (firstn n l).
Proof.
  revert n. induction l as [|x l IH]; intros n H; destruct n; simpl; try constructor.
  - inversion H; subst. intros Hin. match goal with Hn : ~ In x l |- _ => apply Hn end.
    eapply In_firstn; exact Hin.
  - inversion H; subst. apply IH. assumption.
Qed.

Lemma NoDup_filter' (A : Type) (p : A -> bool) (l : list A) : NoDup l -> NoDup (filter p l).
Proof. apply NoDup_filter. Qed.

(* harness glue: nat lists cross the Coq boundary as Z lists (nat numerals are slow to parse
   and to print) *)
Definition nl (l : list Z) : list nat := map Z.to_nat l.
Definition zl (l : list nat) : list Z := map Z.of_nat l.
Definition zll (l : list (list nat)) : list (list Z) := map zl l.
