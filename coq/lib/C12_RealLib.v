(* C12 — real-analysis helpers that do not depend on the translated code (stdlib Reals only):
     env                      coefficient environments  (name -> R, absent = 0)
     atan2                    the two-argument arctangent on R (numpy/torch convention, no signed zeros)
       atan2_polar            atan2 (r sin t) (r cos t) = t      for 0 < r, -PI < t <= PI
       polar_atan2            sqrt(x²+y²) cos (atan2 y x) = x,  … sin … = y      for ALL x y
     rem                      torch.remainder / Python % on R (sign of the divisor)
     mat2                     2x2 real matrices, polar-decomposition uniqueness (Cayley–Hamilton) *)
From Coq Require Import Reals Lra Lia String List Psatz Nsatz.
Import ListNotations.
Open Scope R_scope.

Definition env := string -> R.

(* ------------------------------------------------------------------------------ atan2 *)
Definition atan2 (y x : R) : R :=
  if Rlt_dec 0 x then atan (y / x)
  else if Rlt_dec x 0 then (if Rle_dec 0 y then atan (y / x) + PI else atan (y / x) - PI)
  else if Rlt_dec 0 y then PI / 2
  else if Rlt_dec y 0 then - (PI / 2)
  else 0.

Lemma tan_shift_PI (t : R) : cos t <> 0 -> tan (t - PI) = tan t /\ tan (t + PI) = tan t.
Proof.
  intros Hc. unfold tan. rewrite sin_minus, cos_minus, sin_plus, cos_plus, sin_PI, cos_PI.
  split; field; exact Hc.
Qed.

Lemma atan2_polar (r t : R) : 0 < r -> - PI < t <= PI -> atan2 (r * sin t) (r * cos t) = t.
Proof.
  intros Hr [Hlo Hhi]. pose proof PI_RGT_0 as Hpi.
  destruct (Rlt_dec t (- (PI / 2))) as [Ha | Ha].
  { (* -PI < t < -PI/2 : third quadrant *)
    assert (Hc : cos t < 0).
    { rewrite <- cos_neg. apply cos_lt_0; lra. }
    assert (Hs : sin t < 0).
    { apply sin_lt_0_var; lra. }
    unfold atan2.
    destruct (Rlt_dec 0 (r * cos t)) as [H | _]; [nra |].
    destruct (Rlt_dec (r * cos t) 0) as [_ | H]; [| nra].
    destruct (Rle_dec 0 (r * sin t)) as [H | _]; [nra |].
    replace (r * sin t / (r * cos t)) with (tan t) by (unfold tan; field; split; lra).
    destruct (tan_shift_PI t) as [_ Hp]; [lra |]. rewrite <- Hp.
    rewrite atan_tan by lra. lra. }
  destruct (Req_dec t (- (PI / 2))) as [Hb | Hb].
  { subst t. unfold atan2. rewrite cos_neg, sin_neg, cos_PI2, sin_PI2.
    destruct (Rlt_dec 0 (r * 0)) as [H | _]; [lra |].
    destruct (Rlt_dec (r * 0) 0) as [H | _]; [lra |].
    destruct (Rlt_dec 0 (r * - (1))) as [H | _]; [lra |].
    destruct (Rlt_dec (r * - (1)) 0) as [_ | H]; [reflexivity | lra]. }
  destruct (Rlt_dec t (PI / 2)) as [Hc1 | Hc1].
  { (* -PI/2 < t < PI/2 *)
    assert (Hc : 0 < cos t) by (apply cos_gt_0; lra).
    unfold atan2.
    destruct (Rlt_dec 0 (r * cos t)) as [_ | H]; [| nra].
    replace (r * sin t / (r * cos t)) with (tan t) by (unfold tan; field; split; lra).
    apply atan_tan. lra. }
  destruct (Req_dec t (PI / 2)) as [Hd | Hd].
  { subst t. unfold atan2. rewrite cos_PI2, sin_PI2.
    destruct (Rlt_dec 0 (r * 0)) as [H | _]; [lra |].
    destruct (Rlt_dec (r * 0) 0) as [H | _]; [lra |].
    destruct (Rlt_dec 0 (r * 1)) as [_ | H]; [reflexivity | lra]. }
  (* PI/2 < t <= PI : second quadrant *)
  assert (Hc : cos t < 0) by (apply cos_lt_0; lra).
  assert (Hs : 0 <= sin t) by (apply sin_ge_0; lra).
  unfold atan2.
  destruct (Rlt_dec 0 (r * cos t)) as [H | _]; [nra |].
  destruct (Rlt_dec (r * cos t) 0) as [_ | H]; [| nra].
  destruct (Rle_dec 0 (r * sin t)) as [_ | H]; [| nra].
  replace (r * sin t / (r * cos t)) with (tan t) by (unfold tan; field; split; lra).
  destruct (tan_shift_PI t) as [Hm _]; [lra |]. rewrite <- Hm.
  rewrite atan_tan by lra. lra.
Qed.

Lemma atan2_sin_cos (t : R) : - PI < t <= PI -> atan2 (sin t) (cos t) = t.
Proof.
  intros H. rewrite <- (atan2_polar 1 t) at 3 by lra. now rewrite !Rmult_1_l.
Qed.

Lemma sqrt_1pz2_pos (z : R) : 0 < sqrt (1 + z²).
Proof. apply sqrt_lt_R0. unfold Rsqr. nra. Qed.

Lemma sqrt_factor (x y : R) : x <> 0 -> sqrt (x * x + y * y) = Rabs x * sqrt (1 + (y / x)²).
Proof.
  intros Hx. replace (x * x + y * y) with (x² * (1 + (y / x)²)) by (unfold Rsqr; field; exact Hx).
  rewrite sqrt_mult_alt by apply Rle_0_sqr. now rewrite sqrt_Rsqr_abs.
Qed.

Lemma polar_atan2 (x y : R) :
  sqrt (x * x + y * y) * cos (atan2 y x) = x /\ sqrt (x * x + y * y) * sin (atan2 y x) = y.
Proof.
  pose proof (sqrt_1pz2_pos (y / x)) as Hq.
  unfold atan2.
  destruct (Rlt_dec 0 x) as [Hx | Hx].
  { rewrite sqrt_factor by lra. rewrite Rabs_pos_eq by lra. rewrite cos_atan, sin_atan.
    split; field; lra. }
  destruct (Rlt_dec x 0) as [Hx' | Hx'].
  { rewrite sqrt_factor by lra. rewrite Rabs_left by lra.
    destruct (Rle_dec 0 y) as [Hy | Hy].
    - rewrite neg_cos, neg_sin, cos_atan, sin_atan. split; field; lra.
    - unfold Rminus. rewrite cos_plus, sin_plus, cos_neg, sin_neg, cos_PI, sin_PI, cos_atan, sin_atan.
      split; field; lra. }
  assert (x = 0) by lra. subst x. replace (0 * 0 + y * y) with (y²) by (unfold Rsqr; ring).
  rewrite sqrt_Rsqr_abs.
  destruct (Rlt_dec 0 y) as [Hy | Hy].
  { rewrite cos_PI2, sin_PI2, Rabs_pos_eq by lra. lra. }
  destruct (Rlt_dec y 0) as [Hy' | Hy'].
  { rewrite cos_neg, sin_neg, cos_PI2, sin_PI2, Rabs_left by lra. lra. }
  assert (y = 0) by lra. subst y. rewrite Rabs_R0. lra.
Qed.

Lemma sqrt_polar (C t : R) : 0 <= C -> sqrt ((C * cos t) * (C * cos t) + (C * sin t) * (C * sin t)) = C.
Proof.
  intros HC. replace (C * cos t * (C * cos t) + C * sin t * (C * sin t)) with (C²).
  - now apply sqrt_Rsqr.
  - pose proof (sin2_cos2 t) as H. unfold Rsqr in *.
    replace (C * cos t * (C * cos t) + C * sin t * (C * sin t))
      with (C * C * (sin t * sin t + cos t * cos t)) by ring.
    rewrite H. ring.
Qed.

(* ------------------------------------------------------------------------------ remainder *)
(* torch.remainder(x, y) = x - y * floor(x / y)  (result has the sign of the divisor) *)
Definition rem (x y : R) : R := x - y * IZR (Int_part (x / y)).

Lemma Int_part_unique (r : R) (z : Z) : IZR z <= r < IZR z + 1 -> Int_part r = z.
Proof.
  intros [H0 H1]. unfold Int_part. rewrite <- (up_tech r z H0); [lia |]. rewrite plus_IZR. exact H1.
Qed.

Lemma rem_small (x y : R) : 0 < y -> 0 <= x < y -> rem x y = x.
Proof.
  intros Hy [H0 H1]. unfold rem.
  assert (Hq : 0 <= x / y < 1).
  { split.
    - apply Rmult_le_pos; [lra | left; now apply Rinv_0_lt_compat].
    - apply (Rmult_lt_reg_r y); [lra |]. unfold Rdiv. rewrite Rmult_assoc, Rinv_l by lra. lra. }
  rewrite (Int_part_unique (x / y) 0%Z) by (simpl; lra). simpl. ring.
Qed.

Lemma rem_neg (x y : R) : 0 < y -> - y <= x < 0 -> rem x y = x + y.
Proof.
  intros Hy [H0 H1]. unfold rem.
  assert (Hq : -1 <= x / y < 0).
  { split.
    - apply (Rmult_le_reg_r y); [lra |]. unfold Rdiv. rewrite Rmult_assoc, Rinv_l by lra. lra.
    - apply (Rmult_lt_reg_r y); [lra |]. unfold Rdiv. rewrite Rmult_assoc, Rinv_l by lra. lra. }
  rewrite (Int_part_unique (x / y) (-1)%Z) by (simpl; lra). simpl. ring.
Qed.

(* ------------------------------------------------------------------------------ 2x2 matrices *)
Record mat2 := mk2 { m00 : R; m01 : R; m10 : R; m11 : R }.

Definition mmul (a b : mat2) : mat2 :=
  mk2 (m00 a * m00 b + m01 a * m10 b) (m00 a * m01 b + m01 a * m11 b)
      (m10 a * m00 b + m11 a * m10 b) (m10 a * m01 b + m11 a * m11 b).
Definition mT (a : mat2) : mat2 := mk2 (m00 a) (m10 a) (m01 a) (m11 a).
Definition mopp (a : mat2) : mat2 := mk2 (- m00 a) (- m01 a) (- m10 a) (- m11 a).
Definition mI : mat2 := mk2 1 0 0 1.
Definition mdiag (s0 s1 : R) : mat2 := mk2 s0 0 0 s1.
Definition mtr (a : mat2) : R := m00 a + m11 a.
Definition mdet (a : mat2) : R := m00 a * m11 a - m01 a * m10 a.

Definition orthogonal (u : mat2) : Prop := mmul (mT u) u = mI.
Definition symmetric (p : mat2) : Prop := m01 p = m10 p.
(* positive semidefinite / definite symmetric 2x2: trace and determinant *)
Definition psd (p : mat2) : Prop := symmetric p /\ 0 <= mtr p /\ 0 <= mdet p.
Definition posdef (a : mat2) : Prop := symmetric a /\ 0 < mtr a /\ 0 < mdet a.

(* rotation by t (the matrix of complex_probe._passively_rotate_grid: k' = rot t · k) *)
Definition rot (t : R) : mat2 := mk2 (cos t) (- sin t) (sin t) (cos t).

Lemma mat2_eq (a b : mat2) :
  m00 a = m00 b -> m01 a = m01 b -> m10 a = m10 b -> m11 a = m11 b -> a = b.
Proof. destruct a, b; simpl; intros; subst; reflexivity. Qed.

Lemma rot_orthogonal (t : R) : orthogonal (rot t) /\ orthogonal (mT (rot t)).
Proof.
  pose proof (sin2_cos2 t) as H. unfold Rsqr in H.
  split; unfold orthogonal, rot, mT, mmul, mI; simpl; f_equal; nra.
Qed.

Lemma sq_eq_nonneg (x y : R) : 0 <= x -> 0 <= y -> x * x = y * y -> x = y.
Proof. intros; nra. Qed.

(* Uniqueness of the polar decomposition for an invertible 2x2 matrix M = R·A with A symmetric
   positive definite and R orthogonal: any (U, P) with U orthogonal, P symmetric positive
   semidefinite and U·P = R·A is (R, A).
   Proof: P² = (UP)ᵀ(UP) = (RA)ᵀ(RA) = A²; det and trace of P are determined (both >= 0);
   Cayley–Hamilton: tr(P)·P = P² + det(P)·I. *)
Lemma gram_of_orth (u00 u01 u10 u11 x1 y1 x2 y2 : R) :
  u00 * u00 + u10 * u10 = 1 -> u00 * u01 + u10 * u11 = 0 ->
  u01 * u00 + u11 * u10 = 0 -> u01 * u01 + u11 * u11 = 1 ->
  (u00 * x1 + u01 * y1) * (u00 * x2 + u01 * y2) + (u10 * x1 + u11 * y1) * (u10 * x2 + u11 * y2)
  = x1 * x2 + y1 * y2.
Proof. intros. nsatz. Qed.

Lemma polar_unique (U P Rm A : mat2) :
  orthogonal U -> psd P -> orthogonal Rm -> posdef A ->
  mmul U P = mmul Rm A -> U = Rm /\ P = A.
Proof.
  destruct U as [u00 u01 u10 u11], P as [p q' q r], Rm as [r00 r01 r10 r11], A as [a b' b c].
  unfold orthogonal, psd, posdef, symmetric, mtr, mdet, mmul, mT, mI; simpl.
  intros HU (Hps & Hpt & Hpd) HR (Has & Hat & Had) HM.
  subst q' b'.
  injection HU as U1 U2 U3 U4. injection HR as R1 R2 R3 R4. injection HM as M1 M2 M3 M4.
  (* entries of P² = (UP)ᵀ(UP) and A² = (RA)ᵀ(RA) *)
  assert (S1 : p * p + q * q = a * a + b * b).
  { rewrite <- (gram_of_orth u00 u01 u10 u11 p q p q U1 U2 U3 U4), M1, M3.
    apply (gram_of_orth r00 r01 r10 r11 a b a b R1 R2 R3 R4). }
  assert (S2 : p * q + q * r = a * b + b * c).
  { rewrite <- (gram_of_orth u00 u01 u10 u11 p q q r U1 U2 U3 U4), M1, M2, M3, M4.
    apply (gram_of_orth r00 r01 r10 r11 a b b c R1 R2 R3 R4). }
  assert (S3 : q * q + r * r = b * b + c * c).
  { rewrite <- (gram_of_orth u00 u01 u10 u11 q r q r U1 U2 U3 U4), M2, M4.
    apply (gram_of_orth r00 r01 r10 r11 b c b c R1 R2 R3 R4). }
  assert (Hdet : p * r - q * q = a * c - b * b).
  { apply sq_eq_nonneg; [lra | lra | clear - S1 S2 S3; nsatz]. }
  assert (Htr : p + r = a + c).
  { apply sq_eq_nonneg; [lra | lra | clear - S1 S3 Hdet; nsatz]. }
  assert (Ht : a + c <> 0) by lra.
  assert (Ep : p = a) by (apply (Rmult_eq_reg_l (a + c)); [clear - S1 Hdet Htr; nsatz | exact Ht]).
  assert (Eq : q = b) by (apply (Rmult_eq_reg_l (a + c)); [clear - S2 Htr; nsatz | exact Ht]).
  assert (Er : r = c) by (apply (Rmult_eq_reg_l (a + c)); [clear - S3 Hdet Htr; nsatz | exact Ht]).
  subst p q r. split; [| reflexivity].
  assert (Hd : a * c - b * b <> 0) by lra.
  apply mat2_eq; simpl; apply (Rmult_eq_reg_l (a * c - b * b)); try exact Hd;
    clear - M1 M2 M3 M4; nsatz.
Qed.

(* the same for a negative definite A: M = R·A = (-R)·(-A) *)
Lemma mmul_opp_opp (a b : mat2) : mmul (mopp a) (mopp b) = mmul a b.
Proof. destruct a, b; unfold mmul, mopp; simpl; f_equal; ring. Qed.

Lemma orthogonal_opp (u : mat2) : orthogonal u -> orthogonal (mopp u).
Proof.
  destruct u; unfold orthogonal, mmul, mT, mopp, mI; simpl. intros H. injection H as H1 H2 H3 H4.
  f_equal; nra.
Qed.

Lemma polar_unique_neg (U P Rm A : mat2) :
  orthogonal U -> psd P -> orthogonal Rm -> posdef (mopp A) ->
  mmul U P = mmul Rm A -> U = mopp Rm /\ P = mopp A.
Proof.
  intros HU HP HR HA HM. apply polar_unique; auto.
  - now apply orthogonal_opp.
  - now rewrite mmul_opp_opp.
Qed.

(* SVD contract => polar contract, for u = U·Vh, p = Vhᵀ·diag(S)·Vh (direct_ptycho_utils._torch_polar) *)
Lemma svd_gives_polar (U Vh : mat2) (s0 s1 : R) (M : mat2) :
  orthogonal U -> orthogonal Vh -> orthogonal (mT Vh) -> 0 <= s0 -> 0 <= s1 ->
  M = mmul (mmul U (mdiag s0 s1)) Vh ->
  let u := mmul U Vh in
  let p := mmul (mmul (mT Vh) (mdiag s0 s1)) Vh in
  orthogonal u /\ psd p /\ mmul u p = M.
Proof.
  destruct U as [u00 u01 u10 u11], Vh as [v00 v01 v10 v11], M as [a b c d].
  unfold orthogonal, psd, symmetric, mtr, mdet, mmul, mT, mI, mdiag; simpl.
  intros HU HV HV' Hs0 Hs1 HM.
  injection HU as U1 U2 U3 U4. injection HV as V1 V2 V3 V4. injection HV' as W1 W2 W3 W4.
  injection HM as M1 M2 M3 M4. subst a b c d.
  repeat split.
  - clear - U1 U2 U3 U4 V1 V2 V3 V4. f_equal; nsatz.
  - ring.
  - replace ((v00 * s0 + v10 * 0) * v00 + (v00 * 0 + v10 * s1) * v10 +
             ((v01 * s0 + v11 * 0) * v01 + (v01 * 0 + v11 * s1) * v11))
      with (s0 * (v00 * v00 + v01 * v01) + s1 * (v10 * v10 + v11 * v11)) by ring.
    rewrite W1, W4. lra.
  - match goal with |- 0 <= ?e => replace e with (s0 * s1 * ((v00 * v11 - v01 * v10) * (v00 * v11 - v01 * v10))) by ring end.
    apply Rmult_le_pos; [now apply Rmult_le_pos | apply Rle_0_sqr].
  - clear - W1 W2 W3 W4. f_equal; nsatz.
Qed.

(* a list of label-indexed terms summed up *)
Definition sum_over (ls : list string) (f : string -> R) : R :=
  fold_right (fun l acc => f l + acc) 0 ls.

Lemma sum_over_ext (ls : list string) (f g : string -> R) :
  (forall l, In l ls -> f l = g l) -> sum_over ls f = sum_over ls g.
Proof.
  induction ls as [| a ls IH]; intros H; simpl; [reflexivity |].
  rewrite (H a) by (now left). rewrite IH; [reflexivity |]. intros l Hl. apply H. now right.
Qed.

Lemma sum_over_plus (ls : list string) (f g : string -> R) :
  sum_over ls (fun l => f l + g l) = sum_over ls f + sum_over ls g.
Proof. induction ls as [| a ls IH]; simpl; [ring | rewrite IH; ring]. Qed.

(* the trigonometric core of "parallax shift = lambda * A * k'" for (C10, C12, phi12):
   with (x, y) = k (cos f, sin f), the Cartesian combination of the polar gradient of the
   defocus/astigmatism surface is the symmetric matrix [[C10 + C12a, C12b], [C12b, C10 - C12a]]
   applied to (x, y) *)
Lemma shift_algebra (C10 C12 p k f x y : R) :
  k * cos f = x -> k * sin f = y ->
  cos f * (k * (C10 + C12 * cos (2 * (f - p)))) - sin f * (- (k * C12 * sin (2 * (f - p))))
    = (C10 + C12 * cos (2 * p)) * x + C12 * sin (2 * p) * y /\
  sin f * (k * (C10 + C12 * cos (2 * (f - p)))) + cos f * (- (k * C12 * sin (2 * (f - p))))
    = C12 * sin (2 * p) * x + (C10 - C12 * cos (2 * p)) * y.
Proof.
  intros <- <-. replace (2 * (f - p)) with (2 * f - 2 * p) by ring.
  rewrite cos_minus, sin_minus, (cos_2a f), (sin_2a f).
  pose proof (sin2_cos2 f) as H. unfold Rsqr in H.
  generalize dependent (cos f). generalize dependent (sin f). intros s c H.
  generalize (cos (2 * p)) (sin (2 * p)). intros c2 s2.
  split; nsatz.
Qed.

(* the symmetric matrix of (C10, C12, phi12) *)
Definition astig_matrix (C10 C12 phi12 : R) : mat2 :=
  mk2 (C10 + C12 * cos (2 * phi12)) (C12 * sin (2 * phi12))
      (C12 * sin (2 * phi12)) (C10 - C12 * cos (2 * phi12)).

Lemma astig_trace_det (C10 C12 phi12 : R) :
  mtr (astig_matrix C10 C12 phi12) = 2 * C10 /\
  mdet (astig_matrix C10 C12 phi12) = C10 * C10 - C12 * C12.
Proof.
  unfold mtr, mdet, astig_matrix; simpl. split; [ring |].
  pose proof (sin2_cos2 (2 * phi12)) as H. unfold Rsqr in H.
  generalize dependent (cos (2 * phi12)). generalize dependent (sin (2 * phi12)). intros s c H. nsatz.
Qed.

(* a coefficient dictionary holding only C10, C12, phi12 (every other name absent = 0) *)
Definition env3 (C10 C12 phi12 : R) : env :=
  fun s => if String.eqb s "C10" then C10 else if String.eqb s "C12" then C12
           else if String.eqb s "phi12" then phi12 else 0.
