(* C03 — Python slice semantics (CPython PySlice_Unpack / PySlice_AdjustIndices) on Z, and
   the row-major coordinate enumeration used by the array model.  Stdlib only. *)
From QV.lib Require Import Prelude.
Local Open Scope Z_scope.

(* clamp of one bound: PySlice_AdjustIndices *)
Definition slice_adj (i lower upper n : Z) : Z :=
  if i <? 0 then Z.max (i + n) lower else Z.min i upper.

(* slice(a, b, c).indices(n) = (start, stop, step); None: step = 0 (ValueError) *)
Definition slice_indices (a b c : option Z) (n : Z) : option (Z * Z * Z) :=
  let step := match c with None => 1 | Some s => s end in
  if step =? 0 then None
  else
    let lower := if step <? 0 then -1 else 0 in
    let upper := if step <? 0 then n - 1 else n in
    let start := match a with
                 | None => if step <? 0 then upper else lower
                 | Some s => slice_adj s lower upper n
                 end in
    let stop := match b with
                | None => if step <? 0 then lower else upper
                | Some s => slice_adj s lower upper n
                end in
    Some (start, stop, step).

(* len(range(start, stop, step)) *)
Definition slice_len (start stop step : Z) : Z :=
  if 0 <? step then (if start <? stop then (stop - start - 1) / step + 1 else 0)
  else (if stop <? start then (start - stop - 1) / (- step) + 1 else 0).

Lemma slice_len_nonneg start stop step : 0 <= slice_len start stop step.
Proof.
  unfold slice_len.
  destruct (0 <? step) eqn:Hs.
  - destruct (start <? stop) eqn:Hc; [|lia].
    assert (0 <= (stop - start - 1) / step) by (apply Z.div_pos; lia). lia.
  - destruct (stop <? start) eqn:Hc; [|lia].
    destruct (Z.eq_dec step 0) as [->|Hn]; [cbn; rewrite Zdiv_0_r; lia|].
    assert (0 <= (start - stop - 1) / (- step)) by (apply Z.div_pos; lia). lia.
Qed.

(* every index a slice selects lies inside the axis: for all n >= 0, all bounds (also None,
   negative, beyond the ends), all non-zero steps *)
Lemma slice_indices_in_range a b c n start stop step k :
  0 <= n ->
  slice_indices a b c n = Some (start, stop, step) ->
  0 <= k < slice_len start stop step ->
  0 <= start + step * k < n.
Proof.
  intros Hn Hs Hk. unfold slice_indices in Hs.
  remember (match c with None => 1 | Some s => s end) as st eqn:Est. clear Est.
  destruct (st =? 0) eqn:H0; [discriminate|].
  apply Z.eqb_neq in H0.
  injection Hs as Hstart Hstop Hstep.
  unfold slice_len in Hk.
  destruct (Z_lt_dec 0 st) as [Hpos|Hneg].
  - (* positive step *)
    assert (Hb : (st <? 0) = false) by lia.
    rewrite Hb in *. subst step.
    assert (Hc : (0 <? st) = true) by lia. rewrite Hc in Hk.
    assert (Hs0 : 0 <= start <= n).
    { rewrite <- Hstart. destruct a as [s|]; [unfold slice_adj; destruct (s <? 0) eqn:E|]; lia. }
    assert (Hs1 : 0 <= stop <= n).
    { rewrite <- Hstop. destruct b as [s|]; [unfold slice_adj; destruct (s <? 0) eqn:E|]; lia. }
    clear Hstart Hstop.
    destruct (start <? stop) eqn:Hlt; [|lia].
    assert (Hq : st * ((stop - start - 1) / st) <= stop - start - 1)
      by (apply Z.mul_div_le; lia).
    assert (Hkk : k <= (stop - start - 1) / st) by lia.
    assert (st * k <= st * ((stop - start - 1) / st)) by (apply Z.mul_le_mono_nonneg_l; lia).
    assert (0 <= st * k) by (apply Z.mul_nonneg_nonneg; lia).
    remember ((stop - start - 1) / st) as q. clear Heqq. lia.
  - (* negative step *)
    assert (Hb : (st <? 0) = true) by lia.
    rewrite Hb in *. subst step.
    assert (Hc : (0 <? st) = false) by lia. rewrite Hc in Hk.
    assert (Hs0 : -1 <= start <= n - 1).
    { rewrite <- Hstart. destruct a as [s|]; [unfold slice_adj; destruct (s <? 0) eqn:E|]; lia. }
    assert (Hs1 : -1 <= stop <= n - 1).
    { rewrite <- Hstop. destruct b as [s|]; [unfold slice_adj; destruct (s <? 0) eqn:E|]; lia. }
    clear Hstart Hstop.
    destruct (stop <? start) eqn:Hlt; [|lia].
    assert (Hq : (- st) * ((start - stop - 1) / (- st)) <= start - stop - 1)
      by (apply Z.mul_div_le; lia).
    assert (Hkk : k <= (start - stop - 1) / (- st)) by lia.
    assert ((- st) * k <= (- st) * ((start - stop - 1) / (- st)))
      by (apply Z.mul_le_mono_nonneg_l; lia).
    assert (0 <= (- st) * k) by (apply Z.mul_nonneg_nonneg; lia).
    remember ((start - stop - 1) / (- st)) as q. clear Heqq.
    replace (st * k) with (- ((- st) * k)) by ring. lia.
Qed.

Local Close Scope Z_scope.

(* ------------------------------------------------------------------ row-major coordinates *)
Fixpoint prodn (l : list nat) : nat := match l with [] => 1 | x :: r => x * prodn r end.

(* all coordinates of an array of shape sh in C (row-major) order *)
Fixpoint coords (sh : list nat) : list (list nat) :=
  match sh with
  | [] => [[]]
  | n :: r => flat_map (fun i => map (cons i) (coords r)) (seq 0 n)
  end.

(* flat offset of a coordinate *)
Fixpoint ravel (sh o : list nat) : nat :=
  match sh, o with
  | _ :: r, i :: o' => i * prodn r + ravel r o'
  | _, _ => 0
  end.

(* o is a coordinate of shape sh *)
Fixpoint in_shape (sh o : list nat) : Prop :=
  match sh, o with
  | [], [] => True
  | n :: r, i :: o' => i < n /\ in_shape r o'
  | _, _ => False
  end.

Lemma coords_length sh : length (coords sh) = prodn sh.
Proof.
  induction sh as [|n r IH]; [reflexivity|].
  cbn [coords prodn].
  assert (H : forall a m, length (flat_map (fun i => map (cons i) (coords r)) (seq a m)) = m * prodn r).
  { intros a m. revert a. induction m as [|m IHm]; intros a; [reflexivity|].
    cbn [seq flat_map]. rewrite app_length, map_length, IH, IHm. lia. }
  apply H.
Qed.

(* the k-th coordinate in row-major order is the one whose flat offset is k *)
Lemma nth_coords sh o d : in_shape sh o -> nth (ravel sh o) (coords sh) d = o.
Proof.
  revert o d. induction sh as [|n r IH]; intros o d Ho.
  - destruct o; [reflexivity | contradiction].
  - destruct o as [|i o']; [contradiction|]. destruct Ho as [Hi Ho].
    cbn [coords ravel].
    assert (H : forall a m j, j < m ->
      nth (j * prodn r + ravel r o') (flat_map (fun i => map (cons i) (coords r)) (seq a m)) d
      = (a + j) :: o').
    { intros a m. revert a. induction m as [|m IHm]; intros a j Hj; [lia|].
      cbn [seq flat_map].
      assert (Hr : ravel r o' < prodn r).
      { clear -Ho. revert o' Ho. induction r as [|x r IHr]; intros o' Ho.
        - destruct o'; [cbn; lia | contradiction].
        - destruct o' as [|y o'']; [contradiction|]. destruct Ho as [Hy Ho].
          cbn [ravel prodn]. specialize (IHr _ Ho). nia. }
      destruct j as [|j].
      - rewrite app_nth1 by (rewrite map_length, coords_length; lia).
        cbn [Nat.mul Nat.add].
        rewrite nth_indep with (d' := a :: o') by (rewrite map_length, coords_length; lia).
        rewrite (map_nth (cons a)). rewrite IH by exact Ho. f_equal. lia.
      - rewrite app_nth2 by (rewrite map_length, coords_length; nia).
        rewrite map_length, coords_length.
        replace (S j * prodn r + ravel r o' - prodn r) with (j * prodn r + ravel r o') by nia.
        rewrite IHm by lia. f_equal. lia. }
    rewrite H by exact Hi. reflexivity.
Qed.

Lemma ravel_lt sh o : in_shape sh o -> ravel sh o < prodn sh.
Proof.
  revert o. induction sh as [|x r IHr]; intros o Ho.
  - destruct o; [cbn; lia | contradiction].
  - destruct o as [|y o'']; [contradiction|]. destruct Ho as [Hy Ho].
    cbn [ravel prodn]. specialize (IHr _ Ho). nia.
Qed.

(* reading a gathered array at a coordinate = applying the gather function to it *)
Lemma nth_gather (A : Type) (f : list nat -> A) sh o d :
  in_shape sh o -> nth (ravel sh o) (map f (coords sh)) d = f o.
Proof.
  intros Ho.
  rewrite nth_indep with (d' := f o) by (rewrite map_length, coords_length; apply ravel_lt; exact Ho).
  rewrite map_nth. rewrite nth_coords by exact Ho. reflexivity.
Qed.
