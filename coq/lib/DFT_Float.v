(* EXECUTABLE binary64 instance of lib/DFT.v and lib/DFT2.v — for correspondence runs ONLY.

   Complex numbers are pairs of PrimFloat; the SAME generic definitions (dft, idft, fmul, roll,
   dft2, idft2, fmul2, fmul2_m, roll2, ...) are instantiated with rounded float arithmetic.
   This instance does NOT satisfy the exact ring laws (float addition is not associative), so
   none of the theorems of DFT.v / DFT2.v apply to it literally; it is used to RUN a model
   written against the generic definitions on the inputs the implementation was run on and to
   compare the two outputs within a stated tolerance.
   cos / sin are not computable in Coq: the twiddle table  [exp(-2 pi i k / N) | k < N]  is an
   ORACLE INPUT, a list of (re, im) float literals produced by the harness with numpy.
   Naive O(N^2)-per-axis transforms, meant for grids up to 16 x 16; signals are lists.
   Imports PrimFloat / FloatOps / Uint63 only (not Floats): no classical axioms.

   INTERFACE
   ------------------------------------------------------------------------------------
   cf := float * float;  cf0 cf1 cfi;  cfadd cfsub cfmul cfopp cfconj;  cfscale s z;
   cf_re x := (x, 0);  cfabs2 z = re^2 + im^2;  cfabs z = sqrt (cfabs2 z);  cfdiv_re z s
   ftw N tab : Z -> cf          twiddle  k |-> nth (k mod N) tab      (tab from numpy)
   fNinv N : cf                 (1/N, 0)
   1-D:  fdft N tab x k, fidft N tab X n, ffmul N tab h x n (memoised), froll N s x n,
         fenergy N x : float
   grid := {| gN1; gT1; gN2; gT2 |}   (sizes and twiddle tables of the two axes)
   2-D:  fdft2 g x, fidft2 g X, ffmul2 g h x (all memoised), froll2 g s1 s2 x,
         ffftshift2 g x, fifftshift2 g x, fsum2 g f : cf, fenergy2 g x : float
   signals <-> lists:
         sig1 l : nat -> cf;  lst1 N f : list cf
         sig2 ll : nat -> nat -> cf   (ll = list of rows);  lst2 N1 N2 f : list (list cf)
         rsig2 (ll : list (list float)) : nat -> nat -> cf   (real array as complex signal)
   printing (exact):  fZZ f = (m, e) with f = m * 2^e; (0,0) for zeros; e = 99999 flags
         nan (m = 0), +inf (m = 1), -inf (m = -1).  show_cf, show1, show2, showr2.
   comparing inside Coq:  fmaxn (nan-propagating max), cfdist a b = |a - b|,
         maxerr1 l1 l2, maxerr2 ll1 ll2 : float  (infinity if the shapes differ),
         maxabs1, maxabs2;  close1/close2 atol rtol got want : bool
         (max |got - want| <= atol + rtol * max |want|; false on nan or shape mismatch);
         err_bucket e : Z  = least b with e < 2^b for finite e > 0, -9999 for 0, 9999 for nan/inf. *)
From Coq Require Import ZArith List Bool.
From Coq Require Import Uint63 PrimFloat FloatOps SpecFloat.
From QV.lib Require Import FinSum DFT DFT2.
Import ListNotations.

Definition cf := (float * float)%type.
Definition cf0 : cf := (0%float, 0%float).
Definition cf1 : cf := (1%float, 0%float).
Definition cfi : cf := (0%float, 1%float).
Definition cfadd (a b : cf) : cf := (PrimFloat.add (fst a) (fst b), PrimFloat.add (snd a) (snd b)).
Definition cfsub (a b : cf) : cf := (PrimFloat.sub (fst a) (fst b), PrimFloat.sub (snd a) (snd b)).
Definition cfopp (a : cf) : cf := (PrimFloat.opp (fst a), PrimFloat.opp (snd a)).
Definition cfmul (a b : cf) : cf :=
  (PrimFloat.sub (PrimFloat.mul (fst a) (fst b)) (PrimFloat.mul (snd a) (snd b)),
   PrimFloat.add (PrimFloat.mul (fst a) (snd b)) (PrimFloat.mul (snd a) (fst b))).
Definition cfconj (a : cf) : cf := (fst a, PrimFloat.opp (snd a)).
Definition cfscale (s : float) (a : cf) : cf := (PrimFloat.mul s (fst a), PrimFloat.mul s (snd a)).
Definition cfdiv_re (a : cf) (s : float) : cf := (PrimFloat.div (fst a) s, PrimFloat.div (snd a) s).
Definition cf_re (x : float) : cf := (x, 0%float).
Definition cfabs2 (a : cf) : float :=
  PrimFloat.add (PrimFloat.mul (fst a) (fst a)) (PrimFloat.mul (snd a) (snd a)).
Definition cfabs (a : cf) : float := PrimFloat.sqrt (cfabs2 a).

Definition float_of_nat (n : nat) : float := of_uint63 (Uint63.of_Z (Z.of_nat n)).

(* twiddle family from the table *)
Definition ftw (N : nat) (tab : list cf) : Z -> cf :=
  fun k => nth (Z.to_nat (k mod Z.of_nat N)) tab cf1.
Definition fNinv (N : nat) : cf := (PrimFloat.div 1%float (float_of_nat N), 0%float).

(* ------------------------------------------------------------------------ signals <-> lists *)
Definition sig1 (l : list cf) : nat -> cf := fun n => nth n l cf0.
Definition lst1 (N : nat) (f : nat -> cf) : list cf := map f (seq 0 N).
Definition sig2 (ll : list (list cf)) : nat -> nat -> cf := fun i j => nth j (nth i ll nil) cf0.
Definition lst2 (N1 N2 : nat) (f : nat -> nat -> cf) : list (list cf) :=
  map (fun i => map (f i) (seq 0 N2)) (seq 0 N1).
Definition rsig2 (ll : list (list float)) : nat -> nat -> cf :=
  fun i j => cf_re (nth j (nth i ll nil) 0%float).
Definition rsig1 (l : list float) : nat -> cf := fun i => cf_re (nth i l 0%float).

(* ------------------------------------------------------------------------ 1-D instance *)
Definition fdft (N : nat) (tab : list cf) : (nat -> cf) -> nat -> cf :=
  dft cf0 cfadd cfmul N (ftw N tab).
Definition fidft (N : nat) (tab : list cf) : (nat -> cf) -> nat -> cf :=
  idft cf0 cfadd cfmul N (ftw N tab) (fNinv N).
Definition ffmul (N : nat) (tab : list cf) : (nat -> cf) -> (nat -> cf) -> nat -> cf :=
  fmul_m cf0 cfadd cfmul N (ftw N tab) (fNinv N).
Definition froll (N : nat) : Z -> (nat -> cf) -> nat -> cf := @roll cf N.
Definition fenergy (N : nat) (x : nat -> cf) : float :=
  fst (sumn cf0 cfadd N (fun n => cf_re (cfabs2 (x n)))).

(* ------------------------------------------------------------------------ 2-D instance *)
Record grid := { gN1 : nat; gT1 : list cf; gN2 : nat; gT2 : list cf }.

Definition fdft2 (g : grid) : (nat -> nat -> cf) -> nat -> nat -> cf :=
  dft2_m cf0 cfadd cfmul (gN1 g) (ftw (gN1 g) (gT1 g)) (gN2 g) (ftw (gN2 g) (gT2 g)).
Definition fidft2 (g : grid) : (nat -> nat -> cf) -> nat -> nat -> cf :=
  idft2_m cf0 cfadd cfmul (gN1 g) (ftw (gN1 g) (gT1 g)) (fNinv (gN1 g))
          (gN2 g) (ftw (gN2 g) (gT2 g)) (fNinv (gN2 g)).
Definition ffmul2 (g : grid) : (nat -> nat -> cf) -> (nat -> nat -> cf) -> nat -> nat -> cf :=
  fmul2_m cf0 cfadd cfmul (gN1 g) (ftw (gN1 g) (gT1 g)) (fNinv (gN1 g))
          (gN2 g) (ftw (gN2 g) (gT2 g)) (fNinv (gN2 g)).
Definition froll2 (g : grid) : Z -> Z -> (nat -> nat -> cf) -> nat -> nat -> cf :=
  @roll2 cf (gN1 g) (gN2 g).
Definition ffftshift2 (g : grid) : (nat -> nat -> cf) -> nat -> nat -> cf := @fftshift2 cf (gN1 g) (gN2 g).
Definition fifftshift2 (g : grid) : (nat -> nat -> cf) -> nat -> nat -> cf := @ifftshift2 cf (gN1 g) (gN2 g).
Definition fsum2 (g : grid) (f : nat -> nat -> cf) : cf := sum2 cf0 cfadd (gN1 g) (gN2 g) f.
Definition fenergy2 (g : grid) (x : nat -> nat -> cf) : float :=
  fst (fsum2 g (fun i j => cf_re (cfabs2 (x i j)))).
Definition glst2 (g : grid) (f : nat -> nat -> cf) : list (list cf) := lst2 (gN1 g) (gN2 g) f.

(* ------------------------------------------------------------------------ exact printing *)
Definition fZZ (f : float) : Z * Z :=
  match Prim2SF f with
  | S754_zero _ => (0, 0)%Z
  | S754_finite s m e => ((if s then Z.neg m else Z.pos m), e)
  | S754_infinity s => ((if s then -1 else 1)%Z, 99999%Z)
  | S754_nan => (0%Z, 99999%Z)
  end.
Definition show_cf (z : cf) : (Z * Z) * (Z * Z) := (fZZ (fst z), fZZ (snd z)).
Definition show1 (l : list cf) := map show_cf l.
Definition show2 (ll : list (list cf)) := map show1 ll.
Definition showr1 (l : list float) := map fZZ l.
Definition showr2 (ll : list (list float)) := map showr1 ll.

(* ------------------------------------------------------------------------ comparison in Coq *)
Definition fmaxn (a b : float) : float :=
  if PrimFloat.is_nan a then a else if PrimFloat.is_nan b then b
  else if PrimFloat.ltb a b then b else a.
Definition cfdist (a b : cf) : float := cfabs (cfsub a b).

Fixpoint maxerr1 (l1 l2 : list cf) : float :=
  match l1, l2 with
  | [], [] => 0%float
  | a :: r1, b :: r2 => fmaxn (cfdist a b) (maxerr1 r1 r2)
  | _, _ => infinity
  end.
Fixpoint maxerr2 (l1 l2 : list (list cf)) : float :=
  match l1, l2 with
  | [], [] => 0%float
  | a :: r1, b :: r2 => fmaxn (maxerr1 a b) (maxerr2 r1 r2)
  | _, _ => infinity
  end.
Definition maxabs1 (l : list cf) : float := fold_right (fun z m => fmaxn (cfabs z) m) 0%float l.
Definition maxabs2 (ll : list (list cf)) : float := fold_right (fun l m => fmaxn (maxabs1 l) m) 0%float ll.

Definition close1 (atol rtol : float) (got want : list cf) : bool :=
  PrimFloat.leb (maxerr1 got want) (PrimFloat.add atol (PrimFloat.mul rtol (maxabs1 want))).
Definition close2 (atol rtol : float) (got want : list (list cf)) : bool :=
  PrimFloat.leb (maxerr2 got want) (PrimFloat.add atol (PrimFloat.mul rtol (maxabs2 want))).
Definition closef (atol rtol : float) (got want : float) : bool :=
  PrimFloat.leb (PrimFloat.abs (PrimFloat.sub got want))
                (PrimFloat.add atol (PrimFloat.mul rtol (PrimFloat.abs want))).

(* least b with e < 2^b (finite e > 0) *)
Definition err_bucket (e : float) : Z :=
  match Prim2SF e with
  | S754_zero _ => (-9999)%Z
  | S754_finite _ m ex => (ex + Z.log2 (Z.pos m) + 1)%Z
  | _ => 9999%Z
  end.
