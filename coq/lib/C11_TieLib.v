(* C11 — fixed meanings given to Python / NumPy constructs by the translator harness/translate_C11.py
   (the TRUSTED list of that file), plus the combinators its generated code is built from.
   Everything here is executable; lemmas relating these meanings to the model's own definitions are
   in coq/gen_proofs/C11_GenProofs.v (they do not depend on the generated file). *)
From QV.lib Require Import Prelude C11_Heap.
From QV.model Require Import C11_Model.
From Coq Require Import QArith.
Local Close Scope Q_scope.
Local Open Scope Z_scope.

(* ---------------------------------------------------------------- outcomes of a guard sequence *)
(* COk: fell through; CRaise e: raised one of the four modelled exception classes; CCrash: raised
   something else (AttributeError on `.ndim` of a non-array, ...) *)
Inductive cres := COk | CRaise (e : err) | CCrash.

(* ---------------------------------------------------------------- slices, arange *)
(* slice(a, b, st).indices(len)  (CPython PySlice_Unpack + PySlice_AdjustIndices); step 0: ValueError *)
Definition py_slice_indices (a b st : option Z) (len : Z) : err + (Z * Z * Z) :=
  let step := match st with Some z => z | None => 1 end in
  if step =? 0 then inl EValue else
  let neg := step <? 0 in
  let lower := if neg then -1 else 0 in
  let upper := if neg then len - 1 else len in
  let start := match a with Some x => clampi len lower upper x | None => if neg then upper else lower end in
  let stop := match b with Some x => clampi len lower upper x | None => if neg then lower else upper end in
  inr (start, stop, step).

(* np.arange(start, stop, step), integer arguments, step <> 0: ceil((stop - start) / step) items *)
Definition py_arange (start stop step : Z) : list Z :=
  let cnt := if step <? 0 then (start - stop - step - 1) / (- step) else (stop - start + step - 1) / step in
  map (fun k => start + Z.of_nat k * step) (seq 0 (Z.to_nat cnt)).

(* range(n) *)
Definition py_range (n : Z) : list Z := map Z.of_nat (seq 0 (Z.to_nat n)).

(* len(x) *)
Definition zlength {A : Type} (l : list A) : Z := Z.of_nat (length l).

(* x[:k] for k >= 0 (a negative k is never produced: k is a len()) *)
Definition py_prefix {A : Type} (k : Z) (l : list A) : list A := firstn (Z.to_nat k) l.

(* x[k:] for k >= 0 *)
Definition py_suffix {A : Type} (k : Z) (l : list A) : list A := skipn (Z.to_nat k) l.

(* values[lo:hi] for 0 <= lo *)
Definition py_slice {A : Type} (lo hi : Z) (l : list A) : list A :=
  firstn (Z.to_nat (hi - lo)) (skipn (Z.to_nat lo) l).

(* [x] * k *)
Definition py_repeat {A : Type} (x : A) (k : Z) : list A := repeat x (Z.to_nat k).

(* len(set(l)) for a list of names *)
Fixpoint zdedup (l : list Z) : list Z :=
  match l with [] => [] | x :: r => if memz x r then zdedup r else x :: zdedup r end.
Definition py_set_len (l : list Z) : Z := zlength (zdedup l).

(* sorted(set(l)) for a list of indices: only membership is used by the callers *)
Definition py_sorted_set (l : list Z) : list Z := zdedup l.

(* {name: i for i, name in enumerate(l)}[x]: the LAST position wins *)
Fixpoint last_index (x : Z) (l : list Z) (i : Z) (acc : option Z) : option Z :=
  match l with
  | [] => acc
  | y :: r => last_index x r (i + 1) (if Z.eqb x y then Some i else acc)
  end.
Definition py_enum_dict_get (l : list Z) (x : Z) : Z :=
  match last_index x l 0 None with Some i => i | None => -1 end.

(* ---------------------------------------------------------------- error-monad combinators *)
Section FlatMapE.
  Variables (A B : Type) (f : A -> err + list B).
  Fixpoint flat_mapE (l : list A) : err + list B :=
    match l with
    | [] => inr []
    | x :: r => match f x with
                | inl e => inl e
                | inr ys => match flat_mapE r with inl e => inl e | inr zs => inr (ys ++ zs) end
                end
    end.
End FlatMapE.
Arguments flat_mapE {A B} f l.

Definition sum_map {A B : Type} (f : A -> B) (x : err + A) : err + B :=
  match x with inl e => inl e | inr a => inr (f a) end.

(* ---------------------------------------------------------------- nested data *)
(* data[i] on a Python list (a Node): negative indices wrap once; out of range: IndexError;
   subscripting None: TypeError (arrays are never subscripted this way by the translated code) *)
Definition py_getitem (t : tree) (i : Z) : err + tree :=
  match t with
  | Node l => match pyidx (length l) i with
              | Some k => match nth_error l k with Some c => inr c | None => inl EIndex end
              | None => inl EIndex
              end
  | Leaf _ => inl EType
  end.

(* ---------------------------------------------------------------- arrays in the heap *)
Definition py_nrows (h : list cell) (id : nat) : Z :=
  match nth_error h id with Some c => zlength (rows c) | None => 0 end.

Definition py_ncols (h : list cell) (id : nat) : Z :=
  match nth_error h id with Some c => Z.of_nat (ncols c) | None => 0 end.

(* arr[:, k] = vals   (len(vals) = arr.shape[0]) *)
Definition py_setcol (k : Z) (vals : list Q) (id : nat) (h : list cell) : list cell :=
  match nth_error h id with
  | Some c => upd_nth id (mkCell (ncols c) (set_col (Z.to_nat k) vals (rows c))) h
  | None => h
  end.

(* arr[:, k] = f(arr[:, k]) *)
Definition py_mapcol (k : Z) (f : Q -> Q) (id : nat) (h : list cell) : list cell :=
  match nth_error h id with
  | Some c => upd_nth id (map_col (Z.to_nat k) f c) h
  | None => h
  end.

(* ---------------------------------------------------------------- structural facts *)
(* what a `return` of a flatten-like function hands out *)
Inductive retkind :=
| RetFreshEmpty            (* np.empty(...)            : a new array *)
| RetFreshStack            (* np.vstack(list of arrays): a new array *)
| RetFreshConcat           (* np.concatenate(list, axis=0) : a new array *)
| RetList.                 (* a list built by the function itself *)

(* how a recursive helper treats a Python list / an array / anything else *)
Inductive scheme :=
| SchemeMapRebuild         (* list: [f(sub) for sub in arr]; else-branch returns the object unchanged *)
| SchemeEffect.            (* list: for sub in arr: f(sub); no result *)

(* in which order a multi-cell operation walks the addressed cells *)
Inductive traversal :=
| TravNdindex              (* for idx in np.ndindex(lens...): ref = data; ref = ref[ind[i]] per axis *)
| TravNdindexEnumerate.    (* the same, the k-th address is given the k-th value *)

(* where the cell arrays of a new vector come from *)
Inductive datasrc :=
| SrcDeepcopy              (* copy.deepcopy(self._data) *)
| SrcValidated             (* validate_vector_data(value, shape, num_fields) *)
| SrcTake.                 (* take(self._data, indices): the SAME array objects (a view) *)
