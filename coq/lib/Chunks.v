(* Splitting a list into consecutive chunks of size b (Python: for i in range(0, len, b): l[i:i+b]) *)
From QV.lib Require Import Prelude.

Section Chunks.
  Variable A : Type.

  Fixpoint chunks_fuel (fuel b : nat) (l : list A) : list (list A) :=
    match fuel with
    | 0 => []
    | S f => match l with
             | [] => []
             | _ => firstn b l :: chunks_fuel f b (skipn b l)
             end
    end.

  Definition chunks (b : nat) (l : list A) : list (list A) := chunks_fuel (length l) b l.

  Lemma chunks_fuel_concat fuel b l :
    1 <= b -> length l <= fuel -> concat (chunks_fuel fuel b l) = l.
  Proof.
    revert l. induction fuel as [|f IH]; intros l Hb Hl.
    - destruct l; simpl in *; [reflexivity | lia].
    - destruct l as [|x l]; [reflexivity|].
      cbn [chunks_fuel concat].
      rewrite IH; [apply firstn_skipn | exact Hb |].
      rewrite skipn_length. cbn [length] in *. lia.
  Qed.

  Theorem chunks_concat b l : 1 <= b -> concat (chunks b l) = l.
  Proof. intros Hb. apply chunks_fuel_concat; [exact Hb | lia]. Qed.

  Lemma chunks_fuel_length fuel b l :
    1 <= b -> length l <= fuel -> length (chunks_fuel fuel b l) = ceil_div (length l) b.
  Proof.
    unfold ceil_div.
    revert l. induction fuel as [|f IH]; intros l Hb Hl.
    - destruct l; simpl in *; [|lia]. symmetry. apply Nat.div_small. lia.
    - destruct l as [|x l].
      + simpl. symmetry. apply Nat.div_small. lia.
      + cbn [chunks_fuel length].
        rewrite IH; [| exact Hb | rewrite skipn_length; cbn [length] in *; lia].
        rewrite skipn_length. cbn [length].
        destruct (Nat.le_gt_cases b (S (length l))) as [Hle|Hgt].
        * replace (S (length l) + b - 1) with ((S (length l) - b + b - 1) + 1 * b) by lia.
          rewrite Nat.div_add by lia. lia.
        * replace (S (length l) - b) with 0 by lia.
          rewrite (Nat.div_small (0 + b - 1) b) by lia.
          assert (H : (S (length l) + b - 1) / b = 1).
          { symmetry. apply Nat.div_unique with (r := length l); lia. }
          lia.
  Qed.

  Theorem chunks_length b l : 1 <= b -> length (chunks b l) = ceil_div (length l) b.
  Proof. intros Hb. apply chunks_fuel_length; [exact Hb | lia]. Qed.

  Lemma chunks_fuel_sizes fuel b l c :
    1 <= b -> In c (chunks_fuel fuel b l) -> 1 <= length c <= b.
  Proof.
    revert l. induction fuel as [|f IH]; intros l Hb Hin; [contradiction|].
    destruct l as [|x l]; [contradiction|].
    cbn [chunks_fuel] in Hin. destruct Hin as [<-|Hin].
    - rewrite firstn_length. simpl. lia.
    - eapply IH; eauto.
  Qed.

  Theorem chunks_sizes b l c : 1 <= b -> In c (chunks b l) -> 1 <= length c <= b.
  Proof. apply chunks_fuel_sizes. Qed.

  (* every chunk except possibly the last is full *)
  Lemma chunks_fuel_full fuel b l i c :
    1 <= b -> length l <= fuel ->
    nth_error (chunks_fuel fuel b l) i = Some c ->
    S i < length (chunks_fuel fuel b l) -> length c = b.
  Proof.
    revert l i. induction fuel as [|f IH]; intros l i Hb Hl Hn Hi; [simpl in Hi; lia|].
    destruct l as [|x l]; [simpl in Hi; lia|].
    cbn [chunks_fuel] in *. destruct i as [|i]; cbn [nth_error length] in *.
    - injection Hn as <-. rewrite firstn_length.
      destruct (chunks_fuel f b (skipn b (x :: l))) eqn:E; [simpl in Hi; lia|].
      destruct f; [discriminate|]. cbn [chunks_fuel] in E.
      destruct (skipn b (x :: l)) eqn:Es; [discriminate|].
      assert (length (skipn b (x :: l)) >= 1) by (rewrite Es; simpl; lia).
      rewrite skipn_length in H. cbn [length] in *. lia.
    - eapply IH; eauto; [rewrite skipn_length; cbn [length] in *; lia | lia].
  Qed.
End Chunks.

Arguments chunks_fuel {A} fuel b l.
Arguments chunks {A} b l.
