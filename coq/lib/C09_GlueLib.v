(* C09 — fixed meanings of the NumPy / Python operations that occur in SimpleBatcher.__init__,
   used by the file generated from its source on every run (build/C09/Gen_C09Glue.v, written by
   harness/c09_glue_tie.py), and the lemmas the fixed proof script needs about them. *)
From QV.lib Require Import Prelude.
From Coq Require Import ZArith List Arith Lia.
Import ListNotations.

(* x[:k] for an integer k (negative k: drop the last |k|) *)
Definition py_take (k : Z) (l : list nat) : list nat :=
  if (k <? 0)%Z then firstn (length l - Z.to_nat (- k)) l else firstn (Z.to_nat k) l.

(* elements at positions 0, k, 2k, ... *)
Definition every_nth (k : nat) (l : list nat) : list nat :=
  map snd (filter (fun p => fst p mod k =? 0) (combine (seq 0 (length l)) l)).

(* x[::k]: ValueError for k = 0; a negative step (reversed slice) is outside this reading: None *)
Definition py_every (k : Z) (l : list nat) : option (list nat) :=
  if (k <=? 0)%Z then None else Some (every_nth (Z.to_nat k) l).

(* np.setdiff1d(a, b) where a is np.arange(n) (sorted, unique): the elements of a not in b, in order *)
Definition py_setdiff_arange (a b : list nat) : list nat := filter (fun i => negb (memb i b)) a.

Lemma py_take_pos k l : (0 < k)%Z -> py_take k l = firstn (Z.to_nat k) l.
Proof. intros H. unfold py_take. destruct (Z.ltb_spec k 0); [lia | reflexivity]. Qed.

Lemma combine_diag (l : list nat) : combine l l = map (fun i => (i, i)) l.
Proof. induction l as [|x l IH]; [reflexivity|]. cbn [combine map]. rewrite IH. reflexivity. Qed.

Lemma every_nth_seq k n : every_nth k (seq 0 n) = filter (fun i => i mod k =? 0) (seq 0 n).
Proof.
  unfold every_nth. rewrite seq_length, combine_diag.
  induction (seq 0 n) as [|x l IH]; [reflexivity|].
  cbn [map filter fst]. destruct (x mod k =? 0); cbn [map snd]; rewrite IH; reflexivity.
Qed.

Lemma py_every_seq k n : (1 <= k)%Z ->
  py_every k (seq 0 n) = Some (filter (fun i => i mod (Z.to_nat k) =? 0) (seq 0 n)).
Proof. intros H. unfold py_every. destruct (Z.leb_spec k 0); [lia|]. rewrite every_nth_seq. reflexivity. Qed.

Lemma firstn_if_longer (n : nat) (l : list nat) :
  (if (Z.of_nat n <? Z.of_nat (length l))%Z then firstn n l else l) = firstn n l.
Proof. destruct (Z.ltb_spec (Z.of_nat n) (Z.of_nat (length l))); [reflexivity|]. symmetry. apply firstn_all2. lia. Qed.
