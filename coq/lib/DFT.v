(* Discrete Fourier transform over an abstract commutative ring with conjugation and an
   N-th root-of-unity family  w : Z -> R  (w k plays exp(-2 pi i k / N)).
   All statements hold for every N >= 1.  Stdlib only; no axioms.
   The hypotheses are bundled in [root_ok]; lib/DFT_Inst.v shows they are satisfiable. *)
From Coq Require Import ZArith List Lia Ring Arith.
From QV.lib Require Import FinSum.
Import ListNotations.

Section DFT.
  Variable R : Type.
  Variables (rO rI : R) (radd rmul rsub : R -> R -> R) (ropp : R -> R).
  Variable Rth : ring_theory rO rI radd rmul rsub ropp (@eq R).
  Add Ring Rring : Rth.
  Variable conj : R -> R.

  Notation "0" := rO.  Notation "1" := rI.
  Infix "+" := radd.   Infix "*" := rmul.  Infix "-" := rsub.  Notation "- x" := (ropp x).
  Notation sumn := (sumn rO radd).
  Notation of_nat := (of_nat rO rI radd).

  Record conj_ok : Prop := {
    conj_add : forall a b, conj (a + b) = conj a + conj b;
    conj_mul : forall a b, conj (a * b) = conj a * conj b;
    conj_invol : forall a, conj (conj a) = a
  }.

  Record root_ok (N : nat) (w : Z -> R) (Ninv : R) : Prop := {
    ro_pos : (0 < N)%nat;
    ro_0 : w 0%Z = 1;
    ro_add : forall a b : Z, w (a + b)%Z = w a * w b;
    ro_N : w (Z.of_nat N) = 1;
    ro_conj : forall a : Z, conj (w a) = w (- a)%Z;
    ro_orth : forall d : Z,
        sumn N (fun k => w (d * Z.of_nat k)%Z) = if (d mod Z.of_nat N =? 0)%Z then of_nat N else 0;
    ro_inv : Ninv * of_nat N = 1
  }.

  Arguments ro_pos {N w Ninv} _.
  Arguments ro_0 {N w Ninv} _.
  Arguments ro_add {N w Ninv} _ a b.
  Arguments ro_N {N w Ninv} _.
  Arguments ro_conj {N w Ninv} _ a.
  Arguments ro_orth {N w Ninv} _ d.
  Arguments ro_inv {N w Ninv} _.

  Hypothesis Cok : conj_ok.
  Set Default Proof Using "All".

  Lemma conj_0 : conj 0 = 0.
  Proof.
    assert (H : conj 0 = conj 0 + conj 0) by (rewrite <- (conj_add Cok); f_equal; ring).
    assert (H2 : conj 0 - conj 0 = conj 0 + conj 0 - conj 0) by (rewrite <- H; reflexivity).
    ring_simplify in H2. symmetry. exact H2.
  Qed.

  Lemma conj_1 : conj 1 = 1.
  Proof.
    rewrite <- (conj_invol Cok 1) at 2.
    replace (conj 1) with (1 * conj 1) at 2 by ring.
    rewrite (conj_mul Cok), (conj_invol Cok). ring.
  Qed.

  Lemma conj_opp a : conj (- a) = - conj a.
  Proof.
    assert (H : conj (- a) + conj a = 0) by (rewrite <- (conj_add Cok), <- conj_0; f_equal; ring).
    replace (conj (- a)) with (conj (- a) + conj a - conj a) by ring. rewrite H. ring.
  Qed.

  Lemma conj_sub a b : conj (a - b) = conj a - conj b.
  Proof. replace (a - b) with (a + - b) by ring. rewrite (conj_add Cok), conj_opp. ring. Qed.

  Lemma conj_sumn n f : conj (sumn n f) = sumn n (fun i => conj (f i)).
  Proof. induction n as [|n IH]; cbn [FinSum.sumn]; [apply conj_0|]. rewrite (conj_add Cok), IH. reflexivity. Qed.

  Lemma conj_of_nat n : conj (of_nat n) = of_nat n.
  Proof. induction n as [|n IH]; cbn [FinSum.of_nat]; [apply conj_0|]. rewrite (conj_add Cok), IH, conj_1. reflexivity. Qed.

  (* ------------------------------------------------------------------ one dimension *)
  Section OneD.
    Variables (N : nat) (w : Z -> R) (Ninv : R).
    Hypothesis Rok : root_ok N w Ninv.

    Let Npos := ro_pos Rok.

    Lemma w_opp a : w (- a)%Z * w a = 1.
    Proof. rewrite <- (ro_add Rok). replace (- a + a)%Z with 0%Z by lia. apply (ro_0 Rok). Qed.

    Lemma w_mulN_nat t : w (Z.of_nat N * Z.of_nat t)%Z = 1.
    Proof.
      induction t as [|t IH].
      - replace (Z.of_nat N * Z.of_nat 0)%Z with 0%Z by lia. apply (ro_0 Rok).
      - replace (Z.of_nat N * Z.of_nat (S t))%Z with (Z.of_nat N * Z.of_nat t + Z.of_nat N)%Z by lia.
        rewrite (ro_add Rok), IH, (ro_N Rok). ring.
    Qed.

    Lemma w_mulN t : w (Z.of_nat N * t)%Z = 1.
    Proof.
      destruct (Z_le_gt_dec 0 t) as [Hp|Hn].
      - rewrite <- (Z2Nat.id t Hp). apply w_mulN_nat.
      - pose proof (w_opp (Z.of_nat N * - t)%Z) as H.
        replace (- (Z.of_nat N * - t))%Z with (Z.of_nat N * t)%Z in H by lia.
        replace (- t)%Z with (Z.of_nat (Z.to_nat (- t))) in H by (rewrite Z2Nat.id; lia).
        rewrite w_mulN_nat in H. transitivity (w (Z.of_nat N * t)%Z * 1); [ring | exact H].
    Qed.

    Lemma w_periodic a b : (a mod Z.of_nat N = b mod Z.of_nat N)%Z -> w a = w b.
    Proof.
      intros H.
      assert (Hn : (Z.of_nat N <> 0)%Z) by lia.
      rewrite (Z.div_mod a (Z.of_nat N) Hn), (Z.div_mod b (Z.of_nat N) Hn), H.
      rewrite !(ro_add Rok), !w_mulN. reflexivity.
    Qed.

    Lemma w_mod a : w (a mod Z.of_nat N)%Z = w a.
    Proof. apply w_periodic. apply Z.mod_mod. lia. Qed.

    Lemma Ninv_r : of_nat N * Ninv = 1.
    Proof. transitivity (Ninv * of_nat N); [ring | apply (ro_inv Rok)]. Qed.

    (* index helpers *)
    Definition zidx (i : Z) : nat := Z.to_nat (i mod Z.of_nat N).

    Lemma zidx_lt i : (zidx i < N)%nat.
    Proof. unfold zidx. pose proof (Z.mod_pos_bound i (Z.of_nat N)). lia. Qed.

    Lemma zidx_small (n : nat) : (n < N)%nat -> zidx (Z.of_nat n) = n.
    Proof. intros H. unfold zidx. rewrite Z.mod_small by lia. apply Nat2Z.id. Qed.

    Lemma zidx_mod i : (Z.of_nat (zidx i) = i mod Z.of_nat N)%Z.
    Proof. unfold zidx. pose proof (Z.mod_pos_bound i (Z.of_nat N)). lia. Qed.

    Definition dft (x : nat -> R) (k : nat) : R :=
      sumn N (fun n => x n * w (Z.of_nat k * Z.of_nat n)%Z).

    Definition idft (X : nat -> R) (n : nat) : R :=
      Ninv * sumn N (fun k => X k * w (- (Z.of_nat k * Z.of_nat n))%Z).

    (* orthogonality in the form used below *)
    Lemma orth_delta (m n : nat) : (m < N)%nat -> (n < N)%nat ->
      sumn N (fun k => w (Z.of_nat k * Z.of_nat m)%Z * w (- (Z.of_nat k * Z.of_nat n))%Z)
      = if Nat.eq_dec m n then of_nat N else 0.
    Proof.
      intros Hm Hn.
      rewrite (sumn_ext Rth N _ (fun k => w ((Z.of_nat m - Z.of_nat n) * Z.of_nat k)%Z)).
      2:{ intros k _. rewrite <- (ro_add Rok). f_equal. lia. }
      rewrite (ro_orth Rok).
      destruct (Nat.eq_dec m n) as [->|Hne].
      - replace (Z.of_nat n - Z.of_nat n)%Z with 0%Z by lia. rewrite Z.mod_0_l by lia. reflexivity.
      - destruct ((Z.of_nat m - Z.of_nat n) mod Z.of_nat N =? 0)%Z eqn:E; [|reflexivity].
        exfalso. apply Z.eqb_eq in E.
        apply Z.mod_divide in E; [|lia]. destruct E as [q Hq].
        assert (q = 0%Z) by nia. subst q. lia.
    Qed.

    Theorem idft_dft x n : (n < N)%nat -> idft (dft x) n = x n.
    Proof.
      intros Hn. unfold idft, dft.
      rewrite (sumn_ext Rth N _
                 (fun k => sumn N (fun m => x m * (w (Z.of_nat k * Z.of_nat m)%Z * w (- (Z.of_nat k * Z.of_nat n))%Z)))).
      2:{ intros k _. rewrite <- (sumn_scale_r Rth). apply (sumn_ext Rth). intros; ring. }
      rewrite (sumn_swap Rth).
      rewrite (sumn_ext Rth N _ (fun m => x m * (if Nat.eq_dec m n then of_nat N else 0))).
      2:{ intros m Hm. rewrite (sumn_scale_l Rth). rewrite orth_delta by assumption. reflexivity. }
      rewrite (sumn_single Rth N _ n Hn).
      - destruct (Nat.eq_dec n n) as [_|C]; [|congruence].
        transitivity (x n * (Ninv * of_nat N)); [ring|]. rewrite (ro_inv Rok). ring.
      - intros i _ Hi. destruct (Nat.eq_dec i n); [congruence|]. ring.
    Qed.

    Lemma orth_delta' (k l : nat) : (k < N)%nat -> (l < N)%nat ->
      sumn N (fun n => w (- (Z.of_nat k * Z.of_nat n))%Z * w (Z.of_nat l * Z.of_nat n)%Z)
      = if Nat.eq_dec k l then of_nat N else 0.
    Proof.
      intros Hk Hl.
      rewrite (sumn_ext Rth N _ (fun n => w (Z.of_nat n * Z.of_nat l)%Z * w (- (Z.of_nat n * Z.of_nat k))%Z)).
      2:{ intros n _. rewrite <- !(ro_add Rok). f_equal. lia. }
      rewrite orth_delta by assumption.
      destruct (Nat.eq_dec l k), (Nat.eq_dec k l); congruence.
    Qed.

    Theorem dft_idft X k : (k < N)%nat -> dft (idft X) k = X k.
    Proof.
      intros Hk. unfold idft, dft.
      rewrite (sumn_ext Rth N _
                 (fun n => Ninv * sumn N (fun l => X l * (w (- (Z.of_nat l * Z.of_nat n))%Z * w (Z.of_nat k * Z.of_nat n)%Z)))).
      2:{ intros n _.
          transitivity (Ninv * (sumn N (fun l => X l * w (- (Z.of_nat l * Z.of_nat n))%Z) * w (Z.of_nat k * Z.of_nat n)%Z)); [ring|].
          f_equal. rewrite <- (sumn_scale_r Rth). apply (sumn_ext Rth). intros; ring. }
      rewrite (sumn_scale_l Rth), (sumn_swap Rth).
      rewrite (sumn_ext Rth N _ (fun l => X l * (if Nat.eq_dec l k then of_nat N else 0))).
      2:{ intros l Hl. rewrite (sumn_scale_l Rth). rewrite orth_delta' by assumption. reflexivity. }
      rewrite (sumn_single Rth N _ k Hk).
      - destruct (Nat.eq_dec k k) as [_|C]; [|congruence].
        transitivity (X k * (Ninv * of_nat N)); [ring|]. rewrite (ro_inv Rok). ring.
      - intros i _ Hi. destruct (Nat.eq_dec i k); [congruence|]. ring.
    Qed.

    (* linearity *)
    Theorem dft_linear a b x y k :
      dft (fun n => a * x n + b * y n) k = a * dft x k + b * dft y k.
    Proof.
      unfold dft. rewrite <- !(sumn_scale_l Rth), <- (sumn_add Rth).
      apply (sumn_ext Rth). intros; ring.
    Qed.

    Theorem idft_linear a b X Y n :
      idft (fun k => a * X k + b * Y k) n = a * idft X n + b * idft Y n.
    Proof.
      unfold idft.
      transitivity (Ninv * (a * sumn N (fun k => X k * w (- (Z.of_nat k * Z.of_nat n))%Z)
                            + b * sumn N (fun k => Y k * w (- (Z.of_nat k * Z.of_nat n))%Z))); [|ring].
      f_equal. rewrite <- !(sumn_scale_l Rth), <- (sumn_add Rth).
      apply (sumn_ext Rth). intros; ring.
    Qed.

    Lemma dft_ext x y k : (forall n, (n < N)%nat -> x n = y n) -> dft x k = dft y k.
    Proof. intros H. unfold dft. apply (sumn_ext Rth). intros n Hn. rewrite H by assumption. reflexivity. Qed.

    Lemma idft_ext X Y n : (forall k, (k < N)%nat -> X k = Y k) -> idft X n = idft Y n.
    Proof. intros H. unfold idft. f_equal. apply (sumn_ext Rth). intros k Hk. rewrite H by assumption. reflexivity. Qed.

    (* DC bin is the plain sum *)
    Theorem dft_dc x : dft x 0%nat = sumn N x.
    Proof.
      unfold dft. apply (sumn_ext Rth). intros n _.
      replace (Z.of_nat 0 * Z.of_nat n)%Z with 0%Z by lia. rewrite (ro_0 Rok). ring.
    Qed.

    (* circular shift (roll): (roll s x)[n] = x[(n - s) mod N], s any integer *)
    Definition roll (s : Z) (x : nat -> R) (n : nat) : R := x (zidx (Z.of_nat n - s)).

    (* reindexing a full-period sum by an integer shift *)
    Lemma sumn_zshift (f : nat -> R) (s : Z) :
      sumn N (fun n => f (zidx (Z.of_nat n - s))) = sumn N f.
    Proof.
      set (t := Z.to_nat ((- s) mod Z.of_nat N)).
      rewrite <- (sumn_shift Rth N f t Npos).
      apply (sumn_ext Rth). intros n Hn. f_equal.
      unfold zidx, t. pose proof (Z.mod_pos_bound (- s) (Z.of_nat N)).
      apply Nat2Z.inj. rewrite Z2Nat.id by (apply Z.mod_pos_bound; lia).
      rewrite Nat2Z.inj_mod, Nat2Z.inj_add, Z2Nat.id by lia.
      rewrite Zplus_mod_idemp_r. f_equal; lia.
    Qed.

    Theorem dft_roll s x k : dft (roll s x) k = dft x k * w (Z.of_nat k * s)%Z.
    Proof.
      unfold dft, roll.
      set (h := fun m : nat => x m * w (Z.of_nat k * (Z.of_nat m + s))%Z).
      transitivity (sumn N (fun n => h (zidx (Z.of_nat n - s)))).
      - apply (sumn_ext Rth). intros n Hn. unfold h. f_equal. apply w_periodic.
        rewrite zidx_mod.
        rewrite (Zmult_mod (Z.of_nat k) ((Z.of_nat n - s) mod Z.of_nat N + s)).
        rewrite Zplus_mod_idemp_l.
        replace (Z.of_nat n - s + s)%Z with (Z.of_nat n) by lia.
        rewrite <- Zmult_mod. reflexivity.
      - rewrite (sumn_zshift h s). unfold h.
        rewrite <- (sumn_scale_r Rth).
        apply (sumn_ext Rth). intros n _.
        replace (Z.of_nat k * (Z.of_nat n + s))%Z with (Z.of_nat k * Z.of_nat n + Z.of_nat k * s)%Z by lia.
        rewrite (ro_add Rok). ring.
    Qed.

    (* Fourier multiplier operators *)
    Definition fmul (h : nat -> R) (x : nat -> R) : nat -> R :=
      idft (fun k => h k * dft x k).

    Theorem fmul_compose h g x n :
      fmul h (fmul g x) n = fmul (fun k => h k * g k) x n.
    Proof.
      unfold fmul. apply idft_ext. intros k Hk.
      rewrite dft_idft by assumption. ring.
    Qed.

    Theorem fmul_one x n : (n < N)%nat -> fmul (fun _ => 1) x n = x n.
    Proof.
      intros Hn. unfold fmul. transitivity (idft (dft x) n); [|apply idft_dft; exact Hn].
      apply idft_ext. intros; ring.
    Qed.

    (* shift theorem: the phase-ramp multiplier is the circular roll *)
    Theorem fmul_ramp_is_roll s x n : (n < N)%nat ->
      fmul (fun k => w (Z.of_nat k * s)%Z) x n = roll s x n.
    Proof.
      intros Hn. unfold fmul.
      rewrite <- (idft_dft (roll s x) n Hn).
      apply idft_ext. intros k _. rewrite dft_roll. ring.
    Qed.

    Theorem roll_roll s t x n : roll s (roll t x) n = roll (s + t)%Z x n.
    Proof.
      unfold roll. f_equal. unfold zidx. f_equal.
      rewrite Z2Nat.id by (apply Z.mod_pos_bound; lia).
      rewrite Zminus_mod_idemp_l. f_equal. lia.
    Qed.

    (* Parseval / Plancherel with conjugation *)
    Theorem parseval x y :
      sumn N (fun k => dft x k * conj (dft y k)) = of_nat N * sumn N (fun n => x n * conj (y n)).
    Proof.
      unfold dft.
      transitivity (sumn N (fun m => sumn N (fun n => x m * conj (y n) *
                      sumn N (fun k => w (Z.of_nat k * Z.of_nat m)%Z * w (- (Z.of_nat k * Z.of_nat n))%Z)))).
      - rewrite (sumn_ext Rth N _ (fun k => sumn N (fun m => sumn N (fun n =>
                   x m * conj (y n) * (w (Z.of_nat k * Z.of_nat m)%Z * w (- (Z.of_nat k * Z.of_nat n))%Z))))).
        2:{ intros k _. rewrite conj_sumn. rewrite <- (sumn_scale_r Rth).
            apply (sumn_ext Rth). intros m _. rewrite <- (sumn_scale_l Rth).
            apply (sumn_ext Rth). intros n _. rewrite (conj_mul Cok), (ro_conj Rok). ring. }
        rewrite (sumn_swap Rth). apply (sumn_ext Rth). intros m _.
        rewrite (sumn_swap Rth). apply (sumn_ext Rth). intros n _.
        rewrite (sumn_scale_l Rth). reflexivity.
      - rewrite <- (sumn_scale_l Rth). apply (sumn_ext Rth). intros m Hm.
        rewrite (sumn_ext Rth N _ (fun n => x m * conj (y n) * (if Nat.eq_dec m n then of_nat N else 0))).
        2:{ intros n Hn. rewrite orth_delta by assumption. reflexivity. }
        rewrite (sumn_single Rth N _ m Hm).
        + destruct (Nat.eq_dec m m); [ring | congruence].
        + intros i _ Hi. destruct (Nat.eq_dec m i); [congruence | ring].
    Qed.

    Definition energy (x : nat -> R) : R := sumn N (fun n => x n * conj (x n)).

    Theorem parseval_energy x : energy (dft x) = of_nat N * energy x.
    Proof. apply parseval. Qed.

    (* a unit-modulus multiplier preserves the total intensity *)
    Theorem fmul_unit_energy h x :
      (forall k, (k < N)%nat -> h k * conj (h k) = 1) ->
      energy (fmul h x) = energy x.
    Proof.
      intros Hh.
      assert (E : of_nat N * energy (fmul h x) = of_nat N * energy x).
      { rewrite <- !parseval_energy. unfold energy. apply (sumn_ext Rth). intros k Hk.
        unfold fmul. rewrite dft_idft by assumption. rewrite (conj_mul Cok).
        transitivity ((h k * conj (h k)) * (dft x k * conj (dft x k))); [ring|].
        rewrite Hh by assumption. ring. }
      transitivity (Ninv * (of_nat N * energy (fmul h x))).
      - transitivity ((Ninv * of_nat N) * energy (fmul h x)); [|ring]. rewrite (ro_inv Rok). ring.
      - rewrite E. transitivity ((Ninv * of_nat N) * energy x); [ring|]. rewrite (ro_inv Rok). ring.
    Qed.

    (* unit-modulus multiplier followed by its conjugate is the identity *)
    Theorem fmul_unit_inverse h x n : (n < N)%nat ->
      (forall k, (k < N)%nat -> h k * conj (h k) = 1) ->
      fmul (fun k => conj (h k)) (fmul h x) n = x n.
    Proof.
      intros Hn Hh. rewrite fmul_compose. rewrite <- (fmul_one x n Hn).
      unfold fmul. apply idft_ext. intros k Hk.
      replace (conj (h k) * h k) with (h k * conj (h k)) by ring. rewrite Hh by assumption. reflexivity.
    Qed.

    (* circular cross-correlation theorem *)
    Theorem xcorr_theorem x y j :
      idft (fun k => dft x k * conj (dft y k)) j
      = sumn N (fun n => x (zidx (Z.of_nat n + Z.of_nat j)) * conj (y n)).
    Proof.
      transitivity (sumn N (fun n => roll (- Z.of_nat j) x n * conj (y n))).
      2:{ apply (sumn_ext Rth). intros n _. unfold roll.
          replace (Z.of_nat n - - Z.of_nat j)%Z with (Z.of_nat n + Z.of_nat j)%Z by lia. reflexivity. }
      transitivity (Ninv * (of_nat N * sumn N (fun n => roll (- Z.of_nat j) x n * conj (y n)))).
      2:{ transitivity ((Ninv * of_nat N) * sumn N (fun n => roll (- Z.of_nat j) x n * conj (y n))); [ring|].
          rewrite (ro_inv Rok). ring. }
      rewrite <- parseval. unfold idft. f_equal.
      apply (sumn_ext Rth). intros k _. rewrite dft_roll.
      replace (Z.of_nat k * - Z.of_nat j)%Z with (- (Z.of_nat k * Z.of_nat j))%Z by lia. ring.
    Qed.

    (* correlation of x with a rolled copy of itself is the rolled autocorrelation *)
    Theorem xcorr_of_roll x s j :
      sumn N (fun n => x (zidx (Z.of_nat n + Z.of_nat j)) * conj (roll s x n))
      = sumn N (fun n => x (zidx (Z.of_nat n + (Z.of_nat j + s))) * conj (x n)).
    Proof.
      unfold roll.
      rewrite <- (sumn_zshift (fun n => x (zidx (Z.of_nat n + (Z.of_nat j + s))) * conj (x n)) s).
      apply (sumn_ext Rth). intros n _. f_equal. f_equal.
      unfold zidx. f_equal. rewrite Z2Nat.id by (apply Z.mod_pos_bound; lia).
      rewrite Zplus_mod_idemp_l. f_equal. lia.
    Qed.

    (* zeroing the DC bin subtracts the mean *)
    Theorem fmul_zero_dc x n : (n < N)%nat ->
      fmul (fun k => if Nat.eq_dec k 0 then 0 else 1) x n = x n - Ninv * sumn N x.
    Proof.
      intros Hn. unfold fmul.
      assert (H : idft (fun k => (if Nat.eq_dec k 0 then 1 else 0) * dft x k) n = Ninv * sumn N x).
      { unfold idft. f_equal. rewrite (sumn_single Rth N _ 0%nat Npos).
        - destruct (Nat.eq_dec 0 0); [|congruence]. rewrite dft_dc.
          replace (- (Z.of_nat 0 * Z.of_nat n))%Z with 0%Z by lia. rewrite (ro_0 Rok). ring.
        - intros i _ Hi. destruct (Nat.eq_dec i 0); [congruence | ring]. }
      transitivity (1 * idft (dft x) n + (- (1)) * idft (fun k => (if Nat.eq_dec k 0 then 1 else 0) * dft x k) n).
      - rewrite <- idft_linear. apply idft_ext. intros k _. destruct (Nat.eq_dec k 0); ring.
      - rewrite idft_dft by assumption. rewrite H. ring.
    Qed.

    (* the mean (DC bin) of a multiplier output *)
    Theorem fmul_dc h x : sumn N (fmul h x) = h 0%nat * sumn N x.
    Proof.
      rewrite <- (dft_dc (fmul h x)). unfold fmul. rewrite dft_idft by exact Npos.
      rewrite dft_dc. reflexivity.
    Qed.
  End OneD.
End DFT.

Arguments conj_0 {R rO rI radd rmul rsub ropp} Rth {conj} Cok.
Arguments conj_1 {R rO rI radd rmul rsub ropp} Rth {conj} Cok.
Arguments conj_opp {R rO rI radd rmul rsub ropp} Rth {conj} Cok.
Arguments conj_sub {R rO rI radd rmul rsub ropp} Rth {conj} Cok.
Arguments conj_sumn {R rO rI radd rmul rsub ropp} Rth {conj} Cok.
Arguments conj_of_nat {R rO rI radd rmul rsub ropp} Rth {conj} Cok.
Arguments w_opp {R rO rI radd rmul rsub ropp} Rth {conj} Cok {N w Ninv} Rok.
Arguments w_mulN_nat {R rO rI radd rmul rsub ropp} Rth {conj} Cok {N w Ninv} Rok.
Arguments w_mulN {R rO rI radd rmul rsub ropp} Rth {conj} Cok {N w Ninv} Rok.
Arguments w_periodic {R rO rI radd rmul rsub ropp} Rth {conj} Cok {N w Ninv} Rok.
Arguments w_mod {R rO rI radd rmul rsub ropp} Rth {conj} Cok {N w Ninv} Rok.
Arguments Ninv_r {R rO rI radd rmul rsub ropp} Rth {conj} Cok {N w Ninv} Rok.
Arguments zidx_lt {R rO rI radd rmul rsub ropp} Rth {conj} Cok {N w Ninv} Rok.
Arguments zidx_small {R rO rI radd rmul rsub ropp} Rth {conj} Cok {N w Ninv} Rok.
Arguments zidx_mod {R rO rI radd rmul rsub ropp} Rth {conj} Cok {N w Ninv} Rok.
Arguments orth_delta {R rO rI radd rmul rsub ropp} Rth {conj} Cok {N w Ninv} Rok.
Arguments idft_dft {R rO rI radd rmul rsub ropp} Rth {conj} Cok {N w Ninv} Rok.
Arguments orth_delta {R rO rI radd rmul rsub ropp} Rth {conj} Cok {N w Ninv} Rok.
Arguments dft_idft {R rO rI radd rmul rsub ropp} Rth {conj} Cok {N w Ninv} Rok.
Arguments dft_linear {R rO rI radd rmul rsub ropp} Rth {conj} Cok {N w Ninv} Rok.
Arguments idft_linear {R rO rI radd rmul rsub ropp} Rth {conj} Cok {N w Ninv} Rok.
Arguments dft_ext {R rO rI radd rmul rsub ropp} Rth {conj} Cok {N w Ninv} Rok.
Arguments idft_ext {R rO rI radd rmul rsub ropp} Rth {conj} Cok {N w Ninv} Rok.
Arguments dft_dc {R rO rI radd rmul rsub ropp} Rth {conj} Cok {N w Ninv} Rok.
Arguments sumn_zshift {R rO rI radd rmul rsub ropp} Rth {conj} Cok {N w Ninv} Rok.
Arguments dft_roll {R rO rI radd rmul rsub ropp} Rth {conj} Cok {N w Ninv} Rok.
Arguments fmul_compose {R rO rI radd rmul rsub ropp} Rth {conj} Cok {N w Ninv} Rok.
Arguments fmul_one {R rO rI radd rmul rsub ropp} Rth {conj} Cok {N w Ninv} Rok.
Arguments fmul_ramp_is_roll {R rO rI radd rmul rsub ropp} Rth {conj} Cok {N w Ninv} Rok.
Arguments roll_roll {R rO rI radd rmul rsub ropp} Rth {conj} Cok {N w Ninv} Rok.
Arguments parseval {R rO rI radd rmul rsub ropp} Rth {conj} Cok {N w Ninv} Rok.
Arguments parseval_energy {R rO rI radd rmul rsub ropp} Rth {conj} Cok {N w Ninv} Rok.
Arguments fmul_unit_energy {R rO rI radd rmul rsub ropp} Rth {conj} Cok {N w Ninv} Rok.
Arguments fmul_unit_inverse {R rO rI radd rmul rsub ropp} Rth {conj} Cok {N w Ninv} Rok.
Arguments xcorr_theorem {R rO rI radd rmul rsub ropp} Rth {conj} Cok {N w Ninv} Rok.
Arguments xcorr_of_roll {R rO rI radd rmul rsub ropp} Rth {conj} Cok {N w Ninv} Rok.
Arguments fmul_zero_dc {R rO rI radd rmul rsub ropp} Rth {conj} Cok {N w Ninv} Rok.
Arguments fmul_dc {R rO rI radd rmul rsub ropp} Rth {conj} Cok {N w Ninv} Rok.
Arguments orth_delta' {R rO rI radd rmul rsub ropp} Rth {conj} Cok {N w Ninv} Rok.
Arguments conj_ok {R} radd rmul conj.
Arguments root_ok {R} rO rI radd rmul conj N w Ninv.
Arguments dft {R} rO radd rmul N w x k.
Arguments idft {R} rO radd rmul N w Ninv X n.
Arguments fmul {R} rO radd rmul N w Ninv h x _.
Arguments roll {R} N s x n.
Arguments energy {R} rO radd rmul conj N x.
