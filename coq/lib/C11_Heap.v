(* C11 — small heap / nested-list library.
   * list-indexed heap: a cell id is its position in a `list C`; allocation appends, so every
     id handed out later is >= the current length (freshness is an arithmetic fact);
   * `tree`: the nested Python lists that hold a Vector's cells (one nesting level per fixed
     dimension), leaves are `option id` (None = unset cell);
   * addressing (tget/tset/take), row-major traversal (leaves), stateful leaf map (tmapfold).
   Stdlib only. *)
From QV.lib Require Import Prelude.
Set Implicit Arguments.

(* ------------------------------------------------------------------ list update *)
Section ListUtil.
  Variable A : Type.

  Fixpoint upd_nth (n : nat) (x : A) (l : list A) : list A :=
    match l, n with
    | [], _ => []
    | _ :: r, O => x :: r
    | y :: r, S n' => y :: upd_nth n' x r
    end.

  Lemma upd_nth_length n x l : length (upd_nth n x l) = length l.
  Proof. revert n. induction l as [|y l IH]; intros [|n]; simpl; auto. Qed.

  Lemma nth_error_upd_eq n x l : n < length l -> nth_error (upd_nth n x l) n = Some x.
  Proof.
    revert n. induction l as [|y l IH]; intros [|n] H; simpl in *; try lia; auto.
    apply IH. lia.
  Qed.

  Lemma nth_error_upd_neq n m x l : n <> m -> nth_error (upd_nth n x l) m = nth_error l m.
  Proof.
    revert n m. induction l as [|y l IH]; intros [|n] [|m] H; simpl; auto; try congruence.
  Qed.

  Lemma upd_nth_same n x l : nth_error l n = Some x -> upd_nth n x l = l.
  Proof.
    revert n. induction l as [|y l IH]; intros [|n] H; simpl in *; try congruence.
    f_equal. apply IH. exact H.
  Qed.

  Lemma upd_nth_oob n x l : length l <= n -> upd_nth n x l = l.
  Proof.
    revert n. induction l as [|y l IH]; intros [|n] H; simpl in *; auto; try lia.
    f_equal. apply IH. lia.
  Qed.

  Lemma Forall_upd_nth (P : A -> Prop) n x l : Forall P l -> P x -> Forall P (upd_nth n x l).
  Proof.
    intros Hl Hx. revert n. induction Hl as [|y l Hy Hl IH]; intros [|n]; simpl; constructor; auto.
  Qed.

  Lemma In_upd_nth y n x l : In y (upd_nth n x l) -> y = x \/ In y l.
  Proof.
    revert n. induction l as [|z l IH]; intros [|n] H; simpl in *; try tauto.
    - destruct H as [H|H]; auto.
    - destruct H as [H|H]; auto. destruct (IH _ H); auto.
  Qed.

  Lemma nth_error_upd n m x l :
    nth_error (upd_nth n x l) m = if Nat.eqb n m then (if m <? length l then Some x else None) else nth_error l m.
  Proof.
    destruct (Nat.eqb_spec n m) as [->|Hne].
    - destruct (Nat.ltb_spec m (length l)) as [Hlt|Hge].
      + apply nth_error_upd_eq. exact Hlt.
      + rewrite upd_nth_oob by exact Hge. apply nth_error_None. exact Hge.
    - apply nth_error_upd_neq. exact Hne.
  Qed.

  Lemma flat_map_nth_seq (B : Type) (g : A -> list B) (l : list A) (d : A) :
    flat_map (fun i => g (nth i l d)) (seq 0 (length l)) = flat_map g l.
  Proof.
    induction l as [|x l IH]; simpl; auto.
    f_equal. rewrite <- seq_shift, flat_map_concat_map, map_map, <- flat_map_concat_map. exact IH.
  Qed.
End ListUtil.

(* ------------------------------------------------------------------ heap *)
Section Heap.
  Variable C : Type.
  Definition halloc (h : list C) (c : C) : list C * nat := (h ++ [c], length h).

  Lemma nth_error_alloc_old (h : list C) c i : i < length h -> nth_error (h ++ [c]) i = nth_error h i.
  Proof. intros H. apply nth_error_app1. exact H. Qed.

  Lemma nth_error_alloc_new (h : list C) c : nth_error (h ++ [c]) (length h) = Some c.
  Proof. rewrite nth_error_app2 by lia. rewrite Nat.sub_diag. reflexivity. Qed.

  Lemma nth_error_alloc_some (h : list C) c i x : nth_error h i = Some x -> nth_error (h ++ [c]) i = Some x.
  Proof.
    intros H. rewrite nth_error_app1; [exact H|]. apply nth_error_Some. congruence.
  Qed.
End Heap.

(* ------------------------------------------------------------------ nested lists of cells *)
Definition leaf := option nat.
Inductive tree := Leaf (c : leaf) | Node (l : list tree).

Section TreeInd.
  Variable P : tree -> Prop.
  Hypothesis HL : forall c, P (Leaf c).
  Hypothesis HN : forall l, Forall P l -> P (Node l).
  Fixpoint tree_ind' (t : tree) : P t :=
    match t with
    | Leaf c => HL c
    | Node l => HN ((fix go (l : list tree) : Forall P l :=
                       match l with
                       | [] => Forall_nil P
                       | x :: r => Forall_cons x (tree_ind' x) (go r)
                       end) l)
    end.
End TreeInd.

(* row-major traversal: the order in which every recursive helper of vector.py
   (`for sub in arr: ...`) visits the cells *)
Fixpoint leaves (t : tree) : list leaf :=
  match t with Leaf c => [c] | Node l => flat_map leaves l end.

(* nested_list(shape, fill) *)
Fixpoint tfill (sh : list nat) (x : leaf) : tree :=
  match sh with [] => Leaf x | n :: r => Node (repeat (tfill r x) n) end.

(* the tree has exactly the nesting given by the shape *)
Fixpoint shaped (sh : list nat) (t : tree) : Prop :=
  match sh, t with
  | [], Leaf _ => True
  | n :: r, Node l => length l = n /\ Forall (shaped r) l
  | _, _ => False
  end.

Fixpoint shapedb (sh : list nat) (t : tree) : bool :=
  match sh, t with
  | [], Leaf _ => true
  | n :: r, Node l => (length l =? n) && forallb (shapedb r) l
  | _, _ => false
  end.

(* ref = data; for i in path: ref = ref[i] *)
Fixpoint tget (t : tree) (p : list nat) : option leaf :=
  match p, t with
  | [], Leaf c => Some c
  | i :: r, Node l => match nth_error l i with Some c => tget c r | None => None end
  | _, _ => None
  end.

(* ref = data; for i in path[:-1]: ref = ref[i]; ref[path[-1]] = x *)
Fixpoint tset (p : list nat) (x : leaf) (t : tree) : option tree :=
  match p, t with
  | [], Leaf _ => Some (Leaf x)
  | i :: r, Node l =>
      match nth_error l i with
      | Some c => match tset r x c with Some c' => Some (Node (upd_nth i c' l)) | None => None end
      | None => None
      end
  | _, _ => None
  end.

Definition child (t : tree) (i : nat) : tree :=
  match t with Node l => nth i l (Leaf None) | Leaf _ => Leaf None end.

(* def take(data, dims): return data if not dims else [take(data[i], dims[1:]) for i in dims[0]] *)
Fixpoint take (idxs : list (list nat)) (t : tree) : tree :=
  match idxs with
  | [] => t
  | is :: rest => Node (map (fun i => take rest (child t i)) is)
  end.

(* np.ndindex-order product of per-axis index lists *)
Fixpoint cart (idxs : list (list nat)) : list (list nat) :=
  match idxs with
  | [] => [[]]
  | is :: rest => flat_map (fun i => map (cons i) (cart rest)) is
  end.

Definition ndindex (sh : list nat) : list (list nat) := cart (map (seq 0) sh).

(* stateful map over the leaves in traversal order, rebuilding the nesting *)
Section MapFold.
  Variable S : Type.
  Variable f : S -> leaf -> S * leaf.

  Fixpoint lmapfold (s : S) (l : list leaf) : S * list leaf :=
    match l with
    | [] => (s, [])
    | x :: r => let '(s1, x') := f s x in let '(s2, r') := lmapfold s1 r in (s2, x' :: r')
    end.

  Fixpoint tmapfold (s : S) (t : tree) {struct t} : S * tree :=
    match t with
    | Leaf c => let '(s', c') := f s c in (s', Leaf c')
    | Node l =>
        let '(s', l') :=
          (fix go (s : S) (l : list tree) {struct l} : S * list tree :=
             match l with
             | [] => (s, [])
             | x :: r => let '(s1, x') := tmapfold s x in let '(s2, r') := go s1 r in (s2, x' :: r')
             end) s l in
        (s', Node l')
    end.

  Fixpoint tmapfold_list (s : S) (l : list tree) : S * list tree :=
    match l with
    | [] => (s, [])
    | x :: r => let '(s1, x') := tmapfold s x in let '(s2, r') := tmapfold_list s1 r in (s2, x' :: r')
    end.

  Lemma tmapfold_Node s l :
    tmapfold s (Node l) = let '(s', l') := tmapfold_list s l in (s', Node l').
  Proof.
    cbn [tmapfold].
    assert (E : forall s l,
      (fix go (s : S) (l : list tree) {struct l} : S * list tree :=
         match l with
         | [] => (s, [])
         | x :: r => let '(s1, x') := tmapfold s x in let '(s2, r') := go s1 r in (s2, x' :: r')
         end) s l = tmapfold_list s l).
    { clear. intros s l. revert s. induction l as [|x r IH]; intros s; simpl; auto;
        destruct (tmapfold s x) as [s1 x']; rewrite IH; reflexivity. }
    rewrite E. reflexivity.
  Qed.

  Lemma lmapfold_app s l1 l2 :
    lmapfold s (l1 ++ l2) =
    let '(s1, r1) := lmapfold s l1 in let '(s2, r2) := lmapfold s1 l2 in (s2, r1 ++ r2).
  Proof.
    revert s. induction l1 as [|x l1 IH]; intros s; simpl.
    - destruct (lmapfold s l2). reflexivity.
    - destruct (f s x) as [s1 x']. rewrite IH. destruct (lmapfold s1 l1) as [s2 r1].
      destruct (lmapfold s2 l2). reflexivity.
  Qed.

  (* the rebuilt tree has the leaves the list-level map produces, and the same final state *)
  Lemma tmapfold_spec t : forall s,
    fst (tmapfold s t) = fst (lmapfold s (leaves t)) /\
    leaves (snd (tmapfold s t)) = snd (lmapfold s (leaves t)).
  Proof.
    induction t as [c | l IH] using tree_ind'; intros s.
    - simpl. destruct (f s c) as [s' c']. simpl. auto.
    - rewrite tmapfold_Node.
      assert (H : fst (tmapfold_list s l) = fst (lmapfold s (flat_map leaves l)) /\
                  flat_map leaves (snd (tmapfold_list s l)) = snd (lmapfold s (flat_map leaves l))).
      { revert s. induction IH as [|x r Hx Hr IHr]; intros s; simpl; auto.
        destruct (Hx s) as [H1 H2]. destruct (tmapfold s x) as [s1 x'] eqn:E1. simpl in H1, H2.
        destruct (IHr s1) as [H3 H4]. destruct (tmapfold_list s1 r) as [s2 r'] eqn:E2. simpl in H3, H4.
        rewrite lmapfold_app.
        destruct (lmapfold s (leaves x)) as [sa ra] eqn:Ea. simpl in H1, H2. subst sa ra.
        destruct (lmapfold s1 (flat_map leaves r)) as [sb rb] eqn:Eb. simpl in H3, H4. subst sb rb.
        simpl. auto. }
      destruct (tmapfold_list s l) as [s' l'] eqn:E. simpl in *. exact H.
  Qed.

  Lemma tmapfold_shaped sh : forall t s, shaped sh t -> shaped sh (snd (tmapfold s t)).
  Proof.
    induction sh as [|n sh IH]; intros t s H.
    - destruct t as [c|l]; simpl in *; [|contradiction]. destruct (f s c). simpl. exact I.
    - destruct t as [c|l]; simpl in H; [contradiction|]. destruct H as [Hlen Hall].
      rewrite tmapfold_Node.
      assert (G : length (snd (tmapfold_list s l)) = length l /\ Forall (shaped sh) (snd (tmapfold_list s l))).
      { clear Hlen. revert s. induction Hall as [|x r Hx Hr IHr]; intros s; simpl; auto.
        pose proof (IH x s Hx) as Hx'. destruct (tmapfold s x) as [s1 x']. simpl in Hx'.
        destruct (IHr s1) as [G1 G2]. destruct (tmapfold_list s1 r) as [s2 r']. simpl in *.
        split; [lia|]. constructor; auto. }
      destruct (tmapfold_list s l) as [s' l']. simpl in *. destruct G as [G1 G2]. split; [lia|exact G2].
  Qed.
End MapFold.

(* ------------------------------------------------------------------ lemmas: shape *)
Lemma shapedb_spec sh : forall t, shapedb sh t = true <-> shaped sh t.
Proof.
  induction sh as [|n sh IH]; intros [c|l]; simpl; try tauto; try (split; [discriminate|tauto]).
  rewrite andb_true_iff, Nat.eqb_eq, forallb_forall, Forall_forall.
  split; intros [H1 H2]; split; auto; intros x Hx; apply IH; auto.
Qed.

Lemma shaped_tfill sh x : shaped sh (tfill sh x).
Proof.
  induction sh as [|n sh IH]; simpl; auto. split; [apply repeat_length|].
  apply Forall_forall. intros y Hy. apply repeat_spec in Hy. subst. exact IH.
Qed.

Lemma leaves_tfill_Forall (P : leaf -> Prop) sh x : P x -> Forall P (leaves (tfill sh x)).
Proof.
  intros Hx. induction sh as [|n sh IH]; simpl; [constructor; auto|].
  apply Forall_flat_map. apply Forall_forall. intros y Hy. apply repeat_spec in Hy. subst. exact IH.
Qed.

(* ------------------------------------------------------------------ lemmas: tset / tget *)
Lemma tset_shaped sh : forall p x t t', shaped sh t -> tset p x t = Some t' -> shaped sh t'.
Proof.
  induction sh as [|n sh IH]; intros p x t t' Hs Ht.
  - destruct t as [c|l]; simpl in Hs; [|contradiction]. destruct p; simpl in Ht; [|discriminate].
    inversion Ht. simpl. exact I.
  - destruct t as [c|l]; simpl in Hs; [contradiction|]. destruct Hs as [Hlen Hall].
    destruct p as [|i p]; simpl in Ht; [discriminate|].
    destruct (nth_error l i) as [c|] eqn:Ec; [|discriminate].
    destruct (tset p x c) as [c'|] eqn:Es; [|discriminate]. inversion Ht; subst t'. simpl.
    split; [rewrite upd_nth_length; exact Hlen|].
    apply Forall_upd_nth; [exact Hall|]. eapply IH; [|exact Es].
    rewrite Forall_forall in Hall. apply Hall. eapply nth_error_In. exact Ec.
Qed.

Lemma flat_map_upd_nth_Forall (P : leaf -> Prop) (l : list tree) i c' :
  Forall P (flat_map leaves l) -> Forall P (leaves c') -> Forall P (flat_map leaves (upd_nth i c' l)).
Proof.
  intros Hl Hc. rewrite Forall_flat_map in *. apply Forall_upd_nth; auto.
Qed.

Lemma tset_leaves_Forall (P : leaf -> Prop) : forall p x t t',
  Forall P (leaves t) -> P x -> tset p x t = Some t' -> Forall P (leaves t').
Proof.
  induction p as [|i p IH]; intros x t t' Hl Hx Ht; destruct t as [c|l]; simpl in Ht; try discriminate.
  - inversion Ht. simpl. constructor; auto.
  - destruct (nth_error l i) as [c|] eqn:Ec; [|discriminate].
    destruct (tset p x c) as [c'|] eqn:Es; [|discriminate]. inversion Ht; subst t'. simpl in *.
    apply flat_map_upd_nth_Forall; [exact Hl|]. eapply IH; [|exact Hx|exact Es].
    rewrite Forall_flat_map, Forall_forall in Hl. apply Hl. eapply nth_error_In. exact Ec.
Qed.

(* the written cell is read back *)
Lemma tget_tset_same : forall p x t t', tset p x t = Some t' -> tget t' p = Some x.
Proof.
  induction p as [|i p IH]; intros x t t' Ht; destruct t as [c|l]; simpl in Ht; try discriminate.
  - inversion Ht. reflexivity.
  - destruct (nth_error l i) as [c|] eqn:Ec; [|discriminate].
    destruct (tset p x c) as [c'|] eqn:Es; [|discriminate]. inversion Ht; subst t'. simpl.
    rewrite nth_error_upd_eq; [eapply IH; exact Es|]. apply nth_error_Some. congruence.
Qed.

(* every other address keeps its cell *)
Lemma tget_tset_other : forall p q x t t',
  tset p x t = Some t' -> p <> q -> length p = length q -> tget t' q = tget t q.
Proof.
  induction p as [|i p IH]; intros q x t t' Ht Hne Hlen; destruct t as [c|l]; simpl in Ht; try discriminate.
  - destruct q; simpl in Hlen; [congruence|discriminate].
  - destruct (nth_error l i) as [c|] eqn:Ec; [|discriminate].
    destruct (tset p x c) as [c'|] eqn:Es; [|discriminate]. inversion Ht; subst t'.
    destruct q as [|j q]; simpl in Hlen; [discriminate|]. simpl.
    destruct (Nat.eq_dec i j) as [->|Hij].
    + rewrite nth_error_upd_eq by (apply nth_error_Some; congruence). rewrite Ec.
      eapply IH; [exact Es| congruence | lia].
    + rewrite nth_error_upd_neq by exact Hij. reflexivity.
Qed.

(* a write succeeds exactly on in-range paths of full depth *)
Lemma tset_total : forall p sh x t,
  shaped sh t -> Forall2 (fun i n => i < n) p sh -> exists t', tset p x t = Some t'.
Proof.
  intros p sh x t Hs Hp. revert t Hs.
  induction Hp as [|i n p sh Hi Hp IH]; intros t Hs; destruct t as [c|ch]; simpl in Hs; try contradiction.
  - eexists. reflexivity.
  - destruct Hs as [Hlen Hall]. simpl.
    destruct (nth_error ch i) as [c|] eqn:Ec; [|apply nth_error_None in Ec; lia].
    destruct (IH c) as [c' Hc'].
    { rewrite Forall_forall in Hall. apply Hall. eapply nth_error_In. exact Ec. }
    rewrite Hc'. eexists. reflexivity.
Qed.

(* ------------------------------------------------------------------ lemmas: traversal = row-major addressing *)
Lemma leaves_rowmajor sh : forall t, shaped sh t -> map (tget t) (ndindex sh) = map Some (leaves t).
Proof.
  unfold ndindex. induction sh as [|n sh IH]; intros [c|l] Hs; simpl in Hs; try contradiction.
  - reflexivity.
  - destruct Hs as [Hlen Hall]. cbn [map cart leaves].
    rewrite flat_map_concat_map, concat_map, map_map.
    rewrite (flat_map_concat_map leaves l), concat_map, map_map.
    f_equal. subst n.
    transitivity (map (fun i => map Some (leaves (nth i l (Leaf None)))) (seq 0 (length l))).
    + apply map_ext_in. intros i Hi. apply in_seq in Hi. rewrite map_map. cbn [tget].
      rewrite (nth_error_nth' l (Leaf None)) by lia.
      apply IH. rewrite Forall_forall in Hall. apply Hall. apply nth_In. lia.
    + clear. induction l as [|x l IHl]; simpl; auto. f_equal.
      rewrite <- seq_shift, map_map. exact IHl.
Qed.

(* ------------------------------------------------------------------ lemmas: take *)
Definition in_range (idxs : list (list nat)) (sh : list nat) : Prop :=
  Forall2 (fun is n => Forall (fun i => i < n) is) idxs sh.

Lemma take_shaped : forall idxs sh t,
  shaped sh t -> in_range idxs sh -> shaped (map (@length nat) idxs) (take idxs t).
Proof.
  intros idxs sh t Hs Hr. revert t Hs.
  induction Hr as [|js n rest sh Hjs Hr IH]; intros t Hs.
  - destruct t; simpl in *; tauto.
  - destruct t as [c|ch]; simpl in Hs; [contradiction|]. destruct Hs as [Hlen Hall]. simpl.
    split; [apply map_length|]. apply Forall_forall. intros w Hw. apply in_map_iff in Hw.
    destruct Hw as [i [<- Hi]]. apply IH.
    rewrite Forall_forall in Hall. apply Hall. apply nth_In.
    rewrite Forall_forall in Hjs. specialize (Hjs _ Hi). lia.
Qed.

Lemma take_leaves_incl : forall idxs sh t,
  shaped sh t -> in_range idxs sh -> incl (leaves (take idxs t)) (leaves t).
Proof.
  intros idxs sh t Hs Hr. revert t Hs.
  induction Hr as [|js n rest sh Hjs Hr IH]; intros t Hs.
  - apply incl_refl.
  - destruct t as [c|ch]; simpl in Hs; [contradiction|]. destruct Hs as [Hlen Hall].
    intros x Hx. simpl in Hx. apply in_flat_map in Hx. destruct Hx as [w [Hw Hx]].
    apply in_map_iff in Hw. destruct Hw as [i [<- Hi]].
    rewrite Forall_forall in Hjs. specialize (Hjs _ Hi).
    simpl. apply in_flat_map. exists (nth i ch (Leaf None)). split; [apply nth_In; lia|].
    eapply IH; [| exact Hx].
    rewrite Forall_forall in Hall. apply Hall. apply nth_In. lia.
Qed.

(* source address of output address o *)
Fixpoint src_of (idxs : list (list nat)) (o : list nat) : list nat :=
  match idxs, o with
  | js :: rest, k :: o' => nth k js 0 :: src_of rest o'
  | _, _ => []
  end.

(* slicing holds exactly the addressed cells: cell o of the result is cell
   (idxs[0][o0], idxs[1][o1], ...) of the source *)
Lemma tget_take : forall idxs sh t o,
  shaped sh t -> in_range idxs sh -> Forall2 (fun k js => k < length js) o idxs ->
  tget (take idxs t) o = tget t (src_of idxs o).
Proof.
  intros idxs sh t o Hs Hr. revert t o Hs.
  induction Hr as [|js n rest sh Hjs Hr IH]; intros t o Hs Ho.
  - inversion Ho; subst. destruct t; reflexivity.
  - destruct o as [|k o']; [inversion Ho|].
    assert (Hk : k < length js) by (inversion Ho; subst; assumption).
    assert (Ho' : Forall2 (fun k js => k < length js) o' rest) by (inversion Ho; subst; assumption).
    destruct t as [c|ch]; simpl in Hs; [contradiction|]. destruct Hs as [Hlen Hall].
    cbn [take src_of tget].
    rewrite nth_error_map.
    rewrite (nth_error_nth' js 0 Hk). cbn [option_map child].
    rewrite Forall_forall in Hjs. pose proof (Hjs _ (nth_In js 0 Hk)) as Hi.
    rewrite (nth_error_nth' ch (Leaf None)) by lia.
    apply IH; [| exact Ho'].
    rewrite Forall_forall in Hall. apply Hall. apply nth_In. lia.
Qed.

(* get_data (loop over ndindex) returns the leaves of the slice, in order *)
Lemma leaves_take_cart : forall idxs sh t,
  shaped sh t -> in_range idxs sh -> map Some (leaves (take idxs t)) = map (tget t) (cart idxs).
Proof.
  intros idxs sh t Hs Hr. revert t Hs.
  induction Hr as [|js n rest sh Hjs Hr IH]; intros t Hs.
  - destruct t as [c|ch]; simpl in Hs; [|contradiction]. reflexivity.
  - destruct t as [c|ch]; simpl in Hs; [contradiction|]. destruct Hs as [Hlen Hall].
    cbn [take leaves cart].
    rewrite !flat_map_concat_map, !concat_map, !map_map. f_equal.
    apply map_ext_in. intros i Hi.
    rewrite Forall_forall in Hjs. specialize (Hjs _ Hi).
    rewrite map_map. cbn [tget child]. rewrite (nth_error_nth' ch (Leaf None)) by lia.
    apply IH.
    rewrite Forall_forall in Hall. apply Hall. apply nth_In. lia.
Qed.
