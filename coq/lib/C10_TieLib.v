(* C10 — the FIXED meanings the translator harness/translate_C10.py gives to the torch calls of
     diffractive_imaging/object_models.py  ObjectConstraints.apply_hard_constraints
     tomography/object_models.py           ObjectConstraints.apply_hard_constraints
     diffractive_imaging/probe_models.py   ProbeConstraints._probe_orthogonalization_constraint
     diffractive_imaging/probe_models.py   ProbePixelated._apply_weights
   Definitions only (trusted: this is what "torch.clamp", "x * mask", "obj[background].mean()",
   "torch.sqrt(...).clamp_min(c)", "probe / norm" ... are taken to mean); the lemmas about them are in
   coq/proof/C10_Proofs_TieLib.v, the generated definitions in build/C10/Gen_C10Tie.v and the fixed
   proof script in coq/gen_proofs/C10_GenProofs.v.

   Part A (objects, over Q).  A tensor expression is a POINTWISE function together with its broadcast
   kind: a 0-d scalar, a function of the raw pixel (object-shaped), a function of the FOV-mask value
   (mask-shaped: one slice) or of both (the mask broadcast over the slice axis).  Elementwise torch
   operations are pointwise operations; `realize` lays a tensor expression out over the object (list of
   slices, each the flattened list of pixels; the mask is zipped against every slice as in the model's
   map_mask).  Reductions (.mean() .min() .max() .any(), boolean-mask selection) are the model's
   qmean / list_min / list_max / existsb / filter over the laid-out values.

   Part B (probes, over Qc and Q(i)).  Every real number the two probe functions compute is the square
   root of a non-negative rational, and every vector a Q(i)-vector scaled by such a root: a root
   scalar sqrt(q) is stored as q, a scaled vector sqrt(s) * v as (s, v) — the model's `mode`. *)
From QV.lib Require Import Prelude C10_Cplx.
From QV.model Require Import C10_Model.
From Coq Require Import QArith Qcanon.
Local Close Scope Q_scope.

(* ================================================================ Part A *)
Local Open Scope Q_scope.

Inductive tens (A B : Type) : Type :=
| TS (s : B)                  (* Python number / 0-d tensor *)
| TO (e : A -> B)             (* object-shaped: function of the raw pixel *)
| TM (e : Q -> B)             (* mask-shaped: function of the FOV-mask value *)
| TT (e : Q -> A -> B).       (* mask broadcast against the object *)
Arguments TS {A B} s.
Arguments TO {A B} e.
Arguments TM {A B} e.
Arguments TT {A B} e.

(* elementwise binary operation with broadcasting *)
Definition t_bin {A B C D : Type} (f : B -> C -> D) (x : tens A B) (y : tens A C) : tens A D :=
  match x, y with
  | TS a, TS b => TS (f a b)
  | TS a, TO e => TO (fun p => f a (e p))
  | TS a, TM e => TM (fun m => f a (e m))
  | TS a, TT e => TT (fun m p => f a (e m p))
  | TO e, TS b => TO (fun p => f (e p) b)
  | TO e, TO g => TO (fun p => f (e p) (g p))
  | TO e, TM g => TT (fun m p => f (e p) (g m))
  | TO e, TT g => TT (fun m p => f (e p) (g m p))
  | TM e, TS b => TM (fun m => f (e m) b)
  | TM e, TO g => TT (fun m p => f (e m) (g p))
  | TM e, TM g => TM (fun m => f (e m) (g m))
  | TM e, TT g => TT (fun m p => f (e m) (g m p))
  | TT e, TS b => TT (fun m p => f (e m p) b)
  | TT e, TO g => TT (fun m p => f (e m p) (g p))
  | TT e, TM g => TT (fun m p => f (e m p) (g m))
  | TT e, TT g => TT (fun m p => f (e m p) (g m p))
  end.

(* elementwise unary operation *)
Definition t_map {A B C : Type} (f : B -> C) (x : tens A B) : tens A C :=
  match x with
  | TS a => TS (f a)
  | TO e => TO (fun p => f (e p))
  | TM e => TM (fun m => f (e m))
  | TT e => TT (fun m p => f (e m p))
  end.

(* lay a tensor expression out over the object (mask zipped against every slice) *)
Definition realize {A B : Type} (mask : option (list Q)) (obj : list (list A)) (x : tens A B) : list (list B) :=
  match x with
  | TS s => map (map (fun _ => s)) obj
  | TO e => map (map e) obj
  | TM e => match mask with
            | Some ms => map (fun sl => map (fun mx => e (fst mx)) (combine ms sl)) obj
            | None => []
            end
  | TT e => match mask with
            | Some ms => map (fun sl => map (fun mx => e (fst mx) (snd mx)) (combine ms sl)) obj
            | None => []
            end
  end.

(* x.mean() / x.min() of an object-shaped tensor: over all its entries *)
Definition red_obj {A : Type} (r : list Q -> Q) (obj : list (list A)) (x : tens A Q) : Q :=
  match x with
  | TS s => s
  | TO e => r (concat (map (map e) obj))
  | _ => 0
  end.
(* x.max() of a mask-shaped tensor *)
Definition red_mask {A : Type} (r : list Q -> Q) (mask : option (list Q)) (x : tens A Q) : Q :=
  match x, mask with
  | TS s, _ => s
  | TM e, Some ms => r (map e ms)
  | _, _ => 0
  end.
(* b.any() of a mask-shaped boolean tensor *)
Definition t_any {A : Type} (mask : option (list Q)) (b : tens A bool) : bool :=
  match b, mask with
  | TS s, _ => s
  | TM e, Some ms => existsb e ms
  | _, _ => false
  end.
(* x[b]: the entries of an object-shaped tensor where the mask-shaped boolean tensor (broadcast over
   slices) is true *)
Definition t_select {A : Type} (mask : option (list Q)) (obj : list (list A)) (x : tens A Q) (b : tens A bool) : list Q :=
  match x, b, mask with
  | TO e, TM sel, Some ms =>
    concat (map (fun sl => map (fun mx => e (snd mx)) (filter (fun mx => sel (fst mx)) (combine ms sl))) obj)
  | _, _, _ => []
  end.

(* configuration / dispatch vocabulary *)
Definition ty_eqb (a b : obj_type) : bool :=
  match a, b with
  | Complex, Complex | PurePhase, PurePhase | Potential, Potential => true
  | _, _ => false
  end.
Definition ty_in (a : obj_type) (l : list obj_type) : bool := existsb (ty_eqb a) l.
Definition is_some {T : Type} (o : option T) : bool := match o with Some _ => true | None => false end.
(* a dictionary entry that is a number or falsy (False / None / 0): truthiness and value *)
Definition opt_val (o : option Q) : Q := match o with Some v => v | None => 0 end.

(* the FOV mask has the shape of one slice *)
Definition mask_fits {A : Type} (mask : option (list Q)) (obj : list (list A)) : Prop :=
  match mask with None => True | Some ms => Forall (fun sl => length sl = length ms) obj end.

(* entrywise equality of laid-out tensors in the equality of Q *)
Definition teq (a b : list (list Q)) : Prop := Forall2 (Forall2 Qeq) a b.
Definition peq (p q : polar) : Prop := fst p == fst q /\ snd p == snd q.
Definition weq (a b : list (list polar)) : Prop := Forall2 (Forall2 peq) a b.

Local Close Scope Q_scope.

(* ================================================================ Part B *)
Local Open Scope Qc_scope.

Notation sv := (Qc * list C)%type (only parsing).

(* torch.sqrt(q) as a root scalar; r.clamp_min(c) = max(sqrt q, c) = sqrt(max(q, c^2)) for c >= 0 *)
Definition rs_sqrt (q : Qc) : Qc := q.
Definition rs_clamp_min (r c : Qc) : Qc := qcmax r (c * c).
(* a plain vector as a scaled vector; division / multiplication by a root scalar *)
Definition sv_of (v : vec) : sv := (1, v).
Definition sv_div (x : sv) (r : Qc) : sv := (fst x / r, snd x).
Definition sv_mul (x : sv) (r : Qc) : sv := (fst x * r, snd x).
(* torch.sum(torch.abs(x).square()) of one mode *)
Definition sv_int (x : sv) : Qc := fst x * norm2 (snd x).
(* torch.sum(e.conj() * r) * e  for e = sqrt(s) u and a plain r:  s <u, r> u *)
Definition sv_proj (e : sv) (r : vec) : vec := vscale (cscale (fst e) (dot (snd e) r)) (snd e).
(* a linear map applied to the direction (torch.fft.fft2(norm="ortho") is one: U) *)
Definition sv_map (U : vec -> vec) (x : sv) : sv := (fst x, U (snd x)).
Definition map2 {X Y Z : Type} (f : X -> Y -> Z) (a : list X) (b : list Y) : list Z :=
  map (fun xy => f (fst xy) (snd xy)) (combine a b).

(* torch.argsort(keys, descending=True): indices of a stable insertion sort (ties: the model's order;
   C10_gs_any_tiebreak_same_intensities covers every other tie-break) *)
Fixpoint insert_key (x : Qc * nat) (l : list (Qc * nat)) : list (Qc * nat) :=
  match l with
  | [] => [x]
  | y :: l' => if qc_leb (fst y) (fst x) then x :: l else y :: insert_key x l'
  end.
Definition argsort_desc (keys : list Qc) : list nat :=
  map snd (fold_right insert_key [] (combine keys (seq 0 (length keys)))).
(* x[order] along the mode axis *)
Definition idx {X : Type} (d : X) (l : list X) (order : list nat) : list X := map (fun i => nth i l d) order.
(* .real / .imag of a stack of scaled vectors, torch.complex(re, im) *)
Definition sv_re (x : sv) : Qc * list Qc := (fst x, map fst (snd x)).
Definition sv_im (x : sv) : Qc * list Qc := (fst x, map snd (snd x)).
Definition sv_complex (re im : Qc * list Qc) : sv :=
  if Qc_eq_bool (fst re) (fst im) then (fst re, combine (snd re) (snd im)) else (0, []).
Definition sv0 : sv := (0, []).

(* the decimal 1e-12 of the source *)
Definition eps_code : Qc := Q2Qc (1 # 1000000000000).
