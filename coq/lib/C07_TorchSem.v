(* C07 — FIXED MEANINGS given to the torch library calls that harness/translate_C07_full.py meets in radon.py and that
   the model (model/C07_Model.v) does not already name.  This file is the trusted dictionary of the translator: the
   generated definitions (build/C07/C07_GenFull.v) mention these functions and the model's torch_arange, fftfreq,
   fftshift_src, unnormalize_ac, clampZ; everything else in them is arithmetic read from the source. *)
From QV.lib Require Import Prelude.
From QV.model Require Import C07_Model.
From Coq Require Import QArith Qround.
Local Open Scope Q_scope.

(* torch.linspace(lo, hi, steps)[j] = lo + j * (hi - lo) / (steps - 1) *)
Definition t_linspace (lo hi : Q) (steps j : Z) : Q := lo + iz j * ((hi - lo) / iz (steps - 1)).

(* torch.hamming_window(M, periodic)[j] = 0.54 - 0.46 cos(2 pi j / (M - 1)), periodic: denominator M
   torch.hann_window(M, periodic)[j]    = 0.5  - 0.5  cos(2 pi j / (M - 1)); cospi a stands for cos(pi a) *)
Definition t_window_arg (M : Z) (periodic : bool) (j : Z) : Q := iz (2 * j) / iz (if periodic then M else M - 1)%Z.
Definition t_hamming (cospi : Q -> Q) (M : Z) (periodic : bool) (j : Z) : Q :=
  (27 # 50) - (23 # 50) * cospi (t_window_arg M periodic j).
Definition t_hann (cospi : Q -> Q) (M : Z) (periodic : bool) (j : Z) : Q :=
  (1 # 2) - (1 # 2) * cospi (t_window_arg M periodic j).

(* entries a + b / pi^2 of the spatial kernel, compared componentwise *)
Definition pair_eq (p q : Q * Q) : Prop := fst p == fst q /\ snd p == snd q.

(* 2 Re fft (rampF) depends on the kernel entries only up to == *)
Definition rampF_proper (rampF : list (Q * Q) -> Z -> Q) : Prop :=
  forall l l' k, Forall2 pair_eq l l' -> rampF l k == rampF l' k.

Lemma t_linspace_unit steps j : t_linspace 0 1 steps j == linspace_coef steps true j.
Proof. unfold t_linspace, linspace_coef, Qdiv. ring. Qed.

Lemma t_window_arg_sym M j : t_window_arg M false j = torch_window_arg M j.
Proof. reflexivity. Qed.

Lemma Forall2_map_zrange (f g : Z -> Q * Q) n :
  (forall k, (0 <= k < n)%Z -> pair_eq (f k) (g k)) -> Forall2 pair_eq (map f (zrange n)) (map g (zrange n)).
Proof.
  intros H. unfold zrange.
  assert (G : forall l, (forall i, In i l -> (0 <= Z.of_nat i < n)%Z) ->
              Forall2 pair_eq (map f (map Z.of_nat l)) (map g (map Z.of_nat l))).
  { induction l as [|x l IH]; intros Hl; cbn [map]; constructor.
    - apply H, Hl. left. reflexivity.
    - apply IH. intros i Hi. apply Hl. right. exact Hi. }
  apply G. intros i Hi. apply in_seq in Hi. lia.
Qed.
