(* C02 — vocabulary of the source translator harness/c02_tie.py: the FIXED meanings given to the Python /
   torch constructs that occur in the integer / index arithmetic of the ptychography forward pipeline, and the
   generic lemmas about them.  Definitions are executable (the translator's cross-test runs them by vm_compute
   against the real functions on every run).

     tabZ len f                      the tensor axis [f 0; ..; f (len-1)]            (broadcast result, tabulated)
     py_range start stop step        list(range(start, stop, step)), step > 0
     py_cat chunks                   torch.cat(chunks, dim=0)
     py_slice_len L lo hi            len(x[lo:hi]) for 0 <= lo, 0 <= hi, len(x) = L
     wrap32 z                        .type(torch.int32) of an int64 / integer-valued value (two's complement)
     nthZ d l i                      l[i], 0 <= i < len(l)
     py_fftfreq_int n i              torch.fft.fftfreq(n, d=1/n).round().to(torch.int64)[i]
     lenZ l                          len(l)                                                              *)
From QV.lib Require Import Prelude FinSum DFT DFT2.
From QV.model Require Import C02_Model.
From Coq Require Import QArith.
Local Close Scope Q_scope.
Local Open Scope Z_scope.

Definition tabZ {A} (len : Z) (f : Z -> A) : list A := map (fun k => f (Z.of_nat k)) (seq 0 (Z.to_nat len)).
Definition py_range (start stop step : Z) : list Z :=
  map (fun k => start + Z.of_nat k * step) (seq 0 (Z.to_nat ((stop - start + step - 1) / step))).
Definition py_cat {A} (chunks : list (list A)) : list A := concat chunks.
Definition py_slice_len (L lo hi : Z) : Z := Z.max 0 (Z.min hi L - Z.min lo L).
Definition wrap32 (z : Z) : Z := (z + 2147483648) mod 4294967296 - 2147483648.
Definition nthZ {A} (d : A) (l : list A) (i : Z) : A := nth (Z.to_nat i) l d.
Definition lenZ {A} (l : list A) : Z := Z.of_nat (length l).
Definition py_fftfreq_int (n i : Z) : Z := nthZ 0 (fftfreq_list n) i.
Definition q00 : Q * Q := (0 # 1, 0 # 1)%Q.

(* rounded (P, 2) position tensors and torch.equal on them *)
Definition py_round_pos (pos : list (Q * Q)) : list (Z * Z) :=
  map (fun p => (round_half_even (fst p), round_half_even (snd p))) pos.
Definition py_equal_zz (a b : list (Z * Z)) : bool := list_eqb zz_eqb a b.
(* x[batch] on the leading axis *)
Definition py_take {A} (d : A) (l : list A) (batch : list Z) : list A := map (nthZ d l) batch.

(* detector vocabulary (abstract commutative ring of lib/DFT.v; a stack of exit waves = list of images):
     py_fft2_ortho x      torch.fft.fft2(x, norm="ortho")         per image
     py_abs2 x            torch.abs(x) ** 2                        element-wise a * conj a
     py_sum0 xs           torch.sum(xs, dim=0)                     over the leading (mode) axis
     py_fftshift2 x       torch.fft.fftshift(x, dim=(-2, -1))     *)
Section Det.
  Variable R : Type.
  Variables (rO : R) (radd rmul : R -> R -> R) (conj : R -> R).
  Variables (N1 : nat) (w1 : Z -> R) (N2 : nat) (w2 : Z -> R) (sN : R).
  Definition py_fft2_ortho (x : img R) : img R := fun k1 k2 => rmul sN (dft2 rO radd rmul N1 w1 N2 w2 x k1 k2).
  Definition py_abs2 (x : img R) : img R := fun k1 k2 => rmul (x k1 k2) (conj (x k1 k2)).
  Definition py_sum0 (xs : list (img R)) : img R := fun k1 k2 => suml rO radd (map (fun x => x k1 k2) xs).
  Definition py_fftshift2 (x : img R) : img R := fftshift2 N1 N2 x.
End Det.
Arguments py_fft2_ortho {R} rO radd rmul N1 w1 N2 w2 sN x _ _.
Arguments py_abs2 {R} rmul conj x _ _.
Arguments py_sum0 {R} rO radd xs _ _.
Arguments py_fftshift2 {R} N1 N2 x _ _.

(* ------------------------------------------------------------------ lemmas *)
Lemma tabZ_length A len (f : Z -> A) : length (tabZ len f) = Z.to_nat len.
Proof. unfold tabZ. now rewrite map_length, seq_length. Qed.

Lemma tabZ_ext A len (f g : Z -> A) : (forall i, 0 <= i < len -> f i = g i) -> tabZ len f = tabZ len g.
Proof.
  intros E. unfold tabZ. apply map_ext_in. intros k Hk. apply in_seq in Hk. apply E. lia.
Qed.

Lemma tabZ_nonpos A len (f : Z -> A) : len <= 0 -> tabZ len f = [].
Proof. intros. unfold tabZ. replace (Z.to_nat len) with 0%nat by lia. reflexivity. Qed.

Lemma seq_from (a b : nat) : seq a b = map (fun k => (a + k)%nat) (seq 0 b).
Proof.
  revert a. induction b as [|b IH]; intros a; cbn [seq map]; [reflexivity|].
  f_equal; [lia|]. rewrite (IH (S a)), (IH 1%nat), map_map. apply map_ext. intros k. lia.
Qed.

Lemma tabZ_split A (a b : Z) (f : Z -> A) : 0 <= a -> 0 <= b ->
  tabZ (a + b) f = tabZ a f ++ tabZ b (fun p => f (a + p)).
Proof.
  intros Ha Hb. unfold tabZ. replace (Z.to_nat (a + b)) with (Z.to_nat a + Z.to_nat b)%nat by lia.
  rewrite seq_app, map_app. f_equal. cbn [Nat.add].
  rewrite (seq_from (Z.to_nat a) (Z.to_nat b)).
  rewrite map_map. apply map_ext. intros k. f_equal. lia.
Qed.

Lemma tabZ_nth_map A B (d : A) (l : list A) (f : A -> B) : tabZ (lenZ l) (fun q => f (nthZ d l q)) = map f l.
Proof.
  unfold tabZ, lenZ, nthZ. rewrite Nat2Z.id.
  induction l as [|x l IH]; [reflexivity|].
  cbn [length]. rewrite <- cons_seq, <- seq_shift. cbn [map]. f_equal.
  rewrite map_map. rewrite <- IH. apply map_ext. intros k. rewrite !Nat2Z.id. reflexivity.
Qed.

Lemma wrap32_id z : - 2147483648 <= z < 2147483648 -> wrap32 z = z.
Proof. intros. unfold wrap32. rewrite Z.mod_small; lia. Qed.

Lemma py_range_step_tail (s L : Z) : 1 <= s -> s < L ->
  py_range 0 L s = 0 :: map (fun i => s + i) (py_range 0 (L - s) s).
Proof.
  intros Hs HL. unfold py_range.
  replace ((L - 0 + s - 1) / s) with ((L - s - 0 + s - 1) / s + 1).
  2:{ replace (L - 0 + s - 1) with ((L - s - 0 + s - 1) + 1 * s) by lia. rewrite Z.div_add by lia. reflexivity. }
  assert (0 <= (L - s - 0 + s - 1) / s) by (apply Z.div_pos; lia).
  replace (Z.to_nat ((L - s - 0 + s - 1) / s + 1)) with (S (Z.to_nat ((L - s - 0 + s - 1) / s))) by lia.
  rewrite <- cons_seq. cbn [map]. f_equal; try lia.
  rewrite <- seq_shift, !map_map. apply map_ext. intros k. lia.
Qed.

Lemma py_range_single (s L : Z) : 1 <= s -> 0 < L <= s -> py_range 0 L s = [0].
Proof.
  intros Hs HL. unfold py_range.
  replace ((L - 0 + s - 1) / s) with 1; [reflexivity|].
  apply Z.div_unique with (r := L - 1); lia.
Qed.

Lemma py_range_empty (s : Z) : 1 <= s -> py_range 0 0 s = [].
Proof.
  intros Hs. unfold py_range. replace ((0 - 0 + s - 1) / s) with 0; [reflexivity|].
  symmetry. apply Z.div_small. lia.
Qed.

(* a loop over consecutive chunks of an element-wise computation is the computation on the whole axis:
   for i in range(0, L, s): out.append(F(x[i : min(i + s, L)]));  cat(out) *)
Lemma cat_chunks A (s L : Z) (lenf : Z -> Z) (F : Z -> Z -> A) (g : Z -> A) :
  1 <= s -> 0 <= L ->
  (forall i, 0 <= i < L -> lenf i = Z.min s (L - i)) ->
  (forall i p, 0 <= i -> 0 <= p -> i + p < L -> F i p = g (i + p)) ->
  py_cat (map (fun i => tabZ (lenf i) (F i)) (py_range 0 L s)) = tabZ L g.
Proof.
  intros Hs HL. unfold py_cat.
  (* induction on the number of chunks *)
  remember (Z.to_nat L) as fuel eqn:Hf.
  assert (Hfu : (Z.to_nat L <= fuel)%nat) by lia. clear Hf.
  revert L HL lenf F g Hfu.
  induction fuel as [|fuel IH]; intros L HL lenf F g Hfu Hlen HF.
  - assert (L = 0) by lia. subst L. rewrite py_range_empty by lia. reflexivity.
  - destruct (Z.eq_dec L 0) as [->|Hnz]; [rewrite py_range_empty by lia; reflexivity|].
    destruct (Z_le_gt_dec L s) as [Hle|Hgt].
    + rewrite py_range_single by lia. cbn [map concat]. rewrite app_nil_r.
      rewrite (Hlen 0) by lia. replace (Z.min s (L - 0)) with L by lia.
      apply tabZ_ext. intros p Hp. rewrite HF by lia. f_equal.
    + rewrite py_range_step_tail by lia. cbn [map concat].
      rewrite (Hlen 0) by lia. replace (Z.min s (L - 0)) with s by lia.
      rewrite map_map.
      match goal with |- _ ++ ?tl = _ => replace tl with (tabZ (L - s) (fun q => g (s + q))) end.
      * replace L with (s + (L - s)) at 2 by lia. rewrite tabZ_split by lia. f_equal.
        apply tabZ_ext. intros p Hp. rewrite HF by lia. f_equal.
      * symmetry. apply (IH (L - s) ltac:(lia) (fun i => lenf (s + i)) (fun i p => F (s + i) p) (fun q => g (s + q))).
        -- lia.
        -- intros i Hi. rewrite Hlen by lia. lia.
        -- intros i p Hi Hp Hip. rewrite HF by lia. f_equal. lia.
Qed.

Arguments tabZ_length {A} len f.
Arguments tabZ_ext {A} len f g _.
Arguments tabZ_nonpos {A} len f _.
Arguments tabZ_split {A} a b f _ _.
Arguments tabZ_nth_map {A B} d l f.
Arguments cat_chunks {A} s L lenf F g _ _ _ _.
