(* Two-dimensional DFT over the abstract commutative ring of lib/DFT.v.

   Grid N1 x N2 (axis 1 = rows = first index, axis 2 = columns = second index), one root
   family per axis: (w1, N1, Ninv1) and (w2, N2, Ninv2), both [root_ok].  Signals are
   functions  nat -> nat -> R  (only the values at i < N1, j < N2 matter).
   Stdlib only; no axioms: every theorem is "Closed under the global context".

   INTERFACE (after the sections are closed)
   ------------------------------------------------------------------------------------
   Section Memo (no ring needed; arguments {R} d ...):
     memo1 d N f, memo2 d N1 N2 f      tabulate f on [0,N) / [0,N1)x[0,N2) once (a list built
                                       by a [let]) and look values up; default d outside.
                                       Semantically the identity on the grid; under
                                       vm_compute it stops the exponential recomputation of
                                       nested transforms.  Evaluate [memo2 d N1 N2 f] OUTSIDE
                                       the lambda that consumes it (let-bind it or pass it as
                                       an argument).
     memo1_spec : n < N -> memo1 d N f n = f n
     memo2_spec : i < N1 -> j < N2 -> memo2 d N1 N2 f i j = f i j

   Section OneDExtras (1-D additions to DFT.v; arguments Rth Cok Rok):
     zidx_zidx_sub, roll_0, dft_scale_r, dft_scale_l, idft_scale_l, idft_at0,
     fftshift N x := roll N (N/2) x, ifftshift N x := roll N (-(N/2)) x,
     ifftshift_fftshift, fftshift_ifftshift, sumn_roll, fmul_m (memoised fmul), fmul_m_eq

   Section DFT2 (definitions take the ring operations explicitly, like DFT.v):
     sum2 rO radd N1 N2 f                         = sum_{i<N1} sum_{j<N2} f i j
     dft2 rO radd rmul N1 w1 N2 w2 x k1 k2        = dft_1 (fun n1 => dft_2 (x n1) k2) k1
     idft2 rO radd rmul N1 w1 Ninv1 N2 w2 Ninv2 X n1 n2
                                                  = idft_2 (fun k2 => idft_1 (fun k1 => X k1 k2) n1) n2
     roll2 N1 N2 s1 s2 x n1 n2                    = x ((n1 - s1) mod N1) ((n2 - s2) mod N2)   (np.roll)
     fmul2 rO radd rmul N1 w1 Ninv1 N2 w2 Ninv2 h x = idft2 (h .* dft2 x)     (Fourier multiplier)
     fmul2_m  (same arguments)                    memoised fmul2 (use this one in models that run)
     dft2_m / idft2_m                             memoised dft2 / idft2
     energy2 rO radd rmul conj N1 N2 x            = sum2 (x .* conj x)
     dc_mask2 rO rI k1 k2                         = 0 at (0,0), 1 elsewhere
     fftshift2 / ifftshift2 N1 N2 x               = roll2 by (N1/2, N2/2) / (-(N1/2), -(N2/2))
   Theorems (each takes  Rth Cok Rok1 Rok2  explicitly, everything else implicit or trailing):
     sum2_ext sum2_zero sum2_add sum2_sub sum2_scale_l sum2_scale_r sum2_swap
     dft2_ext idft2_ext dft2_sum2 idft2_sum2 dft2_swap idft2_swap
     idft2_dft2  dft2_idft2                       inversion, both ways
     dft2_linear idft2_linear dft2_scale_l dft2_dc
     roll2_as_roll roll2_0 roll2_roll2 sum2_roll2 energy2_roll2
     dft2_roll2                                   shift theorem
     fmul2_ext fmul2_compose fmul2_one fmul2_ramp_is_roll2 fmul2_linear
     parseval2 parseval2_energy
     fmul2_unit_energy fmul2_unit_inverse
     fmul2_dc fmul2_zero_dc
     xcorr2_theorem xcorr2_of_roll
     fftshift2_ifftshift2 ifftshift2_fftshift2 sum2_fftshift2 sum2_ifftshift2
     fmul2_m_eq dft2_m_eq idft2_m_eq
   Use them inside your own Section with the same variables (copy the header below). *)
From Coq Require Import ZArith List Lia Ring Arith.
From QV.lib Require Import FinSum DFT.
Import ListNotations.

(* ------------------------------------------------------------------------ memoisation *)
Section Memo.
  Variable R : Type.
  Variable d : R.

  Definition memo1 (N : nat) (f : nat -> R) : nat -> R :=
    let l := map f (seq 0 N) in fun n => nth n l d.

  Definition memo2 (N1 N2 : nat) (f : nat -> nat -> R) : nat -> nat -> R :=
    let ll := map (fun i => map (f i) (seq 0 N2)) (seq 0 N1) in
    fun i j => nth j (nth i ll nil) d.

  Lemma nth_map_seq (A : Type) (g : nat -> A) (dd : A) N n : (n < N)%nat -> nth n (map g (seq 0 N)) dd = g n.
  Proof.
    intros H. rewrite (nth_indep _ dd (g 0%nat)) by (rewrite map_length, seq_length; exact H).
    rewrite (map_nth g (seq 0 N) 0%nat n). rewrite seq_nth by exact H. reflexivity.
  Qed.

  Lemma memo1_spec N f n : (n < N)%nat -> memo1 N f n = f n.
  Proof. intros H. unfold memo1. cbv zeta. apply nth_map_seq. exact H. Qed.

  Lemma memo2_spec N1 N2 f i j : (i < N1)%nat -> (j < N2)%nat -> memo2 N1 N2 f i j = f i j.
  Proof.
    intros Hi Hj. unfold memo2. cbv zeta.
    rewrite (nth_map_seq _ (fun i => map (f i) (seq 0 N2)) nil N1 i Hi).
    apply nth_map_seq. exact Hj.
  Qed.
End Memo.

Arguments memo1 {R} d N f _.
Arguments memo2 {R} d N1 N2 f _ _.
Arguments nth_map_seq {A} g dd N n.
Arguments memo1_spec {R} d N f n.
Arguments memo2_spec {R} d N1 N2 f i j.

(* ------------------------------------------------------------------------ 1-D additions *)
Section OneDExtras.
  Variable R : Type.
  Variables (rO rI : R) (radd rmul rsub : R -> R -> R) (ropp : R -> R).
  Variable Rth : ring_theory rO rI radd rmul rsub ropp (@eq R).
  Add Ring RringX : Rth.
  Variable conj : R -> R.
  Hypothesis Cok : conj_ok radd rmul conj.
  Variables (N : nat) (w : Z -> R) (Ninv : R).
  Hypothesis Rok : root_ok rO rI radd rmul conj N w Ninv.
  Set Default Proof Using "All".

  Notation "0" := rO.  Notation "1" := rI.
  Infix "+" := radd.   Infix "*" := rmul.  Infix "-" := rsub.  Notation "- x" := (ropp x).
  Notation sumn := (sumn rO radd).
  Notation dft := (dft rO radd rmul N w).
  Notation idft := (idft rO radd rmul N w Ninv).
  Notation fmul := (fmul rO radd rmul N w Ninv).
  Notation roll := (roll N).
  Notation zidx := (zidx N).

  Let Npos : (0 < N)%nat := ro_pos _ _ _ _ _ _ _ _ _ Rok.

  Lemma zidx_zidx_sub (a s : Z) : zidx (Z.of_nat (zidx a) - s) = zidx (a - s).
  Proof.
    unfold DFT.zidx. f_equal. rewrite Z2Nat.id by (apply Z.mod_pos_bound; lia).
    rewrite Zminus_mod_idemp_l. reflexivity.
  Qed.

  Lemma roll_0 (x : nat -> R) n : (n < N)%nat -> roll 0%Z x n = x n.
  Proof.
    intros H. unfold DFT.roll. f_equal. rewrite Z.sub_0_r. apply (zidx_small Rth Cok Rok). exact H.
  Qed.

  Lemma dft_scale_r c x k : dft (fun n => x n * c) k = dft x k * c.
  Proof. unfold DFT.dft. rewrite <- (sumn_scale_r Rth). apply (sumn_ext Rth). intros; ring. Qed.

  Lemma dft_scale_l c x k : dft (fun n => c * x n) k = c * dft x k.
  Proof. unfold DFT.dft. rewrite <- (sumn_scale_l Rth). apply (sumn_ext Rth). intros; ring. Qed.

  Lemma idft_scale_l c X n : idft (fun k => c * X k) n = c * idft X n.
  Proof.
    unfold DFT.idft.
    transitivity (Ninv * (c * sumn N (fun k => X k * w (- (Z.of_nat k * Z.of_nat n))%Z))); [|ring].
    f_equal. rewrite <- (sumn_scale_l Rth). apply (sumn_ext Rth). intros; ring.
  Qed.

  (* a spectrum supported on the DC bin *)
  Lemma idft_at0 X n : (forall k, (k < N)%nat -> k <> 0%nat -> X k = 0) -> idft X n = Ninv * X 0%nat.
  Proof.
    intros H. unfold DFT.idft. f_equal.
    rewrite (sumn_single Rth N _ 0%nat Npos).
    - replace (- (Z.of_nat 0 * Z.of_nat n))%Z with 0%Z by lia.
      rewrite (ro_0 _ _ _ _ _ _ _ _ _ Rok). ring.
    - intros i Hi Hne. rewrite (H i Hi Hne). ring.
  Qed.

  Lemma sumn_roll s x : sumn N (roll s x) = sumn N x.
  Proof. unfold DFT.roll. apply (sumn_zshift Rth Cok Rok). Qed.

  (* numpy.fft.fftshift / ifftshift along one axis *)
  Definition fftshift (x : nat -> R) : nat -> R := roll (Z.of_nat (N / 2)) x.
  Definition ifftshift (x : nat -> R) : nat -> R := roll (- Z.of_nat (N / 2))%Z x.

  Lemma ifftshift_fftshift x n : (n < N)%nat -> ifftshift (fftshift x) n = x n.
  Proof.
    intros H. unfold ifftshift, fftshift. rewrite (roll_roll Rth Cok Rok).
    replace (- Z.of_nat (N / 2) + Z.of_nat (N / 2))%Z with 0%Z by lia. apply roll_0. exact H.
  Qed.

  Lemma fftshift_ifftshift x n : (n < N)%nat -> fftshift (ifftshift x) n = x n.
  Proof.
    intros H. unfold ifftshift, fftshift. rewrite (roll_roll Rth Cok Rok).
    replace (Z.of_nat (N / 2) + - Z.of_nat (N / 2))%Z with 0%Z by lia. apply roll_0. exact H.
  Qed.

  (* memoised 1-D multiplier *)
  Definition fmul_m (h x : nat -> R) : nat -> R :=
    let xm := memo1 rO N x in
    let X := memo1 rO N (dft xm) in
    let Y := memo1 rO N (fun k => h k * X k) in
    memo1 rO N (idft Y).

  Lemma fmul_m_eq h x n : (n < N)%nat -> fmul_m h x n = fmul h x n.
  Proof.
    intros H. unfold fmul_m. cbv zeta. rewrite memo1_spec by exact H.
    unfold DFT.fmul. apply (idft_ext Rth Cok Rok). intros k Hk.
    rewrite memo1_spec by exact Hk. rewrite memo1_spec by exact Hk. f_equal.
    apply (dft_ext Rth Cok Rok). intros m Hm. apply memo1_spec. exact Hm.
  Qed.
End OneDExtras.

Arguments zidx_zidx_sub {R rO rI radd rmul rsub ropp} Rth {conj} Cok {N w Ninv} Rok.
Arguments roll_0 {R rO rI radd rmul rsub ropp} Rth {conj} Cok {N w Ninv} Rok.
Arguments dft_scale_r {R rO rI radd rmul rsub ropp} Rth {conj} Cok {N w Ninv} Rok.
Arguments dft_scale_l {R rO rI radd rmul rsub ropp} Rth {conj} Cok {N w Ninv} Rok.
Arguments idft_scale_l {R rO rI radd rmul rsub ropp} Rth {conj} Cok {N w Ninv} Rok.
Arguments idft_at0 {R rO rI radd rmul rsub ropp} Rth {conj} Cok {N w Ninv} Rok.
Arguments sumn_roll {R rO rI radd rmul rsub ropp} Rth {conj} Cok {N w Ninv} Rok.
Arguments ifftshift_fftshift {R rO rI radd rmul rsub ropp} Rth {conj} Cok {N w Ninv} Rok.
Arguments fftshift_ifftshift {R rO rI radd rmul rsub ropp} Rth {conj} Cok {N w Ninv} Rok.
Arguments fmul_m_eq {R rO rI radd rmul rsub ropp} Rth {conj} Cok {N w Ninv} Rok.
Arguments fftshift {R} N x _.
Arguments ifftshift {R} N x _.
Arguments fmul_m {R} rO radd rmul N w Ninv h x _.

(* ------------------------------------------------------------------------ two dimensions *)
Section DFT2.
  Variable R : Type.
  Variables (rO rI : R) (radd rmul rsub : R -> R -> R) (ropp : R -> R).
  Variable Rth : ring_theory rO rI radd rmul rsub ropp (@eq R).
  Add Ring Rring2 : Rth.
  Variable conj : R -> R.
  Hypothesis Cok : conj_ok radd rmul conj.
  Variables (N1 : nat) (w1 : Z -> R) (Ninv1 : R) (N2 : nat) (w2 : Z -> R) (Ninv2 : R).
  Hypothesis Rok1 : root_ok rO rI radd rmul conj N1 w1 Ninv1.
  Hypothesis Rok2 : root_ok rO rI radd rmul conj N2 w2 Ninv2.
  Set Default Proof Using "All".

  Notation "0" := rO.  Notation "1" := rI.
  Infix "+" := radd.   Infix "*" := rmul.  Infix "-" := rsub.  Notation "- x" := (ropp x).
  Notation sumn := (sumn rO radd).
  Notation of_nat := (of_nat rO rI radd).
  Notation dftA := (dft rO radd rmul N1 w1).
  Notation dftB := (dft rO radd rmul N2 w2).
  Notation idftA := (idft rO radd rmul N1 w1 Ninv1).
  Notation idftB := (idft rO radd rmul N2 w2 Ninv2).
  Notation z1 := (zidx N1).
  Notation z2 := (zidx N2).

  Let Npos1 : (0 < N1)%nat := ro_pos _ _ _ _ _ _ _ _ _ Rok1.
  Let Npos2 : (0 < N2)%nat := ro_pos _ _ _ _ _ _ _ _ _ Rok2.

  (* ---------------------------------------------------------------- definitions *)
  Definition sum2 (f : nat -> nat -> R) : R := sumn N1 (fun i => sumn N2 (fun j => f i j)).

  Definition dft2 (x : nat -> nat -> R) (k1 k2 : nat) : R :=
    dftA (fun n1 => dftB (fun n2 => x n1 n2) k2) k1.

  Definition idft2 (X : nat -> nat -> R) (n1 n2 : nat) : R :=
    idftB (fun k2 => idftA (fun k1 => X k1 k2) n1) n2.

  Definition roll2 (s1 s2 : Z) (x : nat -> nat -> R) (n1 n2 : nat) : R :=
    x (z1 (Z.of_nat n1 - s1)) (z2 (Z.of_nat n2 - s2)).

  Definition fmul2 (h x : nat -> nat -> R) : nat -> nat -> R :=
    idft2 (fun k1 k2 => h k1 k2 * dft2 x k1 k2).

  Definition energy2 (x : nat -> nat -> R) : R := sum2 (fun i j => x i j * conj (x i j)).

  Definition dc_mask2 (k1 k2 : nat) : R := match k1, k2 with O, O => 0 | _, _ => 1 end.

  Definition fftshift2 (x : nat -> nat -> R) : nat -> nat -> R :=
    roll2 (Z.of_nat (N1 / 2)) (Z.of_nat (N2 / 2)) x.
  Definition ifftshift2 (x : nat -> nat -> R) : nat -> nat -> R :=
    roll2 (- Z.of_nat (N1 / 2))%Z (- Z.of_nat (N2 / 2))%Z x.

  (* memoised versions (same values on the grid; see Section Memo) *)
  Definition dft2_m (x : nat -> nat -> R) : nat -> nat -> R :=
    let xm := memo2 rO N1 N2 x in memo2 rO N1 N2 (dft2 xm).
  Definition idft2_m (X : nat -> nat -> R) : nat -> nat -> R :=
    let Xm := memo2 rO N1 N2 X in memo2 rO N1 N2 (idft2 Xm).
  Definition fmul2_m (h x : nat -> nat -> R) : nat -> nat -> R :=
    let xm := memo2 rO N1 N2 x in
    let X := memo2 rO N1 N2 (dft2 xm) in
    let Y := memo2 rO N1 N2 (fun k1 k2 => h k1 k2 * X k1 k2) in
    memo2 rO N1 N2 (idft2 Y).

  (* ---------------------------------------------------------------- double sums *)
  Lemma sum2_ext f g :
    (forall i j, (i < N1)%nat -> (j < N2)%nat -> f i j = g i j) -> sum2 f = sum2 g.
  Proof.
    intros H. unfold sum2. apply (sumn_ext Rth). intros i Hi. apply (sumn_ext Rth). intros j Hj.
    apply H; assumption.
  Qed.

  Lemma sum2_zero : sum2 (fun _ _ => 0) = 0.
  Proof.
    unfold sum2. rewrite (sumn_ext Rth N1 _ (fun _ => 0)); [apply (sumn_zero Rth)|].
    intros. apply (sumn_zero Rth).
  Qed.

  Lemma sum2_add f g : sum2 (fun i j => f i j + g i j) = sum2 f + sum2 g.
  Proof. unfold sum2. rewrite <- (sumn_add Rth). apply (sumn_ext Rth). intros. apply (sumn_add Rth). Qed.

  Lemma sum2_sub f g : sum2 (fun i j => f i j - g i j) = sum2 f - sum2 g.
  Proof. unfold sum2. rewrite <- (sumn_sub Rth). apply (sumn_ext Rth). intros. apply (sumn_sub Rth). Qed.

  Lemma sum2_scale_l c f : sum2 (fun i j => c * f i j) = c * sum2 f.
  Proof. unfold sum2. rewrite <- (sumn_scale_l Rth). apply (sumn_ext Rth). intros. apply (sumn_scale_l Rth). Qed.

  Lemma sum2_scale_r c f : sum2 (fun i j => f i j * c) = sum2 f * c.
  Proof. unfold sum2. rewrite <- (sumn_scale_r Rth). apply (sumn_ext Rth). intros. apply (sumn_scale_r Rth). Qed.

  Lemma sum2_swap f : sum2 f = sumn N2 (fun j => sumn N1 (fun i => f i j)).
  Proof. unfold sum2. apply (sumn_swap Rth). Qed.

  (* ---------------------------------------------------------------- extensionality *)
  Lemma dft2_ext x y k1 k2 :
    (forall n1 n2, (n1 < N1)%nat -> (n2 < N2)%nat -> x n1 n2 = y n1 n2) -> dft2 x k1 k2 = dft2 y k1 k2.
  Proof.
    intros H. unfold dft2. apply (dft_ext Rth Cok Rok1). intros n1 H1.
    apply (dft_ext Rth Cok Rok2). intros n2 H2. apply H; assumption.
  Qed.

  Lemma idft2_ext X Y n1 n2 :
    (forall k1 k2, (k1 < N1)%nat -> (k2 < N2)%nat -> X k1 k2 = Y k1 k2) -> idft2 X n1 n2 = idft2 Y n1 n2.
  Proof.
    intros H. unfold idft2. apply (idft_ext Rth Cok Rok2). intros k2 H2.
    apply (idft_ext Rth Cok Rok1). intros k1 H1. apply H; assumption.
  Qed.

  Lemma fmul2_ext h g x y n1 n2 :
    (forall k1 k2, (k1 < N1)%nat -> (k2 < N2)%nat -> h k1 k2 = g k1 k2) ->
    (forall m1 m2, (m1 < N1)%nat -> (m2 < N2)%nat -> x m1 m2 = y m1 m2) ->
    fmul2 h x n1 n2 = fmul2 g y n1 n2.
  Proof.
    intros Hh Hx. unfold fmul2. apply idft2_ext. intros k1 k2 H1 H2.
    rewrite (Hh k1 k2 H1 H2). f_equal. apply dft2_ext. exact Hx.
  Qed.

  (* ---------------------------------------------------------------- closed forms *)
  Lemma dft2_sum2 x k1 k2 :
    dft2 x k1 k2
    = sum2 (fun n1 n2 => x n1 n2 * w1 (Z.of_nat k1 * Z.of_nat n1)%Z * w2 (Z.of_nat k2 * Z.of_nat n2)%Z).
  Proof.
    unfold dft2, sum2, dft. apply (sumn_ext Rth). intros n1 _.
    rewrite <- (sumn_scale_r Rth). apply (sumn_ext Rth). intros n2 _. ring.
  Qed.

  Lemma idft2_sum2 X n1 n2 :
    idft2 X n1 n2
    = Ninv1 * Ninv2 * sum2 (fun k1 k2 => X k1 k2 * w1 (- (Z.of_nat k1 * Z.of_nat n1))%Z
                                                  * w2 (- (Z.of_nat k2 * Z.of_nat n2))%Z).
  Proof.
    unfold idft2, idft. rewrite sum2_swap.
    transitivity (Ninv2 * (Ninv1 * sumn N2 (fun k2 => sumn N1 (fun k1 =>
                    X k1 k2 * w1 (- (Z.of_nat k1 * Z.of_nat n1))%Z * w2 (- (Z.of_nat k2 * Z.of_nat n2))%Z)))); [|ring].
    f_equal. rewrite <- (sumn_scale_l Rth). apply (sumn_ext Rth). intros k2 _.
    transitivity (Ninv1 * (sumn N1 (fun k1 => X k1 k2 * w1 (- (Z.of_nat k1 * Z.of_nat n1))%Z)
                           * w2 (- (Z.of_nat k2 * Z.of_nat n2))%Z)); [ring|].
    f_equal. rewrite <- (sumn_scale_r Rth). reflexivity.
  Qed.

  (* the order of the two 1-D passes does not matter *)
  Lemma dft2_swap x k1 k2 : dft2 x k1 k2 = dftB (fun n2 => dftA (fun n1 => x n1 n2) k1) k2.
  Proof.
    rewrite dft2_sum2, sum2_swap. unfold dft. apply (sumn_ext Rth). intros n2 _.
    rewrite <- (sumn_scale_r Rth). apply (sumn_ext Rth). intros n1 _. ring.
  Qed.

  Lemma idft2_swap X n1 n2 : idft2 X n1 n2 = idftA (fun k1 => idftB (fun k2 => X k1 k2) n2) n1.
  Proof.
    rewrite idft2_sum2. unfold sum2, idft.
    transitivity (Ninv1 * (Ninv2 * sumn N1 (fun k1 => sumn N2 (fun k2 =>
                    X k1 k2 * w1 (- (Z.of_nat k1 * Z.of_nat n1))%Z * w2 (- (Z.of_nat k2 * Z.of_nat n2))%Z)))); [ring|].
    f_equal. rewrite <- (sumn_scale_l Rth). apply (sumn_ext Rth). intros k1 _.
    transitivity (Ninv2 * (sumn N2 (fun k2 => X k1 k2 * w2 (- (Z.of_nat k2 * Z.of_nat n2))%Z)
                           * w1 (- (Z.of_nat k1 * Z.of_nat n1))%Z)); [|ring].
    f_equal. rewrite <- (sumn_scale_r Rth). apply (sumn_ext Rth). intros k2 _. ring.
  Qed.

  (* ---------------------------------------------------------------- inversion *)
  Theorem idft2_dft2 x n1 n2 : (n1 < N1)%nat -> (n2 < N2)%nat -> idft2 (dft2 x) n1 n2 = x n1 n2.
  Proof.
    intros H1 H2. unfold idft2, dft2.
    transitivity (idftB (dftB (fun m2 => x n1 m2)) n2).
    - apply (idft_ext Rth Cok Rok2). intros k2 Hk2.
      apply (idft_dft Rth Cok Rok1 (fun m1 => dftB (fun m2 => x m1 m2) k2) n1 H1).
    - apply (idft_dft Rth Cok Rok2 (fun m2 => x n1 m2) n2 H2).
  Qed.

  Theorem dft2_idft2 X k1 k2 : (k1 < N1)%nat -> (k2 < N2)%nat -> dft2 (idft2 X) k1 k2 = X k1 k2.
  Proof.
    intros H1 H2. unfold idft2, dft2.
    transitivity (dftA (idftA (fun l1 => X l1 k2)) k1).
    - apply (dft_ext Rth Cok Rok1). intros n1 Hn1.
      apply (dft_idft Rth Cok Rok2 (fun l2 => idftA (fun l1 => X l1 l2) n1) k2 H2).
    - apply (dft_idft Rth Cok Rok1 (fun l1 => X l1 k2) k1 H1).
  Qed.

  (* ---------------------------------------------------------------- linearity, DC *)
  Theorem dft2_linear a b x y k1 k2 :
    dft2 (fun n1 n2 => a * x n1 n2 + b * y n1 n2) k1 k2 = a * dft2 x k1 k2 + b * dft2 y k1 k2.
  Proof.
    rewrite !dft2_sum2, <- !sum2_scale_l, <- sum2_add. apply sum2_ext. intros; ring.
  Qed.

  Theorem idft2_linear a b X Y n1 n2 :
    idft2 (fun k1 k2 => a * X k1 k2 + b * Y k1 k2) n1 n2 = a * idft2 X n1 n2 + b * idft2 Y n1 n2.
  Proof.
    rewrite !idft2_sum2.
    match goal with |- _ = a * (_ * ?S1) + b * (_ * ?S2) =>
      transitivity (Ninv1 * Ninv2 * (a * S1 + b * S2)); [|ring] end.
    f_equal. rewrite <- !sum2_scale_l, <- sum2_add. apply sum2_ext. intros; ring.
  Qed.

  Lemma dft2_scale_l c x k1 k2 : dft2 (fun n1 n2 => c * x n1 n2) k1 k2 = c * dft2 x k1 k2.
  Proof. rewrite !dft2_sum2, <- sum2_scale_l. apply sum2_ext. intros; ring. Qed.

  Lemma idft2_scale_l c X n1 n2 : idft2 (fun k1 k2 => c * X k1 k2) n1 n2 = c * idft2 X n1 n2.
  Proof.
    rewrite !idft2_sum2.
    match goal with |- _ = c * (_ * ?S1) => transitivity (Ninv1 * Ninv2 * (c * S1)); [|ring] end.
    f_equal. rewrite <- sum2_scale_l. apply sum2_ext. intros; ring.
  Qed.

  Theorem dft2_dc x : dft2 x 0%nat 0%nat = sum2 x.
  Proof.
    rewrite dft2_sum2. apply sum2_ext. intros n1 n2 _ _.
    replace (Z.of_nat 0 * Z.of_nat n1)%Z with 0%Z by lia.
    replace (Z.of_nat 0 * Z.of_nat n2)%Z with 0%Z by lia.
    rewrite (ro_0 _ _ _ _ _ _ _ _ _ Rok1), (ro_0 _ _ _ _ _ _ _ _ _ Rok2). ring.
  Qed.

  (* ---------------------------------------------------------------- 2-D roll *)
  Lemma roll2_as_roll s1 s2 x n1 n2 :
    roll2 s1 s2 x n1 n2 = roll N1 s1 (fun m1 => roll N2 s2 (fun m2 => x m1 m2) n2) n1.
  Proof. reflexivity. Qed.

  Lemma roll2_0 x n1 n2 : (n1 < N1)%nat -> (n2 < N2)%nat -> roll2 0%Z 0%Z x n1 n2 = x n1 n2.
  Proof.
    intros H1 H2. unfold roll2. rewrite !Z.sub_0_r.
    rewrite (zidx_small Rth Cok Rok1 n1 H1), (zidx_small Rth Cok Rok2 n2 H2). reflexivity.
  Qed.

  Theorem roll2_roll2 s1 s2 t1 t2 x n1 n2 :
    roll2 s1 s2 (roll2 t1 t2 x) n1 n2 = roll2 (s1 + t1)%Z (s2 + t2)%Z x n1 n2.
  Proof.
    unfold roll2.
    rewrite (zidx_zidx_sub Rth Cok Rok1), (zidx_zidx_sub Rth Cok Rok2).
    f_equal; f_equal; lia.
  Qed.

  Lemma sum2_roll2 s1 s2 f : sum2 (roll2 s1 s2 f) = sum2 f.
  Proof.
    unfold sum2, roll2.
    rewrite (sumn_ext Rth N1 _ (fun i => (fun m => sumn N2 (fun j => f m j)) (z1 (Z.of_nat i - s1)))).
    2:{ intros i _. cbv beta. apply (sumn_zshift Rth Cok Rok2 (fun j => f (z1 (Z.of_nat i - s1)) j) s2). }
    apply (sumn_zshift Rth Cok Rok1 (fun m => sumn N2 (fun j => f m j)) s1).
  Qed.

  Lemma energy2_roll2 s1 s2 x : energy2 (roll2 s1 s2 x) = energy2 x.
  Proof. unfold energy2. apply (sum2_roll2 s1 s2 (fun i j => x i j * conj (x i j))). Qed.

  (* shift theorem *)
  Theorem dft2_roll2 s1 s2 x k1 k2 :
    dft2 (roll2 s1 s2 x) k1 k2
    = dft2 x k1 k2 * (w1 (Z.of_nat k1 * s1)%Z * w2 (Z.of_nat k2 * s2)%Z).
  Proof.
    unfold dft2.
    set (G := fun m1 : nat => dftB (fun m2 => x m1 m2) k2 * w2 (Z.of_nat k2 * s2)%Z).
    transitivity (dftA (roll N1 s1 G) k1).
    - apply (dft_ext Rth Cok Rok1). intros n1 _. unfold G, roll.
      apply (dft_roll Rth Cok Rok2 s2 (fun m2 => x (z1 (Z.of_nat n1 - s1)) m2) k2).
    - rewrite (dft_roll Rth Cok Rok1). unfold G. rewrite (dft_scale_r Rth Cok Rok1). ring.
  Qed.

  (* ---------------------------------------------------------------- multipliers *)
  Theorem fmul2_compose h g x n1 n2 :
    fmul2 h (fmul2 g x) n1 n2 = fmul2 (fun k1 k2 => h k1 k2 * g k1 k2) x n1 n2.
  Proof.
    unfold fmul2. apply idft2_ext. intros k1 k2 H1 H2. rewrite dft2_idft2 by assumption. ring.
  Qed.

  Theorem fmul2_one x n1 n2 : (n1 < N1)%nat -> (n2 < N2)%nat -> fmul2 (fun _ _ => 1) x n1 n2 = x n1 n2.
  Proof.
    intros H1 H2. unfold fmul2. rewrite <- (idft2_dft2 x n1 n2 H1 H2). apply idft2_ext. intros; ring.
  Qed.

  Theorem fmul2_ramp_is_roll2 s1 s2 x n1 n2 : (n1 < N1)%nat -> (n2 < N2)%nat ->
    fmul2 (fun k1 k2 => w1 (Z.of_nat k1 * s1)%Z * w2 (Z.of_nat k2 * s2)%Z) x n1 n2 = roll2 s1 s2 x n1 n2.
  Proof.
    intros H1 H2. unfold fmul2. rewrite <- (idft2_dft2 (roll2 s1 s2 x) n1 n2 H1 H2).
    apply idft2_ext. intros k1 k2 _ _. rewrite dft2_roll2. ring.
  Qed.

  Theorem fmul2_linear h a b x y n1 n2 :
    fmul2 h (fun m1 m2 => a * x m1 m2 + b * y m1 m2) n1 n2 = a * fmul2 h x n1 n2 + b * fmul2 h y n1 n2.
  Proof.
    unfold fmul2. rewrite <- idft2_linear. apply idft2_ext. intros k1 k2 _ _. rewrite dft2_linear. ring.
  Qed.

  (* ---------------------------------------------------------------- Parseval *)
  Theorem parseval2 x y :
    sum2 (fun k1 k2 => dft2 x k1 k2 * conj (dft2 y k1 k2))
    = of_nat N1 * of_nat N2 * sum2 (fun n1 n2 => x n1 n2 * conj (y n1 n2)).
  Proof.
    rewrite sum2_swap. unfold dft2.
    rewrite (sumn_ext Rth N2 _ (fun k2 => of_nat N1 * sumn N1 (fun n1 =>
               dftB (fun n2 => x n1 n2) k2 * conj (dftB (fun n2 => y n1 n2) k2)))).
    2:{ intros k2 _.
        apply (parseval Rth Cok Rok1 (fun n1 => dftB (fun n2 => x n1 n2) k2) (fun n1 => dftB (fun n2 => y n1 n2) k2)). }
    rewrite (sumn_scale_l Rth), (sumn_swap Rth).
    rewrite (sumn_ext Rth N1 _ (fun n1 => of_nat N2 * sumn N2 (fun n2 => x n1 n2 * conj (y n1 n2)))).
    2:{ intros n1 _. apply (parseval Rth Cok Rok2 (fun n2 => x n1 n2) (fun n2 => y n1 n2)). }
    rewrite (sumn_scale_l Rth). unfold sum2. ring.
  Qed.

  Theorem parseval2_energy x : energy2 (dft2 x) = of_nat N1 * of_nat N2 * energy2 x.
  Proof. apply parseval2. Qed.

  Lemma NN_inv : (Ninv1 * Ninv2) * (of_nat N1 * of_nat N2) = 1.
  Proof.
    transitivity ((Ninv1 * of_nat N1) * (Ninv2 * of_nat N2)); [ring|].
    rewrite (ro_inv _ _ _ _ _ _ _ _ _ Rok1), (ro_inv _ _ _ _ _ _ _ _ _ Rok2). ring.
  Qed.

  Lemma NN_cancel a b : of_nat N1 * of_nat N2 * a = of_nat N1 * of_nat N2 * b -> a = b.
  Proof.
    intros H.
    transitivity ((Ninv1 * Ninv2) * (of_nat N1 * of_nat N2 * a)).
    - transitivity (((Ninv1 * Ninv2) * (of_nat N1 * of_nat N2)) * a); [|ring]. rewrite NN_inv. ring.
    - rewrite H. transitivity (((Ninv1 * Ninv2) * (of_nat N1 * of_nat N2)) * b); [ring|]. rewrite NN_inv. ring.
  Qed.

  Theorem fmul2_unit_energy h x :
    (forall k1 k2, (k1 < N1)%nat -> (k2 < N2)%nat -> h k1 k2 * conj (h k1 k2) = 1) ->
    energy2 (fmul2 h x) = energy2 x.
  Proof.
    intros Hh. apply NN_cancel. rewrite <- !parseval2_energy. unfold energy2.
    apply sum2_ext. intros k1 k2 H1 H2. unfold fmul2. rewrite dft2_idft2 by assumption.
    rewrite (conj_mul _ _ _ _ Cok).
    transitivity ((h k1 k2 * conj (h k1 k2)) * (dft2 x k1 k2 * conj (dft2 x k1 k2))); [ring|].
    rewrite Hh by assumption. ring.
  Qed.

  Theorem fmul2_unit_inverse h x n1 n2 : (n1 < N1)%nat -> (n2 < N2)%nat ->
    (forall k1 k2, (k1 < N1)%nat -> (k2 < N2)%nat -> h k1 k2 * conj (h k1 k2) = 1) ->
    fmul2 (fun k1 k2 => conj (h k1 k2)) (fmul2 h x) n1 n2 = x n1 n2.
  Proof.
    intros H1 H2 Hh. rewrite fmul2_compose. rewrite <- (fmul2_one x n1 n2 H1 H2).
    unfold fmul2. apply idft2_ext. intros k1 k2 Hk1 Hk2.
    replace (conj (h k1 k2) * h k1 k2) with (h k1 k2 * conj (h k1 k2)) by ring.
    rewrite Hh by assumption. reflexivity.
  Qed.

  (* ---------------------------------------------------------------- DC bin / mean *)
  Theorem fmul2_dc h x : sum2 (fmul2 h x) = h 0%nat 0%nat * sum2 x.
  Proof.
    rewrite <- (dft2_dc (fmul2 h x)). unfold fmul2. rewrite dft2_idft2 by assumption.
    rewrite dft2_dc. reflexivity.
  Qed.

  Lemma idft2_at00 X n1 n2 :
    (forall k1 k2, (k1 < N1)%nat -> (k2 < N2)%nat -> (k1 <> 0 \/ k2 <> 0)%nat -> X k1 k2 = 0) ->
    idft2 X n1 n2 = Ninv1 * Ninv2 * X 0%nat 0%nat.
  Proof.
    intros H. unfold idft2.
    rewrite (idft_ext Rth Cok Rok2 _ (fun k2 => Ninv1 * X 0%nat k2) n2).
    2:{ intros k2 Hk2. apply (idft_at0 Rth Cok Rok1 (fun k1 => X k1 k2) n1).
        intros k1 Hk1 Hne. apply H; auto. }
    rewrite (idft_at0 Rth Cok Rok2 (fun k2 => Ninv1 * X 0%nat k2) n2).
    - ring.
    - intros k2 Hk2 Hne. rewrite (H 0%nat k2 Npos1 Hk2) by auto. ring.
  Qed.

  Theorem fmul2_zero_dc x n1 n2 : (n1 < N1)%nat -> (n2 < N2)%nat ->
    fmul2 dc_mask2 x n1 n2 = x n1 n2 - Ninv1 * Ninv2 * sum2 x.
  Proof.
    intros H1 H2. unfold fmul2.
    set (D := fun k1 k2 : nat => match k1, k2 with O, O => dft2 x 0%nat 0%nat | _, _ => 0 end).
    transitivity (1 * idft2 (dft2 x) n1 n2 + (- (1)) * idft2 D n1 n2).
    - rewrite <- idft2_linear. apply idft2_ext. intros k1 k2 _ _. unfold dc_mask2, D.
      destruct k1, k2; ring.
    - rewrite idft2_dft2 by assumption. rewrite (idft2_at00 D).
      + unfold D. rewrite dft2_dc. ring.
      + intros k1 k2 _ _ Hne. unfold D. destruct k1, k2; try reflexivity. destruct Hne; congruence.
  Qed.

  (* ---------------------------------------------------------------- cross-correlation *)
  Theorem xcorr2_theorem x y j1 j2 :
    idft2 (fun k1 k2 => dft2 x k1 k2 * conj (dft2 y k1 k2)) j1 j2
    = sum2 (fun n1 n2 => x (z1 (Z.of_nat n1 + Z.of_nat j1)) (z2 (Z.of_nat n2 + Z.of_nat j2)) * conj (y n1 n2)).
  Proof.
    transitivity (sum2 (fun n1 n2 => roll2 (- Z.of_nat j1) (- Z.of_nat j2) x n1 n2 * conj (y n1 n2))).
    2:{ apply sum2_ext. intros n1 n2 _ _. unfold roll2.
        replace (Z.of_nat n1 - - Z.of_nat j1)%Z with (Z.of_nat n1 + Z.of_nat j1)%Z by lia.
        replace (Z.of_nat n2 - - Z.of_nat j2)%Z with (Z.of_nat n2 + Z.of_nat j2)%Z by lia. reflexivity. }
    apply NN_cancel. rewrite <- parseval2. rewrite idft2_sum2.
    match goal with |- _ * _ * (_ * _ * ?S) = _ =>
      transitivity (((Ninv1 * Ninv2) * (of_nat N1 * of_nat N2)) * S); [ring|] end.
    rewrite NN_inv.
    match goal with |- 1 * ?S = _ => transitivity S; [ring|] end.
    apply sum2_ext. intros k1 k2 _ _. rewrite dft2_roll2.
    replace (Z.of_nat k1 * - Z.of_nat j1)%Z with (- (Z.of_nat k1 * Z.of_nat j1))%Z by lia.
    replace (Z.of_nat k2 * - Z.of_nat j2)%Z with (- (Z.of_nat k2 * Z.of_nat j2))%Z by lia. ring.
  Qed.

  Theorem xcorr2_of_roll x s1 s2 j1 j2 :
    sum2 (fun n1 n2 => x (z1 (Z.of_nat n1 + Z.of_nat j1)) (z2 (Z.of_nat n2 + Z.of_nat j2))
                       * conj (roll2 s1 s2 x n1 n2))
    = sum2 (fun n1 n2 => x (z1 (Z.of_nat n1 + (Z.of_nat j1 + s1))) (z2 (Z.of_nat n2 + (Z.of_nat j2 + s2)))
                         * conj (x n1 n2)).
  Proof.
    rewrite <- (sum2_roll2 s1 s2 (fun n1 n2 =>
       x (z1 (Z.of_nat n1 + (Z.of_nat j1 + s1))) (z2 (Z.of_nat n2 + (Z.of_nat j2 + s2))) * conj (x n1 n2))).
    apply sum2_ext. intros n1 n2 _ _. unfold roll2. f_equal. f_equal.
    - replace (Z.of_nat (z1 (Z.of_nat n1 - s1)) + (Z.of_nat j1 + s1))%Z
        with (Z.of_nat (z1 (Z.of_nat n1 - s1)) - (- (Z.of_nat j1 + s1)))%Z by lia.
      rewrite (zidx_zidx_sub Rth Cok Rok1). f_equal. lia.
    - replace (Z.of_nat (z2 (Z.of_nat n2 - s2)) + (Z.of_nat j2 + s2))%Z
        with (Z.of_nat (z2 (Z.of_nat n2 - s2)) - (- (Z.of_nat j2 + s2)))%Z by lia.
      rewrite (zidx_zidx_sub Rth Cok Rok2). f_equal. lia.
  Qed.

  (* ---------------------------------------------------------------- fftshift *)
  Lemma ifftshift2_fftshift2 x n1 n2 : (n1 < N1)%nat -> (n2 < N2)%nat -> ifftshift2 (fftshift2 x) n1 n2 = x n1 n2.
  Proof.
    intros H1 H2. unfold ifftshift2, fftshift2. rewrite roll2_roll2.
    replace (- Z.of_nat (N1 / 2) + Z.of_nat (N1 / 2))%Z with 0%Z by lia.
    replace (- Z.of_nat (N2 / 2) + Z.of_nat (N2 / 2))%Z with 0%Z by lia.
    apply roll2_0; assumption.
  Qed.

  Lemma fftshift2_ifftshift2 x n1 n2 : (n1 < N1)%nat -> (n2 < N2)%nat -> fftshift2 (ifftshift2 x) n1 n2 = x n1 n2.
  Proof.
    intros H1 H2. unfold ifftshift2, fftshift2. rewrite roll2_roll2.
    replace (Z.of_nat (N1 / 2) + - Z.of_nat (N1 / 2))%Z with 0%Z by lia.
    replace (Z.of_nat (N2 / 2) + - Z.of_nat (N2 / 2))%Z with 0%Z by lia.
    apply roll2_0; assumption.
  Qed.

  Lemma sum2_fftshift2 f : sum2 (fftshift2 f) = sum2 f.
  Proof. apply sum2_roll2. Qed.

  Lemma sum2_ifftshift2 f : sum2 (ifftshift2 f) = sum2 f.
  Proof. apply sum2_roll2. Qed.

  (* ---------------------------------------------------------------- memoised versions *)
  Lemma dft2_m_eq x k1 k2 : (k1 < N1)%nat -> (k2 < N2)%nat -> dft2_m x k1 k2 = dft2 x k1 k2.
  Proof.
    intros H1 H2. unfold dft2_m. cbv zeta. rewrite memo2_spec by assumption.
    apply dft2_ext. intros. apply memo2_spec; assumption.
  Qed.

  Lemma idft2_m_eq X n1 n2 : (n1 < N1)%nat -> (n2 < N2)%nat -> idft2_m X n1 n2 = idft2 X n1 n2.
  Proof.
    intros H1 H2. unfold idft2_m. cbv zeta. rewrite memo2_spec by assumption.
    apply idft2_ext. intros. apply memo2_spec; assumption.
  Qed.

  Lemma fmul2_m_eq h x n1 n2 : (n1 < N1)%nat -> (n2 < N2)%nat -> fmul2_m h x n1 n2 = fmul2 h x n1 n2.
  Proof.
    intros H1 H2. unfold fmul2_m. cbv zeta. rewrite memo2_spec by assumption.
    unfold fmul2. apply idft2_ext. intros k1 k2 Hk1 Hk2.
    rewrite !memo2_spec by assumption. f_equal.
    apply dft2_ext. intros. apply memo2_spec; assumption.
  Qed.
End DFT2.

Arguments sum2_ext {R rO rI radd rmul rsub ropp} Rth {conj} Cok {N1 w1 Ninv1 N2 w2 Ninv2} Rok1 Rok2.
Arguments sum2_zero {R rO rI radd rmul rsub ropp} Rth {conj} Cok {N1 w1 Ninv1 N2 w2 Ninv2} Rok1 Rok2.
Arguments sum2_add {R rO rI radd rmul rsub ropp} Rth {conj} Cok {N1 w1 Ninv1 N2 w2 Ninv2} Rok1 Rok2.
Arguments sum2_sub {R rO rI radd rmul rsub ropp} Rth {conj} Cok {N1 w1 Ninv1 N2 w2 Ninv2} Rok1 Rok2.
Arguments sum2_scale_l {R rO rI radd rmul rsub ropp} Rth {conj} Cok {N1 w1 Ninv1 N2 w2 Ninv2} Rok1 Rok2.
Arguments sum2_scale_r {R rO rI radd rmul rsub ropp} Rth {conj} Cok {N1 w1 Ninv1 N2 w2 Ninv2} Rok1 Rok2.
Arguments sum2_swap {R rO rI radd rmul rsub ropp} Rth {conj} Cok {N1 w1 Ninv1 N2 w2 Ninv2} Rok1 Rok2.
Arguments dft2_ext {R rO rI radd rmul rsub ropp} Rth {conj} Cok {N1 w1 Ninv1 N2 w2 Ninv2} Rok1 Rok2.
Arguments idft2_ext {R rO rI radd rmul rsub ropp} Rth {conj} Cok {N1 w1 Ninv1 N2 w2 Ninv2} Rok1 Rok2.
Arguments fmul2_ext {R rO rI radd rmul rsub ropp} Rth {conj} Cok {N1 w1 Ninv1 N2 w2 Ninv2} Rok1 Rok2.
Arguments dft2_sum2 {R rO rI radd rmul rsub ropp} Rth {conj} Cok {N1 w1 Ninv1 N2 w2 Ninv2} Rok1 Rok2.
Arguments idft2_sum2 {R rO rI radd rmul rsub ropp} Rth {conj} Cok {N1 w1 Ninv1 N2 w2 Ninv2} Rok1 Rok2.
Arguments dft2_swap {R rO rI radd rmul rsub ropp} Rth {conj} Cok {N1 w1 Ninv1 N2 w2 Ninv2} Rok1 Rok2.
Arguments idft2_swap {R rO rI radd rmul rsub ropp} Rth {conj} Cok {N1 w1 Ninv1 N2 w2 Ninv2} Rok1 Rok2.
Arguments idft2_dft2 {R rO rI radd rmul rsub ropp} Rth {conj} Cok {N1 w1 Ninv1 N2 w2 Ninv2} Rok1 Rok2.
Arguments dft2_idft2 {R rO rI radd rmul rsub ropp} Rth {conj} Cok {N1 w1 Ninv1 N2 w2 Ninv2} Rok1 Rok2.
Arguments dft2_linear {R rO rI radd rmul rsub ropp} Rth {conj} Cok {N1 w1 Ninv1 N2 w2 Ninv2} Rok1 Rok2.
Arguments idft2_linear {R rO rI radd rmul rsub ropp} Rth {conj} Cok {N1 w1 Ninv1 N2 w2 Ninv2} Rok1 Rok2.
Arguments dft2_scale_l {R rO rI radd rmul rsub ropp} Rth {conj} Cok {N1 w1 Ninv1 N2 w2 Ninv2} Rok1 Rok2.
Arguments idft2_scale_l {R rO rI radd rmul rsub ropp} Rth {conj} Cok {N1 w1 Ninv1 N2 w2 Ninv2} Rok1 Rok2.
Arguments dft2_dc {R rO rI radd rmul rsub ropp} Rth {conj} Cok {N1 w1 Ninv1 N2 w2 Ninv2} Rok1 Rok2.
Arguments roll2_as_roll {R rO rI radd rmul rsub ropp} Rth {conj} Cok {N1 w1 Ninv1 N2 w2 Ninv2} Rok1 Rok2.
Arguments roll2_0 {R rO rI radd rmul rsub ropp} Rth {conj} Cok {N1 w1 Ninv1 N2 w2 Ninv2} Rok1 Rok2.
Arguments roll2_roll2 {R rO rI radd rmul rsub ropp} Rth {conj} Cok {N1 w1 Ninv1 N2 w2 Ninv2} Rok1 Rok2.
Arguments sum2_roll2 {R rO rI radd rmul rsub ropp} Rth {conj} Cok {N1 w1 Ninv1 N2 w2 Ninv2} Rok1 Rok2.
Arguments energy2_roll2 {R rO rI radd rmul rsub ropp} Rth {conj} Cok {N1 w1 Ninv1 N2 w2 Ninv2} Rok1 Rok2.
Arguments dft2_roll2 {R rO rI radd rmul rsub ropp} Rth {conj} Cok {N1 w1 Ninv1 N2 w2 Ninv2} Rok1 Rok2.
Arguments fmul2_compose {R rO rI radd rmul rsub ropp} Rth {conj} Cok {N1 w1 Ninv1 N2 w2 Ninv2} Rok1 Rok2.
Arguments fmul2_one {R rO rI radd rmul rsub ropp} Rth {conj} Cok {N1 w1 Ninv1 N2 w2 Ninv2} Rok1 Rok2.
Arguments fmul2_ramp_is_roll2 {R rO rI radd rmul rsub ropp} Rth {conj} Cok {N1 w1 Ninv1 N2 w2 Ninv2} Rok1 Rok2.
Arguments fmul2_linear {R rO rI radd rmul rsub ropp} Rth {conj} Cok {N1 w1 Ninv1 N2 w2 Ninv2} Rok1 Rok2.
Arguments parseval2 {R rO rI radd rmul rsub ropp} Rth {conj} Cok {N1 w1 Ninv1 N2 w2 Ninv2} Rok1 Rok2.
Arguments parseval2_energy {R rO rI radd rmul rsub ropp} Rth {conj} Cok {N1 w1 Ninv1 N2 w2 Ninv2} Rok1 Rok2.
Arguments NN_inv {R rO rI radd rmul rsub ropp} Rth {conj} Cok {N1 w1 Ninv1 N2 w2 Ninv2} Rok1 Rok2.
Arguments NN_cancel {R rO rI radd rmul rsub ropp} Rth {conj} Cok {N1 w1 Ninv1 N2 w2 Ninv2} Rok1 Rok2.
Arguments fmul2_unit_energy {R rO rI radd rmul rsub ropp} Rth {conj} Cok {N1 w1 Ninv1 N2 w2 Ninv2} Rok1 Rok2.
Arguments fmul2_unit_inverse {R rO rI radd rmul rsub ropp} Rth {conj} Cok {N1 w1 Ninv1 N2 w2 Ninv2} Rok1 Rok2.
Arguments fmul2_dc {R rO rI radd rmul rsub ropp} Rth {conj} Cok {N1 w1 Ninv1 N2 w2 Ninv2} Rok1 Rok2.
Arguments idft2_at00 {R rO rI radd rmul rsub ropp} Rth {conj} Cok {N1 w1 Ninv1 N2 w2 Ninv2} Rok1 Rok2.
Arguments fmul2_zero_dc {R rO rI radd rmul rsub ropp} Rth {conj} Cok {N1 w1 Ninv1 N2 w2 Ninv2} Rok1 Rok2.
Arguments xcorr2_theorem {R rO rI radd rmul rsub ropp} Rth {conj} Cok {N1 w1 Ninv1 N2 w2 Ninv2} Rok1 Rok2.
Arguments xcorr2_of_roll {R rO rI radd rmul rsub ropp} Rth {conj} Cok {N1 w1 Ninv1 N2 w2 Ninv2} Rok1 Rok2.
Arguments ifftshift2_fftshift2 {R rO rI radd rmul rsub ropp} Rth {conj} Cok {N1 w1 Ninv1 N2 w2 Ninv2} Rok1 Rok2.
Arguments fftshift2_ifftshift2 {R rO rI radd rmul rsub ropp} Rth {conj} Cok {N1 w1 Ninv1 N2 w2 Ninv2} Rok1 Rok2.
Arguments sum2_fftshift2 {R rO rI radd rmul rsub ropp} Rth {conj} Cok {N1 w1 Ninv1 N2 w2 Ninv2} Rok1 Rok2.
Arguments sum2_ifftshift2 {R rO rI radd rmul rsub ropp} Rth {conj} Cok {N1 w1 Ninv1 N2 w2 Ninv2} Rok1 Rok2.
Arguments dft2_m_eq {R rO rI radd rmul rsub ropp} Rth {conj} Cok {N1 w1 Ninv1 N2 w2 Ninv2} Rok1 Rok2.
Arguments idft2_m_eq {R rO rI radd rmul rsub ropp} Rth {conj} Cok {N1 w1 Ninv1 N2 w2 Ninv2} Rok1 Rok2.
Arguments fmul2_m_eq {R rO rI radd rmul rsub ropp} Rth {conj} Cok {N1 w1 Ninv1 N2 w2 Ninv2} Rok1 Rok2.
Arguments sum2 {R} rO radd N1 N2 f.
Arguments dft2 {R} rO radd rmul N1 w1 N2 w2 x k1 k2.
Arguments idft2 {R} rO radd rmul N1 w1 Ninv1 N2 w2 Ninv2 X n1 n2.
Arguments roll2 {R} N1 N2 s1 s2 x n1 n2.
Arguments fmul2 {R} rO radd rmul N1 w1 Ninv1 N2 w2 Ninv2 h x _ _.
Arguments energy2 {R} rO radd rmul conj N1 N2 x.
Arguments dc_mask2 {R} rO rI k1 k2.
Arguments fftshift2 {R} N1 N2 x _ _.
Arguments ifftshift2 {R} N1 N2 x _ _.
Arguments dft2_m {R} rO radd rmul N1 w1 N2 w2 x _ _.
Arguments idft2_m {R} rO radd rmul N1 w1 Ninv1 N2 w2 Ninv2 X _ _.
Arguments fmul2_m {R} rO radd rmul N1 w1 Ninv1 N2 w2 Ninv2 h x _ _.
