(* C12 — tactics and small lemmas shared by the fixed proof scripts over the generated file
   (stdlib Reals only; nothing here depends on the translated code):
     trig_norm      pushes sums / differences / negations / integer multiples through cos and sin,
                    so that cos(m·phi), cos(m·phi_nm) ... become atoms for `ring` / `field`
     atan2_*        the value of atan2 in each quadrant (used to evaluate atan2 with `interval`)
     rem_*          torch.remainder on one period
     lstsq_unique   two linearly independent rows determine a 2x2 matrix *)
From Coq Require Import Reals Lra Psatz Nsatz.
From QV.lib Require Import C12_RealLib.
Open Scope R_scope.

Ltac trig_step :=
  match goal with
  | |- context[cos (?k * (?a - ?b))] => replace (k * (a - b)) with (k * a - k * b) by ring
  | |- context[sin (?k * (?a - ?b))] => replace (k * (a - b)) with (k * a - k * b) by ring
  | |- context[cos (?k * (?a + ?b))] => replace (k * (a + b)) with (k * a + k * b) by ring
  | |- context[sin (?k * (?a + ?b))] => replace (k * (a + b)) with (k * a + k * b) by ring
  | |- context[cos ((?a - ?b) * ?k)] => replace ((a - b) * k) with (k * a - k * b) by ring
  | |- context[sin ((?a - ?b) * ?k)] => replace ((a - b) * k) with (k * a - k * b) by ring
  | |- context[cos ((?a + ?b) * ?k)] => replace ((a + b) * k) with (k * a + k * b) by ring
  | |- context[sin ((?a + ?b) * ?k)] => replace ((a + b) * k) with (k * a + k * b) by ring
  | |- context[cos (?k * - ?a)] => replace (k * - a) with (- (k * a)) by ring
  | |- context[sin (?k * - ?a)] => replace (k * - a) with (- (k * a)) by ring
  | |- context[cos (?a - ?b)] => rewrite (cos_minus a b)
  | |- context[sin (?a - ?b)] => rewrite (sin_minus a b)
  | |- context[cos (?a + ?b)] => rewrite (cos_plus a b)
  | |- context[sin (?a + ?b)] => rewrite (sin_plus a b)
  | |- context[cos (- ?a)] => rewrite (cos_neg a)
  | |- context[sin (- ?a)] => rewrite (sin_neg a)
  | |- context[cos (1 * ?a)] => rewrite (Rmult_1_l a)
  | |- context[sin (1 * ?a)] => rewrite (Rmult_1_l a)
  | |- context[cos (?a * 1)] => rewrite (Rmult_1_r a)
  | |- context[sin (?a * 1)] => rewrite (Rmult_1_r a)
  end.
Ltac trig_norm := repeat trig_step.

(* ------------------------------------------------------------------ atan2 by quadrant *)
Lemma atan2_xpos (y x : R) : 0 < x -> atan2 y x = atan (y / x).
Proof. intros H. unfold atan2. destruct (Rlt_dec 0 x); [reflexivity | lra]. Qed.

Lemma atan2_xneg_ynonneg (y x : R) : x < 0 -> 0 <= y -> atan2 y x = atan (y / x) + PI.
Proof.
  intros Hx Hy. unfold atan2. destruct (Rlt_dec 0 x); [lra |]. destruct (Rlt_dec x 0); [| lra].
  destruct (Rle_dec 0 y); [reflexivity | lra].
Qed.

Lemma atan2_xneg_yneg (y x : R) : x < 0 -> y < 0 -> atan2 y x = atan (y / x) - PI.
Proof.
  intros Hx Hy. unfold atan2. destruct (Rlt_dec 0 x); [lra |]. destruct (Rlt_dec x 0); [| lra].
  destruct (Rle_dec 0 y); [lra | reflexivity].
Qed.

Lemma atan2_x0_ypos (y x : R) : x = 0 -> 0 < y -> atan2 y x = PI / 2.
Proof.
  intros Hx Hy. unfold atan2. destruct (Rlt_dec 0 x); [lra |]. destruct (Rlt_dec x 0); [lra |].
  destruct (Rlt_dec 0 y); [reflexivity | lra].
Qed.

Lemma atan2_x0_yneg (y x : R) : x = 0 -> y < 0 -> atan2 y x = - (PI / 2).
Proof.
  intros Hx Hy. unfold atan2. destruct (Rlt_dec 0 x); [lra |]. destruct (Rlt_dec x 0); [lra |].
  destruct (Rlt_dec 0 y); [lra |]. destruct (Rlt_dec y 0); [reflexivity | lra].
Qed.

Lemma atan2_00 (y x : R) : x = 0 -> y = 0 -> atan2 y x = 0.
Proof.
  intros Hx Hy. unfold atan2. destruct (Rlt_dec 0 x); [lra |]. destruct (Rlt_dec x 0); [lra |].
  destruct (Rlt_dec 0 y); [lra |]. destruct (Rlt_dec y 0); [lra | reflexivity].
Qed.

(* atan2 of a point on the circle, every representative of the angle in (-PI, PI] *)
Lemma atan2_sin_cos_neg (t : R) : - PI <= t < PI -> atan2 (- sin t) (cos t) = - t.
Proof.
  intros H. rewrite <- sin_neg, <- cos_neg. apply atan2_sin_cos. lra.
Qed.

(* the point opposite to angle -t : (-cos t, sin t) *)
Lemma atan2_opposite_nonneg (t : R) : 0 <= t < PI -> atan2 (sin t) (- cos t) = PI - t.
Proof.
  intros H. rewrite <- (atan2_sin_cos (PI - t)) at 1 by lra.
  unfold Rminus. rewrite sin_plus, cos_plus, sin_neg, cos_neg, sin_PI, cos_PI. f_equal; ring.
Qed.

Lemma atan2_opposite_neg (t : R) : - PI < t < 0 -> atan2 (sin t) (- cos t) = - PI - t.
Proof.
  intros H. rewrite <- (atan2_sin_cos (- PI - t)) at 1 by lra.
  unfold Rminus. rewrite sin_plus, cos_plus, !sin_neg, !cos_neg, sin_PI, cos_PI. f_equal; ring.
Qed.

(* ------------------------------------------------------------------ least squares contract *)
(* two linearly independent rows b1, b2: the 2x2 matrix M with b_i · M = s_i is unique *)
Lemma lstsq_unique (x1 y1 x2 y2 : R) (M N : mat2) :
  x1 * y2 - x2 * y1 <> 0 ->
  x1 * m00 M + y1 * m10 M = x1 * m00 N + y1 * m10 N ->
  x1 * m01 M + y1 * m11 M = x1 * m01 N + y1 * m11 N ->
  x2 * m00 M + y2 * m10 M = x2 * m00 N + y2 * m10 N ->
  x2 * m01 M + y2 * m11 M = x2 * m01 N + y2 * m11 N ->
  M = N.
Proof.
  destruct M as [a b c d], N as [a' b' c' d']; simpl. intros D E1 E2 E3 E4.
  apply mat2_eq; simpl; apply (Rmult_eq_reg_l (x1 * y2 - x2 * y1)); try exact D; nsatz.
Qed.

(* |t| < PI/2 as a statement about Rabs *)
Lemma two_abs_le_PI (t : R) : - (PI / 2) < t < PI / 2 -> ~ PI < 2 * Rabs t.
Proof. intros [H1 H2] H. unfold Rabs in H. destruct (Rcase_abs t); lra. Qed.

Lemma two_abs_gt_PI (t : R) : (PI / 2 < t \/ t < - (PI / 2)) -> PI < 2 * Rabs t.
Proof. intros [H | H]; unfold Rabs; destruct (Rcase_abs t); lra. Qed.
