(* C20 — target vocabulary of harness/translate_norm.py: the real-number reading of the NumPy
   ufuncs that have no direct Coq operator.  (`+ - * /`, ln, exp, sqrt, arcsinh, sinh, Rmax,
   Rmin, Rabs are emitted directly.)  Definitions only.

   Reading of the ufuncs over R is faithful on the domains the stretches use them on:
   np.log on positive arguments, np.power on a base in [0, 1] with a positive exponent
   (NumPy: 0 ** p = 0 for p > 0, whereas Coq's Rpower 0 p = exp (p * ln 0) = 1), division by
   non-zero constants.  The translator's enclosure cross-test exercises exactly these. *)
From Coq Require Import Reals.
Local Open Scope R_scope.

(* np.clip(v, lo, hi) = np.minimum(np.maximum(v, lo), hi) *)
Definition np_clip (v lo hi : R) : R := Rmin (Rmax v lo) hi.

(* np.power(v, p) for v >= 0, p > 0 *)
Definition np_power (v p : R) : R := if Req_EM_T v 0 then 0 else Rpower v p.
