(* C15 — fixed meanings of the NumPy / SciPy / Python operations that occur in the geometry code the
   translator harness/c15_tie.py reads on every run (DriftCorrection.preprocess, DriftInterpolator.
   transform_rows / transform_coordinates, bilinear_kde, DriftCorrection.align_translation), used by the
   generated file build/C15/Gen_C15.v.  Everything is over exact rationals; the scan direction is the
   abstract pair (s, c).  These meanings are TRUSTED (listed in harness/c15_tie.py TRUSTED) and are
   cross-tested against the real functions on every run.  Definitions and the lemmas about them that do
   not depend on the generated file. *)
From QV.lib Require Import Prelude Chunks.
From QV.model Require Import C15_Model.
From Coq Require Import QArith Qround Qfield Lqa.
Local Open Scope Q_scope.

(* np.round(x): half to even, as a (float) value *)
Definition np_round (q : Q) : Q := inject_Z (round_half_even q).
(* int(x): truncation towards zero *)
Definition py_int (q : Q) : Z := if Qle_bool 0 q then Qfloor q else Qceiling q.
(* np.floor(x).astype(int) *)
Definition np_floor_int (q : Q) : Z := Qfloor q.
(* np.linspace(a, b, n)[i]  (endpoint=True; the last sample is `stop` itself) *)
Definition np_linspace (a b : Q) (n i : nat) : Q := linspace a b n i.
(* np.ravel_multi_index([i, j], dims=(rows, cols), mode="wrap") *)
Definition ravel_wrap (rows cols i j : Z) : Z := ((i mod rows) * cols + (j mod cols))%Z.
(* np.bincount(inds, weights=ws, minlength=_)[k] *)
Definition bincount (inds : list Z) (ws : list Q) (k : Z) : Q :=
  qsum (map snd (filter (fun iw => Z.eqb (fst iw) k) (combine inds ws))).

(* scipy.interpolate.interp1d(nodes, vals, kind=...)(x) for n nodes — ONLY the readings the oracle contract
   covers: "linear" through two points (slope * (x - x_lo) + y_lo), "quadratic" through exactly three and
   "cubic" through exactly four points (one polynomial piece = the interpolating polynomial).  Every other
   combination is outside the contract: None (scipy raises for fewer points, and builds a genuine spline
   for more). *)
Inductive ikind := KLinear | KQuadratic | KCubic.
Definition interp1d (kd : ikind) (nodes vals : nat -> Q) (n : nat) (x : Q) : option Q :=
  match kd, n with
  | KLinear, 2%nat =>
      Some ((vals 1%nat - vals 0%nat) / (nodes 1%nat - nodes 0%nat) * (x - nodes 0%nat) + vals 0%nat)
  | KQuadratic, 3%nat => Some (lagrange nodes vals 3 x)
  | KCubic, 4%nat => Some (lagrange nodes vals 4 x)
  | _, _ => None
  end.
Definition opt_pair (a b : option Q) : option vec :=
  match a, b with Some x, Some y => Some (x, y) | _, _ => None end.

(* np.linalg.norm(v) < t over the reals, without the square root *)
Definition norm_lt (v : vec) (t : Q) : bool :=
  (Qltb 0 t && Qltb (fst v * fst v + snd v * snd v) (t * t))%bool.
(* np.mean(a, axis=0) of an (n, 2) array *)
Definition np_mean0 (n : nat) (a : nat -> vec) : vec :=
  ( qsum (map (fun i => fst (a i)) (seq 0 n)) / qn n,
    qsum (map (fun i => snd (a i)) (seq 0 n)) / qn n ).

(* the accumulation loop of bilinear_kde:
     for batch in batches: for (ox, oy, weights) in taps:
         acc += np.bincount(ravel_multi_index([xF + ox, yF + oy]), weights=weights)
   `index ox oy p` = the flat index of sample p for the offset, `snd t p` = its weight *)
Definition kde_accumulate (index : Z -> Z -> vec -> Z) (taps : list (Z * Z * (vec -> Q)))
           (batches : list (list vec)) (k : Z) : Q :=
  qsum (map (fun b => qsum (map (fun t => bincount (map (index (fst (fst t)) (snd (fst t))) b)
                                                    (map (snd t) b) k) taps)) batches).
(* generate_batches(N, max_batch=b) over the N samples: consecutive batches of at most b samples
   (max_batch_size None: one batch of all samples) *)
Definition kde_batches (mb : option nat) (pts : list vec) : list (list vec) :=
  chunks (match mb with Some b => b | None => length pts end) pts.

(* results of the tie: a translated function that may be outside the contract (None) against a model value *)
Definition veqv (a b : vec) : Prop := fst a == fst b /\ snd a == snd b.
Definition oveq (o : option vec) (v : vec) : Prop :=
  match o with Some w => veqv w v | None => False end.

(* ------------------------------------------------------------------ lemmas *)
Lemma Qcompare_comp' a a' b : a == a' -> (a ?= b) = (a' ?= b).
Proof. intros E. rewrite E. reflexivity. Qed.

Lemma round_half_even_comp q q' : q == q' -> round_half_even q = round_half_even q'.
Proof.
  intros E. unfold round_half_even.
  rewrite (Qfloor_comp q q' E).
  assert (E2 : q - inject_Z (Qfloor q') == q' - inject_Z (Qfloor q')) by (rewrite E; reflexivity).
  rewrite (Qcompare_comp' _ _ (1 # 2) E2). reflexivity.
Qed.

Lemma py_int_of_Z q z : q == inject_Z z -> py_int q = z.
Proof.
  intros E. unfold py_int.
  rewrite (Qfloor_comp _ _ E). unfold Qceiling.
  assert (E2 : - q == inject_Z (- z)) by (rewrite E, inject_Z_opp; reflexivity).
  rewrite (Qfloor_comp _ _ E2). rewrite !Qfloor_Z.
  destruct (Qle_bool 0 q); lia.
Qed.

(* int(np.round(a) * 2), in both orders of the product *)
Lemma py_int_round2 a b : a == b -> py_int (np_round a * 2) = (round_half_even b * 2)%Z.
Proof.
  intros E. apply py_int_of_Z. unfold np_round. rewrite (round_half_even_comp a b E).
  rewrite inject_Z_mult. reflexivity.
Qed.
Lemma py_int_round2' a b : a == b -> py_int (2 * np_round a) = (round_half_even b * 2)%Z.
Proof.
  intros E. apply py_int_of_Z. unfold np_round. rewrite (round_half_even_comp a b E).
  rewrite inject_Z_mult. ring.
Qed.

Lemma linspace_comp a a' b b' n i : a == a' -> b == b' -> linspace a b n i == linspace a' b' n i.
Proof.
  intros Ea Eb. unfold linspace. destruct n as [|[|d]]; [reflexivity | exact Ea |].
  destruct (Nat.eqb i (S d)); [exact Eb|]. rewrite Ea, Eb. reflexivity.
Qed.

(* the centred linspace the model writes as linspace (- half_extent m) (half_extent m) *)
Lemma np_linspace_centred a b m n i :
  a == - half_extent m -> b == half_extent m ->
  np_linspace a b n i == linspace (- half_extent m) (half_extent m) n i.
Proof. intros Ea Eb. unfold np_linspace. apply linspace_comp; assumption. Qed.

Lemma np_linspace_unit a b n i : a == 0 -> b == 1 -> np_linspace a b n i == linspace 0 1 n i.
Proof. intros Ea Eb. unfold np_linspace. apply linspace_comp; assumption. Qed.

Lemma ravel_wrap_flat rows cols i j i' j' :
  i = i' -> j = j' -> ravel_wrap rows cols i j = flat_index rows cols i' j'.
Proof. intros -> ->. reflexivity. Qed.

Lemma qsum_cons' x l : qsum (x :: l) = x + qsum l.
Proof. reflexivity. Qed.

Lemma qsum_app' a b : qsum (a ++ b) == qsum a + qsum b.
Proof.
  induction a as [|x a IH]; cbn [app]; [cbn; ring|].
  rewrite !qsum_cons', IH. ring.
Qed.

Lemma cell_weight_nil k : cell_weight [] k = 0.
Proof. reflexivity. Qed.

Lemma cell_weight_cons' iw cs k :
  cell_weight (iw :: cs) k == (if Z.eqb (fst iw) k then snd iw else 0) + cell_weight cs k.
Proof.
  unfold cell_weight. cbn [filter]. destruct (Z.eqb (fst iw) k); cbn [map]; [rewrite qsum_cons'; reflexivity | ring].
Qed.

Lemma cell_weight_app' cs cs' k : cell_weight (cs ++ cs') k == cell_weight cs k + cell_weight cs' k.
Proof.
  induction cs as [|iw cs IH]; cbn [app]; [rewrite cell_weight_nil; ring|].
  rewrite !cell_weight_cons', IH. ring.
Qed.

Lemma bincount_cons i inds w ws k :
  bincount (i :: inds) (w :: ws) k == (if Z.eqb i k then w else 0) + bincount inds ws k.
Proof.
  unfold bincount. cbn [combine filter fst]. destruct (Z.eqb i k); cbn [map snd]; [rewrite qsum_cons'; reflexivity | ring].
Qed.

Lemma qsum_map_plus' {A} (f g : A -> Q) l :
  qsum (map (fun x => f x + g x) l) == qsum (map f l) + qsum (map g l).
Proof.
  induction l as [|x l IH]; cbn [map]; [cbn; ring|]. rewrite !qsum_cons', IH. ring.
Qed.

Lemma qsum_map_ext' {A} (f g : A -> Q) l :
  (forall x, In x l -> f x == g x) -> qsum (map f l) == qsum (map g l).
Proof.
  induction l as [|x l IH]; intros Hfg; cbn [map]; [reflexivity|].
  rewrite !qsum_cons', (Hfg x (or_introl eq_refl)), IH; [reflexivity|].
  intros y Hy. apply Hfg. right. exact Hy.
Qed.

Lemma qsum_map_zero' {A} (l : list A) : qsum (map (fun _ => 0) l) == 0.
Proof. induction l as [|x l IH]; cbn [map]; [reflexivity|]. rewrite qsum_cons', IH. ring. Qed.

(* one batch: summing the bincounts tap by tap = the cell weight of the sample-by-sample contributions *)
Lemma accumulate_batch (index : Z -> Z -> vec -> Z) (taps : list (Z * Z * (vec -> Q))) (b : list vec) k :
  qsum (map (fun t => bincount (map (index (fst (fst t)) (snd (fst t))) b) (map (snd t) b) k) taps)
  == cell_weight (flat_map (fun p => map (fun t => (index (fst (fst t)) (snd (fst t)) p, snd t p)) taps) b) k.
Proof.
  induction b as [|p b IH].
  - cbn [map flat_map]. rewrite cell_weight_nil. apply qsum_map_zero'.
  - cbn [flat_map]. rewrite cell_weight_app', <- IH.
    rewrite (qsum_map_ext' _ (fun t => (if Z.eqb (index (fst (fst t)) (snd (fst t)) p) k then snd t p else 0)
                                    + bincount (map (index (fst (fst t)) (snd (fst t))) b) (map (snd t) b) k)).
    2:{ intros t _. cbn [map]. apply bincount_cons. }
    rewrite qsum_map_plus'. apply Qplus_comp; [|reflexivity].
    clear IH. induction taps as [|t taps IHt]; cbn [map]; [rewrite cell_weight_nil; reflexivity|].
    rewrite qsum_cons', cell_weight_cons', IHt. reflexivity.
Qed.

Lemma kde_accumulate_contributions index taps batches k :
  kde_accumulate index taps batches k
  == qsum (map (fun b => cell_weight
        (flat_map (fun p => map (fun t => (index (fst (fst t)) (snd (fst t)) p, snd t p)) taps) b) k) batches).
Proof.
  unfold kde_accumulate. apply qsum_map_ext'. intros b _. apply accumulate_batch.
Qed.

(* contribution lists that agree entry by entry (same cell, equal weight) have the same cell weights *)
Definition centry_eq (a b : Z * Q) : Prop := fst a = fst b /\ snd a == snd b.

Lemma cell_weight_Forall2 cs cs' k : Forall2 centry_eq cs cs' -> cell_weight cs k == cell_weight cs' k.
Proof.
  induction 1 as [|a b cs cs' [Ei Ew] _ IH]; [reflexivity|].
  rewrite !cell_weight_cons', IH, Ei. destruct (Z.eqb (fst b) k); [rewrite Ew|]; reflexivity.
Qed.

Lemma Forall2_flat_map {A} (f g : A -> list (Z * Q)) l :
  (forall p, Forall2 centry_eq (f p) (g p)) -> Forall2 centry_eq (flat_map f l) (flat_map g l).
Proof.
  intros Hfg. induction l as [|p l IH]; cbn [flat_map]; [constructor|].
  apply Forall2_app; [apply Hfg | exact IH].
Qed.
