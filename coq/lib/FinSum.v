(* Finite sums  sumn n f = f 0 + ... + f (n-1)  over an abstract commutative ring.
   Stdlib only; everything is "Closed under the global context". *)
From Coq Require Import ZArith List Lia Ring Arith.
Import ListNotations.

Section FinSum.
  Variable R : Type.
  Variables (rO rI : R) (radd rmul rsub : R -> R -> R) (ropp : R -> R).
  Variable Rth : ring_theory rO rI radd rmul rsub ropp (@eq R).
  Add Ring Rring : Rth.
  Set Default Proof Using "All".

  Notation "0" := rO.  Notation "1" := rI.
  Infix "+" := radd.   Infix "*" := rmul.  Infix "-" := rsub.  Notation "- x" := (ropp x).

  Fixpoint sumn (n : nat) (f : nat -> R) : R :=
    match n with
    | O => 0
    | S k => sumn k f + f k
    end.

  Lemma sumn_ext n f g : (forall i, (i < n)%nat -> f i = g i) -> sumn n f = sumn n g.
  Proof.
    induction n as [|n IH]; intros H; cbn [sumn]; [reflexivity|].
    rewrite IH by (intros; apply H; lia). rewrite H by lia. reflexivity.
  Qed.

  Lemma sumn_zero n : sumn n (fun _ => 0) = 0.
  Proof. induction n as [|n IH]; cbn [sumn]; [reflexivity | rewrite IH; ring]. Qed.

  Lemma sumn_add n f g : sumn n (fun i => f i + g i) = sumn n f + sumn n g.
  Proof. induction n as [|n IH]; cbn [sumn]; [ring | rewrite IH; ring]. Qed.

  Lemma sumn_sub n f g : sumn n (fun i => f i - g i) = sumn n f - sumn n g.
  Proof. induction n as [|n IH]; cbn [sumn]; [ring | rewrite IH; ring]. Qed.

  Lemma sumn_opp n f : sumn n (fun i => - f i) = - sumn n f.
  Proof. induction n as [|n IH]; cbn [sumn]; [ring | rewrite IH; ring]. Qed.

  Lemma sumn_scale_l n c f : sumn n (fun i => c * f i) = c * sumn n f.
  Proof. induction n as [|n IH]; cbn [sumn]; [ring | rewrite IH; ring]. Qed.

  Lemma sumn_scale_r n c f : sumn n (fun i => f i * c) = sumn n f * c.
  Proof. induction n as [|n IH]; cbn [sumn]; [ring | rewrite IH; ring]. Qed.

  Lemma sumn_swap n m (f : nat -> nat -> R) :
    sumn n (fun i => sumn m (fun j => f i j)) = sumn m (fun j => sumn n (fun i => f i j)).
  Proof.
    induction n as [|n IH]; cbn [sumn].
    - rewrite sumn_zero. reflexivity.
    - rewrite IH. rewrite <- sumn_add. reflexivity.
  Qed.

  (* only one index contributes *)
  Lemma sumn_single n f j :
    (j < n)%nat -> (forall i, (i < n)%nat -> i <> j -> f i = 0) -> sumn n f = f j.
  Proof.
    induction n as [|n IH]; intros Hj Hz; [lia|]. cbn [sumn].
    destruct (Nat.eq_dec j n) as [->|Hne].
    - rewrite (sumn_ext n f (fun _ => 0)) by (intros; apply Hz; lia). rewrite sumn_zero. ring.
    - rewrite IH by (try lia; intros; apply Hz; lia). rewrite (Hz n) by lia. ring.
  Qed.

  Lemma sumn_split n m f : sumn (n + m) f = sumn n f + sumn m (fun i => f (n + i)%nat).
  Proof.
    induction m as [|m IH]; cbn [sumn].
    - rewrite Nat.add_0_r. ring.
    - rewrite Nat.add_succ_r. cbn [sumn]. rewrite IH. ring.
  Qed.

  (* reindexing by a cyclic shift: sum over i<n of f ((i + s) mod n) = sum f *)
  Lemma sumn_succ_head n f : sumn n (fun i => f (S i)) + f 0%nat = sumn n f + f n.
  Proof.
    induction n as [|n IH]; cbn [sumn]; [ring|].
    rewrite <- IH. ring.
  Qed.

  Lemma sumn_shift1 n f : (0 < n)%nat ->
    sumn n (fun i => f ((i + 1) mod n)%nat) = sumn n f.
  Proof.
    intros Hn. destruct n as [|n]; [lia|].
    cbn [sumn].
    rewrite (sumn_ext n (fun i => f ((i + 1) mod S n)%nat) (fun i => f (S i))).
    2:{ intros i Hi. rewrite Nat.mod_small by lia. f_equal. lia. }
    replace ((n + 1) mod S n)%nat with 0%nat.
    2:{ replace (n + 1)%nat with (S n) by lia. rewrite Nat.mod_same by lia. reflexivity. }
    apply sumn_succ_head.
  Qed.

  Lemma sumn_shift n f s : (0 < n)%nat ->
    sumn n (fun i => f ((i + s) mod n)%nat) = sumn n f.
  Proof.
    intros Hn. induction s as [|s IH].
    - apply sumn_ext. intros i Hi. rewrite Nat.add_0_r, Nat.mod_small by lia. reflexivity.
    - rewrite <- IH.
      rewrite <- (sumn_shift1 n (fun i => f ((i + s) mod n)%nat) Hn).
      apply sumn_ext. intros i Hi.
      f_equal. rewrite Nat.add_mod_idemp_l by lia. f_equal. lia.
  Qed.

  (* sum of a constant *)
  Fixpoint of_nat (n : nat) : R := match n with O => 0 | S k => of_nat k + 1 end.

  Lemma sumn_const n c : sumn n (fun _ => c) = of_nat n * c.
  Proof. induction n as [|n IH]; cbn [sumn of_nat]; [ring | rewrite IH; ring]. Qed.

  (* sum over a list *)
  Fixpoint suml (l : list R) : R := match l with [] => 0 | x :: r => x + suml r end.

  Lemma suml_app a b : suml (a ++ b) = suml a + suml b.
  Proof. induction a as [|x a IH]; cbn [app suml]; [ring | rewrite IH; ring]. Qed.

  Lemma suml_concat ll : suml (concat ll) = suml (map suml ll).
  Proof. induction ll as [|l ll IH]; cbn [concat map suml]; [reflexivity|]. rewrite suml_app, IH. reflexivity. Qed.

  Lemma suml_map_add (A : Type) (f g : A -> R) l :
    suml (map (fun x => f x + g x) l) = suml (map f l) + suml (map g l).
  Proof. induction l as [|x l IH]; cbn [map suml]; [ring | rewrite IH; ring]. Qed.

  Lemma suml_map_scale (A : Type) c (f : A -> R) l :
    suml (map (fun x => c * f x) l) = c * suml (map f l).
  Proof. induction l as [|x l IH]; cbn [map suml]; [ring | rewrite IH; ring]. Qed.

  Lemma sumn_suml n f : sumn n f = suml (map f (seq 0 n)).
  Proof.
    induction n as [|n IH]; cbn [sumn]; [reflexivity|].
    rewrite seq_S, map_app, suml_app, <- IH. cbn. ring.
  Qed.
End FinSum.

Arguments sumn_ext {R rO rI radd rmul rsub ropp} Rth.
Arguments sumn_zero {R rO rI radd rmul rsub ropp} Rth.
Arguments sumn_add {R rO rI radd rmul rsub ropp} Rth.
Arguments sumn_sub {R rO rI radd rmul rsub ropp} Rth.
Arguments sumn_opp {R rO rI radd rmul rsub ropp} Rth.
Arguments sumn_scale_l {R rO rI radd rmul rsub ropp} Rth.
Arguments sumn_scale_r {R rO rI radd rmul rsub ropp} Rth.
Arguments sumn_swap {R rO rI radd rmul rsub ropp} Rth.
Arguments sumn_single {R rO rI radd rmul rsub ropp} Rth.
Arguments sumn_split {R rO rI radd rmul rsub ropp} Rth.
Arguments sumn_succ_head {R rO rI radd rmul rsub ropp} Rth.
Arguments sumn_shift1 {R rO rI radd rmul rsub ropp} Rth.
Arguments sumn_shift {R rO rI radd rmul rsub ropp} Rth.
Arguments sumn_const {R rO rI radd rmul rsub ropp} Rth.
Arguments suml_app {R rO rI radd rmul rsub ropp} Rth.
Arguments suml_concat {R rO rI radd rmul rsub ropp} Rth.
Arguments suml_map_add {R rO rI radd rmul rsub ropp} Rth.
Arguments suml_map_scale {R rO rI radd rmul rsub ropp} Rth.
Arguments sumn_suml {R rO rI radd rmul rsub ropp} Rth.
Arguments sumn {R} rO radd n f.
Arguments suml {R} rO radd l.
Arguments of_nat {R} rO rI radd n.
