(* Non-vacuity of the hypotheses of lib/DFT.v: the Gaussian rationals Q(i) (canonical
   rationals Qc, Leibniz equality) with N = 4 and w k = (-i)^k satisfy conj_ok and root_ok. *)
From Coq Require Import ZArith Lia Ring QArith Qcanon.
From QV.lib Require Import Prelude FinSum DFT.
Local Close Scope Q_scope.
Local Open Scope Qc_scope.

Definition C := (Qc * Qc)%type.
Definition c0 : C := (0, 0).
Definition c1 : C := (1, 0).
Definition cadd (a b : C) : C := (fst a + fst b, snd a + snd b).
Definition cmul (a b : C) : C := (fst a * fst b - snd a * snd b, fst a * snd b + snd a * fst b).
Definition copp (a : C) : C := (- fst a, - snd a).
Definition csub (a b : C) : C := cadd a (copp b).
Definition cconj (a : C) : C := (fst a, - snd a).

Lemma C_ring : ring_theory c0 c1 cadd cmul csub copp (@eq C).
Proof.
  constructor; intros; unfold c0, c1, cadd, cmul, csub, copp;
    repeat match goal with x : C |- _ => destruct x end; cbn [fst snd]; try (f_equal; ring); try reflexivity.
Qed.

Lemma C_conj_ok : conj_ok cadd cmul cconj.
Proof.
  constructor; intros; unfold cadd, cmul, cconj;
    repeat match goal with x : C |- _ => destruct x end; cbn [fst snd]; f_equal; ring.
Qed.

(* w k = (-i)^k, by the residue of k mod 4 *)
Definition w4 (k : Z) : C :=
  match (k mod 4)%Z with
  | 0%Z => (1, 0)
  | 1%Z => (0, - (1))
  | 2%Z => (- (1), 0)
  | _ => (0, 1)
  end.

Lemma mod4_cases (k : Z) : (k mod 4 = 0 \/ k mod 4 = 1 \/ k mod 4 = 2 \/ k mod 4 = 3)%Z.
Proof. pose proof (Z.mod_pos_bound k 4). lia. Qed.

Lemma w4_add a b : w4 (a + b) = cmul (w4 a) (w4 b).
Proof.
  unfold w4. rewrite (Zplus_mod a b 4).
  destruct (mod4_cases a) as [Ha|[Ha|[Ha|Ha]]], (mod4_cases b) as [Hb|[Hb|[Hb|Hb]]];
    rewrite Ha, Hb; cbn; unfold cmul; cbn [fst snd]; f_equal; ring.
Qed.

Lemma w4_conj a : cconj (w4 a) = w4 (- a).
Proof.
  unfold w4.
  assert (H : ((- a) mod 4 = (4 - a mod 4) mod 4)%Z).
  { lia. }
  rewrite H.
  destruct (mod4_cases a) as [Ha|[Ha|[Ha|Ha]]]; rewrite Ha; cbn; unfold cconj; cbn [fst snd]; f_equal; ring.
Qed.

Definition four : C := FinSum.of_nat c0 c1 cadd 4.

Lemma w4_orth d :
  sumn c0 cadd 4 (fun k => w4 (d * Z.of_nat k)) = if (d mod Z.of_nat 4 =? 0)%Z then four else c0.
Proof.
  cbn [sumn Z.of_nat Pos.of_succ_nat Pos.succ].
  unfold w4.
  rewrite !(Zmult_mod d _ 4).
  change (Z.of_nat 4) with 4%Z.
  destruct (mod4_cases d) as [Hd|[Hd|[Hd|Hd]]]; rewrite Hd; cbn; unfold cadd, c0, four; cbn;
    unfold cadd, c0, c1; cbn [fst snd]; f_equal; ring.
Qed.

Definition quarter : C := (Q2Qc (1 # 4), 0).

Theorem C_root_ok : root_ok c0 c1 cadd cmul cconj 4 w4 quarter.
Proof.
  constructor.
  - lia.
  - reflexivity.
  - apply w4_add.
  - reflexivity.
  - apply w4_conj.
  - apply w4_orth.
  - unfold quarter, cmul; cbn; unfold cadd, c0, c1; cbn [fst snd]. f_equal; apply Qc_is_canon; reflexivity.
Qed.

(* an instance of one library theorem, to show the whole chain is usable: *)
Example C_idft_dft_instance (x : nat -> C) (n : nat) : (n < 4)%nat ->
  idft c0 cadd cmul 4 w4 quarter (dft c0 cadd cmul 4 w4 x) n = x n.
Proof. apply (idft_dft C_ring C_conj_ok C_root_ok). Qed.
Print Assumptions C_idft_dft_instance.
