(* C18 — FIXED meanings the translator harness/translate_C18.py gives to the library calls of the
   centre-of-mass code (numpy / torch / quantem helpers) over the exact Q tensors of C18_QTensor,
   and the generic lemmas the fixed proof script coq/gen_proofs/C18_GenProofs.v uses.
   These meanings are the TRUSTED part of the tie (listed in translate_C18.TRUSTED). *)
From QV.lib Require Import Prelude Chunks C18_QTensor.
From QV.model Require Import C18_Model.
From Coq Require Import QArith Qround Lqa.
Local Close Scope Q_scope.

(* ------------------------------------------------------------------ coordinates *)
(* np.arange(n) / torch.arange(n) *)
Definition arange (n : nat) : list Q := map Qn (seq 0 n).

(* meshgrid(a, b, indexing="ij"): both outputs have shape (len a, len b); the first repeats a[i]
   along every row i, the second is b in every row *)
Definition meshgrid_ij (a b : list Q) : matrix * matrix :=
  (map (fun r => repeat r (length b)) a, repeat b (length a)).
(* indexing="xy" (numpy's default): shape (len b, len a) *)
Definition meshgrid_xy (a b : list Q) : matrix * matrix :=
  (repeat a (length b), map (fun c => repeat c (length a)) b).

Lemma meshgrid_ij_arange H W : meshgrid_ij (arange H) (arange W) = (mesh_r H W, mesh_c H W).
Proof.
  unfold meshgrid_ij, arange, mesh_r, mesh_c.
  rewrite !map_length, !seq_length, map_map. reflexivity.
Qed.

(* ------------------------------------------------------------------ batching *)
(* SimpleBatcher(n, batch_size=b, shuffle=False) with the default val_ratio = 0: train_indices =
   arange(n) (C09 glue tie), __iter__ yields train_order[i : i + b] for i in range(0, n, b) *)
Definition simple_batcher (n b : nat) : list (list nat) := chunks b (seq 0 n).

(* range(0, n, b) as the list of its start indices (fuel: at most n of them), l[i : j] *)
Fixpoint range_step_fuel (fuel i n b : nat) : list nat :=
  match fuel with
  | 0 => []
  | S f => if i <? n then i :: range_step_fuel f (i + b) n b else []
  end.
Definition range_step (n b : nat) : list nat := range_step_fuel n 0 n b.
Definition py_slice {A : Type} (i j : nat) (l : list A) : list A := firstn (j - i) (skipn i l).

Lemma skipn_add {A : Type} (b i : nat) (l : list A) : skipn b (skipn i l) = skipn (i + b) l.
Proof.
  revert l. induction i as [|i IH]; intros l; [reflexivity|].
  destruct l as [|x l]; [destruct b; reflexivity|]. cbn [skipn Nat.add]. apply IH.
Qed.

Lemma range_step_chunks_fuel {A : Type} (b : nat) : 1 <= b ->
  forall fuel i (l : list A), i <= length l -> length l - i <= fuel ->
    map (fun s => py_slice s (s + b) l) (range_step_fuel fuel i (length l) b)
    = chunks_fuel fuel b (skipn i l).
Proof.
  intros Hb. induction fuel as [|f IH]; intros i l Hi Hf; [reflexivity|].
  cbn [range_step_fuel chunks_fuel].
  destruct (Nat.ltb_spec i (length l)) as [Hlt|Hge].
  - assert (Hne : skipn i l <> []).
    { intros E. apply (f_equal (@length A)) in E. rewrite skipn_length in E. cbn in E. lia. }
    destruct (skipn i l) as [|x r] eqn:E; [congruence|]. rewrite <- E.
    cbn [map]. f_equal.
    + unfold py_slice. f_equal. lia.
    + rewrite skipn_add.
      destruct (Nat.le_gt_cases (i + b) (length l)) as [Hle|Hgt].
      * apply IH; lia.
      * (* past the end: both sides are empty *)
        rewrite (skipn_all2 l) by lia.
        destruct f as [|f']; [reflexivity|]. cbn [range_step_fuel chunks_fuel].
        destruct (Nat.ltb_spec (i + b) (length l)); [lia | reflexivity].
  - rewrite (skipn_all2 l) by lia. reflexivity.
Qed.

(* the batches of __iter__ are the chunks of the C09 / C18 models *)
Lemma range_step_chunks {A : Type} (b : nat) (l : list A) : 1 <= b ->
  map (fun s => py_slice s (s + b) l) (range_step (length l) b) = chunks b l.
Proof.
  intros Hb. unfold range_step, chunks.
  rewrite (@range_step_chunks_fuel A b Hb (length l) 0 l) by lia. reflexivity.
Qed.

(* ------------------------------------------------------------------ loops over a scan *)
(* tqdmnd(range(Rn), range(Cn)) = tqdm(list(itertools.product(...))): row-major pairs *)
Definition product_range (Rn Cn : nat) : list (nat * nat) := list_prod (seq 0 Rn) (seq 0 Cn).
(* np.zeros((Rn, Cn)) *)
Definition zeros2 (Rn Cn : nat) : list (list Q) := repeat (repeat 0%Q Cn) Rn.
(* arr[r, c] = v *)
Definition upd2 {A : Type} (r c : nat) (v : A) (m : list (list A)) : list (list A) :=
  upd r (upd c v (nth r m [])) m.

Lemma upd_length {A : Type} i (v : A) l : length (upd i v l) = length l.
Proof. revert i. induction l as [|x l IH]; intros [|i]; cbn [upd length]; try reflexivity. rewrite IH. reflexivity. Qed.

Lemma nth_upd_same {A : Type} i (v d : A) l : i < length l -> nth i (upd i v l) d = v.
Proof. revert i. induction l as [|x l IH]; intros [|i] Hi; cbn in *; try lia; [reflexivity | apply IH; lia]. Qed.

Lemma upd_upd {A : Type} i (v w : A) l : upd i w (upd i v l) = upd i w l.
Proof. revert i. induction l as [|x l IH]; intros [|i]; cbn [upd]; try reflexivity. rewrite IH. reflexivity. Qed.

Lemma upd_nth_self {A : Type} i (d : A) l : upd i (nth i l d) l = l.
Proof. revert i. induction l as [|x l IH]; intros [|i]; cbn [upd nth]; try reflexivity. rewrite IH. reflexivity. Qed.

Lemma fold_upd_scatter {A : Type} (F : nat -> A) idx arr :
  fold_left (fun a i => upd i (F i) a) idx arr = scatter idx (map F idx) arr.
Proof. revert arr. induction idx as [|i idx IH]; intros arr; cbn [fold_left map scatter]; [reflexivity | apply IH]. Qed.

(* one row of the loop nest: every cell of row r is assigned *)
Lemma fold_upd2_row {A : Type} (g : nat -> A) (r : nat) (cs : list nat) (m : list (list A)) :
  r < length m ->
  fold_left (fun a c => upd2 r c (g c) a) cs m
  = upd r (fold_left (fun row c => upd c (g c) row) cs (nth r m [])) m.
Proof.
  revert m. induction cs as [|c cs IH]; intros m Hr; cbn [fold_left].
  - symmetry. apply upd_nth_self.
  - rewrite IH by (unfold upd2; rewrite upd_length; exact Hr).
    unfold upd2. rewrite nth_upd_same by exact Hr. rewrite upd_upd. reflexivity.
Qed.

Lemma fold_list_prod {S : Type} (F : S -> nat * nat -> S) (l1 l2 : list nat) (s : S) :
  fold_left F (list_prod l1 l2) s
  = fold_left (fun s r => fold_left (fun s c => F s (r, c)) l2 s) l1 s.
Proof.
  revert s. induction l1 as [|r l1 IH]; intros s; cbn [list_prod fold_left]; [reflexivity|].
  rewrite fold_left_app, IH. f_equal.
  clear. revert s. induction l2 as [|c l2 IH2]; intros s; cbn [map fold_left]; [reflexivity | apply IH2].
Qed.

(* the loop nest `for r, c in product(range(Rn), range(Cn)): arr[r, c] = f r c` on an array of
   shape (Rn, Cn) tabulates f: every cell is written, the initial content does not matter *)
Lemma fold_upd2_product (f : nat -> nat -> Q) (Rn Cn : nat) (z : Q) :
  fold_left (fun a rc => upd2 (fst rc) (snd rc) (f (fst rc) (snd rc)) a)
            (product_range Rn Cn) (repeat (repeat z Cn) Rn)
  = map (fun r => map (fun c => f r c) (seq 0 Cn)) (seq 0 Rn).
Proof.
  unfold product_range. rewrite fold_list_prod. cbn [fst snd].
  set (rowv := fun r => map (fun c => f r c) (seq 0 Cn)).
  assert (Hgen : forall m pre,
            fold_left (fun s r => fold_left (fun s c => upd2 r c (f r c) s) (seq 0 Cn) s)
                      (seq (length pre) m) (pre ++ repeat (repeat z Cn) m)
            = pre ++ map rowv (seq (length pre) m)).
  { induction m as [|m IH]; intros pre; [reflexivity|].
    cbn [seq fold_left repeat map].
    rewrite fold_upd2_row by (rewrite app_length; cbn; lia).
    rewrite app_nth2 by lia. rewrite Nat.sub_diag. cbn [nth].
    rewrite fold_upd_scatter.
    pose proof (scatter_seq (f (length pre)) (repeat z Cn)) as Hs. rewrite repeat_length in Hs.
    rewrite Hs, upd_app.
    change (pre ++ map (f (length pre)) (seq 0 Cn) :: repeat (repeat z Cn) m)
      with (pre ++ [rowv (length pre)] ++ repeat (repeat z Cn) m).
    rewrite app_assoc.
    replace (S (length pre)) with (length (pre ++ [rowv (length pre)])) by (rewrite app_length; cbn; lia).
    rewrite IH. rewrite <- app_assoc. reflexivity. }
  exact (Hgen Rn []).
Qed.

(* ------------------------------------------------------------------ elementwise products *)
Lemma Qmult_comm_eq (x y : Q) : (x * y)%Q = (y * x)%Q.
Proof. destruct x, y. unfold Qmult. cbn. f_equal; [apply Z.mul_comm | apply Pos.mul_comm]. Qed.

(* a * b and b * a are the same tensor (the translator orders the operands of a product) *)
Lemma mul2_comm (a b : matrix) : mul2 a b = mul2 b a.
Proof.
  revert b. induction a as [|x a IH]; intros [|y b]; cbn; try reflexivity.
  f_equal; [|apply IH]. clear. revert y. induction x as [|u x IH]; intros [|v y]; cbn; try reflexivity.
  f_equal; [apply Qmult_comm_eq | apply IH].
Qed.

(* ------------------------------------------------------------------ shift_origin_to *)
(* F.grid_sample(I[None, None], grid, mode="bilinear", padding_mode="zeros", align_corners=True)
   for one pattern: grid[y, x] = (gx, gy) in [-1, 1] (LAST axis: x = width first, then y);
   align_corners=True un-normalises with (g + 1) / 2 * (size - 1) *)
Definition grid_sample_bilinear_ac (H W : nat) (I : matrix) (g : nat -> nat -> Q * Q) : matrix :=
  map (fun y => map (fun x =>
         bilinear H W I ((snd (g y x) + 1) / 2 * (Qn H - 1))%Q ((fst (g y x) + 1) / 2 * (Qn W - 1))%Q)
       (seq 0 W)) (seq 0 H).

Lemma qmod_proper a a' n n' : (a == a')%Q -> (n == n')%Q -> (qmod a n == qmod a' n')%Q.
Proof.
  intros Ha Hn. unfold qmod.
  assert (E : Qfloor (a / n) = Qfloor (a' / n')) by (apply Qfloor_comp; rewrite Ha, Hn; reflexivity).
  rewrite E, Ha, Hn. reflexivity.
Qed.

Lemma bilinear_proper H W I gy gy' gx gx' :
  (gy == gy')%Q -> (gx == gx')%Q -> (bilinear H W I gy gx == bilinear H W I gy' gx')%Q.
Proof.
  intros Hy Hx. unfold bilinear.
  rewrite (Qfloor_comp _ _ Hy), (Qfloor_comp _ _ Hx), Hy, Hx. reflexivity.
Qed.

(* python max(size - 1, 1) on ints, then converted to a float *)
Lemma dn_gen (n : nat) : inject_Z (Z.max (Z.of_nat n - 1) 1) = dn n.
Proof. unfold dn, Qn. f_equal. lia. Qed.

(* ------------------------------------------------------------------ plane fit glue *)
(* torch.concatenate((positions, origins[:, k, None]), 1): rows (x, y, z) *)
Definition points_of (pos : list (Q * Q)) (z : list Q) : list P3 :=
  map2 (fun p z => mk3 (fst p) (snd p) z) pos z.
(* positions @ tensor([u, v]) for one row (x, y) *)
Definition row_matvec2 (x y u v : Q) : Q := (x * u + y * v)%Q.
