(* C10 helper library: the Gaussian rationals Q(i) on canonical rationals (Qc, Leibniz equality),
   vectors over Q(i) as lists, the Hermitian inner product, and the small amount of ordered-field
   reasoning on Qc that the Gram-Schmidt / weight proofs need.  Stdlib only.
   (The ring instance follows lib/DFT_Inst.v.) *)
From Coq Require Import ZArith List Lia Ring Field QArith Qcanon Lqa.
Import ListNotations.
Local Close Scope Q_scope.
Local Open Scope Qc_scope.

(* ------------------------------------------------------------------ Q(i) *)
Definition C := (Qc * Qc)%type.
Definition c0 : C := (0, 0).
Definition c1 : C := (1, 0).
Definition cadd (a b : C) : C := (fst a + fst b, snd a + snd b).
Definition cmul (a b : C) : C := (fst a * fst b - snd a * snd b, fst a * snd b + snd a * fst b).
Definition copp (a : C) : C := (- fst a, - snd a).
Definition csub (a b : C) : C := cadd a (copp b).
Definition cconj (a : C) : C := (fst a, - snd a).
Definition cnorm2 (a : C) : Qc := fst a * fst a + snd a * snd a.      (* |a|^2 *)
Definition cscale (r : Qc) (a : C) : C := (r * fst a, r * snd a).      (* real multiple *)
Definition creal (r : Qc) : C := (r, 0).

Lemma C_ring : ring_theory c0 c1 cadd cmul csub copp (@eq C).
Proof.
  constructor; intros; unfold c0, c1, cadd, cmul, csub, copp;
    repeat match goal with x : C |- _ => destruct x end; cbn [fst snd]; try (f_equal; ring); try reflexivity.
Qed.
Add Ring C_ring_inst : C_ring.

(* componentwise proof of an identity in Q(i) *)
Ltac cplx :=
  unfold csub, cscale, creal, cnorm2, cconj, cadd, cmul, copp, c0, c1 in *;
  repeat match goal with x : C |- _ => destruct x end; cbn [fst snd] in *;
  try (f_equal; ring).

Lemma cconj_add a b : cconj (cadd a b) = cadd (cconj a) (cconj b).
Proof. cplx. Qed.
Lemma cconj_mul a b : cconj (cmul a b) = cmul (cconj a) (cconj b).
Proof. cplx. Qed.
Lemma cconj_opp a : cconj (copp a) = copp (cconj a).
Proof. cplx. Qed.
Lemma cconj_invol a : cconj (cconj a) = a.
Proof. cplx. Qed.
Lemma cconj_c0 : cconj c0 = c0.
Proof. cplx. Qed.
Lemma cconj_cscale r a : cconj (cscale r a) = cscale r (cconj a).
Proof. cplx. Qed.
Lemma cmul_conj_self a : cmul (cconj a) a = creal (cnorm2 a).
Proof. cplx. Qed.
Lemma cscale_as_mul r a : cscale r a = cmul (creal r) a.
Proof. cplx. Qed.
Lemma cnorm2_c0 : cnorm2 c0 = 0.
Proof. cplx. Qed.
Lemma cnorm2_conj a : cnorm2 (cconj a) = cnorm2 a.
Proof. cplx. Qed.

(* ------------------------------------------------------------------ order on Qc via Q *)
Lemma Qc_this_add (a b : Qc) : (this (a + b) == this a + this b)%Q.
Proof. unfold Qcplus, Q2Qc; cbn [this]. apply Qred_correct. Qed.
Lemma Qc_this_mul (a b : Qc) : (this (a * b) == this a * this b)%Q.
Proof. unfold Qcmult, Q2Qc; cbn [this]. apply Qred_correct. Qed.
Lemma Qc_this_0 : (this 0 == 0)%Q.
Proof. reflexivity. Qed.

Lemma Qc_sqr_nonneg (a : Qc) : 0 <= a * a.
Proof.
  unfold Qcle. rewrite Qc_this_mul. change (this 0) with 0%Q. nra.
Qed.

Lemma Qc_add_nonneg (a b : Qc) : 0 <= a -> 0 <= b -> 0 <= a + b.
Proof.
  unfold Qcle. rewrite Qc_this_add. change (this 0) with 0%Q. lra.
Qed.

Lemma Qc_add_pos_nonneg (a b : Qc) : 0 < a -> 0 <= b -> 0 < a + b.
Proof.
  unfold Qcle, Qclt. rewrite Qc_this_add. change (this 0) with 0%Q. lra.
Qed.

Lemma Qc_add_eq0 (a b : Qc) : 0 <= a -> 0 <= b -> a + b = 0 -> a = 0 /\ b = 0.
Proof.
  intros Ha Hb H.
  assert (H' : (this (a + b) == 0)%Q) by (rewrite H; reflexivity).
  rewrite Qc_this_add in H'. unfold Qcle in *. change (this 0) with 0%Q in *.
  split; apply Qc_is_canon; change (this 0) with 0%Q; lra.
Qed.

Lemma Qc_sqr_eq0 (a : Qc) : a * a = 0 -> a = 0.
Proof.
  intros H. destruct (Qcmult_integral _ _ H); assumption.
Qed.

Lemma cnorm2_nonneg a : 0 <= cnorm2 a.
Proof. unfold cnorm2. apply Qc_add_nonneg; apply Qc_sqr_nonneg. Qed.

Lemma cnorm2_eq0 a : cnorm2 a = 0 -> a = c0.
Proof.
  unfold cnorm2. intros H. destruct a as [x y]; cbn [fst snd] in *.
  destruct (Qc_add_eq0 _ _ (Qc_sqr_nonneg x) (Qc_sqr_nonneg y) H) as [Hx Hy].
  apply Qc_sqr_eq0 in Hx. apply Qc_sqr_eq0 in Hy. subst. reflexivity.
Qed.

Lemma Qc_one_neq_0 : (1 : Qc) <> 0.
Proof. intro H. apply (f_equal this) in H. discriminate H. Qed.

Lemma c1_neq_c0 : c1 <> c0.
Proof. intro H. apply (f_equal fst) in H. exact (Qc_one_neq_0 H). Qed.

Lemma copp_c1_neq_c0 : copp c1 <> c0.
Proof.
  intro H. apply (f_equal fst) in H. cbn in H. apply (f_equal this) in H. discriminate H.
Qed.

(* ------------------------------------------------------------------ vectors over Q(i) *)
Notation vec := (list C) (only parsing).

Fixpoint vzip (f : C -> C -> C) (a b : vec) : vec :=
  match a, b with
  | x :: a', y :: b' => f x y :: vzip f a' b'
  | _, _ => []
  end.

Definition vadd := vzip cadd.
Definition vsub := vzip csub.
Definition vscale (c : C) (a : vec) : vec := map (cmul c) a.
Definition vzeros (n : nat) : vec := repeat c0 n.

(* <a, b> = sum conj(a_k) b_k   (torch.sum(a.conj() * b)) *)
Fixpoint dot (a b : vec) : C :=
  match a, b with
  | x :: a', y :: b' => cadd (cmul (cconj x) y) (dot a' b')
  | _, _ => c0
  end.

(* sum |a_k|^2   (torch.sum(a.real.square() + a.imag.square())) *)
Fixpoint norm2 (a : vec) : Qc :=
  match a with
  | [] => 0
  | x :: a' => cnorm2 x + norm2 a'
  end.

Lemma vzip_length f a b : length a = length b -> length (vzip f a b) = length a.
Proof.
  revert b. induction a as [|x a IH]; intros [|y b] H; cbn in *; try congruence.
  f_equal. apply IH. congruence.
Qed.

Lemma vscale_length c a : length (vscale c a) = length a.
Proof. apply map_length. Qed.

Lemma vzeros_length n : length (vzeros n) = n.
Proof. apply repeat_length. Qed.

Lemma dot_self a : dot a a = creal (norm2 a).
Proof.
  induction a as [|x a IH]; cbn [dot norm2]; [reflexivity|].
  rewrite IH, cmul_conj_self. cplx.
Qed.

Lemma norm2_nonneg a : 0 <= norm2 a.
Proof.
  induction a as [|x a IH]; cbn [norm2]; [apply Qcle_refl|].
  apply Qc_add_nonneg; [apply cnorm2_nonneg | exact IH].
Qed.

Lemma norm2_eq0 a : norm2 a = 0 -> a = vzeros (length a).
Proof.
  induction a as [|x a IH]; cbn [norm2 length vzeros repeat]; intros H; [reflexivity|].
  destruct (Qc_add_eq0 _ _ (cnorm2_nonneg x) (norm2_nonneg a) H) as [Hx Ha].
  apply cnorm2_eq0 in Hx. subst x. f_equal. apply IH. exact Ha.
Qed.

Lemma norm2_vzeros n : norm2 (vzeros n) = 0.
Proof.
  induction n as [|n IH]; cbn [vzeros repeat norm2]; [reflexivity|].
  fold (vzeros n). rewrite IH, cnorm2_c0. ring.
Qed.

Lemma dot_conj_sym a b : dot b a = cconj (dot a b).
Proof.
  revert b. induction a as [|x a IH]; intros [|y b]; cbn [dot]; try (symmetry; apply cconj_c0).
  rewrite cconj_add, cconj_mul, cconj_invol, <- IH. cplx.
Qed.

Lemma dot_sym0 a b : dot a b = c0 -> dot b a = c0.
Proof. intros H. rewrite dot_conj_sym, H. apply cconj_c0. Qed.

Lemma dot_vsub u a b : length a = length b ->
  dot u (vsub a b) = csub (dot u a) (dot u b).
Proof.
  revert a b. induction u as [|x u IH]; intros a b H.
  - cbn. cplx.
  - destruct a as [|y a], b as [|z b]; cbn in H; try congruence.
    + cbn. cplx.
    + cbn [vsub vzip dot]. fold vsub. rewrite IH by congruence. ring.
Qed.

Lemma dot_vadd u a b : length a = length b ->
  dot u (vadd a b) = cadd (dot u a) (dot u b).
Proof.
  revert a b. induction u as [|x u IH]; intros a b H.
  - cbn. cplx.
  - destruct a as [|y a], b as [|z b]; cbn in H; try congruence.
    + cbn. cplx.
    + cbn [vadd vzip dot]. fold vadd. rewrite IH by congruence. ring.
Qed.

Lemma dot_vscale u c a : dot u (vscale c a) = cmul c (dot u a).
Proof.
  revert a. induction u as [|x u IH]; intros [|y a]; cbn [dot vscale map]; try (cplx; fail).
  fold (vscale c a). rewrite IH. ring.
Qed.

Lemma dot_vzeros_r u n : dot u (vzeros n) = c0.
Proof.
  revert n. induction u as [|x u IH]; intros [|n]; cbn [dot vzeros repeat]; try reflexivity.
  fold (vzeros n). rewrite IH. cplx.
Qed.

(* pointwise identities between vectors (valid for the truncating zip at all lengths) *)
Ltac vcbn := cbn [vsub vadd vzip vscale map vzeros repeat length] in *;
             fold vsub vadd vzeros in *.

Lemma vsub_vsub a b c : vsub (vsub a b) c = vsub a (vadd b c).
Proof.
  revert b c. induction a as [|x a IH]; intros [|y b] [|z c]; vcbn; try reflexivity.
  f_equal; try apply IH; ring.
Qed.

Lemma vsub_as_add a b : vsub a b = vadd a (vscale (copp c1) b).
Proof.
  revert b. induction a as [|x a IH]; intros [|y b]; vcbn; try reflexivity.
  f_equal; try apply IH; ring.
Qed.

Lemma vsub_zeros_r a : vsub a (vzeros (length a)) = a.
Proof.
  induction a as [|x a IH]; vcbn; [reflexivity|]. f_equal; try exact IH; cplx.
Qed.

Lemma vsub_eq_zeros a b : length a = length b -> vsub a b = vzeros (length a) -> a = b.
Proof.
  revert b. induction a as [|x a IH]; intros [|y b] H E; vcbn; try congruence.
  assert (E1 : csub x y = c0) by exact (f_equal (hd c0) E).
  assert (E2 : vsub a b = vzeros (length a)) by exact (f_equal (@tl C) E).
  f_equal.
  - assert (Hx : x = cadd (csub x y) y) by ring. rewrite Hx, E1. ring.
  - apply IH; [congruence | exact E2].
Qed.

Lemma vadd_zeros_r a : vadd a (vzeros (length a)) = a.
Proof.
  induction a as [|x a IH]; vcbn; [reflexivity|]. f_equal; try exact IH; cplx.
Qed.

Lemma vscale_c0 a : vscale c0 a = vzeros (length a).
Proof.
  induction a as [|x a IH]; vcbn; [reflexivity|]. f_equal; try exact IH; cplx.
Qed.

Lemma vscale_c1 a : vscale c1 a = a.
Proof.
  induction a as [|x a IH]; vcbn; [reflexivity|]. f_equal; try exact IH; cplx.
Qed.

Lemma vscale_vzeros c n : vscale c (vzeros n) = vzeros n.
Proof.
  induction n as [|n IH]; vcbn; [reflexivity|]. f_equal; try exact IH; cplx.
Qed.

Lemma vadd_zeros_zeros n : vadd (vzeros n) (vzeros n) = vzeros n.
Proof.
  induction n as [|n IH]; vcbn; [reflexivity|]. f_equal; try exact IH; cplx.
Qed.

(* (c p + A) + (d p + B) = (c + d) p + (A + B) *)
Lemma vadd_interchange c d p A B :
  vadd (vadd (vscale c p) A) (vadd (vscale d p) B) = vadd (vscale (cadd c d) p) (vadd A B).
Proof.
  revert A B. induction p as [|x p IH]; intros [|a A] [|b B]; vcbn; try reflexivity.
  f_equal; try apply IH; ring.
Qed.

(* k (c p + A) = (k c) p + k A *)
Lemma vscale_vadd_scale k c p A :
  vscale k (vadd (vscale c p) A) = vadd (vscale (cmul k c) p) (vscale k A).
Proof.
  revert A. induction p as [|x p IH]; intros [|a A]; vcbn; try reflexivity.
  f_equal; try apply IH; ring.
Qed.

Lemma vadd_zeros_l a : vadd (vzeros (length a)) a = a.
Proof.
  induction a as [|x a IH]; vcbn; [reflexivity|]. f_equal; try exact IH; cplx.
Qed.

Lemma vadd_assoc a b c : vadd a (vadd b c) = vadd (vadd a b) c.
Proof.
  revert b c. induction a as [|x a IH]; intros [|y b] [|z c]; vcbn; try reflexivity.
  f_equal; try apply IH; ring.
Qed.

Lemma vadd_neg_self a : vadd a (vscale (copp c1) a) = vzeros (length a).
Proof.
  induction a as [|x a IH]; vcbn; [reflexivity|]. f_equal; try exact IH; cplx.
Qed.
