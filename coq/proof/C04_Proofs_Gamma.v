(* C04 — proofs about the per-pixel Fourier factors (model/C04_Gamma_Model.v):
   closed form of gamma_factor, what zero aberrations give, Hermitian symmetry in q, symmetric power,
   vanishing DC, Hermitian ssb/obf/mf/parallax multipliers; a Hermitian multiplier applied to a real image
   gives a real image (so `.real` in `corrected_stack = fourier_factor.real / BF_weights` discards nothing);
   the fftfreq index convention does not matter for integer-shift ramps; the object-state model. *)
From Coq Require Import ZArith List Bool Arith Lia Ring.
From QV.lib Require Import Prelude FinSum DFT DFT2.
From QV.model Require Import C04_Model C04_Gamma_Model.
Import ListNotations.
Unset Implicit Arguments.

Section GammaP.
  Variable R : Type.
  Variables (rO rI : R) (radd rmul rsub : R -> R -> R) (ropp : R -> R).
  Variable Rth : ring_theory rO rI radd rmul rsub ropp (@eq R).
  Add Ring RringG : Rth.
  Variable conj : R -> R.
  Hypothesis Cok : conj_ok radd rmul conj.
  Variable K : Type.
  Variables (kadd : K -> K -> K) (kneg : K -> K).
  Variable Ph : Type.
  Variables (padd : Ph -> Ph -> Ph) (pneg : Ph -> Ph).
  Variable E : Ph -> R.
  Variable A : K -> R.
  Variable chi : K -> Ph.
  Set Default Proof Using "All".

  Notation "0" := rO.  Notation "1" := rI.
  Infix "+" := radd.   Infix "*" := rmul.  Infix "-" := rsub.  Notation "- x" := (ropp x).
  Notation prb := (probe rmul E A chi).
  Notation gam := (gamma rmul rsub conj kadd kneg E A chi).
  Notation gamc := (gamma_closed rmul rsub kadd kneg padd pneg E A chi).
  Notation n2 := (norm2 rmul conj).

  Let cadd := conj_add _ _ _ _ Cok.
  Let cmul := conj_mul _ _ _ _ Cok.
  Let cinv := conj_invol _ _ _ _ Cok.

  Lemma conj_sub' a b : conj (a - b) = conj a - conj b.
  Proof. apply (conj_sub Rth Cok). Qed.
  Lemma conj_opp' a : conj (- a) = - conj a.
  Proof. apply (conj_opp Rth Cok). Qed.

  (* ---- character / aperture hypotheses *)
  Definition char_ok : Prop :=
    (forall a b, E (padd a b) = E a * E b) /\ (forall a, conj (E a) = E (pneg a)).
  Definition aperture_real : Prop := forall v, conj (A v) = A v.

  Lemma conj_probe v : char_ok -> aperture_real -> conj (prb v) = A v * E (pneg (chi v)).
  Proof. intros [_ Hc] Ha. unfold probe. rewrite cmul, Ha, Hc. reflexivity. Qed.

  (* gamma_factor = A(k) [ A(q-k) E(chi(q-k) - chi(k)) - A(q+k) E(chi(k) - chi(q+k)) ] *)
  Theorem gamma_closed_form k q : char_ok -> aperture_real -> gam k q = gamc k q.
  Proof.
    intros Hc Ha. unfold gamma, gamma_closed.
    rewrite !(conj_probe _ Hc Ha). destruct Hc as [Hadd _]. rewrite !Hadd. unfold probe. ring.
  Qed.

  (* zero aberrations (E (chi v) = 1 everywhere): gamma is the real number A(k) (A(q-k) - A(q+k)) *)
  Theorem gamma_zero_aberration k q :
    aperture_real -> (forall v, E (chi v) = 1) ->
    gam k q = A k * (A (ksub kadd kneg q k) - A (kadd q k)) /\ conj (gam k q) = gam k q.
  Proof.
    intros Ha H0.
    assert (Hp : forall v, prb v = A v) by (intros v; unfold probe; rewrite H0; ring).
    assert (Hg : gam k q = A k * (A (ksub kadd kneg q k) - A (kadd q k))).
    { unfold gamma. rewrite !Hp, !Ha. ring. }
    split; [exact Hg|]. rewrite Hg, cmul, conj_sub', !Ha. reflexivity.
  Qed.

  (* ---- symmetry in q for an even probe *)
  Definition kgroup_ok : Prop :=
    (forall a b, kneg (kadd a b) = kadd (kneg a) (kneg b)) /\ (forall a, kneg (kneg a) = a).
  Definition probe_even : Prop := forall v, prb (kneg v) = prb v.

  Lemma even_from_parts : (forall v, A (kneg v) = A v) -> (forall v, chi (kneg v) = chi v) -> probe_even.
  Proof. intros HA Hc v. unfold probe. rewrite HA, Hc. reflexivity. Qed.

  Lemma gamma_neg_q k q : kgroup_ok -> probe_even ->
    gam k (kneg q) = prb (kadd q k) * conj (prb k) - conj (prb (ksub kadd kneg q k)) * prb k.
  Proof.
    intros [Hd Hi] He. unfold gamma, ksub.
    replace (kadd (kneg q) (kneg k)) with (kneg (kadd q k)) by apply Hd.
    replace (kadd (kneg q) k) with (kneg (kadd q (kneg k))) by (rewrite Hd, Hi; reflexivity).
    rewrite !He. reflexivity.
  Qed.

  (* gamma(k, -q) = - conj(gamma(k, q)) *)
  Theorem gamma_hermitian k q : kgroup_ok -> probe_even -> gam k (kneg q) = - conj (gam k q).
  Proof.
    intros Hk He. rewrite (gamma_neg_q k q Hk He). unfold gamma.
    rewrite conj_sub', !cmul, !cinv. ring.
  Qed.

  (* |gamma|^2 is symmetric in q *)
  Theorem gamma_power_symmetric k q : kgroup_ok -> probe_even -> n2 (gam k (kneg q)) = n2 (gam k q).
  Proof.
    intros Hk He. unfold norm2. rewrite (gamma_hermitian k q Hk He), conj_opp', cinv. ring.
  Qed.

  (* gamma vanishes at q = 0: the DC term of the ssb / obf / mf numerators is zero by construction *)
  Theorem gamma_dc_zero k k0 : probe_even -> (forall a, kadd k0 a = a) -> gam k k0 = 0.
  Proof.
    intros He H0. unfold gamma, ksub. rewrite !H0, He. ring.
  Qed.

  (* ---- the multipliers are Hermitian *)
  Variable mi : R.
  Notation sbf := (sb_factor rmul rsub conj kadd kneg E A chi mi).

  Theorem sb_factor_hermitian (ninv : K -> R) k q :
    kgroup_ok -> probe_even -> conj mi = - mi ->
    (forall v, conj (ninv v) = ninv v) -> (forall v, ninv (kneg v) = ninv v) ->
    conj (sbf ninv k q) = sbf ninv k (kneg q).
  Proof.
    intros Hk He Hm Hr Hs. unfold sb_factor.
    rewrite (gamma_hermitian k q Hk He), !cmul, Hm, Hr, Hs, conj_opp', !cinv. ring.
  Qed.

  Variable pair : K -> K -> Ph.
  Notation plf := (prlx_factor rmul E pair).

  Theorem prlx_factor_hermitian (sgn : K -> R) grad q :
    char_ok -> (forall g v, pair g (kneg v) = pneg (pair g v)) ->
    (forall v, conj (sgn v) = sgn v) -> (forall v, sgn (kneg v) = sgn v) ->
    conj (plf sgn grad q) = plf sgn grad (kneg q).
  Proof.
    intros [_ Hc] Hp Hr Hs. unfold prlx_factor. rewrite cmul, Hc, Hr, Hp, Hs. reflexivity.
  Qed.
End GammaP.

(* ------------------------------------------------------------------ Hermitian spectra and real signals *)
Section Herm1.
  Variable R : Type.
  Variables (rO rI : R) (radd rmul rsub : R -> R -> R) (ropp : R -> R).
  Variable Rth : ring_theory rO rI radd rmul rsub ropp (@eq R).
  Add Ring RringH : Rth.
  Variable conj : R -> R.
  Hypothesis Cok : conj_ok radd rmul conj.
  Variables (N : nat) (w : Z -> R) (Ninv : R).
  Hypothesis Rok : root_ok rO rI radd rmul conj N w Ninv.
  Set Default Proof Using "All".

  Notation "0" := rO.  Notation "1" := rI.
  Infix "+" := radd.   Infix "*" := rmul.  Infix "-" := rsub.  Notation "- x" := (ropp x).
  Notation sumn := (sumn rO radd).
  Notation dft := (dft rO radd rmul N w).
  Notation idft := (idft rO radd rmul N w Ninv).

  Let Npos : (0 < N)%nat := ro_pos _ _ _ _ _ _ _ _ _ Rok.

  Lemma sumn_rev n (f : nat -> R) : sumn n (fun i => f (n - 1 - i)%nat) = sumn n f.
  Proof.
    revert f. induction n as [|n IH]; intros f; [reflexivity|].
    cbn [FinSum.sumn].
    replace (S n - 1 - n)%nat with 0%nat by lia.
    rewrite <- (sumn_succ_head Rth n f).
    rewrite <- (IH (fun i => f (S i))).
    f_equal. apply (sumn_ext Rth). intros i Hi. f_equal. lia.
  Qed.

  Lemma negidx_lt k : (negidx N k < N)%nat.
  Proof. unfold negidx. apply Nat.mod_upper_bound. lia. Qed.

  Lemma negidx_invol k : (k < N)%nat -> negidx N (negidx N k) = k.
  Proof.
    intros Hk. unfold negidx. destruct (Nat.eq_dec k 0) as [->|Hz].
    - rewrite Nat.sub_0_r, Nat.mod_same, Nat.sub_0_r, Nat.mod_same by lia. reflexivity.
    - rewrite (Nat.mod_small (N - k)) by lia. replace (N - (N - k))%nat with k by lia.
      apply Nat.mod_small. lia.
  Qed.

  (* a full-period sum may be taken over the reflected index *)
  Lemma sumn_negidx (f : nat -> R) : sumn N (fun k => f (negidx N k)) = sumn N f.
  Proof.
    set (g := fun i : nat => f (N - 1 - i)%nat).
    transitivity (sumn N (fun k => g (zidx N (Z.of_nat k - 1)))).
    - apply (sumn_ext Rth). intros k Hk. unfold g. f_equal. unfold negidx, zidx.
      destruct (Nat.eq_dec k 0) as [->|Hz].
      + rewrite Nat.sub_0_r, Nat.mod_same by lia.
        assert (Hm : ((Z.of_nat 0 - 1) mod Z.of_nat N = Z.of_nat N - 1)%Z).
        { replace (Z.of_nat 0 - 1)%Z with (Z.of_nat N - 1 + (-1) * Z.of_nat N)%Z by ring.
          rewrite Z_mod_plus_full. apply Z.mod_small. lia. }
        rewrite Hm. lia.
      + rewrite Nat.mod_small by lia. rewrite Z.mod_small by lia. lia.
    - rewrite (sumn_zshift Rth Cok Rok g 1). unfold g. apply sumn_rev.
  Qed.

  Lemma w_negidx k (n : Z) : (k < N)%nat -> w (Z.of_nat (negidx N k) * n)%Z = w (- (Z.of_nat k * n))%Z.
  Proof.
    intros Hk. apply (w_periodic Rth Cok Rok). unfold negidx.
    rewrite Nat2Z.inj_mod, Nat2Z.inj_sub by lia.
    rewrite Zmult_mod_idemp_l.
    replace ((Z.of_nat N - Z.of_nat k) * n)%Z with (- (Z.of_nat k * n) + n * Z.of_nat N)%Z by ring.
    apply Z_mod_plus_full.
  Qed.

  Lemma conj_Ninv : conj Ninv = Ninv.
  Proof.
    pose proof (ro_inv _ _ _ _ _ _ _ _ _ Rok) as Hi.
    transitivity (conj Ninv * (Ninv * of_nat rO rI radd N)); [rewrite Hi; ring|].
    transitivity (conj (Ninv * of_nat rO rI radd N) * Ninv).
    - rewrite (conj_mul _ _ _ _ Cok), (conj_of_nat Rth Cok). ring.
    - rewrite Hi, (conj_1 Rth Cok). ring.
  Qed.

  (* conj (DFT x)[k] = DFT (conj x)[-k] *)
  Lemma conj_dft x k : (k < N)%nat -> conj (dft x k) = dft (fun n => conj (x n)) (negidx N k).
  Proof.
    intros Hk. unfold DFT.dft. rewrite (conj_sumn Rth Cok).
    apply (sumn_ext Rth). intros n _.
    rewrite (conj_mul _ _ _ _ Cok), (ro_conj _ _ _ _ _ _ _ _ _ Rok), (w_negidx k (Z.of_nat n) Hk). reflexivity.
  Qed.

  (* conj (IDFT X)[n] = IDFT (k |-> conj X[-k])[n] *)
  Lemma conj_idft X n : conj (idft X n) = idft (fun k => conj (X (negidx N k))) n.
  Proof.
    unfold DFT.idft. rewrite (conj_mul _ _ _ _ Cok), conj_Ninv, (conj_sumn Rth Cok). f_equal.
    set (f := fun k : nat => conj (X k) * w (Z.of_nat k * Z.of_nat n)%Z).
    transitivity (sumn N f).
    - apply (sumn_ext Rth). intros k _. unfold f.
      rewrite (conj_mul _ _ _ _ Cok), (ro_conj _ _ _ _ _ _ _ _ _ Rok). f_equal. f_equal. lia.
    - rewrite <- (sumn_negidx f). apply (sumn_ext Rth). intros k Hk. unfold f.
      rewrite (w_negidx k (Z.of_nat n) Hk). reflexivity.
  Qed.

  (* torch.fft.fftfreq: a ramp that is a character of an INTEGER shift takes the same value at the signed
     frequency index (k - N above the Nyquist index) and at the unsigned index k the model uses *)
  Lemma ramp_signed_idx k (s : Z) : w (signed_idx N k * s)%Z = w (Z.of_nat k * s)%Z.
  Proof.
    unfold signed_idx. destruct (2 * k <? N)%nat; [reflexivity|].
    apply (w_periodic Rth Cok Rok).
    replace ((Z.of_nat k - Z.of_nat N) * s)%Z with (Z.of_nat k * s + (- s) * Z.of_nat N)%Z by ring.
    apply Z_mod_plus_full.
  Qed.
End Herm1.
Arguments sumn_rev {R rO rI radd rmul rsub ropp} Rth {conj} Cok {N w Ninv} Rok.
Arguments negidx_lt {R rO rI radd rmul rsub ropp} Rth {conj} Cok {N w Ninv} Rok.
Arguments negidx_invol {R rO rI radd rmul rsub ropp} Rth {conj} Cok {N w Ninv} Rok.
Arguments sumn_negidx {R rO rI radd rmul rsub ropp} Rth {conj} Cok {N w Ninv} Rok.
Arguments w_negidx {R rO rI radd rmul rsub ropp} Rth {conj} Cok {N w Ninv} Rok.
Arguments conj_Ninv {R rO rI radd rmul rsub ropp} Rth {conj} Cok {N w Ninv} Rok.
Arguments conj_dft {R rO rI radd rmul rsub ropp} Rth {conj} Cok {N w Ninv} Rok.
Arguments conj_idft {R rO rI radd rmul rsub ropp} Rth {conj} Cok {N w Ninv} Rok.
Arguments ramp_signed_idx {R rO rI radd rmul rsub ropp} Rth {conj} Cok {N w Ninv} Rok.

Section Herm2.
  Variable R : Type.
  Variables (rO rI : R) (radd rmul rsub : R -> R -> R) (ropp : R -> R).
  Variable Rth : ring_theory rO rI radd rmul rsub ropp (@eq R).
  Add Ring RringH2 : Rth.
  Variable conj : R -> R.
  Hypothesis Cok : conj_ok radd rmul conj.
  Variables (N1 : nat) (w1 : Z -> R) (Ninv1 : R) (N2 : nat) (w2 : Z -> R) (Ninv2 : R).
  Hypothesis Rok1 : root_ok rO rI radd rmul conj N1 w1 Ninv1.
  Hypothesis Rok2 : root_ok rO rI radd rmul conj N2 w2 Ninv2.
  Set Default Proof Using "All".

  Infix "*" := rmul.
  Notation dft2b := (dft2 rO radd rmul N1 w1 N2 w2).
  Notation idft2b := (idft2 rO radd rmul N1 w1 Ninv1 N2 w2 Ninv2).
  Notation fmul2b := (fmul2 rO radd rmul N1 w1 Ninv1 N2 w2 Ninv2).

  Definition real_on_grid (x : img R) : Prop :=
    forall i j, (i < N1)%nat -> (j < N2)%nat -> conj (x i j) = x i j.
  Definition hermitian_on_grid (X : img R) : Prop :=
    forall k1 k2, (k1 < N1)%nat -> (k2 < N2)%nat -> conj (X k1 k2) = X (negidx N1 k1) (negidx N2 k2).

  Lemma conj_dft2 x k1 k2 : (k1 < N1)%nat -> (k2 < N2)%nat ->
    conj (dft2b x k1 k2) = dft2b (fun i j => conj (x i j)) (negidx N1 k1) (negidx N2 k2).
  Proof.
    intros H1 H2. unfold dft2.
    rewrite (conj_dft Rth Cok Rok1 _ k1 H1).
    apply (dft_ext Rth Cok Rok1). intros n1 _.
    apply (conj_dft Rth Cok Rok2 _ k2 H2).
  Qed.

  Lemma conj_idft2 X n1 n2 :
    conj (idft2b X n1 n2) = idft2b (fun k1 k2 => conj (X (negidx N1 k1) (negidx N2 k2))) n1 n2.
  Proof.
    unfold idft2.
    rewrite (conj_idft Rth Cok Rok2).
    apply (idft_ext Rth Cok Rok2). intros k2 _.
    apply (conj_idft Rth Cok Rok1).
  Qed.

  (* the spectrum of a real image is Hermitian *)
  Lemma dft2_of_real_hermitian x : real_on_grid x -> hermitian_on_grid (dft2b x).
  Proof.
    intros Hx k1 k2 H1 H2. rewrite (conj_dft2 x k1 k2 H1 H2).
    apply (dft2_ext Rth Cok Rok1 Rok2). intros i j Hi Hj. apply Hx; assumption.
  Qed.

  (* the inverse transform of a Hermitian spectrum is real *)
  Lemma idft2_of_hermitian_real X : hermitian_on_grid X -> forall n1 n2, conj (idft2b X n1 n2) = idft2b X n1 n2.
  Proof.
    intros HX n1 n2. rewrite conj_idft2.
    apply (idft2_ext Rth Cok Rok1 Rok2). intros k1 k2 H1 H2.
    rewrite (HX _ _ (negidx_lt Rth Cok Rok1 k1) (negidx_lt Rth Cok Rok2 k2)).
    rewrite (negidx_invol Rth Cok Rok1 k1 H1), (negidx_invol Rth Cok Rok2 k2 H2). reflexivity.
  Qed.

  (* a Hermitian Fourier multiplier maps real images to real images *)
  Theorem hermitian_multiplier_real h x :
    hermitian_on_grid h -> real_on_grid x -> forall n1 n2, conj (fmul2b h x n1 n2) = fmul2b h x n1 n2.
  Proof.
    intros Hh Hx. unfold fmul2. apply idft2_of_hermitian_real.
    intros k1 k2 H1 H2. rewrite (conj_mul _ _ _ _ Cok), (Hh k1 k2 H1 H2).
    rewrite (dft2_of_real_hermitian x Hx k1 k2 H1 H2). reflexivity.
  Qed.
End Herm2.

(* ------------------------------------------------------------------ object state *)
Section StateP.
  Variables (In Args Res : Type).
  Variable f : In -> Args -> Res.

  Lemma run_calls_inputs (o : obj In Res) calls : inputs (run_calls f o calls) = inputs o.
  Proof.
    revert o. induction calls as [|a l IH]; intros o; [reflexivity|].
    cbn [run_calls fold_left]. change (inputs (run_calls f (reconstruct_call f o a) l) = inputs o).
    rewrite IH. reflexivity.
  Qed.

  (* the result of a call does not depend on the calls made before it *)
  Theorem state_history_independent (i : In) (before : list Args) (a : Args) :
    corrected (run_calls f (construct Res i) (before ++ [a])) = Some (f i a)
    /\ corrected (reconstruct_call f (construct Res i) a) = Some (f i a).
  Proof.
    split; [|reflexivity].
    unfold run_calls. rewrite fold_left_app. cbn [fold_left reconstruct_call corrected].
    change (fold_left (reconstruct_call f) before (construct Res i)) with (run_calls f (construct Res i) before).
    rewrite run_calls_inputs. reflexivity.
  Qed.

  (* no call changes what later calls read *)
  Theorem state_inputs_preserved (i : In) (calls : list Args) :
    inputs (run_calls f (construct Res i) calls) = i.
  Proof. rewrite run_calls_inputs. reflexivity. Qed.
End StateP.
