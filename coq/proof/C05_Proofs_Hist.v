(* C05 — whole operation histories.
     view_apply_op / view_run_ops   SIMULATION: the heap-level machine under ANY history of operations
                                    (set_optimizer(+scheduler), remove_optimizer, set constraints, iteration,
                                    .to(), save, save+from_file, clone, clone fallback, model reload, save
                                    without data + from_file(dset=)) is simulated by a machine on the id-free
                                    view in which every interruption is the IDENTITY
     interruptions_erasable         hence any number of interruptions, anywhere in a history (several in a
                                    row, clone of a clone, .to() between iterations), can be erased without
                                    changing what is observed
     multi_interrupt_equiv          [run k; any list of interruptions; run m] = [run (k+m)]
     reachable versions             the binding-invariant hypothesis of the round-2 theorems is discharged for
                                    every state reachable from a freshly built reconstruction
     meta route                     reported state, resume equivalence on its domain, refutation outside *)
From QV.lib Require Import Prelude.
From QV.model Require Import C05_Model.
From QV.proof Require Import C05_Proofs_Base C05_Proofs_Iter C05_Proofs_Copy C05_Proofs_Reconnect C05_Proofs_Ops
     C05_Proofs_Meta C05_Proofs.
Set Implicit Arguments.

Section ListsH.
  Variables A B : Type.
  Lemma map_upd_nth_at (g g' : A -> B) (l : list A) i (f : A -> A) (f' : B -> B) :
    (forall x, In x l -> g' x = g x) -> (forall x, nth_error l i = Some x -> g' (f x) = f' (g x)) ->
    map g' (upd_nth l i f) = upd_nth (map g l) i f'.
  Proof.
    revert i. induction l as [|x t IH]; intros i Hg Hf; [destruct i; reflexivity|].
    destruct i; cbn [upd_nth map].
    - rewrite (Hf x eq_refl). f_equal. apply map_ext_in. intros y Hy. apply Hg. now right.
    - rewrite Hg by now left. f_equal. apply IH; [intros y Hy; apply Hg; now right|].
      intros y Hy. apply Hf. exact Hy.
  Qed.
End ListsH.

Definition is_interrupt (R C SS : Type) (o : op R C SS) : bool :=
  match o with
  | OpTo | OpSaveContinue | OpReload _ | OpClone | OpCloneFallback | OpModelReload _ => true
  | _ => false
  end.
Definition erase (R C SS : Type) (ops : list (op R C SS)) : list (op R C SS) :=
  filter (fun o => negb (is_interrupt o)) ops.

Section Hist.
  Variables V G M L R C SS : Type.
  Variable Rzero : R.
  Variable forward : list (list (option V) * C) -> L * list (list (option G)).
  Variable opt_update : opt_kind -> R -> V -> G -> option (pstate M) -> V * option (pstate M).
  Variable sched_init : SS -> R -> SS * R.
  Variable sched_step : SS -> nat -> L -> R -> SS * R.
  Local Notation iterate := (iterate Rzero forward opt_update sched_step).
  Local Notation run := (run Rzero forward opt_update sched_step).
  Local Notation apply_op := (apply_op Rzero forward opt_update sched_init sched_step).
  Local Notation run_ops := (run_ops Rzero forward opt_update sched_init sched_step).
  Local Notation step_view := (step_view Rzero forward opt_update sched_step).
  Implicit Types (s : st V M L R C SS) (v : view V M L R C SS) (mv : mview V M R C SS).

  (* ------------------------------------------------------------------ the operations on the view *)
  Definition vset_cons (i : nat) (c : C) v : view V M L R C SS :=
    {| vmodels := upd_nth (vmodels v) i
                    (fun mv => {| vvals := vvals mv; vcons := c; vopt := vopt mv; vsched := vsched mv |});
       vlosses := vlosses v; vlrs := vlrs v |}.
  Definition vremove_opt (i : nat) v : view V M L R C SS :=
    {| vmodels := upd_nth (vmodels v) i
                    (fun mv => {| vvals := vvals mv; vcons := vcons mv; vopt := None; vsched := None |});
       vlosses := vlosses v; vlrs := vlrs v |}.
  (* a NEW optimiser: no per-parameter state; a new scheduler at epoch 0 (or none) *)
  Definition vfresh_opt (k : opt_kind) (lr : R) (sc : option SS) mv : mview V M R C SS :=
    match sc with
    | None => {| vvals := vvals mv; vcons := vcons mv;
                 vopt := Some (k, lr, map (fun _ => None) (vvals mv)); vsched := None |}
    | Some ss => let '(ss', lr') := sched_init ss lr in
                 {| vvals := vvals mv; vcons := vcons mv;
                    vopt := Some (k, lr', map (fun _ => None) (vvals mv)); vsched := Some (0, ss') |}
    end.
  Definition vset_opt (i : nat) (k : opt_kind) (lr : R) (sc : option SS) v : view V M L R C SS :=
    match nth_error (vmodels v) i with
    | None => v
    | Some mv0 =>
      match vvals mv0 with
      | [] => v
      | _ :: _ => {| vmodels := upd_nth (vmodels v) i (vfresh_opt k lr sc); vlosses := vlosses v; vlrs := vlrs v |}
      end
    end.

  (* EVERY interruption is the identity here *)
  Definition vapply (o : op R C SS) v : view V M L R C SS :=
    match o with
    | OpSetOpt i k lr sc => vset_opt i k lr sc v
    | OpRemoveOpt i => vremove_opt i v
    | OpSetCons i c => vset_cons i c v
    | OpIter => step_view v
    | OpReloadMeta i c _ => vattach i c v
    | OpTo | OpSaveContinue | OpReload _ | OpClone | OpCloneFallback | OpModelReload _ => v
    end.
  Definition vrun_ops (ops : list (op R C SS)) v : view V M L R C SS := fold_left (fun v o => vapply o v) ops v.

  (* ------------------------------------------------------------------ each operation, on the view *)
  Lemma view_set_cons i c s : view_of (set_cons i c s) = vset_cons i c (view_of s).
  Proof.
    unfold view_of, set_cons, vset_cons. cbn [hh rc models losses lrs vmodels vlosses vlrs]. f_equal.
    apply map_upd_nth. reflexivity.
  Qed.

  Lemma view_remove_opt i s : view_of (remove_opt i s) = vremove_opt i (view_of s).
  Proof.
    unfold view_of, remove_opt, vremove_opt. cbn [hh rc models losses lrs vmodels vlosses vlrs]. f_equal.
    apply map_upd_nth. reflexivity.
  Qed.

  Lemma mview_alloc (h h' : heap V M R SS) (m : mdl C) :
    bound h m -> (forall j, hp h' j = hp h j) ->
    (forall j, j < hnext h -> ho h' j = ho h j) -> (forall j, j < hnext h -> hs h' j = hs h j) ->
    mview_of h' m = mview_of h m.
  Proof.
    intros (_ & _ & Ho & Hs) Ep Eo Es. unfold mview_of. f_equal.
    - apply map_ext. exact Ep.
    - destruct (mopt m) as [o|]; [|reflexivity]. destruct Ho as (Hlt & _). now rewrite Eo.
    - destruct (msched m) as [x|]; [|reflexivity]. destruct Hs as (Hlt & _). now rewrite Es.
  Qed.

  Lemma view_set_opt i k lr sc s :
    binding_inv s -> view_of (set_opt sched_init i k lr sc s) = vset_opt i k lr sc (view_of s).
  Proof.
    intros (_ & Hb). unfold set_opt, vset_opt.
    replace (nth_error (vmodels (view_of s)) i) with (option_map (mview_of (hh s)) (nth_error (models (rc s)) i))
      by (unfold view_of; cbn [vmodels]; now rewrite nth_error_map).
    destruct (nth_error (models (rc s)) i) as [m|] eqn:En; cbn [option_map]; [|reflexivity].
    unfold mview_of at 1. cbn [vvals].
    destruct (mparams m) as [|p ps] eqn:Ep; cbn [map]; [reflexivity|].
    rewrite Forall_forall in Hb.
    destruct sc as [ss|].
    - destruct (sched_init ss lr) as [ss' lr'] eqn:Es.
      unfold view_of. cbn [hh rc models losses lrs vmodels vlosses vlrs]. f_equal.
      apply map_upd_nth_at.
      + intros x Hx. apply mview_alloc; [now apply Hb|reflexivity| |]; intros j Hj; cbn [ho hs];
          apply fupd_neq; intros ->; revert Hj; apply Nat.lt_irrefl || (intros Hj; apply (Nat.nlt_succ_diag_l _ Hj)).
      + intros x Ex. rewrite En in Ex. injection Ex as <-.
        unfold mview_of, vfresh_opt. cbn [mparams mopt msched mcons hp ho hs vvals vcons]. rewrite Es.
        rewrite !fupd_eq. cbn [okind olr ostate oparams slast sst].
        rewrite Ep. f_equal. rewrite map_map. f_equal.
    - unfold view_of. cbn [hh rc models losses lrs vmodels vlosses vlrs]. f_equal.
      apply map_upd_nth_at.
      + intros x Hx. apply mview_alloc; [now apply Hb|reflexivity| |]; intros j Hj; cbn [ho hs];
          try reflexivity; apply fupd_neq; intros ->; revert Hj; apply Nat.lt_irrefl.
      + intros x Ex. rewrite En in Ex. injection Ex as <-.
        unfold mview_of, vfresh_opt. cbn [mparams mopt msched mcons hp ho hs vvals vcons].
        rewrite !fupd_eq. cbn [okind olr ostate oparams].
        rewrite Ep. f_equal. rewrite map_map. f_equal.
  Qed.

  Lemma view_model_reload i s : binding_inv s -> view_of (to_dev false (copy_st (ModelSplit i) s)) = view_of s.
  Proof. intros H. rewrite view_to_dev by now apply copy_loaded. now apply view_copy. Qed.

  (* ------------------------------------------------------------------ SIMULATION *)
  Theorem view_apply_op (o : op R C SS) s :
    binding_inv s -> view_of (apply_op false o s) = vapply o (view_of s).
  Proof.
    intros H. destruct o; cbn [C05_Model.apply_op vapply].
    - now apply view_set_opt.
    - apply view_remove_opt.
    - apply view_set_cons.
    - now apply view_iterate.
    - apply view_to_dev. now apply binding_loaded.
    - now apply view_save_live.
    - now apply view_reload.
    - now apply view_clone.
    - now apply view_clone_fallback.
    - now apply view_model_reload.
    - now apply view_reload_meta.
  Qed.

  Theorem view_run_ops (ops : list (op R C SS)) s :
    binding_inv s -> view_of (run_ops false ops s) = vrun_ops ops (view_of s).
  Proof.
    revert s. induction ops as [|o t IH]; intros s H; [reflexivity|].
    cbn [C05_Model.run_ops vrun_ops fold_left].
    change (fold_left (fun s0 o0 => apply_op false o0 s0) t (apply_op false o s)) with (run_ops false t (apply_op false o s)).
    rewrite IH by now apply apply_op_binding_inv. rewrite view_apply_op by exact H. reflexivity.
  Qed.

  (* interruptions do nothing on the view machine *)
  Lemma vapply_interrupt (o : op R C SS) v : is_interrupt o = true -> vapply o v = v.
  Proof. destruct o; cbn; try discriminate; reflexivity. Qed.

  Lemma vrun_erase (ops : list (op R C SS)) v : vrun_ops (erase ops) v = vrun_ops ops v.
  Proof.
    revert v. induction ops as [|o t IH]; intros v; [reflexivity|].
    unfold erase. cbn [filter]. destruct (is_interrupt o) eqn:E; cbn [negb].
    - fold (erase t). rewrite IH. unfold vrun_ops at 2. cbn [fold_left]. now rewrite vapply_interrupt.
    - fold (erase t). unfold vrun_ops. cbn [fold_left]. apply IH.
  Qed.

  (* ANY history: erase every interruption (wherever it stands, however many in a row); the
     observation — and every field a later iteration reads — is the same *)
  Theorem interruptions_erasable (ops : list (op R C SS)) s :
    binding_inv s ->
    view_of (run_ops false ops s) = view_of (run_ops false (erase ops) s) /\
    obs (run_ops false ops s) = obs (run_ops false (erase ops) s).
  Proof.
    intros H. assert (E : view_of (run_ops false ops s) = view_of (run_ops false (erase ops) s)).
    { rewrite !view_run_ops by exact H. now rewrite vrun_erase. }
    split; [exact E|]. unfold obs. now rewrite E.
  Qed.

  (* ------------------------------------------------------------------ runs as histories *)
  Lemma run_ops_app w (a b : list (op R C SS)) s : run_ops w (a ++ b) s = run_ops w b (run_ops w a s).
  Proof. unfold C05_Model.run_ops. apply fold_left_app. Qed.

  Lemma run_ops_iters w k s : run_ops w (repeat OpIter k) s = run k s.
  Proof. revert s. induction k as [|k IH]; intros s; [reflexivity|]. cbn. apply IH. Qed.

  Lemma erase_interrupts (ints : list (op R C SS)) : forallb (@is_interrupt R C SS) ints = true -> erase ints = [].
  Proof.
    induction ints as [|o t IH]; [reflexivity|]. cbn [forallb]. intros E. apply andb_prop in E. destruct E as (E1 & E2).
    unfold erase. cbn [filter]. rewrite E1. cbn [negb]. now apply IH.
  Qed.

  Lemma erase_app (a b : list (op R C SS)) : erase (a ++ b) = erase a ++ erase b.
  Proof. unfold erase. apply filter_app. Qed.

  Lemma erase_iters k : erase (repeat (@OpIter R C SS) k) = repeat OpIter k.
  Proof. induction k as [|k IH]; [reflexivity|]. unfold erase in *. cbn. now rewrite IH. Qed.

  (* [run k; ANY list of interruptions; run m] is the uninterrupted run of k+m iterations *)
  Theorem multi_interrupt_equiv (ints : list (op R C SS)) k m s :
    binding_inv s -> forallb (@is_interrupt R C SS) ints = true ->
    obs (run m (run_ops false ints (run k s))) = obs (run (k + m) s).
  Proof.
    intros H Hi.
    rewrite <- (run_ops_iters false m), <- (run_ops_iters false k s), <- !run_ops_app.
    rewrite <- (run_ops_iters false (k + m) s).
    destruct (interruptions_erasable (repeat OpIter k ++ ints ++ repeat OpIter m) H) as (_ & E).
    rewrite E. rewrite !erase_app, (erase_interrupts _ Hi), !erase_iters. cbn [app].
    now rewrite <- repeat_app.
  Qed.

  (* ... and interruptions at TWO points (k1 iterations, interruptions, k2 iterations, interruptions, m) *)
  Theorem two_point_interrupt_equiv (ints1 ints2 : list (op R C SS)) k1 k2 m s :
    binding_inv s -> forallb (@is_interrupt R C SS) ints1 = true -> forallb (@is_interrupt R C SS) ints2 = true ->
    obs (run m (run_ops false ints2 (run k2 (run_ops false ints1 (run k1 s))))) = obs (run (k1 + k2 + m) s).
  Proof.
    intros H H1 H2.
    rewrite <- (run_ops_iters false m), <- (run_ops_iters false k2), <- (run_ops_iters false k1 s), <- !run_ops_app.
    rewrite <- (run_ops_iters false (k1 + k2 + m) s).
    destruct (interruptions_erasable (repeat OpIter k1 ++ ints1 ++ repeat OpIter k2 ++ ints2 ++ repeat OpIter m) H) as (_ & E).
    rewrite E. rewrite !erase_app, (erase_interrupts _ H1), (erase_interrupts _ H2), !erase_iters. cbn [app].
    now rewrite <- !repeat_app, Nat.add_assoc.
  Qed.

  (* ------------------------------------------------------------------ reachable states: no hypothesis *)
  Theorem resume_equiv_reachable (ops : list (op R C SS)) (spec : list (list V * C)) dev k m :
    let s := run_ops false ops (init_st spec) in
    obs (run m (reload false Joint dev (run k s))) = obs (run (k + m) s) /\
    obs (run m (snd (save false Joint (run k s)))) = obs (run (k + m) s) /\
    obs (run m (clone false (run k s))) = obs (run (k + m) s) /\
    obs (run m (clone_fallback false (run k s))) = obs (run (k + m) s).
  Proof.
    intros s.
    assert (H : binding_inv s) by apply binding_inv_reachable.
    assert (Hk : binding_inv (run k s)) by now apply run_binding_inv.
    assert (Ea : run (k + m) s = run m (run k s)) by apply run_add.
    rewrite Ea. repeat split; apply obs_view; apply run_view_eq; auto.
    - apply reload_binding_inv; [exact I|exact Hk].
    - now apply view_reload.
    - now apply save_live_binding_inv.
    - now apply view_save_live.
    - now apply clone_binding_inv.
    - now apply view_clone.
    - now apply clone_fallback_binding_inv.
    - now apply view_clone_fallback.
  Qed.

  Theorem reported_state_reachable (ops : list (op R C SS)) (spec : list (list V * C)) g dev :
    let s := run_ops false ops (init_st spec) in
    obs (reload false g dev s) = obs s /\ obs (clone false s) = obs s /\ obs (clone_fallback false s) = obs s /\
    obs (to_dev false s) = obs s.
  Proof.
    intros s. assert (H : binding_inv s) by apply binding_inv_reachable.
    repeat split; apply obs_view.
    - now apply view_reload.
    - now apply view_clone.
    - now apply view_clone_fallback.
    - apply view_to_dev. now apply binding_loaded.
  Qed.

  (* ------------------------------------------------------------------ the checkpoint WITHOUT the raw data *)
  (* what from_file(path, dset=d) reports: iteration count, losses, lr history, and the parameter
     values of EVERY model — the object, the probe and the learned scan positions / descan shifts
     that travelled in _dataset_metadata — are those that were saved; the constraints are those
     that were saved except for the dataset's, which are those of the dataset that was supplied *)
  Theorem reload_meta_reported i c dev s :
    binding_inv s ->
    o_iters (obs (reload_meta false i c dev s)) = o_iters (obs s) /\
    o_losses (obs (reload_meta false i c dev s)) = o_losses (obs s) /\
    o_lrs (obs (reload_meta false i c dev s)) = o_lrs (obs s) /\
    o_vals (obs (reload_meta false i c dev s)) = o_vals (obs s) /\
    o_cons (obs (reload_meta false i c dev s)) = upd_nth (o_cons (obs s)) i (fun _ => c).
  Proof. intros H. unfold obs. rewrite view_reload_meta by exact H. apply obs_vattach. Qed.

  (* resume equivalence through that route, on its domain: the dataset model carries no optimiser
     at the interruption and the supplied dataset has the constraints of the saved one *)
  Theorem reload_meta_resume_equiv i c dev k m s md :
    binding_inv s -> nth_error (models (rc (run k s))) i = Some md -> mopt md = None -> mcons md = c ->
    obs (run m (reload_meta false i c dev (run k s))) = obs (run (k + m) s).
  Proof.
    intros H En Ho Ec. rewrite run_add.
    assert (Hk : binding_inv (run k s)) by now apply run_binding_inv.
    apply obs_view. apply run_view_eq.
    - now apply reload_meta_binding_inv.
    - exact Hk.
    - rewrite view_reload_meta by exact Hk. eapply vattach_id; eauto.
  Qed.
End Hist.

(* the route drops the dataset optimiser: when the dataset IS optimised the continued run differs
   (a checkpoint without the data is then outside "saving it together with its data") *)
Definition meta_route_statement : Prop :=
  forall (V G M L R C SS : Type) (Rzero : R)
         (forward : list (list (option V) * C) -> L * list (list (option G)))
         (opt_update : opt_kind -> R -> V -> G -> option (pstate M) -> V * option (pstate M))
         (sched_step : SS -> nat -> L -> R -> SS * R)
         (i : nat) (c : C) (dev : bool) (k m : nat) (s : st V M L R C SS) (md : mdl C),
    binding_inv s -> nth_error (models (rc (C05_Model.run Rzero forward opt_update sched_step k s))) i = Some md ->
    mcons md = c ->
    obs (C05_Model.run Rzero forward opt_update sched_step m
           (reload_meta false i c dev (C05_Model.run Rzero forward opt_update sched_step k s)))
    = obs (C05_Model.run Rzero forward opt_update sched_step (k + m) s).

Lemma meta_route_refuted : ~ meta_route_statement.
Proof.
  intros H.
  specialize (H Witness.V Witness.G Witness.M Witness.L Witness.R Witness.C Witness.SS 0%Z
                (Witness.forward Witness.mask_all) Witness.opt_update Witness.sched_step
                1 7%Z false 1 1 Witness.s0 _ Witness.s0_binding_inv eq_refl eq_refl).
  vm_compute in H. discriminate H.
Qed.

Print Assumptions view_run_ops.
Print Assumptions interruptions_erasable.
Print Assumptions multi_interrupt_equiv.
Print Assumptions resume_equiv_reachable.
Print Assumptions reload_meta_reported.
Print Assumptions reload_meta_resume_equiv.
Print Assumptions meta_route_refuted.
