(* C03 — proofs about model/C03_Model.v *)
From Coq Require Import QArith String.
From QV.lib Require Import Prelude C03_Slice.
From QV.model Require Import C03_Model.
From Coq Require Import List.
Import ListNotations.
Local Close Scope Q_scope.
Lemma stub : True. Proof. exact I. Qed.
