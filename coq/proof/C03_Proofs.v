(* C03 — the theorems of props/C03_Properties.v, stated for every state reachable from the
   empty state by any sequence of operations (errors included: an exception changes nothing). *)
From Coq Require Import QArith String.
From QV.lib Require Import Prelude C03_Slice.
From QV.model Require Import C03_Model.
From QV.proof Require Export C03_Proofs_Base C03_Proofs_Ops C03_Proofs_Step C03_Proofs_Getitem
  C03_Proofs_Getitem2.
From Coq Require Import List.
Import ListNotations.
Local Close Scope Q_scope.
Local Open Scope list_scope.

Section Reachable.
  Variable FR : list Z -> list Z -> list nat -> list Z -> list Z.
  Variable divf : Z -> Z -> Z.
  Variable ops : list op.
  Let s := run FR divf empty_state ops.

  Lemma reach_Inv : Inv s.
  Proof. apply coherent_reachable. Qed.

  Lemma reach_coherent t :
    t < length (dss s) ->
    let o := observe s t in
    length (o_origin o) = length (o_shape o) /\ length (o_sampling o) = length (o_shape o) /\
    length (o_units o) = length (o_shape o) /\ cls_ok (o_cls o) (length (o_shape o)).
  Proof. intros Ht. apply Inv_unfold; [apply reach_Inv|exact Ht]. Qed.

  Lemma reach_getitem t idx s' :
    t < length (dss s) -> getitem s t idx = Ok s' ->
    let src := observe s t in
    let res := observe s' (length (dss s)) in
    exists v, np_index (o_shape src) (o_flat src) idx = Ok v /\
      length (dss s') = S (length (dss s)) /\
      o_shape res = np_shape v /\ o_flat res = np_flat v /\
      o_origin res = map (fun ax => nth (oax_src ax) (o_origin src) 0%Q) (np_axes v) /\
      Forall2 Qeq (o_sampling res)
              (map (fun ax => (nth (oax_src ax) (o_sampling src) 1 * inject_Z (oax_step ax))%Q) (np_axes v)) /\
      o_units res = map (fun ax => nth (oax_src ax) (o_units src) ""%string) (np_axes v) /\
      o_cls res = (if length (np_shape v) =? length (o_shape src) then o_cls src
                   else registry (length (np_shape v))).
  Proof. intros Ht H. apply (getitem_correct s t idx s' H reach_Inv Ht). Qed.

  Lemma reach_getitem_data t idx s' :
    t < length (dss s) -> getitem s t idx = Ok s' ->
    exists v, np_index (o_shape (observe s t)) (o_flat (observe s t)) idx = Ok v /\
      o_shape (observe s' (length (dss s))) = np_shape v /\
      o_flat (observe s' (length (dss s))) = np_flat v.
  Proof.
    intros Ht H. destruct (reach_getitem t idx s' Ht H) as (v & H1 & _ & H2 & H3 & _).
    exists v. repeat split; assumption.
  Qed.

  Lemma reach_source_untouched o s' :
    step FR divf s o = Ok s' -> returns_new o = true ->
    length (dss s') = S (length (dss s)) /\
    forall t, t < length (dss s) -> get_ds s' t = get_ds s t /\ observe s' t = observe s t.
  Proof. intros H Hr. apply (source_untouched FR divf s o s' H reach_Inv Hr). Qed.

  Lemma reach_others_untouched o s' t :
    step FR divf s o = Ok s' -> returns_new o = false -> op_target o = Some t ->
    length (dss s') = length (dss s) /\
    forall u, u < length (dss s) -> u <> t -> get_ds s' u = get_ds s u /\ observe s' u = observe s u.
  Proof. intros H Hr Ho. apply (others_untouched FR divf s o s' t H reach_Inv Hr Ho). Qed.

  Lemma reach_no_buffer_writes o s' :
    step FR divf s o = Ok s' ->
    (forall i, i < length (arrs s) -> get_arr s' i = get_arr s i) /\
    (forall i, i < length (nums s) -> get_num s' i = get_num s i) /\
    (forall i, i < length (strs s) -> get_str s' i = get_str s i).
  Proof. intros H. apply (no_buffer_writes FR divf s o s' H reach_Inv). Qed.

  Lemma reach_inplace_eq_copy o t :
    has_flag o = true -> op_target o = Some t -> t < length (dss s) ->
    match step FR divf s (with_flag o true), step FR divf s (with_flag o false) with
    | Ok s1, Ok s2 => observe s1 t = observe s2 (length (dss s))
    | Err e1, Err e2 => e1 = e2
    | _, _ => False
    end.
  Proof. intros Hf Ho Ht. apply (inplace_eq_copy FR divf s o t reach_Inv Hf Ho Ht). Qed.
End Reachable.
