(* C13 — proofs about the arithmetic of model/C13_Model.v (Q / Z / nat; no axioms).
   The DFT-based theorems (abstract ring) are in proof/C13_Proofs_DFT.v. *)
From QV.lib Require Import Prelude.
From QV.model Require Import C13_Model.
From Coq Require Import QArith Qround Qabs Psatz.
Local Close Scope Q_scope.
Set Implicit Arguments.

Local Notation "x ==q y" := (Qeq x y) (at level 70, no associativity).

(* ---------------------------------------------------------------- Q helpers *)
Lemma Qltb_spec x y : Qltb x y = true <-> (x < y)%Q.
Proof.
  unfold Qltb. rewrite negb_true_iff. split.
  - intros H. apply Qnot_le_lt. intros C. apply Qle_bool_iff in C. congruence.
  - intros H. destruct (Qle_bool y x) eqn:E; [|reflexivity].
    apply Qle_bool_iff in E. exfalso. exact (Qlt_not_le _ _ H E).
Qed.

Lemma Qltb_false x y : Qltb x y = false <-> (y <= x)%Q.
Proof.
  split.
  - intros H. apply Qnot_lt_le. intros C. apply Qltb_spec in C. congruence.
  - intros H. destruct (Qltb x y) eqn:E; [|reflexivity].
    apply Qltb_spec in E. exfalso. exact (Qlt_not_le _ _ E H).
Qed.

Lemma qN_pos n : 0 < n -> (0 < qN n)%Q.
Proof. intros H. unfold qN. change 0%Q with (inject_Z 0). rewrite <- Zlt_Qlt. lia. Qed.

Lemma qN_nonneg n : (0 <= qN n)%Q.
Proof. unfold qN. change 0%Q with (inject_Z 0). rewrite <- Zle_Qle. lia. Qed.

Lemma qN_lt a b : a < b -> (qN a < qN b)%Q.
Proof. intros H. unfold qN. rewrite <- Zlt_Qlt. lia. Qed.

Lemma qN_le a b : a <= b -> (qN a <= qN b)%Q.
Proof. intros H. unfold qN. rewrite <- Zle_Qle. lia. Qed.

Lemma inject_Z_minus (a b : Z) : inject_Z (a - b) ==q (inject_Z a - inject_Z b)%Q.
Proof. unfold Z.sub. rewrite inject_Z_plus, inject_Z_opp. ring. Qed.

(* lra/nra do not know division: x / 2 is x * (1 # 2) *)
Ltac halves := unfold Qdiv in *; change (/ 2)%Q with (1 # 2)%Q in *.

(* an integer multiple of n that lies strictly between -n and n is 0 *)
Lemma int_multiple_small (n : Q) (k : Z) :
  (0 < n)%Q -> (- n < n * inject_Z k)%Q -> (n * inject_Z k < n)%Q -> k = 0%Z.
Proof.
  intros Hn H1 H2.
  assert (A : (inject_Z (-1) < inject_Z k)%Q).
  { change (inject_Z (-1)) with (-1)%Q. nra. }
  assert (B : (inject_Z k < inject_Z 1)%Q).
  { change (inject_Z 1) with 1%Q. nra. }
  rewrite <- Zlt_Qlt in A, B. lia.
Qed.

(* ---------------------------------------------------------------- x % n *)
Lemma qmod_range x n : 0 < n -> (0 <= qmod x n /\ qmod x n < qN n)%Q.
Proof.
  intros Hn. pose proof (qN_pos Hn) as Hp. unfold qmod.
  set (m := qN n) in *.
  set (y := (x / m)%Q).
  assert (E : x ==q (y * m)%Q) by (unfold y; field; lra).
  pose proof (Qfloor_le y) as H1. pose proof (Qlt_floor y) as H2.
  rewrite inject_Z_plus in H2. change (inject_Z 1) with 1%Q in H2.
  set (F := inject_Z (Qfloor y)) in *. clearbody F y. split; nra.
Qed.

Lemma qmod_cong x n : exists k : Z, qmod x n ==q (x + qN n * inject_Z k)%Q.
Proof.
  exists (- Qfloor (x / qN n))%Z. unfold qmod. rewrite inject_Z_opp. ring.
Qed.

Lemma qmod_unique x n r (k : Z) :
  0 < n -> (0 <= r)%Q -> (r < qN n)%Q -> r ==q (x + qN n * inject_Z k)%Q -> r ==q qmod x n.
Proof.
  intros Hn H0 H1 Hk. pose proof (qN_pos Hn) as Hp.
  destruct (qmod_range x Hn) as [A B]. destruct (qmod_cong x n) as [k' Hk'].
  assert (Z0 : (k - k')%Z = 0%Z).
  { apply (int_multiple_small (n := qN n)); [exact Hp| |]; rewrite inject_Z_minus; nra. }
  assert (k = k') by lia. subst k'. rewrite Hk, Hk'. reflexivity.
Qed.

(* ---------------------------------------------------------------- centring *)
Lemma centre_range n t : 0 < n -> (- (qN n / 2) <= centre n t /\ centre n t < qN n / 2)%Q.
Proof.
  intros Hn. unfold centre. destruct (qmod_range (t + qN n / 2)%Q Hn) as [A B]. halves. split; lra.
Qed.

Lemma centre_cong n t : exists k : Z, centre n t ==q (t + qN n * inject_Z k)%Q.
Proof.
  unfold centre. destruct (qmod_cong (t + qN n / 2)%Q n) as [k Hk]. exists k. rewrite Hk. ring.
Qed.

Lemma centre_unique n t c (k : Z) :
  0 < n -> (- (qN n / 2) <= c)%Q -> (c < qN n / 2)%Q -> c ==q (t + qN n * inject_Z k)%Q ->
  c ==q centre n t.
Proof.
  intros Hn H0 H1 Hk. pose proof (qN_pos Hn) as Hp.
  destruct (centre_range t Hn) as [A B]. destruct (centre_cong n t) as [k' Hk'].
  assert (Z0 : (k - k')%Z = 0%Z).
  { halves. apply (int_multiple_small (n := qN n)); [exact Hp| |]; rewrite inject_Z_minus; nra. }
  assert (k = k') by lia. subst k'. rewrite Hk, Hk'. reflexivity.
Qed.

(* centring only depends on the class modulo n *)
Lemma centre_congruent n t t' (k : Z) :
  0 < n -> t' ==q (t + qN n * inject_Z k)%Q -> centre n t' ==q centre n t.
Proof.
  intros Hn Hk. destruct (centre_range t' Hn) as [A B]. destruct (centre_cong n t') as [k' Hk'].
  apply (centre_unique (k := (k + k')%Z) Hn A B).
  rewrite Hk', Hk, inject_Z_plus. ring.
Qed.

Lemma centre_comp n t t' : 0 < n -> t ==q t' -> centre n t ==q centre n t'.
Proof.
  intros Hn E. apply (centre_congruent (k := 0%Z) Hn). rewrite E. change (inject_Z 0) with 0%Q. ring.
Qed.

Lemma centre_qmod n x : 0 < n -> centre n (qmod x n) ==q centre n x.
Proof.
  intros Hn. destruct (qmod_cong x n) as [k Hk]. exact (centre_congruent Hn Hk).
Qed.

(* negation, away from the single asymmetric point -n/2 of the half-open cell *)
Lemma centre_neg n t t' (k : Z) :
  0 < n -> ~ centre n t ==q (- (qN n / 2))%Q -> t' ==q (- t + qN n * inject_Z k)%Q ->
  centre n t' ==q (- centre n t)%Q.
Proof.
  intros Hn Hb Hk. destruct (centre_range t Hn) as [A B]. destruct (centre_cong n t) as [k' Hk'].
  symmetry. apply (centre_unique (k := (- k - k')%Z) Hn).
  - halves. lra.
  - destruct (Qlt_le_dec (- (qN n / 2)) (centre n t)) as [L|L]; [halves; lra|].
    exfalso. apply Hb. halves. lra.
  - rewrite Hk, Hk', inject_Z_minus, inject_Z_opp. ring.
Qed.

(* the centred representative of an integer index p in [0, n) is fz n p (= fftfreq(n, 1/n)[p]) *)
Lemma centre_of_index n p : p < n -> centre n (qN p) ==q inject_Z (fz n p).
Proof.
  intros Hp. assert (Hn : 0 < n) by lia. symmetry. unfold fz.
  destruct (2 * Z.of_nat p <? Z.of_nat n)%Z eqn:E.
  - apply Z.ltb_lt in E.
    assert (E' : (inject_Z (2 * Z.of_nat p) < inject_Z (Z.of_nat n))%Q) by (rewrite <- Zlt_Qlt; exact E).
    rewrite inject_Z_mult in E'. change (inject_Z 2) with 2%Q in E'. fold (qN p) in E'. fold (qN n) in E'.
    pose proof (qN_nonneg p). pose proof (qN_pos Hn).
    apply (centre_unique (k := 0%Z) Hn); fold (qN p); try (halves; lra).
    change (inject_Z 0) with 0%Q. ring.
  - apply Z.ltb_ge in E.
    assert (E' : (inject_Z (Z.of_nat n) <= inject_Z (2 * Z.of_nat p))%Q) by (rewrite <- Zle_Qle; exact E).
    rewrite inject_Z_mult in E'. change (inject_Z 2) with 2%Q in E'. fold (qN p) in E'. fold (qN n) in E'.
    pose proof (qN_lt Hp). pose proof (qN_pos Hn).
    rewrite inject_Z_minus. fold (qN p). fold (qN n).
    apply (centre_unique (k := (-1)%Z) Hn); try (halves; lra).
    change (inject_Z (-1)) with (-1)%Q. ring.
Qed.

(* x % n of something equal to an index in range is that index *)
Lemma qmod_index n p x : p < n -> x ==q qN p -> qmod x n ==q qN p.
Proof.
  intros Hp E. assert (Hn : 0 < n) by lia. symmetry.
  apply (qmod_unique (k := 0%Z) Hn (qN_nonneg p) (qN_lt Hp)).
  rewrite E. change (inject_Z 0) with 0%Q. ring.
Qed.

(* ---------------------------------------------------------------- parabolas *)
Lemma parab_symmetric v0 v1 v2 d : v0 ==q v2 -> parab v0 v1 v2 = Some d -> d ==q 0%Q.
Proof.
  unfold parab. intros E H. destruct (Qeq_bool _ 0); [discriminate|]. inversion H; subst.
  assert (Z0 : (v2 - v0 ==q 0)%Q) by lra. rewrite Z0. unfold Qdiv. ring.
Qed.

Lemma tparab_symmetric v0 v1 v2 : v0 ==q v2 -> tparab v0 v1 v2 ==q 0%Q.
Proof.
  unfold tparab. intros E. destruct (Qeq_bool _ 0); [reflexivity|].
  assert (Z0 : (v2 - v0 ==q 0)%Q) by lra. rewrite Z0. unfold Qdiv. ring.
Qed.

(* a strict peak has a non-zero denominator, and the vertex lies within half a sample *)
Lemma parab_peak v0 v1 v2 :
  (v0 < v1)%Q -> (v2 < v1)%Q ->
  exists d, parab v0 v1 v2 = Some d /\ (- (1 # 2) < d)%Q /\ (d < 1 # 2)%Q.
Proof.
  intros H0 H2. unfold parab. set (D := (4 * v1 - 2 * v2 - 2 * v0)%Q).
  assert (HD : (0 < D)%Q) by (unfold D; lra).
  destruct (Qeq_bool D 0) eqn:E.
  - apply Qeq_bool_eq in E. lra.
  - eexists. split; [reflexivity|]. split.
    + apply Qlt_shift_div_l; [exact HD | unfold D; lra].
    + apply Qlt_shift_div_r; [exact HD | unfold D; lra].
Qed.

(* the middle sample is a (weak) maximum and the denominator does not vanish: |vertex| <= 1/2 *)
Lemma parab_within_half v0 v1 v2 d :
  (v0 <= v1)%Q -> (v2 <= v1)%Q -> parab v0 v1 v2 = Some d -> (- (1 # 2) <= d /\ d <= 1 # 2)%Q.
Proof.
  intros H0 H2. unfold parab. set (D := (4 * v1 - 2 * v2 - 2 * v0)%Q).
  destruct (Qeq_bool D 0) eqn:E; [discriminate|]. intros H. inversion H; subst d. clear H.
  apply Qeq_bool_neq in E.
  assert (HD : (0 < D)%Q).
  { destruct (Qlt_le_dec 0 D) as [L|L]; [exact L|]. exfalso. apply E. unfold D in *. lra. }
  split.
  - apply Qle_shift_div_l; [exact HD | unfold D; lra].
  - apply Qle_shift_div_r; [exact HD | unfold D; lra].
Qed.

(* the vertex leans towards the larger neighbour *)
Lemma parab_sign v0 v1 v2 d :
  (v0 <= v1)%Q -> (v2 <= v1)%Q -> parab v0 v1 v2 = Some d ->
  ((v0 < v2 -> 0 < d) /\ (v2 < v0 -> d < 0))%Q.
Proof.
  intros H0 H2. unfold parab. set (D := (4 * v1 - 2 * v2 - 2 * v0)%Q).
  destruct (Qeq_bool D 0) eqn:E; [discriminate|]. intros H. inversion H; subst d. clear H.
  apply Qeq_bool_neq in E.
  assert (HD : (0 < D)%Q).
  { destruct (Qlt_le_dec 0 D) as [L|L]; [exact L|]. exfalso. apply E. unfold D in *. lra. }
  split; intros L.
  - apply Qlt_shift_div_l; [exact HD | lra].
  - apply Qlt_shift_div_r; [exact HD | lra].
Qed.

Lemma parab_comp v0 v1 v2 w0 w1 w2 d :
  v0 ==q w0 -> v1 ==q w1 -> v2 ==q w2 -> parab v0 v1 v2 = Some d ->
  exists d', parab w0 w1 w2 = Some d' /\ d' ==q d.
Proof.
  intros E0 E1 E2. unfold parab.
  assert (ED : (4 * v1 - 2 * v2 - 2 * v0 ==q 4 * w1 - 2 * w2 - 2 * w0)%Q) by (rewrite E0, E1, E2; reflexivity).
  assert (EB : Qeq_bool (4 * v1 - 2 * v2 - 2 * v0) 0 = Qeq_bool (4 * w1 - 2 * w2 - 2 * w0) 0)
    by (apply Qeqb_comp; [exact ED | reflexivity]).
  rewrite <- EB.
  destruct (Qeq_bool _ 0); [discriminate|]. intros H. inversion H; subst d.
  eexists. split; [reflexivity|]. rewrite E0, E1, E2. reflexivity.
Qed.

(* reversing the three samples negates the vertex *)
Lemma parab_reverse v0 v1 v2 d :
  parab v0 v1 v2 = Some d -> exists d', parab v2 v1 v0 = Some d' /\ d' ==q (- d)%Q.
Proof.
  unfold parab.
  assert (ED : (4 * v1 - 2 * v2 - 2 * v0 ==q 4 * v1 - 2 * v0 - 2 * v2)%Q) by ring.
  assert (EB : Qeq_bool (4 * v1 - 2 * v2 - 2 * v0) 0 = Qeq_bool (4 * v1 - 2 * v0 - 2 * v2) 0)
    by (apply Qeqb_comp; [exact ED | reflexivity]).
  rewrite <- EB.
  destruct (Qeq_bool (4 * v1 - 2 * v2 - 2 * v0) 0) eqn:E; [discriminate|].
  apply Qeq_bool_neq in E. intros H. inversion H; subst d.
  eexists. split; [reflexivity|]. rewrite <- ED. field. exact E.
Qed.

(* ---------------------------------------------------------------- argmax *)
Lemma argmax_lt f n : 0 < n -> argmax f n < n.
Proof.
  induction n as [|k IH]; intros H; [lia|]. cbn [argmax].
  destruct k as [|k]; [cbn [argmax]; destruct (Qltb _ _); lia|].
  destruct (Qltb _ _); [lia|]. assert (argmax f (S k) < S k) by (apply IH; lia). lia.
Qed.

Lemma argmax_max f n i : i < n -> (f i <= f (argmax f n))%Q.
Proof.
  induction n as [|k IH]; intros H; [lia|]. cbn [argmax].
  destruct (Qltb (f (argmax f k)) (f k)) eqn:E.
  - apply Qltb_spec in E. destruct (Nat.eq_dec i k) as [->|Hne]; [apply Qle_refl|].
    apply Qle_trans with (f (argmax f k)); [apply IH; lia | apply Qlt_le_weak; exact E].
  - apply Qltb_false in E. destruct (Nat.eq_dec i k) as [->|Hne]; [exact E|]. apply IH. lia.
Qed.

(* the FIRST maximum: everything before it is strictly smaller *)
Lemma argmax_first f n i : i < argmax f n -> (f i < f (argmax f n))%Q.
Proof.
  induction n as [|k IH]; cbn [argmax]; intros H; [lia|].
  destruct (Qltb (f (argmax f k)) (f k)) eqn:E.
  - apply Qltb_spec in E. apply Qle_lt_trans with (f (argmax f k)); [apply argmax_max; lia | exact E].
  - apply IH. exact H.
Qed.

Lemma argmax_unique f n j :
  j < n -> (forall i, i < n -> i <> j -> (f i < f j)%Q) -> argmax f n = j.
Proof.
  intros Hj H. destruct (Nat.eq_dec (argmax f n) j) as [E|E]; [exact E|]. exfalso.
  assert (L : (f (argmax f n) < f j)%Q) by (apply H; [apply argmax_lt; lia | exact E]).
  exact (Qlt_not_le _ _ L (argmax_max f Hj)).
Qed.

(* strict unique maximum of an (nr x nc) array at (p, q) *)
Definition uniq_max (nr nc : nat) (c : nat -> nat -> Q) (p q : nat) : Prop :=
  p < nr /\ q < nc /\
  forall k l, k < nr -> l < nc -> (k, l) <> (p, q) -> (c k l < c p q)%Q.

Lemma flat_index nc p q : q < nc -> (p * nc + q) / nc = p /\ (p * nc + q) mod nc = q.
Proof.
  intros H. split.
  - rewrite Nat.div_add_l by lia. rewrite Nat.div_small by lia. lia.
  - rewrite Nat.add_comm, Nat.mod_add by lia. apply Nat.mod_small. lia.
Qed.

Lemma argmax2_unique nr nc c p q : uniq_max nr nc c p q -> argmax2 nr nc c = (p, q).
Proof.
  intros (Hp & Hq & H). unfold argmax2.
  destruct (flat_index p Hq) as [D Mo].
  assert (A : argmax (flat nc c) (nr * nc) = p * nc + q).
  { apply argmax_unique; [nia|]. intros i Hi Hne. unfold flat. rewrite D, Mo.
    assert (Hnc : nc <> 0) by lia.
    apply H.
    - apply Nat.div_lt_upper_bound; [exact Hnc | lia].
    - apply Nat.mod_upper_bound. exact Hnc.
    - intros C. inversion C as [[C1 C2]]. apply Hne.
      rewrite (Nat.div_mod i nc Hnc), C1, C2. lia. }
  rewrite A, D, Mo. reflexivity.
Qed.

(* ---------------------------------------------------------------- wrap-around neighbours *)
Lemma wrapi_lt n z : 0 < n -> wrapi n z < n.
Proof. intros H. unfold wrapi. pose proof (Z.mod_pos_bound z (Z.of_nat n)). lia. Qed.

Lemma prv_val n i : 2 <= n -> i < n -> prv n i = if Nat.eq_dec i 0 then n - 1 else i - 1.
Proof.
  intros Hn Hi. unfold prv, wrapi. destruct (Nat.eq_dec i 0) as [->|Hne].
  - replace (Z.of_nat 0 - 1)%Z with (-1 * Z.of_nat n + (Z.of_nat n - 1))%Z by lia.
    rewrite Z.add_comm, Z.mod_add by lia. rewrite Z.mod_small by lia. lia.
  - rewrite Z.mod_small by lia. lia.
Qed.

Lemma nxt_val n i : 2 <= n -> i < n -> nxt n i = if Nat.eq_dec (i + 1) n then 0 else i + 1.
Proof.
  intros Hn Hi. unfold nxt, wrapi. destruct (Nat.eq_dec (i + 1) n) as [E|Hne].
  - replace (Z.of_nat i + 1)%Z with (0 + 1 * Z.of_nat n)%Z by lia.
    rewrite Z.mod_add by lia. rewrite Z.mod_small by lia. reflexivity.
  - rewrite Z.mod_small by lia. lia.
Qed.

Lemma prv_props n i : 2 <= n -> i < n -> prv n i < n /\ prv n i <> i.
Proof. intros Hn Hi. rewrite (prv_val Hn Hi). destruct (Nat.eq_dec i 0); lia. Qed.

Lemma nxt_props n i : 2 <= n -> i < n -> nxt n i < n /\ nxt n i <> i.
Proof. intros Hn Hi. rewrite (nxt_val Hn Hi). destruct (Nat.eq_dec (i + 1) n); lia. Qed.

(* ---------------------------------------------------------------- guarded parabola (repaired NumPy) *)
Lemma gparab_some v0 v1 v2 d : parab v0 v1 v2 = Some d -> gparab v0 v1 v2 = Some d.
Proof. intros H. unfold gparab. rewrite H. reflexivity. Qed.

Lemma par_some g v0 v1 v2 d : parab v0 v1 v2 = Some d -> par g v0 v1 v2 = Some d.
Proof. destruct g; cbn [par]; [apply gparab_some | exact (fun H => H)]. Qed.
Arguments gparab_some [v0 v1 v2 d] _.
Arguments par_some g [v0 v1 v2 d] _.

(* the repaired parabola is total ... *)
Lemma gparab_total v0 v1 v2 : exists d, gparab v0 v1 v2 = Some d.
Proof. unfold gparab. destruct (parab v0 v1 v2) as [d|]; eexists; reflexivity. Qed.

(* ... and is the torch parabola *)
Lemma gparab_tparab v0 v1 v2 : gparab v0 v1 v2 = Some (tparab v0 v1 v2).
Proof. unfold gparab, parab, tparab. destruct (Qeq_bool _ 0); reflexivity. Qed.

(* ---------------------------------------------------------------- argmax with -inf entries *)
Definition olt (a b : option Q) : Prop :=
  match a, b with
  | _, None => False
  | None, Some _ => True
  | Some x, Some y => (x < y)%Q
  end.
Definition ole (a b : option Q) : Prop :=
  match a, b with
  | None, _ => True
  | Some _, None => False
  | Some x, Some y => (x <= y)%Q
  end.

Lemma oltb_spec a b : oltb a b = true <-> olt a b.
Proof.
  destruct a as [x|], b as [y|]; cbn [oltb olt]; try (apply Qltb_spec);
    (split; [try discriminate; auto | try tauto; auto]).
Qed.

Lemma oltb_false a b : oltb a b = false <-> ole b a.
Proof.
  destruct a as [x|], b as [y|]; cbn [oltb ole]; try (apply Qltb_false);
    (split; [try discriminate; auto | try tauto; auto]).
Qed.

Lemma ole_refl a : ole a a.
Proof. destruct a; cbn; [apply Qle_refl | exact I]. Qed.

Lemma ole_trans a b c : ole a b -> ole b c -> ole a c.
Proof.
  destruct a as [x|], b as [y|], c as [z|]; cbn; auto; try tauto. apply Qle_trans.
Qed.

Lemma olt_ole a b : olt a b -> ole a b.
Proof. destruct a as [x|], b as [y|]; cbn; auto. apply Qlt_le_weak. Qed.

Lemma olt_not_ole a b : olt a b -> ole b a -> False.
Proof. destruct a as [x|], b as [y|]; cbn; auto. intros H1 H2. exact (Qlt_not_le _ _ H1 H2). Qed.

Lemma argmaxo_lt f n : 0 < n -> argmaxo f n < n.
Proof.
  induction n as [|k IH]; intros H; [lia|]. cbn [argmaxo].
  destruct k as [|k]; [cbn [argmaxo]; destruct (oltb _ _); lia|].
  destruct (oltb _ _); [lia|]. assert (argmaxo f (S k) < S k) by (apply IH; lia). lia.
Qed.

Lemma argmaxo_max f n i : i < n -> ole (f i) (f (argmaxo f n)).
Proof.
  induction n as [|k IH]; intros H; [lia|]. cbn [argmaxo].
  destruct (oltb (f (argmaxo f k)) (f k)) eqn:E.
  - apply oltb_spec in E. destruct (Nat.eq_dec i k) as [->|Hne]; [apply ole_refl|].
    apply ole_trans with (f (argmaxo f k)); [apply IH; lia | apply olt_ole; exact E].
  - apply oltb_false in E. destruct (Nat.eq_dec i k) as [->|Hne]; [exact E|]. apply IH. lia.
Qed.

Lemma argmaxo_unique f n j :
  j < n -> (forall i, i < n -> i <> j -> olt (f i) (f j)) -> argmaxo f n = j.
Proof.
  intros Hj H. destruct (Nat.eq_dec (argmaxo f n) j) as [E|E]; [exact E|]. exfalso.
  assert (L : olt (f (argmaxo f n)) (f j)) by (apply H; [apply argmaxo_lt; lia | exact E]).
  exact (olt_not_ole _ _ L (argmaxo_max f Hj)).
Qed.

Definition uniq_maxo (nr nc : nat) (c : nat -> nat -> option Q) (p q : nat) : Prop :=
  p < nr /\ q < nc /\
  forall k l, k < nr -> l < nc -> (k, l) <> (p, q) -> olt (c k l) (c p q).

Lemma argmax2o_unique nr nc c p q : uniq_maxo nr nc c p q -> argmax2o nr nc c = (p, q).
Proof.
  intros (Hp & Hq & H). unfold argmax2o.
  destruct (flat_index p Hq) as [D Mo].
  assert (A : argmaxo (flato nc c) (nr * nc) = p * nc + q).
  { apply argmaxo_unique; [nia|]. intros i Hi Hne. unfold flato. rewrite D, Mo.
    assert (Hnc : nc <> 0) by lia.
    apply H.
    - apply Nat.div_lt_upper_bound; [exact Hnc | lia].
    - apply Nat.mod_upper_bound. exact Hnc.
    - intros C. inversion C as [[C1 C2]]. apply Hne.
      rewrite (Nat.div_mod i nc Hnc), C1, C2. lia. }
  rewrite A, D, Mo. reflexivity.
Qed.
