(* C11 — third proof file (coverage extension): the public attribute setters (fields / units / shape /
   data), _FieldView.__getitem__, __getitem__ with more indices than fixed dimensions, and the
   save + load round trip.  The invariant for these operations is part of vec_inv_reachable
   (C11_Proofs.step_inv); here: what each of them does to the state. *)
From QV.lib Require Import Prelude C11_Heap.
From QV.model Require Import C11_Model.
From QV.proof Require Import C11_Proofs C11_Proofs_Hist.
From Coq Require Import QArith.
Local Close Scope Q_scope.

(* ================================================================ v.fields = value *)
(* either rejected with the state untouched, or a pure renaming: as many unique names as before, the
   units / shape / data / metadata dict of the vector, the heap and every other vector unchanged *)
Theorem set_fields_spec s vi a s' r :
  step s (OSetFields vi a) = (s', r) ->
  (r = RNone /\
   exists v l, nth_error (vecs s) vi = Some v /\ a = NList l /\ NoDup l /\ length l = length (vfields v) /\
     heap s' = heap s /\ nmeta s' = nmeta s /\
     vecs s' = upd_nth vi (mkVec (vshape v) l (vunits v) (vdata v) (vmeta v)) (vecs s))
  \/ (r <> RNone /\ s' = s).
Proof.
  simpl. unfold op_set_fields. intros H.
  destruct (nth_error (vecs s) vi) as [v|] eqn:Hv.
  2:{ inversion H; subst. right. split; [discriminate|reflexivity]. }
  destruct a as [| |l]; try (inversion H; subst; right; split; [discriminate|reflexivity]).
  destruct (nodupb l && (length l =? length (vfields v))) eqn:E.
  - inversion H; subst. left. split; [reflexivity|]. apply andb_true_iff in E. destruct E as [En El].
    exists v, l. repeat split; auto. + apply nodupb_NoDup. exact En. + apply Nat.eqb_eq. exact El.
  - inversion H; subst. right. split; [discriminate|reflexivity].
Qed.

(* ================================================================ v.units = value *)
Theorem set_units_spec s vi a s' r :
  step s (OSetUnits vi a) = (s', r) ->
  (r = RNone /\
   exists v us, nth_error (vecs s) vi = Some v /\ length us = length (vfields v) /\
     (a = NNone /\ us = repeat 0%Z (length (vfields v)) \/ a = NList us) /\
     heap s' = heap s /\ nmeta s' = nmeta s /\
     vecs s' = upd_nth vi (mkVec (vshape v) (vfields v) us (vdata v) (vmeta v)) (vecs s))
  \/ (r <> RNone /\ s' = s).
Proof.
  simpl. unfold op_set_units. intros H.
  destruct (nth_error (vecs s) vi) as [v|] eqn:Hv.
  2:{ inversion H; subst. right. split; [discriminate|reflexivity]. }
  destruct a as [| |l].
  - inversion H; subst. right. split; [discriminate|reflexivity].
  - inversion H; subst. left. split; [reflexivity|]. exists v, (repeat 0%Z (length (vfields v))).
    repeat split; auto. apply repeat_length.
  - destruct (length l =? length (vfields v)) eqn:El.
    + inversion H; subst. left. split; [reflexivity|]. exists v, l. apply Nat.eqb_eq in El. repeat split; auto.
    + inversion H; subst. right. split; [discriminate|reflexivity].
Qed.

(* ================================================================ v.shape = value *)
(* never changes anything; it is accepted only for the (positive) shape the vector already has *)
Theorem set_shape_inert s vi sh :
  fst (step s (OSetShape vi sh)) = s /\
  (snd (step s (OSetShape vi sh)) = RNone ->
   exists v l, nth_error (vecs s) vi = Some v /\ sh = Some l /\ map Z.to_nat l = vshape v /\
               Forall (fun d => 0 < d)%Z l).
Proof.
  split; [apply op_set_shape_same|]. simpl. unfold op_set_shape.
  destruct (nth_error (vecs s) vi) as [v|]; [|discriminate].
  destruct sh as [l|]; [|discriminate].
  destruct (existsb (fun d => (d <=? 0)%Z) l) eqn:E; [discriminate|].
  destruct (list_eq_dec Nat.eq_dec (map Z.to_nat l) (vshape v)) as [Heq|]; [|discriminate].
  intros _. exists v, l. repeat split; auto.
  apply Forall_forall. intros d Hd.
  destruct (Z.leb_spec d 0) as [Hle|Hgt]; [|exact Hgt].
  assert (existsb (fun d => (d <=? 0)%Z) l = true); [|congruence].
  apply existsb_exists. exists d. split; [exact Hd|]. apply Z.leb_le. exact Hle.
Qed.

(* ================================================================ v.data = value *)
Lemma check_val_inr h nf x id : check_val h nf x = inr id -> x = VId id.
Proof.
  destruct x as [| |i]; simpl; try discriminate.
  destruct (ncols_at h i) as [k|]; [|discriminate]. destruct (k =? nf); [|discriminate]. congruence.
Qed.

Lemma Forall2_nth_error_r (A B : Type) (R : A -> B -> Prop) : forall l l' i y,
  Forall2 R l l' -> nth_error l' i = Some y -> exists x, nth_error l i = Some x /\ R x y.
Proof.
  intros l l' i y H. revert i. induction H as [|a b r r' Hab Hr IH]; intros i Hi.
  - destruct i; discriminate.
  - destruct i as [|i]; simpl in *.
    + inversion Hi; subst. exists a. auto.
    + apply IH. exact Hi.
Qed.

(* every cell of the validated data is the array that was given at the same address of the argument *)
Lemma vcheck_get rv h nf : forall sh t t',
  vcheck rv h nf sh t = inr t' ->
  forall p lf, tget t' p = Some lf ->
    exists i id, tget t p = Some (Some i) /\ nth_error rv i = Some (VId id) /\ lf = Some id.
Proof.
  induction sh as [|n sh IH]; intros t t' H p lf Hp; simpl in H.
  - destruct t as [[i|]|l]; try discriminate.
    destruct (nth_error rv i) as [x|] eqn:Ex; [|discriminate].
    destruct (check_val h nf x) as [e|id] eqn:Ec; [discriminate|]. inversion H; subst t'.
    destruct p as [|? ?]; simpl in Hp; [|discriminate]. inversion Hp; subst lf.
    exists i, id. apply check_val_inr in Ec. subst x. auto.
  - destruct t as [c|l]; [discriminate|].
    destruct (length l =? n); [|discriminate].
    destruct (mapE (vcheck rv h nf sh) l) as [e|l'] eqn:Em; [discriminate|]. inversion H; subst t'.
    apply mapE_Forall2 in Em.
    destruct p as [|j p']; simpl in Hp; [discriminate|].
    destruct (nth_error l' j) as [c'|] eqn:Ej; [|discriminate].
    destruct (Forall2_nth_error_r _ _ _ l l' j c' Em Ej) as [c [Hc Hcc]].
    destruct (IH c c' Hcc p' lf Hp) as (i & id & H1 & H2 & H3).
    exists i, id. simpl. rewrite Hc. auto.
Qed.

Theorem set_data_attr_spec s vi skel items s' :
  step s (OSetDataAttr vi skel items) = (s', RNone) ->
  exists v w rv,
    nth_error (vecs s) vi = Some v /\ eval_avals (vecs s) (heap s) items = (heap s', rv) /\
    vecs s' = upd_nth vi w (vecs s) /\
    vshape w = vshape v /\ vfields w = vfields v /\ vunits w = vunits v /\ vmeta w = vmeta v /\
    shaped (vshape v) (vdata w) /\
    forall p lf, tget (vdata w) p = Some lf ->
      exists i id, tget skel p = Some (Some i) /\ nth_error rv i = Some (VId id) /\ lf = Some id.
Proof.
  simpl. unfold op_set_data_attr. intros H.
  destruct (nth_error (vecs s) vi) as [v|] eqn:Hv; [|discriminate].
  destruct (vshape v) as [|n sh] eqn:Esh; [discriminate|].
  destruct (eval_avals (vecs s) (heap s) items) as [h rv] eqn:Ee.
  destruct (vcheck rv h (length (vfields v)) (n :: sh) skel) as [e|t] eqn:Ec; [discriminate|].
  inversion H; subst s'. clear H.
  exists v, (with_data v t), rv. unfold set_vec. cbn [heap vecs with_data vshape vfields vunits vmeta vdata].
  repeat split; auto.
  - rewrite Esh. exact (proj1 (vcheck_ok _ _ _ _ _ _ Ec)).
  - apply (vcheck_get _ _ _ _ _ _ Ec).
Qed.

(* a rejected assignment leaves the state untouched *)
Theorem set_data_attr_rejected s vi skel items s' e :
  step s (OSetDataAttr vi skel items) = (s', RErr e) -> s' = s.
Proof.
  simpl. unfold op_set_data_attr. intros H.
  destruct (nth_error (vecs s) vi) as [v|]; [|discriminate].
  destruct (vshape v) as [|n sh]; [discriminate|].
  destruct (eval_avals (vecs s) (heap s) items) as [h rv].
  destruct (vcheck rv h (length (vfields v)) (n :: sh) skel) as [e'|t]; [|discriminate].
  inversion H. reflexivity.
Qed.

(* ================================================================ _FieldView.__getitem__ *)
Theorem field_get_cell s vi v name k idx :
  nth_error (vecs s) vi = Some v -> index_of name (vfields v) = Some k ->
  (forall id c, step s (OGetItem vi idx) = (s, RCell (Some id)) -> nth_error (heap s) id = Some c ->
                step s (OFieldGet vi name idx) = (s, RCol (col k c))) /\
  (step s (OGetItem vi idx) = (s, RCell None) -> step s (OFieldGet vi name idx) = (s, RNone)).
Proof.
  intros Hv Hk. simpl. unfold op_field_get. rewrite Hv, Hk. split.
  - intros id c -> Hc. rewrite Hc. reflexivity.
  - intros ->. reflexivity.
Qed.

Lemma cart_seq_range : forall (idxs : list (list nat)) o,
  In o (ndindex (map (@length nat) idxs)) -> Forall2 (fun k js => k < length js) o idxs.
Proof.
  unfold ndindex. induction idxs as [|js rest IH]; intros o Ho; simpl in Ho.
  - destruct Ho as [<-|[]]. constructor.
  - apply in_flat_map in Ho. destruct Ho as [i [Hi Ho]]. apply in_map_iff in Ho.
    destruct Ho as [o' [<- Ho']]. constructor; [|apply IH; exact Ho'].
    apply in_seq in Hi. lia.
Qed.

(* v[name][slice]: the field view of the slice; its flatten() is the concatenation of that column over
   the ADDRESSED cells of v, in np.ndindex order of the slice *)
Theorem field_get_slice s vi v name k idx s' :
  SInv s -> nth_error (vecs s) vi = Some v -> index_of name (vfields v) = Some k ->
  step s (OGetItem vi idx) = (s', RNew) ->
  step s (OFieldGet vi name idx) = (s', RNew) /\
  exists raw idxs,
    resolve_raw (vshape v) (idx ++ repeat (ISlice None None None) (length (vshape v) - length idx)) = Some raw /\
    resolve_take (vshape v) raw = inr idxs /\
    step s' (OFieldFlatten (length (vecs s)) name) =
      (s', RCol (flat_map (cell_col k (heap s))
                          (map (fun o => tget (vdata v) (src_of idxs o)) (ndindex (map (@length nat) idxs))))).
Proof.
  intros HS Hv Hk Hg. split.
  - simpl in *. unfold op_field_get. rewrite Hv, Hk, Hg. reflexivity.
  - assert (HS' : SInv s') by (pose proof (step_inv s (OGetItem vi idx) HS) as X; rewrite Hg in X; exact X).
    destruct (slice_addresses_cells s vi v idx s' HS Hv Hg) as (raw & idxs & w & Hraw & Htake & Hvs & Hh & Hsh & Hf & _ & Hcells).
    exists raw, idxs. split; [exact Hraw|]. split; [exact Htake|].
    assert (Hw : nth_error (vecs s') (length (vecs s)) = Some w) by (rewrite Hvs; apply nth_error_alloc_new).
    assert (Hkw : index_of name (vfields w) = Some k) by (rewrite Hf; exact Hk).
    destruct (flatten_is_rowmajor_concat s' (length (vecs s)) w name k HS' Hw Hkw) as [E _].
    rewrite E, Hh, Hsh. do 3 f_equal. apply map_ext_in. intros o Ho.
    destruct (Hcells o (cart_seq_range idxs o Ho)) as [lf [H1 H2]]. congruence.
Qed.

(* ================================================================ __getitem__ with too many indices *)
Lemma resolve_raw_firstn : forall sh idx, resolve_raw sh (firstn (length sh) idx) = resolve_raw sh idx.
Proof.
  induction sh as [|n sh IH]; intros idx; simpl.
  - destruct idx; reflexivity.
  - destruct idx as [|x rest]; simpl; [reflexivity|]. rewrite IH. reflexivity.
Qed.

(* when some index on a fixed dimension is a slice or a list, the indices beyond the fixed dimensions are
   dropped: the result is that of the truncated index expression (so C11_slice_addresses_cells applies) *)
Theorem getitem_extra_indices_dropped s vi v idx :
  nth_error (vecs s) vi = Some v -> length (vshape v) < length idx ->
  forallb is_int (firstn (length (vshape v)) idx) = false ->
  step s (OGetItem vi idx) = step s (OGetItem vi (firstn (length (vshape v)) idx)).
Proof.
  intros Hv Hlt Hni. simpl. unfold op_getitem. rewrite Hv.
  assert (Hl : length (firstn (length (vshape v)) idx) = length (vshape v)) by (apply firstn_length_le; lia).
  rewrite Hl, Nat.eqb_refl, Hni, Nat.ltb_irrefl. cbn [andb].
  destruct (Nat.eqb_spec (length idx) (length (vshape v))) as [Heq|_]; [lia|]. cbn [andb].
  destruct (Nat.ltb_spec (length (vshape v)) (length idx)) as [_|Hge]; [|lia]. cbn [andb].
  replace (length (vshape v) - length idx) with 0 by lia. rewrite Nat.sub_diag. cbn [repeat].
  rewrite !app_nil_r, resolve_raw_firstn. reflexivity.
Qed.

(* ================================================================ save + load *)
Lemma realloc_id_vals : forall ls h h' ls',
  Forall (fun lf : leaf => forall id, lf = Some id -> id < length h) ls ->
  lmapfold (realloc (fun c => c)) h ls = (h', ls') ->
  (exists l, h' = h ++ l) /\
  Forall (fun lf : leaf => forall id, lf = Some id -> length h <= id < length h') ls' /\
  map (leaf_val h') ls' = map (leaf_val h) ls.
Proof.
  induction ls as [|lf ls IH]; intros h h' ls' Hl H; cbn [lmapfold] in H.
  - inversion H; subst. split; [exists []; rewrite app_nil_r; reflexivity|]. split; [constructor|reflexivity].
  - assert (Hlf : forall id, lf = Some id -> id < length h) by (inversion Hl; assumption).
    assert (Hls : Forall (fun lf : leaf => forall id, lf = Some id -> id < length h) ls) by (inversion Hl; assumption).
    destruct (realloc (fun c => c) h lf) as [h1 lf'] eqn:Er.
    destruct (lmapfold (realloc (fun c => c)) h1 ls) as [h2 r'] eqn:Em.
    inversion H; subst h' ls'. clear H.
    assert (A : (exists l1, h1 = h ++ l1) /\ (forall id, lf' = Some id -> length h <= id < length h1) /\
                leaf_val h1 lf' = leaf_val h lf).
    { destruct lf as [id|]; simpl in Er.
      - destruct (nth_error h id) as [c|] eqn:Hc.
        + inversion Er; subst h1 lf'. split; [exists [c]; reflexivity|]. split.
          * intros x Hx. inversion Hx; subst x. rewrite app_length. simpl. lia.
          * simpl. rewrite nth_error_alloc_new. congruence.
        + exfalso. apply nth_error_None in Hc. specialize (Hlf id eq_refl). lia.
      - inversion Er; subst h1 lf'. split; [exists []; rewrite app_nil_r; reflexivity|].
        split; [intros; discriminate|reflexivity]. }
    destruct A as ([l1 ->] & Hnew & Hval).
    assert (Hls1 : Forall (fun lf : leaf => forall id, lf = Some id -> id < length (h ++ l1)) ls).
    { eapply Forall_impl; [|exact Hls]. intros x Hx id Hid. specialize (Hx id Hid). rewrite app_length. lia. }
    destruct (IH (h ++ l1) h2 r' Hls1 Em) as ([l2 ->] & Hr & Hmap).
    split; [exists (l1 ++ l2); rewrite app_assoc; reflexivity|]. split.
    + constructor.
      * intros id Hid. specialize (Hnew id Hid). rewrite !app_length in *. lia.
      * eapply Forall_impl; [|exact Hr]. intros x Hx id Hid. specialize (Hx id Hid). rewrite !app_length in *. lia.
    + cbn [map]. f_equal.
      * rewrite leaf_val_app; [exact Hval|]. intros id Hid. apply (Hnew id Hid).
      * rewrite Hmap. apply map_ext_in. intros x Hx. apply leaf_val_app.
        rewrite Forall_forall in Hls. apply Hls. exact Hx.
Qed.

(* the vector read back from a saved one has the same shape / fields / units and equal cell contents, on
   arrays that are all new, with a new metadata dict: it shares no mutable state with any older vector *)
Theorem reload_disjoint s vi s' :
  SInv s -> step s (OReload vi) = (s', RNew) ->
  exists v w l,
    nth_error (vecs s) vi = Some v /\ vecs s' = vecs s ++ [w] /\ heap s' = heap s ++ l /\
    vshape w = vshape v /\ vfields w = vfields v /\ vunits w = vunits v /\
    map (leaf_val (heap s')) (leaves (vdata w)) = map (leaf_val (heap s)) (leaves (vdata v)) /\
    (forall u id, In u (vecs s) -> In id (reach u) -> ~ In id (reach w)) /\
    (forall u, In u (vecs s) -> vmeta w <> vmeta u).
Proof.
  intros HS. simpl. unfold op_reload.
  destruct (nth_error (vecs s) vi) as [v|] eqn:Hv; [|discriminate].
  destruct (tmapfold (realloc (fun c => c)) (heap s) (vdata v)) as [h t] eqn:Et. intros H.
  inversion H; subst s'. clear H.
  apply tmapfold_pair in Et as El.
  destruct (SInv_vec s vi v HS Hv) as (_ & _ & _ & _ & V5 & _).
  destruct (realloc_id_vals (leaves (vdata v)) (heap s) h (leaves t)) as ([l ->] & Hfresh & Hmap); auto.
  { eapply Forall_impl; [|exact V5]. intros lf Hok id ->. eapply leaf_ok_lt. exact Hok. }
  exists v. eexists. exists l. unfold push_vec. cbn [vecs heap vshape vfields vunits vdata vmeta].
  repeat split; auto.
  - intros u id Hu Hid Hw. apply reach_In in Hw. cbn [vdata] in Hw.
    rewrite Forall_forall in Hfresh. specialize (Hfresh _ Hw id eq_refl).
    pose proof (reach_lt s u id HS Hu Hid). lia.
  - intros u Hu. pose proof (SInv_meta_lt s u HS Hu). cbn [vmeta]. lia.
Qed.

(* nothing done in place through the reloaded vector changes an array of a vector that existed before *)
Theorem reload_independent s vi s' :
  SInv s -> step s (OReload vi) = (s', RNew) ->
  forall u id, In u (vecs s) -> In id (reach u) ->
    (forall name a, nth_error (heap (fst (step s' (OFieldOp (length (vecs s)) name a)))) id = nth_error (heap s) id) /\
    (forall name vals,
        nth_error (heap (fst (step s' (OSetFlattened (length (vecs s)) name vals)))) id = nth_error (heap s) id).
Proof.
  intros HS Hc u id Hu Hid.
  destruct (reload_disjoint s vi s' HS Hc) as (v & w & l & Hv & Hvs & Hh & _ & _ & _ & _ & Hdis & _).
  assert (Hw : nth_error (vecs s') (length (vecs s)) = Some w).
  { rewrite Hvs. apply nth_error_alloc_new. }
  assert (Hn : ~ In (Some id) (leaves (vdata w))).
  { intros Hin. apply (Hdis u id Hu Hid). apply reach_In. exact Hin. }
  assert (Hold : nth_error (heap s') id = nth_error (heap s) id).
  { rewrite Hh. apply nth_error_app1. eapply reach_lt; eauto. }
  destruct (inplace_frame s' (length (vecs s)) w id Hw Hn) as [F1 F2].
  split; intros; [rewrite (proj1 (F1 _ _))|rewrite (proj1 (F2 _ _))]; exact Hold.
Qed.

(* ================================================================ over all histories *)
Theorem field_get_slice_hist ops vi v name k idx s' :
  let s := run ops init in
  nth_error (vecs s) vi = Some v -> index_of name (vfields v) = Some k ->
  step s (OGetItem vi idx) = (s', RNew) ->
  step s (OFieldGet vi name idx) = (s', RNew) /\
  exists raw idxs,
    resolve_raw (vshape v) (idx ++ repeat (ISlice None None None) (length (vshape v) - length idx)) = Some raw /\
    resolve_take (vshape v) raw = inr idxs /\
    step s' (OFieldFlatten (length (vecs s)) name) =
      (s', RCol (flat_map (cell_col k (heap s))
                          (map (fun o => tget (vdata v) (src_of idxs o)) (ndindex (map (@length nat) idxs))))).
Proof. intros s. apply field_get_slice. apply vec_inv_reachable. Qed.

Theorem reload_disjoint_hist ops vi s' :
  let s := run ops init in
  step s (OReload vi) = (s', RNew) ->
  exists v w l,
    nth_error (vecs s) vi = Some v /\ vecs s' = vecs s ++ [w] /\ heap s' = heap s ++ l /\
    vshape w = vshape v /\ vfields w = vfields v /\ vunits w = vunits v /\
    map (leaf_val (heap s')) (leaves (vdata w)) = map (leaf_val (heap s)) (leaves (vdata v)) /\
    (forall u id, In u (vecs s) -> In id (reach u) -> ~ In id (reach w)) /\
    (forall u, In u (vecs s) -> vmeta w <> vmeta u).
Proof. intros s. apply reload_disjoint. apply vec_inv_reachable. Qed.

Theorem reload_independent_hist ops vi s' :
  let s := run ops init in
  step s (OReload vi) = (s', RNew) ->
  forall u id, In u (vecs s) -> In id (reach u) ->
    (forall name a, nth_error (heap (fst (step s' (OFieldOp (length (vecs s)) name a)))) id = nth_error (heap s) id) /\
    (forall name vals,
        nth_error (heap (fst (step s' (OSetFlattened (length (vecs s)) name vals)))) id = nth_error (heap s) id).
Proof. intros s. apply reload_independent. apply vec_inv_reachable. Qed.
