(* C10 proofs, part B1: Gram-Schmidt over Q(i) — orthogonality for linearly independent inputs
   (any number of modes, any vector length), intensity multiset, descending order. *)
From QV.lib Require Import Prelude C10_Cplx.
From QV.model Require Import C10_Model.
From Coq Require Import QArith Qcanon Field Sorted.
Local Close Scope Q_scope.
Local Open Scope Qc_scope.

Definition nonzero (u : vec) : Prop := norm2 u <> 0.

(* ---------------------------------------------------------------- pairwise relations on lists *)
Fixpoint pairwise {A : Type} (R : A -> A -> Prop) (l : list A) : Prop :=
  match l with
  | [] => True
  | x :: r => Forall (R x) r /\ pairwise R r
  end.

Lemma pairwise_snoc {A : Type} (R : A -> A -> Prop) l x :
  pairwise R l -> Forall (fun a => R a x) l -> pairwise R (l ++ [x]).
Proof.
  induction l as [|y l IH]; cbn [pairwise app]; intros Hp Hf.
  - split; [constructor | exact I].
  - destruct Hp as [Hy Hp]. inversion Hf as [|? ? Hyx Hf']; subst. split.
    + apply Forall_app. split; [exact Hy | constructor; [exact Hyx | constructor]].
    + apply IH; assumption.
Qed.

Lemma pairwise_perm {A : Type} (R : A -> A -> Prop) (Rsym : forall a b, R a b -> R b a) l l' :
  Permutation l l' -> pairwise R l -> pairwise R l'.
Proof.
  induction 1 as [| x l l' Hp IH | x y l | l l' l'' H1 IH1 H2 IH2]; cbn [pairwise]; intros H.
  - exact I.
  - destruct H as [Hx H]. split; [eapply Permutation_Forall; eassumption | apply IH; exact H].
  - destruct H as [Hy [Hx H]]. inversion Hy as [|? ? Hyx Hy']; subst.
    split; [constructor; [apply Rsym; exact Hyx | exact Hx] | split; assumption].
  - auto.
Qed.

Lemma pairwise_nth {A : Type} (R : A -> A -> Prop) (Rsym : forall a b, R a b -> R b a) l :
  pairwise R l -> forall i j a b, i <> j -> nth_error l i = Some a -> nth_error l j = Some b -> R a b.
Proof.
  induction l as [|x l IH]; intros Hp i j a b Hij Ha Hb.
  - destruct i; discriminate Ha.
  - destruct Hp as [Hx Hp]. rewrite Forall_forall in Hx.
    destruct i as [|i], j as [|j]; cbn [nth_error] in *.
    + congruence.
    + injection Ha as <-. apply Hx. eapply nth_error_In; exact Hb.
    + injection Hb as <-. apply Rsym. apply Hx. eapply nth_error_In; exact Ha.
    + apply (IH Hp i j a b); [lia | exact Ha | exact Hb].
Qed.

Lemma pairwise_map {A B : Type} (f : A -> B) (R : B -> B -> Prop) l :
  pairwise R (map f l) <-> pairwise (fun a b => R (f a) (f b)) l.
Proof.
  induction l as [|x l IH]; cbn [pairwise map]; [tauto|].
  rewrite IH, Forall_map. tauto.
Qed.

(* ---------------------------------------------------------------- lengths *)
Lemma proj_sub_length n r u : length r = n -> length u = n -> length (proj_sub r u) = n.
Proof.
  intros Hr Hu. unfold proj_sub, vsub. rewrite vzip_length; rewrite ?vscale_length; congruence.
Qed.

Lemma residual_length n us : allN n us -> forall p, length p = n -> length (residual us p) = n.
Proof.
  unfold residual. induction 1 as [|u us Hu Hus IH]; intros p Hp; cbn [fold_left]; [exact Hp|].
  apply IH. apply proj_sub_length; assumption.
Qed.

Lemma gs_snoc ps p : gs (ps ++ [p]) = gs ps ++ [residual (gs ps) p].
Proof. unfold gs. rewrite fold_left_app. reflexivity. Qed.

Lemma gs_length ps : length (gs ps) = length ps.
Proof.
  induction ps as [|p ps IH] using rev_ind; [reflexivity|].
  rewrite gs_snoc, !app_length, IH. reflexivity.
Qed.

Lemma gs_allN n ps : allN n ps -> allN n (gs ps).
Proof.
  unfold allN. induction ps as [|p ps IH] using rev_ind; intros H; [constructor|].
  apply Forall_app in H. destruct H as [Hps Hp]. pose proof (Forall_inv Hp) as Hp0. cbn beta in Hp0.
  rewrite gs_snoc. apply Forall_app. split; [apply IH; exact Hps|].
  constructor; [|constructor]. apply residual_length; [apply IH; exact Hps | exact Hp0].
Qed.

(* ---------------------------------------------------------------- one projection step *)
Lemma proj_sub_orth_self n u r :
  length r = n -> length u = n -> nonzero u -> dot u (proj_sub r u) = c0.
Proof.
  intros Hr Hu Hnz. unfold proj_sub, proj_coef.
  rewrite dot_vsub by (rewrite vscale_length; congruence).
  rewrite dot_vscale, dot_self.
  destruct (dot u r) as [x y]. unfold nonzero in Hnz.
  unfold csub, cadd, copp, cmul, cscale, creal, c0; cbn [fst snd]. f_equal; field; exact Hnz.
Qed.

Lemma proj_sub_orth_other n w u r :
  length r = n -> length u = n -> dot w u = c0 -> dot w (proj_sub r u) = dot w r.
Proof.
  intros Hr Hu Hw. unfold proj_sub.
  rewrite dot_vsub by (rewrite vscale_length; congruence).
  rewrite dot_vscale, Hw. ring.
Qed.

Lemma residual_keeps_dot n w us :
  allN n us -> Forall (fun u => dot w u = c0) us ->
  forall r, length r = n -> dot w (residual us r) = dot w r.
Proof.
  unfold residual. induction 1 as [|u us Hu Hus IH]; intros Hw r Hr; cbn [fold_left]; [reflexivity|].
  inversion Hw as [|? ? Hwu Hw']; subst.
  rewrite IH; [| exact Hw' | apply proj_sub_length; auto].
  eapply proj_sub_orth_other; eauto.
Qed.

Definition orth (a b : vec) : Prop := dot a b = c0.
Lemma orth_sym a b : orth a b -> orth b a.
Proof. apply dot_sym0. Qed.

(* after the inner loop the residual is orthogonal to every earlier mode *)
Lemma residual_orth n us :
  allN n us -> pairwise orth us -> Forall nonzero us ->
  forall p, length p = n -> Forall (fun u => orth u (residual us p)) us.
Proof.
  induction 1 as [|u us Hu Hus IH]; intros Hp Hnz p Hlen; [constructor|].
  destruct Hp as [Hu_orth Hp]. inversion Hnz as [|? ? Hnu Hnz']; subst.
  change (residual (u :: us) p) with (residual us (proj_sub p u)).
  assert (Hl : length (proj_sub p u) = length u) by (apply proj_sub_length; auto).
  constructor.
  - unfold orth. rewrite (residual_keeps_dot (length u) u us Hus Hu_orth _ Hl).
    eapply proj_sub_orth_self; eauto.
  - apply IH; assumption.
Qed.

Lemma gs_pairwise n ps : allN n ps -> Forall nonzero (gs ps) -> pairwise orth (gs ps).
Proof.
  induction ps as [|p ps IH] using rev_ind; intros Hn Hnz; [exact I|].
  unfold allN in Hn. apply Forall_app in Hn. destruct Hn as [Hps Hp].
  pose proof (Forall_inv Hp) as Hp0. cbn beta in Hp0.
  rewrite gs_snoc in *. apply Forall_app in Hnz. destruct Hnz as [Hnz _].
  apply pairwise_snoc; [apply IH; assumption|].
  apply residual_orth with (n := n); auto. apply gs_allN; exact Hps.
Qed.

(* modified = classical Gram-Schmidt on an orthogonal family (exact arithmetic) *)
Lemma residual_eq_cgs n us p :
  allN n us -> length p = n -> pairwise orth us ->
  residual us p = cgs_residual us p.
Proof.
  intros Hn Hp Ho. unfold residual, cgs_residual.
  assert (G : forall r, length r = n -> Forall (fun u => dot u r = dot u p) us ->
          fold_left proj_sub us r = fold_left (fun r u => vsub r (vscale (proj_coef u p) u)) us r).
  { clear Hp. induction Hn as [|u us Hu Hus IH]; intros r Hr Hd; cbn [fold_left]; [reflexivity|].
    destruct Ho as [Hou Ho]. inversion Hd as [|? ? Hdu Hd']; subst.
    assert (E : proj_sub r u = vsub r (vscale (proj_coef u p) u)).
    { unfold proj_sub, proj_coef. rewrite Hdu. reflexivity. }
    rewrite <- E. apply IH; [exact Ho | apply proj_sub_length; auto |].
    rewrite Forall_forall in *. intros w Hw.
    rewrite (proj_sub_orth_other (length u) w u r); auto.
    apply orth_sym. apply Hou. exact Hw. }
  apply G; [exact Hp|]. apply Forall_forall. reflexivity.
Qed.

(* ---------------------------------------------------------------- span / linear independence *)
Inductive Span (n : nat) (S : list vec) : vec -> Prop :=
| sp_zero : Span n S (vzeros n)
| sp_in p : In p S -> Span n S p
| sp_add a b : Span n S a -> Span n S b -> Span n S (vadd a b)
| sp_scale c a : Span n S a -> Span n S (vscale c a).

Lemma Span_length n S v : allN n S -> Span n S v -> length v = n.
Proof.
  intros HS. induction 1 as [| p Hp | a b Ha IHa Hb IHb | c a Ha IHa].
  - apply vzeros_length.
  - unfold allN in HS. rewrite Forall_forall in HS. apply HS. exact Hp.
  - unfold vadd. rewrite vzip_length; congruence.
  - rewrite vscale_length. exact IHa.
Qed.

Lemma Span_sub n S a b : Span n S a -> Span n S b -> Span n S (vsub a b).
Proof. intros Ha Hb. rewrite vsub_as_add. apply sp_add; [exact Ha | apply sp_scale; exact Hb]. Qed.

Lemma Span_mono n S S' v : incl S S' -> Span n S v -> Span n S' v.
Proof.
  intros Hi. induction 1; [apply sp_zero | apply sp_in; auto | apply sp_add; auto | apply sp_scale; auto].
Qed.

Lemma Span_trans n S us v : Forall (Span n S) us -> Span n us v -> Span n S v.
Proof.
  intros Hus. induction 1 as [| p Hp | a b Ha IHa Hb IHb | c a Ha IHa].
  - apply sp_zero.
  - rewrite Forall_forall in Hus. apply Hus. exact Hp.
  - apply sp_add; assumption.
  - apply sp_scale; assumption.
Qed.

Lemma residual_span n us :
  allN n us -> forall p, length p = n -> exists s, Span n us s /\ residual us p = vsub p s.
Proof.
  induction 1 as [|u us Hu Hus IH]; intros p Hp.
  - exists (vzeros n). split; [apply sp_zero|]. cbn. rewrite <- Hp. symmetry. apply vsub_zeros_r.
  - change (residual (u :: us) p) with (residual us (proj_sub p u)).
    destruct (IH (proj_sub p u)) as [s [Hs E]]; [apply proj_sub_length; auto|].
    exists (vadd (vscale (proj_coef u p) u) s). split.
    + apply sp_add.
      * apply sp_scale. apply sp_in. left. reflexivity.
      * eapply Span_mono; [|exact Hs]. apply incl_tl. apply incl_refl.
    + rewrite E. unfold proj_sub. apply vsub_vsub.
Qed.

Lemma gs_span n ps : allN n ps -> Forall (Span n ps) (gs ps).
Proof.
  induction ps as [|p ps IH] using rev_ind; intros Hn; [constructor|].
  unfold allN in Hn. apply Forall_app in Hn. destruct Hn as [Hps Hp].
  pose proof (Forall_inv Hp) as Hp0. cbn beta in Hp0.
  rewrite gs_snoc. apply Forall_app. split.
  - eapply Forall_impl; [|apply IH; exact Hps]. intros a Ha.
    eapply Span_mono; [|exact Ha]. apply incl_appl. apply incl_refl.
  - constructor; [|constructor].
    destruct (residual_span n (gs ps) (gs_allN _ _ Hps) p Hp0) as [s [Hs E]].
    rewrite E. apply Span_sub.
    + apply sp_in. apply in_or_app. right. left. reflexivity.
    + eapply Span_mono; [apply incl_appl; apply incl_refl|].
      eapply Span_trans; [apply IH; exact Hps | exact Hs].
Qed.

(* coefficients of an element of the span *)
Lemma lincomb_nil_r n cs : lincomb n cs [] = vzeros n.
Proof. destruct cs; reflexivity. Qed.

Lemma lincomb_length n cs ps : allN n ps -> length (lincomb n cs ps) = n.
Proof.
  intros H. revert cs. induction H as [|p ps Hp Hps IH]; intros [|c cs]; cbn [lincomb];
    try apply vzeros_length.
  unfold vadd. rewrite vzip_length; rewrite vscale_length; [exact Hp|]. rewrite IH. exact Hp.
Qed.

Lemma lincomb_zeros n ps : allN n ps -> lincomb n (repeat c0 (length ps)) ps = vzeros n.
Proof.
  induction 1 as [|p ps Hp Hps IH]; cbn [length repeat lincomb]; [reflexivity|].
  rewrite IH, vscale_c0, Hp. apply vadd_zeros_zeros.
Qed.

Definition czip_add (cs ds : list C) : list C := map (fun cd => cadd (fst cd) (snd cd)) (combine cs ds).

Lemma lincomb_add n ps : forall cs ds,
  lincomb n (czip_add cs ds) ps = vadd (lincomb n cs ps) (lincomb n ds ps) \/ length cs <> length ds.
Proof.
  induction ps as [|p ps IH]; intros cs ds.
  - left. rewrite !lincomb_nil_r. symmetry. apply vadd_zeros_zeros.
  - destruct cs as [|c cs], ds as [|d ds]; cbn [length]; try (right; congruence).
    + left. cbn. symmetry. apply vadd_zeros_zeros.
    + destruct (IH cs ds) as [E|E]; [left | right; congruence].
      cbn [czip_add combine map fst snd lincomb]. fold (czip_add cs ds). rewrite E.
      symmetry. apply vadd_interchange.
Qed.

Lemma lincomb_scale n k ps : forall cs,
  lincomb n (map (cmul k) cs) ps = vscale k (lincomb n cs ps).
Proof.
  induction ps as [|p ps IH]; intros cs.
  - rewrite !lincomb_nil_r. symmetry. apply vscale_vzeros.
  - destruct cs as [|c cs]; cbn [map lincomb]; [symmetry; apply vscale_vzeros|].
    rewrite IH. symmetry. apply vscale_vadd_scale.
Qed.

Lemma czip_add_length cs ds : length cs = length ds -> length (czip_add cs ds) = length cs.
Proof.
  intros H. unfold czip_add. rewrite map_length, combine_length, H. apply Nat.min_id.
Qed.

Lemma Span_lincomb n S v : allN n S -> Span n S v ->
  exists cs, length cs = length S /\ v = lincomb n cs S.
Proof.
  intros HS. induction 1 as [| p Hp | a b Ha IHa Hb IHb | c a Ha IHa].
  - exists (repeat c0 (length S)). split; [apply repeat_length | symmetry; apply lincomb_zeros; exact HS].
  - induction HS as [|q S Hq HS IH]; [contradiction|].
    destruct Hp as [-> | Hp].
    + exists (c1 :: repeat c0 (length S)). split; [cbn; rewrite repeat_length; reflexivity|].
      cbn [lincomb]. rewrite (lincomb_zeros n S HS), vscale_c1, <- Hq. symmetry. apply vadd_zeros_r.
    + destruct (IH Hp) as [cs [Hl E]]. exists (c0 :: cs). split; [cbn; congruence|].
      cbn [lincomb]. rewrite vscale_c0, <- E, Hq.
      assert (Hpl : length p = n).
      { unfold allN in HS. rewrite Forall_forall in HS. apply HS. exact Hp. }
      rewrite <- Hpl. symmetry. apply vadd_zeros_l.
  - destruct IHa as [cs [Hlc Ec]]. destruct IHb as [ds [Hld Ed]].
    exists (czip_add cs ds). split; [rewrite czip_add_length; congruence|].
    destruct (lincomb_add n S cs ds) as [E|E]; [|congruence]. rewrite E. congruence.
  - destruct IHa as [cs [Hlc Ec]]. exists (map (cmul c) cs). split; [rewrite map_length; exact Hlc|].
    rewrite lincomb_scale. congruence.
Qed.

Lemma lincomb_app n front back : allN n back -> forall cs ds,
  length cs = length front ->
  lincomb n (cs ++ ds) (front ++ back) = vadd (lincomb n cs front) (lincomb n ds back).
Proof.
  intros Hb. induction front as [|p front IH]; intros cs ds Hl.
  - destruct cs; [|discriminate Hl]. cbn [app lincomb].
    rewrite <- (lincomb_length n ds back Hb) at 2. symmetry. apply vadd_zeros_l.
  - destruct cs as [|c cs]; [discriminate Hl|]. cbn [app lincomb].
    rewrite IH by (cbn in Hl; congruence). apply vadd_assoc.
Qed.

(* a linearly independent list has no element in the span of its predecessors *)
Lemma lin_indep_not_span n front p back :
  allN n (front ++ p :: back) -> lin_indep n (front ++ p :: back) -> ~ Span n front p.
Proof.
  intros Hn Hli Hsp. unfold allN in Hn. apply Forall_app in Hn. destruct Hn as [Hf Hpb].
  pose proof (Forall_inv Hpb) as Hp. cbn beta in Hp. pose proof (Forall_inv_tail Hpb) as Hb.
  destruct (Span_lincomb _ _ _ Hf Hsp) as [cs [Hl E]].
  specialize (Hli (cs ++ copp c1 :: repeat c0 (length back))).
  assert (H1 : length (cs ++ copp c1 :: repeat c0 (length back)) = length (front ++ p :: back)).
  { rewrite !app_length. cbn [length]. rewrite repeat_length. congruence. }
  assert (H2 : lincomb n (cs ++ copp c1 :: repeat c0 (length back)) (front ++ p :: back) = vzeros n).
  { rewrite lincomb_app; [| exact Hpb | exact Hl].
    cbn [lincomb]. rewrite (lincomb_zeros n back Hb), <- E. rewrite <- Hp.
    assert (Hz : vadd (vscale (copp c1) p) (vzeros (length p)) = vscale (copp c1) p).
    { rewrite <- (vscale_length (copp c1) p). apply vadd_zeros_r. }
    rewrite Hz. apply vadd_neg_self. }
  specialize (Hli H1 H2). apply Forall_app in Hli. destruct Hli as [_ Hli].
  pose proof (Forall_inv Hli) as H0. cbn beta in H0. exact (copp_c1_neq_c0 H0).
Qed.

Theorem gs_nonzero n ps : allN n ps -> lin_indep n ps -> Forall nonzero (gs ps).
Proof.
  intros Hn Hli.
  assert (G : forall front back, ps = front ++ back -> Forall nonzero (gs front)).
  { induction front as [|p front IH] using rev_ind; intros back E; [constructor|].
    rewrite <- app_assoc in E. cbn [app] in E.
    rewrite gs_snoc. apply Forall_app. split; [eapply IH; exact E|].
    constructor; [|constructor]. subst ps.
    pose proof Hn as Hn'. unfold allN in Hn'. apply Forall_app in Hn'. destruct Hn' as [Hf Hpb].
    pose proof (Forall_inv Hpb) as Hp. cbn beta in Hp.
    destruct (residual_span n (gs front) (gs_allN _ _ Hf) p Hp) as [s [Hs Er]].
    intros Hz. apply norm2_eq0 in Hz.
    rewrite (residual_length n (gs front) (gs_allN _ _ Hf) p Hp) in Hz.
    assert (Hsf : Span n front s).
    { eapply Span_trans; [apply gs_span; exact Hf | exact Hs]. }
    assert (Hsl : length s = n) by exact (Span_length n front s Hf Hsf).
    rewrite Er in Hz. rewrite <- Hp in Hz. apply vsub_eq_zeros in Hz; [|congruence].
    subst s. exact (lin_indep_not_span _ _ _ _ Hn Hli Hsf). }
  apply (G ps []). symmetry. apply app_nil_r.
Qed.

(* ---------------------------------------------------------------- the sort *)
Lemma qc_leb_iff a b : qc_leb a b = true <-> a <= b.
Proof. unfold qc_leb, Qcle. apply Qle_bool_iff. Qed.

Lemma insert_desc_perm x l : Permutation (insert_desc x l) (x :: l).
Proof.
  induction l as [|y l IH]; cbn [insert_desc]; [apply Permutation_refl|].
  destruct (qc_leb (mode_intensity y) (mode_intensity x)); [apply Permutation_refl|].
  eapply perm_trans; [apply perm_skip; exact IH | apply perm_swap].
Qed.

Lemma sort_desc_perm l : Permutation (sort_desc l) l.
Proof.
  induction l as [|x l IH]; cbn [sort_desc fold_right]; [constructor|].
  fold (sort_desc l). eapply perm_trans; [apply insert_desc_perm | apply perm_skip; exact IH].
Qed.

Definition desc (a b : mode) : Prop := mode_intensity b <= mode_intensity a.

Lemma insert_desc_sorted x l : StronglySorted desc l -> StronglySorted desc (insert_desc x l).
Proof.
  induction 1 as [|y l Hs IH Hy]; cbn [insert_desc]; [repeat constructor|].
  destruct (qc_leb (mode_intensity y) (mode_intensity x)) eqn:E.
  - apply qc_leb_iff in E. constructor; [constructor; assumption|].
    constructor; [exact E|]. eapply Forall_impl; [|exact Hy].
    intros b Hb. unfold desc in *. eapply Qcle_trans; eassumption.
  - constructor; [exact IH|].
    eapply Permutation_Forall; [apply Permutation_sym; apply insert_desc_perm|].
    constructor; [|exact Hy]. unfold desc.
    apply Qclt_le_weak. apply Qcnot_le_lt. intro H. apply qc_leb_iff in H. congruence.
Qed.

Theorem sort_desc_sorted l : StronglySorted desc (sort_desc l).
Proof.
  induction l as [|x l IH]; cbn [sort_desc fold_right]; [constructor|].
  apply insert_desc_sorted. exact IH.
Qed.

(* ---------------------------------------------------------------- the orthogonalisation *)
Lemma gs_modes_snd ps : map snd (gs_modes ps) = gs ps.
Proof.
  unfold gs_modes. rewrite map_map. cbn [restore snd].
  pose proof (gs_length ps) as Hl. revert Hl. generalize (gs ps) as us.
  induction ps as [|p ps IH]; intros [|u us] Hl; cbn in *; try congruence.
  f_equal. apply IH. congruence.
Qed.

Lemma gs_modes_intensity ps :
  Forall nonzero (gs ps) -> map mode_intensity (gs_modes ps) = map norm2 ps.
Proof.
  unfold gs_modes. pose proof (gs_length ps) as Hl. revert Hl. generalize (gs ps) as us.
  induction ps as [|p ps IH]; intros [|u us] Hl Hnz; cbn [combine map length] in *; try congruence.
  inversion Hnz as [|? ? Hu Hnz']; subst. f_equal.
  - unfold mode_intensity, restore; cbn [fst snd]. unfold nonzero in Hu. field. exact Hu.
  - apply IH; [congruence | exact Hnz'].
Qed.

Definition mode_orth (m1 m2 : mode) : Prop := dot (snd m1) (snd m2) = c0.

Theorem gs_orthogonal : forall n ps i j mi mj,
  allN n ps -> lin_indep n ps -> i <> j ->
  nth_error (orthogonalize ps) i = Some mi -> nth_error (orthogonalize ps) j = Some mj ->
  dot (snd mi) (snd mj) = c0 /\ mode_gram2 mi mj = 0.
Proof.
  intros n ps i j mi mj Hn Hli Hij Hi Hj.
  assert (Hp : pairwise mode_orth (orthogonalize ps)).
  { unfold orthogonalize.
    apply (pairwise_perm mode_orth (fun a b => @dot_sym0 (snd a) (snd b))) with (l := gs_modes ps);
      [apply Permutation_sym; apply sort_desc_perm|].
    apply (pairwise_map snd orth). rewrite gs_modes_snd.
    apply gs_pairwise with (n := n); [exact Hn | apply gs_nonzero with (n := n); assumption]. }
  assert (H : mode_orth mi mj).
  { eapply (pairwise_nth mode_orth (fun a b => @dot_sym0 (snd a) (snd b))); eassumption. }
  split; [exact H|]. unfold mode_gram2. unfold mode_orth in H. rewrite H, cnorm2_c0. ring.
Qed.

Theorem gs_intensity_multiset : forall n ps,
  allN n ps -> lin_indep n ps ->
  Permutation (map mode_intensity (orthogonalize ps)) (map norm2 ps).
Proof.
  intros n ps Hn Hli. unfold orthogonalize.
  rewrite <- (gs_modes_intensity ps) by (apply gs_nonzero with (n := n); assumption).
  apply Permutation_map. apply sort_desc_perm.
Qed.

Theorem gs_sorted_desc : forall ps,
  StronglySorted (fun a b => mode_intensity b <= mode_intensity a) (orthogonalize ps).
Proof. intros ps. unfold orthogonalize. apply sort_desc_sorted. Qed.

(* the directions of the output are the Gram-Schmidt residuals, each in the classical form *)
Lemma orthogonalize_length ps : length (orthogonalize ps) = length ps.
Proof.
  unfold orthogonalize. rewrite (Permutation_length (sort_desc_perm _)).
  rewrite <- (map_length snd (gs_modes ps)), gs_modes_snd. apply gs_length.
Qed.
