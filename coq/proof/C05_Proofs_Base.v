(* C05 — basic lemmas shared by the proof files: finite-map update, optimiser state dict,
   heaps of the same SHAPE (same allocation counter, same references inside every optimiser
   and scheduler object: the binding invariant only looks at the shape). *)
From QV.lib Require Import Prelude.
From QV.model Require Import C05_Model.
Set Implicit Arguments.

Lemma fupd_eq (A : Type) (f : id -> option A) i a : fupd f i a i = Some a.
Proof. unfold fupd. now rewrite Nat.eqb_refl. Qed.

Lemma fupd_neq (A : Type) (f : id -> option A) i a j : j <> i -> fupd f i a j = f j.
Proof. intros Hn. unfold fupd. destruct (Nat.eqb_spec j i); [contradiction|reflexivity]. Qed.

Section StateDict.
  Variable M : Type.
  Implicit Types (l : list (id * pstate M)) (ps : pstate M).

  Lemma st_lookup_set_eq l r ps : st_lookup (st_set l r ps) r = Some ps.
  Proof.
    induction l as [|[k q] t IH]; cbn.
    - now rewrite Nat.eqb_refl.
    - destruct (Nat.eqb_spec k r) as [->|Hn]; cbn.
      + now rewrite Nat.eqb_refl.
      + destruct (Nat.eqb_spec k r); [contradiction|exact IH].
  Qed.

  Lemma st_lookup_set_neq l r ps r' : r' <> r -> st_lookup (st_set l r ps) r' = st_lookup l r'.
  Proof.
    intros Hn. induction l as [|[k q] t IH]; cbn.
    - destruct (Nat.eqb_spec r r'); [congruence|reflexivity].
    - destruct (Nat.eqb_spec k r) as [->|Hk]; cbn.
      + destruct (Nat.eqb_spec r r'); [congruence|reflexivity].
      + destruct (Nat.eqb_spec k r'); [reflexivity|exact IH].
  Qed.

  Lemma st_lookup_put_eq l r o :
    st_lookup (st_put l r o) r = match o with Some ps => Some ps | None => st_lookup l r end.
  Proof. destruct o; cbn; [apply st_lookup_set_eq|reflexivity]. Qed.

  Lemma st_lookup_put_neq l r o r' : r' <> r -> st_lookup (st_put l r o) r' = st_lookup l r'.
  Proof. intros Hn. destruct o; cbn; [now apply st_lookup_set_neq|reflexivity]. Qed.

  Lemma st_lookup_not_in l r : ~ In r (map fst l) -> st_lookup l r = None.
  Proof.
    induction l as [|[k q] t IH]; cbn; intros Hn; [reflexivity|].
    destruct (Nat.eqb_spec k r) as [->|Hk]; [exfalso; apply Hn; now left|].
    apply IH. intros Hin. apply Hn. now right.
  Qed.
End StateDict.

Section Shape.
  Variables V M R C SS : Type.
  Implicit Types (h : heap V M R SS) (m : mdl C).

  Definition heap_shape h h' : Prop :=
    hnext h = hnext h' /\
    (forall o, option_map oparams (ho h o) = option_map oparams (ho h' o)) /\
    (forall s, option_map sopt (hs h s) = option_map sopt (hs h' s)).

  Lemma heap_shape_refl h : heap_shape h h.
  Proof. repeat split. Qed.

  Lemma heap_shape_trans h1 h2 h3 : heap_shape h1 h2 -> heap_shape h2 h3 -> heap_shape h1 h3.
  Proof.
    intros (Hn & Ho & Hs) (Hn' & Ho' & Hs'). repeat split.
    - congruence.
    - intros o. now rewrite Ho.
    - intros s. now rewrite Hs.
  Qed.

  Lemma heap_shape_sym h1 h2 : heap_shape h1 h2 -> heap_shape h2 h1.
  Proof. intros (Hn & Ho & Hs). repeat split; intros; symmetry; auto. Qed.

  Lemma shape_ho h h' o ob :
    heap_shape h h' -> ho h o = Some ob -> exists ob', ho h' o = Some ob' /\ oparams ob' = oparams ob.
  Proof.
    intros (_ & Ho & _) E. specialize (Ho o). rewrite E in Ho. cbn in Ho.
    destruct (ho h' o) as [ob'|]; cbn in Ho; [|discriminate].
    exists ob'. split; [reflexivity|congruence].
  Qed.

  Lemma shape_hs h h' s sb :
    heap_shape h h' -> hs h s = Some sb -> exists sb', hs h' s = Some sb' /\ sopt sb' = sopt sb.
  Proof.
    intros (_ & _ & Hs) E. specialize (Hs s). rewrite E in Hs. cbn in Hs.
    destruct (hs h' s) as [sb'|]; cbn in Hs; [|discriminate].
    exists sb'. split; [reflexivity|congruence].
  Qed.

  Lemma bound_shape h h' m : heap_shape h h' -> bound h m -> bound h' m.
  Proof.
    intros Hsh (Hnd & Hlt & Ho & Hs). pose proof Hsh as (Hn & _ & _).
    unfold bound. rewrite <- Hn. split; [exact Hnd|]. split; [exact Hlt|]. split.
    - destruct (mopt m) as [o|]; [|exact Ho].
      destruct Ho as (Hlo & Hne & ob & Eo & Ep).
      destruct (shape_ho _ Hsh Eo) as (ob' & Eo' & Ep').
      split; [exact Hlo|]. split; [exact Hne|]. exists ob'. split; [exact Eo'|congruence].
    - destruct (msched m) as [s|]; [|exact I].
      destruct Hs as (Hls & sb & Es & Eb).
      destruct (shape_hs _ Hsh Es) as (sb' & Es' & Eb').
      split; [exact Hls|]. exists sb'. split; [exact Es'|congruence].
  Qed.

  Lemma prebound_shape h h' m : heap_shape h h' -> prebound h m -> prebound h' m.
  Proof.
    intros Hsh (Hnd & Hlt & Ho & Hs). pose proof Hsh as (Hn & _ & _).
    unfold prebound. rewrite <- Hn. split; [exact Hnd|]. split; [exact Hlt|]. split.
    - destruct (mopt m) as [o|]; [|exact Ho].
      destruct Ho as (Hlo & Hne & ob & Eo & El & Hnd').
      destruct (shape_ho _ Hsh Eo) as (ob' & Eo' & Ep').
      split; [exact Hlo|]. split; [exact Hne|]. exists ob'. rewrite Ep'. auto.
    - destruct (msched m) as [s|]; [|exact I].
      destruct Hs as (Hls & Hmo & sb & Es).
      destruct (shape_hs _ Hsh Es) as (sb' & Es' & _).
      split; [exact Hls|]. split; [exact Hmo|]. exists sb'. exact Es'.
  Qed.

  Lemma Forall_bound_shape h h' (ms : list (mdl C)) :
    heap_shape h h' -> Forall (bound h) ms -> Forall (bound h') ms.
  Proof. intros Hsh. apply Forall_impl. intros m. now apply bound_shape. Qed.

  Lemma bound_prebound h m : bound h m -> prebound h m.
  Proof.
    intros (Hnd & Hlt & Ho & Hs). unfold prebound. split; [exact Hnd|]. split; [exact Hlt|]. split.
    - destruct (mopt m) as [o|]; [|exact Ho].
      destruct Ho as (Hlo & Hne & ob & Eo & Ep). split; [exact Hlo|]. split; [exact Hne|].
      exists ob. rewrite Ep. auto.
    - destruct (msched m) as [s|]; [|exact I].
      destruct Hs as (Hls & sb & Es & Eb). split; [exact Hls|]. split.
      + rewrite <- Eb. discriminate.
      + now exists sb.
  Qed.

  Lemma sep_sym (m m' : mdl C) : sep m m' -> sep m' m.
  Proof.
    intros (Hp & Ho & Hs). repeat split.
    - intros p Hin Hin'. exact (Hp p Hin' Hin).
    - intros o E E'. exact (Ho o E' E).
    - intros s E E'. exact (Hs s E' E).
  Qed.
End Shape.

Arguments heap_shape {V M R SS} h h'.

Section Inv.
  Variables V M L R C SS : Type.
  Implicit Types (s : st V M L R C SS).

  Lemma binding_loaded s : binding_inv s -> loaded_inv s.
  Proof.
    intros (Hsep & Hb). split; [exact Hsep|].
    eapply Forall_impl; [|exact Hb]. intros m. apply bound_prebound.
  Qed.

  (* the binding invariant only depends on the models and the shape of the heap *)
  Lemma binding_inv_shape s s' :
    models (rc s') = models (rc s) -> heap_shape (hh s) (hh s') -> binding_inv s -> binding_inv s'.
  Proof.
    intros Em Hsh (Hsep & Hb). unfold binding_inv. rewrite Em. split; [exact Hsep|].
    eapply Forall_bound_shape; eauto.
  Qed.
End Inv.
