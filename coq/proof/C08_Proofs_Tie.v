(* C08 — meaning of the effect program extracted from the source (model/C08_Model_Tie.v). *)
From QV.lib Require Import Prelude.
From QV.model Require Import C08_Model C08_Model_Tree C08_Model_Tie.

Lemma annot_neutral_app l : forall r hs,
  (forall e, In e l -> handlers_after e hs = hs) ->
  annot (l ++ r) hs = map (fun e => (e, hs)) l ++ annot r hs.
Proof.
  induction l as [|e l IH]; intros r hs Hn; [reflexivity|].
  cbn [app annot map]. rewrite (Hn e (or_introl eq_refl)). f_equal.
  apply IH. intros e' Hin. apply Hn. right; exact Hin.
Qed.

Lemma annot_map_mkdir anc r hs :
  annot (mk_parents anc ++ r) hs = map (fun e => (e, hs)) (mk_parents anc) ++ annot r hs.
Proof.
  apply annot_neutral_app. intros e Hin. unfold mk_parents in Hin.
  apply in_map_iff in Hin. destruct Hin as (q & <- & _). reflexivity.
Qed.

Lemma annot_map_write d ws r hs :
  annot (map (WriteItem d) ws ++ r) hs = map (fun e => (e, hs)) (map (WriteItem d) ws) ++ annot r hs.
Proof.
  apply annot_neutral_app. intros e Hin. apply in_map_iff in Hin. destruct Hin as (q & <- & _). reflexivity.
Qed.

Lemma annot_map_zipadd z zs r hs :
  annot (map (ZipAdd z) zs ++ r) hs = map (fun e => (e, hs)) (map (ZipAdd z) zs) ++ annot r hs.
Proof.
  apply annot_neutral_app. intros e Hin. apply in_map_iff in Hin. destruct Hin as (q & <- & _). reflexivity.
Qed.

Lemma map_fst_annot prog : forall hs, map fst (annot prog hs) = prog.
Proof. induction prog as [|e r IH]; intro hs; [reflexivity|]. cbn. rewrite IH. reflexivity. Qed.

(* the skeleton IS the protocol of the theorems, effect by effect and handler stack by handler stack, for every
   store, mode, target, chain of directories above it, staging paths and object (item writes split in the three
   phases root group / recursive save / skip metadata; archive members) *)
Theorem expand_skeleton st m p praw anc ts tz wg wr wk zs :
  expand m p praw anc ts tz wg wr wk zs (save_skeleton st)
  = annot (tree_prog st m p anc ts tz (wg ++ wr ++ wk) zs) [].
Proof.
  destruct st; unfold save_skeleton, tree_prog, save_prog, zip_phase, staged;
    cbn [is_zip app expand seg_effects map L H part_items tl annot handlers_after];
    rewrite !map_app, <- !app_assoc.
  - (* zip *)
    rewrite annot_map_write. rewrite annot_map_write. rewrite annot_map_write.
    cbn [app annot handlers_after]. rewrite annot_map_zipadd.
    cbn [app annot handlers_after tl map]. rewrite ?app_nil_r. reflexivity.
  - (* directory *)
    rewrite annot_map_mkdir. cbn [app annot handlers_after].
    rewrite annot_map_write. rewrite annot_map_write. rewrite annot_map_write.
    cbn [app annot handlers_after map]. rewrite ?app_nil_r. reflexivity.
Qed.

(* running a program with the stacks of its annotation = running it with handlers_after *)
Lemma run_annot_prefix_annot prog : forall k hs fs,
  run_annot_prefix k (annot prog hs) hs fs = run_prefix k prog hs fs.
Proof.
  induction prog as [|e r IH]; intros k hs fs; [destruct k; reflexivity|].
  destruct k as [|k']; cbn [annot run_annot_prefix run_prefix]; [reflexivity|].
  destruct (step e fs) as [err|fs1]; [reflexivity|]. apply IH.
Qed.

Theorem run_annot_run k prog fs : run_annot k (annot prog []) fs = run k prog fs.
Proof. unfold run_annot, run. rewrite run_annot_prefix_annot. reflexivity. Qed.

(* the token list of today's source evaluates to the skeleton (the tie proves this for the GENERATED list) *)
Lemma reference_toks_skeleton st : interp save_toks_reference st 0 [] = Some (save_skeleton st).
Proof. destruct st; reflexivity. Qed.

(* a chain-less target: tree_prog is save_prog *)
Lemma tree_prog_nil st m p ts tz ws zs : tree_prog st m p [] ts tz ws zs = save_prog st m p ts tz ws zs.
Proof. destruct st; reflexivity. Qed.

(* what an extracted program that evaluates to the skeleton means *)
Theorem skeleton_meaning toks :
  (forall st, interp toks st 0 [] = Some (save_skeleton st)) ->
  forall st m p praw anc ts tz wg wr wk zs,
  exists sk, interp toks st 0 [] = Some sk /\
    let l := expand m p praw anc ts tz wg wr wk zs sk in
    map fst l = tree_prog st m p anc ts tz (wg ++ wr ++ wk) zs /\
    l = annot (tree_prog st m p anc ts tz (wg ++ wr ++ wk) zs) [] /\
    (forall k fs, run_annot k l fs = run k (tree_prog st m p anc ts tz (wg ++ wr ++ wk) zs) fs) /\
    (forall k fs, anc = [] -> run_annot k l fs = run k (save_prog st m p ts tz (wg ++ wr ++ wk) zs) fs).
Proof.
  intros Hi st m p praw anc ts tz wg wr wk zs. exists (save_skeleton st). split; [apply Hi|].
  cbn zeta. rewrite expand_skeleton. split; [apply map_fst_annot|]. split; [reflexivity|]. split.
  - intros k fs. apply run_annot_run.
  - intros k fs ->. rewrite run_annot_run, tree_prog_nil. reflexivity.
Qed.

(* NECESSITY examples: reordered / re-scoped programs do not evaluate to the skeleton *)
(* os.replace after the with-block of the temporary directory *)
Example tie_rejects_rename_outside_with :
  interp [TPrim (PCheckExists YTarget); TWithTemp (YParentOf YTarget); TPrim (PGroup YStore);
          TPrim (PRecursiveSave YStore); TPrim (PSkipMeta YStore); TPrim (PRemoveOld YTarget); TEndWithTemp;
          TPrim (PReplace YStore YTarget)] SDir 0 [] <> Some (save_skeleton SDir).
Proof. vm_compute. discriminate. Qed.

(* the existence check applied to the name as given *)
Example tie_rejects_check_on_raw_name :
  interp (TPrim (PCheckExists YRaw) :: tl save_toks_reference) SZip 0 [] <> Some (save_skeleton SZip).
Proof. vm_compute. discriminate. Qed.

(* removal of the old target before the object is serialised *)
Example tie_rejects_early_removal :
  interp [TPrim (PCheckExists YTarget); TPrim (PRemoveOld YTarget); TWithTemp (YParentOf YTarget); TPrim (PGroup YStore);
          TPrim (PRecursiveSave YStore); TPrim (PSkipMeta YStore); TPrim (PReplace YStore YTarget); TEndWithTemp]
         SDir 0 [] <> Some (save_skeleton SDir).
Proof. vm_compute. discriminate. Qed.
