(* C16 — the hypotheses of the round-3 theorems (proof/C16_Proofs_Kernel.v) are satisfiable, with
   non-trivial kernels: phases P = Z, character E m = w4 (-m) = i^m into the Gaussian rationals
   Q(i) of lib/DFT_Inst.v, 4 x 4 grid, frequency grid f k = k.  Used only by the
   Example C16_nonvacuous_* of props/C16_Properties.v. *)
From Coq Require Import ZArith List Lia Ring Arith QArith Qcanon.
From QV.lib Require Import FinSum DFT DFT2 DFT_Inst.
From QV.model Require Import C16_Model C16_Model_Kernel.
From QV.proof Require Import C16_Proofs C16_Proofs_Extra C16_Proofs_Inst C16_Proofs_Kernel.
Import ListNotations.
Local Close Scope Q_scope.
Local Close Scope Qc_scope.
Local Open Scope Z_scope.

Add Ring CringK : C_ring.

Definition EZ (m : Z) : C := w4 (- m).
Definition fZ (k : nat) : Z := Z.of_nat k.

Lemma EZ_add a b : EZ (a + b) = cmul (EZ a) (EZ b).
Proof. unfold EZ. rewrite <- w4_add. f_equal. lia. Qed.
Lemma EZ_zero : EZ 0 = c1.
Proof. reflexivity. Qed.
Lemma EZ_conj a : cconj (EZ a) = EZ (- a).
Proof. unfold EZ. apply w4_conj. Qed.
(* not the trivial character *)
Lemma EZ_nontrivial : EZ 1 <> c1.
Proof. intro H. apply (f_equal (fun z => this (fst z))) in H. vm_compute in H. discriminate H. Qed.

Lemma C16k_character :
  ring_theory 0%Z 1%Z Z.add Z.mul Z.sub Z.opp eq /\
  (forall a b, EZ (a + b) = cmul (EZ a) (EZ b)) /\ EZ 0 = c1 /\ (forall a, cconj (EZ a) = EZ (- a)) /\ EZ 1 <> c1.
Proof.
  split; [exact Zth|]. split; [exact EZ_add|]. split; [exact EZ_zero|]. split; [exact EZ_conj | exact EZ_nontrivial].
Qed.

Local Notation instk f :=
  (f C c0 c1 cadd cmul csub copp C_ring cconj C_conj_ok 4%nat w4 quarter 4%nat w4 quarter C_root_ok C_root_ok
     Z 0%Z 1%Z Z.add Z.mul Z.sub Z.opp Zth EZ EZ_add EZ_zero EZ_conj) (only parsing).
Local Notation instg f :=
  (f C c0 c1 cadd cmul csub copp C_ring cconj C_conj_ok 4%nat w4 quarter 4%nat w4 quarter C_root_ok C_root_ok
     quarter four Hrs4 Hrsi4) (only parsing).

Local Notation fs := (fourier_shift c0 cadd cmul 4 w4 quarter 4 w4 quarter).
Local Notation pr := (propagate c0 cadd cmul 4 w4 quarter 4 w4 quarter).
Local Notation rampZ := (shift_ramp Z.mul Z.opp EZ fZ).
Local Notation KZ := (fresnel_kernel_code cmul Z.add Z.mul Z.opp EZ).

(* ---------------------------------------------------------------- shift ramp *)
Lemma C16k_ramp : forall (s1 s2 t1 t2 : Z) (x : nat -> nat -> C),
  energy2 c0 cadd cmul cconj 4 4 (fs (rampZ s1) (rampZ s2) x) = energy2 c0 cadd cmul cconj 4 4 x
  /\ eq2 C 4 4 (fs (rampZ s1) (rampZ s2) (fs (rampZ t1) (rampZ t2) x)) (fs (rampZ (s1 + t1)) (rampZ (s2 + t2)) x)
  /\ eq2 C 4 4 (fs (rampZ (- s1)) (rampZ (- s2)) (fs (rampZ s1) (rampZ s2) x)) x
  /\ eq2 C 4 4 (fs (rampZ s1) (rampZ s2) x) (roll2 4 4 s1 s2 x).
Proof.
  intros s1 s2 t1 t2 x. split; [|split; [|split]].
  - apply (instk ramp_translate_energy).
  - apply (instk ramp_translate_additive).
  - apply (instk ramp_translate_inverse).
  - apply (instk ramp_integer_is_roll (fun z => z) fZ fZ s1 s2 x);
      intros k _; unfold EZ, ramp_phase, fZ; f_equal; lia.
Qed.

(* the ramp is not the constant 1: shifting by (1, 0) moves the array *)
Lemma C16k_ramp_nontrivial : rampZ 1 1 <> c1.
Proof. intro H. apply (f_equal (fun z => this (fst z))) in H. vm_compute in H. discriminate H. Qed.

(* ---------------------------------------------------------------- Fresnel kernel *)
Lemma C16k_fresnel : forall (lam tr tc dz dz' : Z) (br bc : bool) (x : nat -> nat -> C),
  energy2 c0 cadd cmul cconj 4 4 (pr (KZ 1%Z lam br bc tr tc fZ fZ dz) x) = energy2 c0 cadd cmul cconj 4 4 x
  /\ eq2 C 4 4 (pr (KZ 1%Z lam br bc tr tc fZ fZ (- dz)) (pr (KZ 1%Z lam br bc tr tc fZ fZ dz) x)) x
  /\ eq2 C 4 4 (pr (KZ 1%Z lam br bc tr tc fZ fZ dz) (pr (KZ 1%Z lam br bc tr tc fZ fZ dz') x))
               (pr (KZ 1%Z lam br bc tr tc fZ fZ (dz + dz')) x)
  /\ eq2 C 4 4 (pr (fun k1 k2 => cconj (KZ 1%Z lam br bc tr tc fZ fZ dz k1 k2)) (pr (KZ 1%Z lam br bc tr tc fZ fZ dz) x)) x.
Proof.
  intros lam tr tc dz dz' br bc x. split; [|split; [|split]].
  - apply (instk fresnel_propagate_energy).
  - apply (instk fresnel_propagate_inverse).
  - apply (instk fresnel_propagate_additive).
  - apply (instk fresnel_backpropagate).
Qed.

(* a tilted kernel that is not constant: lambda = 1, dz = 1, tan theta_r = 1, at (k1, k2) = (1, 0): i^(-2) = -1 *)
Lemma C16k_fresnel_nontrivial : KZ 1%Z 1%Z true false 1%Z 0%Z fZ fZ 1%Z 1 0 <> c1.
Proof. intro H. apply (f_equal (fun z => this (fst z))) in H. vm_compute in H. discriminate H. Qed.

Lemma C16k_fresnel_shape : forall (lam tr tc dz : Z) (k1 k2 : nat),
  KZ 1%Z lam true true tr tc fZ fZ dz k1 k2 = fresnel_kernel Z.add Z.mul Z.opp EZ 1%Z lam tr tc fZ fZ dz k1 k2
  /\ KZ 1%Z lam false false 0%Z 0%Z fZ fZ dz k1 k2 = fresnel_kernel Z.add Z.mul Z.opp EZ 1%Z lam 0%Z 0%Z fZ fZ dz k1 k2.
Proof.
  intros. split; apply (instk fresnel_code_shape); congruence.
Qed.

(* ---------------------------------------------------------------- forward pass *)
Lemma ikernel_units : Forall (unit2 C c1 cmul cconj 4 4) [ikernel 1; ikernel 2; ikernel 3].
Proof. repeat constructor; apply ikernel_unit. Qed.

Lemma C16k_forward_pass : forall (lam tr tc t1 t2 s1 s2 d1 d2 : Z) (P Q : nat -> nat -> C),
  total_intensity c0 cadd cmul cconj 4 w4 4 w4 quarter
    (map (forward_operator c0 cadd cmul 4 w4 quarter 4 w4 quarter [ikernel 1; ikernel 2; ikernel 3]
            (propagator_arrays cmul Z.add Z.mul Z.opp EZ 1%Z lam true true tr tc fZ fZ [t1; t2])
            (rampZ s1) (rampZ s2) (rampZ d1) (rampZ d2)) [P; Q])
  = cadd (energy2 c0 cadd cmul cconj 4 4 P) (cadd (energy2 c0 cadd cmul cconj 4 4 Q) c0).
Proof.
  intros. apply (instk forward_pass_intensity quarter four Hrs4 Hrsi4). exact ikernel_units.
Qed.

Lemma C16k_fresnel_pure_phase : forall (lam tr tc t1 t2 : Z) (P Q : nat -> nat -> C),
  total_intensity c0 cadd cmul cconj 4 w4 4 w4 quarter
    (map (overlap_projection c0 cadd cmul 4 w4 quarter 4 w4 quarter [ikernel 1; ikernel 2; ikernel 3]
            (propagator_arrays cmul Z.add Z.mul Z.opp EZ 1%Z lam true false tr tc fZ fZ [t1; t2])) [P; Q])
  = cadd (energy2 c0 cadd cmul cconj 4 4 P) (cadd (energy2 c0 cadd cmul cconj 4 4 Q) c0).
Proof.
  intros. apply (instk fresnel_pure_phase_intensity quarter four Hrs4 Hrsi4). exact ikernel_units.
Qed.

(* ---------------------------------------------------------------- gradient_step *)
Local Notation fp := (fourier_projection c0 cadd cmul 4 w4 quarter 4 w4 quarter quarter four iph).
Local Notation gs := (gradient_step c0 cadd cmul csub 4 w4 quarter 4 w4 quarter quarter four iph).

Lemma C16k_gradient_step : forall (a psi : nat -> nat -> C),
  amp2 C 4 4 iamp a ->
  eq2 C 4 4 (fun i j => cadd (psi i j) (gs a psi i j)) (fp a psi)
  /\ eq2 C 4 4 (gs a (fp a psi)) (fun _ _ => c0)
  /\ eq2 C 4 4 (detector_forward c0 cadd cmul cconj 4 w4 4 w4 quarter [fun i j => cadd (psi i j) (gs a psi i j)])
               (fun n1 n2 => cmul (a n1 n2) (a n1 n2)).
Proof.
  intros a psi Ha. split; [|split].
  - apply (instg gradient_step_plus iph iamp iamp_real iph_unit iph_amp).
  - apply (instg gradient_step_fixed_point iph iamp iamp_real iph_unit iph_amp). exact Ha.
  - apply (instg gradient_step_detector iph iamp iamp_real iph_unit iph_amp). exact Ha.
Qed.

Lemma iph_c1 : iph c1 = c1.
Proof.
  unfold iph. destruct (C_eq_dec (cmul c1 (cconj c1)) c1) as [e|n]; [reflexivity|].
  exfalso. apply n. rewrite cconj_c1. ring.
Qed.

Lemma iflat_spectrum k1 k2 : (k1 < 4)%nat -> (k2 < 4)%nat ->
  dft2_ortho c0 cadd cmul 4 w4 4 w4 quarter iflat k1 k2 = c1.
Proof.
  intros H1 H2. unfold iflat. exact (instg dft2_ortho_idft2_ortho (fun _ _ => c1) k1 k2 H1 H2).
Qed.

(* the exit wave with flat unit spectrum (modulus m = 1): |gradient_step|^2 = sum_k (a_k - 1)^2 *)
Lemma C16k_gradient_step_energy : forall a : nat -> nat -> C,
  amp2 C 4 4 iamp a ->
  energy2 c0 cadd cmul cconj 4 4 (gs a iflat)
  = sum2 c0 cadd 4 4 (fun k1 k2 => cmul (csub (ifftshift2 4 4 a k1 k2) c1) (csub (ifftshift2 4 4 a k1 k2) c1)).
Proof.
  intros a Ha.
  apply (instg gradient_step_energy iph iamp iamp_real iph_unit iph_amp a iflat (fun _ _ => c1) Ha).
  intros k1 k2 H1 H2. rewrite (iflat_spectrum k1 k2 H1 H2), iph_c1. split; [ring | apply cconj_c1].
Qed.

Lemma C16k_gradient_step_mixed : forall a : nat -> nat -> C,
  amp2 C 4 4 iamp a ->
  Forall (fun g : nat -> nat -> C => eq2 C 4 4 g (fun _ _ => c0))
    (gradient_step_mixed c0 cadd cmul csub 4 w4 quarter 4 w4 quarter cconj quarter four iisq c0 a
       (fourier_projection_mixed c0 cadd cmul cconj 4 w4 quarter 4 w4 quarter quarter four iisq c0 a [iflat])).
Proof.
  intros a Ha.
  exact (instg gradient_step_mixed_fixed_point iph iamp iamp_real iph_unit iph_amp iisq iisq_amp a [iflat] Ha iflat_isq_ok).
Qed.

(* ---------------------------------------------------------------- slices *)
Lemma C16k_scatter_slices : forall (o1 o2 : nat -> Z) (u1 u2 u3 v1 v2 v3 : Z),
  ldot_slices 0%Z Z.add Z.mul (gather_slices [o1; o2] [4; 1; 4]%nat) [[u1; u2; u3]; [v1; v2; v3]]
  = adot_slices 0%Z Z.add Z.mul 6 [o1; o2] (scatter_slices 0%Z Z.add [4; 1; 4]%nat [[u1; u2; u3]; [v1; v2; v3]]).
Proof.
  intros. apply (scatter_adjoint_gather_slices Z 0%Z 1%Z Z.add Z.mul Z.sub Z.opp Zth). repeat constructor; lia.
Qed.

(* ---------------------------------------------------------------- the rational phase instance *)
(* fftfreq(5, 1/2) = [0, 2/5, 4/5, -4/5, -2/5];  ramp phases of a (2 x 3) grid shifted by (1/2, 3) *)
Lemma C16k_fftfreq_example :
  map (fun k => Qred (C16K.fftfreq_q 5 (1 # 2) k)) (seq 0 5) = [0; 2 # 5; 4 # 5; -4 # 5; -2 # 5]%Q
  /\ map (map Qred) (C16K.ramp_phases 2 3 (1 # 2) 3) = [[0; -1; 1]; [1 # 4; -3 # 4; 5 # 4]]%Q.
Proof. split; vm_compute; reflexivity. Qed.
