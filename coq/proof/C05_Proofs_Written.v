(* C05 — the positional re-keying of the pinned commit (`for i, old_param in
   enumerate(old_state.keys())`): it is the identity on the view exactly on the domain where the
   key order of optimizer.state is the parameter order (`aligned`); there the resume theorems
   hold for the code as written. *)
From QV.lib Require Import Prelude.
From QV.model Require Import C05_Model.
From QV.proof Require Import C05_Proofs_Base C05_Proofs_Iter C05_Proofs_Copy C05_Proofs_Reconnect C05_Proofs.
Set Implicit Arguments.

Section Written.
  Variables V M L R C SS : Type.
  Implicit Types (s : st V M L R C SS) (h : heap V M R SS) (m : mdl C) (ms t : list (mdl C)).

  (* ------------------------------------------------------------------ lists *)
  Lemma combine_fst_snd (l : list (id * pstate M)) : combine (map fst l) (map snd l) = l.
  Proof. induction l as [|[a b] t IH]; cbn; [reflexivity|now rewrite IH]. Qed.

  Lemma combine_app_l (A B : Type) (a a' : list A) (b : list B) :
    length b <= length a -> combine (a ++ a') b = combine a b.
  Proof.
    revert b. induction a as [|x t IH]; intros [|y b] H; cbn in *; try reflexivity; try lia.
    - now destruct a'.
    - f_equal. apply IH. lia.
  Qed.

  Lemma combine_keys (ks : list id) (vals : list (pstate M)) x :
    In x (map fst (combine ks vals)) -> In x ks.
  Proof.
    revert vals. induction ks as [|k t IH]; intros [|v vs]; cbn; try tauto.
    intros [<-|H]; [now left|right; eapply IH; exact H].
  Qed.

  Lemma map_fst_combine_firstn (ks : list id) (vals : list (pstate M)) :
    map fst (combine ks vals) = firstn (length (combine ks vals)) ks.
  Proof.
    revert vals. induction ks as [|k t IH]; intros [|v vs]; cbn; try reflexivity.
    f_equal. apply IH.
  Qed.

  Lemma map_const_len (A B : Type) (c : B) (l l' : list A) :
    length l = length l' -> map (fun _ => c) l = map (fun _ => c) l'.
  Proof.
    revert l'. induction l as [|x t IH]; intros [|y t'] E; cbn in *; try discriminate; [reflexivity|].
    f_equal. apply IH. lia.
  Qed.

  Lemma NoDup_app_disj (A : Type) (a b : list A) x : NoDup (a ++ b) -> In x a -> In x b -> False.
  Proof.
    induction a as [|y t IH]; cbn; intros Hnd Ha Hb; [contradiction|].
    inversion Hnd as [|? ? Hni Hn]; subst. destruct Ha as [->|Ha]; [|now apply IH].
    apply Hni. apply in_or_app. now right.
  Qed.

  (* looking the keys up in a dict built positionally does not depend on the keys *)
  Lemma pos_view (ks ks' : list id) : forall (vals : list (pstate M)),
    NoDup ks -> NoDup ks' -> length ks = length ks' ->
    map (st_lookup (combine ks' vals)) ks' = map (st_lookup (combine ks vals)) ks.
  Proof.
    revert ks'. induction ks as [|k t IH]; intros [|k' t'] vals Hnd Hnd' E; cbn in E; try discriminate;
      [reflexivity|].
    destruct vals as [|v vs].
    - cbn [combine]. cbn [map st_lookup]. f_equal. apply map_const_len. lia.
    - inversion Hnd as [|? ? Hni Hn]; subst. inversion Hnd' as [|? ? Hni' Hn']; subst.
      cbn [combine map st_lookup]. rewrite !Nat.eqb_refl. f_equal.
      transitivity (map (st_lookup (combine t' vs)) t').
      + apply map_ext_in. intros x Hx. destruct (Nat.eqb_spec k' x); [subst; contradiction|reflexivity].
      + rewrite (IH t' vs Hn Hn') by lia.
        apply map_ext_in. intros x Hx. destruct (Nat.eqb_spec k x); [subst; contradiction|reflexivity].
  Qed.

  Lemma rekey_by_position_view (old new : list id) (st0 : list (id * pstate M)) :
    NoDup old -> NoDup new -> length old = length new ->
    map fst st0 = firstn (length st0) old ->
    map (st_lookup (rekey_by_position new st0)) new = map (st_lookup st0) old.
  Proof.
    intros Hnd Hnd' Hlen Hal. unfold rekey_by_position.
    set (j := length st0) in *. set (vals := map snd st0).
    assert (Hj : j <= length old).
    { assert (E : length (map fst st0) = length (firstn j old)) by now rewrite Hal.
      rewrite map_length, firstn_length in E. fold j in E. lia. }
    assert (Est : st0 = combine (firstn j old) vals).
    { rewrite <- Hal. unfold vals. now rewrite combine_fst_snd. }
    assert (Hlv : length vals = j) by (unfold vals; now rewrite map_length).
    rewrite <- (firstn_skipn j new) at 1 2. rewrite <- (firstn_skipn j old) at 1.
    rewrite combine_app_l by (rewrite firstn_length; lia).
    rewrite !map_app. f_equal.
    - rewrite Est at 1. apply pos_view.
      + now apply NoDup_firstn.
      + now apply NoDup_firstn.
      + rewrite !firstn_length. lia.
    - rewrite <- (firstn_skipn j new) in Hnd'. rewrite <- (firstn_skipn j old) in Hnd.
      transitivity (map (fun _ : id => @None (pstate M)) (skipn j new)).
      + apply map_ext_in. intros x Hx. apply st_lookup_not_in. intros Hk. apply combine_keys in Hk.
        exact (NoDup_app_disj _ _ x Hnd' Hk Hx).
      + transitivity (map (fun _ : id => @None (pstate M)) (skipn j old)).
        * apply map_const_len. rewrite !skipn_length. lia.
        * symmetry. apply map_ext_in. intros x Hx. rewrite Est. apply st_lookup_not_in. intros Hk.
          apply combine_keys in Hk. exact (NoDup_app_disj _ _ x Hnd Hk Hx).
  Qed.
  (* ------------------------------------------------------------------ one model *)
  Definition aligned_m h m : Prop :=
    match mopt m with
    | Some o => match ho h o with Some ob => aligned_opt ob | None => True end
    | None => True
    end.

  Lemma aligned_eq s : aligned s <-> Forall (aligned_m (hh s)) (models (rc s)).
  Proof. reflexivity. Qed.

  Lemma agree_aligned h h' m : agree_for h h' m -> aligned_m h m -> aligned_m h' m.
  Proof.
    intros (_ & _ & Eo & _). unfold aligned_m. destruct (mopt m) as [o|]; [|auto].
    now rewrite (Eo o eq_refl).
  Qed.

  Lemma reconnect_model_view_written h m :
    prebound h m -> aligned_m h m -> mview_of (fst (reconnect_model true h m)) m = mview_of h m.
  Proof.
    intros (Hnd & Hlt & Ho & Hs) Hal. unfold reconnect_model. unfold aligned_m in Hal.
    destruct (mopt m) as [o|] eqn:Em; [|reflexivity].
    destruct Ho as (Hlo & Hne & ob & Eo & Elen & Hndo). rewrite Eo in *.
    destruct (mparams m) as [|p ps] eqn:Ep; [congruence|].
    cbn [fst]. unfold mview_of. rewrite Em, Ep. cbn [hp ho hs]. rewrite fupd_eq, Eo.
    cbn [okind olr oparams ostate]. f_equal.
    - rewrite (rekey_by_position_view (old := oparams ob)); [reflexivity|exact Hndo|exact Hnd|exact Elen|exact Hal].
    - destruct (msched m) as [x|] eqn:Ex; [|reflexivity].
      destruct Hs as (Hlx & _ & sb & Esb). rewrite Esb, fupd_eq. reflexivity.
  Qed.

  Lemma reconnect_model_aligned h m : prebound h m -> aligned_m (fst (reconnect_model true h m)) m.
  Proof.
    intros (Hnd & Hlt & Ho & Hs). unfold reconnect_model, aligned_m.
    destruct (mopt m) as [o|] eqn:Em; [|exact I].
    destruct Ho as (Hlo & Hne & ob & Eo & Elen & Hndo). rewrite Eo.
    destruct (mparams m) as [|p ps] eqn:Ep; [congruence|].
    cbn [fst ho]. rewrite fupd_eq. unfold aligned_opt, rekey_by_position. cbn [ostate oparams].
    apply map_fst_combine_firstn.
  Qed.

  (* ------------------------------------------------------------------ all models *)
  Lemma reconnect_all_written ms : forall h,
    ForallOrdPairs sep ms -> Forall (prebound h) ms ->
    Forall (aligned_m (fst (reconnect_all true h ms))) ms /\
    (Forall (aligned_m h) ms -> map (mview_of (fst (reconnect_all true h ms))) ms = map (mview_of h) ms).
  Proof.
    induction ms as [|m t IH]; intros h Hsep Hpre; [split; [constructor|reflexivity]|].
    inversion Hsep as [|? ? Hm Ht]; subst. inversion Hpre as [|? ? Hpm Hpt]; subst.
    rewrite reconnect_all_cons. cbn [fst snd map].
    set (h1 := fst (reconnect_model true h m)) in *.
    assert (Hag : forall m2, In m2 t -> agree_for h h1 m2).
    { intros m2 Hin. apply reconnect_model_agree. rewrite Forall_forall in Hm. now apply Hm. }
    assert (Hpt1 : Forall (prebound h1) t).
    { rewrite Forall_forall in *. intros m2 Hin. eapply agree_prebound; [now apply Hag|now apply Hpt]. }
    destruct (IH h1 Ht Hpt1) as (Hal2 & Hview2).
    pose proof (reconnect_all_agree true h1 Hm) as Hagm. split.
    - constructor; [|exact Hal2]. eapply agree_aligned; [exact Hagm|]. now apply reconnect_model_aligned.
    - intros Hal. inversion Hal as [|? ? Halm Halt]; subst. f_equal.
      + rewrite (agree_view Hagm). now apply reconnect_model_view_written.
      + rewrite Hview2.
        * apply map_ext_in. intros m2 Hin. apply agree_view. now apply Hag.
        * rewrite Forall_forall in *. intros m2 Hin. eapply agree_aligned; [now apply Hag|now apply Halt].
  Qed.

  Lemma view_to_dev_written s : loaded_inv s -> aligned s -> view_of (to_dev true s) = view_of s.
  Proof.
    intros Hl Hal. pose proof Hl as (Hsep & Hpre). unfold view_of.
    rewrite to_dev_losses, to_dev_lrs, (to_dev_models true Hl). f_equal.
    rewrite to_dev_eq. cbn [hh]. now apply (reconnect_all_written Hsep Hpre).
  Qed.

  Lemma to_dev_aligned s : loaded_inv s -> aligned (to_dev true s).
  Proof.
    intros Hl. pose proof Hl as (Hsep & Hpre). apply aligned_eq.
    rewrite (to_dev_models true Hl). rewrite to_dev_eq. cbn [hh].
    now apply (reconnect_all_written Hsep Hpre).
  Qed.

  (* ------------------------------------------------------------------ copies keep the order *)
  Lemma aligned_shift b (ob : optobj M R) : aligned_opt ob -> aligned_opt (shift_opt b ob).
  Proof.
    destruct ob as [k ps sts lr]. unfold aligned_opt, shift_opt. cbn [ostate oparams].
    revert ps. induction sts as [|[a q] t IH]; intros ps H; [reflexivity|].
    destruct ps as [|p ps']; cbn in H; [discriminate|]. inversion H as [[Ea Et]].
    cbn. f_equal. apply IH. exact Et.
  Qed.

  Lemma copy_aligned g s : binding_inv s -> aligned s -> aligned (copy_st g s).
  Proof.
    intros (Hsep & Hb) Hal. apply aligned_eq.
    change (Forall (aligned_m (hh s)) (models (rc s))) in Hal.
    unfold copy_st. cbn [hh rc models].
    apply copy_models_Forall with (P := fun m => bound (hh s) m /\ aligned_m (hh s) m).
    - intros k m Hk Hin (Hbm & Ham).
      assert (Hok : ok_blk (nblocks g (length (models (rc s)))) (blocks g k)) by (apply blocks_ok; lia).
      pose proof (bound_refs_lt Hbm) as (_ & Hro & _).
      unfold aligned_m in *. destruct (blocks g k) as [[[qp qo] qs]|]; cbn [copy_model mopt].
      + destruct (mopt m) as [o|] eqn:Em; cbn [option_map]; [|exact I].
        destruct Hok as (_ & (Hq1 & Hq2) & _).
        rewrite copy_ho_hi by (auto; apply Hro; reflexivity).
        destruct (ho (hh s) o) as [ob|]; cbn [option_map]; [|exact I]. now apply aligned_shift.
      + destruct (mopt m) as [o|] eqn:Em; [|exact I].
        rewrite copy_ho_lo by (apply Hro; reflexivity). exact Ham.
    - rewrite Forall_forall in *. intros m Hin. split; [apply Hb|apply Hal]; exact Hin.
  Qed.

  (* ------------------------------------------------------------------ save / load as written *)
  Lemma view_reload_written g dev s :
    binding_inv s -> aligned s -> view_of (reload true g dev s) = view_of s.
  Proof.
    intros H Hal. rewrite reload_eq. unfold load.
    assert (Hl : loaded_inv s) by now apply binding_loaded.
    assert (H1 : binding_inv (to_dev true s)) by now apply to_dev_binding.
    assert (E1 : view_of (to_dev true s) = view_of s) by now apply view_to_dev_written.
    assert (A1 : aligned (to_dev true s)) by now apply to_dev_aligned.
    destruct dev.
    - rewrite view_to_dev_written; [now rewrite view_copy|now apply copy_loaded|now apply copy_aligned].
    - now rewrite view_copy.
  Qed.

  Lemma view_save_live_written g s :
    binding_inv s -> aligned s -> view_of (snd (save true g s)) = view_of s.
  Proof.
    intros H Hal. rewrite save_live_eq.
    assert (Hl : loaded_inv s) by now apply binding_loaded.
    rewrite view_to_dev_written.
    - now apply view_to_dev_written.
    - apply binding_loaded. now apply to_dev_binding.
    - now apply to_dev_aligned.
  Qed.
End Written.

Section WrittenRuns.
  Variables V G M L R C SS : Type.
  Variable Rzero : R.
  Variable forward : list (list (option V) * C) -> L * list (list (option G)).
  Variable opt_update : opt_kind -> R -> V -> G -> option (pstate M) -> V * option (pstate M).
  Variable sched_step : SS -> nat -> L -> R -> SS * R.
  Local Notation run := (run Rzero forward opt_update sched_step).
  Implicit Types (s : st V M L R C SS).

  (* the code AS WRITTEN resumes correctly whenever, at the interruption, the key order of
     every optimizer.state is the parameter order *)
  Theorem resume_equiv_as_written g dev k n s :
    binding_inv s -> aligned (run k s) -> rebinds g dev -> k <= n ->
    obs (run (n - k) (reload true g dev (run k s))) = obs (run n s) /\
    obs (run (n - k) (snd (save true g (run k s)))) = obs (run n s).
  Proof.
    intros H Hal Hr Hkn.
    replace n with (k + (n - k)) at 2 4 by (rewrite Nat.add_comm; apply Nat.sub_add; exact Hkn).
    rewrite run_add.
    pose proof (run_binding_inv Rzero forward opt_update sched_step k H) as Hk.
    split; apply obs_view; apply run_view_eq; auto.
    - apply reload_binding_inv; assumption.
    - apply view_reload_written; assumption.
    - apply save_live_binding_inv; assumption.
    - apply view_save_live_written; assumption.
  Qed.
End WrittenRuns.
