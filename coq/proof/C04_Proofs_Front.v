(* C04 — from the stack to the result: linearity in the stack, sub-mask recombination. *)
From Coq Require Import ZArith List Bool Arith Lia Ring Permutation.
From QV.lib Require Import Prelude Chunks FinSum DFT DFT2.
From QV.model Require Import C04_Model.
From QV.proof Require Import C04_Proofs_Base C04_Proofs.
Import ListNotations.
Unset Implicit Arguments.

Section Front.
  Variable R : Type.
  Variables (rO rI : R) (radd rmul rsub : R -> R -> R) (ropp : R -> R).
  Variable Rth : ring_theory rO rI radd rmul rsub ropp (@eq R).
  Add Ring RringC04f : Rth.
  Variable conj : R -> R.
  Hypothesis Cok : conj_ok radd rmul conj.
  Variables (half : R) (rinv : R -> R).
  (* scan grid *)
  Variables (n1 : nat) (ws1 : Z -> R) (ninv1 : R) (n2 : nat) (ws2 : Z -> R) (ninv2 : R).
  Hypothesis Roks1 : root_ok rO rI radd rmul conj n1 ws1 ninv1.
  Hypothesis Roks2 : root_ok rO rI radd rmul conj n2 ws2 ninv2.
  (* reconstruction grid *)
  Variables (N1 : nat) (w1 : Z -> R) (Ninv1 : R) (N2 : nat) (w2 : Z -> R) (Ninv2 : R).
  Hypothesis Rok1 : root_ok rO rI radd rmul conj N1 w1 Ninv1.
  Hypothesis Rok2 : root_ok rO rI radd rmul conj N2 w2 Ninv2.
  Variable kern : nat * nat -> img R -> img R.
  Variable pwd : nat * nat -> img R.
  Variable wtd : nat * nat -> R.
  Variables (env : img R) (normf : img R -> img R) (garbage : img R).

  Infix "+" := radd.  Infix "*" := rmul.  Infix "-" := rsub.
  Notation suml := (suml rO radd).
  Notation ifft := (ifft2 rO radd rmul N1 N2 w1 w2 Ninv1 Ninv2).
  Notation idft2b := (idft2 rO radd rmul N1 w1 Ninv1 N2 w2 Ninv2).
  Notation re := (re_part radd rmul conj half).
  Notation pre := (preprocess rO radd rmul n1 n2 ws1 ws2).
  Notation tl := (tile n1 n2).
  Notation contribs := (ctx_contrib rO radd rmul n1 n2 ws1 ws2 kern).
  Notation Wm sub := (bf_weights rO radd (ctx_n sub) (ctx_wt wtd sub)).
  Notation rec1 stack := (recon_mask_single rO radd rmul conj half rinv n1 n2 ws1 ws2 N1 N2 w1 w2 Ninv1 Ninv2
                            kern wtd stack env garbage).
  Notation rec2 stack := (recon_mask_two rO radd rmul conj half rinv n1 n2 ws1 ws2 N1 N2 w1 w2 Ninv1 Ninv2
                            kern pwd wtd stack env normf garbage).

  Definition kern_linear_on_grid : Prop :=
    forall p a b (X Y : img R) k1 k2, (k1 < N1)%nat -> (k2 < N2)%nat ->
      kern p (fun i j => a * X i j + b * Y i j) k1 k2 = a * kern p X k1 k2 + b * kern p Y k1 k2.
  Definition kern_ext_on_grid : Prop :=
    forall p (X Y : img R),
      (forall k1 k2, (k1 < N1)%nat -> (k2 < N2)%nat -> X k1 k2 = Y k1 k2) ->
      forall k1 k2, (k1 < N1)%nat -> (k2 < N2)%nat -> kern p X k1 k2 = kern p Y k1 k2.


  (* ---------------------------------------------------------------- closed forms for a mask *)
  Lemma mask_single_closed stack full sub b j d : (1 <= b)%nat -> (j < ctx_n sub)%nat ->
    nth j (rec1 stack full sub b) d
    = fun r1 r2 => re (ifft (imul rmul (contribs stack full sub j) env) r1 r2) * rinv (Wm sub).
  Proof.
    intros Hb Hj. unfold recon_mask_single.
    rewrite (single_closed (batches_of (ctx_n sub) b) j d (chunks_partition _ _ Hb) Hj).
    reflexivity.
  Qed.

  Lemma mask_two_closed stack full sub b j d r1 r2 :
    normf_respects_grid R N1 N2 normf ->
    (1 <= b)%nat -> (j < ctx_n sub)%nat -> (r1 < N1)%nat -> (r2 < N2)%nat ->
    nth j (rec2 stack full sub b) d r1 r2
    = spec_two R rO radd rmul conj half rinv N1 w1 Ninv1 N2 w2 Ninv2 (ctx_n sub)
        (contribs stack full sub) (ctx_pw pwd sub) (ctx_wt wtd sub) env normf j r1 r2.
  Proof.
    intros Hnf Hb Hj H1 H2. unfold recon_mask_two.
    apply (two_closed Rth Cok Rok1 Rok2); try assumption. apply chunks_partition. exact Hb.
  Qed.

  (* ---------------------------------------------------------------- linearity in the stack *)
  Lemma re_lin a b x y : conj a = a -> conj b = b -> re (a * x + b * y) = a * re x + b * re y.
  Proof.
    intros Ha Hb. unfold re_part.
    rewrite (conj_add _ _ _ _ Cok), !(conj_mul _ _ _ _ Cok), Ha, Hb. ring.
  Qed.

  Lemma pre_lin a b (x y : img R) k1 k2 : (k1 < n1)%nat -> (k2 < n2)%nat ->
    pre (fun i j => a * x i j + b * y i j) k1 k2 = a * pre x k1 k2 + b * pre y k1 k2.
  Proof.
    intros H1 H2. unfold preprocess, zero_dc.
    rewrite !(dft2_m_eq Rth Cok Roks1 Roks2) by assumption.
    rewrite (dft2_linear Rth Cok Roks1 Roks2).
    destruct k1, k2; ring.
  Qed.

  Lemma tile_pre_lin a b (x y : img R) k1 k2 :
    tl (pre (fun i j => a * x i j + b * y i j)) k1 k2 = a * tl (pre x) k1 k2 + b * tl (pre y) k1 k2.
  Proof.
    pose proof (ro_pos _ _ _ _ _ _ _ _ _ Roks1). pose proof (ro_pos _ _ _ _ _ _ _ _ _ Roks2).
    unfold tile. apply pre_lin; apply Nat.mod_upper_bound; lia.
  Qed.

  Definition lin_stack (a b : R) (s1 s2 : nat -> img R) : nat -> img R :=
    fun m i j => a * s1 m i j + b * s2 m i j.

  Lemma contrib_lin a b s1 s2 full sub j k1 k2 :
    kern_linear_on_grid -> kern_ext_on_grid -> (k1 < N1)%nat -> (k2 < N2)%nat ->
    contribs (lin_stack a b s1 s2) full sub j k1 k2
    = a * contribs s1 full sub j k1 k2 + b * contribs s2 full sub j k1 k2.
  Proof.
    intros Hl He H1 H2. unfold ctx_contrib.
    rewrite <- Hl by assumption. apply He; try assumption.
    intros q1 q2 _ _. unfold lin_stack. apply tile_pre_lin.
  Qed.

  Theorem linear_single_lemma a b s1 s2 full sub bs j d r1 r2 :
    kern_linear_on_grid -> kern_ext_on_grid -> conj a = a -> conj b = b ->
    (1 <= bs)%nat -> (j < ctx_n sub)%nat -> (r1 < N1)%nat -> (r2 < N2)%nat ->
    nth j (rec1 (lin_stack a b s1 s2) full sub bs) d r1 r2
    = a * nth j (rec1 s1 full sub bs) d r1 r2 + b * nth j (rec1 s2 full sub bs) d r1 r2.
  Proof.
    intros Hl He Ha Hb Hbs Hj H1 H2.
    rewrite !mask_single_closed by assumption.
    rewrite !(ifft_idft2 Rth Cok Rok1 Rok2) by assumption.
    rewrite (idft2_ext Rth Cok Rok1 Rok2 _
               (fun k1 k2 => a * imul rmul (contribs s1 full sub j) env k1 k2
                             + b * imul rmul (contribs s2 full sub j) env k1 k2)).
    2:{ intros k1 k2 Hk1 Hk2. unfold imul. rewrite contrib_lin by assumption. ring. }
    rewrite (idft2_linear Rth Cok Rok1 Rok2). rewrite re_lin by assumption. ring.
  Qed.

  Theorem linear_two_lemma a b s1 s2 full sub bs j d r1 r2 :
    normf_respects_grid R N1 N2 normf ->
    kern_linear_on_grid -> kern_ext_on_grid -> conj a = a -> conj b = b ->
    (1 <= bs)%nat -> (j < ctx_n sub)%nat -> (r1 < N1)%nat -> (r2 < N2)%nat ->
    nth j (rec2 (lin_stack a b s1 s2) full sub bs) d r1 r2
    = a * nth j (rec2 s1 full sub bs) d r1 r2 + b * nth j (rec2 s2 full sub bs) d r1 r2.
  Proof.
    intros Hnf Hl He Ha Hb Hbs Hj H1 H2.
    rewrite !mask_two_closed by assumption. unfold spec_two.
    rewrite !(ifft_idft2 Rth Cok Rok1 Rok2) by assumption.
    match goal with |- context [imul rmul (imul rmul (contribs (lin_stack a b s1 s2) full sub j) ?NF) env] =>
      rewrite (idft2_ext Rth Cok Rok1 Rok2 _
                 (fun k1 k2 => a * imul rmul (imul rmul (contribs s1 full sub j) NF) env k1 k2
                               + b * imul rmul (imul rmul (contribs s2 full sub j) NF) env k1 k2))
    end.
    2:{ intros k1 k2 Hk1 Hk2. unfold imul. rewrite contrib_lin by assumption. ring. }
    rewrite (idft2_linear Rth Cok Rok1 Rok2). rewrite re_lin by assumption. ring.
  Qed.

  (* ---------------------------------------------------------------- sub-mask recombination *)
  (* real-space contribution of the m-th pixel of the FULL mask (m = its index in the stack) *)
  Definition pixel_term (stack : nat -> img R) (full : mask2) (m : nat) (r1 r2 : nat) : R :=
    re (ifft (imul rmul (kern (nth m (nonzero2 full) (0, 0)%nat) (tl (pre (stack m)))) env) r1 r2).

  Lemma contrib_via_full stack full sub j :
    same_shape full sub -> submask full sub -> (j < ctx_n sub)%nat ->
    contribs stack full sub j
    = kern (nth (nth j (index_map full sub) 0%nat) (nonzero2 full) (0, 0)%nat)
           (tl (pre (stack (nth j (index_map full sub) 0%nat)))).
  Proof.
    intros Hsh Hsub Hj. unfold ctx_contrib, ctx_pix.
    destruct (index_map_correct_lemma full sub Hsh Hsub) as [_ Hn].
    rewrite Hn by exact Hj. reflexivity.
  Qed.

  (* W_sub * corrected_bf(sub) = sum of the pixel terms over the stack indices of the sub-mask *)
  Lemma weighted_bf_of_submask stack full sub bs r1 r2 :
    same_shape full sub -> submask full sub -> (1 <= bs)%nat ->
    Wm sub * rinv (Wm sub) = rI ->
    Wm sub * corrected_bf rO radd (rec1 stack full sub bs) r1 r2
    = suml (map (fun m => pixel_term stack full m r1 r2) (index_map full sub)).
  Proof.
    intros Hsh Hsub Hb HW. unfold recon_mask_single.
    rewrite (corrected_bf_single Rth)
      by (apply chunks_partition; exact Hb).
    destruct (index_map_correct_lemma full sub Hsh Hsub) as [Hlen _].
    transitivity (suml (map (fun j => pixel_term stack full (nth j (index_map full sub) 0%nat) r1 r2)
                            (seq 0 (ctx_n sub)))).
    - match goal with |- _ * (?S * _) = _ => transitivity (S * (Wm sub * rinv (Wm sub))); [ring|] end.
      rewrite HW.
      match goal with |- ?S * rI = _ => transitivity S; [ring|] end.
      apply suml_map_ext. intros j Hj. apply in_seq in Hj. unfold pixel_term.
      rewrite contrib_via_full by (try assumption; lia). reflexivity.
    - unfold ctx_n. rewrite <- Hlen.
      apply (f_equal suml).
      apply (map_nth_seq (fun m => pixel_term stack full m r1 r2) (index_map full sub) 0%nat).
  Qed.

  Theorem submask_recombine_lemma stack full (parts : list mask2) (bsz : mask2 -> nat) bF r1 r2 :
    (forall part, In part parts -> same_shape full part /\ submask full part /\ (1 <= bsz part)%nat
                                   /\ Wm part * rinv (Wm part) = rI) ->
    Permutation (concat (map (index_map full) parts)) (seq 0 (ctx_n full)) ->
    (1 <= bF)%nat -> Wm full * rinv (Wm full) = rI ->
    suml (map (fun part => Wm part * corrected_bf rO radd (rec1 stack full part (bsz part)) r1 r2) parts)
    = Wm full * corrected_bf rO radd (rec1 stack full full bF) r1 r2.
  Proof.
    intros Hparts Hperm HbF HWF.
    rewrite (weighted_bf_of_submask stack full full bF r1 r2 (same_shape_refl _) (submask_refl _) HbF HWF).
    rewrite index_map_self. fold (ctx_n full).
    rewrite <- (suml_map_perm Rth _ _ _ Hperm).
    rewrite (suml_concat_map Rth). rewrite map_map.
    apply suml_map_ext. intros part Hin.
    destruct (Hparts part Hin) as [Hsh [Hsub [Hb HW]]].
    apply weighted_bf_of_submask; assumption.
  Qed.

  (* per-pixel version: the image of a sub-mask pixel is the image of the same detector pixel
     in the full reconstruction, up to the ratio of the aperture weights *)
  Theorem submask_stack_lemma stack full sub bs bF j d r1 r2 :
    same_shape full sub -> submask full sub -> (1 <= bs)%nat -> (1 <= bF)%nat ->
    (j < ctx_n sub)%nat -> (nth j (index_map full sub) 0 < ctx_n full)%nat ->
    Wm sub * rinv (Wm sub) = rI -> Wm full * rinv (Wm full) = rI ->
    Wm sub * nth j (rec1 stack full sub bs) d r1 r2
    = Wm full * nth (nth j (index_map full sub) 0%nat) (rec1 stack full full bF) d r1 r2.
  Proof.
    intros Hsh Hsub Hbs HbF Hj Hm HW HWF.
    rewrite !mask_single_closed by assumption.
    rewrite contrib_via_full by assumption.
    rewrite (contrib_via_full stack full full) by (try assumption; apply same_shape_refl || apply submask_refl).
    rewrite index_map_self. fold (ctx_n full). rewrite seq_nth by exact Hm. cbn [Nat.add].
    match goal with |- _ * (?X * _) = _ * (_ * _) =>
      transitivity (X * (Wm sub * rinv (Wm sub))); [ring|]; rewrite HW;
      transitivity (X * (Wm full * rinv (Wm full))); [rewrite HWF; ring | ring] end.
  Qed.
  (* ---------------------------------------------------------------- ANY family of sub-masks (round 3) *)
  (* the real-space term of a stack index is W_full times its image in the full reconstruction *)
  Lemma pixel_term_full stack full bF m d r1 r2 : (1 <= bF)%nat -> (m < ctx_n full)%nat ->
    Wm full * rinv (Wm full) = rI ->
    pixel_term stack full m r1 r2 = Wm full * nth m (rec1 stack full full bF) d r1 r2.
  Proof.
    intros HbF Hm HWF. rewrite mask_single_closed by assumption.
    rewrite (contrib_via_full stack full full) by (try assumption; apply same_shape_refl || apply submask_refl).
    rewrite index_map_self. fold (ctx_n full). rewrite seq_nth by exact Hm. cbn [Nat.add].
    unfold pixel_term.
    match goal with |- ?X = _ * (_ * _) => transitivity (X * (Wm full * rinv (Wm full))); [rewrite HWF; ring | ring] end.
  Qed.

  (* sub-masks that overlap or do not cover the construction mask: the weighted sum of their reconstructions is
     the sum of W_full * (image of the full reconstruction) over the stack indices of all parts, each index counted
     once per part that contains it *)
  Theorem submask_any_family_lemma stack full (parts : list mask2) (bsz : mask2 -> nat) bF d r1 r2 :
    (forall part, In part parts -> same_shape full part /\ submask full part /\ (1 <= bsz part)%nat
                                   /\ Wm part * rinv (Wm part) = rI) ->
    (forall part m, In part parts -> In m (index_map full part) -> (m < ctx_n full)%nat) ->
    (1 <= bF)%nat -> Wm full * rinv (Wm full) = rI ->
    suml (map (fun part => Wm part * corrected_bf rO radd (rec1 stack full part (bsz part)) r1 r2) parts)
    = suml (map (fun m => Wm full * nth m (rec1 stack full full bF) d r1 r2) (concat (map (index_map full) parts))).
  Proof.
    intros Hparts Hlt HbF HWF.
    rewrite (suml_concat_map Rth). rewrite map_map.
    apply suml_map_ext. intros part Hin.
    destruct (Hparts part Hin) as [Hsh [Hsub [Hb HW]]].
    rewrite (weighted_bf_of_submask stack full part (bsz part) r1 r2 Hsh Hsub Hb HW).
    apply suml_map_ext. intros m Hm.
    apply pixel_term_full; try assumption. exact (Hlt part m Hin Hm).
  Qed.
End Front.

Arguments mask_single_closed {R rO radd rmul conj half rinv n1 ws1 n2 ws2 N1 w1 Ninv1 N2 w2 Ninv2 kern wtd env garbage}
  stack full sub b j d _ _.
