(* C06 — proofs about the one-axis Fourier resampling model (model/C06_Model.v, Section
   Resample) over the abstract commutative ring with roots of unity of lib/DFT.v.
   Every statement holds for all sizes n, m >= 1 (these are premises through root_ok). *)
From Coq Require Import ZArith List Lia Ring Arith Bool.
From QV.lib Require Import Prelude FinSum DFT.
From QV.model Require Import C06_Model.
Unset Implicit Arguments.

(* ------------------------------------------------------------------------------------ *)
(* index arithmetic: signed frequency of an FFT bin and the band kept by the crop / pad *)
Local Open Scope Z_scope.

(* signed frequency of bin k of a length-m transform, numpy convention:
   -(m//2) .. m - m//2 - 1 *)
Definition sfreq (m k : nat) : Z :=
  (Z.of_nat k + Z.of_nat (m / 2)) mod Z.of_nat m - Z.of_nat (m / 2).

Definition in_band (n : nat) (q : Z) : bool :=
  (- Z.of_nat (n / 2) <=? q) && (q <? Z.of_nat n - Z.of_nat (n / 2)).

Lemma mod_lt2 a m : 0 <= a < 2 * m -> a mod m = if a <? m then a else a - m.
Proof.
  intros H. destruct (a <? m) eqn:E.
  - apply Z.mod_small. lia.
  - symmetry. apply (Z.mod_unique_pos a m 1 (a - m)); lia.
Qed.

Lemma zidx_lt' N i : (0 < N)%nat -> (zidx N i < N)%nat.
Proof. intros H. unfold zidx. pose proof (Z.mod_pos_bound i (Z.of_nat N)). lia. Qed.

Lemma zidx_Z N i : (0 < N)%nat -> Z.of_nat (zidx N i) = i mod Z.of_nat N.
Proof. intros H. unfold zidx. pose proof (Z.mod_pos_bound i (Z.of_nat N)). lia. Qed.

Lemma zidx_congr N i j : (0 < N)%nat -> i mod Z.of_nat N = j mod Z.of_nat N -> zidx N i = zidx N j.
Proof. intros H E. unfold zidx. rewrite E. reflexivity. Qed.

Lemma sci_half n : shift_center_index n = (n / 2)%nat.
Proof.
  unfold shift_center_index. destruct (Nat.even n) eqn:E; [reflexivity|].
  assert (Ho : Nat.odd n = true) by (rewrite <- Nat.negb_even, E; reflexivity).
  apply Nat.odd_spec in Ho. destruct Ho as [q ->]. lia.
Qed.

Lemma sfreq_range m k : (0 < m)%nat -> - Z.of_nat (m / 2) <= sfreq m k < Z.of_nat m - Z.of_nat (m / 2).
Proof.
  intros Hm. unfold sfreq. pose proof (Z.mod_pos_bound (Z.of_nat k + Z.of_nat (m / 2)) (Z.of_nat m)). lia.
Qed.

Lemma sfreq_band m k : (0 < m)%nat -> in_band m (sfreq m k) = true.
Proof. intros Hm. pose proof (sfreq_range m k Hm). unfold in_band. lia. Qed.

Lemma sfreq_val m k : (k < m)%nat ->
  sfreq m k = if Z.of_nat k + Z.of_nat (m / 2) <? Z.of_nat m then Z.of_nat k else Z.of_nat k - Z.of_nat m.
Proof.
  intros Hk. unfold sfreq. rewrite mod_lt2 by lia.
  destruct (Z.of_nat k + Z.of_nat (m / 2) <? Z.of_nat m); lia.
Qed.

Lemma sfreq_0 m : (0 < m)%nat -> sfreq m 0 = 0.
Proof. intros Hm. rewrite sfreq_val by lia. destruct (Z.of_nat 0 + Z.of_nat (m / 2) <? Z.of_nat m) eqn:E; lia. Qed.

Lemma zidx_sfreq m k : (k < m)%nat -> zidx m (sfreq m k) = k.
Proof.
  intros Hk. unfold zidx. rewrite sfreq_val by exact Hk.
  destruct (Z.of_nat k + Z.of_nat (m / 2) <? Z.of_nat m).
  - rewrite Z.mod_small by lia. lia.
  - replace (Z.of_nat k - Z.of_nat m) with (Z.of_nat k + (-1) * Z.of_nat m) by lia.
    rewrite Z.mod_add by lia. rewrite Z.mod_small by lia. lia.
Qed.

(* value of zidx on a signed frequency inside the band *)
Lemma zidx_band_val m q : (0 < m)%nat -> in_band m q = true ->
  Z.of_nat (zidx m q) = if q <? 0 then q + Z.of_nat m else q.
Proof.
  intros Hm Hb. unfold in_band in Hb. rewrite zidx_Z by exact Hm.
  destruct (q <? 0) eqn:E.
  - replace q with (q + Z.of_nat m + (-1) * Z.of_nat m) at 1 by lia.
    rewrite Z.mod_add by lia. apply Z.mod_small. lia.
  - apply Z.mod_small. lia.
Qed.

Lemma sfreq_zidx m q : (0 < m)%nat -> in_band m q = true -> sfreq m (zidx m q) = q.
Proof.
  intros Hm Hb. pose proof (zidx_band_val m q Hm Hb) as Hv.
  pose proof (zidx_lt' m q Hm) as Hlt.
  rewrite sfreq_val by exact Hlt. unfold in_band in Hb.
  destruct (q <? 0) eqn:E1; destruct (Z.of_nat (zidx m q) + Z.of_nat (m / 2) <? Z.of_nat m) eqn:E2; lia.
Qed.

Lemma in_band_mono n m q : (n <= m)%nat -> in_band n q = true -> in_band m q = true.
Proof. intros H Hb. unfold in_band in *. lia. Qed.

Lemma neg_mod_idemp a m : (- (a mod m)) mod m = (- a) mod m.
Proof.
  replace (- (a mod m)) with (0 - a mod m) by lia. rewrite Zminus_mod_idemp_r. f_equal.
Qed.

Lemma zidx_neg_zidx m q : (0 < m)%nat -> zidx m (- Z.of_nat (zidx m q)) = zidx m (- q).
Proof. intros Hm. apply zidx_congr; [exact Hm|]. rewrite zidx_Z by exact Hm. apply neg_mod_idemp. Qed.

(* signed frequency of the mirrored bin (-k) mod m *)
Lemma sfreq_neg m k : (k < m)%nat ->
  sfreq m (zidx m (- Z.of_nat k)) = if in_band m (- sfreq m k) then - sfreq m k else sfreq m k.
Proof.
  intros Hk. assert (Hm : (0 < m)%nat) by lia.
  rewrite <- (zidx_sfreq m k Hk) at 1. rewrite zidx_neg_zidx by exact Hm.
  destruct (in_band m (- sfreq m k)) eqn:B.
  - apply sfreq_zidx; assumption.
  - pose proof (sfreq_range m k Hm) as Hr. unfold in_band in B.
    assert (Hq : sfreq m k = - Z.of_nat (m / 2) /\ 2 * Z.of_nat (m / 2) = Z.of_nat m) by lia.
    destruct Hq as [Hq He]. rewrite Hq at 1. rewrite Z.opp_involutive.
    assert (Hz : zidx m (Z.of_nat (m / 2)) = (m / 2)%nat).
    { unfold zidx. rewrite Z.mod_small by lia. lia. }
    rewrite Hz. rewrite sfreq_val by lia. rewrite Hq.
    destruct (Z.of_nat (m / 2) + Z.of_nat (m / 2) <? Z.of_nat m) eqn:E; lia.
Qed.

Local Close Scope Z_scope.

(* ------------------------------------------------------------------------------------ *)
Section ResampleProofs.
  Variable R : Type.
  Variables (rO rI : R) (radd rmul rsub : R -> R -> R) (ropp : R -> R).
  Variable Rth : ring_theory rO rI radd rmul rsub ropp (@eq R).
  Add Ring Rring : Rth.
  Variable conj : R -> R.
  Hypothesis Cok : conj_ok radd rmul conj.
  Set Default Proof Using "All".

  Notation "0" := rO.  Notation "1" := rI.
  Infix "+" := radd.   Infix "*" := rmul.  Infix "-" := rsub.  Notation "- x" := (ropp x).
  Notation sumn := (FinSum.sumn rO radd).
  Notation of_nat := (FinSum.of_nat rO rI radd).
  Notation dft := (DFT.dft rO radd rmul).
  Notation idft := (DFT.idft rO radd rmul).
  Notation respectrum := (C06_Model.respectrum rO).
  Notation resample := (C06_Model.resample rO rI radd rmul).
  Notation rootok := (root_ok rO rI radd rmul conj).

  (* the spectrum handed to the inverse transform, bin by bin *)
  Lemma respectrum_index n m (X : nat -> R) k :
    (0 < n)%nat -> (0 < m)%nat -> (k < m)%nat ->
    respectrum n m X k = if in_band n (sfreq m k) then X (zidx n (sfreq m k)) else 0.
  Proof.
    intros Hn Hm Hk.
    unfold C06_Model.respectrum, ifftshift, roll.
    set (i := zidx m (Z.of_nat k - - Z.of_nat (m / 2))).
    assert (Hi : Z.of_nat i = (sfreq m k + Z.of_nat (m / 2))%Z).
    { unfold i. rewrite zidx_Z by exact Hm. unfold sfreq.
      replace (Z.of_nat k - - Z.of_nat (m / 2))%Z with (Z.of_nat k + Z.of_nat (m / 2))%Z by lia. lia. }
    pose proof (sfreq_range m k Hm) as Hr.
    unfold croppad. rewrite !sci_half.
    destruct (m <? n) eqn:E1; [|destruct (n <? m) eqn:E2].
    - apply Nat.ltb_lt in E1. unfold fftshift, roll.
      replace (in_band n (sfreq m k)) with true by (unfold in_band; lia).
      f_equal. f_equal. lia.
    - apply Nat.ltb_lt in E2. unfold in_band.
      destruct ((m / 2 - n / 2 <=? i) && (i <? m / 2 - n / 2 + n))%nat eqn:E3.
      + replace ((- Z.of_nat (n / 2) <=? sfreq m k)%Z && (sfreq m k <? Z.of_nat n - Z.of_nat (n / 2))%Z)
          with true by lia.
        unfold fftshift, roll. f_equal. f_equal. lia.
      + replace ((- Z.of_nat (n / 2) <=? sfreq m k)%Z && (sfreq m k <? Z.of_nat n - Z.of_nat (n / 2))%Z)
          with false by lia.
        reflexivity.
    - apply Nat.ltb_ge in E1. apply Nat.ltb_ge in E2. assert (m = n) by lia. subst m.
      rewrite sfreq_band by exact Hn. unfold fftshift, roll. f_equal. f_equal. lia.
  Qed.

  Lemma dft_scale N w c (x : nat -> R) k :
    dft N w (fun i => c * x i) k = c * dft N w x k.
  Proof.
    unfold DFT.dft. rewrite <- (sumn_scale_l Rth). apply (sumn_ext Rth). intros; ring.
  Qed.

  Lemma idft_scale N w Ninv c (X : nat -> R) j :
    idft N w Ninv (fun k => c * X k) j = c * idft N w Ninv X j.
  Proof.
    unfold DFT.idft.
    transitivity (Ninv * (c * sumn N (fun k => X k * w (- (Z.of_nat k * Z.of_nat j))%Z))); [|ring].
    f_equal. rewrite <- (sumn_scale_l Rth). apply (sumn_ext Rth). intros; ring.
  Qed.

  Section TwoSizes.
    Variables (n m : nat) (wn wm : Z -> R) (ninv minv : R).
    Hypothesis Rn : rootok n wn ninv.
    Hypothesis Rm : rootok m wm minv.

    Let Hn : (0 < n)%nat := ro_pos _ _ _ _ _ _ _ _ _ Rn.
    Let Hm : (0 < m)%nat := ro_pos _ _ _ _ _ _ _ _ _ Rm.

    Notation up := (resample n m wn wm ninv minv).
    Notation down := (resample m n wm wn minv ninv).

    Lemma respectrum_dc (X : nat -> R) : respectrum n m X 0%nat = X 0%nat.
    Proof.
      rewrite respectrum_index by assumption. rewrite sfreq_0 by exact Hm.
      replace (in_band n 0%Z) with true by (unfold in_band; lia).
      reflexivity.
    Qed.

    (* total of the resampled signal *)
    Lemma resample_sum x : sumn m (up x) = (of_nat m * ninv) * sumn n x.
    Proof.
      unfold C06_Model.resample. rewrite (sumn_scale_l Rth). f_equal.
      rewrite <- (dft_dc Rth Cok Rm). rewrite (dft_idft Rth Cok Rm) by exact Hm.
      rewrite respectrum_dc. apply (dft_dc Rth Cok Rn).
    Qed.

    (* the array mean is preserved *)
    Theorem resample_mean x : minv * sumn m (up x) = ninv * sumn n x.
    Proof.
      rewrite resample_sum.
      transitivity ((minv * of_nat m) * (ninv * sumn n x)); [ring|].
      rewrite (ro_inv _ _ _ _ _ _ _ _ _ Rm). ring.
    Qed.

    Theorem resample_linear a b x y j :
      up (fun i => a * x i + b * y i) j = a * up x j + b * up y j.
    Proof.
      unfold C06_Model.resample.
      rewrite (idft_ext Rth Cok Rm _
                 (fun k => a * respectrum n m (dft n wn x) k + b * respectrum n m (dft n wn y) k)).
      - rewrite (idft_linear Rth Cok Rm). ring.
      - intros k Hk. rewrite !respectrum_index by assumption.
        destruct (in_band n (sfreq m k)); [apply (dft_linear Rth Cok Rn) | ring].
    Qed.

    (* spectrum of the resampled signal *)
    Lemma dft_resample x k : (k < m)%nat ->
      dft m wm (up x) k = (of_nat m * ninv) * respectrum n m (dft n wn x) k.
    Proof.
      intros Hk. unfold C06_Model.resample. rewrite dft_scale. f_equal.
      apply (dft_idft Rth Cok Rm). exact Hk.
    Qed.

    (* up-sampling then down-sampling back is the identity of the complex pipeline, whatever
       the Nyquist content (the crop takes back exactly the bins the zero pad had placed) *)
    Theorem resample_updown_complex x j : (n <= m)%nat -> (j < n)%nat -> down (up x) j = x j.
    Proof.
      intros Hnm Hj. unfold C06_Model.resample at 1.
      rewrite (idft_ext Rth Cok Rn _ (fun k => (of_nat m * ninv) * dft n wn x k)).
      - rewrite idft_scale. rewrite (idft_dft Rth Cok Rn) by exact Hj.
        transitivity ((ninv * of_nat n) * ((minv * of_nat m) * x j)); [ring|].
        rewrite (ro_inv _ _ _ _ _ _ _ _ _ Rn), (ro_inv _ _ _ _ _ _ _ _ _ Rm). ring.
      - intros k Hk. rewrite respectrum_index by assumption.
        pose proof (sfreq_band n k Hn) as Hb.
        rewrite (in_band_mono n m _ Hnm Hb).
        rewrite dft_resample by (apply zidx_lt'; exact Hm).
        f_equal. rewrite respectrum_index by (try assumption; apply zidx_lt'; exact Hm).
        rewrite sfreq_zidx by (try exact Hm; apply (in_band_mono n m _ Hnm Hb)).
        rewrite Hb. rewrite zidx_sfreq by exact Hk. reflexivity.
    Qed.
  End TwoSizes.

  (* same shape: the identity *)
  Theorem resample_id n w ninv (Rn : rootok n w ninv) x j :
    (j < n)%nat -> resample n n w w ninv ninv x j = x j.
  Proof.
    intros Hj.
    pose proof (ro_pos _ _ _ _ _ _ _ _ _ Rn) as Hn.
    unfold C06_Model.resample.
    rewrite (idft_ext Rth Cok Rn _ (dft n w x)).
    - rewrite (idft_dft Rth Cok Rn) by exact Hj.
      transitivity ((ninv * of_nat n) * x j); [ring|]. rewrite (ro_inv _ _ _ _ _ _ _ _ _ Rn). ring.
    - intros k Hk. rewrite respectrum_index by assumption.
      rewrite sfreq_band by exact Hn. rewrite zidx_sfreq by exact Hk. reflexivity.
  Qed.

  (* ---------------------------------------------------------------------------------- *)
  (* real input: np.isrealobj(array) -> the `.real` of the inverse transform is returned *)
  Section RealPart.
    Variable rhalf : R.
    Hypothesis Hhalf : rhalf * (1 + 1) = 1.
    Notation re := (C06_Model.re radd rmul conj rhalf).
    Notation resample_re := (C06_Model.resample_re rO rI radd rmul conj rhalf).

    Definition real_sig (N : nat) (x : nat -> R) : Prop := forall i, (i < N)%nat -> conj (x i) = x i.

    Lemma re_fix z : conj z = z -> re z = z.
    Proof.
      intros H. unfold C06_Model.re. rewrite H.
      transitivity ((rhalf * (1 + 1)) * z); [ring|]. rewrite Hhalf. ring.
    Qed.

    Lemma re_linear a b z1 z2 : conj a = a -> conj b = b -> re (a * z1 + b * z2) = a * re z1 + b * re z2.
    Proof.
      intros Ha Hb. unfold C06_Model.re. rewrite (conj_add _ _ _ _ Cok), !(conj_mul _ _ _ _ Cok), Ha, Hb. ring.
    Qed.

    Lemma re_sumn N (z : nat -> R) : sumn N (fun j => re (z j)) = re (sumn N z).
    Proof.
      unfold C06_Model.re. rewrite (sumn_scale_l Rth), (sumn_add Rth), (conj_sumn Rth Cok). reflexivity.
    Qed.

    Lemma conj_inv N w Ninv (Rk : rootok N w Ninv) : conj Ninv = Ninv.
    Proof.
      assert (E : conj Ninv * of_nat N = 1).
      { rewrite <- (conj_of_nat Rth Cok N), <- (conj_mul _ _ _ _ Cok), (ro_inv _ _ _ _ _ _ _ _ _ Rk).
        apply (conj_1 Rth Cok). }
      transitivity (conj Ninv * (Ninv * of_nat N)).
      - rewrite (ro_inv _ _ _ _ _ _ _ _ _ Rk). ring.
      - transitivity ((conj Ninv * of_nat N) * Ninv); [ring|]. rewrite E. ring.
    Qed.

    Lemma sumn_rev N (f : nat -> R) : sumn N (fun i => f (N - 1 - i)%nat) = sumn N f.
    Proof.
      revert f. induction N as [|N IH]; intros f; [reflexivity|].
      cbn [FinSum.sumn].
      rewrite (sumn_ext Rth N _ (fun i => f (S (N - 1 - i)))) by (intros i Hi; f_equal; lia).
      rewrite (IH (fun i => f (S i))).
      replace (S N - 1 - N)%nat with 0%nat by lia.
      apply (sumn_succ_head Rth).
    Qed.

    Section OneSize.
      Variables (N : nat) (w : Z -> R) (Ninv : R).
      Hypothesis Rk : rootok N w Ninv.
      Let HN : (0 < N)%nat := ro_pos _ _ _ _ _ _ _ _ _ Rk.

      (* reindexing a full-period sum by k -> (-k) mod N *)
      Lemma sumn_reflect (g : nat -> R) : sumn N (fun k => g (zidx N (- Z.of_nat k))) = sumn N g.
      Proof.
        rewrite <- (sumn_zshift Rth Cok Rk g (-1)%Z).
        rewrite <- (sumn_rev N (fun i => g (zidx N (Z.of_nat i - -1)))).
        apply (sumn_ext Rth). intros k Hk. f_equal. apply zidx_congr; [exact HN|].
        replace (Z.of_nat (N - 1 - k) - -1)%Z with (- Z.of_nat k + 1 * Z.of_nat N)%Z by lia.
        rewrite Z.mod_add by lia. reflexivity.
      Qed.

      (* the spectrum of a real signal is Hermitian *)
      Lemma dft_hermitian x k : real_sig N x ->
        conj (dft N w x k) = dft N w x (zidx N (- Z.of_nat k)).
      Proof.
        intros Hx. unfold DFT.dft. rewrite (conj_sumn Rth Cok).
        apply (sumn_ext Rth). intros i Hi.
        rewrite (conj_mul _ _ _ _ Cok), (Hx i Hi), (ro_conj _ _ _ _ _ _ _ _ _ Rk). f_equal.
        apply (w_periodic Rth Cok Rk).
        rewrite zidx_Z by exact HN. rewrite Zmult_mod_idemp_l. f_equal. ring.
      Qed.

      (* the inverse transform of a Hermitian spectrum is real *)
      Lemma idft_real Y j :
        (forall k, (k < N)%nat -> conj (Y k) = Y (zidx N (- Z.of_nat k))) ->
        conj (idft N w Ninv Y j) = idft N w Ninv Y j.
      Proof.
        intros HY. unfold DFT.idft. rewrite (conj_mul _ _ _ _ Cok), (conj_inv N w Ninv Rk), (conj_sumn Rth Cok).
        f_equal.
        rewrite <- (sumn_reflect (fun k => Y k * w (- (Z.of_nat k * Z.of_nat j))%Z)).
        apply (sumn_ext Rth). intros k Hk.
        rewrite (conj_mul _ _ _ _ Cok), (HY k Hk), (ro_conj _ _ _ _ _ _ _ _ _ Rk). f_equal.
        apply (w_periodic Rth Cok Rk).
        rewrite zidx_Z by exact HN.
        replace (- ((- Z.of_nat k) mod Z.of_nat N * Z.of_nat j))%Z
          with ((- Z.of_nat k) mod Z.of_nat N * (- Z.of_nat j))%Z by ring.
        rewrite Zmult_mod_idemp_l. f_equal. ring.
      Qed.
    End OneSize.

    Lemma resample_ext n m wn wm ninv minv (Rn : rootok n wn ninv) (Rm : rootok m wm minv) x y j :
      (forall i, (i < n)%nat -> x i = y i) ->
      resample n m wn wm ninv minv x j = resample n m wn wm ninv minv y j.
    Proof.
      intros H. pose proof (ro_pos _ _ _ _ _ _ _ _ _ Rn) as Hn. pose proof (ro_pos _ _ _ _ _ _ _ _ _ Rm) as Hm.
      unfold C06_Model.resample. f_equal. apply (idft_ext Rth Cok Rm). intros k Hk.
      rewrite !respectrum_index by assumption.
      destruct (in_band n (sfreq m k)); [|reflexivity]. apply (dft_ext Rth Cok Rn). exact H.
    Qed.

    Section TwoSizesRe.
      Variables (n m : nat) (wn wm : Z -> R) (ninv minv : R).
      Hypothesis Rn : rootok n wn ninv.
      Hypothesis Rm : rootok m wm minv.
      Let Hn : (0 < n)%nat := ro_pos _ _ _ _ _ _ _ _ _ Rn.
      Let Hm : (0 < m)%nat := ro_pos _ _ _ _ _ _ _ _ _ Rm.

      (* "no Nyquist-frequency content": n odd (there is no Nyquist bin), or the bin is zero *)
      Definition no_nyquist (X : nat -> R) : Prop := Nat.odd n = true \/ X (n / 2)%nat = 0.

      (* zero padding keeps a Hermitian spectrum Hermitian when the unpaired bin -n/2 is empty *)
      Lemma respectrum_hermitian (X : nat -> R) k :
        (n <= m)%nat -> (k < m)%nat ->
        (forall i, (i < n)%nat -> conj (X i) = X (zidx n (- Z.of_nat i))) ->
        no_nyquist X ->
        conj (respectrum n m X k) = respectrum n m X (zidx m (- Z.of_nat k)).
      Proof.
        intros Hnm Hk HX Hny.
        rewrite !respectrum_index by (try assumption; apply zidx_lt'; exact Hm).
        rewrite sfreq_neg by exact Hk.
        pose proof (sfreq_range m k Hm) as Hr.
        set (q := sfreq m k) in *.
        assert (Hmid : forall c : Z, c = Z.of_nat (n / 2) -> (2 * c = Z.of_nat n)%Z ->
                       X (zidx n c) = 0 /\ X (zidx n (- c)) = 0).
        { intros c Hc He. destruct Hny as [Ho|Hz].
          - apply Nat.odd_spec in Ho. destruct Ho as [d Hd]. lia.
          - assert (E1 : zidx n c = (n / 2)%nat) by (unfold zidx; rewrite Z.mod_small by lia; lia).
            assert (E2 : zidx n (- c) = (n / 2)%nat).
            { unfold zidx. replace (- c)%Z with (c + (-1) * Z.of_nat n)%Z by lia.
              rewrite Z.mod_add by lia. rewrite Z.mod_small by lia. lia. }
            rewrite E1, E2. split; exact Hz. }
        destruct (in_band n q) eqn:B1.
        - destruct (in_band n (- q)%Z) eqn:B2.
          + rewrite (in_band_mono n m _ Hnm B2), B2.
            rewrite (HX _ (zidx_lt' n q Hn)). rewrite zidx_neg_zidx by exact Hn. reflexivity.
          + (* q = -(n/2), n even: the unpaired bin *)
            unfold in_band in B1, B2.
            assert (Hq : (q = - Z.of_nat (n / 2) /\ 2 * Z.of_nat (n / 2) = Z.of_nat n)%Z) by lia.
            destruct Hq as [Hq He].
            destruct (Hmid (Z.of_nat (n / 2)) eq_refl He) as [Hz1 Hz2].
            rewrite Hq, Hz2, (conj_0 Rth Cok).
            destruct (in_band m (- - Z.of_nat (n / 2))%Z) eqn:B3.
            * rewrite Z.opp_involutive.
              replace (in_band n (Z.of_nat (n / 2))) with false by (unfold in_band; lia). reflexivity.
            * replace (in_band n (- Z.of_nat (n / 2))%Z) with true by (unfold in_band; lia).
              symmetry. exact Hz2.
        - rewrite (conj_0 Rth Cok).
          destruct (in_band m (- q)%Z) eqn:B3; [|rewrite B1; reflexivity].
          destruct (in_band n (- q)%Z) eqn:B2; [|reflexivity].
          unfold in_band in B1, B2.
          assert (Hq : (q = Z.of_nat (n / 2) /\ 2 * Z.of_nat (n / 2) = Z.of_nat n)%Z) by lia.
          destruct Hq as [Hq He].
          destruct (Hmid (Z.of_nat (n / 2)) eq_refl He) as [Hz1 Hz2].
          rewrite Hq. symmetry. exact Hz2.
      Qed.

      Notation up := (resample n m wn wm ninv minv).
      Notation down := (resample m n wm wn minv ninv).

      Lemma conj_scale : conj (of_nat m * ninv) = of_nat m * ninv.
      Proof. rewrite (conj_mul _ _ _ _ Cok), (conj_of_nat Rth Cok), (conj_inv n wn ninv Rn). reflexivity. Qed.

      (* the up-sampled real signal is real (so `.real` discards nothing) *)
      Lemma up_real x j : (n <= m)%nat -> real_sig n x -> no_nyquist (dft n wn x) ->
        conj (up x j) = up x j.
      Proof.
        intros Hnm Hx Hny. unfold C06_Model.resample. rewrite (conj_mul _ _ _ _ Cok), conj_scale. f_equal.
        apply (idft_real m wm minv Rm). intros k Hk.
        apply respectrum_hermitian; try assumption.
        intros i Hi. apply (dft_hermitian n wn ninv Rn). exact Hx.
      Qed.

      Theorem resample_re_mean x : real_sig n x ->
        minv * sumn m (resample_re n m wn wm ninv minv x) = ninv * sumn n x.
      Proof.
        intros Hx. unfold C06_Model.resample_re. rewrite re_sumn.
        rewrite re_fix.
        - apply (resample_mean n m wn wm ninv minv Rn Rm).
        - rewrite (resample_sum n m wn wm ninv minv Rn Rm).
          rewrite (conj_mul _ _ _ _ Cok), conj_scale, (conj_sumn Rth Cok). f_equal.
          apply (sumn_ext Rth). exact Hx.
      Qed.

      Theorem resample_re_linear a b x y j : conj a = a -> conj b = b ->
        resample_re n m wn wm ninv minv (fun i => a * x i + b * y i) j
        = a * resample_re n m wn wm ninv minv x j + b * resample_re n m wn wm ninv minv y j.
      Proof.
        intros Ha Hb. unfold C06_Model.resample_re.
        rewrite (resample_linear n m wn wm ninv minv Rn Rm). apply re_linear; assumption.
      Qed.

      (* real signal without Nyquist content: up-sampling then down-sampling returns it *)
      Theorem resample_re_updown x j :
        (n <= m)%nat -> (j < n)%nat -> real_sig n x -> no_nyquist (dft n wn x) ->
        resample_re m n wm wn minv ninv (resample_re n m wn wm ninv minv x) j = x j.
      Proof.
        intros Hnm Hj Hx Hny. unfold C06_Model.resample_re.
        rewrite (resample_ext m n wm wn minv ninv Rm Rn _ (up x))
          by (intros i _; apply re_fix; apply up_real; assumption).
        rewrite (resample_updown_complex n m wn wm ninv minv Rn Rm x j Hnm Hj).
        apply re_fix. apply Hx. exact Hj.
      Qed.
    End TwoSizesRe.

    Theorem resample_re_id n w ninv (Rn : rootok n w ninv) x j :
      (j < n)%nat -> real_sig n x -> resample_re n n w w ninv ninv x j = x j.
    Proof.
      intros Hj Hx. unfold C06_Model.resample_re. rewrite (resample_id n w ninv Rn x j Hj).
      apply re_fix. apply Hx. exact Hj.
    Qed.
  End RealPart.
End ResampleProofs.
