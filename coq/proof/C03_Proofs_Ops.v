(* C03 — the two ways an operation installs its result (in place / on a copy), and the
   resulting observables; pad, bin and fourier_resample are instances. *)
From Coq Require Import QArith String.
From QV.lib Require Import Prelude C03_Slice.
From QV.model Require Import C03_Model.
From QV.proof Require Import C03_Proofs_Base.
From Coq Require Import List.
Import ListNotations.
Local Close Scope Q_scope.
Local Open Scope list_scope.

(* ------------------------------------------------------------------ dataset table *)
Lemma set_nth_last (A : Type) (l : list A) x v : set_nth (length l) v (l ++ [x]) = l ++ [v].
Proof.
  unfold set_nth. rewrite app_length. cbn [length].
  assert (E : (length l <? length l + 1) = true) by (apply Nat.ltb_lt; lia). rewrite E.
  rewrite firstn_app, Nat.sub_diag, firstn_all. cbn [firstn]. rewrite app_nil_r.
  rewrite skipn_app. rewrite skipn_all2 by lia.
  replace (S (length l) - length l) with 1 by lia. reflexivity.
Qed.

Lemma set_nth_twice (A : Type) i (v w : A) l : set_nth i v (set_nth i w l) = set_nth i v l.
Proof.
  unfold set_nth at 1. rewrite set_nth_length.
  unfold set_nth. destruct (i <? length l) eqn:E; [|reflexivity].
  apply Nat.ltb_lt in E.
  rewrite firstn_app, firstn_firstn, firstn_length.
  replace (Nat.min i i) with i by lia.
  replace (i - Nat.min i (length l)) with 0 by lia. cbn [firstn]. rewrite app_nil_r.
  f_equal. f_equal.
  rewrite skipn_app, firstn_length.
  rewrite (skipn_all2 (firstn i l)) by (rewrite firstn_length; lia).
  replace (S i - Nat.min i (length l)) with 1 by lia. reflexivity.
Qed.

Lemma get_ds_dss s s' t d :
  dss s' = set_nth t d (dss s) -> t < length (dss s) -> get_ds s' t = d.
Proof. intros H Ht. unfold get_ds. rewrite H. apply nth_set_nth_eq. exact Ht. Qed.

Lemma get_ds_dss_other s s' t u d :
  dss s' = set_nth t d (dss s) -> t <> u -> get_ds s' u = get_ds s u.
Proof. intros H Ht. unfold get_ds. rewrite H. apply nth_set_nth_neq. exact Ht. Qed.

Lemma get_ds_app_new s s' d : dss s' = dss s ++ [d] -> get_ds s' (length (dss s)) = d.
Proof. intros H. unfold get_ds. rewrite H. apply nth_app_new. Qed.

Lemma get_ds_app_old s s' d t : dss s' = dss s ++ [d] -> t < length (dss s) -> get_ds s' t = get_ds s t.
Proof. intros H Ht. unfold get_ds. rewrite H. apply app_nth1. exact Ht. Qed.

Lemma dss_len_replace s s' t d : dss s' = set_nth t d (dss s) -> length (dss s') = length (dss s).
Proof. intros ->. apply set_nth_length. Qed.

(* ------------------------------------------------------------------ calibration setters *)
Lemma set_sampling_spec s t l s' :
  set_sampling s t (NList l) = Ok s' -> Inv s -> t < length (dss s) ->
  ext s s' /\ exists d, dss s' = set_nth t d (dss s) /\ good_ds s' d /\
    d_arr d = d_arr (get_ds s t) /\ d_origin d = d_origin (get_ds s t) /\
    d_units d = d_units (get_ds s t) /\ d_cls d = d_cls (get_ds s t) /\
    get_num s' (d_sampling d) = l.
Proof.
  unfold set_sampling. intros H HI Ht.
  inv_bind H. unfold alloc_num in H. cbn [fst snd] in H. injection H as <-.
  pose proof (Inv_get _ _ HI Ht) as Hg.
  cbn in Hx. destruct (length l =? _) eqn:E in Hx; [|discriminate]. injection Hx as <-.
  apply Nat.eqb_eq in E.
  assert (He : ext s (mkState (arrs s) (nums s ++ [l]) (strs s) (dss s))) by apply (ext_alloc_num s l).
  split; [eapply ext_trans; [exact He|apply ext_dss_only; reflexivity]|].
  eexists. split; [reflexivity|].
  destruct (set_num_good s (get_ds s t) l (length (nums s)) Hg E eq_refl) as [_ G].
  split; [eapply good_ext; [|exact G]; apply ext_dss_only; reflexivity|].
  cbn [d_arr d_origin d_units d_cls d_sampling]. repeat split.
  unfold get_num. cbn [nums put_ds]. apply nth_app_new.
Qed.

Lemma set_origin_spec s t l s' :
  set_origin s t (NList l) = Ok s' -> Inv s -> t < length (dss s) ->
  ext s s' /\ exists d, dss s' = set_nth t d (dss s) /\ good_ds s' d /\
    d_arr d = d_arr (get_ds s t) /\ d_sampling d = d_sampling (get_ds s t) /\
    d_units d = d_units (get_ds s t) /\ d_cls d = d_cls (get_ds s t) /\
    get_num s' (d_origin d) = l.
Proof.
  unfold set_origin. intros H HI Ht.
  inv_bind H. unfold alloc_num in H. cbn [fst snd] in H. injection H as <-.
  pose proof (Inv_get _ _ HI Ht) as Hg.
  cbn in Hx. destruct (length l =? _) eqn:E in Hx; [|discriminate]. injection Hx as <-.
  apply Nat.eqb_eq in E.
  assert (He : ext s (mkState (arrs s) (nums s ++ [l]) (strs s) (dss s))) by apply (ext_alloc_num s l).
  split; [eapply ext_trans; [exact He|apply ext_dss_only; reflexivity]|].
  eexists. split; [reflexivity|].
  destruct (set_num_good s (get_ds s t) l (length (nums s)) Hg E eq_refl) as [G _].
  split; [eapply good_ext; [|exact G]; apply ext_dss_only; reflexivity|].
  cbn [d_arr d_origin d_units d_cls d_sampling]. repeat split.
  unfold get_num. cbn [nums put_ds]. apply nth_app_new.
Qed.

(* setters with arbitrary (scalar / list) arguments: shape of the change only *)
Lemma set_num_shape s t v s' (which : bool) :
  (if which then set_origin s t v else set_sampling s t v) = Ok s' -> Inv s -> t < length (dss s) ->
  ext s s' /\ exists d, dss s' = set_nth t d (dss s) /\ good_ds s' d.
Proof.
  intros H HI Ht. pose proof (Inv_get _ _ HI Ht) as Hg.
  destruct which; [unfold set_origin in H | unfold set_sampling in H];
    inv_bind H; unfold alloc_num in H; cbn [fst snd] in H; injection H as <-;
    apply validate_ndinfo_len in Hx;
    (split; [eapply ext_trans; [apply (ext_alloc_num s x)|apply ext_dss_only; reflexivity]|]);
    (eexists; split; [reflexivity|]);
    destruct (set_num_good s (get_ds s t) x (length (nums s)) Hg Hx eq_refl) as [G1 G2];
    (eapply good_ext; [|first [exact G1|exact G2]]; apply ext_dss_only; reflexivity).
Qed.

Lemma set_units_shape s t v s' :
  set_units s t v = Ok s' -> Inv s -> t < length (dss s) ->
  ext s s' /\ exists d, dss s' = set_nth t d (dss s) /\ good_ds s' d.
Proof.
  unfold set_units. intros H HI Ht. pose proof (Inv_get _ _ HI Ht) as Hg.
  inv_bind H. unfold alloc_str in H. cbn [fst snd] in H. injection H as <-.
  apply validate_units_len in Hx.
  split; [eapply ext_trans; [apply (ext_alloc_str s x)|apply ext_dss_only; reflexivity]|].
  eexists. split; [reflexivity|].
  pose proof (good_ext _ _ _ (ext_alloc_str s x) Hg) as [(Ha & Ho & Hs & Hu) (C1 & C2 & C3 & C4)].
  unfold good_ds, wf_ds, coh_ds in *.
  cbn [fst alloc_str put_ds arrs nums strs dss d_arr d_origin d_sampling d_units d_cls] in *.
  unfold get_arr, get_num, get_str in *. cbn [arrs nums strs put_ds] in *.
  rewrite nth_app_new. rewrite app_length in *. cbn [length] in *.
  repeat split; try lia; try assumption.
Qed.

(* ------------------------------------------------------------------ observables *)
(* what a dataset shows after its array became (osh, ofl) and, optionally, its origin and
   sampling became (no, ns) *)
Definition obs_after (s : state) (t : nat) (osh : list nat) (ofl : list Z)
  (meta : option (list Q * list Q)) : obs :=
  let d := get_ds s t in
  mkObs (d_cls d) osh ofl
        (match meta with Some (no, _) => no | None => get_num s (d_origin d) end)
        (match meta with Some (_, ns) => ns | None => get_num s (d_sampling d) end)
        (get_str s (d_units d)).

Definition meta_ok (n : nat) (meta : option (list Q * list Q)) : Prop :=
  match meta with Some (no, ns) => length no = n /\ length ns = n | None => True end.

(* ---- in place:  self._array = new  [; self._sampling = ns; self._origin = no] *)
Definition install_ip (s : state) (t : nat) (osh : list nat) (ofl : list Z)
  (meta : option (list Q * list Q)) : state :=
  let (s1, aid) := alloc_fresh s osh ofl in
  match meta with
  | None => assign_array s1 t aid
  | Some (no, ns) => assign_origin (assign_sampling (assign_array s1 t aid) t ns) t no
  end.

Lemma install_ip_spec s t osh ofl meta :
  Inv s -> t < length (dss s) ->
  length osh = ndim (get_arr s (d_arr (get_ds s t))) -> meta_ok (length osh) meta ->
  let s' := install_ip s t osh ofl meta in
  ext s s' /\ (exists d, dss s' = set_nth t d (dss s) /\ good_ds s' d) /\
  observe s' t = obs_after s t osh ofl meta.
Proof.
  intros HI Ht Hn Hm.
  pose proof (Inv_get _ _ HI Ht) as [(Wa & Wo & Ws & Wu) (C1 & C2 & C3 & C4)].
  set (d0 := get_ds s t) in *.
  unfold install_ip, alloc_fresh, alloc_arr. cbn [fst snd].
  set (a' := mkArr (length (arrs s)) osh ofl).
  set (s1 := mkState (arrs s ++ [a']) (nums s) (strs s) (dss s)).
  assert (Hd1 : get_ds s1 t = d0) by reflexivity.
  assert (Hga : forall s2, arrs s2 = arrs s1 -> get_arr s2 (length (arrs s)) = a').
  { intros s2 E. unfold get_arr. rewrite E. unfold s1. cbn [arrs]. apply nth_app_new. }
  destruct meta as [[no ns]|]; cbn [meta_ok] in Hm.
  - destruct Hm as [Hno Hns].
    unfold assign_origin, assign_sampling, assign_array, alloc_num. cbn [fst snd].
    rewrite Hd1.
    (* unfold the three record updates *)
    set (sA := put_ds s1 t (mkDs (length (arrs s)) (d_origin d0) (d_sampling d0) (d_units d0) (d_cls d0))).
    assert (HdA : get_ds sA t = mkDs (length (arrs s)) (d_origin d0) (d_sampling d0) (d_units d0) (d_cls d0)).
    { apply (get_ds_dss s1 sA t _ eq_refl). exact Ht. }
    rewrite HdA. cbn [d_arr d_origin d_sampling d_units d_cls].
    set (sB0 := mkState (arrs sA) (nums sA ++ [ns]) (strs sA) (dss sA)).
    set (sB := put_ds sB0 t (mkDs (length (arrs s)) (d_origin d0) (length (nums sA)) (d_units d0) (d_cls d0))).
    assert (HdB : get_ds sB t = mkDs (length (arrs s)) (d_origin d0) (length (nums sA)) (d_units d0) (d_cls d0)).
    { apply (get_ds_dss sB0 sB t _ eq_refl). unfold sB0, sA. cbn [dss put_ds]. rewrite set_nth_length. exact Ht. }
    rewrite HdB. cbn [d_arr d_origin d_sampling d_units d_cls].
    set (sC0 := mkState (arrs sB) (nums sB ++ [no]) (strs sB) (dss sB)).
    set (dC := mkDs (length (arrs s)) (length (nums sB)) (length (nums sA)) (d_units d0) (d_cls d0)).
    set (sC := put_ds sC0 t dC).
    assert (HnA : nums sA = nums s) by reflexivity.
    assert (HnB : nums sB = nums s ++ [ns]) by reflexivity.
    assert (HnC : nums sC = (nums s ++ [ns]) ++ [no]) by reflexivity.
    assert (HaC : arrs sC = arrs s ++ [a']) by reflexivity.
    assert (HsC : strs sC = strs s) by reflexivity.
    assert (HdC : dss sC = set_nth t dC (dss s)).
    { unfold sC, sC0, sB, sB0, sA. cbn [dss put_ds]. rewrite !set_nth_twice. reflexivity. }
    assert (He : ext s sC).
    { repeat split; [exists [a']; exact HaC | exists [ns; no]; rewrite HnC, <- app_assoc; reflexivity
                    | exists []; rewrite HsC, app_nil_r; reflexivity]. }
    assert (Hg1 : get_num sC (length (nums sA)) = ns).
    { unfold get_num. rewrite HnC, HnA. rewrite app_nth1 by (rewrite app_length; cbn; lia). apply nth_app_new. }
    assert (Hg2 : get_num sC (length (nums sB)) = no).
    { unfold get_num. rewrite HnC, HnB. apply nth_app_new. }
    assert (Hg3 : get_arr sC (length (arrs s)) = a') by (apply Hga; exact HaC).
    assert (Hg4 : get_str sC (d_units d0) = get_str s (d_units d0)) by (unfold get_str; rewrite HsC; reflexivity).
    split; [exact He|]. split.
    + exists dC. split; [exact HdC|].
      unfold good_ds, wf_ds, coh_ds, dC. cbn [d_arr d_origin d_sampling d_units d_cls].
      rewrite Hg1, Hg2, Hg3, Hg4. unfold a', ndim. cbn [a_shape].
      rewrite HaC, HnC, HsC, HnA, HnB. rewrite !app_length. cbn [length].
      unfold ndim in C3, C4, Hn. rewrite Hn.
      repeat split; try lia; try assumption; try congruence.
    + unfold observe, obs_after. rewrite (get_ds_dss s sC t dC HdC Ht). fold d0.
      unfold dC. cbn [d_arr d_origin d_sampling d_units d_cls].
      rewrite Hg1, Hg2, Hg3, Hg4. reflexivity.
  - unfold assign_array. rewrite Hd1.
    set (dA := mkDs (length (arrs s)) (d_origin d0) (d_sampling d0) (d_units d0) (d_cls d0)).
    set (sA := put_ds s1 t dA).
    assert (He : ext s sA).
    { eapply ext_trans; [apply (ext_alloc_arr s a')|apply ext_dss_only; reflexivity]. }
    assert (HdA : dss sA = set_nth t dA (dss s)) by reflexivity.
    assert (Hg3 : get_arr sA (length (arrs s)) = a') by (apply Hga; reflexivity).
    split; [exact He|]. split.
    + exists dA. split; [exact HdA|].
      unfold good_ds, wf_ds, coh_ds, dA. cbn [d_arr d_origin d_sampling d_units d_cls].
      rewrite Hg3. unfold a', ndim. cbn [a_shape].
      assert (HaA : arrs sA = arrs s ++ [a']) by reflexivity.
      assert (HnA : nums sA = nums s) by reflexivity. assert (HsA : strs sA = strs s) by reflexivity.
      unfold get_num, get_str. rewrite HaA, HnA, HsA, app_length. cbn [length].
      unfold get_num, get_str, ndim in C1, C2, C3, C4, Hn. rewrite Hn.
      repeat split; try lia; try assumption.
    + unfold observe, obs_after. rewrite (get_ds_dss s sA t dA HdA Ht). fold d0.
      unfold dA. cbn [d_arr d_origin d_sampling d_units d_cls]. rewrite Hg3. reflexivity.
Qed.

(* ---- on a copy:  new = self.copy(); new.array = ..  [; new.sampling = ns; new.origin = no] *)
Definition install_cp (s : state) (t : nat) (osh : list nat) (ofl : list Z)
  (meta : option (list Q * list Q)) : res state :=
  do s1 <- copy_ds s t;
  let t' := length (dss s) in
  let (s2, aid) := alloc_fresh s1 osh ofl in
  match meta with
  | None => set_array s2 t' aid
  | Some (no, ns) =>
    do s3 <- set_array s2 t' aid;
    do s4 <- set_sampling s3 t' (NList ns);
    set_origin s4 t' (NList no)
  end.

(* copy() of a coherent dataset succeeds *)
Lemma copy_ok s t : Inv s -> t < length (dss s) -> exists s', copy_ds s t = Ok s'.
Proof.
  intros HI Ht.
  pose proof (Inv_get _ _ HI Ht) as [(Wa & Wo & Ws & Wu) (C1 & C2 & C3 & C4)].
  unfold copy_ds, alloc_fresh, alloc_arr. cbn [fst snd].
  set (d0 := get_ds s t) in *. set (a := get_arr s (d_arr d0)) in *.
  set (s0 := mkState _ _ _ _).
  assert (Hnew : get_arr s0 (length (arrs s)) = mkArr (length (arrs s)) (a_shape a) (a_flat a))
    by (unfold get_arr, s0; cbn [arrs]; apply nth_app_new).
  unfold from_array.
  assert (Hen : match tag_ndim (d_cls d0) with
                | Some k => ensure_ndim s0 (length (arrs s)) k
                | None => Ok (s0, length (arrs s))
                end = Ok (s0, length (arrs s))).
  { unfold cls_ok in C4. destruct (tag_ndim (d_cls d0)) as [k|]; [|reflexivity].
    unfold ensure_ndim. rewrite Hnew. unfold ndim in *. cbn [a_shape]. rewrite C4.
    rewrite Nat.ltb_irrefl. reflexivity. }
  rewrite Hen. cbn [bind]. unfold construct. rewrite Hnew. unfold ndim in *. cbn [a_shape].
  rewrite validate_ndinfo_list by exact C1. rewrite validate_ndinfo_list by exact C2.
  rewrite validate_units_list by exact C3. cbn [bind].
  unfold alloc_num, alloc_str. cbn [fst snd]. eexists. reflexivity.
Qed.

Lemma alloc_fresh_spec s osh ofl :
  let s' := fst (alloc_fresh s osh ofl) in
  ext s s' /\ dss s' = dss s /\ snd (alloc_fresh s osh ofl) = length (arrs s) /\
  length (arrs s) < length (arrs s') /\
  get_arr s' (length (arrs s)) = mkArr (length (arrs s)) osh ofl.
Proof.
  unfold alloc_fresh, alloc_arr. cbn [fst snd].
  split; [apply (ext_alloc_arr s (mkArr (length (arrs s)) osh ofl))|].
  split; [reflexivity|]. split; [reflexivity|]. cbn [arrs]. rewrite app_length. cbn [length].
  split; [lia|]. unfold get_arr. cbn [arrs]. apply nth_app_new.
Qed.

Lemma Inv_ext_same_dss s s' : Inv s -> ext s s' -> dss s' = dss s -> Inv s'.
Proof.
  intros HI He Hd. unfold Inv. rewrite Hd. eapply Forall_impl; [|exact HI].
  intros x Hx. eapply good_ext; eassumption.
Qed.

(* set_array with an array of the dataset's own dimensionality succeeds *)
Lemma set_array_ok s t aid :
  ndim (get_arr s aid) = ndim (get_arr s (d_arr (get_ds s t))) ->
  set_array s t aid =
  Ok (put_ds s t (mkDs aid (d_origin (get_ds s t)) (d_sampling (get_ds s t)) (d_units (get_ds s t))
                       (d_cls (get_ds s t)))).
Proof.
  intros H. unfold set_array, ensure_ndim. rewrite H, Nat.ltb_irrefl. reflexivity.
Qed.

Lemma install_cp_spec s t osh ofl meta :
  Inv s -> t < length (dss s) ->
  length osh = ndim (get_arr s (d_arr (get_ds s t))) -> meta_ok (length osh) meta ->
  exists s', install_cp s t osh ofl meta = Ok s' /\
    ext s s' /\ (exists d, dss s' = dss s ++ [d] /\ good_ds s' d) /\
    observe s' (length (dss s)) = obs_after s t osh ofl meta.
Proof.
  intros HI Ht Hn Hm.
  destruct (copy_ok s t HI Ht) as [s1 Hc].
  destruct (copy_spec _ _ _ Hc HI Ht)
    as (E1 & d1 & D1 & G1 & K1 & K2 & K3 & K4 & K5 & K6 & _).
  assert (HI1 : Inv s1) by (apply (Inv_append s s1 d1 HI E1 D1 G1)).
  unfold install_cp. rewrite Hc. cbn [bind].
  set (t' := length (dss s)).
  destruct (alloc_fresh_spec s1 osh ofl) as (E2 & D2 & A2 & L2 & N2).
  destruct (alloc_fresh s1 osh ofl) as [s2 aid] eqn:EA. cbn [fst snd] in *. subst aid.
  assert (HI2 : Inv s2) by (apply (Inv_ext_same_dss s1 s2 HI1 E2 D2)).
  assert (Ht1 : t' < length (dss s1)) by (rewrite D1, app_length; cbn [length]; unfold t'; lia).
  assert (Ht2 : t' < length (dss s2)) by (rewrite D2; exact Ht1).
  assert (Hd2 : get_ds s2 t' = d1).
  { unfold get_ds. rewrite D2, D1. apply nth_app_new. }
  destruct G1 as [W1 Co1].
  assert (Hnd : ndim (get_arr s2 (length (arrs s1))) = ndim (get_arr s2 (d_arr (get_ds s2 t')))).
  { rewrite N2, Hd2. rewrite (ext_get_arr _ _ _ E2) by apply W1.
    unfold ndim at 1 2. cbn [a_shape]. unfold ndim. rewrite K2. exact Hn. }
  rewrite (set_array_ok s2 t' (length (arrs s1)) Hnd). rewrite Hd2.
  set (d3 := mkDs (length (arrs s1)) (d_origin d1) (d_sampling d1) (d_units d1) (d_cls d1)).
  set (s3 := put_ds s2 t' d3).
  assert (E3 : ext s2 s3) by (apply ext_dss_only; reflexivity).
  assert (D3 : dss s3 = dss s ++ [d3]).
  { unfold s3. cbn [dss put_ds]. rewrite D2, D1. apply set_nth_last. }
  assert (G3 : good_ds s3 d3).
  { eapply good_ext; [exact E3|].
    apply (good_same_arr s2 d1 (length (arrs s1))).
    - eapply good_ext; [exact E2|]. split; assumption.
    - exact L2.
    - rewrite Hnd, Hd2. reflexivity. }
  assert (E03 : ext s s3) by (eapply ext_trans; [exact E1|]; eapply ext_trans; eassumption).
  assert (HI3 : Inv s3) by (apply (Inv_append s s3 d3 HI E03 D3 G3)).
  assert (X3 : get_arr s3 (length (arrs s1)) = mkArr (length (arrs s1)) osh ofl) by exact N2.
  assert (Hcal : forall sX, ext s1 sX ->
            get_num sX (d_origin d1) = get_num s (d_origin (get_ds s t)) /\
            get_num sX (d_sampling d1) = get_num s (d_sampling (get_ds s t)) /\
            get_str sX (d_units d1) = get_str s (d_units (get_ds s t))).
  { intros sX EX. destruct W1 as (_ & Wo & Ws & Wu).
    rewrite (ext_get_num _ _ _ EX) by exact Wo. rewrite (ext_get_num _ _ _ EX) by exact Ws.
    rewrite (ext_get_str _ _ _ EX) by exact Wu. repeat split; assumption. }
  destruct meta as [[no ns]|]; cbn [meta_ok] in Hm.
  - destruct Hm as [Hno Hns].
    assert (Ht3 : t' < length (dss s3)) by (rewrite D3, app_length; cbn [length]; unfold t'; lia).
    assert (Hd3 : get_ds s3 t' = d3) by (unfold get_ds; rewrite D3; apply nth_app_new).
    (* sampling setter *)
    assert (S4 : exists s4, set_sampling s3 t' (NList ns) = Ok s4).
    { unfold set_sampling. rewrite Hd3. unfold d3 at 1. cbn [d_arr]. rewrite X3.
      unfold ndim. cbn [a_shape validate_ndinfo]. apply Nat.eqb_eq in Hns. rewrite Hns.
      cbn [bind]. unfold alloc_num. eexists. reflexivity. }
    destruct S4 as [s4 S4]. cbn [bind]. rewrite S4. cbn [bind].
    destruct (set_sampling_spec _ _ _ _ S4 HI3 Ht3) as (E4 & d4 & D4 & G4 & F1 & F2 & F3 & F4 & F5).
    rewrite Hd3 in F1, F2, F3, F4. unfold d3 in F1, F2, F3, F4. cbn [d_arr d_origin d_units d_cls] in F1, F2, F3, F4.
    assert (HI4 : Inv s4) by (apply (Inv_replace s3 s4 t' d4 HI3 E4 D4 G4)).
    assert (Ht4 : t' < length (dss s4)) by (rewrite (dss_len_replace _ _ _ _ D4); exact Ht3).
    assert (Hd4 : get_ds s4 t' = d4) by (apply (get_ds_dss s3 s4 t' d4 D4 Ht3)).
    assert (X4 : get_arr s4 (d_arr d4) = mkArr (length (arrs s1)) osh ofl).
    { rewrite F1. rewrite (ext_get_arr _ _ _ E4); [exact X3|]. apply G3. }
    assert (S5 : exists s5, set_origin s4 t' (NList no) = Ok s5).
    { unfold set_origin. rewrite Hd4, X4.
      unfold ndim. cbn [a_shape validate_ndinfo]. apply Nat.eqb_eq in Hno. rewrite Hno.
      cbn [bind]. unfold alloc_num. eexists. reflexivity. }
    destruct S5 as [s5 S5]. rewrite S5.
    destruct (set_origin_spec _ _ _ _ S5 HI4 Ht4) as (E5 & d5 & D5 & G5 & H1 & H2 & H3 & H4 & H5).
    rewrite Hd4 in H1, H2, H3, H4.
    exists s5. split; [reflexivity|].
    assert (E05 : ext s s5) by (eapply ext_trans; [exact E03|]; eapply ext_trans; eassumption).
    split; [exact E05|].
    assert (D05 : dss s5 = dss s ++ [d5]).
    { rewrite D5, D4, D3. unfold t'. rewrite set_nth_last. apply set_nth_last. }
    split; [exists d5; split; assumption|].
    subst t'. unfold observe, obs_after. rewrite (get_ds_app_new s s5 d5 D05).
    rewrite H1, H4, F4, H3, F3, H5, H2.
    rewrite (ext_get_arr _ _ _ E5) by apply G4. rewrite X4. cbn [a_shape a_flat].
    rewrite (ext_get_num _ _ _ E5) by apply G4. rewrite F5.
    assert (E15 : ext s1 s5).
    { eapply ext_trans; [exact E2|]. eapply ext_trans; [exact E3|]. eapply ext_trans; eassumption. }
    destruct (Hcal s5 E15) as (_ & _ & ->). rewrite K1. reflexivity.
  - exists s3. split; [reflexivity|]. split; [exact E03|].
    split; [exists d3; split; assumption|].
    subst t'. unfold observe, obs_after. rewrite (get_ds_app_new s s3 d3 D3).
    unfold d3. cbn [d_arr d_origin d_sampling d_units d_cls]. rewrite X3. cbn [a_shape a_flat].
    assert (E13 : ext s1 s3) by (eapply ext_trans; eassumption).
    destruct (Hcal s3 E13) as (-> & -> & ->). rewrite K1. reflexivity.
Qed.

(* the copying variant shows on the new dataset exactly what the in-place variant shows on
   the target *)
Lemma install_agree s t osh ofl meta :
  Inv s -> t < length (dss s) ->
  length osh = ndim (get_arr s (d_arr (get_ds s t))) -> meta_ok (length osh) meta ->
  exists s2, install_cp s t osh ofl meta = Ok s2 /\
    observe (install_ip s t osh ofl meta) t = observe s2 (length (dss s)).
Proof.
  intros HI Ht Hn Hm.
  destruct (install_cp_spec s t osh ofl meta HI Ht Hn Hm) as (s2 & H2 & _ & _ & O2).
  destruct (install_ip_spec s t osh ofl meta HI Ht Hn Hm) as (_ & _ & O1).
  exists s2. split; [exact H2|]. rewrite O1, O2. reflexivity.
Qed.
