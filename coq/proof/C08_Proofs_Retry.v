(* C08 — proofs about model/C08_Model_Retry.v (persistent faults, retry helper) *)
From QV.lib Require Import Prelude.
From QV.model Require Import C08_Model C08_Model_Retry.
From QV.proof Require Import C08_Proofs.

Lemma retry_prefix_reduces r pl : forall prog j hs fs,
  retry_prefix r pl j prog hs fs = run_prefix (first_exhausted r pl j (length prog)) prog hs fs.
Proof.
  induction prog as [|e rest IH]; intros j hs fs.
  - reflexivity.
  - cbn [retry_prefix length first_exhausted].
    destruct (all_fail (pl j) (S r)) eqn:Ha.
    + reflexivity.
    + cbn [run_prefix]. destruct (step e fs) as [err|fs1]; [reflexivity|]. apply IH.
Qed.

(* the protocol with a retry helper, under ANY fault plan, is the protocol with one fault at the first effect
   whose attempts are all used up (no such effect: the run without fault) *)
Theorem retry_run_reduces r pl prog fs :
  retry_run r pl prog fs = run (first_exhausted r pl 0 (length prog)) prog fs.
Proof. unfold retry_run, run. rewrite retry_prefix_reduces. reflexivity. Qed.

Lemma all_fail_true : forall n f, (forall a, f a = true) -> all_fail f n = true.
Proof.
  induction n as [|n IH]; intros f Hf; [reflexivity|].
  cbn [all_fail]. rewrite Hf. cbn [andb]. apply IH. intros a. apply Hf.
Qed.

Lemma all_fail_first_ok : forall n f, f 0 = false -> all_fail f (S n) = false.
Proof. intros n f H0. cbn [all_fail]. rewrite H0. reflexivity. Qed.

Lemma all_fail_exists_ok : forall n f a, a < n -> f a = false -> all_fail f n = false.
Proof.
  induction n as [|n IH]; intros f a Hlt Hfa; [lia|].
  cbn [all_fail]. destruct a as [|a'].
  - rewrite Hfa. reflexivity.
  - destruct (f 0); [cbn [andb]|reflexivity]. apply (IH (fun x => f (S x)) a'); [lia|exact Hfa].
Qed.

Lemma first_exhausted_at r pl k : (forall a, pl k a = true) -> (forall j, j < k -> pl j 0 = false) ->
  forall len j, j <= k -> k < j + len -> first_exhausted r pl j len = k - j.
Proof.
  intros Hk Hbefore. induction len as [|len IH]; intros j Hle Hlt; [lia|].
  cbn [first_exhausted]. destruct (Nat.eq_dec j k) as [->|Hne].
  - rewrite (all_fail_true (S r) (pl k) Hk). lia.
  - rewrite (all_fail_first_ok r (pl j)) by (apply Hbefore; lia).
    rewrite (IH (S j)) by lia. lia.
Qed.

Lemma first_exhausted_none r pl : (forall j, all_fail (pl j) (S r) = false) ->
  forall len j, first_exhausted r pl j len = len.
Proof.
  intros Hno. induction len as [|len IH]; intros j; [reflexivity|].
  cbn [first_exhausted]. rewrite Hno. f_equal. apply IH.
Qed.

(* a PERSISTENT fault: an effect that fails at every attempt fails however often it is repeated *)
Theorem retry_persistent_still_fails r pl k prog fs :
  (forall a, pl k a = true) -> (forall j, j < k -> pl j 0 = false) -> k < length prog ->
  retry_run r pl prog fs = run k prog fs.
Proof.
  intros Hk Hb Hlen. rewrite retry_run_reduces.
  rewrite (first_exhausted_at r pl k Hk Hb (length prog) 0) by lia. f_equal. lia.
Qed.

(* faults that leave one attempt in r + 1 working for every effect are absorbed: the uninterrupted save *)
Theorem retry_absorbs r pl prog fs :
  (forall j, exists a, a <= r /\ pl j a = false) ->
  retry_run r pl prog fs = run (length prog) prog fs.
Proof.
  intros Hok. rewrite retry_run_reduces. f_equal. apply first_exhausted_none.
  intros j. destruct (Hok j) as [a [Ha Hf]]. apply (all_fail_exists_ok (S r) (pl j) a); [lia|exact Hf].
Qed.

Theorem retry_one_shot_absorbed r k prog fs :
  1 <= r -> retry_run r (one_shot k) prog fs = run (length prog) prog fs.
Proof.
  intros Hr. apply retry_absorbs. intros j. exists 1. split; [lia|].
  unfold one_shot. cbn. apply Bool.andb_false_r.
Qed.

Theorem retry_persistent_one k r prog fs :
  k < length prog -> retry_run r (persistent k) prog fs = run k prog fs.
Proof.
  intros Hlen. apply retry_persistent_still_fails; [| |exact Hlen].
  - intros a. unfold persistent. apply Nat.eqb_refl.
  - intros j Hj. unfold persistent. apply Nat.eqb_neq. lia.
Qed.

Lemma first_exhausted_ext r pl pl' : (forall j, all_fail (pl j) (S r) = all_fail (pl' j) (S r)) ->
  forall len j, first_exhausted r pl j len = first_exhausted r pl' j len.
Proof.
  intros He. induction len as [|len IH]; intros j; [reflexivity|].
  cbn [first_exhausted]. rewrite He, IH. reflexivity.
Qed.

(* without helper (r = 0) a one-shot fault is the fault of `run` *)
Theorem retry_zero_is_run k prog fs :
  k < length prog -> retry_run 0 (one_shot k) prog fs = run k prog fs.
Proof.
  intros Hlen. rewrite <- (retry_persistent_one k 0 prog fs Hlen).
  rewrite !retry_run_reduces. f_equal. apply first_exhausted_ext.
  intros j. unfold one_shot, persistent. cbn [all_fail]. cbn. rewrite !Bool.andb_true_r. reflexivity.
Qed.

(* the property for the protocol with a (correct) retry helper: every number of repetitions, EVERY fault plan
   (one-shot, persistent, intermittent, several effects failing) *)
Theorem retry_no_partial_loadable :
  forall (markers : list item) (st : store) (m : mode) (p ts tz : path) (ws zs : list item)
         (fs : fsys) (r : nat) (pl : plan),
    p <> ts /\ p <> tz /\ ts <> tz /\ fs ts = Absent /\ fs tz = Absent ->
    match load_model markers (fst (retry_run r pl (save_prog st m p ts tz ws zs) fs)) p with
    | LErr => True
    | LObj c => load_model markers fs p = LObj c \/ c = final_content st ws zs
    end.
Proof.
  intros markers st m p ts tz ws zs fs r pl H. rewrite retry_run_reduces.
  apply no_partial_loadable. exact H.
Qed.

(* the helper that drops the exception after the last attempt: a persistent fault at one item write leaves a
   loadable object that lacks that item, and the save reports success *)
Definition swallow_statement : Prop :=
  forall (markers : list item) (st : store) (m : mode) (p ts tz : path) (ws zs : list item)
         (fs : fsys) (r : nat) (pl : plan),
    p <> ts /\ p <> tz /\ ts <> tz /\ fs ts = Absent /\ fs tz = Absent ->
    match load_model markers (fst (swallow_run r pl (save_prog st m p ts tz ws zs) fs)) p with
    | LErr => True
    | LObj c => load_model markers fs p = LObj c \/ c = final_content st ws zs
    end.

Theorem swallow_refuted : ~ swallow_statement.
Proof.
  intros H.
  specialize (H [1%Z] SDir MW 0 1 2 [1; 2; 3]%Z [] (fun _ => Absent) 2 (persistent 3)).
  assert (Hp : 0 <> 1 /\ 0 <> 2 /\ 1 <> 2 /\ (fun _ : path => Absent) 1 = Absent /\ (fun _ : path => Absent) 2 = Absent)
    by (repeat split; discriminate).
  specialize (H Hp). vm_compute in H. destruct H as [H|H]; discriminate H.
Qed.

Example swallow_witness :
  fst (swallow_run 2 (persistent 3) (save_prog SDir MO 0 1 2 [1; 2; 3]%Z [])
                   (fun q => match q with 0 => Dir [1; 7]%Z | _ => Absent end)) 0
  = Dir [1; 3]%Z /\
  snd (swallow_run 2 (persistent 3) (save_prog SDir MO 0 1 2 [1; 2; 3]%Z []) (fun _ => Absent)) = Done.
Proof. split; vm_compute; reflexivity. Qed.
