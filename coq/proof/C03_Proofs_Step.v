(* C03 — every operation of the model: shape of the state change, preservation of the
   invariant, frame properties, and agreement of the in-place and copying variants. *)
From Coq Require Import QArith String.
From QV.lib Require Import Prelude C03_Slice.
From QV.model Require Import C03_Model.
From QV.proof Require Import C03_Proofs_Base C03_Proofs_Ops.
From Coq Require Import List.
Import ListNotations.
Local Close Scope Q_scope.
Local Open Scope list_scope.

(* ------------------------------------------------------------------ lengths of the new arrays *)
Lemma pad_widths_len sh p w : pad_widths sh p = Ok w -> length w = length sh.
Proof.
  destruct p as [k|b a|l|out| |]; cbn [pad_widths]; intros H; try discriminate.
  - destruct (k <? 0)%Z; [discriminate|]. injection H as <-. apply repeat_length.
  - destruct (neg_pair (b, a)); [discriminate|]. injection H as <-. apply repeat_length.
  - destruct ((length l =? length sh) || (length l =? 1)) eqn:E; [|discriminate].
    destruct (existsb neg_pair l); [discriminate|]. injection H as <-.
    destruct (length l =? length sh) eqn:E1.
    + rewrite map_length. apply Nat.eqb_eq. exact E1.
    + apply repeat_length.
  - destruct (length out =? length sh) eqn:E; [|discriminate]. injection H as <-.
    rewrite map_length, combine_length. apply Nat.eqb_eq in E. lia.
Qed.

Lemma pad_data_len sh fl w : length w = length sh -> length (fst (pad_data sh fl w)) = length sh.
Proof. intros H. unfold pad_data. cbn [fst]. rewrite map_length, combine_length. lia. Qed.

Lemma fold_left_inv (A B : Type) (P : A -> Prop) (f : A -> B -> A) l a :
  (forall x b, P x -> P (f x b)) -> P a -> P (fold_left f l a).
Proof. intros Hf. revert a. induction l as [|b l IH]; intros a Ha; cbn; [exact Ha|]. apply IH, Hf, Ha. Qed.

Lemma bin_data_len sh fl dict : length (fst (bin_data sh fl dict)) = length sh.
Proof.
  unfold bin_data.
  apply (fold_left_inv _ _ (fun acc : list nat * list Z => length (fst acc) = length sh)); [|reflexivity].
  intros [osh ofl] ax H. cbn [fst snd] in *.
  destruct (dict_get (Z.of_nat ax) dict); [|exact H].
  unfold bin_axis. cbn [fst]. rewrite set_nth_length. exact H.
Qed.

Lemma bin_meta_len items : forall o sa no ns,
  bin_meta items o sa = Ok (no, ns) -> length no = length o /\ length ns = length sa.
Proof.
  induction items as [|[ax fac] r IH]; intros o sa no ns H; cbn [bin_meta] in H.
  - injection H as <- <-. split; reflexivity.
  - destruct (pyidx ax (length sa)) as [i|]; [|discriminate].
    apply IH in H. rewrite !set_nth_length in H. exact H.
Qed.

Lemma fr_sampling_len sh items : forall sa, length (fr_sampling sh items sa) = length sa.
Proof.
  induction items as [|[ax out] r IH]; intros sa; cbn [fr_sampling]; [reflexivity|].
  destruct (pyidx ax (length sa)); [|reflexivity]. rewrite IH. apply set_nth_length.
Qed.

Lemma fr_origin_len sh items o0 sa0 nsa : forall o, length (fr_origin sh items o0 sa0 nsa o) = length o.
Proof.
  induction items as [|[ax out] r IH]; intros o; cbn [fr_origin]; [reflexivity|].
  destruct (pyidx ax (length o)); [|reflexivity]. rewrite IH. apply set_nth_length.
Qed.

(* ------------------------------------------------------------------ pad / bin / fourier as installs *)
Definition finish (s : state) (t : nat) (osh : list nat) (ofl : list Z)
  (meta : option (list Q * list Q)) (in_place : bool) : res state :=
  if in_place then Ok (install_ip s t osh ofl meta) else install_cp s t osh ofl meta.

Lemma pad_eq s t p ip :
  pad s t p ip =
  let a := get_arr s (d_arr (get_ds s t)) in
  do w <- pad_widths (a_shape a) p;
  finish s t (fst (pad_data (a_shape a) (a_flat a) w)) (snd (pad_data (a_shape a) (a_flat a) w)) None ip.
Proof.
  unfold pad, finish, install_ip, install_cp. cbn zeta.
  destruct (pad_widths _ p) as [w|e]; [|reflexivity]. cbn [bind].
  destruct (pad_data _ _ w) as [osh ofl]. cbn [fst snd]. destruct ip; reflexivity.
Qed.

Section WithKernels.
  Variable FR : list Z -> list Z -> list nat -> list Z -> list Z.
  Variable divf : Z -> Z -> Z.

  (* the arguments bin hands to the installer *)
  Definition bin_prep (s : state) (t : nat) (fa : factorarg) (axes : axesarg) (mean : bool)
    : res (list nat * list Z * (list Q * list Q)) :=
    let d := get_ds s t in
    let a := get_arr s (d_arr d) in
    do ax <- norm_axes (ndim a) (axes_list (ndim a) axes);
    do facs <- bin_factors fa (length ax);
    if existsb (fun f => (f <=? 0)%Z) facs then Err ValueErr
    else
      let dict := dict_of (combine ax facs) in
      let vol := fold_left Z.mul (map snd dict) 1%Z in
      let osh := fst (bin_data (a_shape a) (a_flat a) dict) in
      let summed := snd (bin_data (a_shape a) (a_flat a) dict) in
      do os <- bin_meta dict (get_num s (d_origin d)) (get_num s (d_sampling d));
      Ok (osh, if mean then map (divf vol) summed else summed, os).

  Lemma bin_eq s t fa axes mean ip :
    bin divf s t fa axes mean ip =
    do r <- bin_prep s t fa axes mean;
    finish s t (fst (fst r)) (snd (fst r)) (Some (snd r)) ip.
  Proof.
    unfold bin, bin_prep, finish, install_ip, install_cp. cbn zeta.
    destruct (norm_axes _ _) as [ax|e]; [|reflexivity]. cbn [bind].
    destruct (bin_factors fa _) as [facs|e]; [|reflexivity]. cbn [bind].
    destruct (existsb _ facs); [reflexivity|].
    destruct (bin_data _ _ _) as [osh summed]. cbn [fst snd].
    destruct (bin_meta _ _ _) as [[no ns]|e]; [|reflexivity]. cbn [bind fst snd].
    destruct ip; reflexivity.
  Qed.

  Lemma bin_prep_ok s t fa axes mean osh ofl no ns :
    bin_prep s t fa axes mean = Ok (osh, ofl, (no, ns)) -> Inv s -> t < length (dss s) ->
    length osh = ndim (get_arr s (d_arr (get_ds s t))) /\ meta_ok (length osh) (Some (no, ns)).
  Proof.
    unfold bin_prep. cbn zeta. intros H HI Ht.
    pose proof (Inv_get _ _ HI Ht) as [_ (C1 & C2 & _)].
    apply bind_ok in H. destruct H as (ax & _ & H).
    apply bind_ok in H. destruct H as (facs & _ & H). destruct (existsb _ facs); [discriminate|].
    apply bind_ok in H. destruct H as ([no' ns'] & Hx0 & H). injection H as <- _ <- <-.
    apply bin_meta_len in Hx0. destruct Hx0 as [L1 L2].
    rewrite bin_data_len. split; [reflexivity|]. cbn [meta_ok].
    unfold ndim in *. split; congruence.
  Qed.

  Definition fourier_prep (s : state) (t : nat) (spec : frspec) (axes : axesarg)
    : res (list nat * list Z * (list Q * list Q)) :=
    let d := get_ds s t in
    let a := get_arr s (d_arr d) in
    let sh := a_shape a in
    do ax <- norm_axes (ndim a) (axes_list (ndim a) axes);
    do outs <- fr_out_shape sh ax spec;
    if existsb (fun n => (n <? 1)%Z) outs then Err ValueErr
    else if existsb (fun a0 => match shape_at sh a0 with Ok 0%Z => true | _ => false end) ax
    then Err ValueErr
    else
      let dict := dict_of (combine ax outs) in
      let osh := map (fun i => match dict_get (Z.of_nat i) dict with
                               | Some n => Z.to_nat n
                               | None => nth i sh 0
                               end) (seq 0 (length sh)) in
      let origin := get_num s (d_origin d) in
      let sampling := get_num s (d_sampling d) in
      let items := combine ax outs in
      let new_sampling := fr_sampling sh items sampling in
      Ok (osh, FR ax outs sh (a_flat a),
          (fr_origin sh items origin sampling new_sampling origin, new_sampling)).

  Lemma fourier_eq s t spec axes ip :
    fourier FR s t spec axes ip =
    do r <- fourier_prep s t spec axes;
    finish s t (fst (fst r)) (snd (fst r)) (Some (snd r)) ip.
  Proof.
    unfold fourier, fourier_prep, finish, install_ip, install_cp. cbn zeta.
    destruct (norm_axes _ _) as [ax|e]; [|reflexivity]. cbn [bind].
    destruct (fr_out_shape _ _ spec) as [outs|e]; [|reflexivity]. cbn [bind].
    destruct (existsb _ outs); [reflexivity|].
    destruct (existsb _ ax); [reflexivity|].
    cbn [bind fst snd]. destruct ip; reflexivity.
  Qed.

  Lemma fourier_prep_ok s t spec axes osh ofl no ns :
    fourier_prep s t spec axes = Ok (osh, ofl, (no, ns)) -> Inv s -> t < length (dss s) ->
    length osh = ndim (get_arr s (d_arr (get_ds s t))) /\ meta_ok (length osh) (Some (no, ns)).
  Proof.
    unfold fourier_prep. cbn zeta. intros H HI Ht.
    pose proof (Inv_get _ _ HI Ht) as [_ (C1 & C2 & _)].
    apply bind_ok in H. destruct H as (ax & _ & H).
    apply bind_ok in H. destruct H as (outs & _ & H). destruct (existsb _ outs); [discriminate|].
    destruct (existsb _ ax); [discriminate|].
    injection H as <- _ <- <-.
    rewrite map_length, seq_length. split; [reflexivity|]. cbn [meta_ok].
    rewrite fr_origin_len, fr_sampling_len. unfold ndim in *. split; congruence.
  Qed.

  (* ---------------------------------------------------------------- finish: shape + agreement *)
  Lemma finish_shape s t osh ofl meta ip s' :
    finish s t osh ofl meta ip = Ok s' -> Inv s -> t < length (dss s) ->
    length osh = ndim (get_arr s (d_arr (get_ds s t))) -> meta_ok (length osh) meta ->
    ext s s' /\
    if ip then exists d, dss s' = set_nth t d (dss s) /\ good_ds s' d
    else exists d, dss s' = dss s ++ [d] /\ good_ds s' d.
  Proof.
    intros H HI Ht Hn Hm. destruct ip; cbn [finish] in H.
    - injection H as <-. destruct (install_ip_spec s t osh ofl meta HI Ht Hn Hm) as (E & D & _).
      split; assumption.
    - destruct (install_cp_spec s t osh ofl meta HI Ht Hn Hm) as (s2 & H2 & E & D & _).
      rewrite H2 in H. injection H as <-. split; assumption.
  Qed.

  (* ---------------------------------------------------------------- crop *)
  Definition ens_shape (sh : list nat) (k : nat) : res (list nat) :=
    if length sh <? k then Ok (repeat 1 (k - length sh) ++ sh)
    else if k <? length sh then Err ValueErr else Ok sh.

  (* the array setter, completely: error exactly when the new array has too many dimensions;
     otherwise the target shows the (possibly 1-expanded) new array with its old calibration *)
  Lemma set_array_obs s t aid :
    Inv s -> t < length (dss s) -> aid < length (arrs s) ->
    let d0 := get_ds s t in
    match ens_shape (a_shape (get_arr s aid)) (ndim (get_arr s (d_arr d0))) with
    | Err e => set_array s t aid = Err e
    | Ok sh' =>
      exists s', set_array s t aid = Ok s' /\ ext s s' /\
        (exists d, dss s' = set_nth t d (dss s) /\ good_ds s' d) /\
        observe s' t = mkObs (d_cls d0) sh' (a_flat (get_arr s aid)) (get_num s (d_origin d0))
                             (get_num s (d_sampling d0)) (get_str s (d_units d0))
    end.
  Proof.
    intros HI Ht Ha d0.
    pose proof (Inv_get _ _ HI Ht) as Hg. fold d0 in Hg.
    destruct Hg as [(Wa & Wo & Ws & Wu) Hc].
    unfold ens_shape. fold (ndim (get_arr s aid)).
    destruct (ndim (get_arr s aid) <? ndim (get_arr s (d_arr d0))) eqn:E1;
      [|destruct (ndim (get_arr s (d_arr d0)) <? ndim (get_arr s aid)) eqn:E2].
    - (* expanded view *)
      destruct (set_array s t aid) as [s'|e] eqn:HS.
      2:{ exfalso. unfold set_array, ensure_ndim in HS. fold d0 in HS. rewrite E1 in HS.
          unfold alloc_view, alloc_arr in HS. cbn in HS. discriminate. }
      exists s'. split; [reflexivity|].
      destruct (set_array_spec _ _ _ _ HS HI Ht Ha) as (E & d & D & G & F1 & F2 & F3 & F4 & F5 & _).
      split; [exact E|]. split; [exists d; split; assumption|].
      unfold observe. rewrite (get_ds_dss s s' t d D Ht). fold d0 in F1, F2, F3, F4.
      rewrite F1, F2, F3, F4, F5.
      rewrite (ext_get_num _ _ _ E) by exact Wo. rewrite (ext_get_num _ _ _ E) by exact Ws.
      rewrite (ext_get_str _ _ _ E) by exact Wu.
      f_equal.
      (* shape of the new view *)
      unfold set_array, ensure_ndim in HS. fold d0 in HS. rewrite E1 in HS.
      unfold alloc_view, alloc_arr in HS. cbn [bind fst snd] in HS. injection HS as HS.
      rewrite <- HS in D. cbn [dss put_ds] in D.
      assert (Hd : d = mkDs (length (arrs s)) (d_origin d0) (d_sampling d0) (d_units d0) (d_cls d0)).
      { apply (f_equal (fun l => nth t l empty_ds)) in D.
        rewrite !nth_set_nth_eq in D by exact Ht. symmetry. exact D. }
      rewrite Hd. cbn [d_arr]. rewrite <- HS. unfold get_arr at 1. cbn [arrs put_ds].
      rewrite nth_app_new. reflexivity.
    - (* too many dimensions *)
      unfold set_array, ensure_ndim. fold d0. rewrite E1, E2. reflexivity.
    - (* same dimensionality *)
      assert (Hn : ndim (get_arr s aid) = ndim (get_arr s (d_arr d0)))
        by (apply Nat.ltb_ge in E1, E2; lia).
      exists (put_ds s t (mkDs aid (d_origin d0) (d_sampling d0) (d_units d0) (d_cls d0))).
      split; [apply set_array_ok; exact Hn|].
      split; [apply ext_dss_only; reflexivity|].
      split.
      + eexists. split; [reflexivity|].
        eapply good_ext; [apply ext_dss_only; reflexivity|].
        apply (good_same_arr s d0 aid); [split; [repeat split; assumption|exact Hc]|exact Ha|exact Hn].
      + unfold observe.
        rewrite (get_ds_dss s (put_ds s t (mkDs aid (d_origin d0) (d_sampling d0) (d_units d0) (d_cls d0))) t
                            (mkDs aid (d_origin d0) (d_sampling d0) (d_units d0) (d_cls d0)) eq_refl Ht).
        reflexivity.
  Qed.

  Lemma alloc_view_spec s base sh fl :
    let s' := fst (alloc_view s base sh fl) in
    ext s s' /\ dss s' = dss s /\ snd (alloc_view s base sh fl) = length (arrs s) /\
    length (arrs s) < length (arrs s') /\
    a_shape (get_arr s' (length (arrs s))) = sh /\ a_flat (get_arr s' (length (arrs s))) = fl.
  Proof.
    unfold alloc_view, alloc_arr. cbn [fst snd].
    split; [apply (ext_alloc_arr s (mkArr (a_root (get_arr s base)) sh fl))|].
    split; [reflexivity|]. split; [reflexivity|]. cbn [arrs]. rewrite app_length. cbn [length].
    split; [lia|]. unfold get_arr. cbn [arrs]. rewrite nth_app_new. split; reflexivity.
  Qed.

  (* what crop shows: the NumPy-sliced array, re-expanded to the dataset's dimensionality, old
     calibration *)
  Definition crop_obs (s : state) (t : nat) (sl : list index) : res obs :=
    let d := get_ds s t in
    let a := get_arr s (d_arr d) in
    do v <- np_index (a_shape a) (a_flat a) sl;
    do sh' <- ens_shape (np_shape v) (ndim a);
    Ok (mkObs (d_cls d) sh' (np_flat v) (get_num s (d_origin d)) (get_num s (d_sampling d))
              (get_str s (d_units d))).

  Lemma crop_spec s t widths axes ip :
    Inv s -> t < length (dss s) ->
    match (do sl <- crop_index (ndim (get_arr s (d_arr (get_ds s t)))) widths axes; crop_obs s t sl) with
    | Err e => crop s t widths axes ip = Err e
    | Ok o =>
      exists s', crop s t widths axes ip = Ok s' /\ ext s s' /\
        if ip then (exists d, dss s' = set_nth t d (dss s) /\ good_ds s' d) /\ observe s' t = o
        else (exists d, dss s' = dss s ++ [d] /\ good_ds s' d) /\ observe s' (length (dss s)) = o
    end.
  Proof.
    intros HI Ht. unfold crop, crop_obs. cbn zeta.
    set (d0 := get_ds s t). set (a := get_arr s (d_arr d0)).
    pose proof (Inv_get _ _ HI Ht) as Hg. fold d0 in Hg. destruct Hg as [(Wa & Wo & Ws & Wu) Hc].
    destruct (crop_index (ndim a) widths axes) as [sl|e]; [|reflexivity]. cbn [bind].
    destruct ip.
    - (* in place *)
      destruct (np_index (a_shape a) (a_flat a) sl) as [v|e]; [|reflexivity]. cbn [bind].
      destruct (alloc_view_spec s (d_arr d0) (np_shape v) (np_flat v)) as (E1 & D1 & A1 & L1 & S1 & F1).
      destruct (alloc_view s (d_arr d0) (np_shape v) (np_flat v)) as [s1 aid] eqn:EV.
      cbn [fst snd] in *. subst aid.
      assert (HI1 : Inv s1) by (apply (Inv_ext_same_dss s s1 HI E1 D1)).
      assert (Ht1 : t < length (dss s1)) by (rewrite D1; exact Ht).
      pose proof (set_array_obs s1 t (length (arrs s)) HI1 Ht1 L1) as HO. cbn zeta in HO.
      assert (Hd1 : get_ds s1 t = d0) by (unfold get_ds; rewrite D1; reflexivity).
      rewrite Hd1, S1, F1 in HO. rewrite (ext_get_arr _ _ _ E1) in HO by exact Wa. fold a in HO.
      destruct (ens_shape (np_shape v) (ndim a)) as [sh'|e]; [|exact HO]. cbn [bind].
      destruct HO as (s' & HS & E2 & (d & D2 & G2) & O2).
      exists s'. split; [exact HS|]. split; [eapply ext_trans; eassumption|].
      split; [exists d; rewrite <- D1; split; assumption|].
      rewrite O2. rewrite (ext_get_num _ _ _ E1) by exact Wo. rewrite (ext_get_num _ _ _ E1) by exact Ws.
      rewrite (ext_get_str _ _ _ E1) by exact Wu. reflexivity.
    - (* on a copy *)
      destruct (copy_ok s t HI Ht) as [s1 Hcp]. rewrite Hcp. cbn [bind].
      destruct (copy_spec _ _ _ Hcp HI Ht) as (E1 & d1 & D1 & G1 & K1 & K2 & K3 & K4 & K5 & K6 & _).
      assert (HI1 : Inv s1) by (apply (Inv_append s s1 d1 HI E1 D1 G1)).
      rewrite (get_ds_app_new s s1 d1 D1). rewrite K2, K3. fold d0. fold a.
      destruct (np_index (a_shape a) (a_flat a) sl) as [v|e]; [|reflexivity]. cbn [bind].
      destruct (alloc_view_spec s1 (d_arr d1) (np_shape v) (np_flat v)) as (E2 & D2 & A2 & L2 & S2 & F2).
      destruct (alloc_view s1 (d_arr d1) (np_shape v) (np_flat v)) as [s2 aid] eqn:EV.
      cbn [fst snd] in *. subst aid.
      assert (HI2 : Inv s2) by (apply (Inv_ext_same_dss s1 s2 HI1 E2 D2)).
      assert (Ht2 : length (dss s) < length (dss s2)) by (rewrite D2, D1, app_length; cbn [length]; lia).
      pose proof (set_array_obs s2 (length (dss s)) (length (arrs s1)) HI2 Ht2 L2) as HO. cbn zeta in HO.
      assert (Hd2 : get_ds s2 (length (dss s)) = d1) by (unfold get_ds; rewrite D2, D1; apply nth_app_new).
      destruct G1 as [(Xa & Xo & Xs & Xu) Hc1].
      rewrite Hd2, S2, F2 in HO. rewrite (ext_get_arr _ _ _ E2) in HO by exact Xa.
      unfold ndim in HO at 1. rewrite K2 in HO.
      change (length (a_shape (get_arr s (d_arr (get_ds s t))))) with (ndim a) in HO.
      destruct (ens_shape (np_shape v) (ndim a)) as [sh'|e]; [|exact HO]. cbn [bind].
      destruct HO as (s' & HS & E3 & (d & D3 & G3) & O3).
      exists s'. split; [exact HS|].
      split; [eapply ext_trans; [exact E1|]; eapply ext_trans; eassumption|].
      split.
      + exists d. split; [|exact G3]. rewrite D3, D2, D1. apply set_nth_last.
      + rewrite O3. rewrite (ext_get_num _ _ _ E2) by exact Xo. rewrite (ext_get_num _ _ _ E2) by exact Xs.
        rewrite (ext_get_str _ _ _ E2) by exact Xu. rewrite K1, K4, K5, K6. reflexivity.
  Qed.

  (* ---------------------------------------------------------------- every operation *)
  Definition change (s s' : state) (o : op) : Prop :=
    ext s s' /\
    if returns_new o then exists d, dss s' = dss s ++ [d] /\ good_ds s' d
    else s' = s \/ exists t d, op_target o = Some t /\ t < length (dss s) /\
                               dss s' = set_nth t d (dss s) /\ good_ds s' d.

  Lemma live_target s o t : live s o = true -> op_target o = Some t -> t < length (dss s).
  Proof.
    unfold live. intros H Ho. rewrite Ho in H. apply andb_prop in H. destruct H as [H _].
    apply Nat.ltb_lt. exact H.
  Qed.

  Lemma step_change s o s' : step FR divf s o = Ok s' -> Inv s -> change s s' o.
  Proof.
    unfold step. intros H HI. destruct (live s o) eqn:HL; cbn [negb] in H; [|discriminate].
    destruct o as [c sh data og sa u|c src|t|t v|t v|t v|t sh data|t src|t|t p ip|t w ax ip
                  |t f ax mean ip|t spec ax ip|t idx|t r|t dt]; unfold change; cbn [returns_new op_target].
    - (* from_array on a new ndarray *)
      destruct (alloc_fresh_spec s sh data) as (E1 & D1 & A1 & L1 & N1).
      destruct (alloc_fresh s sh data) as [s1 aid]. cbn [fst snd] in *. subst aid.
      destruct (from_array_built _ _ _ _ _ _ _ H L1) as (E2 & d & D2 & G2 & _).
      split; [eapply ext_trans; eassumption|]. exists d. rewrite <- D1. split; assumption.
    - (* from_array on the array of a live dataset *)
      pose proof (live_target s _ src HL eq_refl) as Ht.
      pose proof (Inv_get _ _ HI Ht) as [(Wa & _) _].
      destruct (from_array_built _ _ _ _ _ _ _ H Wa) as (E2 & d & D2 & G2 & _).
      split; [exact E2|]. exists d. split; assumption.
    - pose proof (live_target s _ t HL eq_refl) as Ht.
      destruct (copy_spec _ _ _ H HI Ht) as (E & d & D & G & _).
      split; [exact E|]. exists d. split; assumption.
    - pose proof (live_target s _ t HL eq_refl) as Ht.
      destruct (set_num_shape s t v s' true H HI Ht) as (E & d & D & G).
      split; [exact E|]. right. exists t, d. split; [reflexivity|]. split; [exact Ht|]. split; first [exact D|exact D2|exact G|exact G2].
    - pose proof (live_target s _ t HL eq_refl) as Ht.
      destruct (set_num_shape s t v s' false H HI Ht) as (E & d & D & G).
      split; [exact E|]. right. exists t, d. split; [reflexivity|]. split; [exact Ht|]. split; first [exact D|exact D2|exact G|exact G2].
    - pose proof (live_target s _ t HL eq_refl) as Ht.
      destruct (set_units_shape s t v s' H HI Ht) as (E & d & D & G).
      split; [exact E|]. right. exists t, d. split; [reflexivity|]. split; [exact Ht|]. split; first [exact D|exact D2|exact G|exact G2].
    - (* array setter, new ndarray *)
      pose proof (live_target s _ t HL eq_refl) as Ht.
      destruct (alloc_fresh_spec s sh data) as (E1 & D1 & A1 & L1 & N1).
      destruct (alloc_fresh s sh data) as [s1 aid]. cbn [fst snd] in *. subst aid.
      assert (HI1 : Inv s1) by (apply (Inv_ext_same_dss s s1 HI E1 D1)).
      assert (Ht1 : t < length (dss s1)) by (rewrite D1; exact Ht).
      destruct (set_array_spec _ _ _ _ H HI1 Ht1 L1) as (E2 & d & D2 & G2 & _).
      split; [eapply ext_trans; eassumption|]. right. exists t, d. rewrite <- D1. split; [reflexivity|]. split; [exact Ht1|]. split; [exact D2|exact G2].
    - (* array setter, array of another live dataset *)
      pose proof (live_target s _ t HL eq_refl) as Ht.
      assert (Hs : src < length (dss s)).
      { unfold live in HL. cbn [op_src2] in HL. apply andb_prop in HL. destruct HL as [_ HL].
        apply Nat.ltb_lt. exact HL. }
      pose proof (Inv_get _ _ HI Hs) as [(Wa & _) _].
      destruct (set_array_spec _ _ _ _ H HI Ht Wa) as (E2 & d & D2 & G2 & _).
      split; [exact E2|]. right. exists t, d. split; [reflexivity|]. split; [exact Ht|]. split; first [exact D|exact D2|exact G|exact G2].
    - injection H as <-. split; [apply ext_refl|]. left. reflexivity.
    - (* pad *)
      pose proof (live_target s _ t HL eq_refl) as Ht.
      rewrite pad_eq in H. cbn zeta in H. inv_bind H.
      pose proof (pad_widths_len _ _ _ Hx) as Lw.
      pose proof (pad_data_len (a_shape (get_arr s (d_arr (get_ds s t))))
                               (a_flat (get_arr s (d_arr (get_ds s t)))) x Lw) as Ln.
      destruct (finish_shape _ _ _ _ _ _ _ H HI Ht Ln I) as (E & D).
      split; [exact E|]. destruct ip; cbn [negb].
      + right. destruct D as (d & D & G). exists t, d. split; [reflexivity|]. split; [exact Ht|]. split; first [exact D|exact D2|exact G|exact G2].
      + exact D.
    - (* crop *)
      pose proof (live_target s _ t HL eq_refl) as Ht.
      pose proof (crop_spec s t w ax ip HI Ht) as HC.
      destruct (do sl <- crop_index _ w ax; crop_obs s t sl) as [o|e]; [|rewrite HC in H; discriminate].
      destruct HC as (s2 & H2 & E & D). rewrite H2 in H. injection H as <-.
      split; [exact E|]. destruct ip; cbn [negb].
      + right. destruct D as ((d & D & G) & _). exists t, d. split; [reflexivity|]. split; [exact Ht|]. split; first [exact D|exact D2|exact G|exact G2].
      + apply D.
    - (* bin *)
      pose proof (live_target s _ t HL eq_refl) as Ht.
      rewrite bin_eq in H. inv_bind H. destruct x as [[osh ofl] [no ns]]. cbn [fst snd] in H.
      destruct (bin_prep_ok _ _ _ _ _ _ _ _ _ Hx HI Ht) as [Ln Lm].
      destruct (finish_shape _ _ _ _ _ _ _ H HI Ht Ln Lm) as (E & D).
      split; [exact E|]. destruct ip; cbn [negb].
      + right. destruct D as (d & D & G). exists t, d. split; [reflexivity|]. split; [exact Ht|]. split; first [exact D|exact D2|exact G|exact G2].
      + exact D.
    - (* fourier_resample *)
      pose proof (live_target s _ t HL eq_refl) as Ht.
      rewrite fourier_eq in H. inv_bind H. destruct x as [[osh ofl] [no ns]]. cbn [fst snd] in H.
      destruct (fourier_prep_ok _ _ _ _ _ _ _ _ Hx HI Ht) as [Ln Lm].
      destruct (finish_shape _ _ _ _ _ _ _ H HI Ht Ln Lm) as (E & D).
      split; [exact E|]. destruct ip; cbn [negb].
      + right. destruct D as (d & D & G). exists t, d. split; [reflexivity|]. split; [exact Ht|]. split; first [exact D|exact D2|exact G|exact G2].
      + exact D.
    - (* getitem *)
      pose proof (live_target s _ t HL eq_refl) as Ht.
      unfold getitem in H. cbn zeta in H. inv_bind H.
      destruct (np_scalar x); [discriminate|].
      destruct (np_copy x).
      + destruct (alloc_fresh_spec s (np_shape x) (np_flat x)) as (E1 & D1 & A1 & L1 & N1).
        destruct (alloc_fresh s (np_shape x) (np_flat x)) as [s1 aid]. cbn [fst snd] in *. subst aid.
        destruct (from_array_built _ _ _ _ _ _ _ H L1) as (E2 & d & D2 & G2 & _).
        split; [eapply ext_trans; eassumption|]. exists d. rewrite <- D1. split; assumption.
      + destruct (alloc_view_spec s (d_arr (get_ds s t)) (np_shape x) (np_flat x)) as (E1 & D1 & A1 & L1 & _).
        destruct (alloc_view s (d_arr (get_ds s t)) (np_shape x) (np_flat x)) as [s1 aid]. cbn [fst snd] in *. subst aid.
        destruct (from_array_built _ _ _ _ _ _ _ H L1) as (E2 & d & D2 & G2 & _).
        split; [eapply ext_trans; eassumption|]. exists d. rewrite <- D1. split; assumption.
    - (* get_dp_mean / max / median *)
      unfold reduce_dp in H. cbn zeta in H.
      destruct (d_cls (get_ds s t)); try discriminate.
      destruct (a_shape (get_arr s (d_arr (get_ds s t)))) as [|n0 [|n1 [|n2 [|n3 [|n4 rest]]]]]; try discriminate.
      match type of H with (if ?c then _ else _) = _ => destruct c; [discriminate|] end.
      inv_bind H.
      destruct (alloc_fresh_spec s [n2; n3] x) as (E1 & D1 & A1 & L1 & N1).
      destruct (alloc_fresh s [n2; n3] x) as [s1 aid]. cbn [fst snd] in *. subst aid.
      destruct (from_array_built _ _ _ _ _ _ _ H L1) as (E2 & d & D2 & G2 & _).
      split; [eapply ext_trans; eassumption|]. exists d. rewrite <- D1. split; assumption.
    - (* get_virtual_image *)
      unfold virtual_image in H. cbn zeta in H.
      destruct (d_cls (get_ds s t)); try discriminate.
      destruct (a_shape (get_arr s (d_arr (get_ds s t)))) as [|n0 [|n1 [|n2 [|n3 [|n4 rest]]]]]; try discriminate.
      inv_bind H.
      match type of H with (let (_, _) := alloc_fresh s ?sh ?fl in _) = _ =>
        destruct (alloc_fresh_spec s sh fl) as (E1 & D1 & A1 & L1 & N1);
        destruct (alloc_fresh s sh fl) as [s1 aid] end.
      cbn [fst snd] in *. subst aid.
      destruct (from_array_built _ _ _ _ _ _ _ H L1) as (E2 & d & D2 & G2 & _).
      split; [eapply ext_trans; eassumption|]. exists d. rewrite <- D1. split; assumption.
  Qed.

  (* ---------------------------------------------------------------- clause 1: coherence *)
  Lemma change_Inv s s' o : Inv s -> change s s' o -> Inv s'.
  Proof.
    intros HI [E D]. destruct (returns_new o).
    - destruct D as (d & D & G). apply (Inv_append s s' d HI E D G).
    - destruct D as [->|(t & d & _ & _ & D & G)]; [exact HI|]. apply (Inv_replace s s' t d HI E D G).
  Qed.

  Lemma exec_Inv s o : Inv s -> Inv (exec FR divf s o).
  Proof.
    intros HI. unfold exec. destruct (step FR divf s o) as [s'|e] eqn:H; [|exact HI].
    apply (change_Inv s s' o HI). apply (step_change s o s' H HI).
  Qed.

  Lemma run_Inv ops : forall s, Inv s -> Inv (run FR divf s ops).
  Proof.
    unfold run. induction ops as [|o ops IH]; intros s HI; cbn [fold_left]; [exact HI|].
    apply IH, exec_Inv, HI.
  Qed.

  Lemma Inv_empty : Inv empty_state.
  Proof. constructor. Qed.

  Lemma coherent_reachable ops : Inv (run FR divf empty_state ops).
  Proof. apply run_Inv, Inv_empty. Qed.

  (* the invariant, spelled out for one live dataset *)
  Lemma Inv_unfold s t :
    Inv s -> t < length (dss s) ->
    let o := observe s t in
    length (o_origin o) = length (o_shape o) /\ length (o_sampling o) = length (o_shape o) /\
    length (o_units o) = length (o_shape o) /\ cls_ok (o_cls o) (length (o_shape o)).
  Proof. intros HI Ht. destruct (Inv_get _ _ HI Ht) as [_ H]. exact H. Qed.

  (* ---------------------------------------------------------------- clause 3: frame *)
  Lemma observe_ext s s' t :
    ext s s' -> Inv s -> t < length (dss s) -> get_ds s' t = get_ds s t -> observe s' t = observe s t.
  Proof.
    intros E HI Ht Hd. destruct (Inv_get _ _ HI Ht) as [(Wa & Wo & Ws & Wu) _].
    unfold observe. rewrite Hd.
    rewrite (ext_get_arr _ _ _ E) by exact Wa. rewrite (ext_get_num _ _ _ E) by exact Wo.
    rewrite (ext_get_num _ _ _ E) by exact Ws. rewrite (ext_get_str _ _ _ E) by exact Wu. reflexivity.
  Qed.

  (* no operation overwrites a cell: arrays (buffers), calibration arrays and unit lists that
     exist keep their contents *)
  Lemma no_buffer_writes s o s' :
    step FR divf s o = Ok s' -> Inv s ->
    (forall i, i < length (arrs s) -> get_arr s' i = get_arr s i) /\
    (forall i, i < length (nums s) -> get_num s' i = get_num s i) /\
    (forall i, i < length (strs s) -> get_str s' i = get_str s i).
  Proof.
    intros H HI. destruct (step_change _ _ _ H HI) as [E _].
    repeat split; intros i Hi; [apply ext_get_arr|apply ext_get_num|apply ext_get_str]; assumption.
  Qed.

  (* an operation that returns a new dataset leaves EVERY live dataset as it was: same record
     (so the same objects) and the same observables, bit for bit *)
  Lemma source_untouched s o s' :
    step FR divf s o = Ok s' -> Inv s -> returns_new o = true ->
    length (dss s') = S (length (dss s)) /\
    forall t, t < length (dss s) -> get_ds s' t = get_ds s t /\ observe s' t = observe s t.
  Proof.
    intros H HI Hr. destruct (step_change _ _ _ H HI) as [E D]. rewrite Hr in D.
    destruct D as (d & D & _). split; [rewrite D, app_length; cbn [length]; lia|].
    intros t Ht. pose proof (get_ds_app_old s s' d t D Ht) as Hd.
    split; [exact Hd|]. apply observe_ext; assumption.
  Qed.

  (* an in-place operation (or a setter) changes its target only *)
  Lemma others_untouched s o s' t :
    step FR divf s o = Ok s' -> Inv s -> returns_new o = false -> op_target o = Some t ->
    length (dss s') = length (dss s) /\
    forall u, u < length (dss s) -> u <> t -> get_ds s' u = get_ds s u /\ observe s' u = observe s u.
  Proof.
    intros H HI Hr Ho. destruct (step_change _ _ _ H HI) as [E D]. rewrite Hr in D.
    destruct D as [->|(t' & d & Ho' & Ht' & D & _)].
    - split; [reflexivity|]. intros; split; reflexivity.
    - rewrite Ho in Ho'. injection Ho' as <-.
      split; [rewrite D; apply set_nth_length|].
      intros u Hu Hne. assert (Hd : get_ds s' u = get_ds s u) by (apply (get_ds_dss_other s s' t u d D); congruence).
      split; [exact Hd|]. apply observe_ext; assumption.
  Qed.

  (* an exception changes nothing *)
  Lemma error_no_change s o e : step FR divf s o = Err e -> exec FR divf s o = s.
  Proof. intros H. unfold exec. rewrite H. reflexivity. Qed.

  (* ---------------------------------------------------------------- clause 4: in place = copy *)
  Definition agree (s : state) (t : nat) (r1 r2 : res state) : Prop :=
    match r1, r2 with
    | Ok s1, Ok s2 => observe s1 t = observe s2 (length (dss s))
    | Err e1, Err e2 => e1 = e2
    | _, _ => False
    end.

  Lemma finish_agree s t osh ofl meta :
    Inv s -> t < length (dss s) ->
    length osh = ndim (get_arr s (d_arr (get_ds s t))) -> meta_ok (length osh) meta ->
    agree s t (finish s t osh ofl meta true) (finish s t osh ofl meta false).
  Proof.
    intros HI Ht Hn Hm. destruct (install_agree s t osh ofl meta HI Ht Hn Hm) as (s2 & H2 & O).
    unfold finish. rewrite H2. exact O.
  Qed.

  Lemma inplace_eq_copy s o t :
    Inv s -> has_flag o = true -> op_target o = Some t -> t < length (dss s) ->
    agree s t (step FR divf s (with_flag o true)) (step FR divf s (with_flag o false)).
  Proof.
    intros HI Hf Ho Ht.
    assert (HL : forall b, live s (with_flag o b) = true).
    { intros b. unfold live. destruct o; try discriminate; cbn [with_flag op_target op_src2] in *;
        injection Ho as ->; apply andb_true_intro; (split; [apply Nat.ltb_lt; exact Ht|reflexivity]). }
    unfold step. rewrite !HL. cbn [negb].
    destruct o as [c sh data og sa u|c src|t0|t0 v|t0 v|t0 v|t0 sh data|t0 src|t0|t0 p ip|t0 w ax ip
                  |t0 f ax mean ip|t0 spec ax ip|t0 idx|t0 r|t0 dt]; try discriminate;
      cbn [op_target] in Ho; injection Ho as ->; cbn [with_flag].
    - (* pad *)
      rewrite !pad_eq. cbn zeta.
      destruct (pad_widths _ p) as [w|e] eqn:Hw; [|reflexivity]. cbn [bind].
      pose proof (pad_widths_len _ _ _ Hw) as Lw.
      apply finish_agree; try assumption; [|exact I].
      apply pad_data_len. exact Lw.
    - (* crop *)
      pose proof (crop_spec s t w ax true HI Ht) as H1.
      pose proof (crop_spec s t w ax false HI Ht) as H2.
      destruct (do sl <- crop_index _ w ax; crop_obs s t sl) as [ob|e].
      + destruct H1 as (s1 & -> & _ & _ & O1). destruct H2 as (s2 & -> & _ & _ & O2).
        cbn [agree]. rewrite O1, O2. reflexivity.
      + rewrite H1, H2. reflexivity.
    - (* bin *)
      rewrite !bin_eq.
      destruct (bin_prep s t f ax mean) as [[[osh ofl] [no ns]]|e] eqn:Hp; [|reflexivity]. cbn [bind fst snd].
      destruct (bin_prep_ok _ _ _ _ _ _ _ _ _ Hp HI Ht) as [Ln Lm].
      apply finish_agree; assumption.
    - (* fourier_resample *)
      rewrite !fourier_eq.
      destruct (fourier_prep s t spec ax) as [[[osh ofl] [no ns]]|e] eqn:Hp; [|reflexivity]. cbn [bind fst snd].
      destruct (fourier_prep_ok _ _ _ _ _ _ _ _ Hp HI Ht) as [Ln Lm].
      apply finish_agree; assumption.
  Qed.
End WithKernels.
