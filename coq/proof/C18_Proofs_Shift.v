(* C18 — shift_origin_to with an integer-valued (origin - coordinate): the periodic grid
   arithmetic followed by bilinear grid_sample is exactly np.roll of the pattern. *)
From QV.lib Require Import Prelude Chunks C18_QTensor.
From QV.model Require Import C18_Model.
From QV.proof Require Import C18_Proofs.
From Coq Require Import QArith Qround Lqa.
Local Close Scope Q_scope.

Lemma Forall2_map_in {A B : Type} (R : B -> B -> Prop) (f g : A -> B) (l : list A) :
  (forall x, In x l -> R (f x) (g x)) -> Forall2 R (map f l) (map g l).
Proof.
  induction l as [|x l IH]; intros Hfg; cbn [map]; constructor.
  - apply Hfg. left. reflexivity.
  - apply IH. intros y Hy. apply Hfg. right. exact Hy.
Qed.

(* ------------------------------------------------------------------ the float `%` on integers *)
Lemma qmod_int (t : Z) (n : nat) :
  1 <= n -> (qmod (inject_Z t) (Qn n) == inject_Z (t mod Z.of_nat n))%Q.
Proof.
  intros Hn. unfold qmod, Qn. rewrite <- Zdiv_Qdiv.
  rewrite Z.mod_eq by lia.
  unfold Z.sub. rewrite inject_Z_plus, inject_Z_opp, inject_Z_mult. ring.
Qed.

(* normalisation to [-1, 1] followed by grid_sample's un-normalisation is the identity *)
Lemma unnormalise (s : Q) (n : nat) :
  2 <= n -> (((2 * s / (Qn n - 1) - 1) + 1) / 2 * (Qn n - 1) == s)%Q.
Proof.
  intros Hn. field. pose proof (nm1_pos n Hn). lra.
Qed.

(* ------------------------------------------------------------------ bilinear at a pixel centre *)
Lemma bilinear_int (H W : nat) (I : matrix) (gy gx : Q) (m k : Z) :
  (gy == inject_Z m)%Q -> (gx == inject_Z k)%Q -> (bilinear H W I gy gx == getz H W I m k)%Q.
Proof.
  intros Hy Hx. unfold bilinear.
  assert (Fy : Qfloor gy = m) by (rewrite (Qfloor_comp _ _ Hy); apply Qfloor_Z).
  assert (Fx : Qfloor gx = k) by (rewrite (Qfloor_comp _ _ Hx); apply Qfloor_Z).
  rewrite Fy, Fx.
  assert (Wy : (gy - inject_Z m == 0)%Q) by (rewrite Hy; ring).
  assert (Wx : (gx - inject_Z k == 0)%Q) by (rewrite Hx; ring).
  rewrite Wy, Wx. ring.
Qed.

Lemma getz_in_range (H W : nat) (I : matrix) (m k : Z) :
  (0 <= m < Z.of_nat H)%Z -> (0 <= k < Z.of_nat W)%Z ->
  getz H W I m k = get I (Z.to_nat m) (Z.to_nat k).
Proof.
  intros Hm Hk. unfold getz.
  assert (E : ((0 <=? m) && (m <? Z.of_nat H) && (0 <=? k) && (k <? Z.of_nat W))%Z%bool = true) by lia.
  rewrite E. reflexivity.
Qed.

(* ------------------------------------------------------------------ one output pixel *)
Lemma shift_pixel (H W : nat) (I : matrix) (o c : Q) (s : Z) (n i : nat) :
  2 <= n -> (o - c == inject_Z s)%Q ->
  (((2 * qmod (Qn i + (o - c)) (Qn n) / (Qn n - 1) - 1) + 1) / 2 * (Qn n - 1)
   == inject_Z ((Z.of_nat i + s) mod Z.of_nat n))%Q.
Proof.
  intros Hn Hs. rewrite unnormalise by exact Hn.
  assert (E : (Qn i + (o - c) == inject_Z (Z.of_nat i + s))%Q).
  { rewrite Hs. unfold Qn. rewrite inject_Z_plus. reflexivity. }
  assert (Em : (qmod (Qn i + (o - c)) (Qn n) == qmod (inject_Z (Z.of_nat i + s)) (Qn n))%Q).
  { unfold qmod. rewrite (Qfloor_comp (_ / Qn n) (inject_Z (Z.of_nat i + s) / Qn n)) by (rewrite E; reflexivity).
    rewrite E. reflexivity. }
  rewrite Em. apply qmod_int. lia.
Qed.

Lemma shift_pattern_index (H W : nat) (oy ox cy cx : Q) (sy sx : Z) (I : matrix) :
  2 <= H -> 2 <= W ->
  (oy - cy == inject_Z sy)%Q -> (ox - cx == inject_Z sx)%Q ->
  meq (shift_pattern H W oy ox cy cx I) (shift_index H W sy sx I).
Proof.
  intros HH HW Hsy Hsx. unfold meq, shift_pattern, shift_index.
  apply Forall2_map_in. intros y Hy. apply in_seq in Hy.
  apply Forall2_map_in. intros x Hx. apply in_seq in Hx.
  cbv zeta.
  rewrite (bilinear_int H W I _ _ ((Z.of_nat y + sy) mod Z.of_nat H) ((Z.of_nat x + sx) mod Z.of_nat W)
             (shift_pixel H W I oy cy sy H y HH Hsy) (shift_pixel H W I ox cx sx W x HW Hsx)).
  rewrite getz_in_range by (apply Z.mod_pos_bound; lia). reflexivity.
Qed.

(* ------------------------------------------------------------------ index arithmetic = roll *)
Lemma shift_index_roll (H W : nat) (sy sx : Z) (I : matrix) :
  1 <= H -> wf_mat H W I -> shift_index H W sy sx I = roll2 (- sy) (- sx) I.
Proof.
  intros HH Hwf. pose proof Hwf as [HL HR]. unfold shift_index, roll2, get.
  rewrite <- (roll_index [] sy I). rewrite HL, map_map.
  apply map_ext_in. intros y Hy. apply in_seq in Hy.
  set (row := nth (Z.to_nat ((Z.of_nat y + sy) mod Z.of_nat H)) I []).
  assert (Hrow : length row = W).
  { apply (wf_mat_row H W I _ Hwf).
    pose proof (Z.mod_pos_bound (Z.of_nat y + sy) (Z.of_nat H)). lia. }
  rewrite <- (roll_index 0%Q sx row). rewrite Hrow. reflexivity.
Qed.

Lemma integer_shift_is_roll (H W : nat) (oy ox cy cx : Q) (sy sx : Z) (I : matrix) :
  2 <= H -> 2 <= W -> wf_mat H W I ->
  (oy - cy == inject_Z sy)%Q -> (ox - cx == inject_Z sx)%Q ->
  meq (shift_pattern H W oy ox cy cx I) (roll2 (- sy) (- sx) I).
Proof.
  intros HH HW Hwf Hsy Hsx. rewrite <- (shift_index_roll H W sy sx I) by (try lia; exact Hwf).
  apply shift_pattern_index; assumption.
Qed.

(* the pixel under the fitted origin lands on the target coordinate *)
Lemma shift_index_get (H W : nat) (sy sx : Z) (I : matrix) (y x : nat) :
  y < H -> x < W ->
  get (shift_index H W sy sx I) y x
  = get I (Z.to_nat ((Z.of_nat y + sy) mod Z.of_nat H)) (Z.to_nat ((Z.of_nat x + sx) mod Z.of_nat W)).
Proof.
  intros Hy Hx. unfold shift_index. unfold get at 1.
  rewrite nth_map_seq by exact Hy. rewrite nth_map_seq by exact Hx. reflexivity.
Qed.
