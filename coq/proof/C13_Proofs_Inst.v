(* C13 — non-vacuity: the hypotheses of proof/C13_Proofs_DFT.v are satisfiable, and the
   end-to-end theorems apply to a concrete 4 x 4 image pair.
   Setting: Gaussian rationals (lib/DFT_Inst.v), N1 = N2 = 4, w k = (-i)^k, re = real part,
   E q = (-i)^(-4q) = exp(2 pi i q) on the quarter-integers (1 elsewhere: the hypotheses only
   constrain E there). *)
From Coq Require Import ZArith Lia Ring QArith Qcanon Qround.
From QV.lib Require Import Prelude FinSum DFT DFT2 DFT_Inst.
From QV.model Require Import C13_Model.
From QV.proof Require Import C13_Proofs C13_Proofs_Est C13_Proofs_Swap C13_Proofs_DFT.
Local Close Scope Q_scope.
Local Close Scope Qc_scope.

Definition reC (a : C) : Q := this (fst a).

Lemma reC_conj z : (reC (cconj z) == reC z)%Q.
Proof. reflexivity. Qed.

(* ---------------------------------------------------------------- the character *)
Definition isint (q : Q) : bool := Qeq_bool (inject_Z (Qfloor q)) q.

Lemma isint_iff x : isint x = true <-> exists z : Z, (x == inject_Z z)%Q.
Proof.
  unfold isint. split.
  - intros H. apply Qeq_bool_iff in H. exists (Qfloor x). symmetry. exact H.
  - intros [z Hz]. apply Qeq_bool_iff.
    assert (F : Qfloor x = z) by (rewrite Hz; apply Qfloor_Z).
    rewrite F. symmetry. exact Hz.
Qed.

Definition E4 (q : Q) : C := if isint (q * 4) then w4 (- Qfloor (q * 4)) else c1.

Lemma E4_ext p q : (p == q)%Q -> E4 p = E4 q.
Proof.
  intros H. unfold E4, isint.
  assert (F : Qfloor (p * 4) = Qfloor (q * 4)) by (rewrite H; reflexivity).
  assert (B : Qeq_bool (inject_Z (Qfloor (p * 4))) (p * 4) = Qeq_bool (inject_Z (Qfloor (q * 4))) (q * 4)).
  { rewrite F. apply Qeqb_comp; [reflexivity | rewrite H; reflexivity]. }
  rewrite B, F. reflexivity.
Qed.

Lemma E4_at x z : (x * 4 == inject_Z z)%Q -> E4 x = w4 (- z).
Proof.
  intros H. unfold E4.
  assert (I : isint (x * 4) = true) by (apply isint_iff; exists z; exact H).
  assert (F : Qfloor (x * 4) = z) by (rewrite H; apply Qfloor_Z).
  rewrite I, F. reflexivity.
Qed.

Lemma E4_w z : E4 (inject_Z z / qN 4) = w4 (- z).
Proof. apply E4_at. unfold qN. change (inject_Z (Z.of_nat 4)) with 4%Q. field. Qed.

Lemma E4_conj q : cconj (E4 q) = E4 (- q).
Proof.
  destruct (isint (q * 4)) eqn:I.
  - destruct (proj1 (isint_iff _) I) as [z Hz].
    rewrite (E4_at q z Hz), w4_conj.
    symmetry. apply E4_at. rewrite inject_Z_opp, <- Hz. ring.
  - unfold E4 at 1. rewrite I.
    assert (I' : isint (- q * 4) = false).
    { destruct (isint (- q * 4)) eqn:J; [|reflexivity].
      destruct (proj1 (isint_iff _) J) as [g Hg].
      assert (T : isint (q * 4) = true).
      { apply isint_iff. exists (- g)%Z. rewrite inject_Z_opp, <- Hg. ring. }
      congruence. }
    unfold E4. rewrite I'. reflexivity.
Qed.

(* every hypothesis of the section C13_DFT, bundled *)
Definition setting_ok (R : Type) (rO rI : R) (radd rmul rsub : R -> R -> R) (ropp : R -> R)
           (conj : R -> R) (N1 : nat) (w1 : Z -> R) (Ninv1 : R) (N2 : nat) (w2 : Z -> R) (Ninv2 : R)
           (re : R -> Q) (E : Q -> R) : Prop :=
  ring_theory rO rI radd rmul rsub ropp eq /\ conj_ok radd rmul conj /\
  root_ok rO rI radd rmul conj N1 w1 Ninv1 /\ root_ok rO rI radd rmul conj N2 w2 Ninv2 /\
  (forall z, (re (conj z) == re z)%Q) /\
  (forall p q : Q, (p == q)%Q -> E p = E q) /\ (forall q : Q, conj (E q) = E (- q)%Q) /\
  (forall z : Z, E (inject_Z z / qN N1)%Q = w1 (- z)%Z) /\
  (forall z : Z, E (inject_Z z / qN N2)%Q = w2 (- z)%Z).

Lemma setting_instance :
  setting_ok C c0 c1 cadd cmul csub copp cconj 4 w4 quarter 4 w4 quarter reC E4.
Proof.
  unfold setting_ok.
  split; [exact C_ring|]. split; [exact C_conj_ok|]. split; [exact C_root_ok|]. split; [exact C_root_ok|].
  split; [exact reC_conj|]. split; [exact E4_ext|]. split; [exact E4_conj|]. split; exact E4_w.
Qed.

(* ---------------------------------------------------------------- a concrete image pair *)
Definition img4 (l : list Z) (i j : nat) : C := (Q2Qc (inject_Z (nth (i * 4 + j) l 0%Z)), Q2Qc 0).

Definition ref4 : nat -> nat -> C :=
  img4 [3; 1; 0; 1;   1; 0; 0; 0;   0; 0; 0; 0;   1; 0; 0; 0]%Z.
(* the second image: the first one rolled by (1, 2) *)
Definition im4 : nat -> nat -> C := roll2 4 4 1 2 ref4.

Notation acorrQ4 := (acorrQ C c0 cadd cmul cconj 4 4 reC).
Notation ccQ4 := (ccQ C c0 cadd cmul cconj 4 w4 quarter 4 w4 quarter reC).

Ltac grid16 k l Hne tac :=
  do 4 (destruct k as [|k];
        [ do 4 (destruct l as [|l]; [ first [ exfalso; apply Hne; reflexivity | tac ] | ]); lia | ]);
  lia.

Lemma ref4_peak : uniq_max 4 4 (acorrQ4 ref4) 0 0.
Proof.
  split; [lia|]. split; [lia|]. intros k l Hk Hl Hne.
  grid16 k l Hne ltac:(vm_compute; reflexivity).
Qed.

Lemma im4_is_roll : same_on_grid C 4 4 im4 (roll2 4 4 1 2 ref4).
Proof. intros n1 n2 _ _. reflexivity. Qed.

(* an upsampled window with its unique maximum at the centre sample c *)
Definition peak_win (c : nat) (_ _ : Q) (a b : nat) : Q :=
  if ((a =? c) && (b =? c))%bool then 1%Q else 0%Q.

Lemma peak_win_centred W c x y : 1 <= c -> c + 1 < W -> win_centred W c (peak_win c x y).
Proof.
  intros H1 H2. unfold win_centred, uniq_max, peak_win. repeat split; try lia.
  - intros k l Hk Hl Hne. rewrite !Nat.eqb_refl. cbn [andb].
    destruct (Nat.eqb_spec k c), (Nat.eqb_spec l c); cbn [andb]; try reflexivity.
    subst. exfalso. apply Hne. reflexivity.
  - destruct (Nat.eqb_spec (c - 1) c), (Nat.eqb_spec (c + 1) c); try lia. reflexivity.
  - rewrite Nat.eqb_refl. cbn [andb].
    destruct (Nat.eqb_spec (c - 1) c), (Nat.eqb_spec (c + 1) c); try lia. reflexivity.
Qed.

Lemma peak_win_uniq W c x y : c < W -> uniq_max W W (peak_win c x y) c c.
Proof.
  intros H. unfold uniq_max, peak_win. repeat split; try lia.
  intros k l Hk Hl Hne. rewrite !Nat.eqb_refl. cbn [andb].
  destruct (Nat.eqb_spec k c), (Nat.eqb_spec l c); cbn [andb]; try reflexivity.
  subst. exfalso. apply Hne. reflexivity.
Qed.

Lemma peak_win_swap M N up : windows_swap M N up (peak_win (du up)) (peak_win (du up)).
Proof.
  intros x y x' y' _ _ a b Ha Hb. unfold peak_win, np_win in *.
  destruct (Nat.eqb_spec a (du up)), (Nat.eqb_spec b (du up)),
    (Nat.eqb_spec (2 * du up + 1 - 1 - a) (du up)), (Nat.eqb_spec (2 * du up + 1 - 1 - b) (du up));
    cbn [andb]; try reflexivity; lia.
Qed.

(* the NumPy estimator on (ref4, im4), upsample_factor 2: the theorem applies ... *)
Lemma inst_integer_numpy :
  exists a b : Q,
    np_shift 4 4 None 2 (ccQ4 ref4 im4) (peak_win (du 2)) = Some (a, b) /\
    exists t1 t2 : Z,
      (a == inject_Z t1)%Q /\ (b == inject_Z t2)%Q /\
      (- Z.of_nat 4 <= 2 * t1 < Z.of_nat 4)%Z /\ (- Z.of_nat 4 <= 2 * t2 < Z.of_nat 4)%Z /\
      ((t1 + 1) mod Z.of_nat 4 = 0)%Z /\ ((t2 + 2) mod Z.of_nat 4 = 0)%Z /\
      forall n1 n2, n1 < 4 -> n2 < 4 ->
        fmul2 c0 cadd cmul 4 w4 quarter 4 w4 quarter (ramp C cmul 4 w4 4 w4 t1 t2) im4 n1 n2 = ref4 n1 n2.
Proof.
  destruct setting_instance as (Hr & Hc & H1 & H2 & Hre & _).
  apply (registration_integer_numpy C c0 c1 cadd cmul csub copp Hr cconj Hc 4 w4 quarter 4 w4 quarter H1 H2
           reC Hre ref4 im4 1 2 None 2 (peak_win (du 2))); try lia.
  - exact im4_is_roll.
  - exact ref4_peak.
  - exact I.
  - intros _ x y _ _. apply peak_win_centred; vm_compute; lia.
Qed.

(* ... and what it returns is (-1, -2): -2 is the representative of the half-size shift *)
Lemma inst_integer_numpy_value :
  match np_shift 4 4 None 2 (ccQ4 ref4 im4) (peak_win (du 2)) with
  | Some (a, b) => Qeq_bool a (-1) && Qeq_bool b (-2)
  | None => false
  end = true.
Proof. vm_compute. reflexivity. Qed.

Lemma inst_integer_torch :
  exists a b : Q,
    torch_shift 4 4 4 (ccQ4 ref4 im4) (peak_win (t_gs 4)) = Some (a, b) /\
    exists t1 t2 : Z,
      (a == inject_Z t1)%Q /\ (b == inject_Z t2)%Q /\
      (- Z.of_nat 4 <= 2 * t1 < Z.of_nat 4)%Z /\ (- Z.of_nat 4 <= 2 * t2 < Z.of_nat 4)%Z /\
      ((t1 + 1) mod Z.of_nat 4 = 0)%Z /\ ((t2 + 2) mod Z.of_nat 4 = 0)%Z /\
      forall n1 n2, n1 < 4 -> n2 < 4 ->
        fmul2 c0 cadd cmul 4 w4 quarter 4 w4 quarter (ramp C cmul 4 w4 4 w4 t1 t2) im4 n1 n2 = ref4 n1 n2.
Proof.
  destruct setting_instance as (Hr & Hc & H1 & H2 & Hre & _).
  apply (registration_integer_torch C c0 c1 cadd cmul csub copp Hr cconj Hc 4 w4 quarter 4 w4 quarter H1 H2
           reC Hre ref4 im4 1 2 4 (peak_win (t_gs 4))); try lia.
  - exact im4_is_roll.
  - exact ref4_peak.
  - intros _ x y _ _. apply peak_win_centred; vm_compute; lia.
Qed.

Lemma inst_identical_numpy :
  exists a b : Q,
    np_shift 4 4 (Some 1%Q) 3 (ccQ4 ref4 ref4) (peak_win (du 3)) = Some (a, b) /\ (a == 0)%Q /\ (b == 0)%Q.
Proof.
  destruct setting_instance as (Hr & Hc & H1 & H2 & Hre & _).
  apply (registration_identical_numpy C c0 c1 cadd cmul csub copp Hr cconj Hc 4 w4 quarter 4 w4 quarter H1 H2
           reC Hre ref4 ref4 (Some 1%Q) 3 (peak_win (du 3))); try lia.
  - intros n1 n2 _ _. reflexivity.
  - exact ref4_peak.
  - split; vm_compute; reflexivity.
  - intros _ x y _ _. apply peak_win_centred; vm_compute; lia.
Qed.

Lemma inst_identical_torch :
  exists a b : Q,
    torch_shift 4 4 3 (ccQ4 ref4 ref4) (peak_win (t_gs 3)) = Some (a, b) /\ (a == 0)%Q /\ (b == 0)%Q.
Proof.
  destruct setting_instance as (Hr & Hc & H1 & H2 & Hre & _).
  apply (registration_identical_torch C c0 c1 cadd cmul csub copp Hr cconj Hc 4 w4 quarter 4 w4 quarter H1 H2
           reC Hre ref4 ref4 3 (peak_win (t_gs 3))); try lia.
  - intros n1 n2 _ _. reflexivity.
  - exact ref4_peak.
  - intros _ x y _ _. apply peak_win_centred; vm_compute; lia.
Qed.

Lemma cc4_peak : uniq_max 4 4 (ccQ4 ref4 im4) 3 2.
Proof.
  split; [lia|]. split; [lia|]. intros k l Hk Hl Hne.
  grid16 k l Hne ltac:(vm_compute; reflexivity).
Qed.

Lemma inst_swap_numpy :
  exists a b a' b' : Q,
    np_shift 4 4 None 2 (ccQ4 ref4 im4) (peak_win (du 2)) = Some (a, b) /\
    np_shift 4 4 None 2 (ccQ4 im4 ref4) (peak_win (du 2)) = Some (a', b') /\
    neg_mod 4 a a' /\ neg_mod 4 b b'.
Proof.
  destruct setting_instance as (Hr & Hc & H1 & H2 & Hre & _).
  apply (registration_swap_numpy C c0 c1 cadd cmul csub copp Hr cconj Hc 4 w4 quarter 4 w4 quarter H1 H2
           reC Hre ref4 im4 2 (peak_win (du 2)) (peak_win (du 2)) 3 2); try lia.
  - exact cc4_peak.
  - intros _. split; [apply peak_win_swap|].
    intros x y. exists (du 2), (du 2). apply peak_win_uniq. vm_compute. lia.
Qed.

(* the swapped call returns (+1, -2): the row component is negated, the column component sits
   on the boundary -n/2 and is reproduced *)
Lemma inst_swap_numpy_value :
  match np_shift 4 4 None 2 (ccQ4 im4 ref4) (peak_win (du 2)) with
  | Some (a, b) => Qeq_bool a 1 && Qeq_bool b (-2)
  | None => false
  end = true.
Proof. vm_compute. reflexivity. Qed.

Lemma inst_swap_torch :
  exists a b a' b' : Q,
    torch_shift 4 4 2 (ccQ4 ref4 im4) (peak_win 0) = Some (a, b) /\
    torch_shift 4 4 2 (ccQ4 im4 ref4) (peak_win 0) = Some (a', b') /\
    neg_mod 4 a a' /\ neg_mod 4 b b'.
Proof.
  destruct setting_instance as (Hr & Hc & H1 & H2 & Hre & _).
  apply (registration_swap_torch C c0 c1 cadd cmul csub copp Hr cconj Hc 4 w4 quarter 4 w4 quarter H1 H2
           reC Hre ref4 im4 2 (peak_win 0) (peak_win 0) 3 2); try lia.
  exact cc4_peak.
Qed.

(* ---------------------------------------------------------------- Q-level examples *)
(* a 5 x 4 correlation array with its peak at (4, 1) (i.e. shift (-1, +1)), symmetric neighbours *)
Definition cc54 : nat -> nat -> Q :=
  arr 4 1 [0; 1; 0; 0;   0; 1; 0; 0;   0; 0; 0; 0;   0; 1; 0; 0;   2; 9; 2; 1]%Z.

Lemma cc54_peak : uniq_max 5 4 cc54 4 1.
Proof.
  split; [lia|]. split; [lia|]. intros k l Hk Hl Hne.
  do 5 (destruct k as [|k];
        [ do 4 (destruct l as [|l]; [ first [ exfalso; apply Hne; reflexivity | vm_compute; reflexivity ] | ]); lia | ]);
  lia.
Qed.

(* the defect repaired by fixes/C13-max-shift-parabola.diff, on the model of the shipped code:
   max_shift = 3/2 admits the peak at offset (-1, 1) (1 + 1 < 9/4) but masks its neighbour at
   (-2, 1); the shipped stage 1 then returns a biased row estimate, the repaired one the peak *)
Lemma shipped_mask_biased :
  match np_stage1_shipped 5 4 (Some (3 # 2)%Q) cc54, np_stage1 5 4 (Some (3 # 2)%Q) cc54 with
  | Some (_, (x, _)), Some (_, (x', _)) => negb (Qeq_bool x 4) && Qeq_bool x' 4
  | _, _ => false
  end = true.
Proof. vm_compute. reflexivity. Qed.
