(* C04 — the streaming skeleton: closed forms and batch invariance. *)
From Coq Require Import ZArith List Bool Arith Lia Ring Permutation.
From QV.lib Require Import Prelude Chunks FinSum DFT DFT2.
From QV.model Require Import C04_Model.
From QV.proof Require Import C04_Proofs_Base.
Import ListNotations.
Unset Implicit Arguments.

Section Skel.
  Variable R : Type.
  Variables (rO rI : R) (radd rmul rsub : R -> R -> R) (ropp : R -> R).
  Variable Rth : ring_theory rO rI radd rmul rsub ropp (@eq R).
  Add Ring RringC04 : Rth.
  Variable conj : R -> R.
  Hypothesis Cok : conj_ok radd rmul conj.
  Variables (half : R) (rinv : R -> R).
  Variables (N1 : nat) (w1 : Z -> R) (Ninv1 : R) (N2 : nat) (w2 : Z -> R) (Ninv2 : R).
  Hypothesis Rok1 : root_ok rO rI radd rmul conj N1 w1 Ninv1.
  Hypothesis Rok2 : root_ok rO rI radd rmul conj N2 w2 Ninv2.
  Variable n : nat.
  Variables (contrib pw : nat -> img R) (wt : nat -> R) (env : img R) (normf : img R -> img R).
  Variable garbage : img R.

  Infix "+" := radd.  Infix "*" := rmul.
  Notation suml := (suml rO radd).
  Notation W := (bf_weights rO radd n wt).
  Notation ifft := (ifft2 rO radd rmul N1 N2 w1 w2 Ninv1 Ninv2).
  Notation re := (re_part radd rmul conj half).
  Notation rec1 := (reconstruct_single rO radd rmul conj half rinv N1 N2 w1 w2 Ninv1 Ninv2 n contrib wt env garbage).
  Notation rec2 := (reconstruct_two rO radd rmul conj half rinv N1 N2 w1 w2 Ninv1 Ninv2 n contrib pw wt env normf garbage).

  Definition partition_of (batches : list (list nat)) : Prop := Permutation (concat batches) (seq 0 n).

  (* the inverse transform only looks at its argument on the grid *)
  Lemma ifft_ext (X Y : img R) r1 r2 : (r1 < N1)%nat -> (r2 < N2)%nat ->
    (forall k1 k2, (k1 < N1)%nat -> (k2 < N2)%nat -> X k1 k2 = Y k1 k2) -> ifft X r1 r2 = ifft Y r1 r2.
  Proof.
    intros H1 H2 H. unfold ifft2.
    rewrite !(idft2_m_eq Rth Cok Rok1 Rok2) by assumption.
    apply (idft2_ext Rth Cok Rok1 Rok2). exact H.
  Qed.

  Lemma ifft_idft2 (X : img R) r1 r2 : (r1 < N1)%nat -> (r2 < N2)%nat ->
    ifft X r1 r2 = idft2 rO radd rmul N1 w1 Ninv1 N2 w2 Ninv2 X r1 r2.
  Proof. intros H1 H2. unfold ifft2. apply (idft2_m_eq Rth Cok Rok1 Rok2); assumption. Qed.

  Lemma nth_finish arr j d : (j < length arr)%nat ->
    nth j (finish rO radd rmul conj half rinv n wt arr) d
    = fun r1 r2 => re (nth j arr garbage r1 r2) * rinv W.
  Proof.
    intros Hj. unfold finish.
    rewrite (nth_indep _ d ((fun a : img R => fun r1 r2 => re (a r1 r2) * rinv W) garbage))
      by (rewrite map_length; exact Hj).
    rewrite (map_nth (fun a : img R => fun r1 r2 => re (a r1 r2) * rinv W)). reflexivity.
  Qed.

  (* ---------------------------------------------------------------- single-pass kernels *)
  Definition spec_single (j : nat) : img R :=
    fun r1 r2 => re (ifft (imul rmul (contrib j) env) r1 r2) * rinv W.

  Lemma single_length batches : length (rec1 batches) = n.
  Proof.
    unfold reconstruct_single, finish. rewrite map_length.
    rewrite fold_put_length; [apply repeat_length|].
    intros a b. unfold pass_single. apply put_length.
  Qed.

  Lemma single_closed batches j d : partition_of batches -> (j < n)%nat ->
    nth j (rec1 batches) d = spec_single j.
  Proof.
    intros HP Hj. unfold reconstruct_single.
    rewrite nth_finish.
    2:{ rewrite fold_put_length; [rewrite repeat_length; exact Hj|].
        intros a b. unfold pass_single. apply put_length. }
    unfold pass_single.
    rewrite (nth_fold_put (fun j => ifft (imul rmul (contrib j) env))) by (rewrite repeat_length; exact Hj).
    rewrite (perm_seq_memb _ n j HP Hj). reflexivity.
  Qed.

  Lemma single_as_map batches : partition_of batches -> rec1 batches = map spec_single (seq 0 n).
  Proof.
    intros HP. apply nth_ext with (d := garbage) (d' := garbage).
    - rewrite single_length, map_length, seq_length. reflexivity.
    - intros j Hj. rewrite single_length in Hj. rewrite single_closed by assumption.
      rewrite (nth_indep _ garbage (spec_single 0)) by (rewrite map_length, seq_length; exact Hj).
      rewrite (map_nth spec_single). rewrite seq_nth by exact Hj. reflexivity.
  Qed.

  Theorem batch_invariant_single_any batches batches' :
    partition_of batches -> partition_of batches' -> rec1 batches = rec1 batches'.
  Proof. intros H H'. rewrite !single_as_map by assumption. reflexivity. Qed.

  Theorem batch_invariant_single_lemma b : (1 <= b)%nat ->
    rec1 (batches_of n b) = rec1 [seq 0 n].
  Proof.
    intros Hb. apply batch_invariant_single_any; [apply chunks_partition; exact Hb | apply single_batch_partition].
  Qed.

  Lemma corrected_bf_single batches r1 r2 : partition_of batches ->
    corrected_bf rO radd (rec1 batches) r1 r2
    = suml (map (fun j => re (ifft (imul rmul (contrib j) env) r1 r2)) (seq 0 n)) * rinv W.
  Proof.
    intros HP. unfold corrected_bf. rewrite single_as_map by exact HP. rewrite map_map.
    unfold spec_single. apply (suml_map_scale_r Rth).
  Qed.

  (* ---------------------------------------------------------------- two-pass kernels *)
  Lemma fold_pass1_fst batches st :
    fst (fold_left (pass1 rO radd contrib pw) batches st)
    = fold_left (fun a b => put a b (map contrib b)) batches (fst st).
  Proof.
    revert st. induction batches as [|b bs IH]; intros st; [reflexivity|].
    cbn [fold_left]. rewrite IH. reflexivity.
  Qed.

  Lemma fold_pass1_snd batches st k1 k2 :
    snd (fold_left (pass1 rO radd contrib pw) batches st) k1 k2
    = snd st k1 k2 + suml (map (fun j => pw j k1 k2) (concat batches)).
  Proof.
    revert st. induction batches as [|b bs IH]; intros st; cbn [fold_left concat map FinSum.suml]; [ring|].
    rewrite IH. unfold pass1. cbn [snd]. unfold batch_power.
    rewrite map_app, (suml_app Rth). ring.
  Qed.

  (* power accumulated over ANY partition into batches = the sum over all BF pixels *)
  Theorem power_accumulation batches k1 k2 : partition_of batches ->
    accumulated_power rO radd n contrib pw garbage batches k1 k2
    = suml (map (fun j => pw j k1 k2) (seq 0 n)).
  Proof.
    intros HP. unfold accumulated_power. rewrite fold_pass1_snd. cbn [snd].
    rewrite (suml_map_perm Rth _ _ _ HP). ring.
  Qed.

  Definition total_power : img R :=
    fun k1 k2 => suml (map (fun j => pw j k1 k2) (seq 0 n)) * rinv W.
  Definition spec_two (j : nat) : img R :=
    fun r1 r2 => re (ifft (imul rmul (imul rmul (contrib j) (normf total_power)) env) r1 r2) * rinv W.

  Definition normf_respects_grid : Prop :=
    forall P Q : img R,
      (forall k1 k2, (k1 < N1)%nat -> (k2 < N2)%nat -> P k1 k2 = Q k1 k2) ->
      forall k1 k2, (k1 < N1)%nat -> (k2 < N2)%nat -> normf P k1 k2 = normf Q k1 k2.

  Lemma two_length batches : length (rec2 batches) = n.
  Proof.
    unfold reconstruct_two, finish. cbv zeta. rewrite map_length.
    rewrite fold_put_length; [| intros a b; unfold pass2; apply put_length].
    rewrite fold_pass1_fst. cbn [fst].
    rewrite fold_put_length; [apply repeat_length | intros a b; apply put_length].
  Qed.

  Lemma two_closed batches j d r1 r2 :
    normf_respects_grid -> partition_of batches -> (j < n)%nat -> (r1 < N1)%nat -> (r2 < N2)%nat ->
    nth j (rec2 batches) d r1 r2 = spec_two j r1 r2.
  Proof.
    intros Hnf HP Hj H1 H2. unfold reconstruct_two. cbv zeta.
    assert (Hlen1 : length (fst (fold_left (pass1 rO radd contrib pw) batches
                                   (repeat garbage n, fun _ _ : nat => rO))) = n).
    { rewrite fold_pass1_fst. cbn [fst].
      rewrite fold_put_length; [apply repeat_length | intros a b; apply put_length]. }
    rewrite nth_finish.
    2:{ rewrite fold_put_length; [rewrite Hlen1; exact Hj | intros a b; unfold pass2; apply put_length]. }
    unfold pass2, get.
    rewrite (nth_fold_put_rmw (fun ff => ifft (imul rmul (imul rmul ff _) env)) garbage);
      [| exact (perm_seq_NoDup _ n HP) | rewrite Hlen1; exact Hj].
    rewrite (perm_seq_memb _ n j HP Hj).
    rewrite fold_pass1_fst. cbn [fst].
    rewrite (nth_fold_put contrib) by (rewrite repeat_length; exact Hj).
    rewrite (perm_seq_memb _ n j HP Hj).
    unfold spec_two. f_equal. f_equal.
    apply ifft_ext; try assumption. intros k1 k2 Hk1 Hk2. unfold imul. f_equal. f_equal.
    apply Hnf; try assumption. intros q1 q2 _ _. unfold total_power.
    rewrite fold_pass1_snd. cbn [snd]. rewrite (suml_map_perm Rth _ _ _ HP). ring.
  Qed.

  Theorem batch_invariant_two_any batches batches' j d r1 r2 :
    normf_respects_grid -> partition_of batches -> partition_of batches' ->
    (j < n)%nat -> (r1 < N1)%nat -> (r2 < N2)%nat ->
    nth j (rec2 batches) d r1 r2 = nth j (rec2 batches') d r1 r2.
  Proof. intros Hnf H H' Hj H1 H2. rewrite !two_closed by assumption. reflexivity. Qed.

  Theorem batch_invariant_two_lemma b j d r1 r2 :
    normf_respects_grid -> (1 <= b)%nat -> (j < n)%nat -> (r1 < N1)%nat -> (r2 < N2)%nat ->
    length (rec2 (batches_of n b)) = n /\ length (rec2 [seq 0 n]) = n /\
    nth j (rec2 (batches_of n b)) d r1 r2 = nth j (rec2 [seq 0 n]) d r1 r2.
  Proof.
    intros Hnf Hb Hj H1 H2. split; [apply two_length|]. split; [apply two_length|].
    apply batch_invariant_two_any; try assumption; [apply chunks_partition; exact Hb | apply single_batch_partition].
  Qed.

  Lemma nth_map_seq' {B : Type} (f : nat -> B) (d : B) j : (j < n)%nat -> nth j (map f (seq 0 n)) d = f j.
  Proof.
    intros Hj. rewrite (nth_indep _ d (f 0%nat)) by (rewrite map_length, seq_length; exact Hj).
    rewrite (map_nth f). rewrite seq_nth by exact Hj. reflexivity.
  Qed.

  Lemma corrected_bf_as_sum (l : list (img R)) r1 r2 : length l = n ->
    corrected_bf rO radd l r1 r2 = suml (map (fun j => nth j l garbage r1 r2) (seq 0 n)).
  Proof.
    intros Hl. unfold corrected_bf. subst n.
    rewrite (map_nth_seq (fun a : img R => a r1 r2) l garbage). reflexivity.
  Qed.

  Lemma corrected_bf_two batches r1 r2 :
    normf_respects_grid -> partition_of batches -> (r1 < N1)%nat -> (r2 < N2)%nat ->
    corrected_bf rO radd (rec2 batches) r1 r2 = suml (map (fun j => spec_two j r1 r2) (seq 0 n)).
  Proof.
    intros Hnf HP H1 H2. rewrite corrected_bf_as_sum by apply two_length.
    apply suml_map_ext. intros j Hj. apply in_seq in Hj.
    apply two_closed; try assumption. lia.
  Qed.
End Skel.

Arguments single_closed {R rO radd rmul conj half rinv N1 w1 Ninv1 N2 w2 Ninv2 n contrib wt env garbage} batches j d _ _.
Arguments two_closed {R rO rI radd rmul rsub ropp} Rth {conj} Cok {half rinv N1 w1 Ninv1 N2 w2 Ninv2} Rok1 Rok2
  {n contrib pw wt env normf garbage} batches j d r1 r2 _ _ _ _ _.
Arguments corrected_bf_single {R rO rI radd rmul rsub ropp} Rth {conj half rinv N1 w1 Ninv1 N2 w2 Ninv2 n contrib wt env garbage}
  batches r1 r2 _.
Arguments ifft_idft2 {R rO rI radd rmul rsub ropp} Rth {conj} Cok {N1 w1 Ninv1 N2 w2 Ninv2} Rok1 Rok2 X r1 r2 _ _.
Arguments ifft_ext {R rO rI radd rmul rsub ropp} Rth {conj} Cok {N1 w1 Ninv1 N2 w2 Ninv2} Rok1 Rok2 X Y r1 r2 _ _ _.
