(* C19 — update / merge / update_defaults / refresh: the one-spelling invariant is preserved
   (also by calls that raise half-way), entries under other names are not touched (frame),
   siblings survive nested updates, get-after-update for priority "new" and the
   "new-defaults" rule *)
From QV.lib Require Import Prelude.
From QV.model Require Import C19_Model.
From QV.proof Require Import C19_Proofs_Keys C19_Proofs_Set.
From Coq Require Import String Ascii.

(* ---------------------------------------------------------------- induction on trees *)
Section CfgInd.
  Variable P : cfg -> Prop.
  Hypothesis HL : forall v, P (Leaf v).
  Hypothesis HN : forall l, Forall (fun kv => P (snd kv)) l -> P (Node l).
  Fixpoint cfg_ind' (c : cfg) : P c :=
    match c with
    | Leaf v => HL v
    | Node l => HN l ((fix go (l : items) : Forall (fun kv => P (snd kv)) l :=
                        match l with
                        | [] => Forall_nil _
                        | kv :: r => Forall_cons kv (cfg_ind' (snd kv)) (go r)
                        end) l)
    end.
End CfgInd.

Lemma good_cons_inv k v l : good (Node ((k, v) :: l)) -> pure k = true /\ good v /\ good (Node l).
Proof.
  intros H. inversion H as [|? HP ND HF]; subst.
  inversion HP; subst. inversion ND; subst. inversion HF; subst. cbn [fst snd] in *.
  repeat split; try assumption. constructor; assumption.
Qed.

Lemma good_cons_fresh k v l k2 v2 :
  good (Node ((k, v) :: l)) -> In (k2, v2) l -> norm k2 <> norm k.
Proof.
  intros H I E. inversion H as [|? _ ND _]; subst. cbn [map fst] in ND. inversion ND as [|? ? Hn _]; subst.
  apply Hn. rewrite <- E. apply (in_map (fun kv => norm (fst kv)) l (k2, v2)). exact I.
Qed.

(* the key "device" has one spelling only *)
Lemma norm_eq_device k : norm k = "device"%string -> k = "device"%string.
Proof.
  unfold norm. intros H.
  destruct (bool_cases (has dash k)) as [D|D].
  - apply (has_repl_target dash under) in D. rewrite H in D. discriminate.
  - rewrite (repl_id _ _ _ D) in H. exact H.
Qed.

(* ---------------------------------------------------------------- one entry of update, locally *)
Section Upd.
  Variable validate : cfg -> err + string.

  (* the non-mapping branch: Some = the value assigned, None = left alone *)
  Definition leaf_val (prio : priority) (k' : string) (x : jval) (f : option cfg) (dv : dview)
    : option cfg * option err :=
    match prio with
    | PNew => (Some (Leaf x), None)
    | POld => match f with None => (Some (Leaf x), None) | Some _ => (None, None) end
    | PNewDefaults =>
        match f with
        | None => (Some (Leaf x), None)
        | Some ov => match dmatch dv k' ov with
                     | inl e => (None, Some e)
                     | inr true => (Some (Leaf x), None)
                     | inr false => (None, None)
                     end
        end
    end.

  Definition subof (f : option cfg) : items := match f with Some (Node ol) => ol | _ => [] end.

  (* what one (k, v) of `new` does to the entry k' = canonical_name(k, old) holding f *)
  Definition entry_val (prio : priority) (k : string) (v : cfg) (k' : string) (f : option cfg) (dv : dview)
    : option cfg * option err :=
    match check_dev validate k v with
    | inl e => (None, Some e)
    | inr (Some s) => leaf_val prio k' (JStr s) f dv
    | inr None =>
        match v with
        | Leaf x => leaf_val prio k' x f dv
        | Node _ =>
            let sub := subof f in
            match dsub dv k' with
            | inl e => (Some (Node sub), Some e)
            | inr dv' => let (sub', e) := update_cfg validate prio v sub dv' in (Some (Node sub'), e)
            end
        end
    end.

  Definition put (k' : string) (X : option cfg) (old : items) : items :=
    match X with Some c => assign k' c old | None => old end.

  Lemma leaf_step_val prio k' x old dv :
    leaf_step prio k' x old dv =
    (put k' (fst (leaf_val prio k' x (lookup k' old) dv)) old, snd (leaf_val prio k' x (lookup k' old) dv)).
  Proof.
    unfold leaf_step, leaf_val. destruct prio; try reflexivity.
    - destruct (lookup k' old); reflexivity.
    - destruct (lookup k' old) as [ov|]; [|reflexivity]. destruct (dmatch dv k' ov) as [e|[|]]; reflexivity.
  Qed.

  Lemma update_nil prio old dv : update_cfg validate prio (Node []) old dv = (old, None).
  Proof. reflexivity. Qed.

  Lemma update_unfold prio k v rest old dv :
    update_cfg validate prio (Node ((k, v) :: rest)) old dv =
    match check_dev validate k v with
    | inl e => (old, Some e)
    | inr (Some s) =>
        match leaf_step prio (canon k old) (JStr s) old dv with
        | (old', Some e) => (old', Some e)
        | (old', None) => update_cfg validate prio (Node rest) old' dv
        end
    | inr None =>
        match v with
        | Leaf x =>
            match leaf_step prio (canon k old) x old dv with
            | (old', Some e) => (old', Some e)
            | (old', None) => update_cfg validate prio (Node rest) old' dv
            end
        | Node _ =>
            let k' := canon k old in
            let sub := subdict k' old in
            match dsub dv k' with
            | inl e => (assign k' (Node sub) old, Some e)
            | inr dv' =>
                match update_cfg validate prio v sub dv' with
                | (sub', Some e) => (assign k' (Node sub') old, Some e)
                | (sub', None) => update_cfg validate prio (Node rest) (assign k' (Node sub') old) dv
                end
            end
        end
    end.
  Proof. destruct v; reflexivity. Qed.

  Lemma update_cons prio k v rest old dv :
    update_cfg validate prio (Node ((k, v) :: rest)) old dv =
    let k' := canon k old in
    let r := entry_val prio k v k' (lookup k' old) dv in
    match snd r with
    | Some e => (put k' (fst r) old, Some e)
    | None => update_cfg validate prio (Node rest) (put k' (fst r) old) dv
    end.
  Proof.
    rewrite update_unfold. unfold entry_val. cbv zeta.
    destruct (check_dev validate k v) as [e|[s|]]; cbn [fst snd put]; [reflexivity| |].
    - rewrite leaf_step_val. destruct (leaf_val prio (canon k old) (JStr s) (lookup (canon k old) old) dv) as [X [e|]];
        reflexivity.
    - destruct v as [x|l].
      + rewrite leaf_step_val. destruct (leaf_val prio (canon k old) x (lookup (canon k old) old) dv) as [X [e|]];
          reflexivity.
      + change (subdict (canon k old) old) with (subof (lookup (canon k old) old)).
        destruct (dsub dv (canon k old)) as [e|dv']; cbn [fst snd put]; [reflexivity|].
        match goal with |- context [update_cfg validate prio (Node l) ?s dv'] =>
          destruct (update_cfg validate prio (Node l) s dv') as [sub' [e|]] end; reflexivity.
  Qed.

  Lemma update_leaf prio x old dv : update_cfg validate prio (Leaf x) old dv = (old, None).
  Proof. reflexivity. Qed.

  Lemma update_app prio l1 : forall l2 old dv,
    update_cfg validate prio (Node (l1 ++ l2)) old dv =
    match update_cfg validate prio (Node l1) old dv with
    | (o1, Some e) => (o1, Some e)
    | (o1, None) => update_cfg validate prio (Node l2) o1 dv
    end.
  Proof.
    induction l1 as [|[k v] l1 IH]; intros l2 old dv.
    - rewrite update_nil. reflexivity.
    - cbn [app]. rewrite !update_cons. cbv zeta.
      destruct (snd (entry_val prio k v (canon k old) (lookup (canon k old) old) dv)); [reflexivity | apply IH].
  Qed.

  (* ------------------------------------------------------------ the invariant *)
  Lemma leaf_val_good prio k' x f dv X e : leaf_val prio k' x f dv = (Some X, e) -> good X.
  Proof.
    unfold leaf_val. destruct prio.
    - destruct f; intros H; inversion H; constructor.
    - intros H; inversion H; constructor.
    - destruct f as [ov|]; [destruct (dmatch dv k' ov) as [?|[|]]|]; intros H; inversion H; constructor.
  Qed.

  Lemma good_put k X old : good (Node old) -> pure k = true -> (forall c, X = Some c -> good c) ->
    good (Node (put (canon k old) X old)).
  Proof.
    intros G P HX. destruct X as [c|]; cbn [put]; [|exact G]. apply good_assign; auto.
  Qed.

  Lemma update_good : forall new, good new -> forall prio old dv old' e,
    good (Node old) -> update_cfg validate prio new old dv = (old', e) -> good (Node old').
  Proof.
    induction new as [x|l IHl] using cfg_ind'; intros Gn prio old dv old' e G H.
    - rewrite update_leaf in H. inversion H; subst. exact G.
    - revert old G H. induction l as [|[k v] l IH]; intros old G H.
      + rewrite update_nil in H. inversion H; subst. exact G.
      + destruct (good_cons_inv _ _ _ Gn) as [Pk [Gv Gl]].
        inversion IHl as [|? ? IHv IHl']; subst. cbn [snd] in IHv.
        rewrite update_cons in H. cbv zeta in H.
        assert (G1 : good (Node (put (canon k old)
                     (fst (entry_val prio k v (canon k old) (lookup (canon k old) old) dv)) old))).
        { apply good_put; [exact G | exact Pk|]. intros c Hc.
          unfold entry_val in Hc. destruct (check_dev validate k v) as [e1|[s|]].
          - discriminate.
          - destruct (leaf_val prio (canon k old) (JStr s) (lookup (canon k old) old) dv) as [X e1] eqn:L.
            cbn [fst] in Hc. subst X. exact (leaf_val_good _ _ _ _ _ _ _ L).
          - destruct v as [x|lv].
            + destruct (leaf_val prio (canon k old) x (lookup (canon k old) old) dv) as [X e1] eqn:L.
              cbn [fst] in Hc. subst X. exact (leaf_val_good _ _ _ _ _ _ _ L).
            + assert (Gs : good (Node (subof (lookup (canon k old) old)))).
              { unfold subof. destruct (lookup (canon k old) old) as [[y|ol]|] eqn:L; try exact good_nil.
                exact (good_lookup _ _ _ G L). }
              destruct (dsub dv (canon k old)) as [e1|dv'].
              * cbn [fst] in Hc. inversion Hc; subst. exact Gs.
              * match type of Hc with context [update_cfg validate prio (Node lv) ?s dv'] =>
                  destruct (update_cfg validate prio (Node lv) s dv') as [sub' e1] eqn:U end.
                cbn [fst] in Hc. inversion Hc; subst. exact (IHv Gv _ _ _ _ _ Gs U). }
        destruct (snd (entry_val prio k v (canon k old) (lookup (canon k old) old) dv)).
        * inversion H; subst. exact G1.
        * exact (IH IHl' Gl _ G1 H).
  Qed.

  (* ------------------------------------------------------------ frame: other names are not touched *)
  Lemma find_put_other k X old qk :
    norm k <> norm qk -> find qk (put (canon k old) X old) = find qk old.
  Proof.
    intros Hn. destruct X as [c|]; cbn [put]; [|reflexivity].
    apply find_assign_other. rewrite norm_canon. exact Hn.
  Qed.

  Lemma canon_put_other k X old qk :
    norm k <> norm qk -> canon qk (put (canon k old) X old) = canon qk old.
  Proof.
    intros Hn. destruct X as [c|]; cbn [put]; [|reflexivity].
    apply canon_assign_other. rewrite norm_canon. exact Hn.
  Qed.

  Lemma update_frame prio qk l : forall old dv old' e,
    (forall k v, In (k, v) l -> norm k <> norm qk) ->
    update_cfg validate prio (Node l) old dv = (old', e) ->
    find qk old' = find qk old /\ canon qk old' = canon qk old.
  Proof.
    induction l as [|[k v] l IH]; intros old dv old' e Hn H.
    - rewrite update_nil in H. inversion H; subst. split; reflexivity.
    - rewrite update_cons in H. cbv zeta in H.
      assert (Hk : norm k <> norm qk) by (apply (Hn k v); left; reflexivity).
      destruct (snd (entry_val prio k v (canon k old) (lookup (canon k old) old) dv)).
      + inversion H; subst. split; [apply find_put_other | apply canon_put_other]; exact Hk.
      + destruct (IH _ _ _ _ (fun k2 v2 I => Hn k2 v2 (or_intror I)) H) as [F C].
        rewrite F, C. split; [apply find_put_other | apply canon_put_other]; exact Hk.
  Qed.

  Lemma get_path_find qk qr d d' :
    find qk d' = find qk d -> get_path (qk :: qr) (Node d') = get_path (qk :: qr) (Node d).
  Proof. unfold find. cbn [get_path]. intros ->. reflexivity. Qed.

  Lemma find_put_same k X old qk :
    good (Node old) -> pure k = true -> pure qk = true -> norm k = norm qk ->
    find qk (put (canon k old) X old) = match X with Some c => Some c | None => lookup (canon k old) old end.
  Proof.
    intros G Pk Pq Hn. destruct X as [c|]; cbn [put].
    - apply find_assign_same; try assumption. apply good_keys_of. exact G.
    - symmetry. apply (find_same_norm k qk old (good_keys_of _ G) Pk Pq Hn).
  Qed.
End Upd.

(* ---------------------------------------------------------------- paths written by a mapping *)
(* the paths to the leaves (and empty mappings) of a tree *)
Fixpoint wpaths (c : cfg) : list (list string) :=
  match c with
  | Leaf _ => [[]]
  | Node l =>
      match l with
      | [] => [[]]
      | _ => flat_map (fun kv => map (cons (fst kv)) (wpaths (snd kv))) l
      end
  end.

Definition wp_items (l : items) : list (list string) :=
  flat_map (fun kv => map (cons (fst kv)) (wpaths (snd kv))) l.

Lemma wpaths_node l : l <> [] -> wpaths (Node l) = wp_items l.
Proof. destruct l; [congruence | reflexivity]. Qed.

Lemma wpaths_nonempty c : wpaths c <> [].
Proof.
  induction c as [x|l IH] using cfg_ind'; cbn [wpaths]; [discriminate|].
  destruct l as [|[k v] l]; [discriminate|]. cbn [flat_map fst snd].
  inversion IH as [|? ? Hv _]; subst. cbn [snd] in Hv.
  destruct (wpaths v); [congruence | discriminate].
Qed.

Definition nodev (q : list string) : Prop := Forall (fun k => norm k <> "device"%string) q.

Section Upd2.
  Variable validate : cfg -> err + string.

  Lemma check_dev_other k v : k <> "device"%string -> check_dev validate k v = inr None.
  Proof. intros H. unfold check_dev. destruct (String.eqb_spec k "device"); [congruence | reflexivity]. Qed.

  (* nested updates merge without dropping siblings: an entry that existed and is not on (or
     below, or above) a written path keeps its value — also when the call raises half-way *)
  Lemma update_siblings : forall new, good new -> forall prio old dv old' e q x,
    good (Node old) -> pure_path q -> nodev q ->
    (forall w, In w (wpaths new) -> diverge w q) ->
    update_cfg validate prio new old dv = (old', e) ->
    get_path q (Node old) = inr x -> get_path q (Node old') = inr x.
  Proof.
    induction new as [y|l IHl] using cfg_ind'; intros Gn prio old dv old' e q x G Pq Nq HW H Hg.
    - rewrite update_leaf in H. inversion H; subst. exact Hg.
    - destruct l as [|kv0 l0] eqn:El; [rewrite update_nil in H; inversion H; subst; exact Hg|].
      rewrite <- El in *. assert (Hne : l <> []) by (rewrite El; discriminate). clear El kv0 l0.
      rewrite (wpaths_node l Hne) in HW. clear Hne.
      revert old G H Hg. induction l as [|[k v] l IH]; intros old G H Hg.
      + rewrite update_nil in H. inversion H; subst. exact Hg.
      + destruct (good_cons_inv _ _ _ Gn) as [Pk [Gv Gl]].
        inversion IHl as [|? ? IHv IHl']; subst. cbn [snd] in IHv.
        assert (HWv : forall w, In w (wpaths v) -> diverge (k :: w) q).
        { intros w I. apply HW. unfold wp_items. cbn [flat_map fst snd]. apply in_or_app. left.
          apply in_map. exact I. }
        assert (HWl : forall w, In w (wp_items l) -> diverge w q).
        { intros w I. apply HW. unfold wp_items. cbn [flat_map]. apply in_or_app. right. exact I. }
        destruct q as [|qk qr].
        { exfalso. destruct (wpaths v) as [|w ws] eqn:Ew; [exact (wpaths_nonempty v Ew)|].
          apply (HWv w). left. reflexivity. }
        apply pure_path_cons in Pq. destruct Pq as [Pqk Pqr].
        inversion Nq as [|? ? Nqk Nqr]; subst.
        rewrite update_cons in H. cbv zeta in H.
        set (k' := canon k old) in *.
        set (r := entry_val validate prio k v k' (lookup k' old) dv) in *.
        assert (G1 : good (Node (put k' (fst r) old))).
        { pose proof (update_good validate (Node [(k, v)])) as UG.
          assert (Gkv : good (Node [(k, v)])).
          { constructor; [constructor; [exact Pk|constructor] | cbn; constructor; [intros []|constructor]
                         | constructor; [exact Gv|constructor]]. }
          destruct (snd r) as [e1|] eqn:Er.
          - apply (UG Gkv prio old dv _ (Some e1) G). rewrite update_cons. cbv zeta. fold k'. fold r. rewrite Er.
            reflexivity.
          - apply (UG Gkv prio old dv _ None G). rewrite update_cons. cbv zeta. fold k'. fold r. rewrite Er.
            apply update_nil. }
        assert (Hg1 : get_path (qk :: qr) (Node (put k' (fst r) old)) = inr x).
        { destruct (string_dec (norm k) (norm qk)) as [En|Nn].
          2:{ unfold k'. rewrite (get_path_find qk qr old _ (find_put_other k (fst r) old qk Nn)). exact Hg. }
          assert (HWq : forall w, In w (wpaths v) -> diverge w qr).
          { intros w I. specialize (HWv w I). cbn [diverge] in HWv. destruct HWv as [D|[_ D]]; [congruence | exact D]. }
          assert (Kd : k <> "device"%string).
          { intros ->. apply Nqk. rewrite <- En. reflexivity. }
          destruct v as [y|lv].
          { exfalso. apply (HWq []). left. reflexivity. }
          destruct qr as [|q2 qr].
          { exfalso. destruct (wpaths (Node lv)) as [|w ws] eqn:Ew; [exact (wpaths_nonempty _ Ew)|].
            specialize (HWq w (or_introl eq_refl)). destruct w; exact HWq. }
          (* the entry under qk holds a mapping *)
          pose proof (find_same_norm k qk old (good_keys_of _ G) Pk Pqk En) as FS. unfold find in FS. fold k' in FS.
          cbn [get_path] in Hg. rewrite <- FS in Hg.
          destruct (lookup k' old) as [[z|sub]|] eqn:L; try discriminate.
          cbn [get_path]. fold (find qk (put k' (fst r) old)).
          unfold k'. rewrite (find_put_same k (fst r) old qk G Pk Pqk En). fold k'.
          unfold r, entry_val. rewrite (check_dev_other k (Node lv) Kd).
          cbn [subof].
          destruct (dsub dv k') as [e1|dv']; cbn [fst]; [exact Hg|].
          destruct (update_cfg validate prio (Node lv) sub dv') as [sub' e1] eqn:U. cbn [fst].
          exact (IHv Gv prio sub dv' sub' e1 (q2 :: qr) x (good_lookup _ _ _ G L) Pqr Nqr HWq U Hg). }
        destruct (snd r).
        * inversion H; subst. exact Hg1.
        * exact (IH IHl' Gl HWl _ G1 H Hg1).
  Qed.

  (* ------------------------------------------------------------ priority "new": get after update *)
  Lemma lookup_split k c (l : items) :
    lookup k l = Some c -> exists l1 l2, l = l1 ++ (k, c) :: l2.
  Proof. intros H. apply lookup_In in H. apply in_split in H. exact H. Qed.

  Lemma NoDup_app_parts (A : Type) (a b : list A) : NoDup (a ++ b) -> NoDup a /\ NoDup b.
  Proof.
    induction a as [|x a IH]; cbn [app]; intros H; [split; [constructor | exact H]|].
    inversion H as [|? ? Hn H']; subst. destruct (IH H') as [Ha Hb]. split; [|exact Hb].
    constructor; [|exact Ha]. intros I. apply Hn. apply in_or_app. left. exact I.
  Qed.

  Lemma good_app_inv l1 k c l2 :
    good (Node (l1 ++ (k, c) :: l2)) ->
    good (Node l1) /\ good (Node ((k, c) :: l2)) /\
    (forall k2 v2, In (k2, v2) l1 -> norm k2 <> norm k) /\
    (forall k2 v2, In (k2, v2) l2 -> norm k2 <> norm k).
  Proof.
    intros H. inversion H as [|? HP ND HF]; subst.
    apply Forall_app in HP. destruct HP as [HP1 HP2]. apply Forall_app in HF. destruct HF as [HF1 HF2].
    rewrite map_app in ND. destruct (NoDup_app_parts _ _ _ ND) as [ND1 ND2].
    repeat split.
    - constructor; assumption.
    - constructor; assumption.
    - intros k2 v2 I E. cbn [map fst] in ND. apply NoDup_remove_2 in ND. apply ND.
      apply in_or_app. left. rewrite <- E. apply (in_map (fun kv => norm (fst kv)) l1 (k2, v2)). exact I.
    - intros k2 v2 I E. cbn [map fst] in ND. apply NoDup_remove_2 in ND. apply ND.
      apply in_or_app. right. rewrite <- E. apply (in_map (fun kv => norm (fst kv)) l2 (k2, v2)). exact I.
  Qed.

  (* after update(old, new) [priority "new"] every leaf of `new` reads back from `old`, under
     either spelling of its path *)
  Lemma update_new_get : forall new, good new -> forall old dv old' q q' x,
    good (Node old) -> pure_path q -> pure_path q' -> nodev q -> same_path q q' -> q <> [] ->
    get_path q new = inr (Leaf x) ->
    update_cfg validate PNew new old dv = (old', None) ->
    get_path q' (Node old') = inr (Leaf x).
  Proof.
    induction new as [y|l IHl] using cfg_ind'; intros Gn old dv old' q q' x G Pq Pq' Nq Sq Hq Hg H.
    - destruct q; [congruence|discriminate].
    - destruct q as [|qk qr]; [congruence|]. destruct q' as [|qk' qr']; [discriminate|].
      unfold same_path in Sq. cbn [map] in Sq. injection Sq as En Sr.
      apply pure_path_cons in Pq. destruct Pq as [Pqk Pqr]. apply pure_path_cons in Pq'. destruct Pq' as [Pqk' Pqr'].
      inversion Nq as [|? ? Nqk Nqr]; subst.
      cbn [get_path] in Hg. remember (canon qk l) as k eqn:Hk.
      assert (Ek : norm k = norm qk) by (rewrite Hk; apply norm_canon). clear Hk.
      destruct (lookup k l) as [c|] eqn:L; [|discriminate].
      destruct (lookup_split _ _ _ L) as [l1 [l2 El]]. clear L.
      rewrite El in Gn, H, IHl. destruct (good_app_inv _ _ _ _ Gn) as [G1 [G2 [N1 N2]]].
      destruct (good_cons_inv _ _ _ G2) as [Pk [Gc Gl2]].
      apply Forall_app in IHl. destruct IHl as [_ IHl]. inversion IHl as [|? ? IHc _]; subst. cbn [snd] in IHc.
      rewrite update_app in H.
      destruct (update_cfg validate PNew (Node l1) old dv) as [o1 [e1|]] eqn:U1; [discriminate|].
      assert (Go1 : good (Node o1)) by exact (update_good validate _ G1 _ _ _ _ _ G U1).
      rewrite update_cons in H. cbv zeta in H.
      set (k' := canon k o1) in *.
      set (r := entry_val validate PNew k c k' (lookup k' o1) dv) in *.
      destruct (snd r) as [e2|] eqn:Er; [discriminate|].
      assert (N2' : forall k2 v2, In (k2, v2) l2 -> norm k2 <> norm qk').
      { intros k2 v2 I. rewrite <- En, <- Ek. exact (N2 k2 v2 I). }
      destruct (update_frame validate PNew qk' l2 _ _ _ _ N2' H) as [F _].
      rewrite (get_path_find qk' qr' _ _ F).
      cbn [get_path]. fold (find qk' (put k' (fst r) o1)). unfold k'.
      rewrite (find_put_same k (fst r) o1 qk' Go1 Pk Pqk' (eq_trans Ek En)). fold k'.
      assert (Kd : k <> "device"%string).
      { intros E. apply Nqk. rewrite <- Ek, E. reflexivity. }
      unfold r, entry_val in *. rewrite (check_dev_other k c Kd) in *.
      destruct c as [y|lc].
      + destruct qr as [|q2 qr]; [|discriminate]. destruct qr' as [|? ?]; [|discriminate].
        cbn [get_path] in Hg. cbn [leaf_val fst get_path]. exact Hg.
      + destruct qr as [|q2 qr]; [discriminate|].
        destruct (dsub dv k') as [e3|dv']; [cbn [snd] in Er; discriminate|].
        destruct (update_cfg validate PNew (Node lc) _ dv') as [sub' e3] eqn:U. cbn [fst snd] in *. subst e3.
        refine (IHc Gc _ dv' sub' (q2 :: qr) qr' x _ Pqr Pqr' Nqr Sr _ Hg U); [|discriminate].
        destruct (lookup k' o1) as [[z|ol]|] eqn:Lo; try exact good_nil. exact (good_lookup _ _ _ Go1 Lo).
  Qed.
End Upd2.
