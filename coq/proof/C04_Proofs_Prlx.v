(* C04 — the analytic parallax identities: zeroed DC = mean subtraction, Fourier-space tiling =
   zero-insertion upsampling, phase ramp = translation. *)
From Coq Require Import ZArith List Bool Arith Lia Ring Permutation.
From QV.lib Require Import Prelude Chunks FinSum DFT DFT2.
From QV.model Require Import C04_Model.
From QV.proof Require Import C04_Proofs_Base C04_Proofs C04_Proofs_Front.
Import ListNotations.
Unset Implicit Arguments.

Section Prlx.
  Variable R : Type.
  Variables (rO rI : R) (radd rmul rsub : R -> R -> R) (ropp : R -> R).
  Variable Rth : ring_theory rO rI radd rmul rsub ropp (@eq R).
  Add Ring RringC04p : Rth.
  Variable conj : R -> R.
  Hypothesis Cok : conj_ok radd rmul conj.
  Variables (half : R) (rinv : R -> R).

  Infix "+" := radd.  Infix "*" := rmul.  Infix "-" := rsub.
  Notation "0" := rO.  Notation "1" := rI.
  Notation sumn := (sumn rO radd).
  Notation suml := (suml rO radd).

  (* ---------------------------------------------------------------- 1-D: spectrum of a zero-inserted signal *)
  Section Up1.
    Variables (n N u : nat) (ws w : Z -> R).
    Hypothesis Hu : (1 <= u)%nat.
    Hypothesis HN : N = (n * u)%nat.
    Hypothesis Hws : forall a : Z, ws a = w (Z.of_nat u * a)%Z.

    Definition up1 (y : nat -> R) : nat -> R := fun m => if (m mod u =? 0)%nat then y (m / u)%nat else 0.

    Lemma sumn_up (f : nat -> R) (nn : nat) :
      sumn (nn * u) (fun m => if (m mod u =? 0)%nat then f (m / u)%nat else 0) = sumn nn f.
    Proof.
      induction nn as [|k IH]; [reflexivity|].
      replace (S k * u)%nat with (k * u + u)%nat by lia.
      rewrite (sumn_split Rth), IH. cbn [FinSum.sumn]. f_equal.
      rewrite (sumn_single Rth u _ 0%nat); [| lia |].
      2:{ intros i Hi Hne.
          assert (E : ((k * u + i) mod u = i)%nat).
          { rewrite Nat.add_comm, Nat.mod_add by lia. apply Nat.mod_small. lia. }
          rewrite E. destruct (Nat.eqb_spec i 0); [lia | reflexivity]. }
      rewrite Nat.add_0_r, Nat.mod_mul by lia. cbn [Nat.eqb].
      rewrite Nat.div_mul by lia. reflexivity.
    Qed.

    Lemma dft_up1 y k : dft rO radd rmul N w (up1 y) k = dft rO radd rmul n ws y k.
    Proof.
      unfold dft. rewrite HN.
      rewrite (sumn_ext Rth _ _
                 (fun m => if (m mod u =? 0)%nat
                           then (fun t => y t * w (Z.of_nat k * (Z.of_nat u * Z.of_nat t))%Z) (m / u)%nat else 0)).
      - rewrite (sumn_up (fun t => y t * w (Z.of_nat k * (Z.of_nat u * Z.of_nat t))%Z) n). apply (sumn_ext Rth). intros t _. rewrite Hws. f_equal. f_equal. lia.
      - intros m _. unfold up1. destruct (Nat.eqb_spec (m mod u) 0) as [E|E]; [|ring].
        f_equal. f_equal. f_equal.
        pose proof (Nat.div_mod m u ltac:(lia)) as Hm. rewrite E, Nat.add_0_r in Hm.
        rewrite Hm at 1. apply Nat2Z.inj_mul.
    Qed.

    Lemma dft_zero k : dft rO radd rmul N w (fun _ => 0) k = 0.
    Proof.
      unfold dft. rewrite (sumn_ext Rth _ _ (fun _ => 0)) by (intros; ring). apply (sumn_zero Rth).
    Qed.
  End Up1.

  (* periodicity of the spectrum in the frequency index *)
  Lemma dft_mod_k (n : nat) (ws : Z -> R) (ninv : R) (Rok : root_ok rO rI radd rmul conj n ws ninv) y k :
    dft rO radd rmul n ws y (k mod n) = dft rO radd rmul n ws y k.
  Proof.
    pose proof (ro_pos _ _ _ _ _ _ _ _ _ Rok) as Hn.
    unfold dft. apply (sumn_ext Rth). intros t _. f_equal.
    apply (w_periodic Rth Cok Rok).
    rewrite Nat2Z.inj_mod. rewrite Zmult_mod_idemp_l. reflexivity.
  Qed.

  (* ---------------------------------------------------------------- the two grids *)
  Variables (n1 : nat) (ws1 : Z -> R) (ninv1 : R) (n2 : nat) (ws2 : Z -> R) (ninv2 : R).
  Hypothesis Roks1 : root_ok rO rI radd rmul conj n1 ws1 ninv1.
  Hypothesis Roks2 : root_ok rO rI radd rmul conj n2 ws2 ninv2.
  Variables (N1 : nat) (w1 : Z -> R) (Ninv1 : R) (N2 : nat) (w2 : Z -> R) (Ninv2 : R).
  Hypothesis Rok1 : root_ok rO rI radd rmul conj N1 w1 Ninv1.
  Hypothesis Rok2 : root_ok rO rI radd rmul conj N2 w2 Ninv2.
  (* upsampling factor u: N = n * u and the scan-grid roots are the u-th powers *)
  Variable u : nat.
  Hypothesis Hu : (1 <= u)%nat.
  Hypothesis HN1 : N1 = (n1 * u)%nat.
  Hypothesis HN2 : N2 = (n2 * u)%nat.
  Hypothesis Hws1 : forall a : Z, ws1 a = w1 (Z.of_nat u * a)%Z.
  Hypothesis Hws2 : forall a : Z, ws2 a = w2 (Z.of_nat u * a)%Z.

  Notation dft2s := (dft2 rO radd rmul n1 ws1 n2 ws2).
  Notation dft2b := (dft2 rO radd rmul N1 w1 N2 w2).
  Notation fmul2b := (fmul2 rO radd rmul N1 w1 Ninv1 N2 w2 Ninv2).
  Notation sum2s := (sum2 rO radd n1 n2).
  Notation up2 := (upsample2 rO u).
  Notation pre := (preprocess rO radd rmul n1 n2 ws1 ws2).
  Notation tl := (tile n1 n2).
  Notation re := (re_part radd rmul conj half).

  (* the mean-subtracted image *)
  Definition centred (v : img R) : img R := fun i j => v i j - ninv1 * ninv2 * sum2s v.

  Lemma dft2_up2 y k1 k2 : dft2b (up2 y) k1 k2 = dft2s y k1 k2.
  Proof.
    unfold dft2.
    rewrite (dft_ext Rth Cok Rok1 _
               (up1 u (fun t => dft rO radd rmul n2 ws2 (fun m2 => y t m2) k2))).
    - apply (dft_up1 n1 N1 u ws1 w1 Hu HN1 Hws1).
    - intros m1 _. unfold up1, upsample2. destruct (m1 mod u =? 0)%nat; cbn [andb].
      + apply (dft_up1 n2 N2 u ws2 w2 Hu HN2 Hws2 (fun m2 => y (m1 / u)%nat m2)).
      + apply dft_zero.
  Qed.

  Lemma dft2s_mod y k1 k2 : dft2s y (k1 mod n1) (k2 mod n2) = dft2s y k1 k2.
  Proof.
    unfold dft2. rewrite (dft_mod_k n1 ws1 ninv1 Roks1).
    apply (dft_ext Rth Cok Roks1). intros m1 _. apply (dft_mod_k n2 ws2 ninv2 Roks2).
  Qed.

  (* zeroing the DC bin of the spectrum = transforming the mean-subtracted image *)
  Lemma zero_dc_centred v k1 k2 : (k1 < n1)%nat -> (k2 < n2)%nat ->
    pre v k1 k2 = dft2s (centred v) k1 k2.
  Proof.
    intros H1 H2.
    rewrite (dft2_ext Rth Cok Roks1 Roks2 (centred v)
               (fmul2 rO radd rmul n1 ws1 ninv1 n2 ws2 ninv2 (dc_mask2 rO rI) v)).
    2:{ intros i j Hi Hj. unfold centred. symmetry. apply (fmul2_zero_dc Rth Cok Roks1 Roks2); assumption. }
    unfold fmul2. rewrite (dft2_idft2 Rth Cok Roks1 Roks2) by assumption.
    unfold preprocess, zero_dc, dc_mask2.
    destruct k1, k2; try ring; rewrite (dft2_m_eq Rth Cok Roks1 Roks2) by assumption; ring.
  Qed.

  (* tiled, DC-zeroed spectrum = spectrum (on the big grid) of the zero-inserted centred image *)
  Lemma tile_pre_eq v k1 k2 : tl (pre v) k1 k2 = dft2b (up2 (centred v)) k1 k2.
  Proof.
    pose proof (ro_pos _ _ _ _ _ _ _ _ _ Roks1). pose proof (ro_pos _ _ _ _ _ _ _ _ _ Roks2).
    unfold tile. rewrite zero_dc_centred by (apply Nat.mod_upper_bound; lia).
    rewrite dft2s_mod. symmetry. apply dft2_up2.
  Qed.

  (* ---------------------------------------------------------------- the parallax kernel *)
  Variable g : nat * nat -> img R.          (* exp(-i grad_k . q) * sign(sin chi(q)) per detector pixel *)
  Variable wtd : nat * nat -> R.
  Variables (env garbage : img R).
  Variable stack : nat -> img R.

  Notation Wm sub := (bf_weights rO radd (ctx_n sub) (ctx_wt wtd sub)).
  Notation recp := (recon_mask_single rO radd rmul conj half rinv n1 n2 ws1 ws2 N1 N2 w1 w2 Ninv1 Ninv2
                      (kern_mult rmul g) wtd stack env garbage).
  Definition vimg (full sub : mask2) (j : nat) : img R := stack (nth j (index_map full sub) 0%nat).

  (* general form: each image is mean-subtracted, zero-inserted, passed through the Fourier
     multiplier (ramp * envelope); real part; divided by the aperture weight *)
  Theorem parallax_multiplier_lemma full sub b j d r1 r2 :
    (1 <= b)%nat -> (j < ctx_n sub)%nat -> (r1 < N1)%nat -> (r2 < N2)%nat ->
    nth j (recp full sub b) d r1 r2
    = re (fmul2b (fun k1 k2 => g (ctx_pix sub j) k1 k2 * env k1 k2) (up2 (centred (vimg full sub j))) r1 r2)
      * rinv (Wm sub).
  Proof.
    intros Hb Hj H1 H2.
    rewrite mask_single_closed by assumption.
    rewrite (ifft_idft2 Rth Cok Rok1 Rok2) by assumption.
    unfold fmul2. f_equal. f_equal.
    apply (idft2_ext Rth Cok Rok1 Rok2). intros k1 k2 _ _.
    unfold imul, ctx_contrib, kern_mult, vimg. rewrite tile_pre_eq. ring.
  Qed.

  Hypothesis half_ok : half * (1 + 1) = 1.

  Lemma re_of_real x : conj x = x -> re x = x.
  Proof.
    intros H. unfold re_part. rewrite H.
    transitivity (x * (half * (1 + 1))); [ring | rewrite half_ok; ring].
  Qed.

  Lemma conj_ninv (n : nat) (ws : Z -> R) (ninv : R) (Rok : root_ok rO rI radd rmul conj n ws ninv) :
    conj ninv = ninv.
  Proof.
    pose proof (ro_inv _ _ _ _ _ _ _ _ _ Rok) as Hi.
    transitivity (conj ninv * (ninv * of_nat rO rI radd n)); [rewrite Hi; ring|].
    transitivity (conj (ninv * of_nat rO rI radd n) * ninv).
    - rewrite (conj_mul _ _ _ _ Cok), (conj_of_nat Rth Cok). ring.
    - rewrite Hi, (conj_1 Rth Cok). ring.
  Qed.

  Definition real_img (v : img R) : Prop := forall i j, conj (v i j) = v i j.

  Lemma centred_real v : real_img v -> real_img (centred v).
  Proof.
    intros Hv i j. unfold centred.
    rewrite (conj_sub Rth Cok), !(conj_mul _ _ _ _ Cok), (conj_ninv _ _ _ Roks1), (conj_ninv _ _ _ Roks2), Hv.
    f_equal. f_equal. unfold sum2. rewrite (conj_sumn Rth Cok). apply (sumn_ext Rth). intros a _.
    rewrite (conj_sumn Rth Cok). apply (sumn_ext Rth). intros c _. apply Hv.
  Qed.

  Lemma up2_real y : real_img y -> real_img (up2 y).
  Proof.
    intros Hy i j. unfold upsample2. destruct ((i mod u =? 0)%nat && (j mod u =? 0)%nat)%bool;
      [apply Hy | apply (conj_0 Rth Cok)].
  Qed.

  (* zero aberrations, no sign flipping, no filters: multiplier = 1 *)
  Theorem parallax_zero_aberration_lemma full sub b j d r1 r2 :
    (forall p k1 k2, (k1 < N1)%nat -> (k2 < N2)%nat -> g p k1 k2 = 1) ->
    (forall k1 k2, (k1 < N1)%nat -> (k2 < N2)%nat -> env k1 k2 = 1) ->
    real_img (vimg full sub j) ->
    (1 <= b)%nat -> (j < ctx_n sub)%nat -> (r1 < N1)%nat -> (r2 < N2)%nat ->
    nth j (recp full sub b) d r1 r2 = up2 (centred (vimg full sub j)) r1 r2 * rinv (Wm sub).
  Proof.
    intros Hg He Hv Hb Hj H1 H2. rewrite parallax_multiplier_lemma by assumption.
    rewrite (fmul2_ext Rth Cok Rok1 Rok2 _ (fun _ _ => 1) _ (up2 (centred (vimg full sub j)))).
    - rewrite (fmul2_one Rth Cok Rok1 Rok2) by assumption.
      rewrite re_of_real; [reflexivity|]. apply up2_real, centred_real, Hv.
    - intros k1 k2 Hk1 Hk2. rewrite Hg, He by assumption. ring.
    - reflexivity.
  Qed.

  (* integer pixel shifts: the phase ramp is the circular translation *)
  Theorem parallax_integer_shift_lemma (s1 s2 : nat * nat -> Z) full sub b j d r1 r2 :
    (forall p k1 k2, (k1 < N1)%nat -> (k2 < N2)%nat ->
        g p k1 k2 = w1 (Z.of_nat k1 * s1 p)%Z * w2 (Z.of_nat k2 * s2 p)%Z) ->
    (forall k1 k2, (k1 < N1)%nat -> (k2 < N2)%nat -> env k1 k2 = 1) ->
    real_img (vimg full sub j) ->
    (1 <= b)%nat -> (j < ctx_n sub)%nat -> (r1 < N1)%nat -> (r2 < N2)%nat ->
    nth j (recp full sub b) d r1 r2
    = roll2 N1 N2 (s1 (ctx_pix sub j)) (s2 (ctx_pix sub j)) (up2 (centred (vimg full sub j))) r1 r2
      * rinv (Wm sub).
  Proof.
    intros Hg He Hv Hb Hj H1 H2. rewrite parallax_multiplier_lemma by assumption.
    rewrite (fmul2_ext Rth Cok Rok1 Rok2 _
               (fun k1 k2 => w1 (Z.of_nat k1 * s1 (ctx_pix sub j))%Z * w2 (Z.of_nat k2 * s2 (ctx_pix sub j))%Z)
               _ (up2 (centred (vimg full sub j)))).
    - rewrite (fmul2_ramp_is_roll2 Rth Cok Rok1 Rok2) by assumption.
      rewrite re_of_real; [reflexivity|]. unfold roll2. apply up2_real, centred_real, Hv.
    - intros k1 k2 Hk1 Hk2. rewrite Hg, He by assumption. ring.
    - reflexivity.
  Qed.

  (* the summed image (corrected_bf) *)
  Lemma bf_from_pixels full sub b r1 r2 (F : nat -> R) :
    (1 <= b)%nat ->
    (forall j d, (j < ctx_n sub)%nat -> nth j (recp full sub b) d r1 r2 = F j * rinv (Wm sub)) ->
    corrected_bf rO radd (recp full sub b) r1 r2 = suml (map F (seq 0 (ctx_n sub))) * rinv (Wm sub).
  Proof.
    intros Hb HF.
    rewrite (corrected_bf_as_sum R rO radd (ctx_n sub) garbage).
    2:{ unfold recon_mask_single. apply single_length. }
    rewrite <- (suml_map_scale_r Rth). apply suml_map_ext. intros j Hj. apply in_seq in Hj.
    apply HF. lia.
  Qed.

  Theorem parallax_zero_aberration_bf_lemma full sub b r1 r2 :
    (forall p k1 k2, (k1 < N1)%nat -> (k2 < N2)%nat -> g p k1 k2 = 1) ->
    (forall k1 k2, (k1 < N1)%nat -> (k2 < N2)%nat -> env k1 k2 = 1) ->
    (forall m, real_img (stack m)) ->
    (1 <= b)%nat -> (r1 < N1)%nat -> (r2 < N2)%nat ->
    corrected_bf rO radd (recp full sub b) r1 r2
    = suml (map (fun j => up2 (centred (vimg full sub j)) r1 r2) (seq 0 (ctx_n sub))) * rinv (Wm sub).
  Proof.
    intros Hg He Hv Hb H1 H2. apply bf_from_pixels; [exact Hb|]. intros j d Hj.
    apply parallax_zero_aberration_lemma; try assumption. apply Hv.
  Qed.

  Theorem parallax_integer_shift_bf_lemma (s1 s2 : nat * nat -> Z) full sub b r1 r2 :
    (forall p k1 k2, (k1 < N1)%nat -> (k2 < N2)%nat ->
        g p k1 k2 = w1 (Z.of_nat k1 * s1 p)%Z * w2 (Z.of_nat k2 * s2 p)%Z) ->
    (forall k1 k2, (k1 < N1)%nat -> (k2 < N2)%nat -> env k1 k2 = 1) ->
    (forall m, real_img (stack m)) ->
    (1 <= b)%nat -> (r1 < N1)%nat -> (r2 < N2)%nat ->
    corrected_bf rO radd (recp full sub b) r1 r2
    = suml (map (fun j => roll2 N1 N2 (s1 (ctx_pix sub j)) (s2 (ctx_pix sub j))
                               (up2 (centred (vimg full sub j))) r1 r2) (seq 0 (ctx_n sub)))
      * rinv (Wm sub).
  Proof.
    intros Hg He Hv Hb H1 H2. apply bf_from_pixels; [exact Hb|]. intros j d Hj.
    apply parallax_integer_shift_lemma; try assumption. apply Hv.
  Qed.

  Theorem parallax_multiplier_bf_lemma full sub b r1 r2 :
    (1 <= b)%nat -> (r1 < N1)%nat -> (r2 < N2)%nat ->
    corrected_bf rO radd (recp full sub b) r1 r2
    = suml (map (fun j => re (fmul2b (fun k1 k2 => g (ctx_pix sub j) k1 k2 * env k1 k2)
                                     (up2 (centred (vimg full sub j))) r1 r2)) (seq 0 (ctx_n sub)))
      * rinv (Wm sub).
  Proof.
    intros Hb H1 H2. apply bf_from_pixels; [exact Hb|]. intros j d Hj.
    apply parallax_multiplier_lemma; assumption.
  Qed.
End Prlx.
